import NodisVerif.Proofs.C03Api
/-
  C03, API level: every single-key hash / set command preserves the representation relation
  between the store and one well-formed collection value, and answers like the data-structure
  function. Used by Props/C03.lean for the "every sequence of commands" theorems.
-/
namespace NodisVerif.Proofs.C03Seq
open NodisVerif.Proofs.AListLemmas NodisVerif.Proofs.AListLemmas2 NodisVerif.Proofs.C03 NodisVerif.Proofs.C03Api
open Store Api

/-! ### index well-formedness is preserved by every store primitive used here -/

theorem fresh_index (s : MState) : (fresh s).2.index = s.index := rfl

/-- `newKeyWith` publishes one record; the rest of the index is untouched (it may drop a backend
    entry of a dead record it replaces: only `.disk` changes) -/
theorem newKeyWith_index (s : MState) (key : Bytes) (old : Option Meta) (v : Val) :
    ∃ m, (newKeyWith s key old v).index = AList.set s.index key m := by
  unfold newKeyWith fresh
  simp only [putMeta]
  refine ⟨(({ (match old with | some m => m | none => { exp := 0, value := none }) with
              exp := 0, kid := s.nextId, oid := s.nextId + 1 } : Meta).setValue v).markModified, ?_⟩
  congr 1
  split
  · rw [unpersist_index]
  · rfl

theorem newKeyWith_sorted (s : MState) (key : Bytes) (old : Option Meta) (v : Val) (h : IndexSorted s) :
    IndexSorted (newKeyWith s key old v) := by
  obtain ⟨m, hm⟩ := newKeyWith_index s key old v
  unfold IndexSorted
  rw [hm]
  exact set_preserves_sorted _ h _ _

theorem writeKey_sorted (s : MState) (now : Int) (key : Bytes) (mk : Option Val) (h : IndexSorted s) :
    IndexSorted (writeKey s now key mk).1 := by
  have h1 : ∀ m, IndexSorted (putMeta (lockW s key) key m) := fun m => putMeta_sorted _ _ _ (lockW_sorted _ _ h)
  unfold writeKey
  split
  · simp only
    repeat' split
    all_goals first
      | exact h1 _
      | exact newKeyWith_sorted _ _ _ _ (h1 _)
      | exact putMeta_sorted _ _ _ (h1 _)
  · split
    · exact newKeyWith_sorted _ _ _ _ h
    · exact h

theorem readKey_sorted (s : MState) (now : Int) (key : Bytes) (h : IndexSorted s) :
    IndexSorted (readKey s now key).1 := by
  have h1 : ∀ m, IndexSorted (putMeta (lockR s key) key m) := fun m => putMeta_sorted _ _ _ (lockR_sorted _ _ h)
  unfold readKey
  split
  · simp only
    repeat' split
    all_goals first
      | exact h1 _
      | exact putMeta_sorted _ _ _ (h1 _)
  · exact h

theorem emit_index (s : MState) (op : FeedOp) : (emit s op).index = s.index := by
  unfold emit; split <;> rfl

theorem emit_sorted (s : MState) (op : FeedOp) (h : IndexSorted s) : IndexSorted (emit s op) := by
  unfold IndexSorted; rw [emit_index]; exact h

theorem signal_sorted (s : MState) (k : Bytes) (h : IndexSorted s) : IndexSorted (signal s k) := by
  unfold signal modMeta
  cases getMeta s k with
  | none => exact h
  | some m => exact putMeta_sorted s k _ h

theorem delKey_sorted (s : MState) (k : Bytes) (h : IndexSorted s) : IndexSorted (delKey s k) := by
  unfold IndexSorted; rw [delKey_index]; exact erase_preserves_sorted _ h _

theorem close_write (s1 : MState) (key : Bytes) (v v' : Val) (now : Int) (op : FeedOp)
    (h : Hot s1 key v now) (hi : IndexSorted s1) :
    Hot (emit (signal (setVal s1 key v') key) op) key v' now ∧
    IndexSorted (emit (signal (setVal s1 key v') key) op) :=
  ⟨hot_after_write s1 key v v' now op h, emit_sorted _ _ (signal_sorted _ _ (setVal_sorted _ _ _ hi))⟩

theorem close_signal (s1 : MState) (key : Bytes) (v : Val) (now : Int) (op : FeedOp)
    (h : Hot s1 key v now) (hi : IndexSorted s1) :
    Hot (emit (signal s1 key) op) key v now ∧ IndexSorted (emit (signal s1 key) op) := by
  refine ⟨?_, emit_sorted _ _ (signal_sorted _ _ hi)⟩
  obtain ⟨m, hm, hok, hexp, hv⟩ := h
  refine ⟨m.markModified, ?_, ?_, ?_, ?_⟩
  · rw [getMeta_emit, getMeta_signal_same, hm]; rfl
  · rw [markModified_isOk]; exact hok
  · rw [markModified_expired]; exact hexp
  · exact hv

/-- common tail of SREM / SPOP / HDEL, with index well-formedness -/
theorem close_delete (s1 : MState) (key : Bytes) (v v' : Val) (now : Int) (op : FeedOp) (c : Prop) [Decidable c]
    (h : Hot s1 key v now) (hi : IndexSorted s1) :
    (c → Absent (emit (signal (if c then delKey (setVal s1 key v') key else setVal s1 key v') key) op) key now) ∧
    (¬ c → Hot (emit (signal (if c then delKey (setVal s1 key v') key else setVal s1 key v') key) op) key v' now) ∧
    IndexSorted (emit (signal (if c then delKey (setVal s1 key v') key else setVal s1 key v') key) op) := by
  obtain ⟨t1, t2⟩ := tail_state s1 key v v' now op c h hi
  refine ⟨?_, t2, ?_⟩
  · intro hc m hm
    rw [t1 hc] at hm
    cases hm
  · apply emit_sorted
    apply signal_sorted
    split
    · exact delKey_sorted _ _ (setVal_sorted _ _ _ hi)
    · exact setVal_sorted _ _ _ hi

/-! ### opening a key for writing with a constructor: a missing key becomes the empty collection -/

theorem setValue_isOk (m : Meta) (v : Val) : (m.setValue v).isOk = true := by
  simp only [Meta.setValue, Meta.isOk]
  split
  · next h => exact decide_eq_true h
  · next h => exact decide_eq_true (by omega)

theorem newKeyWith_hot (s : MState) (key : Bytes) (old : Option Meta) (v : Val) (now : Int) :
    Hot (newKeyWith s key old v) key v now := by
  unfold newKeyWith fresh
  simp only
  refine ⟨_, getMeta_putMeta_same _ _ _, ?_, ?_, ?_⟩
  · rw [markModified_isOk]; exact setValue_isOk _ _
  · simp [Meta.markModified, Meta.setValue, Meta.expired]
  · simp [Meta.markModified, Meta.setValue]

theorem writeKey_absent_some (s : MState) (now : Int) (k : Bytes) (v : Val) (h : Absent s k now) :
    Hot (writeKey s now k (some v)).1 k v now := by
  unfold writeKey
  cases hm : getMeta s k with
  | none => exact newKeyWith_hot _ _ _ _ _
  | some m0 =>
    have h1 : ({ m0 with count := m0.count + 1 } : Meta).isOk = m0.isOk := rfl
    have h2 : ({ m0 with count := m0.count + 1 } : Meta).expired now = m0.expired now := rfl
    simp only [h1, h2]
    rcases h m0 hm with hok | hexp
    · simp only [hok, Bool.false_eq_true, if_false]
      exact newKeyWith_hot _ _ _ _ _
    · cases hok : m0.isOk with
      | false => simp only [Bool.false_eq_true, if_false]; exact newKeyWith_hot _ _ _ _ _
      | true => simp only [hexp, if_true]; exact newKeyWith_hot _ _ _ _ _


/-! ### representation relations -/

/-- the store represents the hash `h` under `key`: a missing key is the empty hash -/
def HashRel (s : MState) (key : Bytes) (now : Int) (h : AList Bytes) : Prop :=
  AList.Sorted h ∧ ((h = [] ∧ Absent s key now) ∨ (h ≠ [] ∧ Hot s key (.hash h) now))

/-- the store represents the set `st` under `key`: a missing key is the empty set -/
def SetRel (s : MState) (key : Bytes) (now : Int) (st : AList Unit) : Prop :=
  AList.Sorted st ∧ ((st = [] ∧ Absent s key now) ∨ (st ≠ [] ∧ Hot s key (.set st) now))

theorem set_ne_nil {V : Type} (m : AList V) (k : Bytes) (v : V) : AList.set m k v ≠ [] := by
  intro h
  have := get?_set_same m k v
  rw [h] at this
  simp [AList.get?] at this

theorem ne_nil_of_contains {V : Type} (m : AList V) (k : Bytes) (h : AList.contains m k = true) : m ≠ [] := by
  intro e; subst e; simp [AList.contains, AList.get?] at h

theorem ne_nil_of_length {α : Type} (l : List α) (h : ¬ (l.length : Int) = 0) : l ≠ [] := by
  intro e; subst e; simp at h

theorem open_hash (s : MState) (now : Int) (key : Bytes) (h : AList Bytes) (hr : HashRel s key now h)
    (hi : IndexSorted s) :
    Hot (writeKey s now key (some (.hash []))).1 key (.hash h) now ∧
    IndexSorted (writeKey s now key (some (.hash []))).1 := by
  refine ⟨?_, writeKey_sorted s now key _ hi⟩
  rcases hr.2 with ⟨rfl, ha⟩ | ⟨_, hh⟩
  · exact writeKey_absent_some s now key _ ha
  · exact (hot_after_writeKey s now key _ _ hh).2

theorem open_set (s : MState) (now : Int) (key : Bytes) (st : AList Unit) (hr : SetRel s key now st)
    (hi : IndexSorted s) :
    Hot (writeKey s now key (some (.set []))).1 key (.set st) now ∧
    IndexSorted (writeKey s now key (some (.set []))).1 := by
  refine ⟨?_, writeKey_sorted s now key _ hi⟩
  rcases hr.2 with ⟨rfl, ha⟩ | ⟨_, hh⟩
  · exact writeKey_absent_some s now key _ ha
  · exact (hot_after_writeKey s now key _ _ hh).2

theorem pair_eta {α β : Type} (p : α × β) : p = (p.1, p.2) := rfl

/-! ### hash commands -/

theorem hset_rel (s : MState) (now : Int) (key f v : Bytes) (h : AList Bytes) (hr : HashRel s key now h)
    (hi : IndexSorted s) :
    (Api.hset s now key f v).2 = .int (DsHash.hset h f v).2 ∧
    HashRel (Api.hset s now key f v).1 key now (DsHash.hset h f v).1 ∧
    IndexSorted (Api.hset s now key f v).1 := by
  obtain ⟨hot1, hi1⟩ := open_hash s now key h hr hi
  unfold Api.hset
  rw [pair_eta (writeKey s now key (some (.hash [])))]
  simp only
  rw [asHash_hot hot1]
  simp only
  obtain ⟨c1, c2⟩ := close_write _ key _ (.hash (DsHash.hset h f v).1) now
    { typ := 10, key := key, args := [Bytes.toHex f, Bytes.toHex v] } hot1 hi1
  exact ⟨by first | rfl | trivial, ⟨set_preserves_sorted h hr.1 f v, Or.inr ⟨set_ne_nil h f v, c1⟩⟩, c2⟩

theorem hsetnx_rel (s : MState) (now : Int) (key f v : Bytes) (h : AList Bytes) (hr : HashRel s key now h)
    (hi : IndexSorted s) :
    (Api.hsetnx s now key f v).2 = .int (if (DsHash.hsetnx h f v).2 then 1 else 0) ∧
    HashRel (Api.hsetnx s now key f v).1 key now (DsHash.hsetnx h f v).1 ∧
    IndexSorted (Api.hsetnx s now key f v).1 := by
  obtain ⟨hot1, hi1⟩ := open_hash s now key h hr hi
  unfold Api.hsetnx
  rw [pair_eta (writeKey s now key (some (.hash [])))]
  simp only
  rw [asHash_hot hot1]
  simp only
  unfold DsHash.hsetnx DsHash.hexists
  cases hc : AList.contains h f with
  | true =>
    simp only [if_true]
    exact ⟨rfl, ⟨hr.1, Or.inr ⟨ne_nil_of_contains h f hc, hot1⟩⟩, hi1⟩
  | false =>
    simp only [Bool.false_eq_true, if_false]
    obtain ⟨c1, c2⟩ := close_write _ key _ (.hash (DsHash.hset h f v).1) now
      { typ := 10, key := key, args := [Bytes.toHex f, Bytes.toHex v] } hot1 hi1
    refine ⟨?_, ⟨set_preserves_sorted h hr.1 f v, Or.inr ⟨set_ne_nil h f v, c1⟩⟩, c2⟩
    simp [DsHash.hset, hc]

theorem hincrby_rel (s : MState) (now : Int) (key f : Bytes) (delta : Int) (h : AList Bytes)
    (hr : HashRel s key now h) (hi : IndexSorted s) :
    (Api.hincrby s now key f delta).2 =
      (match DsHash.hincrby h f delta with
       | none => .many [.int 0, .err true]
       | some (_, v) => .many [.int v, .err false]) ∧
    HashRel (Api.hincrby s now key f delta).1 key now
      (match DsHash.hincrby h f delta with | none => h | some (h', _) => h') ∧
    IndexSorted (Api.hincrby s now key f delta).1 := by
  obtain ⟨hot1, hi1⟩ := open_hash s now key h hr hi
  unfold Api.hincrby
  rw [pair_eta (writeKey s now key (some (.hash [])))]
  simp only
  rw [asHash_hot hot1]
  simp only
  cases hd : DsHash.hincrby h f delta with
  | none =>
    simp only
    obtain ⟨c1, c2⟩ := close_signal _ key _ now
      { typ := 7, key := key, args := [Bytes.toHex f, toString delta] } hot1 hi1
    have hne : h ≠ [] := by
      intro e; subst e
      simp [DsHash.hincrby, AList.get?] at hd
    exact ⟨by first | rfl | trivial, ⟨hr.1, Or.inr ⟨hne, c1⟩⟩, c2⟩
  | some p =>
    obtain ⟨h', v⟩ := p
    simp only
    obtain ⟨c1, c2⟩ := close_write _ key _ (.hash h') now
      { typ := 7, key := key, args := [Bytes.toHex f, toString delta] } hot1 hi1
    have hs' : AList.Sorted h' ∧ h' ≠ [] := by
      unfold DsHash.hincrby at hd
      split at hd
      · cases hd; exact ⟨set_preserves_sorted h hr.1 f _, set_ne_nil h f _⟩
      · split at hd
        · cases hd
        · cases hd; exact ⟨set_preserves_sorted h hr.1 f _, set_ne_nil h f _⟩
    exact ⟨by first | rfl | trivial, ⟨hs'.1, Or.inr ⟨hs'.2, c1⟩⟩, c2⟩

theorem eq_nil_of_length_zero {α : Type} (l : List α) (h : (l.length : Int) = 0) : l = [] :=
  List.length_eq_zero_iff.mp (by omega)

theorem hdel_rel (s : MState) (now : Int) (key : Bytes) (fields : List Bytes) (h : AList Bytes)
    (hr : HashRel s key now h) (hi : IndexSorted s) :
    (Api.hdel s now key fields).2 = .int (DsHash.hdel h fields).2 ∧
    HashRel (Api.hdel s now key fields).1 key now (DsHash.hdel h fields).1 ∧
    IndexSorted (Api.hdel s now key fields).1 := by
  have hsorted' := (hdel_spec h hr.1 fields).1
  rcases hr.2 with ⟨rfl, ha⟩ | ⟨_, hh⟩
  · obtain ⟨w1, w2⟩ := writeKey_absent_none s now key ha
    have hp : writeKey s now key none = ((writeKey s now key none).1, false) := Prod.ext rfl w1
    have hnil : DsHash.hdel [] fields = ([], 0) := by
      have h1 := (hdel_spec [] hr.1 fields).2.2.2
      have h2 : (DsHash.hdel [] fields).1 = [] := by
        rw [hdel_eq_fold]; exact delAll_nil [] hr.1 fields (fun x hx => by simp [AList.contains, AList.get?] at hx)
      rw [h2] at h1
      simp only [DsHash.hlen, List.length_nil] at h1
      exact Prod.ext h2 (by simp only; omega)
    unfold Api.hdel
    rw [hp, hnil]
    exact ⟨rfl, ⟨trivial, Or.inl ⟨rfl, w2⟩⟩, writeKey_sorted s now key none hi⟩
  · have hw := hot_after_writeKey s now key none _ hh
    have hsw := sorted_after_writeKey_hot s now key none _ hh hi
    rw [hdel_hot s now key fields h hh]
    obtain ⟨t1, t2, t3⟩ := close_delete (writeKey s now key none).1 key (.hash h) (.hash (DsHash.hdel h fields).1) now
      { typ := 6, key := key, args := fields.map Bytes.toHex } (DsHash.hlen (DsHash.hdel h fields).1 = 0) hw.2 hsw
    refine ⟨rfl, ⟨hsorted', ?_⟩, t3⟩
    by_cases hc : DsHash.hlen (DsHash.hdel h fields).1 = 0
    · exact Or.inl ⟨eq_nil_of_length_zero _ hc, t1 hc⟩
    · exact Or.inr ⟨ne_nil_of_length _ hc, t2 hc⟩

theorem hread_rel (f : AList Bytes → Out) (dflt : Out) (s : MState) (now : Int) (key : Bytes) (h : AList Bytes)
    (hr : HashRel s key now h) (hi : IndexSorted s) :
    HashRel (hread f dflt s now key).1 key now h ∧ IndexSorted (hread f dflt s now key).1 ∧
    ((h = [] ∧ Absent s key now ∧ (hread f dflt s now key).2 = dflt) ∨
     (Hot s key (.hash h) now ∧ (hread f dflt s now key).2 = f h)) := by
  rcases hr.2 with ⟨rfl, ha⟩ | ⟨hne, hh⟩
  · obtain ⟨r1, r2⟩ := readKey_absent s now key ha
    have hp : readKey s now key = ((readKey s now key).1, false) := Prod.ext rfl r1
    unfold hread
    rw [hp]
    exact ⟨⟨trivial, Or.inl ⟨rfl, r2⟩⟩, readKey_sorted s now key hi, Or.inl ⟨rfl, ha, rfl⟩⟩
  · obtain ⟨r1, r2⟩ := hot_after_readKey s now key _ hh
    unfold hread
    rw [readKey_hot_pair s now key _ hh]
    simp only [Bool.not_true, Bool.false_eq_true, if_false]
    rw [asHash_hot r2]
    exact ⟨⟨hr.1, Or.inr ⟨hne, r2⟩⟩, readKey_sorted s now key hi, Or.inr ⟨hh, rfl⟩⟩

/-- for every read whose missing-key default is what the function answers on the empty hash -/
theorem hread_rel' (f : AList Bytes → Out) (dflt : Out) (hd : dflt = f []) (s : MState) (now : Int) (key : Bytes)
    (h : AList Bytes) (hr : HashRel s key now h) (hi : IndexSorted s) :
    HashRel (hread f dflt s now key).1 key now h ∧ IndexSorted (hread f dflt s now key).1 ∧
    (hread f dflt s now key).2 = f h := by
  obtain ⟨a, b, c⟩ := hread_rel f dflt s now key h hr hi
  refine ⟨a, b, ?_⟩
  rcases c with ⟨rfl, _, e⟩ | ⟨_, e⟩
  · rw [e, hd]
  · exact e


/-! ### HMSET -/

/-- the data-structure part of `Api.hmset`: HSET pair by pair, counting the new fields -/
def hmsetDs (h : AList Bytes) (pairs : List (Bytes × Bytes)) : AList Bytes × Int :=
  pairs.foldl (fun (acc : AList Bytes × Int) (k, v) =>
    let (h2, r) := DsHash.hset acc.1 k v
    (h2, acc.2 + r)) (h, 0)

def hmsetStep (acc : AList Bytes × Int) (p : Bytes × Bytes) : AList Bytes × Int :=
  (AList.set acc.1 p.1 p.2, acc.2 + (if AList.contains acc.1 p.1 then 0 else 1))

theorem hmsetDs_eq_fold (h : AList Bytes) (pairs : List (Bytes × Bytes)) :
    hmsetDs h pairs = pairs.foldl hmsetStep (h, 0) := by
  unfold hmsetDs
  congr 1

theorem foldl_put_isSome {V : Type} : ∀ (pairs : List (Bytes × V)) (m : Spec.Map V) (x : Bytes),
    ((pairs.foldl (fun m p => Spec.Map.put m p.1 p.2) m) x).isSome = true ↔
      (m x).isSome = true ∨ x ∈ pairs.map (·.1) := by
  intro pairs
  induction pairs with
  | nil => intro m x; simp
  | cons p ps ih =>
    intro m x
    simp only [List.foldl_cons, ih, List.map_cons, List.mem_cons]
    by_cases hx : x = p.1
    · simp [Spec.Map.put, hx]
    · simp [Spec.Map.put, hx]

theorem foldl_hmsetStep : ∀ (pairs : List (Bytes × Bytes)) (h : AList Bytes) (c : Int), AList.Sorted h →
    AList.Sorted (pairs.foldl hmsetStep (h, c)).1 ∧
    AList.get? (pairs.foldl hmsetStep (h, c)).1 = pairs.foldl (fun m p => Spec.Map.put m p.1 p.2) (AList.get? h) ∧
    ((pairs.foldl hmsetStep (h, c)).1.length : Int) = h.length + ((pairs.foldl hmsetStep (h, c)).2 - c) := by
  intro pairs
  induction pairs with
  | nil => intro h c hs; simp [hs]
  | cons p ps ih =>
    intro h c hs
    simp only [List.foldl_cons]
    have hstep : hmsetStep (h, c) p = (AList.set h p.1 p.2, c + (if AList.contains h p.1 then 0 else 1)) := rfl
    rw [hstep]
    obtain ⟨i1, i2, i3⟩ := ih (AList.set h p.1 p.2) (c + (if AList.contains h p.1 then 0 else 1))
      (set_preserves_sorted h hs p.1 p.2)
    refine ⟨i1, ?_, ?_⟩
    · rw [i2]
      congr 1
      funext x
      exact get?_set h p.1 p.2 x
    · have hl := length_set h hs p.1 p.2
      cases hc : AList.contains h p.1 with
      | true => simp only [hc, if_true] at hl i3 ⊢; omega
      | false => simp only [hc, Bool.false_eq_true, if_false] at hl i3 ⊢; omega

/-- HMSET at the data-structure level: the map afterwards is the abstract update pair by pair
    (a later pair for the same field wins), the count is the number of distinct new fields -/
theorem hmsetDs_spec (h : AList Bytes) (hs : AList.Sorted h) (pairs : List (Bytes × Bytes)) :
    AList.Sorted (hmsetDs h pairs).1 ∧
    DsHash.hget (hmsetDs h pairs).1 = pairs.foldl (fun m p => Spec.Map.put m p.1 p.2) (DsHash.hget h) ∧
    (∀ d, Spec.Enumerates d (Spec.listed (pairs.map (·.1)) (fun x => !DsHash.hexists h x)) →
      (hmsetDs h pairs).2 = d.length) := by
  rw [hmsetDs_eq_fold]
  obtain ⟨i1, i2, i3⟩ := foldl_hmsetStep pairs h 0 hs
  refine ⟨i1, i2, ?_⟩
  intro d hd
  have hc : ∀ x, AList.contains (pairs.foldl hmsetStep (h, 0)).1 x = true ↔
      AList.contains h x = true ∨ x ∈ pairs.map (·.1) := by
    intro x
    simp only [AList.contains]
    rw [i2]
    exact foldl_put_isSome pairs (AList.get? h) x
  have := count_added h _ hs i1 (pairs.map (·.1)) hc d hd
  omega

theorem foldl_index_eq {α : Type} (f : MState → α → MState) (hf : ∀ s a, (f s a).index = s.index) :
    ∀ (l : List α) (s : MState), (l.foldl f s).index = s.index := by
  intro l
  induction l with
  | nil => intro s; rfl
  | cons a l ih => intro s; simp only [List.foldl_cons]; rw [ih, hf]

theorem hot_congr {s s' : MState} (e : s'.index = s.index) {k : Bytes} {v : Val} {now : Int} (h : Hot s k v now) :
    Hot s' k v now := by
  obtain ⟨m, hm, rest⟩ := h
  exact ⟨m, by simp only [getMeta, e]; exact hm, rest⟩

theorem sorted_congr {s s' : MState} (e : s'.index = s.index) (h : IndexSorted s) : IndexSorted s' := by
  unfold IndexSorted; rw [e]; exact h

theorem hmsetDs_ne_nil (h : AList Bytes) (hs : AList.Sorted h) (pairs : List (Bytes × Bytes))
    (hne : pairs ≠ [] ∨ h ≠ []) : (hmsetDs h pairs).1 ≠ [] := by
  obtain ⟨_, i2, _⟩ := hmsetDs_spec h hs pairs
  have key : ∀ x, ((DsHash.hget h x).isSome = true ∨ x ∈ pairs.map (·.1)) → (hmsetDs h pairs).1 ≠ [] := by
    intro x hx
    have := (foldl_put_isSome pairs (DsHash.hget h) x).mpr hx
    rw [← i2] at this
    exact ne_nil_of_contains _ x this
  rcases hne with hp | hh
  · cases pairs with
    | nil => exact absurd rfl hp
    | cons p ps => exact key p.1 (Or.inr (by simp))
  · cases h with
    | nil => exact absurd rfl hh
    | cons a rest =>
      obtain ⟨k, v⟩ := a
      exact key k (Or.inl (by simp [DsHash.hget, AList.get?]))

theorem hmset_hot (s : MState) (now : Int) (key : Bytes) (pairs : List (Bytes × Bytes)) (h : AList Bytes)
    (hr : HashRel s key now h) (hi : IndexSorted s) :
    (Api.hmset s now key pairs).2 = .int (hmsetDs h pairs).2 ∧
    Hot (Api.hmset s now key pairs).1 key (.hash (hmsetDs h pairs).1) now ∧
    IndexSorted (Api.hmset s now key pairs).1 := by
  obtain ⟨hot1, hi1⟩ := open_hash s now key h hr hi
  have hunf : Api.hmset s now key pairs =
      (match asHash (writeKey s now key (some (.hash []))).1 key with
       | none => ((writeKey s now key (some (.hash []))).1, .panic)
       | some h =>
         (pairs.foldl (fun s (p : Bytes × Bytes) => emit s { typ := 10, key := key, args := [Bytes.toHex p.1, Bytes.toHex p.2] })
            (signal (setVal (writeKey s now key (some (.hash []))).1 key (.hash (hmsetDs h pairs).1)) key),
          .int (hmsetDs h pairs).2)) := rfl
  rw [hunf, asHash_hot hot1]
  simp only
  have hidx := foldl_index_eq
    (fun s (p : Bytes × Bytes) => emit s { typ := 10, key := key, args := [Bytes.toHex p.1, Bytes.toHex p.2] })
    (fun s a => emit_index s _) pairs
    (signal (setVal (writeKey s now key (some (.hash []))).1 key (.hash (hmsetDs h pairs).1)) key)
  obtain ⟨c1, c2⟩ := close_write _ key _ (.hash (hmsetDs h pairs).1) now { typ := 0, key := [] } hot1 hi1
  have c1' : Hot (signal (setVal (writeKey s now key (some (.hash []))).1 key (.hash (hmsetDs h pairs).1)) key)
      key (.hash (hmsetDs h pairs).1) now := hot_congr (emit_index _ _).symm c1
  have c2' := sorted_congr (emit_index _ _).symm c2
  exact ⟨by first | rfl | trivial, hot_congr hidx c1', sorted_congr hidx c2'⟩

theorem hmset_rel (s : MState) (now : Int) (key : Bytes) (pairs : List (Bytes × Bytes)) (h : AList Bytes)
    (hr : HashRel s key now h) (hi : IndexSorted s) (hne : pairs ≠ [] ∨ h ≠ []) :
    (Api.hmset s now key pairs).2 = .int (hmsetDs h pairs).2 ∧
    HashRel (Api.hmset s now key pairs).1 key now (hmsetDs h pairs).1 ∧
    IndexSorted (Api.hmset s now key pairs).1 := by
  obtain ⟨o, hot, i⟩ := hmset_hot s now key pairs h hr hi
  exact ⟨o, ⟨(hmsetDs_spec h hr.1 pairs).1, Or.inr ⟨hmsetDs_ne_nil h hr.1 pairs hne, hot⟩⟩, i⟩


/-! ### set commands -/

theorem sadd_rel (s : MState) (now : Int) (key : Bytes) (ms : List Bytes) (st : AList Unit)
    (hr : SetRel s key now st) (hi : IndexSorted s) :
    (Api.sadd s now key ms).2 = .int (DsSet.sadd st ms).2 ∧
    Hot (Api.sadd s now key ms).1 key (.set (DsSet.sadd st ms).1) now ∧
    AList.Sorted (DsSet.sadd st ms).1 ∧
    IndexSorted (Api.sadd s now key ms).1 := by
  obtain ⟨hot1, hi1⟩ := open_set s now key st hr hi
  unfold Api.sadd
  rw [pair_eta (writeKey s now key (some (.set [])))]
  simp only
  rw [asSet_hot hot1]
  simp only
  obtain ⟨c1, c2⟩ := close_write _ key _ (.set (DsSet.sadd st ms).1) now
    { typ := 23, key := key, args := ms.map Bytes.toHex } hot1 hi1
  exact ⟨by first | rfl | trivial, c1, (sadd_spec st hr.1 ms).1, c2⟩

theorem srem_nil (ms : List Bytes) : DsSet.srem [] ms = ([], 0) := by
  have hs : AList.Sorted ([] : AList Unit) := trivial
  have h1 := (srem_spec [] hs ms).2.2.2
  have h2 : (DsSet.srem [] ms).1 = [] := by
    rw [srem_eq_fold]; exact delAll_nil [] hs ms (fun x hx => by simp [AList.contains, AList.get?] at hx)
  rw [h2] at h1
  simp only [DsSet.scard, List.length_nil] at h1
  exact Prod.ext h2 (by simp only; omega)

theorem srem_rel (s : MState) (now : Int) (key : Bytes) (ms : List Bytes) (st : AList Unit)
    (hr : SetRel s key now st) (hi : IndexSorted s) :
    (Api.srem s now key ms).2 = .int (DsSet.srem st ms).2 ∧
    SetRel (Api.srem s now key ms).1 key now (DsSet.srem st ms).1 ∧
    IndexSorted (Api.srem s now key ms).1 := by
  have hsorted' := (srem_spec st hr.1 ms).1
  rcases hr.2 with ⟨rfl, ha⟩ | ⟨_, hh⟩
  · obtain ⟨w1, w2⟩ := writeKey_absent_none s now key ha
    have hp : writeKey s now key none = ((writeKey s now key none).1, false) := Prod.ext rfl w1
    unfold Api.srem
    rw [hp, srem_nil]
    exact ⟨rfl, ⟨trivial, Or.inl ⟨rfl, w2⟩⟩, writeKey_sorted s now key none hi⟩
  · have hw := hot_after_writeKey s now key none _ hh
    have hsw := sorted_after_writeKey_hot s now key none _ hh hi
    rw [srem_hot s now key ms st hh]
    obtain ⟨t1, t2, t3⟩ := close_delete (writeKey s now key none).1 key (.set st) (.set (DsSet.srem st ms).1) now
      { typ := 24, key := key, args := ms.map Bytes.toHex } (DsSet.scard (DsSet.srem st ms).1 = 0) hw.2 hsw
    refine ⟨rfl, ⟨hsorted', ?_⟩, t3⟩
    by_cases hc : DsSet.scard (DsSet.srem st ms).1 = 0
    · exact Or.inl ⟨eq_nil_of_length_zero _ hc, t1 hc⟩
    · exact Or.inr ⟨ne_nil_of_length _ hc, t2 hc⟩

theorem sread_rel (f : AList Unit → Out) (dflt : Out) (hd : dflt = f []) (s : MState) (now : Int) (key : Bytes)
    (st : AList Unit) (hr : SetRel s key now st) (hi : IndexSorted s) :
    SetRel (sread f dflt s now key).1 key now st ∧ IndexSorted (sread f dflt s now key).1 ∧
    (sread f dflt s now key).2 = f st := by
  rcases hr.2 with ⟨rfl, ha⟩ | ⟨hne, hh⟩
  · obtain ⟨r1, r2⟩ := readKey_absent s now key ha
    have hp : readKey s now key = ((readKey s now key).1, false) := Prod.ext rfl r1
    unfold sread
    rw [hp]
    exact ⟨⟨trivial, Or.inl ⟨rfl, r2⟩⟩, readKey_sorted s now key hi, hd⟩
  · obtain ⟨r1, r2⟩ := hot_after_readKey s now key _ hh
    unfold sread
    rw [readKey_hot_pair s now key _ hh]
    simp only [Bool.not_true, Bool.false_eq_true, if_false]
    rw [asSet_hot r2]
    exact ⟨⟨hr.1, Or.inr ⟨hne, r2⟩⟩, readKey_sorted s now key hi, rfl⟩

/-- SPOP under the representation relation. On a missing key the reply is empty whatever the
    choice; on a present key an admissible choice is accepted and removed, any other is flagged. -/
theorem spop_rel (s : MState) (now : Int) (key : Bytes) (count : Int) (choice : List Bytes) (st : AList Unit)
    (hr : SetRel s key now st) (hi : IndexSorted s) :
    IndexSorted (Api.spop s now key count choice).1 ∧
    ((Absent s key now ∧ st = [] ∧ (Api.spop s now key count choice).2 = .slist [] ∧
        SetRel (Api.spop s now key count choice).1 key now []) ∨
     (Hot s key (.set st) now ∧
        Spec.AdmissibleDistinct (DsSet.mem st) st.length (if count = 0 then 1 else count.toNat) choice ∧
        (Api.spop s now key count choice).2 = .slist choice ∧
        SetRel (Api.spop s now key count choice).1 key now (DsSet.srem st choice).1) ∨
     (Hot s key (.set st) now ∧
        ¬ Spec.AdmissibleDistinct (DsSet.mem st) st.length (if count = 0 then 1 else count.toNat) choice ∧
        (Api.spop s now key count choice).2 = invalidChoice ∧
        SetRel (Api.spop s now key count choice).1 key now st)) := by
  rcases hr.2 with ⟨rfl, ha⟩ | ⟨hne, hh⟩
  · obtain ⟨w1, w2⟩ := writeKey_absent_none s now key ha
    have hp : writeKey s now key none = ((writeKey s now key none).1, false) := Prod.ext rfl w1
    have hsp : Api.spop s now key count choice = ((writeKey s now key none).1, .slist []) := by
      unfold Api.spop; rw [hp]; rfl
    rw [hsp]
    exact ⟨writeKey_sorted s now key none hi, Or.inl ⟨ha, rfl, rfl, trivial, Or.inl ⟨rfl, w2⟩⟩⟩
  · have hw := hot_after_writeKey s now key none _ hh
    have hsw := sorted_after_writeKey_hot s now key none _ hh hi
    by_cases hadm : Spec.AdmissibleDistinct (DsSet.mem st) st.length (if count = 0 then 1 else count.toNat) choice
    · have hv := (spopValid_iff st count choice).mpr hadm
      rw [spop_hot_valid s now key count choice st hh hv]
      obtain ⟨t1, t2, t3⟩ := close_delete (writeKey s now key none).1 key (.set st) (.set (DsSet.srem st choice).1) now
        { typ := 24, key := key, args := choice.map Bytes.toHex } (DsSet.scard (DsSet.srem st choice).1 = 0) hw.2 hsw
      refine ⟨t3, Or.inr (Or.inl ⟨hh, hadm, rfl, (srem_spec st hr.1 choice).1, ?_⟩)⟩
      by_cases hc : DsSet.scard (DsSet.srem st choice).1 = 0
      · exact Or.inl ⟨eq_nil_of_length_zero _ hc, t1 hc⟩
      · exact Or.inr ⟨ne_nil_of_length _ hc, t2 hc⟩
    · have hv : spopValid st count choice = false := by
        cases hb : spopValid st count choice with
        | false => rfl
        | true => exact absurd ((spopValid_iff st count choice).mp hb) hadm
      rw [spop_hot_invalid s now key count choice st hh hv]
      exact ⟨hsw, Or.inr (Or.inr ⟨hh, hadm, rfl, hr.1, Or.inr ⟨hne, hw.2⟩⟩)⟩

theorem srandmember_rel (s : MState) (now : Int) (key : Bytes) (count : Int) (choice : List Bytes) (st : AList Unit)
    (hr : SetRel s key now st) (hi : IndexSorted s) :
    SetRel (Api.srandmember s now key count choice).1 key now st ∧
    IndexSorted (Api.srandmember s now key count choice).1 ∧
    (st = [] → (Api.srandmember s now key count choice).2 = .slist []) ∧
    (st ≠ [] → (Api.srandmember s now key count choice).2 =
      if srandValid st count choice then .slist choice else invalidChoice) := by
  rcases hr.2 with ⟨rfl, ha⟩ | ⟨hne, hh⟩
  · obtain ⟨r1, r2⟩ := readKey_absent s now key ha
    have hp : readKey s now key = ((readKey s now key).1, false) := Prod.ext rfl r1
    have hsp : Api.srandmember s now key count choice = ((readKey s now key).1, .slist []) := by
      unfold Api.srandmember; rw [hp]; rfl
    rw [hsp]
    exact ⟨⟨trivial, Or.inl ⟨rfl, r2⟩⟩, readKey_sorted s now key hi, fun _ => rfl, fun h => absurd rfl h⟩
  · rw [srandmember_hot s now key count choice st hh]
    refine ⟨⟨hr.1, Or.inr ⟨hne, (hot_after_readKey s now key _ hh).2⟩⟩, readKey_sorted s now key hi,
      fun e => absurd e hne, fun _ => ?_⟩
    have : ¬ (count < 0 ∧ st.isEmpty = true) := by
      rintro ⟨_, he⟩; exact hne (List.isEmpty_iff.mp he)
    simp only [this, if_false]


/-! ### S*STORE -/

/-- `s'` classifies every key like `s` and keeps the index well formed -/
def Good (s s' : MState) (now : Int) : Prop := Pres s s' now ∧ (IndexSorted s → IndexSorted s')

theorem Good.refl (s : MState) (now : Int) : Good s s now := ⟨Pres.refl s now, id⟩
theorem Good.trans {s1 s2 s3 : MState} {now : Int} (a : Good s1 s2 now) (b : Good s2 s3 now) : Good s1 s3 now :=
  ⟨a.1.trans b.1, fun h => b.2 (a.2 h)⟩

theorem good_readKey (s : MState) (now : Int) (k : Bytes) : Good s (readKey s now k).1 now :=
  ⟨pres_readKey s now k, readKey_sorted s now k⟩

theorem good_readMany (now : Int) : ∀ (ks : List Bytes) (s : MState) (acc : List (Option (Option (AList Unit)))),
    Good s (ks.foldl (readStep now) (s, acc)).1 now := by
  intro ks
  induction ks with
  | nil => intro s acc; exact Good.refl s now
  | cons k ks ih =>
    intro s acc
    simp only [List.foldl_cons]
    have : readStep now (s, acc) k = ((readKey s now k).1, (readStep now (s, acc) k).2) := rfl
    rw [this]
    exact (good_readKey s now k).trans (ih _ _)

theorem good_sinter_go (now : Int) : ∀ (ks : List Bytes) (s : MState) (acc : List (AList Unit)),
    Good s (sinter.go now ks s acc).1 now := by
  intro ks
  induction ks with
  | nil => intro s acc; rw [sinter.go]; exact Good.refl s now
  | cons k ks ih =>
    intro s acc
    rw [sinter.go]
    rw [pair_eta (readKey s now k)]
    simp only
    split
    · exact good_readKey s now k
    · split
      · exact good_readKey s now k
      · exact (good_readKey s now k).trans (ih _ _)

theorem good_smembers (s : MState) (now : Int) (k : Bytes) : Good s (smembers s now k).1 now := by
  unfold smembers sread
  rw [pair_eta (readKey s now k)]
  simp only
  split
  · exact good_readKey s now k
  · split <;> exact good_readKey s now k

theorem good_sunion (s : MState) (now : Int) (keys : List Bytes) : Good s (sunion s now keys).1 now := by
  unfold sunion
  split
  · exact Good.refl s now
  · exact good_smembers s now _
  · rw [pair_eta (readMany s now keys)]
    simp only
    have g : Good s (readMany s now keys).1 now := good_readMany now keys s []
    split
    · exact g
    · split <;> exact g

theorem good_sdiff (s : MState) (now : Int) (keys : List Bytes) : Good s (sdiff s now keys).1 now := by
  unfold sdiff
  split
  · exact Good.refl s now
  · next k0 rest =>
    rw [pair_eta (readKey s now k0)]
    simp only
    split
    · exact good_readKey s now k0
    · rw [pair_eta (readMany (readKey s now k0).1 now rest)]
      simp only
      have g : Good s (readMany (readKey s now k0).1 now rest).1 now :=
        (good_readKey s now k0).trans (good_readMany now rest _ [])
      split
      · exact g
      · split <;> exact g

theorem good_sinter (s : MState) (now : Int) (keys : List Bytes) : Good s (sinter s now keys).1 now := by
  unfold sinter
  split
  · exact Good.refl s now
  · exact good_smembers s now _
  · next k0 rest _ =>
    rw [pair_eta (readKey s now k0)]
    simp only
    split
    · exact good_readKey s now k0
    · have g0 : Good s (sinter.go now rest (readKey s now k0).1 []).1 now :=
        (good_readKey s now k0).trans (good_sinter_go now rest _ [])
      cases hgo : sinter.go now rest (readKey s now k0).1 [] with
      | mk s2 r2 =>
        rw [hgo] at g0
        have g : Good s s2 now := g0
        cases r2 with
        | none => exact g
        | some o =>
          cases o with
          | none => exact g
          | some os =>
            simp only
            split <;> exact g


theorem absent_congr {s s' : MState} (e : s'.index = s.index) {k : Bytes} {now : Int} (h : Absent s k now) :
    Absent s' k now := by
  intro m hm
  exact h m (by simpa only [getMeta, e] using hm)

theorem commit_index (s : MState) : (commit s).index = s.index := rfl

/-- DEL of one key that is missing or present (any type): afterwards it is missing -/
theorem del_single (s : MState) (now : Int) (dst : Bytes) (hi : IndexSorted s)
    (hc : Absent s dst now ∨ ∃ v, Hot s dst v now) :
    Absent (del s now [dst]).1 dst now ∧ IndexSorted (del s now [dst]).1 := by
  have hunf : (del s now [dst]).1.index =
      (if !(writeKey s now dst none).2 then (writeKey s now dst none).1
       else delKey (writeKey s now dst none).1 dst).index := by
    unfold del
    simp only [List.foldl]
    rw [pair_eta (writeKey s now dst none)]
    simp only
    split
    · rfl
    · simp only [emit_index]
  suffices hh : Absent (if !(writeKey s now dst none).2 then (writeKey s now dst none).1
        else delKey (writeKey s now dst none).1 dst) dst now ∧
      IndexSorted (if !(writeKey s now dst none).2 then (writeKey s now dst none).1
        else delKey (writeKey s now dst none).1 dst) from
    ⟨absent_congr hunf hh.1, sorted_congr hunf hh.2⟩
  rcases hc with ha | ⟨v, hh⟩
  · obtain ⟨w1, w2⟩ := writeKey_absent_none s now dst ha
    rw [w1]
    exact ⟨w2, writeKey_sorted s now dst none hi⟩
  · obtain ⟨w1, _⟩ := hot_after_writeKey s now dst none v hh
    have hs1 := writeKey_sorted s now dst none hi
    rw [w1]
    simp only [Bool.not_true, Bool.false_eq_true, if_false]
    refine ⟨?_, delKey_sorted _ _ hs1⟩
    intro m hm
    rw [getMeta_delKey_same _ _ hs1] at hm
    cases hm

/-- the common body of SINTERSTORE / SUNIONSTORE / SDIFFSTORE, given what the set operation returned -/
theorem sstore_spec (op : MState → Int → List Bytes → Api.R) (s : MState) (now : Int) (dst : Bytes)
    (keys : List Bytes) (hk : keys ≠ []) (ms : List Bytes)
    (hop : (op s now keys).2 = .slist ms) (hg : Good s (op s now keys).1 now) (hi : IndexSorted s)
    (hd : Absent s dst now ∨ ∃ v, Hot s dst v now) :
    IndexSorted (sstore op s now dst keys).1 ∧
    (ms = [] → (sstore op s now dst keys).2 = .int 0 ∧ Absent (sstore op s now dst keys).1 dst now) ∧
    (ms ≠ [] → (sstore op s now dst keys).2 = .int (DsSet.sadd [] ms).2 ∧
      Hot (sstore op s now dst keys).1 dst (.set (DsSet.sadd [] ms).1) now) := by
  have hd1 : Absent (commit (op s now keys).1) dst now ∨ ∃ v, Hot (commit (op s now keys).1) dst v now := by
    rcases hd with ha | ⟨v, hh⟩
    · exact Or.inl (absent_congr (commit_index _) (hg.1.1 dst ha))
    · exact Or.inr ⟨v, hot_congr (commit_index _) (hg.1.2 dst v hh)⟩
  have hi1 : IndexSorted (commit (op s now keys).1) := sorted_congr (commit_index _) (hg.2 hi)
  obtain ⟨da, ds⟩ := del_single (commit (op s now keys).1) now dst hi1 hd1
  have hunf : sstore op s now dst keys =
      (if ms.isEmpty then ((del (commit (op s now keys).1) now [dst]).1, .int 0)
       else sadd (commit (del (commit (op s now keys).1) now [dst]).1) now dst ms) := by
    unfold sstore
    have hke : keys.isEmpty = false := by
      cases keys with
      | nil => exact absurd rfl hk
      | cons _ _ => rfl
    rw [hke]
    simp only [Bool.false_eq_true, if_false]
    rw [pair_eta (op s now keys), hop]
  rw [hunf]
  by_cases hms : ms = []
  · subst hms
    simp only [List.isEmpty_nil, if_true]
    exact ⟨ds, fun _ => ⟨by first | rfl | trivial, da⟩, fun h => absurd rfl h⟩
  · have hne : ms.isEmpty = false := by
      cases ms with
      | nil => exact absurd rfl hms
      | cons _ _ => rfl
    rw [hne]
    simp only [Bool.false_eq_true, if_false]
    have hrel : SetRel (commit (del (commit (op s now keys).1) now [dst]).1) dst now [] :=
      ⟨trivial, Or.inl ⟨rfl, absent_congr (commit_index _) da⟩⟩
    obtain ⟨o, hot, _, i⟩ := sadd_rel _ now dst ms [] hrel (sorted_congr (commit_index _) ds)
    exact ⟨i, fun h => absurd h hms, fun _ => ⟨o, hot⟩⟩


/-- S*STORE when the set operation returned an enumeration `l` of the abstract set `S`: the reply
    is the cardinality, the destination holds exactly `S` afterwards, or ceases to exist if `S = ∅` -/
theorem sstore_enumerated (op : MState → Int → List Bytes → Api.R) (s : MState) (now : Int) (dst : Bytes)
    (keys : List Bytes) (hk : keys ≠ []) (l : List Bytes) (S : Spec.BSet) (hl : Spec.Enumerates l S)
    (hop : (op s now keys).2 = .slist l) (hg : Good s (op s now keys).1 now) (hi : IndexSorted s)
    (hd : Absent s dst now ∨ ∃ v, Hot s dst v now) :
    (sstore op s now dst keys).2 = .int l.length ∧
    IndexSorted (sstore op s now dst keys).1 ∧
    (l = [] → Absent (sstore op s now dst keys).1 dst now) ∧
    (l ≠ [] → ∃ st', Hot (sstore op s now dst keys).1 dst (.set st') now ∧ AList.Sorted st' ∧ DsSet.mem st' = S) := by
  obtain ⟨i, c1, c2⟩ := sstore_spec op s now dst keys hk l hop hg hi hd
  have hnil : AList.Sorted ([] : AList Unit) := trivial
  obtain ⟨q1, q2, q3, _⟩ := sadd_spec [] hnil l
  have hcount : (DsSet.sadd [] l).2 = l.length := by
    apply q3 l
    refine ⟨hl.1, fun x => ?_⟩
    simp [Spec.listed, DsSet.mem, AList.contains, AList.get?]
  by_cases hn : l = []
  · subst hn
    exact ⟨(c1 rfl).1, i, fun _ => (c1 rfl).2, fun h => absurd rfl h⟩
  · obtain ⟨o, hot⟩ := c2 hn
    refine ⟨by rw [o, hcount], i, fun h => absurd h hn, fun _ => ⟨_, hot, q1, ?_⟩⟩
    rw [q2]
    funext x
    apply Bool.eq_iff_iff.mpr
    rw [← hl.2 x]
    simp [Spec.BSet.insertAll, DsSet.mem, AList.contains, AList.get?]

/-! ### SMOVE on one key, and SMOVE of a non-member -/

theorem hot_setVal (s : MState) (k : Bytes) (v v' : Val) (now : Int) (h : Hot s k v now) :
    Hot (setVal s k v') k v' now := by
  obtain ⟨m, hm, hok, hexp, _⟩ := h
  exact ⟨{ m with value := some v' }, getMeta_setVal_same s k v' m hm, hok, hexp, rfl⟩

theorem hot_signal (s : MState) (k : Bytes) (v : Val) (now : Int) (h : Hot s k v now) :
    Hot (signal s k) k v now := by
  obtain ⟨m, hm, hok, hexp, hv⟩ := h
  refine ⟨m.markModified, ?_, ?_, ?_, hv⟩
  · rw [getMeta_signal_same, hm]; rfl
  · rw [markModified_isOk]; exact hok
  · rw [markModified_expired]; exact hexp

theorem srem_singleton_member (st : AList Unit) (member : Bytes) (hm : DsSet.mem st member = true) :
    DsSet.srem st [member] = (AList.erase st member, 1) := by
  simp [DsSet.srem, hm]

theorem srem_singleton_nonmember (st : AList Unit) (member : Bytes) (hm : DsSet.mem st member = false) :
    DsSet.srem st [member] = (st, 0) := by
  simp [DsSet.srem, hm]

/-- both write accesses of `Api.smove` (source, then destination — the latter added by the repair that
    checks the destination's type first) leave the classification of every key as it was -/
theorem pres_smove_writes (s : MState) (now : Int) (src dst : Bytes) :
    Pres s (writeKey (writeKey s now src none).1 now dst none).1 now :=
  (pres_writeKey_none s now src).trans (pres_writeKey_none _ now dst)

/-- SMOVE of something that is not a member of the source: the source is unchanged whatever the
    destination is; the reply is false when the destination is missing or a set, and the call fails
    (wrong type) when the destination holds another type -/
theorem smove_not_member (s : MState) (now : Int) (src dst member : Bytes) (st : AList Unit)
    (h : Hot s src (.set st) now) (hm : DsSet.mem st member = false) :
    Hot (smove s now src dst member).1 src (.set st) now ∧
    (DstOk s dst now → (smove s now src dst member).2 = .bool false) ∧
    (DstWrong s dst now → (smove s now src dst member).2 = .panic) := by
  have hw := hot_after_writeKey s now src none _ h
  have p1 := pres_writeKey_none s now src
  have hw2 := (pres_writeKey_none (writeKey s now src none).1 now dst).2 _ _ hw.2
  unfold smove
  rw [writeKey_hot_pair s now src none _ h]
  simp only [Bool.not_true, Bool.false_eq_true, if_false]
  rw [asSet_hot hw.2]
  simp only
  rw [pair_eta (writeKey (writeKey s now src none).1 now dst none)]
  simp only
  rw [srem_singleton_nonmember st member hm]
  simp only [if_true]
  split
  · next hc =>
    refine ⟨hw2, fun hd => ?_, fun _ => rfl⟩
    rw [smove_check_ok _ now dst (dstOk_pres p1 hd)] at hc
    cases hc
  · next hc =>
    refine ⟨hot_setVal _ _ _ _ _ hw2, fun _ => rfl, fun hd => ?_⟩
    rw [smove_check_wrong _ now dst (dstWrong_pres p1 hd)] at hc
    exact absurd rfl hc

/-- SMOVE to a destination that holds another type: the call fails before anything is moved — every key
    (source and destination included) is classified as before, the index stays well formed -/
theorem smove_wrong_dst (s : MState) (now : Int) (src dst member : Bytes) (st : AList Unit)
    (h : Hot s src (.set st) now) (hd : DstWrong s dst now) :
    (smove s now src dst member).2 = .panic ∧ Pres s (smove s now src dst member).1 now ∧
    (IndexSorted s → IndexSorted (smove s now src dst member).1) := by
  have hw := hot_after_writeKey s now src none _ h
  have p1 := pres_writeKey_none s now src
  unfold smove
  rw [writeKey_hot_pair s now src none _ h]
  simp only [Bool.not_true, Bool.false_eq_true, if_false]
  rw [asSet_hot hw.2]
  simp only
  rw [pair_eta (writeKey (writeKey s now src none).1 now dst none)]
  simp only
  rw [smove_check_wrong _ now dst (dstWrong_pres p1 hd)]
  simp only [if_true]
  exact ⟨trivial, pres_smove_writes s now src dst, fun hi => writeKey_sorted _ now dst none (writeKey_sorted s now src none hi)⟩

/-- SMOVE of the only member to another key that is missing or a set: the source ceases to exist -/
theorem smove_src_gone (s : MState) (now : Int) (src dst member : Bytes) (st : AList Unit)
    (h : Hot s src (.set st) now) (hs : IndexSorted s) (hne : src ≠ dst) (hd : DstOk s dst now)
    (hsorted : AList.Sorted st)
    (hmem : DsSet.mem st member = true) (hlast : ∀ x, DsSet.mem st x = true → x = member) :
    getMeta (smove s now src dst member).1 src = none := by
  have hw := hot_after_writeKey s now src none _ h
  have p1 := pres_writeKey_none s now src
  have hs2 : IndexSorted (writeKey (writeKey s now src none).1 now dst none).1 :=
    writeKey_sorted _ now dst none (writeKey_sorted s now src none hs)
  unfold smove
  rw [writeKey_hot_pair s now src none _ h]
  simp only [Bool.not_true, Bool.false_eq_true, if_false]
  rw [asSet_hot hw.2]
  simp only
  rw [pair_eta (writeKey (writeKey s now src none).1 now dst none)]
  simp only
  rw [smove_check_ok _ now dst (dstOk_pres p1 hd)]
  simp only [Bool.false_eq_true, if_false]
  rw [srem_singleton_last st member hsorted hmem hlast]
  have hgone : getMeta (signal (delKey (setVal (writeKey (writeKey s now src none).1 now dst none).1 src (.set [])) src) src) src = none := by
    rw [getMeta_signal_same, getMeta_delKey_same _ _ (setVal_sorted _ _ _ hs2)]; rfl
  simp only [Int.reduceEq, if_false, DsSet.scard, List.length_nil, Int.natCast_zero, if_true]
  have hw' := getMeta_writeKey_other (signal (delKey (setVal (writeKey (writeKey s now src none).1 now dst none).1 src (.set [])) src) src) now dst
    (some (.set [])) src hne
  rw [hgone] at hw'
  split
  · exact hw'
  · simp only
    rw [getMeta_emit, getMeta_signal_other _ _ _ hne]
    exact getMeta_setVal_none _ _ _ _ hw' hne

theorem smove_missing_src (s : MState) (now : Int) (src dst member : Bytes) (h : Absent s src now) :
    (smove s now src dst member).2 = .bool false := by
  have hp : writeKey s now src none = ((writeKey s now src none).1, false) :=
    Prod.ext rfl (writeKey_absent_none s now src h).1
  unfold smove
  rw [hp]
  rfl

/-- removing a member and adding it back gives the same set -/
theorem sadd_erase_same (st : AList Unit) (hs : AList.Sorted st) (member : Bytes) (hm : DsSet.mem st member = true) :
    (DsSet.sadd (AList.erase st member) [member]).1 = st := by
  have hs' := erase_preserves_sorted st hs member
  obtain ⟨q1, q2, _, _⟩ := sadd_spec (AList.erase st member) hs' [member]
  apply set_ext _ _ q1 hs
  intro x
  rw [q2]
  simp only [Spec.BSet.insertAll, mem_eq_contains, contains_erase st hs, List.mem_singleton]
  by_cases hx : x = member
  · subst hx; simpa [mem_eq_contains] using hm
  · simp [hx]

/-- SMOVE with source = destination (no longer a self-deadlock): the member is taken out and put
    back; reply true, the set is what it was -/
theorem smove_same_key (s : MState) (now : Int) (key member : Bytes) (st : AList Unit)
    (h : Hot s key (.set st) now) (hi : IndexSorted s) (hst : AList.Sorted st)
    (hm : DsSet.mem st member = true) :
    (smove s now key key member).2 = .bool true ∧ Hot (smove s now key key member).1 key (.set st) now ∧
    IndexSorted (smove s now key key member).1 := by
  have hw := hot_after_writeKey s now key none _ h
  have hsw1 := sorted_after_writeKey_hot s now key none _ h hi
  have hw2 := hot_after_writeKey (writeKey s now key none).1 now key none _ hw.2
  have hsw := sorted_after_writeKey_hot (writeKey s now key none).1 now key none _ hw.2 hsw1
  have hs' := erase_preserves_sorted st hst member
  unfold smove
  rw [writeKey_hot_pair s now key none _ h]
  simp only [Bool.not_true, Bool.false_eq_true, if_false]
  rw [asSet_hot hw.2]
  simp only
  -- the destination check: the destination is the source, a set
  rw [pair_eta (writeKey (writeKey s now key none).1 now key none)]
  simp only
  rw [smove_check_ok _ now key (Or.inr ⟨st, hw.2⟩)]
  simp only [Bool.false_eq_true, if_false]
  rw [srem_singleton_member st member hm]
  simp only [Int.reduceEq, if_false]
  -- the state before the last writeKey represents the reduced set
  have hrel : SetRel (signal (if DsSet.scard (AList.erase st member) = 0
        then delKey (setVal (writeKey (writeKey s now key none).1 now key none).1 key (.set (AList.erase st member))) key
        else setVal (writeKey (writeKey s now key none).1 now key none).1 key (.set (AList.erase st member))) key) key now
        (AList.erase st member) ∧
      IndexSorted (signal (if DsSet.scard (AList.erase st member) = 0
        then delKey (setVal (writeKey (writeKey s now key none).1 now key none).1 key (.set (AList.erase st member))) key
        else setVal (writeKey (writeKey s now key none).1 now key none).1 key (.set (AList.erase st member))) key) := by
    have hsv := setVal_sorted (writeKey (writeKey s now key none).1 now key none).1 key (.set (AList.erase st member)) hsw
    by_cases hc : DsSet.scard (AList.erase st member) = 0
    · rw [if_pos hc]
      refine ⟨⟨hs', Or.inl ⟨eq_nil_of_length_zero _ hc, ?_⟩⟩, signal_sorted _ _ (delKey_sorted _ _ hsv)⟩
      intro m hm'
      rw [getMeta_signal_same, getMeta_delKey_same _ _ hsv] at hm'
      cases hm'
    · rw [if_neg hc]
      exact ⟨⟨hs', Or.inr ⟨ne_nil_of_length _ hc, hot_signal _ _ _ _ (hot_setVal _ _ _ _ _ hw2.2)⟩⟩,
        signal_sorted _ _ hsv⟩
  obtain ⟨hot5, hi5⟩ := open_set _ now key (AList.erase st member) hrel.1 hrel.2
  rw [pair_eta (writeKey _ now key (some (.set [])))]
  simp only
  rw [asSet_hot hot5]
  simp only
  obtain ⟨c1, c2⟩ := close_write _ key _ (.set (DsSet.sadd (AList.erase st member) [member]).1) now
    { typ := 23, key := key, args := [Bytes.toHex member] } hot5 hi5
  rw [sadd_erase_same st hst member hm] at c1 c2
  rw [sadd_erase_same st hst member hm]
  exact ⟨by first | rfl | trivial, c1, c2⟩

end NodisVerif.Proofs.C03Seq
