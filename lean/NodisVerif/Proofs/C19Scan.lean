import NodisVerif.Model.Api
import NodisVerif.Spec.Scan
import NodisVerif.Proofs.C19Iter
import NodisVerif.Proofs.AListLemmas2
/-
  C19 helpers, part 3: the keyspace SCAN (`Api.scan`).

  * `etype`, `view` : what a `SCAN … TYPE typ` call looks at — per index record its name, deadline
    and type as the filter sees it (cached type; for a never-loaded record the type of the value in
    the backend, which the call loads).
  * `scanPure` : the same loop as `Api.scan.go` on the view, without the store.
  * `scan_out` : the reply of a call is `scanPure (view s typ)` (any store).
  * `ScanFrame`, `scan_frame` : on a proper index a call changes nothing but access counters and
    the load state of records, and leaves `view · typ` unchanged.
-/
namespace NodisVerif.Proofs.C19Scan
open NodisVerif.Spec.Scan NodisVerif.Proofs.C19Iter NodisVerif.Store
open NodisVerif.Proofs.AListLemmas NodisVerif.Proofs.AListLemmas2

/-- name, deadline, value type as the TYPE filter sees it -/
abbrev VEnt := Bytes × Int × Nat

/-- the type the TYPE filter of a `SCAN … TYPE typ` call uses for an index record: the cached
    type; for a record that never had its value loaded (cold, no cached type) and a non-zero
    `typ`, the type of the value the backend hands out (the call loads it) -/
def etype (s : MState) (typ : Nat) (e : Bytes × Meta) : Nat :=
  if typ ≠ 0 ∧ e.2.vtype = 0 ∧ e.2.value.isNone then
    match loadValue s e.1 e.2 with
    | some (v, _) => v.typeCode
    | none => e.2.vtype
  else e.2.vtype

def proj (s : MState) (typ : Nat) (e : Bytes × Meta) : VEnt := (e.1, e.2.exp, etype s typ e)
def viewOf (s : MState) (typ : Nat) (idx : AList Meta) : List VEnt := idx.map (proj s typ)
/-- what a `SCAN … TYPE typ` call looks at -/
def view (s : MState) (typ : Nat) : List VEnt := viewOf s typ s.index

/-- forget the access counter of a record -/
def zc (e : Bytes × Meta) : Bytes × Meta := (e.1, { e.2 with count := 0 })

/-- forget everything a SCAN call may touch: the counter and what loading a value sets -/
def zl (e : Bytes × Meta) : Bytes × Meta :=
  (e.1, { e.2 with count := 0, value := none, vtype := 0, state := 0, oid := 0 })

/-- `metadata.expired(now)` on a view entry -/
def vexpired (e : VEnt) (now : Int) : Bool := e.2.1 != 0 && e.2.1 ≤ now

/-- the filter of SCAN: pattern, not expired, TYPE -/
def keep (now : Int) (pat : Bytes) (typ : Nat) (e : VEnt) : Bool :=
  (Glob.matched pat e.1 && !vexpired e now) && !(decide (typ ≠ 0 ∧ e.2.2 ≠ typ))

/-- `Api.scan.go` without the store -/
def goPure (now : Int) (pat : Bytes) (typ : Nat) :
    List VEnt → Int → Int → Int → List Bytes → Int × List Bytes
  | [], _, _, _, acc => (0, acc.reverse)
  | e :: rest, cursor, iter, count, acc =>
    let iter := iter + 1
    let cursor := wrap64 (cursor - 1)
    if cursor > 0 then goPure now pat typ rest cursor iter count acc else
    if count = 0 then (iter, acc.reverse) else
    let count := wrap64 (count - 1)
    if keep now pat typ e then goPure now pat typ rest cursor iter count (e.1 :: acc)
    else goPure now pat typ rest cursor iter count acc

/-- `Api.scan` without the store: (next cursor, keys) -/
def scanPure (v : List VEnt) (now : Int) (cursor : Int) (pat : Bytes) (count : Int) (typ : Nat) : Int × List Bytes :=
  let keyLen : Int := v.length
  if keyLen = 0 then (0, []) else
  if cursor > keyLen then (0, []) else
  goPure now pat typ v cursor 0 count []

/-- the reply of `Api.scan` as a pair -/
def scanOut : Out → Int × List Bytes
  | .many [.int next, .slist ks] => (next, ks)
  | _ => (0, [])

/-- one SCAN command as a step of the client loop -/
def scanStep (now : Int) (pat : Bytes) (count : Int) (typ : Nat) (s : MState) (c : Int) : MState × Int × List Bytes :=
  let r := Api.scan s now c pat count typ
  (r.1, scanOut r.2)

/-! ## what a call leaves unchanged -/

/-- the effect of one SCAN call (with TYPE `typ`) on the store: only the index changes; the view
    of the call is unchanged; records change only in their counter and in what loading a value
    sets (value, cached type, state, oid); without a TYPE filter only the counters change -/
structure ScanFrame (typ : Nat) (s s' : MState) : Prop where
  rest : s' = { s with index := s'.index }
  sameView : s'.index.map (proj s typ) = s.index.map (proj s typ)
  other : s'.index.map zl = s.index.map zl
  untyped : typ = 0 → s'.index.map zc = s.index.map zc

theorem loadValue_congr {s s' : MState} (h : s' = { s with index := s'.index }) (k : Bytes) (m : Meta) :
    loadValue s' k m = loadValue s k m := by
  rw [h]; rfl

theorem proj_congr {s s' : MState} (h : s' = { s with index := s'.index }) (typ : Nat) :
    proj s' typ = proj s typ := by
  funext e
  simp only [proj, etype, loadValue_congr h]

theorem ScanFrame.refl (typ : Nat) (s : MState) : ScanFrame typ s s := ⟨rfl, rfl, rfl, fun _ => rfl⟩

theorem ScanFrame.trans {typ : Nat} {a b c : MState} (h1 : ScanFrame typ a b) (h2 : ScanFrame typ b c) :
    ScanFrame typ a c := by
  refine ⟨?_, ?_, h2.other.trans h1.other, fun h => (h2.untyped h).trans (h1.untyped h)⟩
  · have e1 := h1.rest; have e2 := h2.rest
    rw [e2, e1]
  · have := h2.sameView
    rw [proj_congr h1.rest] at this
    exact this.trans h1.sameView

theorem ScanFrame.view_eq {typ : Nat} {s s' : MState} (h : ScanFrame typ s s') :
    C19Scan.view s' typ = C19Scan.view s typ := by
  unfold C19Scan.view viewOf
  rw [proj_congr h.rest]; exact h.sameView

theorem sorted_iff_of_map_zl {i j : AList Meta} (h : i.map zl = j.map zl) : AList.Sorted i ↔ AList.Sorted j := by
  have key : ∀ (l : AList Meta), AList.Sorted l ↔ (l.map zl).Pairwise KeyLt := by
    intro l
    rw [sorted_iff_pairwise, List.pairwise_map]
    exact Iff.rfl
  rw [key i, key j, h]

theorem ScanFrame.sorted {typ : Nat} {s s' : MState} (h : ScanFrame typ s s') (hs : AList.Sorted s.index) :
    AList.Sorted s'.index := (sorted_iff_of_map_zl h.other).2 hs

theorem ScanFrame.length {typ : Nat} {s s' : MState} (h : ScanFrame typ s s') : s'.index.length = s.index.length := by
  have := congrArg List.length h.other
  simpa using this

/-- replacing the record of a present key of a sorted index by one with the same image under `g` -/
theorem map_set_of_eq {β : Type} (g : Bytes × Meta → β) (idx : AList Meta) (hs : AList.Sorted idx) (key : Bytes) (m m' : Meta)
    (hget : AList.get? idx key = some m) (hm : g (key, m') = g (key, m)) :
    (AList.set idx key m').map g = idx.map g := by
  induction idx with
  | nil => simp [AList.get?] at hget
  | cons a rest ih =>
    obtain ⟨k, w⟩ := a
    simp only [AList.get?] at hget
    simp only [AList.set]
    by_cases hk : k = key
    · simp only [hk, if_true, Option.some.injEq] at hget
      subst hget
      simp only [hk, if_true, List.map_cons, hm]
    · simp only [hk, if_false] at hget
      simp only [hk, if_false]
      obtain ⟨hrest, hall⟩ := sorted_cons (k, w) rest hs
      have hlt : Bytes.lt k key = true := hall (key, m) (mem_of_get? rest key m hget)
      have hnlt : Bytes.lt key k = false := lt_asymm k key hlt
      simp only [hnlt, Bool.false_eq_true, if_false, List.map_cons, ih hrest hget]

/-- a record update that the call's view, `zl` (and `zc` when untyped) do not see -/
theorem scanFrame_putMeta (typ : Nat) (s : MState) (hs : AList.Sorted s.index) (key : Bytes) (m m' : Meta)
    (hget : getMeta s key = some m)
    (h1 : proj s typ (key, m') = proj s typ (key, m)) (h2 : zl (key, m') = zl (key, m))
    (h3 : typ = 0 → zc (key, m') = zc (key, m)) : ScanFrame typ s (putMeta s key m') :=
  ⟨rfl, map_set_of_eq _ s.index hs key m m' hget h1, map_set_of_eq _ s.index hs key m m' hget h2,
    fun h => map_set_of_eq _ s.index hs key m m' hget (h3 h)⟩

theorem getMeta_modMeta_other (s : MState) (key : Bytes) (f : Meta → Meta) (k : Bytes) (hk : k ≠ key) :
    getMeta (modMeta s key f) k = getMeta s k := by
  unfold modMeta
  cases h : getMeta s key with
  | none => rfl
  | some m => exact get?_set_other s.index key _ k hk

/-- the load step of `go`, as a function -/
def loadFor (s : MState) (typ : Nat) (key : Bytes) (m : Meta) : MState × Nat :=
  if typ ≠ 0 ∧ m.vtype = 0 ∧ m.value.isNone then
    match loadValue s key m with
    | some (v, oid) => (modMeta s key fun m' => ({ m' with oid := oid }.setValue v), v.typeCode)
    | none => (s, m.vtype)
  else (s, m.vtype)

/-- the lock-and-load part of one visited entry: `rLockKey` bumps the counter, a TYPE filter on a
    never-loaded record loads the value. `m` = the record as the walk sees it (snapshot). -/
theorem visit_frame (typ : Nat) (s : MState) (hs : AList.Sorted s.index) (key : Bytes) (m : Meta)
    (hget : getMeta s key = some m) :
    let s1 := modMeta s key fun m => { m with count := m.count + 1 }
    ScanFrame typ s (loadFor s1 typ key m).1 ∧ (loadFor s1 typ key m).2 = etype s typ (key, m) ∧
    ScanFrame typ s s1 := by
  intro s1
  have hs1 : s1 = putMeta s key { m with count := m.count + 1 } := by
    simp only [s1, modMeta, hget]
  have hF1 : ScanFrame typ s s1 := by
    rw [hs1]
    exact scanFrame_putMeta typ s hs key m _ hget rfl rfl (fun _ => rfl)
  have hget1 : getMeta s1 key = some { m with count := m.count + 1 } := by
    rw [hs1]; exact get?_set_same s.index key _
  have hload : loadValue s1 key m = loadValue s key m := loadValue_congr hF1.rest key m
  refine ⟨?_, ?_, hF1⟩
  · unfold loadFor
    split
    · rename_i hc
      rw [hload]
      cases hl : loadValue s key m with
      | none => exact hF1
      | some vo =>
        obtain ⟨v, oid⟩ := vo
        simp only
        refine hF1.trans ?_
        have : (modMeta s1 key fun m' => ({ m' with oid := oid }.setValue v)) =
            putMeta s1 key ({ ({ m with count := m.count + 1 } : Meta) with oid := oid }.setValue v) := by
          simp only [modMeta, hget1]
        rw [this]
        apply scanFrame_putMeta typ s1 (hF1.sorted hs) key _ _ hget1
        · -- the loaded record shows the type the view had already announced
          have hl1 : loadValue s1 key { m with count := m.count + 1 } = some (v, oid) := by
            rw [← hl, ← hload]; rfl
          have e1 : etype s1 typ (key, { m with count := m.count + 1 }) = v.typeCode := by
            rw [etype, if_pos ⟨hc.1, hc.2.1, hc.2.2⟩]
            simp only [hl1]
          have e2 : etype s1 typ (key, ({ ({ m with count := m.count + 1 } : Meta) with oid := oid }.setValue v))
              = v.typeCode := by
            rw [etype, if_neg (by simp [Meta.setValue])]
            rfl
          simp only [proj, e1, e2]
          rfl
        · rfl
        · intro h0; exact absurd h0 hc.1
    · exact hF1
  · unfold loadFor etype
    rw [hload]
    split
    · cases hl : loadValue s key m with
      | none => rfl
      | some vo => rfl
    · rfl

/-! ## `Api.scan.go` = `goPure` on the view -/

theorem go_cons (now : Int) (pat : Bytes) (typ : Nat) (key : Bytes) (m : Meta) (rest : List (Bytes × Meta))
    (s : MState) (cursor iter count : Int) (acc : List Bytes) :
    Api.scan.go now pat typ ((key, m) :: rest) s cursor iter count acc =
      if wrap64 (cursor - 1) > 0 then Api.scan.go now pat typ rest s (wrap64 (cursor - 1)) (iter + 1) count acc else
      if count = 0 then (s, iter + 1, acc.reverse) else
      if (Glob.matched pat key && !m.expired now) = true then
        if typ ≠ 0 ∧ (loadFor (modMeta s key fun m => { m with count := m.count + 1 }) typ key m).2 ≠ typ then
          Api.scan.go now pat typ rest (loadFor (modMeta s key fun m => { m with count := m.count + 1 }) typ key m).1
            (wrap64 (cursor - 1)) (iter + 1) (wrap64 (count - 1)) acc
        else
          Api.scan.go now pat typ rest (loadFor (modMeta s key fun m => { m with count := m.count + 1 }) typ key m).1
            (wrap64 (cursor - 1)) (iter + 1) (wrap64 (count - 1)) (key :: acc)
      else Api.scan.go now pat typ rest (modMeta s key fun m => { m with count := m.count + 1 })
            (wrap64 (cursor - 1)) (iter + 1) (wrap64 (count - 1)) acc := by
  rw [Api.scan.go]
  rfl

/-- the walk over the snapshot `ents` of the index: its reply is `goPure` on the view, its effect
    on the store is a `ScanFrame`. The entries still to be walked over are untouched so far. -/
theorem go_spec (now : Int) (pat : Bytes) (typ : Nat) :
    ∀ (ents : List (Bytes × Meta)) (s : MState) (cursor iter count : Int) (acc : List Bytes),
      AList.Sorted s.index → AList.Sorted ents → (∀ e ∈ ents, getMeta s e.1 = some e.2) →
      (Api.scan.go now pat typ ents s cursor iter count acc).2 =
        goPure now pat typ (viewOf s typ ents) cursor iter count acc ∧
      ScanFrame typ s (Api.scan.go now pat typ ents s cursor iter count acc).1 := by
  intro ents
  induction ents with
  | nil => intro s cursor iter count acc _ _ _; simp [Api.scan.go, goPure, viewOf, ScanFrame.refl]
  | cons e rest ih =>
    intro s cursor iter count acc hs hents hgets
    obtain ⟨key, m⟩ := e
    have hv : viewOf s typ ((key, m) :: rest) = proj s typ (key, m) :: viewOf s typ rest := rfl
    obtain ⟨hrest, hall⟩ := sorted_cons (key, m) rest hents
    have hget : getMeta s key = some m := hgets (key, m) List.mem_cons_self
    rw [hv, go_cons, goPure]
    simp only
    -- after any update of `key`'s record the entries of `rest` are still untouched
    have hkeep : ∀ (s' : MState), ScanFrame typ s s' → (∀ k, k ≠ key → getMeta s' k = getMeta s k) →
        AList.Sorted s'.index ∧ (∀ e ∈ rest, getMeta s' e.1 = some e.2) ∧ viewOf s' typ rest = viewOf s typ rest := by
      intro s' hF hoth
      refine ⟨hF.sorted hs, ?_, by unfold viewOf; rw [proj_congr hF.rest]⟩
      intro e he
      have hne : e.1 ≠ key := fun h => by
        have := hall e he
        unfold KeyLt at this
        rw [h] at this
        simp [lt_irrefl] at this
      rw [hoth e.1 hne]; exact hgets e (List.mem_cons_of_mem _ he)
    by_cases h1 : wrap64 (cursor - 1) > 0
    · simp only [h1, if_true]
      exact ih s _ _ _ _ hs hrest (fun e he => hgets e (List.mem_cons_of_mem _ he))
    · simp only [h1, if_false]
      by_cases h3 : count = 0
      · simp only [h3, if_true]; exact ⟨trivial, ScanFrame.refl typ s⟩
      · simp only [h3, if_false]
        obtain ⟨hFl, hvt, hF1⟩ := visit_frame typ s hs key m hget
        have hoth1 : ∀ k, k ≠ key → getMeta (modMeta s key fun m => { m with count := m.count + 1 }) k = getMeta s k :=
          fun k hk => getMeta_modMeta_other s key _ k hk
        have hothl : ∀ k, k ≠ key →
            getMeta (loadFor (modMeta s key fun m => { m with count := m.count + 1 }) typ key m).1 k = getMeta s k := by
          intro k hk
          rw [← hoth1 k hk]
          unfold loadFor
          split
          · split
            · exact getMeta_modMeta_other _ key _ k hk
            · rfl
          · rfl
        have hexp : m.expired now = vexpired (proj s typ (key, m)) now := rfl
        by_cases h4 : (Glob.matched pat key && !m.expired now) = true
        · rw [if_pos h4, hvt]
          obtain ⟨hs', hg', hv'⟩ := hkeep _ hFl hothl
          by_cases h5 : typ ≠ 0 ∧ etype s typ (key, m) ≠ typ
          · have hk : keep now pat typ (proj s typ (key, m)) = false := by
              simp only [keep, proj]
              simp [h5]
            rw [if_pos h5, hk]
            simp only [Bool.false_eq_true, if_false]
            obtain ⟨i1, i2⟩ := ih _ (wrap64 (cursor - 1)) (iter + 1) (wrap64 (count - 1)) acc hs' hrest hg'
            rw [hv'] at i1
            exact ⟨i1, hFl.trans i2⟩
          · have hk : keep now pat typ (proj s typ (key, m)) = true := by
              simp only [keep, ← hexp]
              simp only [proj, h4, Bool.true_and]
              simp [h5]
            rw [if_neg h5, hk]
            simp only [if_true]
            obtain ⟨i1, i2⟩ := ih _ (wrap64 (cursor - 1)) (iter + 1) (wrap64 (count - 1)) (key :: acc) hs' hrest hg'
            rw [hv'] at i1
            exact ⟨i1, hFl.trans i2⟩
        · have hk : keep now pat typ (proj s typ (key, m)) = false := by
            simp only [keep, ← hexp]
            simp only [proj]
            simp only [Bool.not_eq_true] at h4
            simp [h4]
          rw [if_neg h4, hk]
          simp only [Bool.false_eq_true, if_false]
          obtain ⟨hs', hg', hv'⟩ := hkeep _ hF1 hoth1
          obtain ⟨i1, i2⟩ := ih _ (wrap64 (cursor - 1)) (iter + 1) (wrap64 (count - 1)) acc hs' hrest hg'
          rw [hv'] at i1
          exact ⟨i1, hF1.trans i2⟩

/-- the reply of a SCAN call is `scanPure` of the view, and the call is a `ScanFrame` -/
theorem scan_spec (s : MState) (hs : AList.Sorted s.index) (now cursor : Int) (pat : Bytes) (count : Int) (typ : Nat) :
    (Api.scan s now cursor pat count typ).2 =
      .many [.int (scanPure (view s typ) now cursor pat count typ).1, .slist (scanPure (view s typ) now cursor pat count typ).2] ∧
    ScanFrame typ s (Api.scan s now cursor pat count typ).1 := by
  unfold Api.scan scanPure
  have hl : (view s typ).length = s.index.length := by simp [view, viewOf]
  simp only [hl]
  by_cases h1 : ((s.index.length : Nat) : Int) = 0
  · simp only [h1, if_true]; exact ⟨trivial, ScanFrame.refl typ s⟩
  · simp only [h1, if_false]
    by_cases h2 : cursor > ((s.index.length : Nat) : Int)
    · simp only [h2, if_true]; exact ⟨trivial, ScanFrame.refl typ s⟩
    · simp only [h2, if_false]
      obtain ⟨g1, g2⟩ := go_spec now pat typ s.index s cursor 0 count [] hs hs
        (fun e he => get?_of_mem s.index hs e.1 e.2 he)
      simp only [view]
      rw [← g1]
      exact ⟨rfl, g2⟩

/-! the reply alone, on any store (no btree hypothesis): only the index ever changes during a call -/

def RestEq (s s' : MState) : Prop := s' = { s with index := s'.index }

theorem RestEq.trans {a b c : MState} (h1 : RestEq a b) (h2 : RestEq b c) : RestEq a c := by
  unfold RestEq at *; rw [h2, h1]

theorem restEq_modMeta (s : MState) (key : Bytes) (f : Meta → Meta) : RestEq s (modMeta s key f) := by
  unfold modMeta RestEq
  cases getMeta s key <;> rfl

theorem restEq_loadFor (s : MState) (typ : Nat) (key : Bytes) (m : Meta) : RestEq s (loadFor s typ key m).1 := by
  unfold loadFor
  split
  · split
    · exact restEq_modMeta s key _
    · rfl
  · rfl

theorem loadFor_snd (s s0 : MState) (h : RestEq s0 s) (typ : Nat) (key : Bytes) (m : Meta) :
    (loadFor s typ key m).2 = etype s0 typ (key, m) := by
  unfold loadFor etype
  rw [loadValue_congr h]
  split
  · cases loadValue s0 key m with
    | none => rfl
    | some vo => rfl
  · rfl

theorem go_out (now : Int) (pat : Bytes) (typ : Nat) :
    ∀ (ents : List (Bytes × Meta)) (s : MState) (cursor iter count : Int) (acc : List Bytes),
      (Api.scan.go now pat typ ents s cursor iter count acc).2 =
        goPure now pat typ (viewOf s typ ents) cursor iter count acc := by
  intro ents
  induction ents with
  | nil => intro s cursor iter count acc; simp [Api.scan.go, goPure, viewOf]
  | cons e rest ih =>
    intro s cursor iter count acc
    obtain ⟨key, m⟩ := e
    have hv : viewOf s typ ((key, m) :: rest) = proj s typ (key, m) :: viewOf s typ rest := rfl
    rw [hv, go_cons, goPure]
    simp only
    have hR1 : RestEq s (modMeta s key fun m => { m with count := m.count + 1 }) := restEq_modMeta s key _
    have hRl := hR1.trans (restEq_loadFor (modMeta s key fun m => { m with count := m.count + 1 }) typ key m)
    have hvt := loadFor_snd _ s hR1 typ key m
    have hv1 : viewOf (modMeta s key fun m => { m with count := m.count + 1 }) typ rest = viewOf s typ rest := by
      unfold viewOf; rw [proj_congr hR1]
    have hvl : viewOf (loadFor (modMeta s key fun m => { m with count := m.count + 1 }) typ key m).1 typ rest
        = viewOf s typ rest := by
      unfold viewOf; rw [proj_congr hRl]
    by_cases h1 : wrap64 (cursor - 1) > 0
    · simp only [h1, if_true]; exact ih _ _ _ _ _
    · simp only [h1, if_false]
      by_cases h3 : count = 0
      · simp only [h3, if_true]
      · simp only [h3, if_false]
        have hexp : m.expired now = vexpired (proj s typ (key, m)) now := rfl
        by_cases h4 : (Glob.matched pat key && !m.expired now) = true
        · rw [if_pos h4, hvt]
          by_cases h5 : typ ≠ 0 ∧ etype s typ (key, m) ≠ typ
          · have hk : keep now pat typ (proj s typ (key, m)) = false := by
              simp only [keep, proj]
              simp [h5]
            rw [if_pos h5, hk]
            simp only [Bool.false_eq_true, if_false]
            rw [ih, hvl]
          · have hk : keep now pat typ (proj s typ (key, m)) = true := by
              simp only [keep, ← hexp]
              simp only [proj, h4, Bool.true_and]
              simp [h5]
            rw [if_neg h5, hk]
            simp only [if_true]
            rw [ih, hvl]
            rfl
        · have hk : keep now pat typ (proj s typ (key, m)) = false := by
            simp only [keep, ← hexp]
            simp only [proj]
            simp only [Bool.not_eq_true] at h4
            simp [h4]
          rw [if_neg h4, hk]
          simp only [Bool.false_eq_true, if_false]
          rw [ih, hv1]

/-- the reply of a SCAN call (any store) is `scanPure` of the view of the call -/
theorem scan_out (s : MState) (now cursor : Int) (pat : Bytes) (count : Int) (typ : Nat) :
    (Api.scan s now cursor pat count typ).2 =
      .many [.int (scanPure (view s typ) now cursor pat count typ).1, .slist (scanPure (view s typ) now cursor pat count typ).2] := by
  unfold Api.scan scanPure
  have hl : (view s typ).length = s.index.length := by simp [view, viewOf]
  simp only [hl]
  by_cases h1 : ((s.index.length : Nat) : Int) = 0
  · simp only [h1, if_true]
  · simp only [h1, if_false]
    by_cases h2 : cursor > ((s.index.length : Nat) : Int)
    · simp only [h2, if_true]
    · simp only [h2, if_false]
      have := go_out now pat typ s.index s cursor 0 count []
      simp only [view]
      rw [← this]

theorem scanStep_out (now : Int) (pat : Bytes) (count : Int) (typ : Nat) (s : MState) (c : Int) :
    (scanStep now pat count typ s c).2 = scanPure (view s typ) now c pat count typ := by
  simp only [scanStep, scan_out, scanOut]

/-- a SCAN call changes nothing but access counters and (TYPE given) the load state of records -/
theorem scan_frame (s : MState) (hs : AList.Sorted s.index) (now cursor : Int) (pat : Bytes) (count : Int) (typ : Nat) :
    ScanFrame typ s (Api.scan s now cursor pat count typ).1 :=
  (scan_spec s hs now cursor pat count typ).2

end NodisVerif.Proofs.C19Scan
