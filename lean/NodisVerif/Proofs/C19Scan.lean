import NodisVerif.Model.Api
import NodisVerif.Spec.Scan
import NodisVerif.Proofs.C19Iter
import NodisVerif.Proofs.AListLemmas2
/-
  C19 helpers, part 3: the keyspace SCAN (`Api.scan`).

  * `view`     : what SCAN looks at — per index record its name, deadline and cached type.
  * `scanPure` : the same loop as `Api.scan.go` on the view, without the store.
  * `scan_out`, `scan_frame` : a SCAN call replies `scanPure (view s)` and changes nothing in the
    store except the access counters (`count`) of index records.
-/
namespace NodisVerif.Proofs.C19Scan
open NodisVerif.Spec.Scan NodisVerif.Proofs.C19Iter NodisVerif.Store
open NodisVerif.Proofs.AListLemmas NodisVerif.Proofs.AListLemmas2

/-- name, deadline, cached value type -/
abbrev VEnt := Bytes × Int × Nat

def proj (e : Bytes × Meta) : VEnt := (e.1, e.2.exp, e.2.vtype)
def viewOf (idx : AList Meta) : List VEnt := idx.map proj
def view (s : MState) : List VEnt := viewOf s.index

/-- forget the access counter of a record -/
def zc (e : Bytes × Meta) : Bytes × Meta := (e.1, { e.2 with count := 0 })

/-- `metadata.expired(now)` on a view entry -/
def vexpired (e : VEnt) (now : Int) : Bool := e.2.1 != 0 && e.2.1 ≤ now

/-- the filter of SCAN: pattern, not expired, TYPE -/
def keep (now : Int) (pat : Bytes) (typ : Nat) (e : VEnt) : Bool :=
  (Glob.matched pat e.1 && !vexpired e now) && !(decide (typ ≠ 0 ∧ e.2.2 ≠ typ))

/-- `Api.scan.go` without the store -/
def goPure (now : Int) (pat : Bytes) (typ : Nat) (keyLen : Int) :
    List VEnt → Int → Int → Int → List Bytes → Int × List Bytes
  | [], _, iter, _, acc => (iter, acc.reverse)
  | e :: rest, cursor, iter, count, acc =>
    let iter := iter + 1
    let cursor := wrap64 (cursor - 1)
    if cursor > 0 then goPure now pat typ keyLen rest cursor iter count acc else
    if iter > keyLen then (0, acc.reverse) else
    if count = 0 then (iter, acc.reverse) else
    let count := wrap64 (count - 1)
    if keep now pat typ e then goPure now pat typ keyLen rest cursor iter count (e.1 :: acc)
    else goPure now pat typ keyLen rest cursor iter count acc

/-- `Api.scan` without the store: (next cursor, keys) -/
def scanPure (v : List VEnt) (now : Int) (cursor : Int) (pat : Bytes) (count : Int) (typ : Nat) : Int × List Bytes :=
  let keyLen : Int := v.length
  if keyLen = 0 then (0, []) else
  if cursor ≥ keyLen then (0, []) else
  goPure now pat typ keyLen v cursor 0 count []

/-- the reply of `Api.scan` as a pair -/
def scanOut : Out → Int × List Bytes
  | .many [.int next, .slist ks] => (next, ks)
  | _ => (0, [])

/-- one SCAN command as a step of the client loop -/
def scanStep (now : Int) (pat : Bytes) (count : Int) (typ : Nat) (s : MState) (c : Int) : MState × Int × List Bytes :=
  let r := Api.scan s now c pat count typ
  (r.1, scanOut r.2)

/-! ## the store is untouched except for access counters -/

/-- equal up to the access counters of index records -/
def SameButCount (s s' : MState) : Prop :=
  s' = { s with index := s'.index } ∧ s'.index.map zc = s.index.map zc

theorem SameButCount.refl (s : MState) : SameButCount s s := ⟨rfl, rfl⟩

theorem SameButCount.trans {a b c : MState} (h1 : SameButCount a b) (h2 : SameButCount b c) : SameButCount a c := by
  obtain ⟨e1, m1⟩ := h1
  obtain ⟨e2, m2⟩ := h2
  refine ⟨?_, m2.trans m1⟩
  rw [e2, e1]

theorem viewOf_eq_of_zc {i j : AList Meta} (h : i.map zc = j.map zc) : viewOf i = viewOf j := by
  have : ∀ (l : AList Meta), viewOf l = (l.map zc).map proj := by
    intro l; simp [viewOf, List.map_map]; intro a b _; rfl
  rw [this i, this j, h]

theorem SameButCount.view {s s' : MState} (h : SameButCount s s') : view s' = view s :=
  viewOf_eq_of_zc h.2

theorem sorted_iff_of_map_zc {i j : AList Meta} (h : i.map zc = j.map zc) : AList.Sorted i ↔ AList.Sorted j := by
  have key : ∀ (l : AList Meta), AList.Sorted l ↔ (l.map zc).Pairwise KeyLt := by
    intro l
    rw [sorted_iff_pairwise, List.pairwise_map]
    exact Iff.rfl
  rw [key i, key j, h]

/-- replacing the record of a present key of a sorted index by one that differs in the counter only -/
theorem map_zc_set (idx : AList Meta) (hs : AList.Sorted idx) (key : Bytes) (m m' : Meta)
    (hget : AList.get? idx key = some m) (hm : zc (key, m') = zc (key, m)) :
    (AList.set idx key m').map zc = idx.map zc := by
  induction idx with
  | nil => simp [AList.get?] at hget
  | cons a rest ih =>
    obtain ⟨k, w⟩ := a
    simp only [AList.get?] at hget
    simp only [AList.set]
    by_cases hk : k = key
    · simp only [hk, if_true, Option.some.injEq] at hget
      subst hget
      simp only [hk, if_true, List.map_cons, hm]
    · simp only [hk, if_false] at hget
      simp only [hk, if_false]
      obtain ⟨hrest, hall⟩ := sorted_cons (k, w) rest hs
      have hlt : Bytes.lt k key = true := hall (key, m) (mem_of_get? rest key m hget)
      have hnlt : Bytes.lt key k = false := lt_asymm k key hlt
      simp only [hnlt, Bool.false_eq_true, if_false, List.map_cons, ih hrest hget]

theorem sameButCount_modMeta (s : MState) (hs : AList.Sorted s.index) (key : Bytes) (f : Meta → Meta)
    (hf : ∀ m, zc (key, f m) = zc (key, m)) : SameButCount s (modMeta s key f) := by
  unfold modMeta
  cases hget : getMeta s key with
  | none => exact SameButCount.refl s
  | some m =>
    refine ⟨rfl, ?_⟩
    exact map_zc_set s.index hs key m (f m) hget (hf m)

theorem SameButCount.sorted {s s' : MState} (h : SameButCount s s') (hs : AList.Sorted s.index) :
    AList.Sorted s'.index := (sorted_iff_of_map_zc h.2).2 hs

/-! ## `Api.scan.go` = `goPure` on the view -/

theorem go_out (now : Int) (pat : Bytes) (typ : Nat) (keyLen : Int) :
    ∀ (ents : List (Bytes × Meta)) (s : MState) (cursor iter count : Int) (acc : List Bytes),
      (Api.scan.go now pat typ keyLen ents s cursor iter count acc).2 =
        goPure now pat typ keyLen (viewOf ents) cursor iter count acc := by
  intro ents
  induction ents with
  | nil => intro s cursor iter count acc; simp [Api.scan.go, goPure, viewOf]
  | cons e rest ih =>
    intro s cursor iter count acc
    obtain ⟨key, m⟩ := e
    have hv : viewOf ((key, m) :: rest) = proj (key, m) :: viewOf rest := rfl
    rw [hv]
    simp only [Api.scan.go, goPure]
    by_cases h1 : wrap64 (cursor - 1) > 0
    · simp only [h1, if_true]; exact ih _ _ _ _ _
    · simp only [h1, if_false]
      by_cases h2 : iter + 1 > keyLen
      · simp only [h2, if_true]
      · simp only [h2, if_false]
        by_cases h3 : count = 0
        · simp only [h3, if_true]
        · simp only [h3, if_false]
          have hexp : m.expired now = vexpired (proj (key, m)) now := rfl
          by_cases h4 : (Glob.matched pat key && !m.expired now) = true
          · by_cases h5 : typ ≠ 0 ∧ m.vtype ≠ typ
            · have hk : keep now pat typ (proj (key, m)) = false := by
                simp only [keep, proj]
                simp [h5]
              rw [if_pos h4, if_pos h5, hk]
              simp only [Bool.false_eq_true, if_false]
              exact ih _ _ _ _ _
            · have hk : keep now pat typ (proj (key, m)) = true := by
                simp only [keep, ← hexp]
                simp only [proj, h4, Bool.true_and]
                simp [h5]
              rw [if_pos h4, if_neg h5, hk]
              simp only [if_true]
              exact ih _ _ _ _ _
          · have hk : keep now pat typ (proj (key, m)) = false := by
              simp only [keep, ← hexp]
              simp only [proj]
              simp only [Bool.not_eq_true] at h4
              simp [h4]
            rw [if_neg h4, hk]
            simp only [Bool.false_eq_true, if_false]
            exact ih _ _ _ _ _

theorem go_frame (now : Int) (pat : Bytes) (typ : Nat) (keyLen : Int) :
    ∀ (ents : List (Bytes × Meta)) (s : MState) (cursor iter count : Int) (acc : List Bytes),
      AList.Sorted s.index →
      SameButCount s (Api.scan.go now pat typ keyLen ents s cursor iter count acc).1 := by
  intro ents
  induction ents with
  | nil => intro s cursor iter count acc _; simp only [Api.scan.go]; exact SameButCount.refl s
  | cons e rest ih =>
    intro s cursor iter count acc hs
    obtain ⟨key, m⟩ := e
    simp only [Api.scan.go]
    have hmod : SameButCount s (modMeta s key fun m => { m with count := m.count + 1 }) :=
      sameButCount_modMeta s hs key _ (fun _ => rfl)
    split
    · exact ih _ _ _ _ _ hs
    · split
      · exact SameButCount.refl s
      · split
        · exact SameButCount.refl s
        · split
          · split
            · exact hmod.trans (ih _ _ _ _ _ (hmod.sorted hs))
            · exact hmod.trans (ih _ _ _ _ _ (hmod.sorted hs))
          · exact hmod.trans (ih _ _ _ _ _ (hmod.sorted hs))

/-- the reply of a SCAN call is `scanPure` of the view: it does not depend on anything else in the
    store (values hot or cold, storage backend, counters, ...) -/
theorem scan_out (s : MState) (now cursor : Int) (pat : Bytes) (count : Int) (typ : Nat) :
    (Api.scan s now cursor pat count typ).2 =
      .many [.int (scanPure (view s) now cursor pat count typ).1, .slist (scanPure (view s) now cursor pat count typ).2] := by
  unfold Api.scan scanPure
  have hl : (view s).length = s.index.length := by simp [view, viewOf]
  simp only [hl]
  by_cases h1 : ((s.index.length : Nat) : Int) = 0
  · simp only [h1, if_true]
  · simp only [h1, if_false]
    by_cases h2 : cursor ≥ ((s.index.length : Nat) : Int)
    · simp only [h2, if_true]
    · simp only [h2, if_false]
      have := go_out now pat typ (s.index.length : Int) s.index s cursor 0 count []
      simp only [view]
      rw [← this]

theorem scanStep_out (now : Int) (pat : Bytes) (count : Int) (typ : Nat) (s : MState) (c : Int) :
    (scanStep now pat count typ s c).2 = scanPure (view s) now c pat count typ := by
  simp only [scanStep, scan_out, scanOut]

/-- a SCAN call changes nothing but access counters (in a store whose index is a proper btree) -/
theorem scan_frame (s : MState) (hs : AList.Sorted s.index) (now cursor : Int) (pat : Bytes) (count : Int) (typ : Nat) :
    SameButCount s (Api.scan s now cursor pat count typ).1 := by
  unfold Api.scan
  simp only
  split
  · exact SameButCount.refl s
  · split
    · exact SameButCount.refl s
    · exact go_frame now pat typ _ s.index s cursor 0 count [] hs

end NodisVerif.Proofs.C19Scan
