import NodisVerif.Proofs.TxProgConv
import NodisVerif.Proofs.ProtoWait
/-
  Program model of tx.go: program-level progress — whenever some transaction is active, some active thread has an
  enabled transition (no deadlock over record mutexes and `store.mu` together).
-/
namespace NodisVerif.Proofs.TxProg
open NodisVerif.Proto (Key Rec Mode Ev Hold TxSt PState assoc erase put Tx)
open NodisVerif.TxProg
open NodisVerif.Proofs.Proto

/-- "some active thread can move" -/
def CanMove (c : Cfg) : Prop := ∃ t ch, (c.loc t).pc ≠ .init ∧ (TxProg.step c t ch).isSome = true

theorem extra_some_moves {c : Cfg} {v : Tid} {x : Rec × Mode} (hx : extra (c.loc v) = some x) : CanMove c := by
  have hmb : mayBlock (c.loc v).pc = false := by
    cases hpc : (c.loc v).pc <;> simp [extra, hpc] at hx <;> rfl
  have hne : (c.loc v).pc ≠ .init := by intro h; simp [extra, h] at hx
  exact ⟨v, {}, hne, enabled_unless_mayBlock c v {} hmb⟩

/-- an active thread that is not waiting for a record mutex can move, or the thread that keeps it out of
    `store.mu` can -/
theorem moves_unless_record_wait {c : Cfg} {p : PState} (hst : Strong c p) {u : Tid}
    (hact : (c.loc u).pc ≠ .init) (h8 : (c.loc u).pc ≠ .a8) (hg2 : (c.loc u).pc ≠ .g2) : CanMove c := by
  obtain ⟨r, hr⟩ := exists_fresh c.sh.names
  by_cases hmb : mayBlock (c.loc u).pc = false
  · exact ⟨u, {}, hact, enabled_unless_mayBlock c u {} hmb⟩
  · have hmb : mayBlock (c.loc u).pc = true := by simpa using hmb
    by_cases hs : smuAcquire (c.loc u).pc = true
    · cases hen : TxProg.step c u {} with
      | some x => exact ⟨u, {}, hact, by simp [hen]⟩
      | none =>
        obtain ⟨v, _, hv, hmv⟩ := blocked_on_smu_by_a_mover hst hs hen
        exact ⟨v, { fresh := r }, hv, hmv _ hr⟩
    · cases hpc : (c.loc u).pc <;> simp [hpc, mayBlock] at hmb <;> simp [hpc, smuAcquire] at hs <;>
        first | exact absurd hpc hact | exact absurd hpc h8 | exact absurd hpc hg2 | skip
      · -- idle: the command can always commit
        refine ⟨u, { call := .commit }, hact, ?_⟩
        unfold TxProg.step; simp [tstep, hpc]
      · -- a5
        refine ⟨u, { fresh := r }, hact, ?_⟩
        unfold TxProg.step
        simp only [tstep, hpc]
        cases c.sh.lookup (c.loc u).key <;> simp [hr]
      · exact ⟨u, {}, hact, delKey_not_stuck hst hpc {}⟩
      · -- d3
        refine ⟨u, { fresh := r }, hact, ?_⟩
        unfold TxProg.step; simp [tstep, hpc, hr]

/-- a hold in the abstraction contradicts `free` -/
theorem free_excludes_hold {c : Cfg} {p : PState} (hs : Sim c p) {r : Rec} {m : Mode} (hfree : p.free r m = true)
    {v : Tid} {g : Hold} (hg : g ∈ holdsOf (c.loc v)) (hr : g.rid = r) (hm : m = .w ∨ g.mode = .w) : False := by
  have hpc : (c.loc v).pc ≠ .init := by intro h; simp [holdsOf, h] at hg
  have hh : Holds p v g := ⟨_, hs.tx_some v hpc, hg⟩
  have hmem : (v, g) ∈ p.heldBy r := mem_heldBy.2 ⟨mem_allHolds_of_holds hh, hr⟩
  cases m with
  | w =>
    simp only [PState.free, List.isEmpty_iff] at hfree
    rw [hfree] at hmem; cases hmem
  | r =>
    simp only [PState.free, List.all_eq_true] at hfree
    have := hfree _ hmem
    rcases hm with h | h
    · cases h
    · simp [h] at this

/-- the owner of a record mutex that the protocol considers free is between a lock operation and its event: it moves -/
theorem owner_moves {c : Cfg} {p : PState} (hs : Sim c p) {r : Rec} {m m' : Mode} (hfree : p.free r m = true)
    {v : Tid} (hown : (r, m') ∈ ownedList (c.loc v)) (hm : m = .w ∨ m' = .w) : CanMove c := by
  simp only [ownedList, List.mem_append, List.mem_map, Option.mem_toList] at hown
  rcases hown with ⟨g, hg, he⟩ | hx
  · have h1 : g.rid = r := congrArg Prod.fst he
    have h2 : g.mode = m' := congrArg Prod.snd he
    exact (free_excludes_hold hs hfree hg h1 (by rw [h2]; exact hm)).elim
  · exact extra_some_moves (by simpa using hx)

/-- a thread that waits for a record mutex which the protocol considers free can take it, or its owner can move -/
theorem record_wait_moves {c : Cfg} {p : PState} (hf : Full c p) {u : Tid} {w : Bool} {m : Rec}
    (hact : (c.loc u).pc ≠ .init)
    (hstep : ∀ ch, TxProg.step c u ch = none →
      (w = true ∧ (c.sh.mu m).canLock = false) ∨ (w = false ∧ (c.sh.mu m).canRLock = false))
    (hfree : p.free m (modeOf w) = true) : CanMove c := by
  have hs := hf.strong.sim
  cases hen : TxProg.step c u {} with
  | some x => exact ⟨u, {}, hact, by simp [hen]⟩
  | none =>
    rcases hstep {} hen with ⟨hw, hc⟩ | ⟨hw, hc⟩
    · subst hw
      cases hwr : (c.sh.mu m).writer with
      | some v => exact owner_moves hs hfree ((hf.conv v m).1 hwr) (Or.inl rfl)
      | none =>
        cases hrd : (c.sh.mu m).readers with
        | nil => simp [Mu.canLock, hwr, hrd] at hc
        | cons v l =>
          exact owner_moves hs hfree ((hf.conv v m).2 (by simp [hrd])) (Or.inl rfl)
    · subst hw
      cases hwr : (c.sh.mu m).writer with
      | some v => exact owner_moves hs hfree ((hf.conv v m).1 hwr) (Or.inr rfl)
      | none => simp [Mu.canRLock, hwr] at hc

/-- PROGRESS: in every state related to a reachable protocol state in which some transaction is active, some active
    thread has an enabled transition -/
theorem full_progress {c : Cfg} {p : PState} (hf : Full c p) {t0 : Tid} (hact : (c.loc t0).pc ≠ .init) :
    CanMove c := by
  have hst := hf.strong
  have hs := hst.sim
  have hne : p.txs ≠ [] := by
    intro hnil
    have := hs.tx_some t0 hact
    simp [PState.tx, hnil, assoc] at this
  obtain ⟨u, st, hu, hnb⟩ := someone_not_blocked hs.inv hne
  have huact : (c.loc u).pc ≠ .init := by
    intro h; have := hs.tx u; rw [hu] at this; simp [absTx, h] at this
  have hfree : ∀ k r m, st.waiting = some (k, r, m) → p.free r m = true := by
    intro k r m hw
    cases hx : p.free r m with
    | true => rfl
    | false => exact absurd ⟨st, k, r, m, hu, hw, hx⟩ hnb
  have htx := hs.tx_some u huact
  rw [hu] at htx
  have hst_eq := Option.some.inj htx
  by_cases h8 : (c.loc u).pc = .a8
  · have hw : st.waiting = some ((c.loc u).key, (c.loc u).m, modeOf (c.loc u).write) := by
      rw [hst_eq]; simp [waitingOf, h8]
    refine record_wait_moves hf (w := (c.loc u).write) (m := (c.loc u).m) huact ?_ (hfree _ _ _ hw)
    intro ch hen
    unfold TxProg.step at hen
    simp only [tstep, h8] at hen
    cases hwr : (c.loc u).write <;> simp [hwr] at hen
    · right; refine ⟨rfl, ?_⟩
      cases hx : (c.sh.mu (c.loc u).m).canRLock <;> simp [hx] at hen ⊢
    · left; refine ⟨rfl, ?_⟩
      cases hx : (c.sh.mu (c.loc u).m).canLock <;> simp [hx] at hen ⊢
  · by_cases hg2 : (c.loc u).pc = .g2
    · have hw : st.waiting = some ((c.loc u).key, (c.loc u).m, Mode.w) := by
        rw [hst_eq]; simp [waitingOf, hg2]
      refine record_wait_moves hf (w := true) (m := (c.loc u).m) huact ?_ (by simpa [modeOf] using hfree _ _ _ hw)
      intro ch hen
      unfold TxProg.step at hen
      simp only [tstep, hg2] at hen
      left; refine ⟨rfl, ?_⟩
      cases hx : (c.sh.mu (c.loc u).m).canLock <;> simp [hx] at hen ⊢
    · exact moves_unless_record_wait hst huact h8 hg2

end NodisVerif.Proofs.TxProg
