import NodisVerif.Proofs.C09
/-
  C09 — the stepping connection's own watch map, and the combined per-step facts
  (what persists, what gets flagged, what stays clean).
-/
namespace NodisVerif.Proofs.C08Step
open Resp Server
open NodisVerif.Proofs.AListLemmas2

/-- the step ends every watch of its connection: EXEC, DISCARD, or an UNWATCH that runs at once -/
def clearsWatch (sv : Server) (c : Cmd) : Prop :=
  c.name = "EXEC" ∨ c.name = "DISCARD" ∨ (c.name = "UNWATCH" ∧ runsNow (sv.conn c.id).state)

instance (sv : Server) (c : Cmd) : Decidable (clearsWatch sv c) := by unfold clearsWatch; exact inferInstance

/-- no flag set -/
def Clean (w : AList Bool) : Prop := ∀ p ∈ w, p.2 = false

theorem clean_iff_any (w : AList Bool) : Clean w ↔ w.any (·.2) = false := by
  simp [Clean, List.any_eq_false]

theorem Clean.nil : Clean [] := by simp [Clean]

theorem Clean.set_false {w : AList Bool} (h : Clean w) (k : Bytes) : Clean (AList.set w k false) := by
  intro p hp
  rcases mem_set w k false p hp with e | e
  · rw [e]
  · exact h p e

theorem not_clean_of_flag {w : AList Bool} {x : Bytes} (h : AList.get? w x = some true) : w.any (·.2) = true := by
  rw [List.any_eq_true]
  exact ⟨(x, true), mem_of_get? _ _ _ h, rfl⟩

theorem watchOne_clean (id : String) (sv : Server) (key : Bytes) (h : Clean (sv.conn id).watch) :
    Clean ((watchOne id sv key).conn id).watch := by
  rw [watchOne_conn, if_pos rfl]
  split
  · exact h
  · exact h.set_false key

theorem watchLoop_clean (id : String) : ∀ (keys : List Bytes) (sv : Server), Clean (sv.conn id).watch →
    Clean ((watchLoop id keys sv).conn id).watch := by
  intro keys; induction keys with
  | nil => intro sv h; exact h
  | cons k rest ih => intro sv h; exact ih _ (watchOne_clean id sv k h)

theorem stepTouches_eq (H : Table) (sv : Server) (c : Cmd) : stepTouches H sv c = touched (stepOuts H sv c) := rfl

/-! ### the stepping connection itself -/

/-- facts about the own connection that survive `afterHandler` -/
structure OwnKeeps (T : Bytes → Prop) (id : String) (sv sv' : Server) : Prop where
  reg : ∀ x, registered sv id x → registered sv' id x
  mono : ∀ x, AList.get? (sv.conn id).watch x = some true → AList.get? (sv'.conn id).watch x = some true
  hit : ∀ x, T x → registered sv id x → AList.get? (sv'.conn id).watch x = some true

theorem OwnKeeps.of_same {T : Bytes → Prop} {id : String} {sv sv' : Server} (hT : ∀ x, ¬ T x)
    (hr : sv'.registry = sv.registry) (hw : (sv'.conn id).watch = (sv.conn id).watch) : OwnKeeps T id sv sv' :=
  ⟨fun x h => (registered_congr hr id x).mpr h, fun x h => by rw [hw]; exact h, fun x h => (hT x h).elim⟩

theorem OwnKeeps.afterHandler {T : Bytes → Prop} {id : String} {sv sv' : Server} (toks : List Tok)
    (h : OwnKeeps T id sv sv') : OwnKeeps T id sv (afterHandler sv' id toks) :=
  ⟨fun x hx => (registered_congr (afterHandler_registry _ _ _) id x).mpr (h.reg x hx),
   fun x hx => by rw [afterHandler_watch]; exact h.mono x hx,
   fun x a b => by rw [afterHandler_watch]; exact h.hit x a b⟩

theorem OwnKeeps.execCommand {sv : Server} (hs : AList.Sorted sv.registry) (id : String) (now : Int) (ch : Choice) (b : Body) :
    OwnKeeps (touched (if runsNow (sv.conn id).state then [outOf sv.store now ch b] else [])) id sv
      (execCommand sv id now ch b).1 := by
  rw [execCommand_eq]; split
  · have f := runBody_flaggedR hs now ch b
    exact ⟨fun x h => (registered_congr f.registry id x).mpr h, fun x h => f.flag_mono id x h,
      fun x a b' => f.hit id x ⟨a, b'⟩⟩
  · refine OwnKeeps.of_same (by simp [touched]) rfl ?_
    rw [conn_setConn_same]; split <;> rfl

/-- a step of connection `c.id` that does not end its watches: its registrations persist, flags that
    are true stay true, and a watched (registered) key touched by the step's own store effect is
    flagged -/
theorem step_own_keeps (H : Table) {sv : Server} (hwf : RegWF sv) (c : Cmd) (hc : ¬ clearsWatch sv c) :
    OwnKeeps (stepTouches H sv c) c.id sv (step H sv c).1 := by
  have hs := hwf.sorted
  have h2 : c.name ≠ "EXEC" := fun e => hc (Or.inl e)
  have h3 : c.name ≠ "DISCARD" := fun e => hc (Or.inr (Or.inl e))
  unfold step
  apply OwnKeeps.afterHandler
  by_cases h1 : c.name = "MULTI"
  · have e : stepOuts H sv c = [] := by simp [stepOuts, h1]
    rw [dispatch_multi H sv c h1, multi_eq]
    split
    · exact OwnKeeps.of_same (by simp [stepTouches, e]) rfl rfl
    · exact OwnKeeps.of_same (by simp [stepTouches, e]) rfl (by rw [conn_setConn_same])
  by_cases h4 : c.name = "WATCH"
  · have e : stepOuts H sv c = [] := by simp [stepOuts, h4]
    rw [dispatch_watch H sv c h4, watch_eq]
    split
    · exact OwnKeeps.of_same (by simp [stepTouches, e]) rfl rfl
    · split
      · exact OwnKeeps.of_same (by simp [stepTouches, e]) rfl rfl
      · refine ⟨fun x h => (watchLoop_registered _ _ _ _ _).mpr (Or.inl h), ?_, by simp [stepTouches, e]⟩
        intro x h
        simp only
        rw [watchLoop_watch]; simp [h]
  have h134 : ¬ (c.name = "MULTI" ∨ c.name = "DISCARD" ∨ c.name = "WATCH") := by
    rintro (e | e | e) <;> contradiction
  by_cases h5 : c.name = "UNWATCH"
  · have hr : ¬ runsNow (sv.conn c.id).state := fun h => hc (Or.inr (Or.inr ⟨h5, h⟩))
    have e : stepOuts H sv c = [] := by simp [stepOuts, h5, hr]
    rw [dispatch_unwatch H sv c h5, if_neg hr]
    have h' := OwnKeeps.execCommand hs c.id c.now c.ch okBody
    rw [if_neg hr] at h'
    rw [stepTouches_eq, e]; exact h'
  have hsp : ¬ special c.name := by
    unfold special; rintro (e | e | e | e | e) <;> contradiction
  rw [dispatch_table H sv c hsp]
  cases hH : H c.name c.args with
  | none => exact OwnKeeps.of_same (by simp [stepTouches, stepOuts, h2, h134, h5, hH]) rfl rfl
  | some r =>
    cases r with
    | direct ts => exact OwnKeeps.of_same (by simp [stepTouches, stepOuts, h2, h134, h5, hH]) rfl rfl
    | crash => exact OwnKeeps.of_same (by simp [stepTouches, stepOuts, h2, h134, h5, hH]) rfl rfl
    | exec b =>
      have e : stepOuts H sv c = if runsNow (sv.conn c.id).state then [outOf sv.store c.now c.ch b] else [] := by
        simp [stepOuts, h2, h134, h5, hH]
      rw [stepTouches_eq, e]
      exact OwnKeeps.execCommand hs c.id c.now c.ch b

/-- a step that ends the watches of its connection leaves it with an empty watch map -/
theorem step_own_clears (H : Table) {sv : Server} (hwf : RegWF sv) (c : Cmd) (hc : clearsWatch sv c) :
    ((step H sv c).1.conn c.id).watch = [] := by
  rcases hc with h | h | ⟨h, hr⟩
  · rw [step_exec H sv c h, exec_conn_reset]
  · rw [step_discard H sv c h, resetConn_conn_same]
  · simp only [step, afterHandler_watch]
    rw [dispatch_unwatch H sv c h, if_pos hr, execCommand_eq, unwatchAll_conn_same, if_pos hr]
    have f := runBody_flaggedR (sv := unwatchAll sv c.id) (unwatchAll_sorted sv c.id hwf.sorted) c.now c.ch okBody
    rw [f.same c.id (fun x hx => unwatchAll_unregistered hwf c.id x hx.2), unwatchAll_conn_same]

/-- the watch map of the stepping connection is literally unchanged if the step neither ends its
    watches, nor is a WATCH, nor touches a key it watches -/
theorem step_own_watch_same (H : Table) {sv : Server} (hwf : RegWF sv) (c : Cmd) (hc : ¬ clearsWatch sv c)
    (h4 : c.name ≠ "WATCH")
    (hq : ∀ x, AList.contains (sv.conn c.id).watch x = true → ¬ stepTouches H sv c x) :
    ((step H sv c).1.conn c.id).watch = (sv.conn c.id).watch := by
  have hs := hwf.sorted
  have h2 : c.name ≠ "EXEC" := fun e => hc (Or.inl e)
  have h3 : c.name ≠ "DISCARD" := fun e => hc (Or.inr (Or.inl e))
  simp only [step, afterHandler_watch]
  have exe : ∀ (b : Body), (stepOuts H sv c = if runsNow (sv.conn c.id).state then [outOf sv.store c.now c.ch b] else []) →
      ((execCommand sv c.id c.now c.ch b).1.conn c.id).watch = (sv.conn c.id).watch := by
    intro b e
    rw [execCommand_eq]; split
    · next hr =>
      have f := runBody_flaggedR hs c.now c.ch b
      rw [f.same c.id]
      rintro x ⟨hx, hreg⟩
      apply hq x (hwf.has c.id x hreg)
      rw [stepTouches_def, e, if_pos hr]; exact hx
    · rw [conn_setConn_same]; split <;> rfl
  by_cases h1 : c.name = "MULTI"
  · rw [dispatch_multi H sv c h1, multi_eq]
    split
    · rfl
    · rw [conn_setConn_same]
  have h134 : ¬ (c.name = "MULTI" ∨ c.name = "DISCARD" ∨ c.name = "WATCH") := by
    rintro (e | e | e) <;> contradiction
  by_cases h5 : c.name = "UNWATCH"
  · have hr : ¬ runsNow (sv.conn c.id).state := fun h => hc (Or.inr (Or.inr ⟨h5, h⟩))
    rw [dispatch_unwatch H sv c h5, if_neg hr]
    exact exe okBody (by simp [stepOuts, h5, hr])
  have hsp : ¬ special c.name := by
    unfold special; rintro (e | e | e | e | e) <;> contradiction
  rw [dispatch_table H sv c hsp]
  cases hH : H c.name c.args with
  | none => rfl
  | some r =>
    cases r with
    | direct ts => rfl
    | crash => rfl
    | exec b => exact exe b (by simp [stepOuts, h2, h134, h5, hH])

/-- WATCH by the stepping connection keeps a clean watch map clean -/
theorem step_own_watch_clean (H : Table) (sv : Server) (c : Cmd) (h4 : c.name = "WATCH")
    (hcl : Clean (sv.conn c.id).watch) : Clean ((step H sv c).1.conn c.id).watch := by
  simp only [step, afterHandler_watch]
  rw [dispatch_watch H sv c h4, watch_eq]
  split
  · exact hcl
  · split
    · exact hcl
    · exact watchLoop_clean c.id c.args sv hcl

/-! ### combined per-step facts, for any connection `i` -/

/-- registrations and true flags of connection `i` persist through every step except one by which
    `i` itself ends its watches; a key `i` is registered for that the step touches gets flagged -/
theorem step_keeps (H : Table) {sv : Server} (hwf : RegWF sv) (c : Cmd) (i : String)
    (hc : ¬ (c.id = i ∧ clearsWatch sv c)) : OwnKeeps (stepTouches H sv c) i sv (step H sv c).1 := by
  by_cases hi : c.id = i
  · subst hi
    exact step_own_keeps H hwf c (fun h => hc ⟨rfl, h⟩)
  · have hi' : i ≠ c.id := fun e => hi e.symm
    have o := step_othersS H hwf c
    refine ⟨fun x h => (o.reg i hi' x).mpr h, ?_, fun x a b => o.hit i hi' x ⟨a, b⟩⟩
    intro x h
    by_cases hx : stepTouches H sv c x ∧ registered sv i x
    · exact o.hit i hi' x hx
    · rw [o.miss i hi' x hx]; exact h

/-- if a step touches no key that connection `i` watches, a clean watch map of `i` stays clean -/
theorem step_keeps_clean (H : Table) {sv : Server} (hwf : RegWF sv) (c : Cmd) (i : String)
    (hcl : Clean (sv.conn i).watch)
    (hq : ∀ x, AList.contains (sv.conn i).watch x = true → ¬ stepTouches H sv c x) :
    Clean ((step H sv c).1.conn i).watch := by
  by_cases hi : c.id = i
  · subst hi
    by_cases hc : clearsWatch sv c
    · rw [step_own_clears H hwf c hc]; exact Clean.nil
    · by_cases h4 : c.name = "WATCH"
      · exact step_own_watch_clean H sv c h4 hcl
      · rw [step_own_watch_same H hwf c hc h4 hq]; exact hcl
  · have hi' : i ≠ c.id := fun e => hi e.symm
    have o := step_othersS H hwf c
    rw [o.same i hi' (fun x hx => hq x (hwf.has i x hx.2) hx.1)]
    exact hcl

/-- a connection with no watches keeps an empty watch map whatever anybody does, until it issues
    WATCH itself -/
theorem step_keeps_unwatched (H : Table) {sv : Server} (hwf : RegWF sv) (c : Cmd) (i : String)
    (hw : (sv.conn i).watch = []) (hc : ¬ (c.id = i ∧ c.name = "WATCH")) :
    ((step H sv c).1.conn i).watch = [] := by
  have hq : ∀ x, AList.contains (sv.conn i).watch x = true → ¬ stepTouches H sv c x := by
    intro x hx; rw [hw] at hx; simp [AList.contains, AList.get?] at hx
  by_cases hi : c.id = i
  · subst hi
    by_cases hcl : clearsWatch sv c
    · exact step_own_clears H hwf c hcl
    · rw [step_own_watch_same H hwf c hcl (fun e => hc ⟨rfl, e⟩) hq]; exact hw
  · have hi' : i ≠ c.id := fun e => hi e.symm
    have o := step_othersS H hwf c
    rw [o.same i hi' (fun x hx => hq x (hwf.has i x hx.2) hx.1)]
    exact hw

end NodisVerif.Proofs.C08Step
