import NodisVerif.Proofs.C12Good
/-
  C12: command sequences with eviction passes in between.
-/
namespace NodisVerif.Proofs.C11
open NodisVerif.Store NodisVerif.Codec NodisVerif.Spec.Persist
open NodisVerif.Proofs.AListLemmas NodisVerif.Proofs.AListLemmas2 NodisVerif.Proofs.C11AList

/-- a key transaction, packaged -/
structure TxForm where
  write : Bool
  ctor : Option Val
  miss : Out
  nov : MState → Api.R
  dec : Val → Int → Act
  key : Bytes

namespace TxForm
def run (f : TxForm) (s : MState) (now : Int) : Api.R := keyTx f.write f.ctor f.miss f.nov f.dec s now f.key
def spec (f : TxForm) (L : Option (Val × Int)) := txSpec f.ctor f.miss f.dec L

/-- side conditions: constructor and rewritten values are representable -/
structure OK (f : TxForm) : Prop where
  rd : f.write = false → f.ctor = none
  mkGood : ∀ v, f.ctor = some v → Good v
  decGood : ∀ v e, Good v → inInt64 e = true → (f.dec v e).GoodA

/-- the command never leaves a nil string behind (given that it found none) -/
def NilSafe (f : TxForm) : Prop :=
  ∀ L, (∀ v e, L = some (v, e) → v ≠ .strNil) → ∀ c, (f.spec L).2 = some (some c) → c.1 ≠ .strNil

theorem txspec {f : TxForm} (hf : f.OK) {s : MState} {t now : Int} (h : StoreInvX s none t) (ht : t ≤ now) :
    TxSpec s t now f.key (f.spec (lookup s now f.key)) (f.run s now) :=
  keyTx_spec h ht f.write f.ctor f.miss f.nov f.dec f.key hf.rd hf.mkGood hf.decGood
end TxForm

/-- on Pebble nothing the store shows (from `t` on) is a nil string -/
def LNil (s : MState) (t : Int) : Prop :=
  s.pebble = true → ∀ t', t ≤ t' → ∀ k v e, lookup s t' k = some (v, e) → v ≠ .strNil

theorem LNil.mono {s : MState} {t t' : Int} (h : LNil s t) (ht : t ≤ t') : LNil s t' :=
  fun hp t'' ht'' => h hp t'' (Int.le_trans ht ht'')

theorem filt_some {c c' : Val × Int} {t' : Int} (h : filt c t' = some c') : c' = c := by
  unfold filt at h; split at h
  · cases h
  · exact (Option.some.inj h).symm

theorem lnil_tx {f : TxForm} (hn : f.NilSafe) {s : MState} {t now : Int} {r : Api.R} (ht : t ≤ now)
    (sp : TxSpec s t now f.key (f.spec (lookup s now f.key)) r) (hl : LNil s t) : LNil r.1 t := by
  intro hp t' ht' k v e hlk
  rw [sp.peb] at hp
  rw [sp.look t' ht' k] at hlk
  unfold applyEff at hlk
  cases he : (f.spec (lookup s now f.key)).2 with
  | none => rw [he] at hlk; exact hl hp t' ht' k v e hlk
  | some c =>
    rw [he] at hlk
    simp only at hlk
    by_cases hk : k = f.key
    · simp only [hk, if_true] at hlk
      cases c with
      | none => cases hlk
      | some c =>
        simp only [Option.bind_some] at hlk
        have := filt_some hlk
        subst this
        exact hn _ (fun v' e' hL => hl hp now ht f.key v' e' hL) _ he
    · simp only [hk, if_false] at hlk
      exact hl hp t' ht' k v e hlk

/-- live hot values are not nil strings when nothing the store shows is -/
theorem LNil.at {s : MState} {t now : Int} (h : StoreInvX s none t) (ht : t ≤ now) (hl : LNil s t) :
    NilFreeAt s now := by
  intro k m hm hal hp hv
  have : lookup s now k = some (.strNil, m.exp) := by
    simp only [lookup, getMeta, hm, Option.bind_some]
    exact view_hot hv (h.recs k m hm).ok hal
  exact hl hp now ht k _ _ this rfl

theorem Sim.lnil {t : Int} {s1 s2 : MState} (h : Sim t s1 s2) (hp : s1.pebble = s2.pebble) (hl : LNil s2 t) :
    LNil s1 t := by
  intro hp1 t' ht' k v e hlk
  rw [h.look t' ht' k] at hlk
  exact hl (by rw [← hp]; exact hp1) t' ht' k v e hlk

/-! ### the covered single-key commands -/

inductive Cmd
  | get (k : Bytes) | set (k v : Bytes) (keep : Bool) | setXX (k v : Bytes) (keep : Bool)
  | getSet (k v : Bytes) | append (k v : Bytes) | strLen (k : Bytes) | getRange (k : Bytes) (a b : Int)
  | getBit (k : Bytes) (off : Int) | incrBy (k : Bytes) (delta : Int) (neg : Bool)
  | expireAt (k : Bytes) (ts : Int) | expireAtNX (k : Bytes) (ts : Int) | expireAtXX (k : Bytes) (ts : Int)
  | expire (k : Bytes) (secs : Int) | pexpire (k : Bytes) (ms : Int) | persist (k : Bytes)
  | ttl (k : Bytes) | pttl (k : Bytes) | type (k : Bytes) | exists (k : Bytes)
  | push (left : Bool) (k : Bytes) (vs : List Bytes) | pop (left : Bool) (k : Bytes) (count : Int)
  | llen (k : Bytes) | lindex (k : Bytes) (i : Int) | lrange (k : Bytes) (a b : Int)
  | hset (k f v : Bytes) | hdel (k : Bytes) (fs : List Bytes)
  | hread (f : AList Bytes → Out) (dflt : Out) (k : Bytes)
  | sadd (k : Bytes) (ms : List Bytes) | srem (k : Bytes) (ms : List Bytes)
  | sread (f : AList Unit → Out) (dflt : Out) (k : Bytes)
  | zadd (k m : Bytes) (sc : F64) | zread (f : ZSet → Out) (dflt : Out) (k : Bytes)
  /-- any other command, given as a key transaction (see `Proofs/C12More.lean`) -/
  | raw (f : TxForm)

namespace Cmd

/-- the model's implementation -/
def run : Cmd → MState → Int → Api.R
  | get k, s, now => Api.get s now k
  | set k v keep, s, now => Api.set s now k v keep
  | setXX k v keep, s, now => Api.setXX s now k v keep
  | getSet k v, s, now => Api.getSet s now k v
  | append k v, s, now => Api.append s now k v
  | strLen k, s, now => Api.strLen s now k
  | getRange k a b, s, now => Api.getRange s now k a b
  | getBit k off, s, now => Api.getBit s now k off
  | incrBy k d neg, s, now => Api.addInt s now k d neg
  | expireAt k ts, s, now => Api.expireAt s now k ts
  | expireAtNX k ts, s, now => Api.expireAtNX s now k ts
  | expireAtXX k ts, s, now => Api.expireAtXX s now k ts
  | expire k secs, s, now => Api.expire s now k secs
  | pexpire k ms, s, now => Api.expirePX s now k ms
  | persist k, s, now => Api.persist s now k
  | ttl k, s, now => Api.ttl s now k
  | pttl k, s, now => Api.pttl s now k
  | type k, s, now => Api.type_ s now k
  | «exists» k, s, now => Api.exists_ s now [k]
  | push left k vs, s, now => Api.push left s now k vs
  | pop left k c, s, now => Api.pop left s now k c
  | llen k, s, now => Api.llen s now k
  | lindex k i, s, now => Api.lindex s now k i
  | lrange k a b, s, now => Api.lrange s now k a b
  | hset k f v, s, now => Api.hset s now k f v
  | hdel k fs, s, now => Api.hdel s now k fs
  | hread f d k, s, now => Api.hread f d s now k
  | sadd k ms, s, now => Api.sadd s now k ms
  | srem k ms, s, now => Api.srem s now k ms
  | sread f d k, s, now => Api.sread f d s now k
  | zadd k m sc, s, now => Api.zadd s now k m sc
  | zread f d k, s, now => Api.zread f d s now k
  | raw f, s, now => f.run s now

def pan (s1 : MState) : Api.R := (s1, .panic)

/-- the same command as a key transaction -/
def form (now : Int) : Cmd → TxForm
  | get k => ⟨false, none, .bytes none, pan, decGet, k⟩
  | set k v keep => ⟨true, some (.str []), .unit, pan, decSet k v keep, k⟩
  | setXX k v keep => ⟨true, none, .bool false, pan, decSetXX k v keep, k⟩
  -- GETSET is not literally a `keyTx` (see `getSet_spec`); this form has the same `spec`: on a missing
  -- key the reply is nil and the key is created with the new value
  | getSet k v => ⟨true, some .strNil, .unit, pan, decGetSet k v, k⟩
  | append k v => ⟨true, some (.str []), .unit, pan, decAppend k v, k⟩
  | strLen k => ⟨false, none, .int 0, pan, decStrRead fun v => .int (DsStr.len v), k⟩
  | getRange k a b => ⟨false, none, .bytes none, pan, decStrRead fun v => .bytes (DsStr.getRange v a b), k⟩
  | getBit k off => ⟨false, none, .int 0, pan, decStrRead fun v => .int (DsStr.getBit v off), k⟩
  | incrBy k d neg => ⟨true, some (.str []), .unit, pan, decAddInt k d neg, k⟩
  | expireAt k ts => ⟨true, none, .int 0, fun s1 => (Api.applyExp s1 k ts, .int 1), decExpire k ts fun _ => true, k⟩
  | expireAtNX k ts => ⟨true, none, .int 0,
      fun s1 => if (fun e => decide (e = 0)) (Api.expOf s1 k) then (Api.applyExp s1 k ts, .int 1) else (s1, .int 0),
      decExpire k ts fun e => decide (e = 0), k⟩
  | expireAtXX k ts => ⟨true, none, .int 0,
      fun s1 => if (fun e => decide (e ≠ 0)) (Api.expOf s1 k) then (Api.applyExp s1 k ts, .int 1) else (s1, .int 0),
      decExpire k ts fun e => decide (e ≠ 0), k⟩
  | expire k secs => ⟨true, none, .int 0,
      fun s1 => (Api.applyExp s1 k (wrap64 (now + wrap64 (secs * 1000))), .int 1),
      decExpire k (wrap64 (now + wrap64 (secs * 1000))) fun _ => true, k⟩
  | pexpire k ms => ⟨true, none, .int 0, fun s1 => (Api.applyExp s1 k (wrap64 (now + ms)), .int 1),
      decExpire k (wrap64 (now + ms)) fun _ => true, k⟩
  | persist k => ⟨true, none, .int 0,
      fun s1 => if Api.expOf s1 k = 0 then (s1, .int 0) else
        (emit (signal (Api.setExp s1 k 0) k) { typ := 33, key := k }, .int 1), decPersist k, k⟩
  | ttl k => ⟨false, none, .int (-2), fun s1 => (s1, ttlOut now (Api.expOf s1 k)), fun _ e => .keep (ttlOut now e), k⟩
  | pttl k => ⟨false, none, .int (-2),
      fun s1 => (s1, if Api.expOf s1 k = 0 then .int (-1) else .int (Api.expOf s1 k - now)),
      fun _ e => .keep (if e = 0 then .int (-1) else .int (e - now)), k⟩
  | type k => ⟨false, none, .str (Bytes.ofString "none"), pan,
      fun v _ => .keep (.str (Bytes.ofString (typeName v.typeCode))), k⟩
  | «exists» k => ⟨false, none, .int 0, fun s1 => (s1, .int 1), fun _ _ => .keep (.int 1), k⟩
  | push left k vs => ⟨true, some (.list DsList.empty), .unit, pan, decPush left k vs, k⟩
  | pop left k c => ⟨true, none, .blist [], pan, decListMut (popF left k c), k⟩
  | llen k => ⟨false, none, .int 0, fun s1 => (s1, .int (-1)), decListRead (fun l => .int (DsList.llen l)) (.int (-1)), k⟩
  | lindex k i => ⟨false, none, .bytes none, pan, decListRead (fun l => .bytes (DsList.lindex l i)) .panic, k⟩
  | lrange k a b => ⟨false, none, .blist [], pan,
      decListRead (fun l => .blist ((DsList.lrange l a b).map some)) .panic, k⟩
  | hset k f v => ⟨true, some (.hash []), .unit, pan, decHset k f v, k⟩
  | hdel k fs => ⟨true, none, .int 0, pan, decHdel k fs, k⟩
  | hread f d k => ⟨false, none, d, pan, decHashRead f, k⟩
  | sadd k ms => ⟨true, some (.set []), .unit, pan, decSadd k ms, k⟩
  | srem k ms => ⟨true, none, .int 0, pan, decSrem k ms, k⟩
  | sread f d k => ⟨false, none, d, pan, decSetRead f, k⟩
  | zadd k m sc => ⟨true, some (.zset DsZSet.empty), .unit, pan, decZaddWith DsZSet.zAdd k m sc, k⟩
  | zread f d k => ⟨false, none, d, pan, decZsetRead f, k⟩
  | raw f => f

/-- argument side conditions (what Go's types guarantee: int64 deadlines, lengths below 2^63;
    a zero EXPIRE duration is `DEL`, NaN scores are rejected by the handler) -/
def WF : Cmd → Prop
  | expireAt _ ts => inInt64 ts = true
  | expireAtNX _ ts => inInt64 ts = true
  | expireAtXX _ ts => inInt64 ts = true
  | expire _ secs => secs ≠ 0
  | pexpire _ ms => ms ≠ 0
  | push _ _ vs => ∀ v ∈ vs, v.length < 2 ^ 63
  | hset _ f v => f.length + v.length + 10 < 2 ^ 63
  | sadd _ ms => ∀ m ∈ ms, m.length < 2 ^ 63
  | zadd _ m sc => F64.isNaN sc = false ∧ m.length + 8 < 2 ^ 63
  | raw f => f.OK
  | _ => True

theorem run_eq (c : Cmd) (now : Int) (hc : c.WF) (hg : ∀ k v, c ≠ getSet k v) (s : MState) :
    c.run s now = (c.form now).run s now := by
  cases c with
  | get k => exact get_eq s now k
  | set k v keep => exact set_eq s now k v keep
  | setXX k v keep => exact setXX_eq s now k v keep
  | getSet k v => exact absurd rfl (hg k v)
  | append k v => exact append_eq s now k v
  | strLen k => exact strLen_eq s now k
  | getRange k a b => exact getRange_eq s now k a b
  | getBit k off => exact getBit_eq s now k off
  | incrBy k d neg => exact addInt_eq s now k d neg false
  | expireAt k ts => exact expireAt_eq s now k ts
  | expireAtNX k ts => exact expireAtNX_eq s now k ts
  | expireAtXX k ts => exact expireAtXX_eq s now k ts
  | expire k secs => exact expire_eq s now k secs hc
  | pexpire k ms => exact expirePX_eq s now k ms hc
  | persist k => exact apiPersist_eq s now k
  | ttl k => exact ttl_eq s now k
  | pttl k => exact pttl_eq s now k
  | type k => exact type_eq s now k
  | «exists» k => exact exists1_eq s now k
  | push left k vs => exact push_eq left s now k vs
  | pop left k c => exact pop_eq left s now k c
  | llen k => exact llen_eq s now k
  | lindex k i => exact lindex_eq s now k i
  | lrange k a b => exact lrange_eq s now k a b
  | hset k f v => exact hset_eq s now k f v
  | hdel k fs => exact hdel_eq s now k fs
  | hread f d k => exact hread_eq f d s now k
  | sadd k ms => exact sadd_eq s now k ms
  | srem k ms => exact srem_eq s now k ms
  | sread f d k => exact sread_eq f d s now k
  | zadd k m sc => exact zadd_eq s now k m sc
  | zread f d k => exact zread_eq f d s now k
  | raw f => rfl

theorem goodA_strWrite (f : DsStr.S → Option (Option Val × Option Int × List FeedOp × Out))
    (fail : DsStr.S → Out)
    (hf : ∀ x v' e' ops r, f x = some (v', e', ops, r) →
      (∀ w, v' = some w → Good w) ∧ (∀ e, e' = some e → inInt64 e = true))
    (v : Val) (e : Int) : (decStrWrite f fail v e).GoodA := by
  have go : ∀ x : DsStr.S, (match f x with
      | some (v', e', ops, r) => Act.put v' e' ops r
      | none => Act.keep (fail x)).GoodA := by
    intro x
    cases hfx : f x with
    | none => trivial
    | some q =>
      obtain ⟨v', e', ops, r⟩ := q
      exact hf x v' e' ops r hfx
  cases v with
  | str b => exact go (some b)
  | strNil => exact go none
  | _ => trivial

theorem goodA_expire (k : Bytes) (ts : Int) (cond : Int → Bool) (hts : inInt64 ts = true) (v : Val) (e : Int) :
    (decExpire k ts cond v e).GoodA := by
  unfold decExpire
  split
  · exact ⟨(fun _ hc => nomatch hc), (fun e' he' => by cases he'; exact hts)⟩
  · trivial

theorem ok (c : Cmd) (now : Int) (hc : c.WF) : (c.form now).OK := by
  cases c with
  | get k => exact ⟨fun _ => rfl, (fun _ h => nomatch h), (fun v _ _ _ => by cases v <;> trivial)⟩
  | set k v keep =>
    refine ⟨(fun h => nomatch h), (fun w h => by cases h; exact good_str []), fun w e _ _ => ?_⟩
    show (decSet k v keep w e).GoodA
    unfold decSet
    apply goodA_strWrite
    intro x v' e' ops r hx
    simp only [Option.some.injEq, Prod.mk.injEq] at hx
    obtain ⟨rfl, rfl, _, _⟩ := hx
    exact ⟨(fun w hw => by cases hw; exact good_str _), (fun e he => by cases keep <;> simp at he; subst he; decide)⟩
  | setXX k v keep =>
    refine ⟨(fun h => nomatch h), (fun w h => nomatch h), fun w e _ _ => ?_⟩
    show (decSetXX k v keep w e).GoodA
    unfold decSetXX
    apply goodA_strWrite
    intro x v' e' ops r hx
    simp only [Option.some.injEq, Prod.mk.injEq] at hx
    obtain ⟨rfl, rfl, _, _⟩ := hx
    exact ⟨(fun w hw => by cases hw; exact good_str _), (fun e he => by cases keep <;> simp at he; subst he; decide)⟩
  | getSet k v =>
    refine ⟨(fun h => nomatch h), (fun w h => by cases h; exact good_strNil), fun w e _ _ => ?_⟩
    show (decGetSet k v w e).GoodA
    unfold decGetSet
    apply goodA_strWrite
    intro x v' e' ops r hx
    simp only [Option.some.injEq, Prod.mk.injEq] at hx
    obtain ⟨rfl, rfl, _, _⟩ := hx
    exact ⟨(fun w hw => by cases hw; exact good_str _), (fun e he => by cases he; decide)⟩
  | append k v =>
    refine ⟨(fun h => nomatch h), (fun w h => by cases h; exact good_str []), fun w e _ _ => ?_⟩
    show (decAppend k v w e).GoodA
    unfold decAppend
    apply goodA_strWrite
    intro x v' e' ops r hx
    simp only [Option.some.injEq, Prod.mk.injEq] at hx
    obtain ⟨rfl, rfl, _, _⟩ := hx
    exact ⟨(fun w hw => by cases hw; exact good_strVal _), (fun e he => by cases he)⟩
  | strLen k => exact ⟨fun _ => rfl, (fun _ h => nomatch h), (fun v _ _ _ => by cases v <;> trivial)⟩
  | getRange k a b => exact ⟨fun _ => rfl, (fun _ h => nomatch h), (fun v _ _ _ => by cases v <;> trivial)⟩
  | getBit k off => exact ⟨fun _ => rfl, (fun _ h => nomatch h), (fun v _ _ _ => by cases v <;> trivial)⟩
  | incrBy k d neg =>
    refine ⟨(fun h => nomatch h), (fun w h => by cases h; exact good_str []), fun w e _ _ => ?_⟩
    show (decAddInt k d neg w e).GoodA
    unfold decAddInt
    apply goodA_strWrite
    intro x v' e' ops r hx
    split at hx
    · cases hx
    · simp only [Option.some.injEq, Prod.mk.injEq] at hx
      obtain ⟨rfl, rfl, _, _⟩ := hx
      exact ⟨(fun w hw => by cases hw; exact good_strVal _), (fun e he => by cases he)⟩
  | expireAt k ts =>
    exact ⟨(fun h => nomatch h), (fun _ h => nomatch h),
      fun v e _ _ => goodA_expire k ts (fun _ => true) hc v e⟩
  | expireAtNX k ts =>
    exact ⟨(fun h => nomatch h), (fun _ h => nomatch h),
      fun v e _ _ => goodA_expire k ts (fun e => decide (e = 0)) hc v e⟩
  | expireAtXX k ts =>
    exact ⟨(fun h => nomatch h), (fun _ h => nomatch h),
      fun v e _ _ => goodA_expire k ts (fun e => decide (e ≠ 0)) hc v e⟩
  | expire k secs =>
    exact ⟨(fun h => nomatch h), (fun _ h => nomatch h),
      fun v e _ _ => goodA_expire k (wrap64 (now + wrap64 (secs * 1000))) (fun _ => true) (inInt64_wrap64 _) v e⟩
  | pexpire k ms =>
    exact ⟨(fun h => nomatch h), (fun _ h => nomatch h),
      fun v e _ _ => goodA_expire k (wrap64 (now + ms)) (fun _ => true) (inInt64_wrap64 _) v e⟩
  | persist k =>
    refine ⟨(fun h => nomatch h), (fun _ h => nomatch h), fun v e _ _ => ?_⟩
    unfold form decPersist
    simp only
    split
    · trivial
    · exact ⟨(fun _ h => nomatch h), (fun e' he' => by cases he'; decide)⟩
  | ttl k => exact ⟨fun _ => rfl, (fun _ h => nomatch h), fun _ _ _ _ => trivial⟩
  | pttl k => exact ⟨fun _ => rfl, (fun _ h => nomatch h), fun _ _ _ _ => trivial⟩
  | type k => exact ⟨fun _ => rfl, (fun _ h => nomatch h), fun _ _ _ _ => trivial⟩
  | «exists» k => exact ⟨fun _ => rfl, (fun _ h => nomatch h), fun _ _ _ _ => trivial⟩
  | push left k vs =>
    refine ⟨(fun h => nomatch h), (fun w h => by cases h; exact good_emptyList), fun w e hg _ => ?_⟩
    cases w with
    | list l => exact ⟨(fun w hw => by cases hw; exact good_push left l vs hg hc), (fun e he => by cases he)⟩
    | _ => trivial
  | pop left k c =>
    refine ⟨(fun h => nomatch h), (fun _ h => nomatch h), fun w e hg _ => ?_⟩
    cases w with
    | list l =>
      show (decListMut (popF left k c) (.list l) e).GoodA
      unfold decListMut
      simp only
      split
      · exact good_pop left l c hg
      · exact ⟨(fun w hw => by cases hw; exact good_pop left l c hg), (fun e he => by cases he)⟩
    | _ => trivial
  | llen k => exact ⟨fun _ => rfl, (fun _ h => nomatch h), (fun v _ _ _ => by cases v <;> trivial)⟩
  | lindex k i => exact ⟨fun _ => rfl, (fun _ h => nomatch h), (fun v _ _ _ => by cases v <;> trivial)⟩
  | lrange k a b => exact ⟨fun _ => rfl, (fun _ h => nomatch h), (fun v _ _ _ => by cases v <;> trivial)⟩
  | hset k f v =>
    refine ⟨(fun h => nomatch h), (fun w h => by cases h; exact good_emptyHash), fun w e hg _ => ?_⟩
    cases w with
    | hash h => exact ⟨(fun w hw => by cases hw; exact good_hset h f v hg hc), (fun e he => by cases he)⟩
    | _ => trivial
  | hdel k fs =>
    refine ⟨(fun h => nomatch h), (fun _ h => nomatch h), fun w e hg _ => ?_⟩
    cases w with
    | hash h =>
      show (decHdel k fs (.hash h) e).GoodA
      unfold decHdel
      simp only
      split
      · exact good_hdel fs h 0 hg
      · exact ⟨(fun w hw => by cases hw; exact good_hdel fs h 0 hg), (fun e he => by cases he)⟩
    | _ => trivial
  | hread f d k => exact ⟨fun _ => rfl, (fun _ h => nomatch h), (fun v _ _ _ => by cases v <;> trivial)⟩
  | sadd k ms =>
    refine ⟨(fun h => nomatch h), (fun w h => by cases h; exact good_emptySet), fun w e hg _ => ?_⟩
    cases w with
    | set st => exact ⟨(fun w hw => by cases hw; exact good_sadd ms hc st 0 hg), (fun e he => by cases he)⟩
    | _ => trivial
  | srem k ms =>
    refine ⟨(fun h => nomatch h), (fun _ h => nomatch h), fun w e hg _ => ?_⟩
    cases w with
    | set st =>
      show (decSrem k ms (.set st) e).GoodA
      unfold decSrem
      simp only
      split
      · exact good_srem ms st 0 hg
      · exact ⟨(fun w hw => by cases hw; exact good_srem ms st 0 hg), (fun e he => by cases he)⟩
    | _ => trivial
  | sread f d k => exact ⟨fun _ => rfl, (fun _ h => nomatch h), (fun v _ _ _ => by cases v <;> trivial)⟩
  | zadd k m sc =>
    refine ⟨(fun h => nomatch h), (fun w h => by cases h; exact good_emptyZSet), fun w e hg _ => ?_⟩
    cases w with
    | zset z => exact ⟨(fun w hw => by cases hw; exact good_zadd z m sc hg hc.1 hc.2), (fun e he => by cases he)⟩
    | _ => trivial
  | zread f d k => exact ⟨fun _ => rfl, (fun _ h => nomatch h), (fun v _ _ _ => by cases v <;> trivial)⟩
  | raw f => exact hc

/-- GETSET against the specification of its form -/
theorem getSet_spec {s : MState} {t now : Int} (h : StoreInvX s none t) (ht : t ≤ now) (k v : Bytes) :
    TxSpec s t now k ((form now (getSet k v)).spec (lookup s now k)) (Api.getSet s now k v) := by
  rw [getSet_eq]
  have ks := writeKey_spec h ht k none (fun _ hc => nomatch hc)
  have hxx := keyTx_spec h ht true none (.bytes none) (fun s1 => (s1, .panic)) (decGetSet k v) k
    (fun c => nomatch c) (fun _ hc => nomatch hc) ((ok (getSet k v) now trivial).decGood)
  generalize writeKey s now k none = r at ks ⊢
  obtain ⟨s1, okk⟩ := r
  cases hL : lookup s now k with
  | some c =>
    obtain ⟨w, e⟩ := c
    have hok := (ks.hit w e hL).1
    simp only at hok
    subst hok
    simp only [Bool.not_true, Bool.false_eq_true, if_false]
    rw [hL] at hxx
    exact hxx
  | none =>
    obtain ⟨hok, hl⟩ := ks.miss hL rfl
    simp only at hok hl
    subst hok
    simp only [Bool.not_false, if_true]
    have kinv : StoreInvX s1 none t := ks.inv
    have kother : ∀ t', t ≤ t' → ∀ k', k' ≠ k → lookup s1 t' k' = lookup s t' k' := ks.other
    have kp : s1.pebble = s.pebble := ks.peb
    have kf : s1.failSet = s.failSet := ks.fail
    have i2 : StoreInvX (newKeyWith s1 k none (.str [])) none t :=
      inv_newKeyWith kinv k none (fun _ hc => nomatch hc) (good_str [])
    obtain ⟨n1, n2, _⟩ := newRec_facts s1 none (.str [])
    have hm2 : AList.get? (newKeyWith s1 k none (.str [])).index k = some (newRec s1 none (.str [])) := by
      rw [get?_newKeyWith]; simp
    obtain ⟨a1, a2, a3, _, a5⟩ := runAct_spec i2 hm2 n1
      (.put (some (.str v)) (some 0) [Api.opSet k v false] (.bytes none))
      ⟨(fun w hw => by cases hw; exact good_str _), (fun e he => by cases he; decide)⟩
    have fl := newKeyWith_fields s1 k none (.str [])
    refine ⟨a1, a2.trans (fl.1.trans kp), a3.trans (fl.2.trans kf), rfl, ?_⟩
    intro t' ht' k'
    have := a5 t' ht' k'
    simp only [Act.eff, Option.getD_some] at this
    refine this.trans ?_
    simp only [TxForm.spec, txSpec, form, decGetSet, decStrWrite, Act.eff, Option.getD_some, applyEff]
    by_cases hk : k' = k
    · simp [hk]
    · simp only [hk, if_false]
      rw [lookup_newKeyWith kinv ht']
      simp only [hk, if_false]
      exact kother t' ht' k' hk

theorem spec_run (c : Cmd) {s : MState} {t now : Int} (hc : c.WF) (h : StoreInvX s none t) (ht : t ≤ now) :
    TxSpec s t now (c.form now).key ((c.form now).spec (lookup s now (c.form now).key)) (c.run s now) := by
  by_cases hg : ∃ k v, c = getSet k v
  · obtain ⟨k, v, rfl⟩ := hg
    exact getSet_spec h ht k v
  · rw [run_eq c now hc (fun k v e => hg ⟨k, v, e⟩) s]
    exact (c.form now).txspec (c.ok now hc) h ht

/-- B: every covered command preserves the storage invariant -/
theorem inv (c : Cmd) {s : MState} {t now : Int} (hc : c.WF) (h : StoreInvX s none t) (ht : t ≤ now) :
    StoreInvX (c.run s now).1 none t := (c.spec_run hc h ht).inv

/-- cold ≈ hot: on states that show the same logical keyspace a command gives the same reply and
    leads to states that again show the same logical keyspace -/
theorem sim (c : Cmd) {s1 s2 : MState} {t now : Int} (hc : c.WF) (h : Sim t s1 s2) (ht : t ≤ now) :
    (c.run s1 now).2 = (c.run s2 now).2 ∧ Sim t (c.run s1 now).1 (c.run s2 now).1 :=
  sim_of_txSpec h ht (c.form now).spec (c.spec_run hc h.inv1 ht) (c.spec_run hc h.inv2 ht)

end Cmd

/-! ### DEL and KEYS -/

def delStep (now : Int) (acc : MState × Int) (key : Bytes) : MState × Int :=
  if !(writeKey acc.1 now key none).2 then ((writeKey acc.1 now key none).1, acc.2) else
  (emit { delKey (writeKey acc.1 now key none).1 key with
      signalled := key :: (writeKey acc.1 now key none).1.signalled } { typ := 2, key := key }, acc.2 + 1)

theorem del_eq (s : MState) (now : Int) (keys : List Bytes) :
    Api.del s now keys = ((keys.foldl (delStep now) (s, 0)).1, .int (keys.foldl (delStep now) (s, 0)).2) := by
  unfold Api.del
  have : (fun (acc : MState × Int) key =>
      match writeKey acc.1 now key none with
      | (s, ok) => if !ok then (s, acc.2) else
        (emit { delKey s key with signalled := key :: s.signalled } { typ := 2, key := key }, acc.2 + 1))
      = delStep now := by
    funext acc key
    unfold delStep
    generalize writeKey acc.1 now key none = r
    obtain ⟨s1, ok⟩ := r
    cases ok <;> rfl
  simp only [this]

theorem delStep_spec {acc : MState × Int} {t now : Int} (h : StoreInvX acc.1 none t) (ht : t ≤ now) (key : Bytes) :
    StoreInvX (delStep now acc key).1 none t ∧ (delStep now acc key).1.pebble = acc.1.pebble ∧
    (delStep now acc key).2 = acc.2 + (if (lookup acc.1 now key).isSome then 1 else 0) ∧
    ∀ t', t ≤ t' → ∀ k', lookup (delStep now acc key).1 t' k' =
      applyEff (if (lookup acc.1 now key).isSome then some none else none) key (lookup acc.1) t' k' := by
  have ks := writeKey_spec h ht key none (fun _ hc => nomatch hc)
  unfold delStep
  generalize writeKey acc.1 now key none = r at ks
  obtain ⟨s1, ok⟩ := r
  cases hL : lookup acc.1 now key with
  | none =>
    obtain ⟨hok, hl⟩ := ks.miss hL rfl
    simp only at hok
    simp only [hok, Bool.not_false, if_true, Option.isSome_none, Bool.false_eq_true, if_false, Int.add_zero]
    refine ⟨ks.inv, ks.peb, (by first | rfl | trivial), ?_⟩
    intro t' ht' k'
    simp only [applyEff]
    by_cases hk : k' = key
    · subst hk; exact hl t' ht'
    · exact ks.other t' ht' k' hk
  | some c =>
    obtain ⟨v, e⟩ := c
    obtain ⟨hok, hl, _⟩ := ks.hit v e hL
    simp only at hok
    simp only [hok, Bool.not_true, Bool.false_eq_true, if_false, Option.isSome_some, if_true]
    have i1 : StoreInvX (delKey s1 key) none t := inv_delKey ks.inv key (fun _ _ => by simp)
    refine ⟨?_, ?_, (by first | rfl | trivial), ?_⟩
    · exact (inv_emits (ops := [{ typ := 2, key := key }])
        (i1.congr (s' := { delKey s1 key with signalled := key :: s1.signalled }) rfl rfl rfl rfl))
    · rw [(emit_fields _ _).2.2.1]
      show (delKey s1 key).pebble = _
      rw [(delKey_fields _ _).1]; exact ks.peb
    · intro t' ht' k'
      have e1 : lookup (emit { delKey s1 key with signalled := key :: s1.signalled } { typ := 2, key := key }) t' k'
          = lookup (delKey s1 key) t' k' := by
        obtain ⟨a, b, c, _, _⟩ := emit_fields { delKey s1 key with signalled := key :: s1.signalled } { typ := 2, key := key }
        rw [lookup_congr a b c]
        exact lookup_congr rfl rfl rfl _ _
      rw [e1, lookup_delKey ks.inv ht']
      simp only [applyEff]
      by_cases hk : k' = key
      · simp [hk]
      · simp only [hk, if_false]; exact ks.other t' ht' k' hk

theorem del_sim {t now : Int} (ht : t ≤ now) : ∀ (keys : List Bytes) (a1 a2 : MState × Int), Sim t a1.1 a2.1 →
    a1.2 = a2.2 → (keys.foldl (delStep now) a1).2 = (keys.foldl (delStep now) a2).2 ∧
      Sim t (keys.foldl (delStep now) a1).1 (keys.foldl (delStep now) a2).1 := by
  intro keys
  induction keys with
  | nil => intro a1 a2 h hc; exact ⟨hc, h⟩
  | cons k rest ih =>
    intro a1 a2 h hc
    simp only [List.foldl_cons]
    obtain ⟨i1, _, c1, l1⟩ := delStep_spec h.inv1 ht k
    obtain ⟨i2, _, c2, l2⟩ := delStep_spec h.inv2 ht k
    have hL : lookup a1.1 now k = lookup a2.1 now k := h.look now ht k
    apply ih
    · refine ⟨i1, i2, ?_⟩
      intro t' ht' k'
      rw [l1 t' ht', l2 t' ht', hL]
      by_cases hs : (lookup a2.1 now k).isSome = true
      · simp only [hs, if_true, applyEff]
        by_cases hk : k' = k
        · simp [hk]
        · simp only [hk, if_false]; exact h.look t' ht' k'
      · simp only [hs, applyEff]; exact h.look t' ht' k'
    · rw [c1, c2, hL, hc]

theorem del_lnil {t now : Int} (ht : t ≤ now) : ∀ (keys : List Bytes) (a : MState × Int),
    StoreInvX a.1 none t → LNil a.1 t →
    StoreInvX (keys.foldl (delStep now) a).1 none t ∧ LNil (keys.foldl (delStep now) a).1 t ∧
    (keys.foldl (delStep now) a).1.pebble = a.1.pebble := by
  intro keys
  induction keys with
  | nil => intro a h hl; exact ⟨h, hl, rfl⟩
  | cons k rest ih =>
    intro a h hl
    simp only [List.foldl_cons]
    obtain ⟨i1, p1, _, l1⟩ := delStep_spec h ht k
    have hl1 : LNil (delStep now a k).1 t := by
      intro hp t' ht' k' v e hlk
      rw [p1] at hp
      rw [l1 t' ht'] at hlk
      by_cases hs : (lookup a.1 now k).isSome = true
      · simp only [hs, if_true, applyEff] at hlk
        by_cases hk : k' = k
        · simp [hk] at hlk
        · simp only [hk, if_false] at hlk; exact hl hp t' ht' k' v e hlk
      · simp only [hs, applyEff] at hlk; exact hl hp t' ht' k' v e hlk
    obtain ⟨a1, a2, a3⟩ := ih _ i1 hl1
    exact ⟨a1, a2, by rw [a3, p1]⟩

/-- under the invariant a live record always shows a value -/
theorem view_isSome {s : MState} {t now : Int} (h : StoreInvX s none t) (ht : t ≤ now) {k : Bytes} {m : Meta}
    (hm : AList.get? s.index k = some m) : (view s now k m).isSome = !m.expired now := by
  have r := h.recs k m hm
  cases hexp : m.expired now with
  | true => rw [view_dead hexp]; rfl
  | false =>
    cases hv : m.value with
    | some v => rw [view_hot hv r.ok hexp]; rfl
    | none =>
      obtain ⟨ent, v, _, _, _, l4, _⟩ := load_some h hm hv (Meta.alive_anti m ht hexp)
      simp [view, r.ok, hexp, hv, l4]

/-- KEYS lists exactly the names of the logical keyspace that match (cold keys included) -/
theorem keys_reply {s : MState} {t now : Int} (h : StoreInvX s none t) (ht : t ≤ now) (pat : Bytes) :
    Api.keys s now pat = (s, .slist (((logical s now).filter fun p => Glob.matched pat p.1).map (·.1))) := by
  unfold Api.keys
  congr 2
  rw [logical_eq]
  have hmem : ∀ p ∈ s.index, AList.get? s.index p.1 = some p.2 :=
    fun p hp => get?_of_mem _ h.idxSorted p.1 p.2 hp
  have key : ∀ l : List (Bytes × Meta), (∀ p ∈ l, AList.get? s.index p.1 = some p.2) →
      (l.filter fun p => Glob.matched pat p.1 && !p.2.expired now).map (·.1) =
      ((l.filterMap fun p => (view s now p.1 p.2).map fun w => (p.1, w)).filter
        fun p => Glob.matched pat p.1).map (·.1) := by
    intro l
    induction l with
    | nil => intro _; rfl
    | cons a rest ih =>
      intro hmem
      obtain ⟨k, m⟩ := a
      have hv := view_isSome h ht (hmem (k, m) (by simp))
      have ih' := ih (fun p hp => hmem p (by simp [hp]))
      simp only [List.filter_cons, List.filterMap_cons]
      cases hview : view s now k m with
      | none =>
        rw [hview] at hv
        have hexp : m.expired now = true := by simpa using hv
        simp only [hexp, Bool.not_true, Bool.and_false, Bool.false_eq_true, if_false, Option.map_none]
        exact ih'
      | some w =>
        rw [hview] at hv
        have hexp : m.expired now = false := by simpa using hv
        simp only [hexp, Bool.not_false, Bool.and_true, Option.map_some, List.filter_cons]
        by_cases hmt : Glob.matched pat k = true
        · simp only [hmt, if_true, List.map_cons]; rw [ih']
        · simp only [hmt, Bool.false_eq_true, if_false]; exact ih'
  exact key s.index hmem

end NodisVerif.Proofs.C11
