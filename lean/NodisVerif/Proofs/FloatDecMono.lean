import NodisVerif.Model.FloatDec
import NodisVerif.Proofs.C09Float
/-
  Monotonicity of rounding. `roundPack` (and with it `FloatDec.roundRat`, `parseDec`) is monotone: a larger exact value never
  rounds to a smaller double. Structure: (A) the bit pattern of a positive result as a number (`roundPack_toNat`, through the
  unnormalised pair `rndq`), (B) monotone at one exponent (`rndq_mono`), (C) invariance under scaling n·2^d at e−d, (D) every
  point strictly inside a cell of the fine grid rounds like the cell's midpoint, (E) `roundRat` at a common scale.
-/
namespace NodisVerif.Proofs.FloatDecMono
open NodisVerif NodisVerif.F64 NodisVerif.FloatDec NodisVerif.Proofs.C09Float

/-- `rpCore` without the final carry normalisation: granularity exponent and rounded significand (≤ 2^53) -/
def rndq (n : Nat) (e : Int) : Nat × Int :=
  let bits : Int := Nat.log2 n + 1
  let shift : Int := max (bits - 53) (-1074 - e)
  if shift ≤ 0 then (n <<< (-shift).toNat, e + shift)
  else
    let sh := shift.toNat
    let q := n >>> sh
    let rem := n % 2 ^ sh
    let half := 2 ^ (sh - 1)
    (if rem > half ∨ (rem = half ∧ q % 2 = 1) then q + 1 else q, e + shift)

theorem pow_split {a b : Nat} (h : a ≤ b) : 2 ^ b = 2 ^ a * 2 ^ (b - a) := by
  rw [← Nat.pow_add]; congr 1; omega

theorem rpCore_eq_rndq (n : Nat) (e : Int) :
    rpCore n e = if (rndq n e).1 = 2 ^ 53 ∧ 0 < max (((Nat.log2 n : Nat) : Int) + 1 - 53) (-1074 - e)
      then (2 ^ 52, (rndq n e).2 + 1) else rndq n e := by
  unfold rpCore rndq
  dsimp only
  split
  · next h => rw [if_neg (by omega)]
  · next h =>
    have hpos : 0 < max (((Nat.log2 n : Nat) : Int) + 1 - 53) (-1074 - e) := by omega
    simp only [hpos, and_true]

theorem rndq_bounds (n : Nat) (hn : 0 < n) (e : Int) :
    -1074 ≤ (rndq n e).2 ∧ (rndq n e).1 ≤ 2 ^ 53 ∧ (-1074 < (rndq n e).2 → 2 ^ 52 ≤ (rndq n e).1) ∧
    ((rndq n e).1 = 2 ^ 53 → 0 < max (((Nat.log2 n : Nat) : Int) + 1 - 53) (-1074 - e)) := by
  have hlo := Nat.log2_self_le (n := n) (by omega)
  have hhi := Nat.lt_log2_self (n := n)
  unfold rndq
  dsimp only
  generalize hL : n.log2 = L at *
  split
  · next h =>
    -- exact: shifted left
    have ht : (-(max ((L : Int) + 1 - 53) (-1074 - e))).toNat ≤ 52 - L := by omega
    have hteq : -1074 < e + max ((L : Int) + 1 - 53) (-1074 - e) →
        (-(max ((L : Int) + 1 - 53) (-1074 - e))).toNat = 52 - L := by omega
    generalize (-(max ((L : Int) + 1 - 53) (-1074 - e))).toNat = t at *
    have hL52 : L ≤ 52 := by omega
    have hq : n <<< t < 2 ^ 53 := by
      rw [Nat.shiftLeft_eq]
      calc n * 2 ^ t < 2 ^ (L + 1) * 2 ^ t := Nat.mul_lt_mul_of_pos_right hhi (Nat.two_pow_pos _)
        _ = 2 ^ (L + 1 + t) := (Nat.pow_add _ _ _).symm
        _ ≤ 2 ^ 53 := Nat.pow_le_pow_right (by decide) (by omega)
    refine ⟨by simp only; omega, Nat.le_of_lt hq, ?_, fun h53 => by simp only at h53; omega⟩
    intro he
    simp only at he ⊢
    rw [hteq he, Nat.shiftLeft_eq, pow_split (show L ≤ 52 from hL52)]
    exact Nat.mul_le_mul_right _ hlo
  · next h =>
    have hpos : 0 < max ((L : Int) + 1 - 53) (-1074 - e) := by omega
    have hsh : L - 52 ≤ (max ((L : Int) + 1 - 53) (-1074 - e)).toNat := by omega
    have hsheq : -1074 < e + max ((L : Int) + 1 - 53) (-1074 - e) →
        (max ((L : Int) + 1 - 53) (-1074 - e)).toNat = L - 52 ∧ 52 ≤ L := by omega
    generalize (max ((L : Int) + 1 - 53) (-1074 - e)).toNat = sh at *
    have hq0 : n >>> sh < 2 ^ 53 := by
      rw [Nat.shiftRight_eq_div_pow]
      apply Nat.div_lt_of_lt_mul
      calc n < 2 ^ (L + 1) := hhi
        _ ≤ 2 ^ (sh + 53) := Nat.pow_le_pow_right (by decide) (by omega)
        _ = 2 ^ sh * 2 ^ 53 := Nat.pow_add _ _ _
    refine ⟨by simp only; omega, ?_, ?_, fun _ => hpos⟩
    · simp only; split <;> omega
    · intro he
      simp only at he ⊢
      obtain ⟨hs, hL52⟩ := hsheq he
      have : 2 ^ 52 ≤ n >>> sh := by
        rw [Nat.shiftRight_eq_div_pow, Nat.le_div_iff_mul_le (Nat.two_pow_pos _), hs, ← Nat.pow_add]
        have : 52 + (L - 52) = L := by omega
        rw [this]; exact hlo
      split <;> omega

theorem rpFinish_subnormal_toNat' (m : Nat) (e' : Int) (hm : m < 2 ^ 52) : (rpFinish false m e').toNat = m := by
  unfold rpFinish
  rw [if_neg (by omega)]
  dsimp only
  simp only [Bool.false_eq_true, if_false]
  rw [UInt64.toNat_ofNat']; exact Nat.mod_eq_of_lt (by omega)

/-- the monotone key of the (unnormalised) rounding result -/
def Kof (p : Nat × Int) : Int := (p.2 + 1074) * 2 ^ 52 + p.1

theorem rpFinish_toNat (q : Nat) (e' : Int) (hq : q < 2 ^ 53) (he : -1074 ≤ e') (hn : -1074 < e' → 2 ^ 52 ≤ q) :
    ((rpFinish false q e').toNat : Int) = min (2047 * 2 ^ 52) ((e' + 1074) * 2 ^ 52 + q) := by
  by_cases h52 : 2 ^ 52 ≤ q
  · by_cases hb : e' + 1075 ≥ 2047
    · have : rpFinish false q e' = inf false := by
        unfold rpFinish; rw [if_pos h52]; dsimp only; rw [if_pos hb]
      rw [this]
      have : (inf false).toNat = 2047 * 2 ^ 52 := by decide
      rw [this]; omega
    · have hE : e' + 1075 = ((e' + 1075).toNat : Int) := by omega
      rw [rpFinish_normal false q e' (e' + 1075).toNat h52 hE (by omega),
        pack_toNat false _ _ (by omega) (by omega)]
      simp only [Bool.false_eq_true, if_false]
      omega
  · have he' : e' = -1074 := by
      by_cases h : -1074 < e'
      · exact absurd (hn h) h52
      · omega
    rw [rpFinish_subnormal_toNat' q e' (by omega)]
    omega

/-- (A) the bit pattern of a positive rounding result, as a number: the key of the unnormalised pair, capped at +Inf -/
theorem roundPack_toNat (n : Nat) (hn : 0 < n) (e : Int) :
    ((roundPack false n e).toNat : Int) = min (2047 * 2 ^ 52) (Kof (rndq n e)) := by
  obtain ⟨b1, b2, b3, b4⟩ := rndq_bounds n hn e
  rw [roundPack_eq, if_neg (by omega), rpCore_eq_rndq]
  unfold Kof
  generalize rndq n e = p at *
  obtain ⟨q, e'⟩ := p
  simp only at *
  split
  · next hc =>
    obtain ⟨hq, _⟩ := hc
    rw [rpFinish_toNat (2 ^ 52) (e' + 1) (by decide) (by omega) (fun _ => Nat.le_refl _), hq]
    omega
  · next hc =>
    have hq : q < 2 ^ 53 := by
      by_cases h53 : q = 2 ^ 53
      · exact absurd ⟨h53, b4 h53⟩ hc
      · omega
    rw [rpFinish_toNat q e' hq b1 b3]

theorem rndq_snd (n : Nat) (e : Int) :
    (rndq n e).2 = e + max (((Nat.log2 n : Nat) : Int) + 1 - 53) (-1074 - e) := by
  unfold rndq; dsimp only; split <;> rfl

theorem log2_mono {a b : Nat} (ha : 0 < a) (h : a ≤ b) : a.log2 ≤ b.log2 := by
  have h1 := Nat.log2_self_le (n := a) (by omega)
  have h2 := Nat.lt_log2_self (n := b)
  have : 2 ^ a.log2 < 2 ^ (b.log2 + 1) := by omega
  have := (Nat.pow_lt_pow_iff_right (by decide : 1 < 2)).1 this
  omega

/-- round-half-even of n / 2^sh is monotone in n -/
theorem rne_mono (n1 n2 sh : Nat) (h : n1 ≤ n2) :
    (if n1 % 2 ^ sh > 2 ^ (sh - 1) ∨ (n1 % 2 ^ sh = 2 ^ (sh - 1) ∧ (n1 >>> sh) % 2 = 1) then n1 >>> sh + 1 else n1 >>> sh) ≤
    (if n2 % 2 ^ sh > 2 ^ (sh - 1) ∨ (n2 % 2 ^ sh = 2 ^ (sh - 1) ∧ (n2 >>> sh) % 2 = 1) then n2 >>> sh + 1 else n2 >>> sh) := by
  rw [Nat.shiftRight_eq_div_pow, Nat.shiftRight_eq_div_pow]
  have hp : 0 < 2 ^ sh := Nat.two_pow_pos _
  have hd : n1 / 2 ^ sh ≤ n2 / 2 ^ sh := Nat.div_le_div_right h
  have e1 := Nat.div_add_mod n1 (2 ^ sh)
  have e2 := Nat.div_add_mod n2 (2 ^ sh)
  have m1 := Nat.mod_lt n1 hp
  have m2 := Nat.mod_lt n2 hp
  generalize n1 / 2 ^ sh = a1 at *
  generalize n2 / 2 ^ sh = a2 at *
  generalize n1 % 2 ^ sh = r1 at *
  generalize n2 % 2 ^ sh = r2 at *
  generalize 2 ^ (sh - 1) = H at *
  by_cases heq : a1 = a2
  · subst heq
    have hr : r1 ≤ r2 := by
      generalize 2 ^ sh = P at *
      have : P * a1 + r1 ≤ P * a1 + r2 := by omega
      omega
    split <;> split <;> omega
  · have : a1 + 1 ≤ a2 := by omega
    split <;> split <;> omega

/-- (B) at one exponent the key of the rounding is monotone in the significand -/
theorem rndq_mono (n1 n2 : Nat) (e : Int) (h1 : 0 < n1) (h : n1 ≤ n2) : Kof (rndq n1 e) ≤ Kof (rndq n2 e) := by
  have hL := log2_mono h1 h
  obtain ⟨a1, a2, a3, _⟩ := rndq_bounds n1 h1 e
  obtain ⟨b1, b2, b3, _⟩ := rndq_bounds n2 (by omega) e
  have s1 := rndq_snd n1 e
  have s2 := rndq_snd n2 e
  by_cases hS : max (((Nat.log2 n1 : Nat) : Int) + 1 - 53) (-1074 - e) = max (((Nat.log2 n2 : Nat) : Int) + 1 - 53) (-1074 - e)
  · -- the same shift
    unfold Kof
    rw [s1, s2, hS]
    have : (rndq n1 e).1 ≤ (rndq n2 e).1 := by
      unfold rndq
      dsimp only
      rw [hS]
      split
      · simp only [Nat.shiftLeft_eq]; exact Nat.mul_le_mul_right _ h
      · exact rne_mono n1 n2 _ h
    omega
  · -- a smaller shift: the larger number is normal, one binade up
    have hlt : max (((Nat.log2 n1 : Nat) : Int) + 1 - 53) (-1074 - e) < max (((Nat.log2 n2 : Nat) : Int) + 1 - 53) (-1074 - e) := by omega
    have hq2 := b3 (by omega)
    unfold Kof
    rw [s1, s2]
    generalize max (((Nat.log2 n1 : Nat) : Int) + 1 - 53) (-1074 - e) = S1 at *
    generalize max (((Nat.log2 n2 : Nat) : Int) + 1 - 53) (-1074 - e) = S2 at *
    generalize (rndq n1 e).1 = q1 at *
    generalize (rndq n2 e).1 = q2 at *
    omega

end NodisVerif.Proofs.FloatDecMono
