import NodisVerif.Model.FloatDec
import NodisVerif.Proofs.C09Float
/-
  Monotonicity of rounding. `roundPack` (and with it `FloatDec.roundRat`, `parseDec`) is monotone: a larger exact value never
  rounds to a smaller double. Structure: (A) the bit pattern of a positive result as a number (`roundPack_toNat`, through the
  unnormalised pair `rndq`), (B) monotone at one exponent (`rndq_mono`), (C) invariance under scaling n·2^d at e−d, (D) every
  point strictly inside a cell of the fine grid rounds like the cell's midpoint, (E) `roundRat` at a common scale.
-/
namespace NodisVerif.Proofs.FloatDecMono
open NodisVerif NodisVerif.F64 NodisVerif.FloatDec NodisVerif.Proofs.C09Float

/-- `rpCore` without the final carry normalisation: granularity exponent and rounded significand (≤ 2^53) -/
def rndq (n : Nat) (e : Int) : Nat × Int :=
  let bits : Int := Nat.log2 n + 1
  let shift : Int := max (bits - 53) (-1074 - e)
  if shift ≤ 0 then (n <<< (-shift).toNat, e + shift)
  else
    let sh := shift.toNat
    let q := n >>> sh
    let rem := n % 2 ^ sh
    let half := 2 ^ (sh - 1)
    (if rem > half ∨ (rem = half ∧ q % 2 = 1) then q + 1 else q, e + shift)

theorem pow_split {a b : Nat} (h : a ≤ b) : 2 ^ b = 2 ^ a * 2 ^ (b - a) := by
  rw [← Nat.pow_add]; congr 1; omega

theorem rpCore_eq_rndq (n : Nat) (e : Int) :
    rpCore n e = if (rndq n e).1 = 2 ^ 53 ∧ 0 < max (((Nat.log2 n : Nat) : Int) + 1 - 53) (-1074 - e)
      then (2 ^ 52, (rndq n e).2 + 1) else rndq n e := by
  unfold rpCore rndq
  dsimp only
  split
  · next h => rw [if_neg (by omega)]
  · next h =>
    have hpos : 0 < max (((Nat.log2 n : Nat) : Int) + 1 - 53) (-1074 - e) := by omega
    simp only [hpos, and_true]

theorem rndq_bounds (n : Nat) (hn : 0 < n) (e : Int) :
    -1074 ≤ (rndq n e).2 ∧ (rndq n e).1 ≤ 2 ^ 53 ∧ (-1074 < (rndq n e).2 → 2 ^ 52 ≤ (rndq n e).1) ∧
    ((rndq n e).1 = 2 ^ 53 → 0 < max (((Nat.log2 n : Nat) : Int) + 1 - 53) (-1074 - e)) := by
  have hlo := Nat.log2_self_le (n := n) (by omega)
  have hhi := Nat.lt_log2_self (n := n)
  unfold rndq
  dsimp only
  generalize hL : n.log2 = L at *
  split
  · next h =>
    -- exact: shifted left
    have ht : (-(max ((L : Int) + 1 - 53) (-1074 - e))).toNat ≤ 52 - L := by omega
    have hteq : -1074 < e + max ((L : Int) + 1 - 53) (-1074 - e) →
        (-(max ((L : Int) + 1 - 53) (-1074 - e))).toNat = 52 - L := by omega
    generalize (-(max ((L : Int) + 1 - 53) (-1074 - e))).toNat = t at *
    have hL52 : L ≤ 52 := by omega
    have hq : n <<< t < 2 ^ 53 := by
      rw [Nat.shiftLeft_eq]
      calc n * 2 ^ t < 2 ^ (L + 1) * 2 ^ t := Nat.mul_lt_mul_of_pos_right hhi (Nat.two_pow_pos _)
        _ = 2 ^ (L + 1 + t) := (Nat.pow_add _ _ _).symm
        _ ≤ 2 ^ 53 := Nat.pow_le_pow_right (by decide) (by omega)
    refine ⟨by simp only; omega, Nat.le_of_lt hq, ?_, fun h53 => by simp only at h53; omega⟩
    intro he
    simp only at he ⊢
    rw [hteq he, Nat.shiftLeft_eq, pow_split (show L ≤ 52 from hL52)]
    exact Nat.mul_le_mul_right _ hlo
  · next h =>
    have hpos : 0 < max ((L : Int) + 1 - 53) (-1074 - e) := by omega
    have hsh : L - 52 ≤ (max ((L : Int) + 1 - 53) (-1074 - e)).toNat := by omega
    have hsheq : -1074 < e + max ((L : Int) + 1 - 53) (-1074 - e) →
        (max ((L : Int) + 1 - 53) (-1074 - e)).toNat = L - 52 ∧ 52 ≤ L := by omega
    generalize (max ((L : Int) + 1 - 53) (-1074 - e)).toNat = sh at *
    have hq0 : n >>> sh < 2 ^ 53 := by
      rw [Nat.shiftRight_eq_div_pow]
      apply Nat.div_lt_of_lt_mul
      calc n < 2 ^ (L + 1) := hhi
        _ ≤ 2 ^ (sh + 53) := Nat.pow_le_pow_right (by decide) (by omega)
        _ = 2 ^ sh * 2 ^ 53 := Nat.pow_add _ _ _
    refine ⟨by simp only; omega, ?_, ?_, fun _ => hpos⟩
    · simp only; split <;> omega
    · intro he
      simp only at he ⊢
      obtain ⟨hs, hL52⟩ := hsheq he
      have : 2 ^ 52 ≤ n >>> sh := by
        rw [Nat.shiftRight_eq_div_pow, Nat.le_div_iff_mul_le (Nat.two_pow_pos _), hs, ← Nat.pow_add]
        have : 52 + (L - 52) = L := by omega
        rw [this]; exact hlo
      split <;> omega

theorem rpFinish_subnormal_toNat' (m : Nat) (e' : Int) (hm : m < 2 ^ 52) : (rpFinish false m e').toNat = m := by
  unfold rpFinish
  rw [if_neg (by omega)]
  dsimp only
  simp only [Bool.false_eq_true, if_false]
  rw [UInt64.toNat_ofNat']; exact Nat.mod_eq_of_lt (by omega)

/-- the monotone key of the (unnormalised) rounding result -/
def Kof (p : Nat × Int) : Int := (p.2 + 1074) * 2 ^ 52 + p.1

theorem rpFinish_toNat (q : Nat) (e' : Int) (hq : q < 2 ^ 53) (he : -1074 ≤ e') (hn : -1074 < e' → 2 ^ 52 ≤ q) :
    ((rpFinish false q e').toNat : Int) = min (2047 * 2 ^ 52) ((e' + 1074) * 2 ^ 52 + q) := by
  by_cases h52 : 2 ^ 52 ≤ q
  · by_cases hb : e' + 1075 ≥ 2047
    · have : rpFinish false q e' = inf false := by
        unfold rpFinish; rw [if_pos h52]; dsimp only; rw [if_pos hb]
      rw [this]
      have : (inf false).toNat = 2047 * 2 ^ 52 := by decide
      rw [this]; omega
    · have hE : e' + 1075 = ((e' + 1075).toNat : Int) := by omega
      rw [rpFinish_normal false q e' (e' + 1075).toNat h52 hE (by omega),
        pack_toNat false _ _ (by omega) (by omega)]
      simp only [Bool.false_eq_true, if_false]
      omega
  · have he' : e' = -1074 := by
      by_cases h : -1074 < e'
      · exact absurd (hn h) h52
      · omega
    rw [rpFinish_subnormal_toNat' q e' (by omega)]
    omega

/-- (A) the bit pattern of a positive rounding result, as a number: the key of the unnormalised pair, capped at +Inf -/
theorem roundPack_toNat (n : Nat) (hn : 0 < n) (e : Int) :
    ((roundPack false n e).toNat : Int) = min (2047 * 2 ^ 52) (Kof (rndq n e)) := by
  obtain ⟨b1, b2, b3, b4⟩ := rndq_bounds n hn e
  rw [roundPack_eq, if_neg (by omega), rpCore_eq_rndq]
  unfold Kof
  generalize rndq n e = p at *
  obtain ⟨q, e'⟩ := p
  simp only at *
  split
  · next hc =>
    obtain ⟨hq, _⟩ := hc
    rw [rpFinish_toNat (2 ^ 52) (e' + 1) (by decide) (by omega) (fun _ => Nat.le_refl _), hq]
    omega
  · next hc =>
    have hq : q < 2 ^ 53 := by
      by_cases h53 : q = 2 ^ 53
      · exact absurd ⟨h53, b4 h53⟩ hc
      · omega
    rw [rpFinish_toNat q e' hq b1 b3]

theorem rndq_snd (n : Nat) (e : Int) :
    (rndq n e).2 = e + max (((Nat.log2 n : Nat) : Int) + 1 - 53) (-1074 - e) := by
  unfold rndq; dsimp only; split <;> rfl

theorem log2_mono {a b : Nat} (ha : 0 < a) (h : a ≤ b) : a.log2 ≤ b.log2 := by
  have h1 := Nat.log2_self_le (n := a) (by omega)
  have h2 := Nat.lt_log2_self (n := b)
  have : 2 ^ a.log2 < 2 ^ (b.log2 + 1) := by omega
  have := (Nat.pow_lt_pow_iff_right (by decide : 1 < 2)).1 this
  omega

/-- round-half-even of n / 2^sh is monotone in n -/
theorem rne_mono (n1 n2 sh : Nat) (h : n1 ≤ n2) :
    (if n1 % 2 ^ sh > 2 ^ (sh - 1) ∨ (n1 % 2 ^ sh = 2 ^ (sh - 1) ∧ (n1 >>> sh) % 2 = 1) then n1 >>> sh + 1 else n1 >>> sh) ≤
    (if n2 % 2 ^ sh > 2 ^ (sh - 1) ∨ (n2 % 2 ^ sh = 2 ^ (sh - 1) ∧ (n2 >>> sh) % 2 = 1) then n2 >>> sh + 1 else n2 >>> sh) := by
  rw [Nat.shiftRight_eq_div_pow, Nat.shiftRight_eq_div_pow]
  have hp : 0 < 2 ^ sh := Nat.two_pow_pos _
  have hd : n1 / 2 ^ sh ≤ n2 / 2 ^ sh := Nat.div_le_div_right h
  have e1 := Nat.div_add_mod n1 (2 ^ sh)
  have e2 := Nat.div_add_mod n2 (2 ^ sh)
  have m1 := Nat.mod_lt n1 hp
  have m2 := Nat.mod_lt n2 hp
  generalize n1 / 2 ^ sh = a1 at *
  generalize n2 / 2 ^ sh = a2 at *
  generalize n1 % 2 ^ sh = r1 at *
  generalize n2 % 2 ^ sh = r2 at *
  generalize 2 ^ (sh - 1) = H at *
  by_cases heq : a1 = a2
  · subst heq
    have hr : r1 ≤ r2 := by
      generalize 2 ^ sh = P at *
      have : P * a1 + r1 ≤ P * a1 + r2 := by omega
      omega
    split <;> split <;> omega
  · have : a1 + 1 ≤ a2 := by omega
    split <;> split <;> omega

/-- (B) at one exponent the key of the rounding is monotone in the significand -/
theorem rndq_mono (n1 n2 : Nat) (e : Int) (h1 : 0 < n1) (h : n1 ≤ n2) : Kof (rndq n1 e) ≤ Kof (rndq n2 e) := by
  have hL := log2_mono h1 h
  obtain ⟨a1, a2, a3, _⟩ := rndq_bounds n1 h1 e
  obtain ⟨b1, b2, b3, _⟩ := rndq_bounds n2 (by omega) e
  have s1 := rndq_snd n1 e
  have s2 := rndq_snd n2 e
  by_cases hS : max (((Nat.log2 n1 : Nat) : Int) + 1 - 53) (-1074 - e) = max (((Nat.log2 n2 : Nat) : Int) + 1 - 53) (-1074 - e)
  · -- the same shift
    unfold Kof
    rw [s1, s2, hS]
    have : (rndq n1 e).1 ≤ (rndq n2 e).1 := by
      unfold rndq
      dsimp only
      rw [hS]
      split
      · simp only [Nat.shiftLeft_eq]; exact Nat.mul_le_mul_right _ h
      · exact rne_mono n1 n2 _ h
    omega
  · -- a smaller shift: the larger number is normal, one binade up
    have hlt : max (((Nat.log2 n1 : Nat) : Int) + 1 - 53) (-1074 - e) < max (((Nat.log2 n2 : Nat) : Int) + 1 - 53) (-1074 - e) := by omega
    have hq2 := b3 (by omega)
    unfold Kof
    rw [s1, s2]
    generalize max (((Nat.log2 n1 : Nat) : Int) + 1 - 53) (-1074 - e) = S1 at *
    generalize max (((Nat.log2 n2 : Nat) : Int) + 1 - 53) (-1074 - e) = S2 at *
    generalize (rndq n1 e).1 = q1 at *
    generalize (rndq n2 e).1 = q2 at *
    omega


theorem log2_mul_two_pow (n d : Nat) (hn : 0 < n) : (n * 2 ^ d).log2 = n.log2 + d := by
  have hlo := Nat.log2_self_le (n := n) (by omega)
  have hhi := Nat.lt_log2_self (n := n)
  have hpos : 0 < 2 ^ d := Nat.two_pow_pos _
  rw [Nat.log2_eq_iff (by have := Nat.mul_pos hn hpos; omega)]
  constructor
  · rw [Nat.pow_add]; exact Nat.mul_le_mul_right _ hlo
  · rw [show n.log2 + d + 1 = n.log2 + 1 + d by omega, Nat.pow_add]; exact Nat.mul_lt_mul_of_pos_right hhi hpos

/-- (C) scaling the significand by 2^d and lowering the exponent by d changes nothing -/
theorem rndq_scale (n d : Nat) (hn : 0 < n) (e : Int) : rndq (n * 2 ^ d) (e - d) = rndq n e := by
  unfold rndq
  dsimp only
  rw [log2_mul_two_pow n d hn]
  generalize n.log2 = L
  have hS : max ((((L + d : Nat)) : Int) + 1 - 53) (-1074 - (e - (d : Int))) = max ((L : Int) + 1 - 53) (-1074 - e) + d := by omega
  rw [hS]
  generalize hSdef : max ((L : Int) + 1 - 53) (-1074 - e) = S
  have hpd : 0 < 2 ^ d := Nat.two_pow_pos _
  by_cases h1 : S + (d : Int) ≤ 0
  · have h2 : S ≤ 0 := by omega
    rw [if_pos h1, if_pos h2]
    refine Prod.ext ?_ (by simp only; omega)
    simp only [Nat.shiftLeft_eq]
    have : (-S).toNat = d + (-(S + (d : Int))).toNat := by omega
    rw [this, Nat.pow_add, Nat.mul_assoc]
  · rw [if_neg h1]
    by_cases h2 : S ≤ 0
    · rw [if_pos h2]
      refine Prod.ext ?_ (by simp only; omega)
      simp only [Nat.shiftLeft_eq, Nat.shiftRight_eq_div_pow]
      have hd : d = (-S).toNat + (S + (d : Int)).toNat := by omega
      generalize (-S).toNat = t at *
      generalize hsh : (S + (d : Int)).toNat = sh at *
      have hshpos : 0 < sh := by omega
      have hn2 : n * 2 ^ d = n * 2 ^ t * 2 ^ sh := by rw [hd, Nat.pow_add, Nat.mul_assoc]
      rw [hn2, Nat.mul_div_cancel _ (Nat.two_pow_pos _), Nat.mul_mod_left]
      have hhalf : 0 < 2 ^ (sh - 1) := Nat.two_pow_pos _
      rw [if_neg (by omega)]
    · rw [if_neg h2]
      refine Prod.ext ?_ (by simp only; omega)
      simp only [Nat.shiftRight_eq_div_pow]
      have hsh : (S + (d : Int)).toNat = S.toNat + d := by omega
      rw [hsh]
      generalize hshdef : S.toNat = sh
      have hshpos : 0 < sh := by omega
      have hq : n * 2 ^ d / 2 ^ (sh + d) = n / 2 ^ sh := by
        rw [Nat.pow_add]; exact Nat.mul_div_mul_right _ _ hpd
      have hr : n * 2 ^ d % 2 ^ (sh + d) = n % 2 ^ sh * 2 ^ d := by
        rw [Nat.pow_add]; exact Nat.mul_mod_mul_right _ _ _
      have hh : 2 ^ (sh + d - 1) = 2 ^ (sh - 1) * 2 ^ d := by
        rw [← Nat.pow_add]; congr 1; omega
      rw [hq, hr, hh]
      have c1 : (n % 2 ^ sh * 2 ^ d > 2 ^ (sh - 1) * 2 ^ d) ↔ (n % 2 ^ sh > 2 ^ (sh - 1)) :=
        Nat.mul_lt_mul_right hpd
      have c2 : (n % 2 ^ sh * 2 ^ d = 2 ^ (sh - 1) * 2 ^ d) ↔ (n % 2 ^ sh = 2 ^ (sh - 1)) :=
        Nat.mul_left_inj (by omega)
      simp only [c1, c2]

/-- the rounding of every point strictly inside the cell (Q·2^e, (Q+1)·2^e) of a grid that is at least 4 times finer
    than the doubles (Q has at least 55 bits): down to ⌊Q/2^sh⌋ or up, decided by the half bit of Q alone -/
def cellRound (Q : Nat) (e : Int) : Nat × Int :=
  (Q / 2 ^ (max ((Q.log2 : Int) + 1 - 53) (-1074 - e)).toNat +
    (if 2 ^ ((max ((Q.log2 : Int) + 1 - 53) (-1074 - e)).toNat - 1) ≤ Q % 2 ^ (max ((Q.log2 : Int) + 1 - 53) (-1074 - e)).toNat
      then 1 else 0),
   e + max ((Q.log2 : Int) + 1 - 53) (-1074 - e))

/-- (D) interior points of a cell: the result does not depend on where in the cell the point lies -/
theorem rndq_interior (Q d r : Nat) (e : Int) (hQ : 2 ^ 54 ≤ Q) (hr0 : 0 < r) (hr : r < 2 ^ d) :
    rndq (Q * 2 ^ d + r) (e - d) = cellRound Q e := by
  have hQ0 : Q ≠ 0 := by have := Nat.two_pow_pos 54; omega
  have hLq : 54 ≤ Q.log2 := (Nat.le_log2 hQ0).2 hQ
  have hlo := Nat.log2_self_le (n := Q) hQ0
  have hhi := Nat.lt_log2_self (n := Q)
  have hpd : 0 < 2 ^ d := Nat.two_pow_pos _
  have hlog : (Q * 2 ^ d + r).log2 = Q.log2 + d := by
    rw [Nat.log2_eq_iff (by omega)]
    constructor
    · calc 2 ^ (Q.log2 + d) = 2 ^ Q.log2 * 2 ^ d := Nat.pow_add _ _ _
        _ ≤ Q * 2 ^ d := Nat.mul_le_mul_right _ hlo
        _ ≤ Q * 2 ^ d + r := Nat.le_add_right _ _
    · calc Q * 2 ^ d + r < Q * 2 ^ d + 2 ^ d := by omega
        _ = (Q + 1) * 2 ^ d := by rw [Nat.add_mul, Nat.one_mul]
        _ ≤ 2 ^ (Q.log2 + 1) * 2 ^ d := Nat.mul_le_mul_right _ hhi
        _ = 2 ^ (Q.log2 + d + 1) := by rw [← Nat.pow_add]; congr 1; omega
  unfold rndq cellRound
  dsimp only
  rw [hlog]
  generalize Q.log2 = L at *
  have hS : max ((((L + d : Nat)) : Int) + 1 - 53) (-1074 - (e - (d : Int))) = max ((L : Int) + 1 - 53) (-1074 - e) + d := by omega
  rw [hS]
  generalize hSdef : max ((L : Int) + 1 - 53) (-1074 - e) = S
  have hS2 : 2 ≤ S := by omega
  rw [if_neg (by omega)]
  refine Prod.ext ?_ (by simp only; omega)
  simp only [Nat.shiftRight_eq_div_pow]
  have hsh : (S + (d : Int)).toNat = S.toNat + d := by omega
  rw [hsh]
  generalize hshdef : S.toNat = sh
  have hsh2 : 2 ≤ sh := by omega
  have hps : 0 < 2 ^ sh := Nat.two_pow_pos _
  -- quotient and remainder of the scaled point
  have hQdm := Nat.div_add_mod Q (2 ^ sh)
  have hR0 := Nat.mod_lt Q hps
  generalize hq0 : Q / 2 ^ sh = q0 at *
  generalize hR0d : Q % 2 ^ sh = R0 at *
  have hlt : R0 * 2 ^ d + r < 2 ^ (sh + d) := by
    calc R0 * 2 ^ d + r < R0 * 2 ^ d + 2 ^ d := by omega
      _ = (R0 + 1) * 2 ^ d := by rw [Nat.add_mul, Nat.one_mul]
      _ ≤ 2 ^ sh * 2 ^ d := Nat.mul_le_mul_right _ (by omega)
      _ = 2 ^ (sh + d) := (Nat.pow_add _ _ _).symm
  have hdecomp : (R0 * 2 ^ d + r) + 2 ^ (sh + d) * q0 = Q * 2 ^ d + r := by
    rw [← hQdm, Nat.pow_add, Nat.add_mul, Nat.mul_assoc, Nat.mul_comm (2 ^ d) q0, ← Nat.mul_assoc, Nat.mul_comm (2 ^ sh * q0)]
    generalize 2 ^ d * (2 ^ sh * q0) = X
    omega
  obtain ⟨hdiv, hmod⟩ := (Nat.div_mod_unique (Nat.two_pow_pos (sh + d))).2 ⟨hdecomp, hlt⟩
  rw [hdiv, hmod]
  have hh : 2 ^ (sh + d - 1) = 2 ^ (sh - 1) * 2 ^ d := by
    rw [← Nat.pow_add]; congr 1; omega
  rw [hh]
  generalize 2 ^ (sh - 1) = H0 at *
  by_cases hge : H0 ≤ R0
  · have : H0 * 2 ^ d ≤ R0 * 2 ^ d := Nat.mul_le_mul_right _ hge
    rw [if_pos (Or.inl (by omega)), if_pos hge]
  · have : (R0 + 1) * 2 ^ d ≤ H0 * 2 ^ d := Nat.mul_le_mul_right _ (by omega)
    rw [Nat.add_mul, Nat.one_mul] at this
    rw [if_neg (by omega), if_neg hge]
    rfl

/-! ### (E) `roundRat` at a common scale -/

/-- twice the quotient of N·2^d by D, plus a sticky bit: what `roundRat` hands to `roundPack` (there with d = 0) -/
def scaled (N D d : Nat) : Nat := 2 * (N * 2 ^ d / D) + (if N * 2 ^ d % D = 0 then 0 else 1)

/-- refining the scale by 2^d does not change the rounding, once the quotient has at least 55 bits -/
theorem rndq_scaled (N D d : Nat) (e : Int) (hD : 0 < D) (hQ : 2 ^ 54 ≤ N / D) :
    rndq (scaled N D d) (e - d) = rndq (scaled N D 0) e := by
  have hpd : 0 < 2 ^ d := Nat.two_pow_pos _
  have hdm := Nat.div_add_mod N D
  have hml := Nat.mod_lt N hD
  by_cases hR : N % D = 0
  · -- exact quotient: pure scaling
    have hN : N = D * (N / D) := by omega
    have h1 : N * 2 ^ d / D = N / D * 2 ^ d := by
      rw [hN, Nat.mul_assoc, Nat.mul_div_cancel_left _ hD, Nat.mul_div_cancel_left _ hD]
    have h2 : N * 2 ^ d % D = 0 := by
      rw [hN, Nat.mul_assoc]; exact Nat.mul_mod_right _ _
    unfold scaled
    simp only [h1, h2, hR, if_true, Nat.pow_zero, Nat.mul_one, Nat.add_zero]
    rw [← Nat.mul_assoc]
    exact rndq_scale (2 * (N / D)) d (by have := Nat.two_pow_pos 54; omega) e
  · -- inexact: every refinement is an interior point of the same cell
    have hA : N * 2 ^ d / D / 2 ^ d = N / D := by
      rw [Nat.div_div_eq_div_mul, Nat.mul_div_mul_right _ _ hpd]
    have hAdm := Nat.div_add_mod (N * 2 ^ d / D) (2 ^ d)
    have hAml := Nat.mod_lt (N * 2 ^ d / D) hpd
    rw [hA] at hAdm
    have hne : ¬ (N * 2 ^ d / D % 2 ^ d = 0 ∧ N * 2 ^ d % D = 0) := by
      rintro ⟨h1, h2⟩
      apply hR
      have e1 := Nat.div_add_mod (N * 2 ^ d) D
      rw [h2, Nat.add_zero] at e1
      rw [h1, Nat.add_zero] at hAdm
      rw [← hAdm] at e1
      have e2 : N * 2 ^ d = (D * (N / D)) * 2 ^ d := by rw [← e1]; ac_rfl
      have e3 : N = D * (N / D) := Nat.eq_of_mul_eq_mul_right hpd e2
      omega
    have h0 : scaled N D 0 = N / D * 2 ^ 1 + 1 := by
      unfold scaled; simp only [Nat.pow_zero, Nat.mul_one, hR, if_false]; omega
    have hX : N / D * (2 ^ d * 2) = 2 * (2 ^ d * (N / D)) := by ac_rfl
    have hd : scaled N D d = N / D * 2 ^ (d + 1) +
        (2 * (N * 2 ^ d / D % 2 ^ d) + (if N * 2 ^ d % D = 0 then 0 else 1)) := by
      unfold scaled
      rw [Nat.pow_succ, hX]
      omega
    have e0 := rndq_interior (N / D) 1 1 (e + 1) hQ (by decide) (by decide)
    have hpow1 : (2 : Nat) ^ (d + 1) = 2 * 2 ^ d := by rw [Nat.pow_succ, Nat.mul_comm]
    have ed := rndq_interior (N / D) (d + 1) (2 * (N * 2 ^ d / D % 2 ^ d) + (if N * 2 ^ d % D = 0 then 0 else 1))
      (e + 1) hQ (by split <;> omega) (by rw [hpow1]; split <;> omega)
    rw [h0, hd]
    have cd : e - (d : Int) = e + 1 - ((d + 1 : Nat) : Int) := by omega
    have e0' : rndq (N / D * 2 ^ 1 + 1) e = cellRound (N / D) (e + 1) := by
      have c0 : e + 1 - ((1 : Nat) : Int) = e := by omega
      rw [c0] at e0; exact e0
    rw [cd, ed, e0']


/-- floor and sticky bit are monotone in the rational: a/b ≤ c/d (cross-multiplied) -/
theorem scaled_mono (a b c d : Nat) (hb : 0 < b) (hd : 0 < d) (h : a * d ≤ c * b) :
    2 * (a / b) + (if a % b = 0 then 0 else 1) ≤ 2 * (c / d) + (if c % d = 0 then 0 else 1) := by
  have ea := Nat.div_add_mod a b
  have ec := Nat.div_add_mod c d
  have ra := Nat.mod_lt a hb
  have rc := Nat.mod_lt c hd
  have hq : a / b ≤ c / d := by
    rw [Nat.le_div_iff_mul_le hd]
    apply Nat.le_of_mul_le_mul_right _ hb
    calc a / b * d * b = (b * (a / b)) * d := by ac_rfl
      _ ≤ a * d := Nat.mul_le_mul_right _ (by omega)
      _ ≤ c * b := h
  by_cases heq : a / b = c / d
  · have hs : a % b ≠ 0 → c % d ≠ 0 := by
      intro h1 h2
      have hc : c = d * (c / d) := by omega
      have hlt : b * (a / b) < a := by omega
      have : c * b < a * d := by
        calc c * b = (d * (c / d)) * b := by rw [← hc]
          _ = (b * (a / b)) * d := by rw [heq]; ac_rfl
          _ < a * d := Nat.mul_lt_mul_of_pos_right hlt hd
      omega
    rw [heq]
    by_cases h1 : a % b = 0
    · rw [if_pos h1]; omega
    · rw [if_neg h1, if_neg (hs h1)]; exact Nat.le_refl _
  · split <;> split <;> omega

/-- the scale `roundRat` chooses, and the scaled numerator / denominator -/
def kOf (num den : Nat) : Int := 57 + (den.log2 : Int) - (num.log2 : Int)
def NOf (num den : Nat) : Nat := num * 2 ^ (kOf num den).toNat
def DOf (num den : Nat) : Nat := den * 2 ^ (-(kOf num den)).toNat

theorem roundRat_eq_scaled (num den : Nat) (hnum : 0 < num) :
    roundRat false num den = roundPack false (scaled (NOf num den) (DOf num den) 0) (-(kOf num den) - 1) := by
  unfold roundRat scaled NOf DOf kOf
  rw [if_neg (by omega)]
  simp only [Nat.pow_zero, Nat.mul_one]
  generalize 57 + (den.log2 : Int) - (num.log2 : Int) = k
  by_cases hk : k ≥ 0
  · have h0 : (-k).toNat = 0 := by omega
    simp only [hk, if_true, h0, Nat.pow_zero, Nat.mul_one, Nat.shiftLeft_eq]
  · have h0 : k.toNat = 0 := by omega
    simp only [hk, if_false, h0, Nat.pow_zero, Nat.mul_one, Nat.shiftLeft_eq]

theorem DOf_pos (num den : Nat) (hden : 0 < den) : 0 < DOf num den :=
  Nat.mul_pos hden (Nat.two_pow_pos _)

theorem quot_big (num den : Nat) (hnum : 0 < num) (hden : 0 < den) : 2 ^ 54 ≤ NOf num den / DOf num den := by
  rw [Nat.le_div_iff_mul_le (DOf_pos num den hden)]
  have hlo := Nat.log2_self_le (n := num) (by omega)
  have hhi := Nat.lt_log2_self (n := den)
  unfold NOf DOf kOf
  generalize num.log2 = ln at *
  generalize den.log2 = ld at *
  by_cases hk : (57 + (ld : Int) - (ln : Int)) ≥ 0
  · have h0 : (-(57 + (ld : Int) - (ln : Int))).toNat = 0 := by omega
    rw [h0, Nat.pow_zero, Nat.mul_one]
    generalize hkn : (57 + (ld : Int) - (ln : Int)).toNat = kn
    calc 2 ^ 54 * den ≤ 2 ^ 54 * 2 ^ (ld + 1) := Nat.mul_le_mul_left _ (Nat.le_of_lt hhi)
      _ = 2 ^ (54 + (ld + 1)) := (Nat.pow_add _ _ _).symm
      _ ≤ 2 ^ (ln + kn) := Nat.pow_le_pow_right (by decide) (by omega)
      _ = 2 ^ ln * 2 ^ kn := Nat.pow_add _ _ _
      _ ≤ num * 2 ^ kn := Nat.mul_le_mul_right _ hlo
  · have h0 : (57 + (ld : Int) - (ln : Int)).toNat = 0 := by omega
    rw [h0, Nat.pow_zero, Nat.mul_one]
    generalize hj : (-(57 + (ld : Int) - (ln : Int))).toNat = j
    calc 2 ^ 54 * (den * 2 ^ j) ≤ 2 ^ 54 * (2 ^ (ld + 1) * 2 ^ j) :=
          Nat.mul_le_mul_left _ (Nat.mul_le_mul_right _ (Nat.le_of_lt hhi))
      _ = 2 ^ (54 + (ld + 1 + j)) := by rw [← Nat.pow_add, ← Nat.pow_add]
      _ ≤ 2 ^ ln := Nat.pow_le_pow_right (by decide) (by omega)
      _ ≤ num := hlo

theorem scaled_pos (N D d : Nat) (h : 2 ^ 54 ≤ N / D) (_hD : 0 < D) : 0 < scaled N D d := by
  unfold scaled
  have hpd : 0 < 2 ^ d := Nat.two_pow_pos _
  have : N / D ≤ N * 2 ^ d / D := Nat.div_le_div_right (Nat.le_mul_of_pos_right _ hpd)
  have := Nat.two_pow_pos 54
  omega

/-- MONOTONICITY of the exact rounding: num1/den1 ≤ num2/den2 (cross-multiplied) ⇒ the rounded doubles are in
    the same order (as bit patterns of non-negative doubles, i.e. as numbers; +Inf on top) -/
theorem roundRat_mono (num1 den1 num2 den2 : Nat) (hd1 : 0 < den1) (hd2 : 0 < den2)
    (h : num1 * den2 ≤ num2 * den1) :
    (roundRat false num1 den1).toNat ≤ (roundRat false num2 den2).toNat := by
  by_cases hn1 : num1 = 0
  · subst hn1
    have : roundRat false 0 den1 = 0 := by unfold roundRat; rw [if_pos rfl]; rfl
    rw [this]; exact Nat.zero_le _
  have hn1' : 0 < num1 := by omega
  have hn2 : 0 < num2 := by
    apply Nat.pos_of_ne_zero
    intro h0; subst h0
    have := Nat.mul_pos hn1' hd2
    omega
  have q1 := quot_big num1 den1 hn1' hd1
  have q2 := quot_big num2 den2 hn2 hd2
  have D1 := DOf_pos num1 den1 hd1
  have D2 := DOf_pos num2 den2 hd2
  rw [roundRat_eq_scaled num1 den1 hn1', roundRat_eq_scaled num2 den2 hn2]
  have t1 := roundPack_toNat _ (scaled_pos _ _ 0 q1 D1) (-(kOf num1 den1) - 1)
  have t2 := roundPack_toNat _ (scaled_pos _ _ 0 q2 D2) (-(kOf num2 den2) - 1)
  -- the common scale
  generalize hK : max (kOf num1 den1) (kOf num2 den2) = K
  have s1 := rndq_scaled (NOf num1 den1) (DOf num1 den1) (K - kOf num1 den1).toNat (-(kOf num1 den1) - 1) D1 q1
  have s2 := rndq_scaled (NOf num2 den2) (DOf num2 den2) (K - kOf num2 den2).toNat (-(kOf num2 den2) - 1) D2 q2
  have c1 : -(kOf num1 den1) - 1 - (((K - kOf num1 den1).toNat : Nat) : Int) = -K - 1 := by omega
  have c2 : -(kOf num2 den2) - 1 - (((K - kOf num2 den2).toNat : Nat) : Int) = -K - 1 := by omega
  rw [c1] at s1
  rw [c2] at s2
  rw [← s1] at t1
  rw [← s2] at t2
  have hle : scaled (NOf num1 den1) (DOf num1 den1) (K - kOf num1 den1).toNat ≤
      scaled (NOf num2 den2) (DOf num2 den2) (K - kOf num2 den2).toNat := by
    unfold scaled
    apply scaled_mono _ _ _ _ D1 D2
    unfold NOf DOf
    have hX : (kOf num1 den1).toNat + (K - kOf num1 den1).toNat + (-(kOf num2 den2)).toNat =
        (kOf num2 den2).toNat + (K - kOf num2 den2).toNat + (-(kOf num1 den1)).toNat := by omega
    generalize (kOf num1 den1).toNat = a1 at *
    generalize (K - kOf num1 den1).toNat = d1 at *
    generalize (-(kOf num2 den2)).toNat = b2 at *
    generalize (kOf num2 den2).toNat = a2 at *
    generalize (K - kOf num2 den2).toNat = d2 at *
    generalize (-(kOf num1 den1)).toNat = b1 at *
    calc num1 * 2 ^ a1 * 2 ^ d1 * (den2 * 2 ^ b2) = (num1 * den2) * 2 ^ (a1 + d1 + b2) := by
          rw [Nat.pow_add, Nat.pow_add]; ac_rfl
      _ ≤ (num2 * den1) * 2 ^ (a1 + d1 + b2) := Nat.mul_le_mul_right _ h
      _ = num2 * 2 ^ a2 * 2 ^ d2 * (den1 * 2 ^ b1) := by
          rw [hX, Nat.pow_add, Nat.pow_add]; ac_rfl
  have hm := rndq_mono _ _ (-K - 1) (scaled_pos _ _ _ q1 D1) hle
  omega

end NodisVerif.Proofs.FloatDecMono
