import NodisVerif.Proofs.C10Base
/-
  C10 helper lemmas, part 2: how every store primitive acts on the observable view
  (`Store.vis`, `Store.frame`) and on sortedness of the index.
-/
namespace NodisVerif.Proofs.C10
open NodisVerif Store
open NodisVerif.Proofs.AListLemmas NodisVerif.Proofs.AListLemmas2

/-! ### view-level counterparts of the lookup protocol -/

/-- a cold record whose value can be loaded becomes hot -/
def touch (r : View.Rec) : View.Rec :=
  match r.value, r.load with
  | none, some (v, oid) => { r with value := some v, load := none, oid := oid, vtype := v.typeCode, ok := true }
  | _, _ => r

/-- does `readKey` / `writeKey … nil` find the key? -/
def rkOk (r : Option View.Rec) : Bool :=
  match r with
  | some r => r.ok && (r.value.isSome || r.load.isSome)
  | none => false

/-- the record `newKeyWith` publishes -/
def freshRec (n : Nat) (v : Val) : View.Rec :=
  { exp := 0, value := some v, load := none, vtype := v.typeCode, ok := true, modified := true,
    kid := n, oid := n + 1 }

/-! ### which parts of the state the view depends on -/

theorem recOf_congr {s s' : MState} (h2 : s.disk = s'.disk) (h3 : s.pebble = s'.pebble) (k : Bytes) :
    recOf s k = recOf s' k := by
  funext m
  simp only [recOf, loadValue, diskGet, h2, h3]

theorem vis_congr {s s' : MState} (now : Int) (h1 : s.index = s'.index) (h2 : s.disk = s'.disk)
    (h3 : s.pebble = s'.pebble) (k : Bytes) : vis now s k = vis now s' k := by
  simp only [vis, getMeta, h1, recOf_congr h2 h3]

theorem lockW_index (s : MState) (k : Bytes) : (lockW s k).index = s.index := by
  unfold lockW; split
  · rfl
  · split <;> rfl
theorem lockW_disk (s : MState) (k : Bytes) : (lockW s k).disk = s.disk := by
  unfold lockW; split
  · rfl
  · split <;> rfl
theorem lockW_pebble (s : MState) (k : Bytes) : (lockW s k).pebble = s.pebble := by
  unfold lockW; split
  · rfl
  · split <;> rfl
theorem lockW_frame (s : MState) (k : Bytes) : frame (lockW s k) = frame s := by
  unfold lockW; split
  · rfl
  · split <;> rfl
theorem lockR_index (s : MState) (k : Bytes) : (lockR s k).index = s.index := by
  unfold lockR; split <;> rfl
theorem lockR_disk (s : MState) (k : Bytes) : (lockR s k).disk = s.disk := by
  unfold lockR; split <;> rfl
theorem lockR_pebble (s : MState) (k : Bytes) : (lockR s k).pebble = s.pebble := by
  unfold lockR; split <;> rfl
theorem lockR_frame (s : MState) (k : Bytes) : frame (lockR s k) = frame s := by
  unfold lockR; split <;> rfl

theorem vis_lockW (now : Int) (s : MState) (k k' : Bytes) : vis now (lockW s k) k' = vis now s k' :=
  vis_congr now (lockW_index s k) (lockW_disk s k) (lockW_pebble s k) k'
theorem vis_lockR (now : Int) (s : MState) (k k' : Bytes) : vis now (lockR s k) k' = vis now s k' :=
  vis_congr now (lockR_index s k) (lockR_disk s k) (lockR_pebble s k) k'

theorem getMeta_lockW (s : MState) (k k' : Bytes) : getMeta (lockW s k) k' = getMeta s k' := by
  unfold getMeta; rw [lockW_index]
theorem getMeta_lockR (s : MState) (k k' : Bytes) : getMeta (lockR s k) k' = getMeta s k' := by
  unfold getMeta; rw [lockR_index]

/-! ### putMeta -/

theorem getMeta_putMeta (s : MState) (k k' : Bytes) (m : Meta) :
    getMeta (putMeta s k m) k' = if k = k' then some m else getMeta s k' := by
  unfold getMeta putMeta
  by_cases h : k = k'
  · subst h; simp only [if_true]; exact get?_set_self k m s.index
  · simp only [h, if_false]; exact get?_set_other k k' m h s.index

theorem sorted_putMeta (s : MState) (k : Bytes) (m : Meta) (hs : AList.Sorted s.index) :
    AList.Sorted (putMeta s k m).index := set_preserves_sorted s.index hs k m

theorem vis_putMeta (now : Int) (s : MState) (k k' : Bytes) (m : Meta) :
    vis now (putMeta s k m) k' =
      if k = k' then (if m.expired now then none else some (recOf s k m)) else vis now s k' := by
  have hr : ∀ x, recOf (putMeta s k m) x = recOf s x := fun x => recOf_congr rfl rfl x
  unfold vis
  rw [getMeta_putMeta, hr]
  by_cases h : k = k'
  · subst h
    simp only [if_true, Option.filter]
    by_cases he : m.expired now = true <;> simp [he]
  · simp only [h, if_false]

/-- the view of a record does not see its access counter or `stored` -/
theorem recOf_count (s : MState) (k : Bytes) (m : Meta) (c : Int) (st : Option Int) :
    recOf s k { m with count := c, stored := st } = recOf s k m := by
  simp only [recOf, loadValue, Meta.isOk]

theorem vis_eq_of_getMeta {now : Int} {s : MState} {k : Bytes} {m : Meta} (h : getMeta s k = some m) :
    vis now s k = if m.expired now then none else some (recOf s k m) := by
  unfold vis; rw [h]; simp only [Option.filter]
  by_cases he : m.expired now = true <;> simp [he]

theorem vis_none_of_getMeta {now : Int} {s : MState} {k : Bytes} (h : getMeta s k = none) :
    vis now s k = none := by
  unfold vis; rw [h]; rfl

/-! ### backend deletions only concern the name they are made for -/

theorem recOf_diskDelete (s : MState) (k k' : Bytes) (e : Int) (h : k ≠ k') :
    recOf (diskDelete s k e) k' = recOf s k' := by
  funext m
  have : diskGet (diskDelete s k e) k' m.exp = diskGet s k' m.exp := by
    simp only [diskGet, diskDelete]
    exact get?_erase_other _ _ (encodeKey_ne k k' e m.exp h) _
  simp only [recOf, loadValue, this]
  rfl

theorem recOf_unpersist (s : MState) (k k' : Bytes) (m : Meta) (h : k ≠ k') :
    recOf (unpersist s k m) k' = recOf s k' := by
  unfold unpersist
  split
  · exact recOf_diskDelete s k k' _ h
  · rfl

theorem unpersist_index (s : MState) (k : Bytes) (m : Meta) : (unpersist s k m).index = s.index := by
  unfold unpersist; split <;> rfl
theorem unpersist_pebble (s : MState) (k : Bytes) (m : Meta) : (unpersist s k m).pebble = s.pebble := by
  unfold unpersist; split <;> rfl
theorem unpersist_frame (s : MState) (k : Bytes) (m : Meta) : frame (unpersist s k m) = frame s := by
  unfold unpersist; split <;> rfl
theorem unpersist_nextId (s : MState) (k : Bytes) (m : Meta) : (unpersist s k m).nextId = s.nextId := by
  unfold unpersist; split <;> rfl

theorem vis_unpersist_other (now : Int) (s : MState) (k k' : Bytes) (m : Meta) (h : k ≠ k') :
    vis now (unpersist s k m) k' = vis now s k' := by
  simp only [vis, getMeta, unpersist_index, recOf_unpersist s k k' m h]

/-! ### delKey -/

theorem delKey_index (s : MState) (k : Bytes) : (delKey s k).index = AList.erase s.index k := by
  unfold delKey; split
  · simp only [unpersist_index]
  · rfl

theorem delKey_frame (s : MState) (k : Bytes) : frame (delKey s k) = frame s := by
  unfold delKey; split
  · rename_i m _
    have := unpersist_frame s k m
    simp only [frame, View.Frame.mk.injEq] at this ⊢
    exact this
  · rfl

theorem sorted_delKey (s : MState) (k : Bytes) (hs : AList.Sorted s.index) :
    AList.Sorted (delKey s k).index := by
  rw [delKey_index]; exact erase_preserves_sorted s.index hs k

theorem getMeta_delKey (s : MState) (k k' : Bytes) (hs : AList.Sorted s.index) :
    getMeta (delKey s k) k' = if k = k' then none else getMeta s k' := by
  unfold getMeta; rw [delKey_index]
  by_cases h : k = k'
  · subst h; simp only [if_true]; exact get?_erase_self k s.index hs
  · simp only [h, if_false]; exact get?_erase_other k k' h s.index

theorem getMeta_delKey_other (s : MState) (k k' : Bytes) (h : k ≠ k') :
    getMeta (delKey s k) k' = getMeta s k' := by
  unfold getMeta; rw [delKey_index]; exact get?_erase_other k k' h s.index

theorem recOf_delKey (s : MState) (k k' : Bytes) (h : k ≠ k') : recOf (delKey s k) k' = recOf s k' := by
  unfold delKey; split
  · rename_i m _
    exact (recOf_congr rfl rfl k').trans (recOf_unpersist s k k' m h)
  · exact recOf_congr rfl rfl k'

theorem vis_delKey (now : Int) (s : MState) (k k' : Bytes) (hs : AList.Sorted s.index) :
    vis now (delKey s k) k' = if k = k' then none else vis now s k' := by
  by_cases h : k = k'
  · subst h
    simp only [if_true]
    exact vis_none_of_getMeta (by rw [getMeta_delKey s k k hs]; simp)
  · simp only [h, if_false, vis, getMeta_delKey_other s k k' h, recOf_delKey s k k' h]

/-! ### newKeyWith -/

theorem state_fresh (st : Nat) :
    let a := if st % 2 = 1 then st else st + 1
    let b := if (a / 2) % 2 = 1 then a else a + 2
    b % 2 = 1 ∧ (b / 2) % 2 = 1 := by
  intro a b
  simp only [a, b]
  split <;> split <;> omega

theorem recOf_fresh (s : MState) (k : Bytes) (base : Meta) (kid oid : Nat) (v : Val) :
    recOf s k (({ base with exp := 0, kid := kid, oid := oid } : Meta).setValue v).markModified =
      { exp := 0, value := some v, load := none, vtype := v.typeCode, ok := true, modified := true,
        kid := kid, oid := oid } := by
  obtain ⟨h1, h2⟩ := state_fresh base.state
  simp only [recOf, Meta.setValue, Meta.markModified, Meta.isOk, Option.isSome_some, if_true]
  simp only [h1, h2, decide_true]

theorem expired_fresh (base : Meta) (kid oid : Nat) (v : Val) (now : Int) :
    (({ base with exp := 0, kid := kid, oid := oid } : Meta).setValue v).markModified.expired now = false := by
  simp [Meta.expired, Meta.setValue, Meta.markModified]

theorem newKeyWith_frame (s : MState) (k : Bytes) (old : Option Meta) (v : Val) :
    frame (newKeyWith s k old v) = { frame s with nextId := s.nextId + 2 } := by
  unfold newKeyWith fresh
  simp only
  split
  · rename_i dead _
    have := unpersist_frame { s with nextId := s.nextId + 1 + 1 } k dead
    simp only [frame, putMeta, View.Frame.mk.injEq] at this ⊢
    exact this
  · rfl

theorem sorted_newKeyWith (s : MState) (k : Bytes) (old : Option Meta) (v : Val)
    (hs : AList.Sorted s.index) : AList.Sorted (newKeyWith s k old v).index := by
  unfold newKeyWith fresh
  simp only
  split
  · apply sorted_putMeta; rw [unpersist_index]; exact hs
  · apply sorted_putMeta; exact hs

theorem vis_newKeyWith (now : Int) (s : MState) (k k' : Bytes) (old : Option Meta) (v : Val) :
    vis now (newKeyWith s k old v) k' = if k = k' then some (freshRec s.nextId v) else vis now s k' := by
  unfold newKeyWith fresh
  simp only
  rw [vis_putMeta]
  by_cases h : k = k'
  · subst h
    simp only [if_true, expired_fresh, Bool.false_eq_true, if_false, recOf_fresh, freshRec]
  · simp only [h, if_false]
    split
    · rename_i dead _
      rw [vis_unpersist_other now _ k k' dead h]
      exact vis_congr now rfl rfl rfl k'
    · exact vis_congr now rfl rfl rfl k'

/-! ### the lookup protocol on the view -/

/-- the record after the counter bump is seen exactly as before -/
theorem recOf_bump (s s1 : MState) (k : Bytes) (m : Meta) (hd : s1.disk = s.disk) (hp : s1.pebble = s.pebble) :
    recOf s1 k { m with count := m.count + 1 } = recOf s k m := by
  rw [recOf_congr hd hp]
  simp only [recOf, loadValue, Meta.isOk]

theorem recOf_loaded (s : MState) (k : Bytes) (m : Meta) (v : Val) (oid : Nat) (hok : m.isOk = true)
    (hc : m.value = none) (hl : loadValue s k m = some (v, oid)) :
    recOf s k (({ m with count := m.count + 1, oid := oid } : Meta).setValue v) = touch (recOf s k m) := by
  have h1 : m.state % 2 = 1 := by simpa [Meta.isOk] using hok
  simp only [touch, recOf, hc, hl, Meta.setValue, Meta.isOk, h1, if_true, Option.isSome_some,
    Option.isSome_none, Bool.false_eq_true, if_false, decide_true]

/-- `readKey` in terms of the view: result, new view, frame, sortedness -/
theorem readKey_spec (s : MState) (now : Int) (k : Bytes) (hs : AList.Sorted s.index) :
    (readKey s now k).2 = rkOk (vis now s k) ∧
    (∀ k', vis now (readKey s now k).1 k' =
      if k = k' then (if rkOk (vis now s k) then (vis now s k).map touch else vis now s k)
      else vis now s k') ∧
    frame (readKey s now k).1 = frame s ∧
    AList.Sorted (readKey s now k).1.index := by
  unfold readKey
  cases hg : getMeta s k with
  | none =>
    simp only [vis_none_of_getMeta hg, rkOk]
    refine ⟨trivial, ?_, trivial, hs⟩
    intro k'; split
    · rename_i h; subst h; simp [vis_none_of_getMeta hg]
    · rfl
  | some m0 =>
    simp only
    have hv := vis_eq_of_getMeta (now := now) hg
    have hs2 : AList.Sorted (putMeta (lockR s k) k { m0 with count := m0.count + 1 }).index :=
      sorted_putMeta _ _ _ (by rw [lockR_index]; exact hs)
    have hb : recOf (lockR s k) k { m0 with count := m0.count + 1 } = recOf s k m0 :=
      recOf_bump s _ k m0 (lockR_disk s k) (lockR_pebble s k)
    have hexp : Meta.expired { m0 with count := m0.count + 1 } now = m0.expired now := rfl
    have hok : Meta.isOk { m0 with count := m0.count + 1 } = m0.isOk := rfl
    have hother : ∀ k', k ≠ k' →
        vis now (putMeta (lockR s k) k { m0 with count := m0.count + 1 }) k' = vis now s k' := by
      intro k' h; rw [vis_putMeta, if_neg h, vis_lockR]
    have hself : vis now (putMeta (lockR s k) k { m0 with count := m0.count + 1 }) k = vis now s k := by
      rw [vis_putMeta, if_pos rfl, hexp, hb, hv]
    rw [hok]
    by_cases h1 : m0.isOk = true
    · simp only [h1, if_true, hexp]
      by_cases h2 : m0.expired now = true
      · simp only [h2, if_true]
        rw [hv]; simp only [h2, if_true, rkOk]
        refine ⟨trivial, ?_, ?_, hs2⟩
        · intro k'; by_cases h : k = k'
          · subst h; simp only [if_true, Bool.false_eq_true, if_false]; rw [hself, hv]; simp [h2]
          · simp only [h, if_false]; exact hother k' h
        · exact lockR_frame s k
      · simp only [h2, Bool.false_eq_true, if_false]
        have hv' : vis now s k = some (recOf s k m0) := by rw [hv]; simp [h2]
        by_cases h3 : m0.value.isSome = true
        · simp only [h3, if_true]
          have hr : rkOk (vis now s k) = true := by
            rw [hv']; simp [rkOk, recOf, h1, h3]
          have ht : touch (recOf s k m0) = recOf s k m0 := by
            obtain ⟨v, hv3⟩ := Option.isSome_iff_exists.mp h3
            simp [touch, recOf, hv3]
          refine ⟨hr.symm, ?_, lockR_frame s k, hs2⟩
          intro k'; by_cases h : k = k'
          · subst h; simp only [if_true, hr]; rw [hself, hv']; simp [ht]
          · simp only [h, if_false]; exact hother k' h
        · simp only [h3, Bool.false_eq_true, if_false]
          have hc : m0.value = none := by
            cases hx : m0.value with
            | none => rfl
            | some _ => rw [hx] at h3; simp at h3
          have hld : loadValue (putMeta (lockR s k) k { m0 with count := m0.count + 1 }) k
              { m0 with count := m0.count + 1 } = loadValue s k m0 := by
            simp only [loadValue, diskGet, putMeta, lockR_disk, lockR_pebble]
          rw [hld]
          cases hl : loadValue s k m0 with
          | none =>
            simp only
            have hr : rkOk (vis now s k) = false := by
              rw [hv']; simp [rkOk, recOf, hc, hl]
            refine ⟨hr.symm, ?_, lockR_frame s k, hs2⟩
            intro k'; by_cases h : k = k'
            · subst h; simp only [if_true, hr, Bool.false_eq_true, if_false]; exact hself
            · simp only [h, if_false]; exact hother k' h
          | some p =>
            obtain ⟨v, oid⟩ := p
            simp only
            have hr : rkOk (vis now s k) = true := by
              rw [hv']; simp [rkOk, recOf, h1, hc, hl]
            refine ⟨hr.symm, ?_, lockR_frame s k, sorted_putMeta _ _ _ hs2⟩
            intro k'; by_cases h : k = k'
            · subst h
              simp only [if_true, hr]
              rw [vis_putMeta, if_pos rfl, hv']
              have he : Meta.expired (({ m0 with count := m0.count + 1, oid := oid } : Meta).setValue v) now
                  = m0.expired now := rfl
              rw [he]
              simp only [h2, Bool.false_eq_true, if_false, Option.map_some, Option.some.injEq]
              rw [recOf_congr (s := putMeta (lockR s k) k { m0 with count := m0.count + 1 }) (s' := s)
                (lockR_disk s k) (lockR_pebble s k)]
              exact recOf_loaded s k m0 v oid h1 hc hl
            · simp only [h, if_false]
              rw [vis_putMeta, if_neg h]; exact hother k' h
    · simp only [h1, Bool.false_eq_true, if_false]
      have hr : rkOk (vis now s k) = false := by
        rw [hv]; split
        · rfl
        · simp [rkOk, recOf, h1]
      refine ⟨hr.symm, ?_, lockR_frame s k, hs2⟩
      intro k'; by_cases h : k = k'
      · subst h; simp only [if_true, hr, Bool.false_eq_true, if_false]; exact hself
      · simp only [h, if_false]; exact hother k' h

/-- the constructor branch of `writeKey`, on a state `s2` that looks like `s` -/
theorem mk_branch (now : Int) (s s2 : MState) (k : Bytes) (mk : Option Val) (old : Option Meta)
    (hother : ∀ k', k ≠ k' → vis now s2 k' = vis now s k') (hself : vis now s2 k = vis now s k)
    (hframe : frame s2 = frame s) (hs2 : AList.Sorted s2.index) :
    let r : MState × Bool := match mk with
      | some v => (newKeyWith s2 k old v, true)
      | none => (s2, false)
    r.2 = mk.isSome ∧
    (∀ k', vis now r.1 k' =
      if k = k' then (match mk with | some v => some (freshRec s.nextId v) | none => vis now s k)
      else vis now s k') ∧
    frame r.1 = (match mk with | some _ => { frame s with nextId := s.nextId + 2 } | none => frame s) ∧
    AList.Sorted r.1.index := by
  have hn : s2.nextId = s.nextId := congrArg View.Frame.nextId hframe
  cases mk with
  | none =>
    refine ⟨rfl, ?_, hframe, hs2⟩
    intro k'; by_cases h : k = k'
    · subst h; simp only [if_true]; exact hself
    · simp only [h, if_false]; exact hother k' h
  | some v =>
    refine ⟨rfl, ?_, ?_, sorted_newKeyWith s2 k old v hs2⟩
    · intro k'
      show vis now (newKeyWith s2 k old v) k' = _
      rw [vis_newKeyWith, hn]
      by_cases h : k = k'
      · simp only [h, if_true]
      · simp only [h, if_false]; exact hother k' h
    · show frame (newKeyWith s2 k old v) = _
      rw [newKeyWith_frame, hframe, hn]

/-- `writeKey` in terms of the view -/
theorem writeKey_spec (s : MState) (now : Int) (k : Bytes) (mk : Option Val) (hs : AList.Sorted s.index) :
    (writeKey s now k mk).2 = (rkOk (vis now s k) || mk.isSome) ∧
    (∀ k', vis now (writeKey s now k mk).1 k' =
      if k = k' then
        (if rkOk (vis now s k) then (vis now s k).map touch
         else match mk with | some v => some (freshRec s.nextId v) | none => vis now s k)
      else vis now s k') ∧
    frame (writeKey s now k mk).1 =
      (if rkOk (vis now s k) then frame s
       else match mk with | some _ => { frame s with nextId := s.nextId + 2 } | none => frame s) ∧
    AList.Sorted (writeKey s now k mk).1.index := by
  unfold writeKey
  cases hg : getMeta s k with
  | none =>
    have hv := vis_none_of_getMeta (now := now) hg
    have hr : rkOk (vis now s k) = false := by rw [hv]; rfl
    simp only [hr, Bool.false_or, Bool.false_eq_true, if_false]
    exact mk_branch now s s k mk none (fun _ _ => rfl) rfl rfl hs
  | some m0 =>
    simp only
    have hv := vis_eq_of_getMeta (now := now) hg
    have hs2 : AList.Sorted (putMeta (lockW s k) k { m0 with count := m0.count + 1 }).index :=
      sorted_putMeta _ _ _ (by rw [lockW_index]; exact hs)
    have hb : recOf (lockW s k) k { m0 with count := m0.count + 1 } = recOf s k m0 :=
      recOf_bump s _ k m0 (lockW_disk s k) (lockW_pebble s k)
    have hexp : Meta.expired { m0 with count := m0.count + 1 } now = m0.expired now := rfl
    have hok : Meta.isOk { m0 with count := m0.count + 1 } = m0.isOk := rfl
    have hother : ∀ k', k ≠ k' →
        vis now (putMeta (lockW s k) k { m0 with count := m0.count + 1 }) k' = vis now s k' := by
      intro k' h; rw [vis_putMeta, if_neg h, vis_lockW]
    have hself : vis now (putMeta (lockW s k) k { m0 with count := m0.count + 1 }) k = vis now s k := by
      rw [vis_putMeta, if_pos rfl, hexp, hb, hv]
    have hfr : frame (putMeta (lockW s k) k { m0 with count := m0.count + 1 }) = frame s :=
      lockW_frame s k
    have hmk := mk_branch now s _ k mk (some { m0 with count := m0.count + 1 }) hother hself hfr hs2
    rw [hok]
    by_cases h1 : m0.isOk = true
    · simp only [h1, if_true, hexp]
      by_cases h2 : m0.expired now = true
      · simp only [h2, if_true]
        have hr : rkOk (vis now s k) = false := by rw [hv]; simp [h2, rkOk]
        simp only [hr, Bool.false_or, Bool.false_eq_true, if_false]
        exact hmk
      · simp only [h2, Bool.false_eq_true, if_false]
        have hv' : vis now s k = some (recOf s k m0) := by rw [hv]; simp [h2]
        by_cases h3 : m0.value.isSome = true
        · simp only [h3, if_true]
          have hr : rkOk (vis now s k) = true := by
            rw [hv']; simp [rkOk, recOf, h1, h3]
          have ht : touch (recOf s k m0) = recOf s k m0 := by
            obtain ⟨v, hv3⟩ := Option.isSome_iff_exists.mp h3
            simp [touch, recOf, hv3]
          simp only [hr, Bool.true_or, if_true]
          refine ⟨trivial, ?_, hfr, hs2⟩
          intro k'; by_cases h : k = k'
          · subst h; simp only [if_true]; rw [hself, hv']; simp [ht]
          · simp only [h, if_false]; exact hother k' h
        · simp only [h3, Bool.false_eq_true, if_false]
          have hc : m0.value = none := by
            cases hx : m0.value with
            | none => rfl
            | some _ => rw [hx] at h3; simp at h3
          have hld : loadValue (putMeta (lockW s k) k { m0 with count := m0.count + 1 }) k
              { m0 with count := m0.count + 1 } = loadValue s k m0 := by
            simp only [loadValue, diskGet, putMeta, lockW_disk, lockW_pebble]
          rw [hld]
          cases hl : loadValue s k m0 with
          | none =>
            simp only
            have hr : rkOk (vis now s k) = false := by
              rw [hv']; simp [rkOk, recOf, hc, hl]
            simp only [hr, Bool.false_or, Bool.false_eq_true, if_false]
            exact hmk
          | some p =>
            obtain ⟨v, oid⟩ := p
            simp only
            have hr : rkOk (vis now s k) = true := by
              rw [hv']; simp [rkOk, recOf, h1, hc, hl]
            simp only [hr, Bool.true_or, if_true]
            refine ⟨trivial, ?_, hfr, sorted_putMeta _ _ _ hs2⟩
            intro k'; by_cases h : k = k'
            · subst h
              simp only [if_true]
              rw [vis_putMeta, if_pos rfl, hv']
              have he : Meta.expired (({ m0 with count := m0.count + 1, oid := oid } : Meta).setValue v) now
                  = m0.expired now := rfl
              rw [he]
              simp only [h2, Bool.false_eq_true, if_false, Option.map_some, Option.some.injEq]
              rw [recOf_congr (s := putMeta (lockW s k) k { m0 with count := m0.count + 1 }) (s' := s)
                (lockW_disk s k) (lockW_pebble s k)]
              exact recOf_loaded s k m0 v oid h1 hc hl
            · simp only [h, if_false]
              rw [vis_putMeta, if_neg h]; exact hother k' h
    · simp only [h1, Bool.false_eq_true, if_false]
      have hr : rkOk (vis now s k) = false := by
        rw [hv]; split
        · rfl
        · simp [rkOk, recOf, h1]
      simp only [hr, Bool.false_or, Bool.false_eq_true, if_false]
      exact hmk

/-! ### setVal -/

/-- what an in-place mutation of the value object `oid` does to the view of a record -/
def sharedRec (oid : Nat) (v : Val) (r : View.Rec) : View.Rec :=
  { r with value := if r.oid = oid ∧ r.value.isSome then some v else r.value,
           load := r.load.map fun p => (if p.2 = oid then v else p.1, p.2) }

def setValRec (pebble : Bool) (oid : Nat) (v : Val) (self : Bool) (r : View.Rec) : View.Rec :=
  let r1 := if self then { r with value := some v, load := none } else r
  if pebble ∨ oid = 0 then r1 else sharedRec oid v r1

def shareM (oid : Nat) (v : Val) (m' : Meta) : Meta :=
  if m'.oid = oid ∧ m'.value.isSome then { m' with value := some v } else m'
def shareE (oid : Nat) (v : Val) (e : DiskEntry) : DiskEntry :=
  if e.oid = oid then { e with val := v } else e

theorem setVal_eq (s : MState) (k : Bytes) (v : Val) (m : Meta) (hm : getMeta s k = some m) :
    Api.setVal s k v =
      if s.pebble ∨ m.oid = 0 then putMeta s k { m with value := some v } else
      { putMeta s k { m with value := some v } with
        index := (putMeta s k { m with value := some v }).index.map fun p => (p.1, shareM m.oid v p.2),
        disk := s.disk.map fun p => (p.1, shareE m.oid v p.2) } := by
  unfold Api.setVal
  rw [hm]
  simp only
  have hp : (putMeta s k { m with value := some v }).pebble = s.pebble := rfl
  rw [hp]
  split
  · rfl
  · have hf : (fun (x : Bytes × Meta) =>
        match x with
        | (k, m') => if m'.oid = m.oid ∧ m'.value.isSome = true then (k, { m' with value := some v }) else (k, m'))
        = fun p => (p.1, shareM m.oid v p.2) := by
      funext x; obtain ⟨a, b⟩ := x; simp only [shareM]; split <;> rfl
    have hg : (fun (x : Bytes × DiskEntry) =>
        match x with
        | (k, e) => if e.oid = m.oid then (k, { e with val := v }) else (k, e))
        = fun p => (p.1, shareE m.oid v p.2) := by
      funext x; obtain ⟨a, b⟩ := x; simp only [shareE]; split <;> rfl
    rw [hf, hg]
    rfl

theorem recOf_shared (s2 : MState) (idx : AList Meta) (oid : Nat) (v : Val) (k' : Bytes) (m' : Meta)
    (hp : s2.pebble = false) :
    recOf { s2 with index := idx, disk := s2.disk.map fun p => (p.1, shareE oid v p.2) } k' (shareM oid v m')
      = sharedRec oid v (recOf s2 k' m') := by
  have hd : ∀ e, diskGet { s2 with index := idx, disk := s2.disk.map fun p => (p.1, shareE oid v p.2) } k' e
      = (diskGet s2 k' e).map (shareE oid v) := by
    intro e
    simp only [diskGet]
    exact get?_mapv (fun _ e => shareE oid v e) _ s2.disk
  have hexp : (shareM oid v m').exp = m'.exp := by unfold shareM; split <;> rfl
  have hsome : (shareM oid v m').value.isSome = m'.value.isSome := by
    unfold shareM; split
    · rename_i h; simp [h.2]
    · rfl
  have h1 : (shareM oid v m').vtype = m'.vtype := by unfold shareM; split <;> rfl
  have h2 : (shareM oid v m').isOk = m'.isOk := by unfold shareM; split <;> rfl
  have h3 : (shareM oid v m').state = m'.state := by unfold shareM; split <;> rfl
  have h4 : (shareM oid v m').kid = m'.kid := by unfold shareM; split <;> rfl
  have h5 : (shareM oid v m').oid = m'.oid := by unfold shareM; split <;> rfl
  have h6 : (shareM oid v m').value = if m'.oid = oid ∧ m'.value.isSome = true then some v else m'.value := by
    unfold shareM; split <;> rfl
  have hl : loadValue { s2 with index := idx, disk := s2.disk.map fun p => (p.1, shareE oid v p.2) } k'
      (shareM oid v m') = (loadValue s2 k' m').map fun p => (if p.2 = oid then v else p.1, p.2) := by
    unfold loadValue
    rw [hexp, hd]
    cases hdg : diskGet s2 k' m'.exp with
    | none => rfl
    | some e =>
      simp only [Option.map_some, hp, Bool.false_eq_true, if_false, shareE]
      split <;> simp_all
  simp only [recOf, sharedRec, hl, h1, h2, h3, h4, h5, h6]
  congr 1
  cases hw : m'.value with
  | none => simp
  | some w => simp only [Option.isSome_some, and_true]; split <;> simp

theorem vis_setVal (now : Int) (s : MState) (k k' : Bytes) (v : Val) (m : Meta) (hm : getMeta s k = some m) :
    vis now (Api.setVal s k v) k' = (vis now s k').map (setValRec s.pebble m.oid v (k = k')) := by
  have h2 : vis now (putMeta s k { m with value := some v }) k' =
      (vis now s k').map (fun r => if k = k' then { r with value := some v, load := none } else r) := by
    rw [vis_putMeta]
    by_cases h : k = k'
    · subst h
      simp only [if_true]
      rw [vis_eq_of_getMeta hm]
      have he : Meta.expired { m with value := some v } now = m.expired now := rfl
      rw [he]
      split
      · rfl
      · simp [recOf, loadValue, Meta.isOk]
    · simp [h]
  rw [setVal_eq s k v m hm]
  by_cases hc : s.pebble = true ∨ m.oid = 0
  · rw [if_pos hc, h2]
    congr 1; funext r
    simp only [setValRec, hc, if_true]
    by_cases h : k = k' <;> simp [h]
  · rw [if_neg hc]
    have hp : (putMeta s k { m with value := some v }).pebble = false := by
      show s.pebble = false
      cases hpp : s.pebble with
      | false => rfl
      | true => exact absurd (Or.inl hpp) hc
    have h3 : vis now { putMeta s k { m with value := some v } with
        index := (putMeta s k { m with value := some v }).index.map fun p => (p.1, shareM m.oid v p.2),
        disk := s.disk.map fun p => (p.1, shareE m.oid v p.2) } k'
        = (vis now (putMeta s k { m with value := some v }) k').map (sharedRec m.oid v) := by
      simp only [vis, getMeta]
      rw [get?_mapv (fun _ x => shareM m.oid v x) k' _]
      cases hgm : AList.get? (putMeta s k { m with value := some v }).index k' with
      | none => rfl
      | some m' =>
        have he : (shareM m.oid v m').expired now = m'.expired now := by
          unfold shareM; split <;> rfl
        simp only [Option.map_some, Option.filter, he]
        split
        · simp only [Option.map_some, Option.some.injEq]
          exact recOf_shared (putMeta s k { m with value := some v }) _ m.oid v k' m' hp
        · rfl
    rw [h3, h2, Option.map_map]
    congr 1; funext r
    simp only [setValRec, hc, if_false, Function.comp]
    by_cases h : k = k' <;> simp [h]

theorem setVal_frame (s : MState) (k : Bytes) (v : Val) : frame (Api.setVal s k v) = frame s := by
  unfold Api.setVal
  split
  · rfl
  · simp only; split <;> rfl

theorem sorted_setVal (s : MState) (k : Bytes) (v : Val) (hs : AList.Sorted s.index) :
    AList.Sorted (Api.setVal s k v).index := by
  cases hm : getMeta s k with
  | none => unfold Api.setVal; rw [hm]; exact hs
  | some m =>
    rw [setVal_eq s k v m hm]
    have h2 := sorted_putMeta s k { m with value := some v } hs
    split
    · exact h2
    · exact sorted_of_keys _ _ (by simp [List.map_map]) h2

theorem getMeta_setVal_exp (s : MState) (k k' : Bytes) (v : Val) :
    (getMeta (Api.setVal s k v) k').map (·.exp) = (getMeta s k').map (·.exp) := by
  cases hm : getMeta s k with
  | none => unfold Api.setVal; rw [hm]
  | some m =>
    have h2 : (getMeta (putMeta s k { m with value := some v }) k').map (·.exp) = (getMeta s k').map (·.exp) := by
      rw [getMeta_putMeta]
      by_cases h : k = k'
      · subst h; simp [hm]
      · simp [h]
    rw [setVal_eq s k v m hm]
    split
    · exact h2
    · simp only [getMeta] at h2 ⊢
      rw [get?_mapv (fun _ x => shareM m.oid v x) k' _, Option.map_map, ← h2]
      congr 1; funext x
      simp only [Function.comp, shareM]; split <;> rfl

/-! ### setExp, signal, emit, commit -/

theorem setExp_frame (s : MState) (k : Bytes) (e : Int) : frame (Api.setExp s k e) = frame s := by
  unfold Api.setExp; split <;> rfl

theorem sorted_setExp (s : MState) (k : Bytes) (e : Int) (hs : AList.Sorted s.index) :
    AList.Sorted (Api.setExp s k e).index := by
  unfold Api.setExp; split
  · exact hs
  · exact sorted_putMeta _ _ _ hs

theorem getMeta_setExp (s : MState) (k k' : Bytes) (e : Int) :
    getMeta (Api.setExp s k e) k' =
      if k = k' then (getMeta s k).map (fun m => { m with exp := e }) else getMeta s k' := by
  unfold Api.setExp
  cases hm : getMeta s k with
  | none =>
    simp only [Option.map_none]
    split
    · rename_i h; subst h; exact hm
    · rfl
  | some m => simp only [getMeta_putMeta, Option.map_some]

/-- changing the deadline of a visible *hot* record -/
theorem vis_setExp (now : Int) (s : MState) (k k' : Bytes) (e : Int) (r : View.Rec)
    (hv : vis now s k = some r) (hot : r.value.isSome = true) :
    vis now (Api.setExp s k e) k' =
      if k = k' then (if e ≠ 0 ∧ e ≤ now then none else some { r with exp := e }) else vis now s k' := by
  unfold Api.setExp
  cases hm : getMeta s k with
  | none => rw [vis_none_of_getMeta hm] at hv; cases hv
  | some m =>
    simp only
    rw [vis_putMeta]
    by_cases h : k = k'
    · subst h
      simp only [if_true]
      rw [vis_eq_of_getMeta hm] at hv
      have he : Meta.expired { m with exp := e } now = (e != 0 && decide (e ≤ now)) := rfl
      rw [he]
      split at hv
      · cases hv
      · simp only [Option.some.injEq] at hv
        subst hv
        simp only [recOf] at hot
        by_cases hd : e ≠ 0 ∧ e ≤ now
        · simp [hd]
        · rw [if_neg hd]
          have : (e != 0 && decide (e ≤ now)) = false := by
            by_cases h0 : e = 0
            · simp [h0]
            · have : ¬ e ≤ now := fun hle => hd ⟨h0, hle⟩
              simp [this]
          simp only [this, Bool.false_eq_true, if_false, Option.some.injEq]
          simp only [recOf, hot, if_true, Meta.isOk]
    · simp only [h, if_false]

theorem getMeta_modMeta (s : MState) (k k' : Bytes) (f : Meta → Meta) :
    getMeta (modMeta s k f) k' = if k = k' then (getMeta s k).map f else getMeta s k' := by
  unfold modMeta
  cases hm : getMeta s k with
  | none =>
    simp only [Option.map_none]
    split
    · rename_i h; subst h; exact hm
    · rfl
  | some m => simp only [getMeta_putMeta, Option.map_some]

theorem sorted_modMeta (s : MState) (k : Bytes) (f : Meta → Meta) (hs : AList.Sorted s.index) :
    AList.Sorted (modMeta s k f).index := by
  unfold modMeta; split
  · exact sorted_putMeta _ _ _ hs
  · exact hs

theorem modMeta_frame (s : MState) (k : Bytes) (f : Meta → Meta) : frame (modMeta s k f) = frame s := by
  unfold modMeta; split <;> rfl

/-- a record update that only touches fields the view sees through `g` -/
theorem vis_modMeta (now : Int) (s : MState) (k k' : Bytes) (f : Meta → Meta) (g : View.Rec → View.Rec)
    (hexp : ∀ m, (f m).expired now = m.expired now)
    (hrec : ∀ m, recOf s k (f m) = g (recOf s k m)) :
    vis now (modMeta s k f) k' = if k = k' then (vis now s k).map g else vis now s k' := by
  unfold modMeta
  cases hm : getMeta s k with
  | none =>
    simp only
    split
    · rename_i h; subst h; rw [vis_none_of_getMeta hm]; rfl
    · rfl
  | some m =>
    simp only
    rw [vis_putMeta]
    by_cases h : k = k'
    · subst h
      simp only [if_true, hexp, hrec, vis_eq_of_getMeta hm]
      split <;> rfl
    · simp only [h, if_false]

def markModRec (r : View.Rec) : View.Rec := { r with modified := true }

theorem recOf_markModified (s : MState) (k : Bytes) (m : Meta) :
    recOf s k m.markModified = markModRec (recOf s k m) := by
  simp only [recOf, markModRec, Meta.markModified, Meta.isOk, loadValue]
  congr 1
  · split <;> simp <;> omega
  · split
    · rename_i h; simp [h]
    · simp; omega

theorem vis_signal (now : Int) (s : MState) (k k' : Bytes) :
    vis now (signal s k) k' = if k = k' then (vis now s k).map markModRec else vis now s k' := by
  have h : vis now (signal s k) k' = vis now (modMeta s k Meta.markModified) k' :=
    vis_congr now rfl rfl rfl k'
  rw [h]
  exact vis_modMeta now s k k' _ _ (fun _ => rfl) (recOf_markModified s k)

theorem signal_frame (s : MState) (k : Bytes) :
    frame (signal s k) = { frame s with signalled := k :: s.signalled } := by
  have := modMeta_frame s k Meta.markModified
  simp only [frame, View.Frame.mk.injEq] at this ⊢
  simp only [signal]
  obtain ⟨a, b, c, d, e, f, g, h⟩ := this
  exact ⟨a, b, c, d, e, f, trivial, h⟩

theorem sorted_signal (s : MState) (k : Bytes) (hs : AList.Sorted s.index) :
    AList.Sorted (signal s k).index := sorted_modMeta s k _ hs

theorem getMeta_signal (s : MState) (k k' : Bytes) :
    getMeta (signal s k) k' = if k = k' then (getMeta s k).map Meta.markModified else getMeta s k' :=
  getMeta_modMeta s k k' _

theorem vis_emit (now : Int) (s : MState) (op : FeedOp) (k : Bytes) : vis now (emit s op) k = vis now s k := by
  unfold emit; split
  · exact vis_congr now rfl rfl rfl k
  · rfl

theorem emit_frame (s : MState) (op : FeedOp) :
    frame (emit s op) = if s.listeners then { frame s with feed := op :: s.feed } else frame s := by
  unfold emit; split <;> rfl

theorem emit_index (s : MState) (op : FeedOp) : (emit s op).index = s.index := by
  unfold emit; split <;> rfl

theorem getMeta_emit (s : MState) (op : FeedOp) (k : Bytes) : getMeta (emit s op) k = getMeta s k := by
  unfold getMeta; rw [emit_index]

theorem vis_commit (now : Int) (s : MState) (k : Bytes) : vis now (Api.commit s) k = vis now s k :=
  vis_congr now rfl rfl rfl k

end NodisVerif.Proofs.C10
