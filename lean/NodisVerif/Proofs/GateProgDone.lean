import NodisVerif.Proofs.GateProgRun
/-
  What the connection looks like when a command is over: after EXEC / DISCARD the state is MultiNone and the queue is
  empty on every path (`doneOk`), a queued command takes no keyspace step, the epilogue reports nothing but `gout`.
-/
namespace NodisVerif.GateProg
open NodisVerif.Gate (G T GMode Ev GState)

def isExecOrDiscard : Cmd → Bool
  | .exec | .discard => true
  | _ => false

/-- from the reset of EXEC / DISCARD until the next command is read: State == MultiNone, Commands empty -/
def doneOk (l : Loc) (cs : ConnSt) : Bool :=
  match l.pc with
  | .u1 | .u2 | .u3 =>
    if l.after == .bodyEnd then (!isExecOrDiscard l.cmd || l.ctx == .execLoop) else (cs.none? && cs.queue.isEmpty)
  | .dOut | .dUnlock | .dRec | .flush | .idle => !isExecOrDiscard l.cmd || (cs.none? && cs.queue.isEmpty)
  | .ec | .w1 | .w2 | .w3 => !isExecOrDiscard l.cmd
  | .b0 | .b1 | .b2 | .g1 | .g2 | .g3 | .b3 | .bret | .p0 | .p1 | .p2 | .p3 | .p4 | .p5 =>
    !isExecOrDiscard l.cmd || l.ctx == .execLoop
  | _ => true

theorem conn_markAll (s : Shared) (k : Key) (cl : List Tid) (t : Tid) :
    sameButWatch (({ s with conns := markAll s.conns k cl } : Shared).conn t) (s.conn t) :=
  markAll_conn s.conns k cl t

set_option hygiene false in
macro "done_simp" : tactic => `(tactic|
  simp_all [doneOk, isExecOrDiscard, ok, frame, bodyOk, cmdGate, gateIs, epilogue, startBody, afterTx, isBpop, qcmdOf,
    ConnSt.reset, ConnSt.runsNow, ConnSt.none?])

set_option hygiene false in
macro "done_tac" : tactic => `(tactic| (
  simp only [tstep, hpc] at hs
  repeat' split at hs
  all_goals (first | (cases hs; done) | skip)
  all_goals (try (injection hs with hs; injection hs with h1 h2; injection h2 with h2 h3; subst h1 h2))
  all_goals (simp only [ok, doneOk, hpc] at h hd)
  all_goals (first
    | (done_simp; done)
    | (cases hc : l.cmd <;> done_simp; done)
    | (cases hx : l.ctx <;> done_simp; done)
    | (cases hh : l.held <;> done_simp; done)
    | (done_simp <;> grind)
    | (cases hx : l.ctx <;> cases hc : l.cmd <;> cases hh : l.held <;> done_simp <;> grind))))

theorem done_idle {s : Shared} {t : Tid} {l : Loc} {ch : Choice} {s' l' evs} (hpc : l.pc = .idle)
    (h : ok l (s.conn t).commit = true) (hd : doneOk l (s.conn t) = true)
    (hs : tstep s t l ch = some (s', l', evs)) : doneOk l' (s'.conn t) = true := by
  done_tac

theorem done_sw {s : Shared} {t : Tid} {l : Loc} {ch : Choice} {s' l' evs} (hpc : l.pc = .sw)
    (h : ok l (s.conn t).commit = true) (hd : doneOk l (s.conn t) = true)
    (hs : tstep s t l ch = some (s', l', evs)) : doneOk l' (s'.conn t) = true := by
  done_tac

theorem done_xIn {s : Shared} {t : Tid} {l : Loc} {ch : Choice} {s' l' evs} (hpc : l.pc = .xIn)
    (h : ok l (s.conn t).commit = true) (hd : doneOk l (s.conn t) = true)
    (hs : tstep s t l ch = some (s', l', evs)) : doneOk l' (s'.conn t) = true := by
  done_tac

theorem done_sIn {s : Shared} {t : Tid} {l : Loc} {ch : Choice} {s' l' evs} (hpc : l.pc = .sIn)
    (h : ok l (s.conn t).commit = true) (hd : doneOk l (s.conn t) = true)
    (hs : tstep s t l ch = some (s', l', evs)) : doneOk l' (s'.conn t) = true := by
  done_tac

theorem done_bServe {s : Shared} {t : Tid} {l : Loc} {ch : Choice} {s' l' evs} (hpc : l.pc = .bServe)
    (h : ok l (s.conn t).commit = true) (hd : doneOk l (s.conn t) = true)
    (hs : tstep s t l ch = some (s', l', evs)) : doneOk l' (s'.conn t) = true := by
  done_tac

theorem done_call {s : Shared} {t : Tid} {l : Loc} {ch : Choice} {s' l' evs} (hpc : l.pc = .call)
    (h : ok l (s.conn t).commit = true) (hd : doneOk l (s.conn t) = true)
    (hs : tstep s t l ch = some (s', l', evs)) : doneOk l' (s'.conn t) = true := by
  done_tac

theorem done_ec {s : Shared} {t : Tid} {l : Loc} {ch : Choice} {s' l' evs} (hpc : l.pc = .ec)
    (h : ok l (s.conn t).commit = true) (hd : doneOk l (s.conn t) = true)
    (hs : tstep s t l ch = some (s', l', evs)) : doneOk l' (s'.conn t) = true := by
  done_tac

theorem done_b0 {s : Shared} {t : Tid} {l : Loc} {ch : Choice} {s' l' evs} (hpc : l.pc = .b0)
    (h : ok l (s.conn t).commit = true) (hd : doneOk l (s.conn t) = true)
    (hs : tstep s t l ch = some (s', l', evs)) : doneOk l' (s'.conn t) = true := by
  done_tac

theorem done_b1 {s : Shared} {t : Tid} {l : Loc} {ch : Choice} {s' l' evs} (hpc : l.pc = .b1)
    (h : ok l (s.conn t).commit = true) (hd : doneOk l (s.conn t) = true)
    (hs : tstep s t l ch = some (s', l', evs)) : doneOk l' (s'.conn t) = true := by
  done_tac

theorem done_b2 {s : Shared} {t : Tid} {l : Loc} {ch : Choice} {s' l' evs} (hpc : l.pc = .b2)
    (h : ok l (s.conn t).commit = true) (hd : doneOk l (s.conn t) = true)
    (hs : tstep s t l ch = some (s', l', evs)) : doneOk l' (s'.conn t) = true := by
  done_tac

theorem done_g1 {s : Shared} {t : Tid} {l : Loc} {ch : Choice} {s' l' evs} (hpc : l.pc = .g1)
    (h : ok l (s.conn t).commit = true) (hd : doneOk l (s.conn t) = true)
    (hs : tstep s t l ch = some (s', l', evs)) : doneOk l' (s'.conn t) = true := by
  done_tac

theorem done_g3 {s : Shared} {t : Tid} {l : Loc} {ch : Choice} {s' l' evs} (hpc : l.pc = .g3)
    (h : ok l (s.conn t).commit = true) (hd : doneOk l (s.conn t) = true)
    (hs : tstep s t l ch = some (s', l', evs)) : doneOk l' (s'.conn t) = true := by
  done_tac

theorem done_b3 {s : Shared} {t : Tid} {l : Loc} {ch : Choice} {s' l' evs} (hpc : l.pc = .b3)
    (h : ok l (s.conn t).commit = true) (hd : doneOk l (s.conn t) = true)
    (hs : tstep s t l ch = some (s', l', evs)) : doneOk l' (s'.conn t) = true := by
  done_tac

theorem done_bret {s : Shared} {t : Tid} {l : Loc} {ch : Choice} {s' l' evs} (hpc : l.pc = .bret)
    (h : ok l (s.conn t).commit = true) (hd : doneOk l (s.conn t) = true)
    (hs : tstep s t l ch = some (s', l', evs)) : doneOk l' (s'.conn t) = true := by
  done_tac

theorem done_p0 {s : Shared} {t : Tid} {l : Loc} {ch : Choice} {s' l' evs} (hpc : l.pc = .p0)
    (h : ok l (s.conn t).commit = true) (hd : doneOk l (s.conn t) = true)
    (hs : tstep s t l ch = some (s', l', evs)) : doneOk l' (s'.conn t) = true := by
  done_tac

theorem done_p1 {s : Shared} {t : Tid} {l : Loc} {ch : Choice} {s' l' evs} (hpc : l.pc = .p1)
    (h : ok l (s.conn t).commit = true) (hd : doneOk l (s.conn t) = true)
    (hs : tstep s t l ch = some (s', l', evs)) : doneOk l' (s'.conn t) = true := by
  done_tac

theorem done_p2 {s : Shared} {t : Tid} {l : Loc} {ch : Choice} {s' l' evs} (hpc : l.pc = .p2)
    (h : ok l (s.conn t).commit = true) (hd : doneOk l (s.conn t) = true)
    (hs : tstep s t l ch = some (s', l', evs)) : doneOk l' (s'.conn t) = true := by
  done_tac

theorem done_p3 {s : Shared} {t : Tid} {l : Loc} {ch : Choice} {s' l' evs} (hpc : l.pc = .p3)
    (h : ok l (s.conn t).commit = true) (hd : doneOk l (s.conn t) = true)
    (hs : tstep s t l ch = some (s', l', evs)) : doneOk l' (s'.conn t) = true := by
  done_tac

theorem done_p4 {s : Shared} {t : Tid} {l : Loc} {ch : Choice} {s' l' evs} (hpc : l.pc = .p4)
    (h : ok l (s.conn t).commit = true) (hd : doneOk l (s.conn t) = true)
    (hs : tstep s t l ch = some (s', l', evs)) : doneOk l' (s'.conn t) = true := by
  done_tac

theorem done_p5 {s : Shared} {t : Tid} {l : Loc} {ch : Choice} {s' l' evs} (hpc : l.pc = .p5)
    (h : ok l (s.conn t).commit = true) (hd : doneOk l (s.conn t) = true)
    (hs : tstep s t l ch = some (s', l', evs)) : doneOk l' (s'.conn t) = true := by
  done_tac

theorem done_w1 {s : Shared} {t : Tid} {l : Loc} {ch : Choice} {s' l' evs} (hpc : l.pc = .w1)
    (h : ok l (s.conn t).commit = true) (hd : doneOk l (s.conn t) = true)
    (hs : tstep s t l ch = some (s', l', evs)) : doneOk l' (s'.conn t) = true := by
  done_tac

theorem done_w2 {s : Shared} {t : Tid} {l : Loc} {ch : Choice} {s' l' evs} (hpc : l.pc = .w2)
    (h : ok l (s.conn t).commit = true) (hd : doneOk l (s.conn t) = true)
    (hs : tstep s t l ch = some (s', l', evs)) : doneOk l' (s'.conn t) = true := by
  done_tac

theorem done_w3 {s : Shared} {t : Tid} {l : Loc} {ch : Choice} {s' l' evs} (hpc : l.pc = .w3)
    (h : ok l (s.conn t).commit = true) (hd : doneOk l (s.conn t) = true)
    (hs : tstep s t l ch = some (s', l', evs)) : doneOk l' (s'.conn t) = true := by
  done_tac

theorem done_u1 {s : Shared} {t : Tid} {l : Loc} {ch : Choice} {s' l' evs} (hpc : l.pc = .u1)
    (h : ok l (s.conn t).commit = true) (hd : doneOk l (s.conn t) = true)
    (hs : tstep s t l ch = some (s', l', evs)) : doneOk l' (s'.conn t) = true := by
  done_tac

theorem done_u2 {s : Shared} {t : Tid} {l : Loc} {ch : Choice} {s' l' evs} (hpc : l.pc = .u2)
    (h : ok l (s.conn t).commit = true) (hd : doneOk l (s.conn t) = true)
    (hs : tstep s t l ch = some (s', l', evs)) : doneOk l' (s'.conn t) = true := by
  done_tac

theorem done_u3 {s : Shared} {t : Tid} {l : Loc} {ch : Choice} {s' l' evs} (hpc : l.pc = .u3)
    (h : ok l (s.conn t).commit = true) (hd : doneOk l (s.conn t) = true)
    (hs : tstep s t l ch = some (s', l', evs)) : doneOk l' (s'.conn t) = true := by
  done_tac

theorem done_e1 {s : Shared} {t : Tid} {l : Loc} {ch : Choice} {s' l' evs} (hpc : l.pc = .e1)
    (h : ok l (s.conn t).commit = true) (hd : doneOk l (s.conn t) = true)
    (hs : tstep s t l ch = some (s', l', evs)) : doneOk l' (s'.conn t) = true := by
  done_tac

theorem done_e3 {s : Shared} {t : Tid} {l : Loc} {ch : Choice} {s' l' evs} (hpc : l.pc = .e3)
    (h : ok l (s.conn t).commit = true) (hd : doneOk l (s.conn t) = true)
    (hs : tstep s t l ch = some (s', l', evs)) : doneOk l' (s'.conn t) = true := by
  done_tac

theorem done_e4 {s : Shared} {t : Tid} {l : Loc} {ch : Choice} {s' l' evs} (hpc : l.pc = .e4)
    (h : ok l (s.conn t).commit = true) (hd : doneOk l (s.conn t) = true)
    (hs : tstep s t l ch = some (s', l', evs)) : doneOk l' (s'.conn t) = true := by
  done_tac

theorem done_e5 {s : Shared} {t : Tid} {l : Loc} {ch : Choice} {s' l' evs} (hpc : l.pc = .e5)
    (h : ok l (s.conn t).commit = true) (hd : doneOk l (s.conn t) = true)
    (hs : tstep s t l ch = some (s', l', evs)) : doneOk l' (s'.conn t) = true := by
  done_tac

theorem done_e6 {s : Shared} {t : Tid} {l : Loc} {ch : Choice} {s' l' evs} (hpc : l.pc = .e6)
    (h : ok l (s.conn t).commit = true) (hd : doneOk l (s.conn t) = true)
    (hs : tstep s t l ch = some (s', l', evs)) : doneOk l' (s'.conn t) = true := by
  done_tac

theorem done_ec1 {s : Shared} {t : Tid} {l : Loc} {ch : Choice} {s' l' evs} (hpc : l.pc = .ec1)
    (h : ok l (s.conn t).commit = true) (hd : doneOk l (s.conn t) = true)
    (hs : tstep s t l ch = some (s', l', evs)) : doneOk l' (s'.conn t) = true := by
  done_tac

theorem done_ec2 {s : Shared} {t : Tid} {l : Loc} {ch : Choice} {s' l' evs} (hpc : l.pc = .ec2)
    (h : ok l (s.conn t).commit = true) (hd : doneOk l (s.conn t) = true)
    (hs : tstep s t l ch = some (s', l', evs)) : doneOk l' (s'.conn t) = true := by
  done_tac

theorem done_edef {s : Shared} {t : Tid} {l : Loc} {ch : Choice} {s' l' evs} (hpc : l.pc = .edef)
    (h : ok l (s.conn t).commit = true) (hd : doneOk l (s.conn t) = true)
    (hs : tstep s t l ch = some (s', l', evs)) : doneOk l' (s'.conn t) = true := by
  done_tac

theorem done_dOut {s : Shared} {t : Tid} {l : Loc} {ch : Choice} {s' l' evs} (hpc : l.pc = .dOut)
    (h : ok l (s.conn t).commit = true) (hd : doneOk l (s.conn t) = true)
    (hs : tstep s t l ch = some (s', l', evs)) : doneOk l' (s'.conn t) = true := by
  done_tac

theorem done_dUnlock {s : Shared} {t : Tid} {l : Loc} {ch : Choice} {s' l' evs} (hpc : l.pc = .dUnlock)
    (h : ok l (s.conn t).commit = true) (hd : doneOk l (s.conn t) = true)
    (hs : tstep s t l ch = some (s', l', evs)) : doneOk l' (s'.conn t) = true := by
  done_tac

theorem done_dRec {s : Shared} {t : Tid} {l : Loc} {ch : Choice} {s' l' evs} (hpc : l.pc = .dRec)
    (h : ok l (s.conn t).commit = true) (hd : doneOk l (s.conn t) = true)
    (hs : tstep s t l ch = some (s', l', evs)) : doneOk l' (s'.conn t) = true := by
  done_tac

theorem done_flush {s : Shared} {t : Tid} {l : Loc} {ch : Choice} {s' l' evs} (hpc : l.pc = .flush)
    (h : ok l (s.conn t).commit = true) (hd : doneOk l (s.conn t) = true)
    (hs : tstep s t l ch = some (s', l', evs)) : doneOk l' (s'.conn t) = true := by
  done_tac

theorem done_g2 {s : Shared} {t : Tid} {l : Loc} {ch : Choice} {s' l' evs} (hpc : l.pc = .g2)
    (h : ok l (s.conn t).commit = true) (hd : doneOk l (s.conn t) = true)
    (hs : tstep s t l ch = some (s', l', evs)) : doneOk l' (s'.conn t) = true := by
  simp only [tstep, hpc] at hs
  injection hs with hs; injection hs with h1 h2; injection h2 with h2 h3; subst h1 h2
  simp only [doneOk, hpc] at hd ⊢
  exact hd

theorem done_step {s : Shared} {t : Tid} {l : Loc} {ch : Choice} {s' l' evs}
    (h : ok l (s.conn t).commit = true) (hd : doneOk l (s.conn t) = true)
    (hs : tstep s t l ch = some (s', l', evs)) : doneOk l' (s'.conn t) = true := by
  cases hpc : l.pc
  · exact done_idle hpc h hd hs
  · exact done_sw hpc h hd hs
  · exact done_xIn hpc h hd hs
  · exact done_sIn hpc h hd hs
  · exact done_bServe hpc h hd hs
  · exact done_call hpc h hd hs
  · exact done_ec hpc h hd hs
  · exact done_b0 hpc h hd hs
  · exact done_b1 hpc h hd hs
  · exact done_b2 hpc h hd hs
  · exact done_g1 hpc h hd hs
  · exact done_g2 hpc h hd hs
  · exact done_g3 hpc h hd hs
  · exact done_b3 hpc h hd hs
  · exact done_bret hpc h hd hs
  · exact done_p0 hpc h hd hs
  · exact done_p1 hpc h hd hs
  · exact done_p2 hpc h hd hs
  · exact done_p3 hpc h hd hs
  · exact done_p4 hpc h hd hs
  · exact done_p5 hpc h hd hs
  · exact done_w1 hpc h hd hs
  · exact done_w2 hpc h hd hs
  · exact done_w3 hpc h hd hs
  · exact done_u1 hpc h hd hs
  · exact done_u2 hpc h hd hs
  · exact done_u3 hpc h hd hs
  · exact done_e1 hpc h hd hs
  · exact done_e3 hpc h hd hs
  · exact done_e4 hpc h hd hs
  · exact done_e5 hpc h hd hs
  · exact done_e6 hpc h hd hs
  · exact done_ec1 hpc h hd hs
  · exact done_ec2 hpc h hd hs
  · exact done_edef hpc h hd hs
  · exact done_dOut hpc h hd hs
  · exact done_dUnlock hpc h hd hs
  · exact done_dRec hpc h hd hs
  · exact done_flush hpc h hd hs

theorem doneOk_congr (l : Loc) {a b : ConnSt} (h : sameButWatch a b) : doneOk l a = doneOk l b := by
  obtain ⟨h1, h2, h3, h4, _⟩ := h
  unfold doneOk ConnSt.none?
  rw [h1, h2, h3, h4]

def AllDone (c : Cfg) : Prop := ∀ g, doneOk (c.loc g) (c.sh.conn g) = true

theorem allDone_init : AllDone {} := fun g => by rw [loc_init]; rfl

theorem allDone_step {c c' : Cfg} {t : Tid} {ch : Choice} {evs : List Ev} (hi : Inv c) (hd : AllDone c)
    (hs : step c t ch = some (c', evs)) : AllDone c' := by
  unfold step at hs
  split at hs
  · cases hs
  · rename_i s l e heq
    cases hs
    intro g
    show doneOk ((Cfg.mk s (put c.thr t l)).loc g) (s.conn g) = true
    rw [loc_put]
    by_cases hg : g = t
    · subst hg; simp only [if_true]; exact done_step (hi.ok g) (hd g) heq
    · simp only [hg, if_false]
      rw [doneOk_congr _ (tstep_conn_other heq hg)]; exact hd g

theorem allDone_run : ∀ (sch : List (Tid × Choice)) (c : Cfg) (gs : GState), Inv c → R c gs → AllDone c →
    AllDone (run c sch).1
  | [], _, _, _, _, hd => hd
  | (t, ch) :: sch, c, gs, hi, hr, hd => by
    simp only [run]
    cases hst : step c t ch with
    | none => exact allDone_run sch c gs hi hr hd
    | some p =>
      obtain ⟨c', e⟩ := p
      obtain ⟨gs1, _, hi1, hr1⟩ := sim_step hi hr hst
      exact allDone_run sch c' gs1 hi1 hr1 (allDone_step hi hd hst)

theorem reach_done (sch : List (Tid × Choice)) : AllDone (run {} sch).1 :=
  allDone_run sch {} {} inv_init R_init allDone_init

/-- execCommand while the connection is queuing: the closure is appended, nothing else happens, and the handler
    returns into the closure's deferred calls -/
theorem queued_tstep {s : Shared} {t : Tid} {l : Loc} {ch : Choice} {s' l' evs} (hpc : l.pc = .ec)
    (hq : (s.conn t).prep = true) (hs : tstep s t l ch = some (s', l', evs)) :
    evs = [] ∧ (l'.pc = .dOut ∨ l'.pc = .dRec) ∧ (s'.conn t).queue = (s.conn t).queue ++ [qcmdOf l.cmd] ∧
    s'.active = s.active ∧ s'.execMu = s.execMu ∧ s'.registry = s.registry := by
  simp only [tstep, hpc, ConnSt.runsNow, hq] at hs
  simp only [Bool.not_true, Bool.false_and, if_true] at hs
  injection hs with hs; injection hs with h1 h2; injection h2 with h2 h3
  subst h1 h2 h3
  refine ⟨rfl, ?_, by simp, rfl, rfl, rfl⟩
  unfold epilogue
  by_cases hh : l.held.isSome = true <;> simp [hh]

/-- the deferred calls of the closure and the flush report nothing but `gout`, and lead back to `idle` -/
theorem epilogue_tstep {s : Shared} {t : Tid} {l : Loc} {ch : Choice} {s' l' evs}
    (hpc : l.pc = .dOut ∨ l.pc = .dUnlock ∨ l.pc = .dRec ∨ l.pc = .flush)
    (hs : tstep s t l ch = some (s', l', evs)) :
    (∀ e ∈ evs, e = Ev.gout t) ∧ s'.active = s.active ∧
    (l'.pc = .dUnlock ∨ l'.pc = .dRec ∨ l'.pc = .flush ∨ l'.pc = .idle) := by
  rcases hpc with hpc | hpc | hpc | hpc <;> simp only [tstep, hpc] at hs <;> (try split at hs) <;>
    (injection hs with hs; injection hs with h1 h2; injection h2 with h2 h3; subst h1 h2 h3; simp)

/-- the deferred calls of the closure and the flush never block and need no choice -/
theorem epilogue_enabled (s : Shared) (t : Tid) (l : Loc) (ch : Choice)
    (hpc : l.pc = .dOut ∨ l.pc = .dUnlock ∨ l.pc = .dRec ∨ l.pc = .flush) : (tstep s t l ch).isSome = true := by
  rcases hpc with hpc | hpc | hpc | hpc <;> simp only [tstep, hpc] <;> (try split) <;> rfl

end NodisVerif.GateProg
