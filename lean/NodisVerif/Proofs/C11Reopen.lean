import NodisVerif.Proofs.C11Pass
/-
  C11: `reopen` (= `newStore` on the backend left behind).
-/
namespace NodisVerif.Proofs.C11
open NodisVerif.Store NodisVerif.Codec NodisVerif.Spec.Persist
open NodisVerif.Proofs.AListLemmas NodisVerif.Proofs.AListLemmas2 NodisVerif.Proofs.C11AList

/-- the record `newStore` creates for a stored entry -/
def coldOf (e : DiskEntry) : Meta :=
  { exp := e.exp, value := none, state := 1, kid := e.kid, oid := e.oid, stored := some e.exp }

def reopenStep (acc : AList Meta × List (Bytes × Int)) (p : Bytes × DiskEntry) : AList Meta × List (Bytes × Int) :=
  (AList.set acc.1 p.2.name (coldOf p.2),
    match AList.get? acc.1 p.2.name with
    | some old => (match old.stored with | some oe => (p.2.name, oe) :: acc.2 | none => acc.2)
    | none => acc.2)

theorem reopen_eq (s : MState) :
    reopen s = { (s.disk.foldl reopenStep ([], [])).2.foldl (fun s p => diskDelete s p.1 p.2) s with
      index := (s.disk.foldl reopenStep ([], [])).1, closed := false, feed := [], signalled := [] } := by
  unfold reopen
  rfl

theorem reopen_fold : ∀ (l : List (Bytes × DiskEntry)), (l.map (·.2.name)).Nodup →
    ∀ (acc : AList Meta) (sh : List (Bytes × Int)), (∀ p ∈ l, AList.get? acc p.2.name = none) →
    AList.Sorted acc →
    (l.foldl reopenStep (acc, sh)).2 = sh ∧ AList.Sorted (l.foldl reopenStep (acc, sh)).1 ∧
    (∀ p ∈ l, AList.get? (l.foldl reopenStep (acc, sh)).1 p.2.name = some (coldOf p.2)) ∧
    (∀ k, (∀ p ∈ l, p.2.name ≠ k) → AList.get? (l.foldl reopenStep (acc, sh)).1 k = AList.get? acc k) := by
  intro l
  induction l with
  | nil => intro _ acc sh _ hs; exact ⟨rfl, hs, by simp, fun _ _ => rfl⟩
  | cons a rest ih =>
    intro hnd acc sh hnone hs
    simp only [List.map_cons, List.nodup_cons] at hnd
    obtain ⟨ha, hnd'⟩ := hnd
    have h0 : AList.get? acc a.2.name = none := hnone a (by simp)
    have hstep : reopenStep (acc, sh) a = (AList.set acc a.2.name (coldOf a.2), sh) := by
      simp only [reopenStep, h0]
    simp only [List.foldl_cons, hstep]
    have hnone' : ∀ p ∈ rest, AList.get? (AList.set acc a.2.name (coldOf a.2)) p.2.name = none := by
      intro p hp
      have hne : p.2.name ≠ a.2.name := by
        intro e; apply ha; rw [← e]; exact List.mem_map.mpr ⟨p, hp, rfl⟩
      rw [get?_set]; simp only [hne, if_false]; exact hnone p (by simp [hp])
    obtain ⟨r1, r2, r3, r4⟩ := ih hnd' (AList.set acc a.2.name (coldOf a.2)) sh hnone'
      (set_preserves_sorted _ hs _ _)
    refine ⟨r1, r2, ?_, ?_⟩
    · intro p hp
      rcases List.mem_cons.mp hp with rfl | hp
      · rw [r4 _ (by
          intro q hq e; apply ha; rw [← e]; exact List.mem_map.mpr ⟨q, hq, rfl⟩)]
        simp [get?_set]
      · exact r3 p hp
    · intro k hk
      rw [r4 k (fun p hp => hk p (by simp [hp])), get?_set]
      have : k ≠ a.2.name := fun e => hk a (by simp) e.symm
      simp [this]

/-- under the invariant no two backend entries carry the same name -/
theorem disk_names_nodup {s : MState} {x : Option Bytes} {t : Int} (h : StoreInvX s x t) :
    (s.disk.map (·.2.name)).Nodup := by
  have hp := (sorted_iff_pairwise _).mp h.diskSorted
  unfold List.Nodup
  rw [List.pairwise_map]
  refine List.Pairwise.imp_of_mem ?_ hp
  intro a b ha hb hab hn
  have ga := get?_of_mem _ h.diskSorted a.1 a.2 ha
  have gb := get?_of_mem _ h.diskSorted b.1 b.2 hb
  have := (h.ent_unique ga gb hn).1
  exact lt_ne _ _ hab this

structure ReopenFacts (s : MState) : Prop where
  disk : (reopen s).disk = s.disk
  peb : (reopen s).pebble = s.pebble
  nid : (reopen s).nextId = s.nextId
  fs : (reopen s).failSet = s.failSet
  sorted : AList.Sorted (reopen s).index
  /-- `reopen` never meets two entries for one name: nothing is shadowed, nothing is deleted -/
  noShadow : (s.disk.foldl reopenStep ([], [])).2 = []
  hit : ∀ dk e, AList.get? s.disk dk = some e → AList.get? (reopen s).index e.name = some (coldOf e)
  miss : ∀ k, (∀ dk e, AList.get? s.disk dk = some e → e.name ≠ k) → AList.get? (reopen s).index k = none

theorem reopen_facts {s : MState} {x : Option Bytes} {t : Int} (h : StoreInvX s x t) : ReopenFacts s := by
  obtain ⟨r1, r2, r3, r4⟩ := reopen_fold s.disk (disk_names_nodup h) [] [] (fun _ _ => rfl) trivial
  have hre := reopen_eq s
  rw [r1] at hre
  simp only [List.foldl_nil] at hre
  refine ⟨by rw [hre], by rw [hre], by rw [hre], by rw [hre], by rw [hre]; exact r2, r1, ?_, ?_⟩
  · intro dk e he
    rw [hre]
    exact r3 (dk, e) (mem_of_get? _ _ _ he)
  · intro k hk
    rw [hre]
    show AList.get? (s.disk.foldl reopenStep ([], [])).1 k = none
    rw [r4 k (fun p hp => hk p.1 p.2 (get?_of_mem _ h.diskSorted p.1 p.2 hp))]
    rfl

/-- every record of the reopened index comes from exactly one entry -/
theorem reopen_rec {s : MState} {x : Option Bytes} {t : Int} (h : StoreInvX s x t) {k : Bytes} {m : Meta}
    (hm : AList.get? (reopen s).index k = some m) :
    ∃ dk e, AList.get? s.disk dk = some e ∧ e.name = k ∧ m = coldOf e := by
  have f := reopen_facts h
  by_cases hex : ∃ dk e, AList.get? s.disk dk = some e ∧ e.name = k
  · obtain ⟨dk, e, he, hn⟩ := hex
    have := f.hit dk e he
    rw [hn, hm] at this
    exact ⟨dk, e, he, hn, by simpa using this⟩
  · have := f.miss k (fun dk e he hn => hex ⟨dk, e, he, hn⟩)
    rw [this] at hm; cases hm

/-- the reopened store satisfies the invariant (whatever the horizon) -/
theorem inv_reopen {s : MState} {x : Option Bytes} {t t' : Int} (h : StoreInvX s x t) :
    StoreInvX (reopen s) none t' := by
  have f := reopen_facts h
  refine ⟨f.sorted, by rw [f.disk]; exact h.diskSorted, ?_, ?_, ?_, by rw [f.nid]; exact h.idPos⟩
  · intro k m hm
    obtain ⟨dk, e, he, hn, rfl⟩ := reopen_rec h hm
    have q := h.ents dk e he
    rw [f.disk]
    refine ⟨by simp [coldOf, Meta.isOk], q.expR, (by intro v hv; cases hv), ?_, fun _ _ => rfl,
      (by intro _ _ _ v hv; cases hv)⟩
    intro e0 he0
    simp only [coldOf, Option.some.injEq] at he0
    subst he0
    exact ⟨e, by rw [← hn, ← q.key]; exact he, hn, rfl⟩
  · intro dk e he
    rw [f.disk] at he
    have q := h.ents dk e he
    exact ⟨q.key, q.expR, q.good, coldOf e, f.hit dk e he, rfl⟩
  · intro hp
    rw [f.peb] at hp
    have o := h.oids hp
    refine ⟨?_, ?_, ?_, ?_, ?_⟩
    · intro k m hm
      obtain ⟨dk, e, he, _, rfl⟩ := reopen_rec h hm
      rw [f.nid]; exact o.entR dk e he
    · intro k1 m1 k2 m2 h1 h2 ho
      obtain ⟨dk1, e1, he1, hn1, rfl⟩ := reopen_rec h h1
      obtain ⟨dk2, e2, he2, hn2, rfl⟩ := reopen_rec h h2
      rw [← hn1, ← hn2]
      exact o.entInj dk1 e1 dk2 e2 he1 he2 ho
    · intro dk e he
      rw [f.disk] at he; rw [f.nid]; exact o.entR dk e he
    · intro dk e k m he hm ho
      rw [f.disk] at he
      obtain ⟨dk2, e2, he2, hn2, rfl⟩ := reopen_rec h hm
      rw [← hn2]
      exact o.entInj dk e dk2 e2 he he2 ho
    · intro dk1 e1 dk2 e2 h1 h2
      rw [f.disk] at h1 h2
      exact o.entInj dk1 e1 dk2 e2 h1 h2

theorem decode_ne_nil {b : Bytes} {v : Val} (h : decodeEntry b = some v) : v ≠ .strNil := by
  unfold decodeEntry at h
  split at h
  · cases h
  · split at h
    · cases h; intro c; cases c
    · simp only [Option.map_eq_some_iff] at h; obtain ⟨_, _, rfl⟩ := h; intro c; cases c
    · simp only [Option.map_eq_some_iff] at h; obtain ⟨_, _, rfl⟩ := h; intro c; cases c
    · simp only [Option.map_eq_some_iff] at h; obtain ⟨_, _, rfl⟩ := h; intro c; cases c
    · simp only [Option.map_eq_some_iff] at h; obtain ⟨_, _, rfl⟩ := h; intro c; cases c
    · cases h

/-- after a complete flush, reopening shows every name exactly as before -/
theorem lookup_reopen {s : MState} {now t' : Int} (h : StoreInvX s none now) (ht : now ≤ t')
    (hfl : ∀ k, RecFlushed s now k)
    (hnil : s.pebble = true → ∀ k m, AList.get? s.index k = some m → m.expired now = false →
      m.value ≠ some .strNil)
    (k : Bytes) : lookup (reopen s) t' k = lookup s t' k := by
  have f := reopen_facts h
  by_cases hex : ∃ dk e, AList.get? s.disk dk = some e ∧ e.name = k
  · obtain ⟨dk, e, he, hn⟩ := hex
    have q := h.ents dk e he
    obtain ⟨m, hm, hst⟩ := q.owner
    rw [hn] at hm
    have r := h.recs k m hm
    have hdk : dk = encodeKey k e.exp := by rw [q.key, hn]
    -- the record is alive at `now` (a dead one has nothing stored) and its deadline is the entry's
    have hal : m.expired now = false := by
      cases hc : m.expired now with
      | false => rfl
      | true => have := (hfl k m hm).1 hc; rw [this] at hst; cases hst
    have hexp : m.exp = e.exp := by
      cases hv : m.value with
      | none => have := r.cold hal hv; rw [this] at hst; simpa using hst
      | some v =>
        obtain ⟨_, a, _⟩ := (hfl k m hm).2 hal v hv
        rw [a] at hst; simpa using hst
    have hrec := f.hit dk e he
    rw [hn] at hrec
    simp only [lookup, getMeta, hrec, hm, Option.bind_some]
    have hload : loadValue (reopen s) k (coldOf e) =
        (if s.pebble then (decodeEntry (encodeEntry e.val)).map fun v => (v, 0) else some (e.val, e.oid)) := by
      simp only [loadValue, diskGet, f.disk, f.peb, coldOf, ← hdk, he]
    unfold view
    have e1 : (coldOf e).isOk = true := by simp [coldOf, Meta.isOk]
    have e2 : (coldOf e).expired t' = m.expired t' := by
      unfold Meta.expired; rw [hexp]; rfl
    rw [e1, e2, r.ok]
    by_cases hc : (true && !m.expired t') = true
    · rw [if_pos hc, if_pos hc]
      have e3 : (coldOf e).value = none := rfl
      have e4 : (coldOf e).exp = m.exp := hexp.symm
      rw [e3, hload, e4]
      simp only []
      cases hv : m.value with
      | none =>
        simp only [loadValue, diskGet, hexp, ← hdk, he]
      | some v =>
        simp only []
        obtain ⟨ent, a, b, c⟩ := (hfl k m hm).2 hal v hv
        rw [hexp, ← hdk, he] at b
        cases b
        cases hp : s.pebble with
        | true =>
          simp only [if_true]
          have hrt : decodeEntry (encodeEntry e.val) = some v := by
            rcases c.peb hp with h1 | h1
            · rw [h1]
              exact good_roundtrip v (r.good v hv) (by intro e; subst e; exact hnil hp k m hm hal hv)
            · exact h1
          simp [hrt]
        | false =>
          simp only [Bool.false_eq_true, if_false]
          simp [(c.mem hp).2]
    · rw [if_neg hc, if_neg hc]
  · have hnone := f.miss k (fun dk e he hn => hex ⟨dk, e, he, hn⟩)
    simp only [lookup, getMeta, hnone]
    cases hm : AList.get? s.index k with
    | none => rfl
    | some m =>
      simp only [Option.bind_some, Option.bind_none]
      have r := h.recs k m hm
      cases hc : m.expired now with
      | true => exact (view_dead (Meta.expired_mono m ht hc)).symm
      | false =>
        exfalso
        cases hv : m.value with
        | none =>
          obtain ⟨ent, a, b, _⟩ := r.stored _ (r.cold hc hv)
          exact hex ⟨_, ent, a, b⟩
        | some v =>
          obtain ⟨ent, a, b, _⟩ := (hfl k m hm).2 hc v hv
          exact hex ⟨_, ent, b, (h.ent_at r.expR b).1⟩

end NodisVerif.Proofs.C11
