import NodisVerif.Proofs.SkiplistRun
import NodisVerif.Proofs.SkiplistRankOk
/-
  Under the invariant no operation of Model/Skiplist.lean runs out of fuel and none panics: every call returns `.ok`.
-/
namespace NodisVerif.Skiplist
open NodisVerif.DsZSet (Item nodeLt)

theorem getLastInRange_ok {sl : SL} (h : Inv sl) (min max : F64) : ∃ r, getLastInRange sl min max = .ok r := by
  cases hmax : F64.isNaN max with
  | false =>
    obtain ⟨r, hr, _⟩ := getLastInRange_inv h min max hmax
    exact ⟨r, hr⟩
  | true =>
    cases hir : DsZSet.hasInRange (abs sl) min max with
    | true =>
      obtain ⟨c, hc⟩ := h
      obtain ⟨hd, _, hr, _⟩ := getLastInRange_nan_max hc min max hmax hir
      exact ⟨_, hr⟩
    | false =>
      refine ⟨none, ?_⟩
      unfold getLastInRange
      rw [hasInRange_spec h min max, hir]
      rfl

/-- `fuel_sufficient`: under `Inv`, every operation returns a value (`.ok`), i.e. neither `Err.fuel` nor `Err.panic` -/
theorem fuel_sufficient {sl : SL} (h : Inv sl) :
    (∀ m s lvl, 1 ≤ lvl → lvl ≤ maxLevel → F64.isNaN s = false → (∀ x ∈ abs sl, x.2 ≠ m) →
        ∃ r, insert sl m s lvl = .ok r) ∧
    (∀ m s, ∃ r, remove sl m s = .ok r) ∧
    (∀ m s, ∃ r, getRank sl m s = .ok r) ∧
    (∀ r, ∃ o, getByRank sl r = .ok o) ∧
    (∀ a b, ∃ r, hasInRange sl a b = .ok r) ∧
    (∀ a b, ∃ r, getFirstInRange sl a b = .ok r) ∧
    (∀ a b, ∃ r, getLastInRange sl a b = .ok r) ∧
    (∀ a b limit mode, ∃ r, removeRange sl a b limit mode = .ok r) ∧
    (∀ a b, ∃ r, removeRangeByRank sl a b = .ok r) := by
  refine ⟨?_, ?_, ?_, ?_, ?_, ?_, ?_, ?_, ?_⟩
  · intro m s lvl h1 h2 h3 h4
    obtain ⟨r, hr, _⟩ := insert_refines h m s lvl h1 h2 h3 h4
    exact ⟨r, hr⟩
  · intro m s
    obtain ⟨sl', b, hr, _⟩ := remove_refines h m s
    exact ⟨_, hr⟩
  · intro m s
    obtain ⟨r, hr, _⟩ := getRank_ok h m s
    exact ⟨r, hr⟩
  · intro r
    obtain ⟨c, hc⟩ := h
    exact ⟨_, getByRank_spec hc r⟩
  · intro a b
    exact ⟨_, hasInRange_spec h a b⟩
  · intro a b
    obtain ⟨r, hr, _⟩ := getFirstInRange_inv h a b
    exact ⟨r, hr⟩
  · intro a b
    exact getLastInRange_ok h a b
  · intro a b limit mode
    obtain ⟨sl', rem, hr, _⟩ := removeRange_refines h a b limit mode
    exact ⟨_, hr⟩
  · intro a b
    obtain ⟨sl', rem, hr, _⟩ := removeRangeByRank_refines h a b
    exact ⟨_, hr⟩

end NodisVerif.Skiplist
