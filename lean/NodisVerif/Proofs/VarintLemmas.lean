import NodisVerif.Model.Varint
/-
  Round-trip lemmas for encoding/binary varints.
-/
namespace NodisVerif.Proofs.VarintLemmas
open Varint

theorem putUvarint_length_pos (n : Nat) : 0 < (putUvarint n).length := by
  rw [putUvarint]
  split <;> simp

theorem or_split (n s : Nat) :
    ((n % 128) <<< s) ||| ((n / 128) <<< (s + 7)) = n <<< s := by
  have h1 : (n / 128) <<< (s + 7) = ((n / 128) <<< 7) <<< s := by
    rw [Nat.add_comm, Nat.shiftLeft_add]
  rw [h1, ← Nat.shiftLeft_or_distrib, Nat.or_comm]
  have h2 : n % 128 < 2 ^ 7 := by omega
  rw [← Nat.shiftLeft_add_eq_or_of_lt h2, Nat.shiftLeft_eq (n / 128) 7]
  congr 1
  omega

theorem uvarintAux_putUvarint (n : Nat) (rest : Bytes) :
    ∀ (i s x : Nat), i ≤ 9 → n < 2 ^ (64 - 7 * i) →
      uvarintAux (putUvarint n ++ rest) i s x
        = (x ||| (n <<< s), (i : Int) + ((putUvarint n).length : Int)) := by
  induction n using Nat.strongRecOn with
  | _ n ih =>
    intro i s x hi hn
    rw [putUvarint]
    by_cases h : n < 128
    · simp only [h, dite_true, List.cons_append, List.nil_append, uvarintAux, List.length_cons,
        List.length_nil]
      have hi10 : i ≠ 10 := by omega
      have hb : (UInt8.ofNat n).toNat = n := by
        rw [UInt8.toNat_ofNat']; omega
      have hlt : UInt8.ofNat n < 128 := by
        rw [UInt8.lt_iff_toNat_lt, hb]; exact h
      have hnot : ¬ (i = 9 ∧ UInt8.ofNat n > 1) := by
        rintro ⟨h9, hgt⟩
        have : (1 : UInt8) < UInt8.ofNat n := hgt
        rw [UInt8.lt_iff_toNat_lt, hb] at this
        subst h9
        have : n < 2 := by simpa using hn
        simp at *
        omega
      simp only [hi10, if_false, hlt, if_true, hnot, hb]
      simp
    · simp only [h, dite_false, List.cons_append, uvarintAux, List.length_cons]
      have hi10 : i ≠ 10 := by omega
      have hb : (UInt8.ofNat (n % 128 + 128)).toNat = n % 128 + 128 := by
        rw [UInt8.toNat_ofNat']; omega
      have hlt : ¬ (UInt8.ofNat (n % 128 + 128) < 128) := by
        rw [UInt8.lt_iff_toNat_lt, hb]; simp
      have hi8 : i ≤ 8 := by
        apply Classical.byContradiction
        intro hc
        have h9 : i = 9 := by omega
        subst h9
        have : n < 2 := by simpa using hn
        omega
      have hdiv : n / 128 < 2 ^ (64 - 7 * (i + 1)) := by
        have e : 64 - 7 * i = (64 - 7 * (i + 1)) + 7 := by omega
        rw [e, Nat.pow_add] at hn
        generalize 2 ^ (64 - 7 * (i + 1)) = P at hn ⊢
        omega
      simp only [hi10, if_false, hlt, hb]
      rw [ih (n / 128) (by omega) (i + 1) (s + 7) _ (by omega) hdiv]
      have hm : (n % 128 + 128) % 128 = n % 128 := by omega
      rw [hm, Nat.or_assoc, or_split]
      congr 1
      generalize (putUvarint (n / 128)).length = L
      push_cast
      omega

theorem uvarint_putUvarint (n : Nat) (h : n < 2 ^ 64) (rest : Bytes) :
    uvarint (putUvarint n ++ rest) = (n, ((putUvarint n).length : Int)) := by
  unfold uvarint
  rw [uvarintAux_putUvarint n rest 0 0 0 (by omega) (by simpa using h)]
  simp

theorem zigzag_lt (x : Int) (h : inInt64 x = true) : zigzag x < 2 ^ 64 := by
  have h' : -9223372036854775808 ≤ x ∧ x ≤ 9223372036854775807 := by
    unfold inInt64 int64Min int64Max at h
    exact of_decide_eq_true h
  unfold zigzag
  split <;> omega

theorem unzigzag_zigzag (x : Int) : unzigzag (zigzag x) = x := by
  unfold unzigzag zigzag
  split <;> split <;> omega

theorem varint_putVarint (x : Int) (h : inInt64 x = true) (rest : Bytes) :
    varint (putVarint x ++ rest) = (x, ((putVarint x).length : Int)) := by
  unfold varint putVarint
  rw [uvarint_putUvarint _ (zigzag_lt x h) rest]
  simp [unzigzag_zigzag]

theorem putVarint_length_pos (x : Int) : 0 < (putVarint x).length :=
  putUvarint_length_pos _

theorem putUvarint_length_le : ∀ (k n : Nat), n < 2 ^ (7 * (k + 1)) →
    (putUvarint n).length ≤ k + 1 := by
  intro k
  induction k with
  | zero =>
    intro n hn
    have : n < 128 := by simpa using hn
    rw [putUvarint, dif_pos this]
    simp
  | succ k ih =>
    intro n hn
    rw [putUvarint]
    by_cases h : n < 128
    · rw [dif_pos h]; simp
    · rw [dif_neg h]
      have hdiv : n / 128 < 2 ^ (7 * (k + 1)) := by
        have e : 7 * (k + 1 + 1) = 7 * (k + 1) + 7 := by omega
        rw [e, Nat.pow_add] at hn
        generalize 2 ^ (7 * (k + 1)) = P at hn ⊢
        omega
      have := ih (n / 128) hdiv
      simp only [List.length_cons]
      omega

/-- a varint of an int64 takes at most 10 bytes -/
theorem putVarint_length_le (x : Int) (h : inInt64 x = true) : (putVarint x).length ≤ 10 := by
  have hz := zigzag_lt x h
  apply putUvarint_length_le 9
  have : (2 : Nat) ^ 64 ≤ 2 ^ (7 * (9 + 1)) := Nat.pow_le_pow_right (by omega) (by omega)
  omega

end NodisVerif.Proofs.VarintLemmas
