import NodisVerif.Proofs.C13Reopen
/-
  C13, part 5: a completed `flush` / `gc` pass keeps the invariant `StoreAgrees` (what the pass
  writes into the index records — `stored` — is what it leaves in the backend).
-/
namespace NodisVerif.C13
open NodisVerif NodisVerif.Store
open NodisVerif.Proofs.AListLemmas NodisVerif.Proofs.AListLemmas2 NodisVerif.Proofs.C13

theorem get?_none_of_not_mem_keys {V : Type} (l : AList V) (x : Bytes) (h : x ∉ l.map (·.1)) :
    AList.get? l x = none := by
  cases hg : AList.get? l x with
  | none => rfl
  | some v =>
    exfalso; apply h
    exact List.mem_map.mpr ⟨(x, v), mem_of_get? l x v hg, rfl⟩

/-- a live record that the pass leaves alone -/
def liveClean (now : Int) (m : Meta) : Bool := !(m.expired now || !m.isOk) && !m.isModified

/-- the record `flush` leaves in the index -/
def metaAfterFlush (now : Int) (m : Meta) : Meta :=
  if m.expired now || !m.isOk then { m with stored := none }
  else if !m.isModified then m
  else { m with stored := some m.exp }

theorem metaAfterFlush_stored (now : Int) (m : Meta) : (metaAfterFlush now m).stored = storedAfter now m := by
  unfold metaAfterFlush storedAfter
  split
  · rfl
  · split <;> rfl

theorem flushStep_index (now : Int) (t : MState) (key : Bytes) (m : Meta) (hf : t.failSet = 0)
    (hs : AList.Sorted t.index) :
    AList.Sorted (flushStep now t (key, m)).index
    ∧ ∀ x, AList.get? (flushStep now t (key, m)).index x
        = if x = key then (if liveClean now m then AList.get? t.index key else some (metaAfterFlush now m))
          else AList.get? t.index x := by
  unfold flushStep liveClean metaAfterFlush
  simp only
  by_cases hd : (m.expired now || !m.isOk) = true
  · simp only [hd, if_true, Bool.not_true, Bool.false_and, Bool.false_eq_true, if_false]
    rw [unpersist_state]
    exact ⟨set_preserves_sorted _ hs _ _, fun x => get?_set _ _ _ x⟩
  · simp only [hd, Bool.not_false, Bool.true_and]
    by_cases hm : m.isModified = true
    · simp only [hm, Bool.not_true, Bool.false_eq_true, if_false]
      rw [persist_state t key m hf]
      exact ⟨set_preserves_sorted _ hs _ _, fun x => get?_set _ _ _ x⟩
    · simp only [Bool.not_eq_true] at hm
      simp only [hm, Bool.not_false, if_true]
      refine ⟨hs, fun x => ?_⟩
      by_cases hx : x = key
      · simp [hx]
      · simp [hx]

theorem flush_fold_index (now : Int) : ∀ (l : List (Bytes × Meta)) (t : MState), t.failSet = 0 →
    AList.Sorted t.index → (l.map (·.1)).Nodup →
    AList.Sorted (l.foldl (flushStep now) t).index
    ∧ ∀ x, AList.get? (l.foldl (flushStep now) t).index x
        = match AList.get? l x with
          | some m => if liveClean now m then AList.get? t.index x else some (metaAfterFlush now m)
          | none => AList.get? t.index x := by
  intro l
  induction l with
  | nil => intro t _ hs _; exact ⟨hs, fun x => rfl⟩
  | cons a rest ih =>
    intro t hf hs hnd
    obtain ⟨k0, m0⟩ := a
    simp only [List.map_cons, List.nodup_cons] at hnd
    obtain ⟨hk0, hnd'⟩ := hnd
    obtain ⟨s1, s2⟩ := flushStep_index now t k0 m0 hf hs
    obtain ⟨i1, i2⟩ := ih (flushStep now t (k0, m0)) (flushStep_spec now t (k0, m0) hf).2.1 s1 hnd'
    simp only [List.foldl_cons]
    refine ⟨i1, fun x => ?_⟩
    rw [i2 x, s2 x]
    simp only [AList.get?]
    by_cases hx : x = k0
    · subst hx
      rw [get?_none_of_not_mem_keys rest x hk0]
      simp
    · have : ¬ k0 = x := fun e => hx e.symm
      simp only [hx, this, if_false]

/-- **a completed SAVE keeps the invariant** -/
theorem flush_agrees (s : MState) (now : Int) (h : StoreAgrees s) (hf : s.failSet = 0) (hp : s.pebble = true) :
    StoreAgrees (flush s now) := by
  obtain ⟨f1, _, f3⟩ := fold_spec now (flushStep now) (flushStep_spec now) s.index s hf
  obtain ⟨g1, g2⟩ := flush_fold_index now s.index s hf h.idxSorted (keys_nodup s.index h.idxSorted)
  have hidx : (flush s now).index = (s.index.foldl (flushStep now) s).index := by
    rw [flush_eq_fold, syncShared, if_pos (f3.trans hp)]
  have hdisk : (flush s now).disk = runCalls s.disk (flushCalls s now) := by
    rw [flush_eq_calls s now hf hp, applyCalls_disk _ _ (flushCalls_exact s now)]
  obtain ⟨p1, _⟩ := pass_full s now s.index h.diskWF h.records
  refine ⟨?_, ?_, ?_⟩
  · rw [hdisk]; exact diskWF_run h.diskWF _ (flushCalls_exact s now)
  · rw [hidx]; exact g1
  · intro p hp'
    obtain ⟨key, m'⟩ := p
    rw [hidx] at hp'
    have hg := get?_of_mem _ g1 key m' hp'
    rw [g2 key] at hg
    unfold DiskAgrees
    rw [hdisk]
    cases hm : AList.get? s.index key with
    | none =>
      rw [hm] at hg
      exact absurd hg (by simp)
    | some m =>
      rw [hm] at hg
      simp only at hg
      have hmem := mem_of_get? _ _ _ hm
      have hag := (p1 (key, m) hmem).2
      have hst : m'.stored = storedAfter now m := by
        by_cases hc : liveClean now m = true
        · simp only [hc, if_true, Option.some.injEq] at hg
          subst hg
          unfold liveClean at hc
          simp only [Bool.and_eq_true, Bool.not_eq_eq_eq_not, Bool.not_true] at hc
          unfold storedAfter
          simp [hc.1, hc.2]
        · simp only [hc, Bool.false_eq_true, if_false, Option.some.injEq] at hg
          rw [← hg]
          exact metaAfterFlush_stored now m
      simp only
      rw [hst]
      exact hag

/-! ### gc -/

/-- the record one `gc` pass leaves in the index for a live record -/
def metaAfterGc (m : Meta) : Meta :=
  let m1 : Meta := if m.isModified then { m with stored := some m.exp } else m
  let m' : Meta := { m1 with state := 1, count := m1.count - 1 }
  if m'.count < 0 then { m' with value := none } else m'

theorem metaAfterGc_stored (now : Int) (m : Meta) (hd : (m.expired now || !m.isOk) = false) :
    (metaAfterGc m).stored = storedAfter now m := by
  unfold metaAfterGc storedAfter
  simp only [hd, Bool.false_eq_true, if_false]
  by_cases hm : m.isModified = true
  · simp only [hm, if_true, Bool.not_true, Bool.false_eq_true, if_false]
    split <;> rfl
  · simp only [Bool.not_eq_true] at hm
    simp only [hm, Bool.false_eq_true, if_false, Bool.not_false, if_true]
    split <;> rfl

theorem gcStep_index (now : Int) (t : MState) (key : Bytes) (m : Meta) (hf : t.failSet = 0)
    (hs : AList.Sorted t.index) :
    AList.Sorted (gcStep now t (key, m)).index
    ∧ ∀ x, AList.get? (gcStep now t (key, m)).index x
        = if x = key then (if m.expired now || !m.isOk then none else some (metaAfterGc m))
          else AList.get? t.index x := by
  unfold gcStep metaAfterGc
  simp only
  by_cases hd : (m.expired now || !m.isOk) = true
  · simp only [hd, if_true]
    rw [unpersist_state]
    exact ⟨erase_preserves_sorted _ hs _, fun x => get?_erase _ hs key x⟩
  · simp only [hd, if_false, Bool.false_eq_true]
    by_cases hm : m.isModified = true
    · simp only [hm, if_true]
      rw [persist_state t key m hf]
      simp only [Bool.not_true, Bool.false_eq_true, if_false]
      exact ⟨set_preserves_sorted _ hs _ _, fun x => get?_set _ _ _ x⟩
    · simp only [Bool.not_eq_true] at hm
      simp only [hm, Bool.false_eq_true, if_false, Bool.not_true]
      exact ⟨set_preserves_sorted _ hs _ _, fun x => get?_set _ _ _ x⟩

theorem gc_fold_index (now : Int) : ∀ (l : List (Bytes × Meta)) (t : MState), t.failSet = 0 →
    AList.Sorted t.index → (l.map (·.1)).Nodup →
    AList.Sorted (l.foldl (gcStep now) t).index
    ∧ ∀ x, AList.get? (l.foldl (gcStep now) t).index x
        = match AList.get? l x with
          | some m => if m.expired now || !m.isOk then none else some (metaAfterGc m)
          | none => AList.get? t.index x := by
  intro l
  induction l with
  | nil => intro t _ hs _; exact ⟨hs, fun x => rfl⟩
  | cons a rest ih =>
    intro t hf hs hnd
    obtain ⟨k0, m0⟩ := a
    simp only [List.map_cons, List.nodup_cons] at hnd
    obtain ⟨hk0, hnd'⟩ := hnd
    obtain ⟨s1, s2⟩ := gcStep_index now t k0 m0 hf hs
    obtain ⟨i1, i2⟩ := ih (gcStep now t (k0, m0)) (gcStep_spec now t (k0, m0) hf).2.1 s1 hnd'
    simp only [List.foldl_cons]
    refine ⟨i1, fun x => ?_⟩
    rw [i2 x, s2 x]
    simp only [AList.get?]
    by_cases hx : x = k0
    · subst hx
      rw [get?_none_of_not_mem_keys rest x hk0]
      simp
    · have : ¬ k0 = x := fun e => hx e.symm
      simp only [hx, this, if_false]

/-- **a completed eviction pass keeps the invariant** -/
theorem gc_agrees (s : MState) (now : Int) (h : StoreAgrees s) (hf : s.failSet = 0) (hp : s.pebble = true) :
    StoreAgrees (gc s now) := by
  by_cases hc : s.closed = true
  · rw [gc_eq_fold, if_pos hc]; exact h
  obtain ⟨f1, _, f3⟩ := fold_spec now (gcStep now) (gcStep_spec now) s.index s hf
  obtain ⟨g1, g2⟩ := gc_fold_index now s.index s hf h.idxSorted (keys_nodup s.index h.idxSorted)
  have hidx : (gc s now).index = (s.index.foldl (gcStep now) s).index := by
    rw [gc_eq_fold, if_neg hc, syncShared, if_pos (f3.trans hp)]
  have hcalls : gcCalls s now = s.index.flatMap (recordCalls s now) := by
    unfold gcCalls; rw [if_neg hc]
  have hdisk : (gc s now).disk = runCalls s.disk (s.index.flatMap (recordCalls s now)) := by
    rw [gc_eq_calls s now hf hp, applyCalls_disk _ _ (gcCalls_exact s now), hcalls]
  obtain ⟨p1, _⟩ := pass_full s now s.index h.diskWF h.records
  refine ⟨?_, ?_, ?_⟩
  · rw [hdisk]; exact diskWF_run h.diskWF _ (passCalls_exact s now s.index)
  · rw [hidx]; exact g1
  · intro p hp'
    obtain ⟨key, m'⟩ := p
    rw [hidx] at hp'
    have hg := get?_of_mem _ g1 key m' hp'
    rw [g2 key] at hg
    unfold DiskAgrees
    rw [hdisk]
    cases hm : AList.get? s.index key with
    | none =>
      rw [hm] at hg
      exact absurd hg (by simp)
    | some m =>
      rw [hm] at hg
      simp only at hg
      have hmem := mem_of_get? _ _ _ hm
      have hag := (p1 (key, m) hmem).2
      by_cases hd : (m.expired now || !m.isOk) = true
      · simp [hd] at hg
      · simp only [hd, if_false, Bool.false_eq_true, Option.some.injEq] at hg
        simp only [Bool.not_eq_true] at hd
        simp only
        rw [← hg, metaAfterGc_stored now m hd]
        exact hag

end NodisVerif.C13
