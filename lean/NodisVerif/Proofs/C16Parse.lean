import NodisVerif.Proofs.C16ParseFuel
/-
  C16, reader side, part 3: the value denoted by a token list, and the round trip
  writer → bytes → reference reader; pipelines stay in sync.
-/
namespace NodisVerif.Proofs.C16Parse
open NodisVerif NodisVerif.Resp NodisVerif.Spec.RespReply

/-! ### the value denoted by a complete token list -/

/-- read one value off the head of a token list (fuel as in `valueSize`); returns the unread tokens.
    A negative array header is the null array. -/
def toValueAux : Nat → List Tok → Option (Value × List Tok)
  | 0, _ => none
  | _, [] => none
  | fuel + 1, t :: rest =>
    match t with
    | .simple s => some (.simple s, rest)
    | .err k => some (.error (errText k), rest)
    | .int n => some (.int n, rest)
    | .bulk b => some (.bulk b, rest)
    | .nullBulk => some (.nullBulk, rest)
    | .nullArr => some (.nullArray, rest)
    | .arr n =>
      if n < 0 then some (.nullArray, rest)
      else match seqN (toValueAux fuel) n.toNat rest with
        | none => none
        | some (xs, rest') => some (.array xs, rest')

/-- the value denoted by a token list that is exactly one value -/
def toValue (ts : List Tok) : Option Value :=
  match toValueAux (ts.length + 1) ts with
  | some (v, []) => some v
  | _ => none

def arrOK : Tok → Bool
  | .arr n => decide (-1 ≤ n)
  | _ => true

def lineOK : Tok → Bool
  | .simple s => s.all fun b => b != 13 && b != 10
  | _ => true

/-- every array header carries a count ≥ -1 (`*-5` is not RESP; the writer would print it) -/
def ArrOK (ts : List Tok) : Prop := ∀ t ∈ ts, arrOK t = true

/-- no simple-string payload contains CR or LF (bulk payloads are unconstrained) -/
def LinesOK (ts : List Tok) : Prop := ∀ t ∈ ts, lineOK t = true

instance (ts : List Tok) : Decidable (ArrOK ts) := by unfold ArrOK; infer_instance
instance (ts : List Tok) : Decidable (LinesOK ts) := by unfold LinesOK; infer_instance

/-! ### `oneValue` token lists denote a value -/

theorem toValueAux_of_valueSize (f : Nat) :
    ∀ ts sz, valueSize ts f = some sz → ∃ v, toValueAux f ts = some (v, ts.drop sz) := by
  induction f with
  | zero => intro ts sz h; simp [valueSize] at h
  | succ f ih =>
    have hel : ∀ k ts acc total, valueSize.elems f k ts acc = some total →
        acc ≤ total ∧ ∃ vs, seqN (toValueAux f) k ts = some (vs, ts.drop (total - acc)) := by
      intro k
      induction k with
      | zero =>
        intro ts acc total h
        rw [valueSize.elems] at h
        simp only [Option.some.injEq] at h
        subst h
        exact ⟨Nat.le_refl _, [], by simp [seqN]⟩
      | succ k ihk =>
        intro ts acc total h
        rw [valueSize.elems] at h
        cases hv : valueSize ts f with
        | none => simp [hv] at h
        | some sz =>
          simp only [hv] at h
          obtain ⟨hle, vs, hvs⟩ := ihk _ _ _ h
          obtain ⟨v, hv'⟩ := ih ts sz hv
          refine ⟨by omega, v :: vs, ?_⟩
          simp only [seqN, hv', hvs, List.drop_drop]
          congr 3; omega
    intro ts sz h
    cases ts with
    | nil => simp [valueSize] at h
    | cons t rest =>
      cases t with
      | arr n =>
        rw [valueSize] at h
        by_cases hn : n < 0
        · simp only [hn, if_true, Option.some.injEq] at h
          subst h
          exact ⟨.nullArray, by simp [toValueAux, hn]⟩
        · simp only [hn, if_false] at h
          obtain ⟨hle, vs, hvs⟩ := hel _ _ _ _ h
          refine ⟨.array vs, ?_⟩
          simp only [toValueAux, hn, if_false, hvs]
          obtain ⟨m, rfl⟩ : ∃ m, sz = m + 1 := ⟨sz - 1, by omega⟩
          simp
      | _ =>
        simp only [valueSize, Option.some.injEq] at h
        subst h
        simp [toValueAux]

/-- a token list that is exactly one value denotes a value -/
theorem toValue_of_oneValue (ts : List Tok) (h1 : oneValue ts = true) : ∃ v, toValue ts = some v := by
  unfold oneValue at h1
  have h : valueSize ts (ts.length + 1) = some ts.length := by simpa using h1
  obtain ⟨v, hv⟩ := toValueAux_of_valueSize _ _ _ h
  exact ⟨v, by simp [toValue, hv]⟩

/-! ### round trip -/

theorem renderAll_cons (t : Tok) (ts : List Tok) : renderAll (t :: ts) = render t ++ renderAll ts := by
  simp [renderAll]

theorem renderAll_nil : renderAll [] = [] := rfl

theorem lineOK_clean (s : Bytes) (h : lineOK (.simple s) = true) : cleanLine s = true := h

/-- core lemma: whatever `toValueAux` reads from the tokens, the reference reader reads from their
    rendering, with the same fuel, leaving exactly the rendering of the unread tokens. -/
theorem parseFuel_render (f : Nat) :
    ∀ ts v tl, toValueAux f ts = some (v, tl) → ArrOK ts → LinesOK ts →
      (∀ t ∈ tl, t ∈ ts) ∧
      ∀ rest, parseFuel f (renderAll ts ++ rest) = some (v, renderAll tl ++ rest) := by
  induction f with
  | zero => intro ts v tl h; simp [toValueAux] at h
  | succ f ih =>
    have hseq : ∀ k ts vs tl, seqN (toValueAux f) k ts = some (vs, tl) → ArrOK ts → LinesOK ts →
        (∀ t ∈ tl, t ∈ ts) ∧
        ∀ rest, seqN (parseFuel f) k (renderAll ts ++ rest) = some (vs, renderAll tl ++ rest) := by
      intro k
      induction k with
      | zero =>
        intro ts vs tl h _ _
        simp only [seqN, Option.some.injEq, Prod.mk.injEq] at h
        obtain ⟨rfl, rfl⟩ := h
        exact ⟨fun _ h => h, fun rest => by simp [seqN]⟩
      | succ k ihk =>
        intro ts vs tl h hA hS
        simp only [seqN] at h
        cases h1 : toValueAux f ts with
        | none => simp [h1] at h
        | some a =>
          obtain ⟨v, ts'⟩ := a
          simp only [h1] at h
          cases h2 : seqN (toValueAux f) k ts' with
          | none => simp [h2] at h
          | some b =>
            obtain ⟨ws, tl'⟩ := b
            simp only [h2, Option.some.injEq, Prod.mk.injEq] at h
            obtain ⟨rfl, rfl⟩ := h
            obtain ⟨hsub1, hp1⟩ := ih ts v ts' h1 hA hS
            obtain ⟨hsub2, hp2⟩ := ihk ts' ws tl' h2 (fun t ht => hA t (hsub1 t ht)) (fun t ht => hS t (hsub1 t ht))
            refine ⟨fun t ht => hsub1 t (hsub2 t ht), fun rest => ?_⟩
            simp only [seqN, hp1, hp2]
    intro ts v tl h hA hS
    cases ts with
    | nil => simp [toValueAux] at h
    | cons t ts =>
      have hsubtl : ∀ x ∈ ts, x ∈ t :: ts := fun x hx => List.mem_cons_of_mem _ hx
      cases t with
      | simple s =>
        simp only [toValueAux, Option.some.injEq, Prod.mk.injEq] at h
        obtain ⟨rfl, rfl⟩ := h
        refine ⟨hsubtl, fun rest => ?_⟩
        have hc := lineOK_clean s (hS _ (by simp))
        rw [renderAll_cons]
        simp only [render, crlf, List.cons_append, List.append_assoc, List.nil_append, parseFuel_succ_cons]
        exact body_simple _ _ _ hc
      | err k =>
        simp only [toValueAux, Option.some.injEq, Prod.mk.injEq] at h
        obtain ⟨rfl, rfl⟩ := h
        refine ⟨hsubtl, fun rest => ?_⟩
        rw [renderAll_cons]
        simp only [render, crlf, List.cons_append, List.append_assoc, List.nil_append, parseFuel_succ_cons]
        exact body_error _ _ _ (errText_clean k)
      | int n =>
        simp only [toValueAux, Option.some.injEq, Prod.mk.injEq] at h
        obtain ⟨rfl, rfl⟩ := h
        refine ⟨hsubtl, fun rest => ?_⟩
        rw [renderAll_cons]
        simp only [render, crlf, List.cons_append, List.append_assoc, List.nil_append, parseFuel_succ_cons]
        exact body_int _ _ _
      | bulk b =>
        simp only [toValueAux, Option.some.injEq, Prod.mk.injEq] at h
        obtain ⟨rfl, rfl⟩ := h
        refine ⟨hsubtl, fun rest => ?_⟩
        rw [renderAll_cons]
        simp only [render, crlf, List.cons_append, List.append_assoc, List.nil_append, parseFuel_succ_cons]
        exact body_bulk _ _ _
      | nullBulk =>
        simp only [toValueAux, Option.some.injEq, Prod.mk.injEq] at h
        obtain ⟨rfl, rfl⟩ := h
        refine ⟨hsubtl, fun rest => ?_⟩
        rw [renderAll_cons, render_nullBulk]
        simp only [List.cons_append, List.nil_append, parseFuel_succ_cons]
        exact body_nullBulk _ _
      | nullArr =>
        simp only [toValueAux, Option.some.injEq, Prod.mk.injEq] at h
        obtain ⟨rfl, rfl⟩ := h
        refine ⟨hsubtl, fun rest => ?_⟩
        rw [renderAll_cons, render_nullArr]
        simp only [List.cons_append, List.nil_append, parseFuel_succ_cons]
        exact body_nullArray _ _
      | arr n =>
        have hn1 : -1 ≤ n := by simpa [arrOK] using hA (.arr n) (by simp)
        simp only [toValueAux] at h
        by_cases hn : n < 0
        · simp only [hn, if_true, Option.some.injEq, Prod.mk.injEq] at h
          obtain ⟨rfl, rfl⟩ := h
          have : n = -1 := by omega
          subst this
          refine ⟨hsubtl, fun rest => ?_⟩
          rw [renderAll_cons]
          simp only [render, crlf, formatInt_neg_one, List.cons_append, List.nil_append, parseFuel_succ_cons]
          exact body_nullArray _ _
        · simp only [hn, if_false] at h
          cases h2 : seqN (toValueAux f) n.toNat ts with
          | none => simp [h2] at h
          | some b =>
            obtain ⟨ws, tl'⟩ := b
            simp only [h2, Option.some.injEq, Prod.mk.injEq] at h
            obtain ⟨rfl, rfl⟩ := h
            obtain ⟨hsub, hp⟩ := hseq _ ts ws tl' h2 (fun t ht => hA t (hsubtl t ht)) (fun t ht => hS t (hsubtl t ht))
            refine ⟨fun t ht => hsubtl t (hsub t ht), fun rest => ?_⟩
            rw [renderAll_cons]
            simp only [render, crlf, List.cons_append, List.append_assoc, List.nil_append, parseFuel_succ_cons]
            rw [body_array _ _ (by omega), hp]

theorem length_le_renderAll (ts : List Tok) : ts.length ≤ (renderAll ts).length := by
  induction ts with
  | nil => simp
  | cons t ts ih =>
    rw [renderAll_cons]
    have : 1 ≤ (render t).length := by
      cases t with
      | nullBulk => rw [render_nullBulk]; decide
      | nullArr => rw [render_nullArr]; decide
      | _ => simp only [render, List.length_cons, List.length_append]; omega
    simp only [List.length_cons, List.length_append]; omega

/-- ROUND TRIP: the reference reader, applied to the bytes the writer produced for one complete
    value (followed by anything), returns exactly the denoted value and leaves exactly the rest. -/
theorem render_parse_roundtrip (ts : List Tok) (rest : Bytes) (h1 : oneValue ts = true)
    (hA : ArrOK ts) (hS : LinesOK ts) (v : Value) (hv : toValue ts = some v) :
    parseReply (renderAll ts ++ rest) = some (v, rest) := by
  have _ := h1
  unfold toValue at hv
  split at hv
  · rename_i v' heq
    simp only [Option.some.injEq] at hv
    subst hv
    have := (parseFuel_render _ ts v' [] heq hA hS).2 rest
    simp only [renderAll_nil, List.nil_append] at this
    unfold parseReply
    refine parseFuel_le _ _ ?_ _ _ this
    have := length_le_renderAll ts
    simp only [List.length_append]; omega
  · exact absurd hv (by simp)

/-- the same with the value produced rather than assumed -/
theorem render_parse_roundtrip' (ts : List Tok) (rest : Bytes) (h1 : oneValue ts = true)
    (hA : ArrOK ts) (hS : LinesOK ts) :
    ∃ v, toValue ts = some v ∧ parseReply (renderAll ts ++ rest) = some (v, rest) := by
  obtain ⟨v, hv⟩ := toValue_of_oneValue ts h1
  exact ⟨v, hv, render_parse_roundtrip ts rest h1 hA hS v hv⟩

/-! ### bulk replies: exact bytes, exact length header -/

theorem bulk_exact (b : Bytes) :
    render (.bulk b) = 36 :: formatInt b.length ++ [13, 10] ++ b ++ [13, 10] := rfl

/-- for EVERY payload (CR, LF, empty, …) the reader returns exactly the stored bytes -/
theorem bulk_parse (b rest : Bytes) : parseReply (render (.bulk b) ++ rest) = some (.bulk b, rest) := by
  have h := render_parse_roundtrip [.bulk b] rest (by simp [oneValue, valueSize])
    (by intro t ht; simp at ht; subst ht; rfl) (by intro t ht; simp at ht; subst ht; rfl)
    (.bulk b) (by simp [toValue, toValueAux])
  simpa [renderAll] using h

/-! ### pipelines -/

/-- reading `rs.length` replies off the concatenated renderings returns their values in order -/
theorem parseMany_renderAll (rs : List (List Tok)) (vs : List Value) (rest : Bytes)
    (hok : ∀ r ∈ rs, oneValue r = true ∧ ArrOK r ∧ LinesOK r)
    (hvs : rs.map toValue = vs.map some) :
    parseMany rs.length (rs.flatMap renderAll ++ rest) = some (vs, rest) := by
  induction rs generalizing vs with
  | nil =>
    cases vs with
    | nil => simp [parseMany, seqN]
    | cons _ _ => simp at hvs
  | cons r rs ih =>
    cases vs with
    | nil => simp at hvs
    | cons v vs =>
      simp only [List.map_cons, List.cons.injEq] at hvs
      obtain ⟨hv, hvs⟩ := hvs
      obtain ⟨h1, hA, hS⟩ := hok r (by simp)
      have hr := render_parse_roundtrip r (rs.flatMap renderAll ++ rest) h1 hA hS v hv
      have ht := ih vs (fun r' hr' => hok r' (List.mem_cons_of_mem _ hr')) hvs
      unfold parseMany at ht ⊢
      simp only [List.flatMap_cons, List.append_assoc, List.length_cons, seqN, hr, ht]

/-- parseMany over concatenation of inputs -/
theorem parseMany_append (j k : Nat) (bs bs' bs'' : Bytes) (vs ws : List Value)
    (h1 : parseMany j bs = some (vs, bs')) (h2 : parseMany k bs' = some (ws, bs'')) :
    parseMany (j + k) bs = some (vs ++ ws, bs'') := seqN_add _ j k bs bs' bs'' vs ws h1 h2

/-- PIPELINE IN SYNC: a client that pipelines k commands and then a marker reads exactly k replies
    (the k commands' values, in order) and then the marker's reply; nothing is left over or stolen. -/
theorem pipeline_in_sync (rs : List (List Tok)) (m : List Tok) (rest : Bytes)
    (vs : List Value) (vm : Value)
    (hok : ∀ r ∈ rs, oneValue r = true ∧ ArrOK r ∧ LinesOK r)
    (hm : oneValue m = true ∧ ArrOK m ∧ LinesOK m)
    (hvs : rs.map toValue = vs.map some) (hvm : toValue m = some vm) :
    parseMany (rs.length + 1) ((rs ++ [m]).flatMap renderAll ++ rest) = some (vs ++ [vm], rest) := by
  have := parseMany_renderAll (rs ++ [m]) (vs ++ [vm]) rest
    (by
      intro r hr
      rcases List.mem_append.1 hr with h | h
      · exact hok r h
      · simp at h; subst h; exact hm)
    (by simp [hvs, hvm])
  simpa using this

/-- the same with the values produced rather than assumed -/
theorem pipeline_in_sync' (rs : List (List Tok)) (m : List Tok) (rest : Bytes)
    (hok : ∀ r ∈ rs, oneValue r = true ∧ ArrOK r ∧ LinesOK r)
    (hm : oneValue m = true ∧ ArrOK m ∧ LinesOK m) :
    ∃ (vs : List Value) (vm : Value), rs.map toValue = vs.map some ∧ toValue m = some vm ∧
      parseMany (rs.length + 1) ((rs ++ [m]).flatMap renderAll ++ rest) = some (vs ++ [vm], rest) := by
  have hex : ∃ vs : List Value, rs.map toValue = vs.map some := by
    induction rs with
    | nil => exact ⟨[], rfl⟩
    | cons r rs ih =>
      obtain ⟨vs, hvs⟩ := ih (fun r' hr' => hok r' (List.mem_cons_of_mem _ hr'))
      obtain ⟨v, hv⟩ := toValue_of_oneValue r (hok r (by simp)).1
      exact ⟨v :: vs, by simp [hv, hvs]⟩
  obtain ⟨vs, hvs⟩ := hex
  obtain ⟨vm, hvm⟩ := toValue_of_oneValue m hm.1
  exact ⟨vs, vm, hvs, hvm, pipeline_in_sync rs m rest vs vm hok hm hvs hvm⟩

/-! ### concrete renderings (for the witnesses and examples below) -/

theorem formatInt_nat_lit (n : Nat) (l : Bytes)
    (h : (Nat.toDigits 10 n).map (fun c => c.val.toUInt8) = l) : formatInt (n : Int) = l := by
  have : ¬ ((n : Int) < 0) := by omega
  simp only [formatInt, this, if_false, Int.toNat_natCast, C15.natDigits_eq_map, h]

theorem formatInt_neg_lit (n : Nat) (hn : 0 < n) (l : Bytes)
    (h : (Nat.toDigits 10 n).map (fun c => c.val.toUInt8) = l) : formatInt (-(n : Int)) = 45 :: l := by
  have : (-(n : Int) < 0) := by omega
  simp only [formatInt, this, if_true, Int.natAbs_neg, Int.natAbs_natCast, C15.natDigits_eq_map, h]

/-! ### what goes wrong WITHOUT `oneValue`: an array header followed by too few elements -/

/-- Witness: a handler writes the header `*2` but only one element.  The reply is not one value
    (`oneValue = false`); the client, reading two replies (this one and the next command's `+OK`),
    swallows the next command's reply into the array and takes the marker's `+PONG` for the second
    reply: the pipeline is out of sync (and a client reading the three replies it is owed blocks
    forever: `parseMany 3 = none`). -/
theorem short_array_desync :
    oneValue [.arr 2, .bulk [97]] = false ∧
    parseMany 2 (renderAll [.arr 2, .bulk [97]] ++ renderAll [.simple [79, 75]] ++ renderAll [.simple [80, 79, 78, 71]]) =
      some ([.array [.bulk [97], .simple [79, 75]], .simple [80, 79, 78, 71]], []) ∧
    parseMany 3 (renderAll [.arr 2, .bulk [97]] ++ renderAll [.simple [79, 75]] ++ renderAll [.simple [80, 79, 78, 71]]) =
      none := by
  have f2 : formatInt 2 = [50] := formatInt_nat_lit 2 _ (by decide)
  have f1 : formatInt 1 = [49] := formatInt_nat_lit 1 _ (by decide)
  have hb : renderAll [.arr 2, .bulk [97]] ++ renderAll [.simple [79, 75]] ++ renderAll [.simple [80, 79, 78, 71]] =
      [42, 50, 13, 10, 36, 49, 13, 10, 97, 13, 10, 43, 79, 75, 13, 10, 43, 80, 79, 78, 71, 13, 10] := by
    simp [renderAll, render, crlf, f2, f1]
  refine ⟨by simp [oneValue, valueSize, valueSize.elems], ?_, ?_⟩
  · rw [hb]; rfl
  · rw [hb]; rfl

/-! ### the side conditions are necessary -/

/-- without `ArrOK`: `WriteArray(-5)` is "one value" for the writer but prints `*-5`, which no
    RESP reader accepts -/
theorem arrOK_necessary :
    oneValue [.arr (-5)] = true ∧ ¬ ArrOK [.arr (-5)] ∧ parseReply (renderAll [.arr (-5)]) = none := by
  have f5 : formatInt (-5) = [45, 53] := formatInt_neg_lit 5 (by decide) _ (by decide)
  have hb : renderAll [.arr (-5)] = [42, 45, 53, 13, 10] := by simp [renderAll, render, crlf, f5]
  refine ⟨by simp [oneValue, valueSize], by decide, ?_⟩
  rw [hb]; rfl

/-- without `LinesOK`: a simple string with an LF inside is rejected by the strict reader -/
theorem linesOK_necessary :
    oneValue [.simple [79, 10, 75]] = true ∧ ¬ LinesOK [.simple [79, 10, 75]] ∧
    parseReply (renderAll [.simple [79, 10, 75]]) = none := by
  have hb : renderAll [.simple [79, 10, 75]] = [43, 79, 10, 75, 13, 10] := by simp [renderAll, render, crlf]
  refine ⟨by simp [oneValue, valueSize], by decide, ?_⟩
  rw [hb]; rfl

/-! ### non-vacuity: a concrete nested reply satisfying all hypotheses, and its parse -/

/-- `*6` [ bulk "a\r\nb", bulk "", null bulk, :-42, `*2` [ +OK, -ERR ], null array ] -/
def sampleToks : List Tok :=
  [.arr 6, .bulk [97, 13, 10, 98], .bulk [], .nullBulk, .int (-42), .arr 2, .simple [79, 75], .err 0, .nullArr]

def sampleValue : Value :=
  .array [.bulk [97, 13, 10, 98], .bulk [], .nullBulk, .int (-42), .array [.simple [79, 75], .error (errText 0)], .nullArray]

example : oneValue sampleToks = true := by simp [sampleToks, oneValue, valueSize, valueSize.elems]
example : ArrOK sampleToks := by decide
example : LinesOK sampleToks := by decide
example : toValue sampleToks = some sampleValue := rfl

example : parseReply (renderAll sampleToks ++ [1, 2, 3]) = some (sampleValue, [1, 2, 3]) :=
  render_parse_roundtrip sampleToks [1, 2, 3] (by simp [sampleToks, oneValue, valueSize, valueSize.elems])
    (by decide) (by decide) sampleValue rfl

/-- the same computed on the literal bytes -/
example :
    renderAll sampleToks =
      [42, 54, 13, 10,                                   -- *6
       36, 52, 13, 10, 97, 13, 10, 98, 13, 10,           -- $4 a\r\nb
       36, 48, 13, 10, 13, 10,                           -- $0
       36, 45, 49, 13, 10,                               -- $-1
       58, 45, 52, 50, 13, 10,                           -- :-42
       42, 50, 13, 10,                                   -- *2
       43, 79, 75, 13, 10,                               -- +OK
       45, 69, 82, 82, 13, 10,                           -- -ERR
       42, 45, 49, 13, 10] ∧                             -- *-1
    parseReply
      [42, 54, 13, 10, 36, 52, 13, 10, 97, 13, 10, 98, 13, 10, 36, 48, 13, 10, 13, 10, 36, 45, 49, 13, 10,
       58, 45, 52, 50, 13, 10, 42, 50, 13, 10, 43, 79, 75, 13, 10, 45, 69, 82, 82, 13, 10, 42, 45, 49, 13, 10, 7] =
      some (.array [.bulk [97, 13, 10, 98], .bulk [], .nullBulk, .int (-42),
                    .array [.simple [79, 75], .error [69, 82, 82]], .nullArray], [7]) := by
  have f6 : formatInt 6 = [54] := formatInt_nat_lit 6 _ (by decide)
  have f4 : formatInt 4 = [52] := formatInt_nat_lit 4 _ (by decide)
  have f0 : formatInt 0 = [48] := formatInt_nat_lit 0 _ (by decide)
  have f2 : formatInt 2 = [50] := formatInt_nat_lit 2 _ (by decide)
  have f42 : formatInt (-42) = [45, 52, 50] := formatInt_neg_lit 42 (by decide) _ (by decide)
  have he : errText 0 = [69, 82, 82] := by
    show Bytes.ofString "ERR" = _
    rw [C15.ofString_ascii _ (by decide)]; decide
  have hnb : Bytes.ofString "$-1\r\n" = [36, 45, 49, 13, 10] := render_nullBulk
  have hna : Bytes.ofString "*-1\r\n" = [42, 45, 49, 13, 10] := render_nullArr
  refine ⟨?_, rfl⟩
  simp [sampleToks, renderAll, render, crlf, f6, f4, f0, f2, f42, he, hnb, hna]

/-- a pipeline of three commands and a marker -/
example :
    parseMany 4 (([[Tok.int 1], sampleToks, [Tok.bulk [13, 10]]] ++ [[Tok.simple [80, 79, 78, 71]]]).flatMap renderAll ++ [9]) =
      some ([Value.int 1, sampleValue, Value.bulk [13, 10]] ++ [Value.simple [80, 79, 78, 71]], [9]) :=
  pipeline_in_sync [[.int 1], sampleToks, [.bulk [13, 10]]] [.simple [80, 79, 78, 71]] [9]
    [.int 1, sampleValue, .bulk [13, 10]] (.simple [80, 79, 78, 71])
    (by
      intro r hr
      simp only [List.mem_cons, List.not_mem_nil, or_false] at hr
      rcases hr with rfl | rfl | rfl
      · exact ⟨by simp [oneValue, valueSize], by decide, by decide⟩
      · exact ⟨by simp [sampleToks, oneValue, valueSize, valueSize.elems], by decide, by decide⟩
      · exact ⟨by simp [oneValue, valueSize], by decide, by decide⟩)
    ⟨by simp [oneValue, valueSize], by decide, by decide⟩ rfl rfl

/-! ### decimal samples (the general fact is `parseDec_formatInt`) -/

example : parseDec (formatInt 0) = some 0 := parseDec_formatInt 0
example : parseDec (formatInt 18446744073709551616) = some 18446744073709551616 := parseDec_formatInt _
example : parseDec (formatInt (-9223372036854775808)) = some (-9223372036854775808) := parseDec_formatInt _
example : formatInt ((4096 : Nat) : Int) = [52, 48, 57, 54] := formatInt_nat_lit 4096 _ (by decide)
example : parseDec [52, 48, 57, 54] = some 4096 := by decide
example : parseDec [45, 55] = some (-7) := by decide
example : parseDec [45] = none := by decide
example : parseDec [] = none := by decide
example : parseDec [43, 55] = none := by decide
-- strictness of the reader
example : parseReply [42, 45, 53, 13, 10] = none := rfl            -- `*-5`
example : parseReply [36, 51, 13, 10, 97, 98, 13, 10] = none := rfl   -- `$3` with 2 bytes
example : parseReply [43, 79, 10, 75, 13, 10] = none := rfl         -- LF inside a simple string
example : parseReply [63, 13, 10] = none := rfl                     -- unknown type byte

end NodisVerif.Proofs.C16Parse
