import NodisVerif.Proofs.C09Changed
/-
  C09 — "some step CHANGED k" implies "some step SIGNALLED k" along a schedule, for tables whose
  closures signal what they change.
-/
namespace NodisVerif.Proofs.C08Step
open Resp Server
open NodisVerif.Proofs.C09Writers

theorem SomeStep.imp_inv (H : Table) {P Q : Server → Cmd → Prop} (I : Server → Prop)
    (hI : ∀ s m, I s → I (step H s m).1) (hpq : ∀ s m, I s → P s m → Q s m) :
    ∀ (ms : List Cmd) (s : Server), I s → SomeStep H P s ms → SomeStep H Q s ms := by
  intro ms
  induction ms with
  | nil => intro _ _ h; exact h
  | cons m rest ih =>
    intro s hs h
    rcases h with h | h
    · exact Or.inl (hpq s m hs h)
    · exact Or.inr (ih _ (hI s m hs) h)

/-- the invariant needed to pass from "changed" to "signalled" -/
def SigInv (s : Server) : Prop := QueuesSignal s ∧ s.store.pebble = true

theorem SigInv.step {H : Table} (hH : TableSignals H) {s : Server} (h : SigInv s) (m : Cmd) : SigInv (step H s m).1 :=
  ⟨h.1.step hH m, (step_changed_touches hH h.1 h.2 m).1⟩

theorem SigInv.run {H : Table} (hH : TableSignals H) : ∀ (ms : List Cmd) {s : Server}, SigInv s → SigInv (run H s ms).1 := by
  intro ms; induction ms with
  | nil => intro s h; exact h
  | cons m rest ih => intro s h; exact ih (h.step hH m)

theorem someStep_changed_touches {H : Table} (hH : TableSignals H) (k : Bytes) (ms : List Cmd) (s : Server) (hs : SigInv s)
    (h : SomeStep H (fun s m => changed s.store (step H s m).1.store k) s ms) :
    SomeStep H (fun s m => stepTouches H s m k) s ms :=
  SomeStep.imp_inv H SigInv (fun _ m hs => hs.step hH m)
    (fun _ m hs hc => (step_changed_touches hH hs.1 hs.2 m).2 k hc) ms s hs h

end NodisVerif.Proofs.C08Step
