import NodisVerif.Proofs.ProtoTrace
/-
  Locking protocol: positions in a trace; conflicts between transactions follow the order of their
  commits, so the conflict graph has no cycle (C07.3).
-/
namespace NodisVerif.Proofs.Proto
open NodisVerif.Proto

theorem phase_init (t : Tx) : phase {} t = none := by simp [phase, PState.tx, assoc]

theorem take_of_split {α : Type} {pre post : List α} {p : Nat} (h : pre.length = p) :
    (pre ++ post).take p = pre := by
  subst h; simp

/-- C07.2 with positions: validated at `i`, committed at `c`, not ended in between: no release at `j` -/
theorem lock_point_positions {es : List Ev} {s : PState} (hs : runAll {} es = some s) {t : Tx} {r : Rec}
    {i j c : Nat} {v : Ev} (hij : i < j) (hjc : j < c) (hv : es[i]? = some v) (hval : Validates t r v)
    (hc : es[c]? = some (.commit t)) (hnf : ∀ p, i < p → p < c → es[p]? ≠ some (.fin t)) :
    es[j]? ≠ some (.unlock t r) := by
  obtain ⟨pre, mid, post, rfl, _, _, hmid, _, hmem⟩ := split_two hv hc (by omega)
  have h := (lock_point_decomposed hs hval (by
    intro e he c'; subst c'
    obtain ⟨p, h1, h2, h3⟩ := hmid _ he
    exact hnf p h1 h2 h3)).1
  intro c'
  exact h _ (hmem j _ hij hjc c') rfl

/-- at the commit every hold validated since the last `fin` is still there -/
theorem lock_point_held {es : List Ev} {s : PState} (hs : runAll {} es = some s) {t : Tx} {r : Rec}
    {i c : Nat} {v : Ev} (hic : i < c) (hv : es[i]? = some v) (hval : Validates t r v)
    (hc : es[c]? = some (.commit t)) (hnf : ∀ p, i < p → p < c → es[p]? ≠ some (.fin t)) :
    ∃ sc, runAll {} (es.take c) = some sc ∧ HoldsValid sc t r := by
  obtain ⟨pre, mid, post, rfl, h1, h2, hmid, _, _⟩ := split_two hv hc hic
  obtain ⟨_, sc, a, b, _⟩ := lock_point_decomposed hs hval (by
    intro e he c'; subst c'
    obtain ⟨p, h1, h2, h3⟩ := hmid _ he
    exact hnf p h1 h2 h3)
  refine ⟨sc, ?_, b⟩
  have : pre ++ v :: (mid ++ Ev.commit t :: post) = (pre ++ v :: mid) ++ Ev.commit t :: post := by simp
  rw [this, take_of_split (by simp; omega)]
  exact a

/-- C07.1 with positions: committed at `c`, not ended before `j`: the step at `j` is not a growing step -/
theorem no_growth_positions {es : List Ev} {s : PState} (hs : runAll {} es = some s) {t : Tx}
    {c j : Nat} {e : Ev} (hcj : c < j) (hc : es[c]? = some (.commit t)) (he : es[j]? = some e)
    (hnf : ∀ p, c < p → p < j → es[p]? ≠ some (.fin t)) : ¬ Grows t e := by
  obtain ⟨pre, mid, post, rfl, _, _, hmid, _, _⟩ := split_two hc he hcj
  have hs' : runAll {} ((pre ++ Ev.commit t :: (mid ++ [e])) ++ post) = some s := by simpa using hs
  obtain ⟨s1, h1, _⟩ := runAll_append_some hs'
  exact no_growth_after_commit h1 (by
    intro x hx c'; subst c'
    obtain ⟨p, h1, h2, h3⟩ := hmid _ hx
    exact hnf p h1 h2 h3)

/-- at position `p` transaction `t` releases a hold on `r` that was validated -/
def ValidRelease (es : List Ev) (p : Nat) (t : Tx) (r : Rec) : Prop :=
  es[p]? = some (.unlock t r) ∧ ∃ sp, runAll {} (es.take p) = some sp ∧ HoldsValid sp t r

/-- at position `q` transaction `u` is granted the lock of `r` -/
def Acquires (es : List Ev) (q : Nat) (u : Tx) (r : Rec) : Prop := ∃ k m, es[q]? = some (.lock u k r m)

/-- no transaction id is used twice in the trace -/
def BeginOnce (es : List Ev) : Prop :=
  ∀ (t : Tx) (i j : Nat), es[i]? = some (Ev.begin t) → es[j]? = some (Ev.begin t) → i = j

/-- the ids that begin, in order -/
def begins (es : List Ev) : List Tx := es.filterMap fun e => match e with | .begin t => some t | _ => none

/-- a checkable criterion for `BeginOnce` -/
theorem beginOnce_of_nodup {es : List Ev} (h : (begins es).Nodup) : BeginOnce es := by
  have key : ∀ (t : Tx) (i j : Nat), i < j → es[i]? = some (Ev.begin t) → es[j]? = some (Ev.begin t) → False := by
    intro t i j hij hi hj
    obtain ⟨pre, mid, post, rfl, _⟩ := split_two hi hj hij
    simp only [begins, List.filterMap_append, List.filterMap_cons] at h
    have h1 := (List.nodup_append.1 h).2.1
    have h2 := (List.nodup_cons.1 h1).1
    exact h2 (List.mem_append_right _ List.mem_cons_self)
  intro t i j hi hj
  apply Classical.byContradiction
  intro hne
  rcases Nat.lt_or_gt_of_ne hne with h' | h'
  · exact key t i j h' hi hj
  · exact key t j i h' hj hi

/-- a validated hold is released after the `commit` of the same run of the transaction -/
theorem release_after_commit {es : List Ev} {s : PState} (hs : runAll {} es = some s) {t : Tx} {r : Rec}
    {p : Nat} (h : ValidRelease es p t r) :
    ∃ c, c < p ∧ es[c]? = some (.commit t) ∧ ∀ j, c < j → j < p → es[j]? ≠ some (.fin t) := by
  obtain ⟨hp, sp, hsp, hq⟩ := h
  obtain ⟨pre, post, rfl, hl⟩ := split_at hp
  rw [take_of_split hl] at hsp
  obtain ⟨s1, h1, h2⟩ := runAll_append_some hs
  rw [hsp] at h1; cases h1
  obtain ⟨s2, h3, _⟩ := runAll_cons_some h2
  obtain ⟨p1, p2, rfl, hnf⟩ := commit_before_release hsp hq h3
  refine ⟨p1.length, by rw [← hl]; simp, by simp, ?_⟩
  intro j h1 h2 c
  obtain ⟨d, rfl⟩ : ∃ d, j = p1.length + 1 + d := ⟨j - p1.length - 1, by omega⟩
  have hd : d < p2.length := by simp at hl; omega
  have : ((p1 ++ Ev.commit t :: p2) ++ Ev.unlock t r :: post)[p1.length + 1 + d]? = p2[d]? := by
    rw [List.getElem?_append_left (by simp; omega), List.getElem?_append_right (by omega)]
    have : p1.length + 1 + d - p1.length = d + 1 := by omega
    rw [this, List.getElem?_cons_succ]
  rw [this] at c
  exact hnf _ (List.mem_of_getElem? c) rfl

/-- with ids used once: a transaction is granted no lock after its commit -/
theorem acquire_before_commit {es : List Ev} {s : PState} (hs : runAll {} es = some s) (hb : BeginOnce es)
    {u : Tx} {r : Rec} {q c : Nat} (ha : Acquires es q u r) (hc : es[c]? = some (.commit u)) : q < c := by
  obtain ⟨k, m, hq⟩ := ha
  apply Classical.byContradiction
  intro hlt
  have hne : c ≠ q := by intro e; subst e; rw [hc] at hq; cases hq
  have hcq : c < q := by omega
  obtain ⟨pre, mid, post, rfl, hl1, hl2, hmid, hpre, _⟩ := split_two hc hq hcq
  obtain ⟨s1, h1, h2⟩ := runAll_append_some hs
  obtain ⟨s2, h3, h4⟩ := runAll_cons_some h2
  obtain ⟨s3, h5, h6⟩ := runAll_append_some h4
  obtain ⟨s4, h7, _⟩ := runAll_cons_some h6
  have hp1 : phase s1 u = some false ∧ phase s2 u = some true := by
    rcases phase_step h3 u with ⟨a, _, _⟩ | ⟨a, _, _⟩ | ⟨_, a, b⟩ | ⟨_, _, a, _⟩
    · cases a
    · cases a
    · exact ⟨a, b⟩
    · exact absurd rfl a
  have hbeg : .begin u ∈ pre := active_has_begin h1 (phase_init u) (by rw [hp1.1]; nofun)
  obtain ⟨i, hi1, hi2⟩ := hpre _ hbeg
  have hnb : ∀ e ∈ mid, e ≠ .begin u := by
    intro e he c'; subst c'
    obtain ⟨j, hj1, hj2, hj3⟩ := hmid _ he
    have := hb u i j hi2 hj3
    omega
  have hp3 := phase_done_run h5 (by rw [hp1.2]; nofun) hnb
  have hi3 : Inv s3 := ((Inv.init.run h1).step h3).run h5
  exact hp3 (grows_phase hi3 (show Grows u (.lock u k r m) from rfl) h7)

/-- `t` released a validated hold on some record before `u` was granted the lock of that record -/
def Conflict (es : List Ev) (t u : Tx) : Prop :=
  ∃ p q r, p < q ∧ ValidRelease es p t r ∧ Acquires es q u r

def isCommit (t : Tx) : Ev → Bool
  | .commit u => u == t
  | _ => false

theorem isCommit_iff {t : Tx} {e : Ev} : isCommit t e = true ↔ e = .commit t := by
  cases e <;> simp [isCommit]

/-- the position of the first `commit t` (the length of the trace if there is none) -/
def commitPos (es : List Ev) (t : Tx) : Nat := es.findIdx (isCommit t)

theorem commitPos_le {es : List Ev} {t : Tx} {c : Nat} (h : es[c]? = some (.commit t)) : commitPos es t ≤ c := by
  apply Classical.byContradiction
  intro hlt
  have hc : c < es.length := by
    apply Classical.byContradiction; intro h'
    rw [List.getElem?_eq_none (by omega)] at h; cases h
  have := List.not_of_lt_findIdx (p := isCommit t) (xs := es) (i := c) (by unfold commitPos at hlt; omega)
  rw [List.getElem?_eq_getElem hc] at h
  rw [Option.some.inj h] at this
  simp [isCommit] at this

theorem commitPos_spec {es : List Ev} {t : Tx} (h : commitPos es t < es.length) :
    es[commitPos es t]? = some (.commit t) := by
  rw [List.getElem?_eq_getElem h]
  exact congrArg some (isCommit_iff.1 (List.findIdx_getElem (w := h)))

/-- C07.3: conflicts follow the commit order -/
theorem conflict_commit_order {es : List Ev} {s : PState} (hs : runAll {} es = some s) (hb : BeginOnce es)
    {t u : Tx} (h : Conflict es t u) :
    (∃ ct : Nat, es[ct]? = some (Ev.commit t) ∧ ∀ cu : Nat, es[cu]? = some (Ev.commit u) → ct < cu) ∧
      commitPos es t < commitPos es u := by
  obtain ⟨p, q, r, hpq, hrel, hacq⟩ := h
  obtain ⟨ct, h1, h2, _⟩ := release_after_commit hs hrel
  have hord : ∀ cu, es[cu]? = some (.commit u) → ct < cu := by
    intro cu hcu
    have := acquire_before_commit hs hb hacq hcu
    omega
  refine ⟨⟨ct, h2, hord⟩, ?_⟩
  have hle := commitPos_le h2
  have hq : q < es.length := by
    obtain ⟨k, m, hq⟩ := hacq
    apply Classical.byContradiction; intro h'
    rw [List.getElem?_eq_none (by omega)] at hq; cases hq
  by_cases hlen : commitPos es u < es.length
  · have := hord _ (commitPos_spec hlen)
    omega
  · omega

theorem transGen_lt {α : Type} {R : α → α → Prop} (f : α → Nat) (hR : ∀ a b, R a b → f a < f b) {a b : α}
    (h : Relation.TransGen R a b) : f a < f b := by
  induction h with
  | single h1 => exact hR _ _ h1
  | tail _ h2 ih => exact Nat.lt_trans ih (hR _ _ h2)

/-- the conflict graph of a trace has no cycle -/
theorem conflict_acyclic {es : List Ev} {s : PState} (hs : runAll {} es = some s) (hb : BeginOnce es)
    (t : Tx) : ¬ Relation.TransGen (Conflict es) t t := by
  intro h
  exact Nat.lt_irrefl _ (transGen_lt (commitPos es) (fun a b hab => (conflict_commit_order hs hb hab).2) h)

end NodisVerif.Proofs.Proto
