import NodisVerif.Model.Handler
/-
  C16 "exactly one well-formed RESP reply per command", handler level (Handler.table1).

  Part 1 (this file): general facts about `valueSize` / `oneValue`, the predicate `OneReply`, and the
  handlers whose closure is `call r k` with `k` writing one scalar token.
  Part 2 (C16Handlers2.lean): SET, MSET, KEYS, SCAN, MGET (with its finding) and `table1_one_reply`.
-/
namespace NodisVerif.Proofs.C16Handlers
open NodisVerif NodisVerif.Resp NodisVerif.Handler

/-! ## `valueSize`: bounds, fuel monotonicity, prefix stability -/

theorem valueSize_zero (ts : List Tok) : valueSize ts 0 = none := by
  rw [valueSize]

theorem valueSize_nil (f : Nat) : valueSize [] f = none := by
  cases f with
  | zero => rw [valueSize]
  | succ f => rw [valueSize]; omega

theorem valueSize_arr (n : Int) (rest : List Tok) (f : Nat) :
    valueSize (Tok.arr n :: rest) (f + 1) = if n < 0 then some 1 else valueSize.elems f n.toNat rest 1 := by
  rw [valueSize]

/-- a token that is not an array header -/
def isScalar : Tok → Bool
  | .arr _ => false
  | _ => true

theorem valueSize_scalar (t : Tok) (rest : List Tok) (f : Nat) (h : isScalar t = true) :
    valueSize (t :: rest) (f + 1) = some 1 := by
  cases t <;> first | (simp [isScalar] at h; done) | (rw [valueSize]; intro n hn; cases hn)

theorem elems_zero (f : Nat) (ts : List Tok) (acc : Nat) : valueSize.elems f 0 ts acc = some acc := by
  rw [valueSize.elems]

theorem elems_succ (f k : Nat) (ts : List Tok) (acc : Nat) :
    valueSize.elems f (k + 1) ts acc =
      match valueSize ts f with
      | none => none
      | some sz => valueSize.elems f k (ts.drop sz) (acc + sz) := by
  rw [valueSize.elems]
  cases valueSize ts f <;> rfl

/-- bound for the element loop, given the bound for values at the same fuel -/
theorem elems_bound (f : Nat)
    (hv : ∀ ts k, valueSize ts f = some k → 1 ≤ k ∧ k ≤ ts.length) :
    ∀ (n : Nat) (ts : List Tok) (acc r : Nat), valueSize.elems f n ts acc = some r →
      acc + n ≤ r ∧ r ≤ acc + ts.length := by
  intro n
  induction n with
  | zero =>
    intro ts acc r h
    rw [elems_zero] at h
    cases h; omega
  | succ n ih =>
    intro ts acc r h
    rw [elems_succ] at h
    cases hvs : valueSize ts f with
    | none => rw [hvs] at h; cases h
    | some sz =>
      rw [hvs] at h
      have hb := hv ts sz hvs
      have := ih (ts.drop sz) (acc + sz) r h
      rw [List.length_drop] at this
      omega

/-- a complete value has at least one token and does not read past the list -/
theorem valueSize_bound : ∀ (f : Nat) (ts : List Tok) (k : Nat), valueSize ts f = some k → 1 ≤ k ∧ k ≤ ts.length := by
  intro f
  induction f with
  | zero => intro ts k h; rw [valueSize_zero] at h; cases h
  | succ f ih =>
    intro ts k h
    cases ts with
    | nil => rw [valueSize_nil] at h; cases h
    | cons t rest =>
      by_cases hs : isScalar t = true
      · rw [valueSize_scalar t rest f hs] at h
        cases h; simp
      · cases t <;> first | (simp [isScalar] at hs; done) | skip
        rename_i n
        rw [valueSize_arr] at h
        split at h
        · cases h; simp
        · have := elems_bound f ih _ _ _ _ h
          simp only [List.length_cons]
          omega

theorem elems_mono1 (f : Nat)
    (hv : ∀ ts k, valueSize ts f = some k → valueSize ts (f + 1) = some k) :
    ∀ (n : Nat) (ts : List Tok) (acc r : Nat), valueSize.elems f n ts acc = some r →
      valueSize.elems (f + 1) n ts acc = some r := by
  intro n
  induction n with
  | zero => intro ts acc r h; rw [elems_zero] at h; rw [elems_zero]; exact h
  | succ n ih =>
    intro ts acc r h
    rw [elems_succ] at h
    rw [elems_succ]
    cases hvs : valueSize ts f with
    | none => rw [hvs] at h; cases h
    | some sz =>
      rw [hvs] at h
      rw [hv ts sz hvs]
      exact ih _ _ _ h

/-- `valueSize` is monotone in the fuel (one step) -/
theorem valueSize_mono1 : ∀ (f : Nat) (ts : List Tok) (k : Nat),
    valueSize ts f = some k → valueSize ts (f + 1) = some k := by
  intro f
  induction f with
  | zero => intro ts k h; rw [valueSize_zero] at h; cases h
  | succ f ih =>
    intro ts k h
    cases ts with
    | nil => rw [valueSize_nil] at h; cases h
    | cons t rest =>
      by_cases hs : isScalar t = true
      · rw [valueSize_scalar t rest f hs] at h
        rw [valueSize_scalar t rest (f + 1) hs]; exact h
      · cases t <;> first | (simp [isScalar] at hs; done) | skip
        rename_i n
        rw [valueSize_arr] at h
        rw [valueSize_arr]
        split
        · rename_i hn; rw [if_pos hn] at h; exact h
        · rename_i hn; rw [if_neg hn] at h
          exact elems_mono1 f ih _ _ _ _ h

/-- `valueSize` is monotone in the fuel -/
theorem valueSize_mono (ts : List Tok) (k f f' : Nat) (hle : f ≤ f')
    (h : valueSize ts f = some k) : valueSize ts f' = some k := by
  induction hle with
  | refl => exact h
  | step _ ih => exact valueSize_mono1 _ _ _ ih

theorem elems_prefix (f : Nat) (more : List Tok)
    (hv : ∀ ts k, valueSize ts f = some k → valueSize (ts ++ more) f = some k) :
    ∀ (n : Nat) (ts : List Tok) (acc r : Nat), valueSize.elems f n ts acc = some r →
      valueSize.elems f n (ts ++ more) acc = some r := by
  intro n
  induction n with
  | zero => intro ts acc r h; rw [elems_zero] at h; rw [elems_zero]; exact h
  | succ n ih =>
    intro ts acc r h
    rw [elems_succ] at h
    rw [elems_succ]
    cases hvs : valueSize ts f with
    | none => rw [hvs] at h; cases h
    | some sz =>
      rw [hvs] at h
      rw [hv ts sz hvs]
      have hb := (valueSize_bound f ts sz hvs).2
      show valueSize.elems f n (List.drop sz (ts ++ more)) (acc + sz) = some r
      rw [List.drop_append_of_le_length hb]
      exact ih _ _ _ h

/-- `valueSize` reads only a prefix: tokens after a complete value do not matter -/
theorem valueSize_append : ∀ (f : Nat) (ts more : List Tok) (k : Nat),
    valueSize ts f = some k → valueSize (ts ++ more) f = some k := by
  intro f
  induction f with
  | zero => intro ts more k h; rw [valueSize_zero] at h; cases h
  | succ f ih =>
    intro ts more k h
    cases ts with
    | nil => rw [valueSize_nil] at h; cases h
    | cons t rest =>
      by_cases hs : isScalar t = true
      · rw [valueSize_scalar t rest f hs] at h
        rw [List.cons_append, valueSize_scalar t _ f hs]; exact h
      · cases t <;> first | (simp [isScalar] at hs; done) | skip
        rename_i n
        rw [valueSize_arr] at h
        rw [List.cons_append, valueSize_arr]
        split
        · rename_i hn; rw [if_pos hn] at h; exact h
        · rename_i hn; rw [if_neg hn] at h
          exact elems_prefix f more (fun ts k => ih ts more k) _ _ _ _ h

/-! ## `oneValue` -/

theorem oneValue_iff (ts : List Tok) : oneValue ts = true ↔ valueSize ts (ts.length + 1) = some ts.length := by
  simp [oneValue]

theorem oneValue_nil : oneValue ([] : List Tok) = false := by
  simp [oneValue, valueSize_nil]

/-- one scalar token is one value -/
theorem oneValue_scalar (t : Tok) (h : isScalar t = true) : oneValue [t] = true := by
  rw [oneValue_iff]
  exact valueSize_scalar t [] _ h

/-- an array header announcing no elements (`*0`, or a negative count) is one value -/
theorem oneValue_arr_nonpos (n : Int) (h : n ≤ 0) : oneValue [Tok.arr n] = true := by
  rw [oneValue_iff]
  show valueSize [Tok.arr n] (0 + 1 + 1) = some 1
  rw [valueSize_arr]
  split
  · rfl
  · have : n = 0 := by omega
    subst this
    show valueSize.elems (0 + 1) 0 [] 1 = some 1
    rw [elems_zero]

/-- a value is never empty -/
theorem oneValue_length_pos (ts : List Tok) (h : oneValue ts = true) : 1 ≤ ts.length := by
  rw [oneValue_iff] at h
  exact (valueSize_bound _ _ _ h).1

/-- one value followed by anything: `valueSize` finds exactly the value, for any sufficient fuel -/
theorem valueSize_of_oneValue (v more : List Tok) (f : Nat) (hf : v.length + 1 ≤ f)
    (h : oneValue v = true) : valueSize (v ++ more) f = some v.length := by
  rw [oneValue_iff] at h
  exact valueSize_append _ _ _ _ (valueSize_mono _ _ _ _ hf h)

/-- the element loop over a concatenation of values -/
theorem elems_flatten (f : Nat) :
    ∀ (vs : List (List Tok)) (more : List Tok) (acc : Nat),
      (∀ v ∈ vs, oneValue v = true ∧ v.length + 1 ≤ f) →
      valueSize.elems f vs.length (vs.flatten ++ more) acc = some (acc + vs.flatten.length) := by
  intro vs
  induction vs with
  | nil => intro more acc _; simp [elems_zero]
  | cons v vs ih =>
    intro more acc h
    have hv := h v (List.mem_cons_self)
    rw [List.length_cons, elems_succ, List.flatten_cons, List.append_assoc,
      valueSize_of_oneValue v _ f hv.2 hv.1]
    show valueSize.elems f vs.length (List.drop v.length (v ++ (vs.flatten ++ more))) (acc + v.length) = _
    rw [List.drop_left]
    rw [ih more (acc + v.length) (fun w hw => h w (List.mem_cons_of_mem _ hw))]
    simp only [List.length_append]
    congr 1; omega

theorem length_le_flatten (vs : List (List Tok)) (v : List Tok) (h : v ∈ vs) : v.length ≤ vs.flatten.length := by
  induction vs with
  | nil => cases h
  | cons w vs ih =>
    rw [List.flatten_cons, List.length_append]
    cases h with
    | head => omega
    | tail _ h' => have := ih h'; omega

/-- an array header followed by exactly that many values is one value (general form, also used for
    the EXEC reply) -/
theorem oneValue_arr_flatten (vs : List (List Tok)) (h : ∀ v ∈ vs, oneValue v = true) :
    oneValue (Tok.arr vs.length :: vs.flatten) = true := by
  rw [oneValue_iff, List.length_cons, valueSize_arr]
  have hn : ¬ ((vs.length : Int) < 0) := by omega
  rw [if_neg hn, Int.toNat_natCast]
  have := elems_flatten (vs.flatten.length + 1) vs [] 1
    (fun v hv => ⟨h v hv, by have := length_le_flatten vs v hv; omega⟩)
  rw [List.append_nil] at this
  rw [this]
  congr 1; omega

/-- same, with the count given separately -/
theorem oneValue_arr_flatten' (n : Int) (vs : List (List Tok)) (hn : n = vs.length)
    (h : ∀ v ∈ vs, oneValue v = true) : oneValue (Tok.arr n :: vs.flatten) = true := by
  subst hn; exact oneValue_arr_flatten vs h

theorem flatten_map_singleton (ts : List Tok) : (ts.map fun t => [t]).flatten = ts := by
  induction ts with
  | nil => rfl
  | cons t ts ih => simp [ih]

/-- an array header followed by that many scalar tokens -/
theorem oneValue_arr_scalars (ts : List Tok) (h : ∀ t ∈ ts, isScalar t = true) :
    oneValue (Tok.arr ts.length :: ts) = true := by
  have := oneValue_arr_flatten (ts.map fun t => [t]) (by
    intro v hv
    rw [List.mem_map] at hv
    obtain ⟨t, ht, rfl⟩ := hv
    exact oneValue_scalar t (h t ht))
  rw [List.length_map] at this
  rw [flatten_map_singleton] at this
  exact this

/-- `bulkList` (array of bulk strings) is one value -/
theorem oneValue_bulkList (xs : List Bytes) : oneValue (bulkList xs) = true := by
  have := oneValue_arr_scalars (xs.map Tok.bulk) (by
    intro t ht
    rw [List.mem_map] at ht
    obtain ⟨b, _, rfl⟩ := ht
    rfl)
  rw [List.length_map] at this
  exact this

/-! ## converse: what follows one array header splits into that many values -/

theorem elems_split (f : Nat)
    (hv : ∀ ts k, valueSize ts f = some k → oneValue (ts.take k) = true) :
    ∀ (n : Nat) (ts : List Tok) (acc r : Nat), valueSize.elems f n ts acc = some r →
      ∃ vs : List (List Tok), vs.length = n ∧ ts.take (r - acc) = vs.flatten ∧ ∀ v ∈ vs, oneValue v = true := by
  intro n
  induction n with
  | zero =>
    intro ts acc r h
    rw [elems_zero] at h
    cases h
    exact ⟨[], rfl, by simp, by simp⟩
  | succ n ih =>
    intro ts acc r h
    rw [elems_succ] at h
    cases hvs : valueSize ts f with
    | none => rw [hvs] at h; cases h
    | some sz =>
      rw [hvs] at h
      have hb := elems_bound f (valueSize_bound f) _ _ _ _ h
      obtain ⟨vs, hlen, hfl, hall⟩ := ih _ _ _ h
      refine ⟨ts.take sz :: vs, by simp [hlen], ?_, ?_⟩
      · have : r - acc = sz + (r - (acc + sz)) := by omega
        rw [this, List.take_add, hfl, List.flatten_cons]
      · intro v hvm
        cases hvm with
        | head => exact hv ts sz hvs
        | tail _ h' => exact hall v h'

/-- the tokens consumed by `valueSize` are one value on their own -/
theorem valueSize_take : ∀ (f : Nat) (ts : List Tok) (k : Nat),
    valueSize ts f = some k → oneValue (ts.take k) = true := by
  intro f
  induction f with
  | zero => intro ts k h; rw [valueSize_zero] at h; cases h
  | succ f ih =>
    intro ts k h
    cases ts with
    | nil => rw [valueSize_nil] at h; cases h
    | cons t rest =>
      by_cases hs : isScalar t = true
      · rw [valueSize_scalar t rest f hs] at h
        cases h
        exact oneValue_scalar t hs
      · cases t <;> first | (simp [isScalar] at hs; done) | skip
        rename_i n
        rw [valueSize_arr] at h
        split at h
        · cases h
          rename_i hn
          exact oneValue_arr_nonpos n (by omega)
        · rename_i hn
          have hb := elems_bound f (valueSize_bound f) _ _ _ _ h
          obtain ⟨vs, hlen, hfl, hall⟩ := elems_split f ih _ _ _ _ h
          have hk : k = (k - 1) + 1 := by omega
          rw [hk, List.take_succ_cons, hfl]
          exact oneValue_arr_flatten' n vs (by omega) hall

/-- counting fact: if `arr n :: ts` is one value and `n ≥ 0`, then `ts` is exactly `n` values -/
theorem oneValue_arr_split (n : Int) (ts : List Tok) (hn : 0 ≤ n) (h : oneValue (Tok.arr n :: ts) = true) :
    ∃ vs : List (List Tok), vs.length = n.toNat ∧ ts = vs.flatten ∧ ∀ v ∈ vs, oneValue v = true := by
  rw [oneValue_iff, List.length_cons, valueSize_arr, if_neg (by omega)] at h
  obtain ⟨vs, hlen, hfl, hall⟩ := elems_split _ (valueSize_take _) _ _ _ _ h
  refine ⟨vs, hlen, ?_, hall⟩
  rw [← hfl]
  simp

/-- `arr n :: ts` with `n ≥ 0` is one value iff `ts` is a concatenation of exactly `n` values -/
theorem oneValue_arr_iff (n : Int) (ts : List Tok) (hn : 0 ≤ n) :
    oneValue (Tok.arr n :: ts) = true ↔
      ∃ vs : List (List Tok), vs.length = n.toNat ∧ ts = vs.flatten ∧ ∀ v ∈ vs, oneValue v = true := by
  constructor
  · exact oneValue_arr_split n ts hn
  · rintro ⟨vs, hlen, rfl, hall⟩
    exact oneValue_arr_flatten' n vs (by omega) hall

theorem flatten_length_ge (vs : List (List Tok)) (h : ∀ v ∈ vs, oneValue v = true) :
    vs.length ≤ vs.flatten.length := by
  induction vs with
  | nil => simp
  | cons v vs ih =>
    have h1 := oneValue_length_pos v (h v List.mem_cons_self)
    have h2 := ih (fun w hw => h w (List.mem_cons_of_mem _ hw))
    simp only [List.length_cons, List.flatten_cons, List.length_append]
    omega

/-- fewer tokens than announced elements: not a value -/
theorem oneValue_arr_short (n : Int) (ts : List Tok) (h : (ts.length : Int) < n) :
    oneValue (Tok.arr n :: ts) = false := by
  cases hc : oneValue (Tok.arr n :: ts) with
  | false => rfl
  | true =>
    obtain ⟨vs, hlen, rfl, hall⟩ := oneValue_arr_split n ts (by omega) hc
    have := flatten_length_ge vs hall
    omega

/-! ## handler results -/

/-- what the connection receives from one closure run by execCommand outside MULTI -/
def replyOf (o : BodyOut) : List Tok := if o.panicked then o.toks ++ [Tok.err 1] else o.toks

/-- a handler result always produces exactly one RESP value -/
def OneReply : HRes → Prop
  | .direct ts => oneValue ts = true
  | .exec b => ∀ (s : MState) (now : Int) (ch : Choice), oneValue (replyOf (b s now ch)) = true
  | .crash => True     -- dispatch-level recover writes one error (handled by the caller)

/-- `replyOf` is what `Server.runBody` returns as reply -/
theorem runBody_reply (sv : Server) (now : Int) (ch : Choice) (b : Body) :
    (Server.runBody sv now ch b).2 =
      replyOf (b { sv.store with signalled := [], held := [], hung := false } now ch) := rfl

/-- the closure's reply is one value -/
def Good (o : BodyOut) : Prop := oneValue (replyOf o) = true

theorem good_panic_nil (s : MState) : Good { store := s, toks := [], panicked := true } := by
  show oneValue [Tok.err 1] = true
  exact oneValue_scalar _ rfl

theorem good_done_scalar (s : MState) (t : Tok) (h : isScalar t = true) : Good (done s [t]) := by
  show oneValue [t] = true
  exact oneValue_scalar t h

theorem good_done (s : MState) (ts : List Tok) (h : oneValue ts = true) : Good (done s ts) := h

/-- `call`: `.panic` gives the single recovered error; everything else (including `.hang`, which the
    model hands to the continuation like any other result) is the continuation's reply -/
theorem good_call (r : MState × Out) (k : MState → Out → BodyOut)
    (hk : r.2 ≠ Out.panic → Good (k r.1 r.2)) : Good (call r k) := by
  obtain ⟨s, o⟩ := r
  unfold call
  split
  · exact good_panic_nil _
  · rename_i s' o' hne heq
    cases heq
    exact hk (fun h => hne h)

theorem good_call_all (r : MState × Out) (k : MState → Out → BodyOut)
    (hk : ∀ s o, Good (k s o)) : Good (call r k) :=
  good_call r k (fun _ => hk _ _)

/-- what the model says about `Out.hang`: `call` hands it to the continuation like any other result, so
    the model still writes the continuation's token(s) (the store flag `hung` is not consulted here) -/
theorem call_hang (s : MState) (k : MState → Out → BodyOut) : call (s, Out.hang) k = k s Out.hang := rfl

theorem oneReply_errReply : OneReply errReply := by
  show oneValue [Tok.err 0] = true
  exact oneValue_scalar _ rfl

theorem oneReply_ite (c : Prop) [Decidable c] (a b : HRes) (ha : OneReply a) (hb : OneReply b) :
    OneReply (if c then a else b) := by
  split <;> assumption

theorem scalar_ok : isScalar ok = true := rfl
theorem scalar_e : isScalar e = true := rfl

/-! ## the handlers whose closure is `call r k` with `k` writing one scalar token -/

/-- the token is a scalar, possibly after case distinctions -/
macro "scal" : tactic =>
  `(tactic| first
    | rfl
    | (split <;> rfl)
    | (split <;> first | rfl | (split <;> rfl)))

/-- a closure `call r (fun s o => done s [scalar])` (possibly with a case distinction on `o`) -/
macro "hcall" : tactic =>
  `(tactic| (intro s now ch; apply good_call_all; intro s o;
             first
             | (apply good_done_scalar; scal)
             | (split <;> apply good_done_scalar <;> scal)))

theorem one_reply_ping (args : List Bytes) : OneReply (Handler.ping args) := by
  unfold Handler.ping
  intro s now ch
  apply good_done_scalar
  cases args <;> rfl

theorem one_reply_echo (args : List Bytes) : OneReply (Handler.echo args) := by
  unfold Handler.echo
  intro s now ch
  apply good_done_scalar
  cases args <;> rfl

theorem one_reply_dbSize : OneReply Handler.dbSize := by
  unfold Handler.dbSize
  intro s now ch
  exact good_done_scalar _ _ rfl

theorem one_reply_flushDB : OneReply Handler.flushDB := by
  unfold Handler.flushDB
  intro s now ch
  exact good_done_scalar _ _ rfl

theorem one_reply_del (args : List Bytes) : OneReply (Handler.del args) := by
  unfold Handler.del
  split
  · exact oneReply_errReply
  · hcall

theorem one_reply_exists_ (args : List Bytes) : OneReply (Handler.exists_ args) := by
  unfold Handler.exists_
  split
  · exact oneReply_errReply
  · hcall

theorem one_reply_expire (args : List Bytes) : OneReply (Handler.expire args) := by
  unfold Handler.expire
  split
  · hcall
  · exact oneReply_errReply

theorem one_reply_expireAt (args : List Bytes) : OneReply (Handler.expireAt args) := by
  unfold Handler.expireAt
  split
  · split
    · exact oneReply_errReply
    · hcall
  · exact oneReply_errReply

theorem one_reply_ttl (args : List Bytes) : OneReply (Handler.ttl args) := by
  unfold Handler.ttl
  split
  · hcall
  · exact oneReply_errReply

theorem one_reply_pttl (args : List Bytes) : OneReply (Handler.pttl args) := by
  unfold Handler.pttl
  split
  · hcall
  · exact oneReply_errReply

theorem one_reply_persist (args : List Bytes) : OneReply (Handler.persist args) := by
  unfold Handler.persist
  split
  · hcall
  · exact oneReply_errReply

theorem one_reply_randomKey : OneReply Handler.randomKey := by
  unfold Handler.randomKey
  hcall

theorem one_reply_rename (args : List Bytes) : OneReply (Handler.rename args) := by
  unfold Handler.rename
  split
  · hcall
  · exact oneReply_errReply

theorem one_reply_renameNx (args : List Bytes) : OneReply (Handler.renameNx args) := by
  unfold Handler.renameNx
  split
  · hcall
  · exact oneReply_errReply

theorem one_reply_typ (args : List Bytes) : OneReply (Handler.typ args) := by
  unfold Handler.typ
  split
  · hcall
  · exact oneReply_errReply

theorem one_reply_appendString (args : List Bytes) : OneReply (Handler.appendString args) := by
  unfold Handler.appendString
  split
  · hcall
  · exact oneReply_errReply

theorem one_reply_setex (args : List Bytes) : OneReply (Handler.setex args) := by
  unfold Handler.setex
  split
  · hcall
  · exact oneReply_errReply

theorem one_reply_setnx (args : List Bytes) : OneReply (Handler.setnx args) := by
  unfold Handler.setnx
  split
  · hcall
  · exact oneReply_errReply

theorem one_reply_incrDecr (neg : Bool) (args : List Bytes) : OneReply (Handler.incrDecr neg args) := by
  unfold Handler.incrDecr
  split
  · hcall
  · exact oneReply_errReply

theorem one_reply_incrDecrBy (neg : Bool) (args : List Bytes) : OneReply (Handler.incrDecrBy neg args) := by
  unfold Handler.incrDecrBy
  split
  · split
    · exact oneReply_errReply
    · hcall
  · exact oneReply_errReply

theorem one_reply_incrByFloat (args : List Bytes) : OneReply (Handler.incrByFloat args) := by
  unfold Handler.incrByFloat
  split
  · split
    · trivial
    · exact oneReply_errReply
    · intro s now ch
      show oneValue [Tok.simple _] = true
      exact oneValue_scalar _ rfl
    · hcall
  · exact oneReply_errReply

theorem one_reply_getString (args : List Bytes) : OneReply (Handler.getString args) := by
  unfold Handler.getString
  split
  · intro s now ch; apply good_call_all; intro s o; apply good_done_scalar
    split
    · rename_i b; cases b <;> rfl
    · rfl
  · exact oneReply_errReply

theorem one_reply_getSet (args : List Bytes) : OneReply (Handler.getSet args) := by
  unfold Handler.getSet
  split
  · intro s now ch; apply good_call_all; intro s o; apply good_done_scalar
    split
    · rename_i b; cases b <;> rfl
    · rfl
  · exact oneReply_errReply

theorem one_reply_setRange (args : List Bytes) : OneReply (Handler.setRange args) := by
  unfold Handler.setRange
  split
  · split
    · exact oneReply_errReply
    · split
      · exact oneReply_errReply
      · hcall
  · exact oneReply_errReply

theorem one_reply_getRange (args : List Bytes) : OneReply (Handler.getRange args) := by
  unfold Handler.getRange
  split
  · split
    · hcall
    · exact oneReply_errReply
  · exact oneReply_errReply

theorem one_reply_strLen (args : List Bytes) : OneReply (Handler.strLen args) := by
  unfold Handler.strLen
  split
  · hcall
  · exact oneReply_errReply

theorem one_reply_setBit (args : List Bytes) : OneReply (Handler.setBit args) := by
  unfold Handler.setBit
  split
  · split
    · exact oneReply_errReply
    · split
      · exact oneReply_errReply
      · split
        · exact oneReply_errReply
        · split
          · exact oneReply_errReply
          · hcall
  · exact oneReply_errReply

theorem one_reply_getBit (args : List Bytes) : OneReply (Handler.getBit args) := by
  unfold Handler.getBit
  split
  · split
    · exact oneReply_errReply
    · split
      · exact oneReply_errReply
      · hcall
  · exact oneReply_errReply

theorem one_reply_bitCount (args : List Bytes) : OneReply (Handler.bitCount args) := by
  unfold Handler.bitCount
  split
  · exact oneReply_errReply
  · dsimp only
    apply oneReply_ite
    · exact oneReply_errReply
    · hcall

end NodisVerif.Proofs.C16Handlers
