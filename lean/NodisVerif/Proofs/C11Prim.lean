import NodisVerif.Proofs.C11Inv
/-
  C11 / C12: the store primitives preserve the invariant; their effect on the logical keyspace.
-/
namespace NodisVerif.Proofs.C11
open NodisVerif.Store NodisVerif.Codec NodisVerif.Spec.Persist
open NodisVerif.Proofs.AListLemmas NodisVerif.Proofs.AListLemmas2 NodisVerif.Proofs.C11AList

/-! ### the logical keyspace as a finite map -/

theorem logical_eq (s : MState) (now : Int) :
    logical s now = s.index.filterMap fun p => (view s now p.1 p.2).map fun w => (p.1, w) := rfl

theorem logical_sorted (s : MState) (now : Int) (h : AList.Sorted s.index) :
    AList.Sorted (logical s now) := by
  rw [logical_eq]; exact sorted_filterMap _ _ h

theorem get?_logical (s : MState) (now : Int) (h : AList.Sorted s.index) (k : Bytes) :
    AList.get? (logical s now) k = lookup s now k := by
  rw [logical_eq, get?_filterMap _ _ h]; rfl

/-- two states have the same logical keyspace iff every name looks the same -/
theorem logical_ext {s s' : MState} {now now' : Int} (h : AList.Sorted s.index) (h' : AList.Sorted s'.index)
    (hl : ∀ k, lookup s' now' k = lookup s now k) : logical s' now' = logical s now := by
  apply ext_of_sorted _ _ (logical_sorted _ _ h') (logical_sorted _ _ h)
  intro k
  rw [get?_logical _ _ h', get?_logical _ _ h, hl]

theorem lookup_of_logical {s s' : MState} {now now' : Int} (h : AList.Sorted s.index) (h' : AList.Sorted s'.index)
    (hl : logical s' now' = logical s now) (k : Bytes) : lookup s' now' k = lookup s now k := by
  rw [← get?_logical _ _ h', ← get?_logical _ _ h, hl]

theorem view_congr {s s' : MState} (hd : s'.disk = s.disk) (hp : s'.pebble = s.pebble)
    (now : Int) (k : Bytes) (m : Meta) : view s' now k m = view s now k m := by
  simp only [view, loadValue, diskGet, hd, hp]

theorem lookup_congr {s s' : MState} (hi : s'.index = s.index) (hd : s'.disk = s.disk)
    (hp : s'.pebble = s.pebble) (now : Int) (k : Bytes) : lookup s' now k = lookup s now k := by
  simp only [lookup, getMeta, hi]
  cases AList.get? s.index k with
  | none => rfl
  | some m => simp only [Option.bind_some]; exact view_congr hd hp now k m

/-- the view of a live cold record is what its backend entry decodes to -/
theorem view_frame {s s' : MState} {x : Option Bytes} {t t' : Int} {k k' : Bytes} {m : Meta}
    (h : StoreInvX s x t) (ht : t ≤ t') (hp : s'.pebble = s.pebble)
    (hD1 : ∀ dk e, AList.get? s.disk dk = some e → e.name ≠ k → AList.get? s'.disk dk = some e)
    (hk : k' ≠ k) (hm : AList.get? s.index k' = some m) : view s' t' k' m = view s t' k' m := by
  have r := h.recs k' m hm
  unfold view
  by_cases hc : (m.isOk && !m.expired t') = true
  · simp only [hc, if_true]
    cases hv : m.value with
    | some v => rfl
    | none =>
      simp only []
      have hal : m.expired t = false := by
        simp only [Bool.and_eq_true, Bool.not_eq_true'] at hc
        exact Meta.alive_anti m ht hc.2
      obtain ⟨ent, h1, h2, _⟩ := r.stored _ (r.cold hal hv)
      have h1' := hD1 _ _ h1 (by rw [h2]; exact hk)
      simp only [loadValue, diskGet, h1, h1', hp]
  · simp only [hc]
    rfl

theorem lookup_frame {s s' : MState} {x : Option Bytes} {t t' : Int} {k : Bytes}
    (h : StoreInvX s x t) (ht : t ≤ t') (hp : s'.pebble = s.pebble)
    (hD1 : ∀ dk e, AList.get? s.disk dk = some e → e.name ≠ k → AList.get? s'.disk dk = some e)
    (k' : Bytes) (hk : k' ≠ k) (hI : AList.get? s'.index k' = AList.get? s.index k') :
    lookup s' t' k' = lookup s t' k' := by
  simp only [lookup, getMeta, hI]
  cases hm : AList.get? s.index k' with
  | none => rfl
  | some m => simp only [Option.bind_some]; exact view_frame h ht hp hD1 hk hm

/-! ### replacing one record, backend untouched -/

/-- a hot record that is marked modified (or is the one a command is rewriting) only has to be
    ok, have a representable deadline, a good value, and a truthful `stored` -/
theorem RecInv.hot {disk : AList DiskEntry} {pebble : Bool} {x : Option Bytes} {t : Int} {k : Bytes}
    {m : Meta} {v : Val} (hv : m.value = some v) (hok : m.isOk = true) (hexp : inInt64 m.exp = true)
    (hg : Good v)
    (hst : ∀ e, m.stored = some e →
      ∃ ent, AList.get? disk (encodeKey k e) = some ent ∧ ent.name = k ∧ ent.exp = e)
    (hm : m.isModified = true ∨ x = some k) : RecInv disk pebble x t k m := by
  refine ⟨hok, hexp, ?_, hst, ?_, ?_⟩
  · intro v' hv'; rw [hv] at hv'; cases hv'; exact hg
  · intro _ hn; rw [hv] at hn; cases hn
  · intro _ hx hmod
    rcases hm with hm | hm
    · rw [hm] at hmod; cases hmod
    · exact absurd hm hx

theorem inv_putMeta {s : MState} {x x' : Option Bytes} {t : Int} {k : Bytes} {m' : Meta}
    (h : StoreInvX s x t) (hx : ∀ k', k' ≠ k → x' ≠ some k' → x ≠ some k')
    (hrec : RecInv s.disk s.pebble x' t k m')
    (hown : ∀ dk e, AList.get? s.disk dk = some e → e.name = k → m'.stored = some e.exp)
    (hoid : s.pebble = false → 0 < m'.oid ∧ m'.oid < s.nextId ∧
      (∀ k' m'', k' ≠ k → AList.get? s.index k' = some m'' → m''.oid ≠ m'.oid) ∧
      (∀ dk e, AList.get? s.disk dk = some e → e.name ≠ k → e.oid ≠ m'.oid)) :
    StoreInvX (putMeta s k m') x' t := by
  apply frame (k := k) (s' := putMeta s k m') h hx rfl (Nat.le_refl _)
  · exact set_preserves_sorted _ h.idxSorted _ _
  · exact h.diskSorted
  · intro k' hk; simp [putMeta, get?_set, hk]
  · intro dk e he _; exact he
  · intro dk e he _; exact he
  · intro m hm
    simp only [putMeta, get?_set, if_true] at hm
    cases hm; exact hrec
  · intro dk e he hn
    have r := h.ents dk e he
    refine ⟨r.key, r.expR, r.good, m', ?_, hown dk e he hn⟩
    simp [putMeta, get?_set, hn]
  · intro hpb
    have o := h.oids hpb
    refine ⟨?_, ?_⟩
    · intro m hm
      simp only [putMeta, get?_set, if_true] at hm
      cases hm; exact hoid hpb
    · intro dk e he hn
      have := o.entR dk e he
      have f := o.ent_fresh he hn
      exact ⟨this.1, this.2, f.1, f.2⟩

/-- replacing the record of `k` by one with the same `stored` and identity -/
theorem inv_putMeta_same {s : MState} {x x' : Option Bytes} {t : Int} {k : Bytes} {m m' : Meta}
    (h : StoreInvX s x t) (hx : ∀ k', k' ≠ k → x' ≠ some k' → x ≠ some k')
    (hm : AList.get? s.index k = some m)
    (hrec : RecInv s.disk s.pebble x' t k m')
    (hst : m'.stored = m.stored) (ho : m'.oid = m.oid) :
    StoreInvX (putMeta s k m') x' t := by
  apply inv_putMeta h hx hrec
  · intro dk e he hn
    subst hn
    rw [hst]; exact (h.ent_of_name he hm).1
  · intro hpb
    have o := h.oids hpb
    have := o.recR k m hm
    have f := o.rec_fresh hm
    rw [ho]
    exact ⟨this.1, this.2, f.1, f.2⟩

theorem lookup_putMeta_other {s : MState} {k : Bytes} {m' : Meta} (now : Int) (k' : Bytes) (hk : k' ≠ k) :
    lookup (putMeta s k m') now k' = lookup s now k' := by
  simp only [lookup, getMeta, putMeta, get?_set, hk, if_false]
  cases AList.get? s.index k' with
  | none => rfl
  | some m => simp only [Option.bind_some]; exact view_congr rfl rfl now k' m

theorem lookup_putMeta_same {s : MState} {k : Bytes} {m' : Meta} (now : Int) :
    lookup (putMeta s k m') now k = view s now k m' := by
  simp only [lookup, getMeta, putMeta, get?_set, if_true, Option.bind_some]
  exact view_congr rfl rfl now k m'

theorem view_hot {s : MState} {now : Int} {k : Bytes} {m : Meta} {v : Val} (hv : m.value = some v)
    (hok : m.isOk = true) (he : m.expired now = false) : view s now k m = some (v, m.exp) := by
  simp [view, hok, he, hv]

theorem view_dead {s : MState} {now : Int} {k : Bytes} {m : Meta} (he : m.expired now = true) :
    view s now k m = none := by
  simp [view, he]

/-! ### backend edits -/

/-- an entry of another name is not filed under an encoding of `k` -/
theorem StoreInvX.dk_ne {s : MState} {x : Option Bytes} {t : Int} (h : StoreInvX s x t) {dk : Bytes}
    {e' : DiskEntry} (he' : AList.get? s.disk dk = some e') {k : Bytes} {e : Int}
    (hk : e'.name ≠ k) (hi : inInt64 e = true) : dk ≠ encodeKey k e := by
  intro heq
  have r := h.ents dk e' he'
  rw [r.key] at heq
  exact hk (encodeKey_inj r.expR hi heq).1

theorem StoreInvX.stored_int {s : MState} {x : Option Bytes} {t : Int} (h : StoreInvX s x t) {k : Bytes}
    {m : Meta} (hm : AList.get? s.index k = some m) {e : Int} (he : m.stored = some e) :
    inInt64 e = true := by
  obtain ⟨ent, h1, _, h3⟩ := (h.recs k m hm).stored e he
  rw [← h3]; exact (h.ents _ _ h1).expR

/-- `unpersist` removes exactly the backend entries named `k` -/
theorem unpersist_spec {s : MState} {x : Option Bytes} {t : Int} (h : StoreInvX s x t) {k : Bytes}
    {m : Meta} (hm : AList.get? s.index k = some m) :
    (unpersist s k m).index = s.index ∧ (unpersist s k m).pebble = s.pebble ∧
    (unpersist s k m).nextId = s.nextId ∧ (unpersist s k m).failSet = s.failSet ∧
    AList.Sorted (unpersist s k m).disk ∧
    (∀ dk e, AList.get? (unpersist s k m).disk dk = some e ↔ (AList.get? s.disk dk = some e ∧ e.name ≠ k)) := by
  unfold unpersist
  cases hs : m.stored with
  | none =>
    refine ⟨rfl, rfl, rfl, rfl, h.diskSorted, ?_⟩
    intro dk e
    constructor
    · intro he
      refine ⟨he, ?_⟩
      intro hn; subst hn
      have := (h.ent_of_name he hm).1
      rw [hs] at this; cases this
    · exact fun a => a.1
  | some e0 =>
    have hi := h.stored_int hm hs
    refine ⟨rfl, rfl, rfl, rfl, erase_preserves_sorted _ h.diskSorted _, ?_⟩
    intro dk e
    simp only [diskDelete, get?_erase _ h.diskSorted]
    constructor
    · intro he
      by_cases hd : dk = encodeKey k e0
      · simp [hd] at he
      · simp only [hd, if_false] at he
        refine ⟨he, ?_⟩
        intro hn; subst hn
        have := h.ent_of_name he hm
        rw [hs] at this
        have h2 : e0 = e.exp := by simpa using this.1
        exact hd (by rw [this.2, h2])
    · intro ⟨he, hn⟩
      have := h.dk_ne he hn hi
      simp [this, he]

theorem held_irrelevant (s : MState) (hl : List (Bytes × Bool)) (x : Option Bytes) (t : Int)
    (h : StoreInvX s x t) : StoreInvX { s with held := hl } x t := h.congr rfl rfl rfl rfl

/-- `delKey`: the record and every backend entry of the name are gone -/
theorem inv_delKey {s : MState} {x : Option Bytes} {t : Int} (h : StoreInvX s x t) (k : Bytes)
    (hx : ∀ k', k' ≠ k → x ≠ some k') : StoreInvX (delKey s k) none t := by
  unfold delKey
  cases hm : AList.get? s.index k with
  | none =>
    simp only []
    have : AList.erase s.index k = s.index :=
      erase_of_not_contains _ _ (by simp [AList.contains, hm])
    rw [this]
    refine StoreInvX.congr (s := s) ?_ rfl rfl rfl rfl
    refine ⟨h.idxSorted, h.diskSorted, ?_, h.ents, h.oids, h.idPos⟩
    intro k' m' hk'
    have r := h.recs k' m' hk'
    have hne : k' ≠ k := by intro e; subst e; rw [hm] at hk'; cases hk'
    exact { r with clean := fun he _ => r.clean he (hx k' hne) }
  | some m =>
    simp only []
    obtain ⟨u1, u2, u3, _, u5, u6⟩ := unpersist_spec h hm
    apply frame (k := k) h
    · intro k' hk _; exact hx k' hk
    · exact u2
    · simp [u3]
    · simp only [u1]; exact erase_preserves_sorted _ h.idxSorted _
    · exact u5
    · intro k' hk; simp only [u1, get?_erase _ h.idxSorted, hk, if_false]
    · intro dk e he hn; exact (u6 dk e).mpr ⟨he, hn⟩
    · intro dk e he _; exact ((u6 dk e).mp he).1
    · intro m'; simp only [u1, get?_erase _ h.idxSorted, if_true]; intro hc; cases hc
    · intro dk e he hn; exact absurd hn ((u6 dk e).mp he).2
    · intro _
      refine ⟨?_, ?_⟩
      · intro m'; simp only [u1, get?_erase _ h.idxSorted, if_true]; intro hc; cases hc
      · intro dk e he hn; exact absurd hn ((u6 dk e).mp he).2

theorem lookup_delKey {s : MState} {x : Option Bytes} {t t' : Int} (h : StoreInvX s x t) (ht : t ≤ t')
    (k k' : Bytes) : lookup (delKey s k) t' k' = if k' = k then none else lookup s t' k' := by
  unfold delKey
  cases hm : AList.get? s.index k with
  | none =>
    simp only []
    have : AList.erase s.index k = s.index :=
      erase_of_not_contains _ _ (by simp [AList.contains, hm])
    rw [this]
    by_cases hk : k' = k
    · subst hk; simp [lookup, getMeta, hm]
    · simp only [hk, if_false]; exact lookup_congr rfl rfl rfl _ _
  | some m =>
    simp only []
    obtain ⟨u1, u2, u3, _, u5, u6⟩ := unpersist_spec h hm
    by_cases hk : k' = k
    · subst hk
      simp [lookup, getMeta, u1, get?_erase _ h.idxSorted]
    · simp only [hk, if_false]
      refine lookup_frame (k := k) h ht ?_ ?_ k' hk ?_
      · exact u2
      · intro dk e he hn; exact (u6 dk e).mpr ⟨he, hn⟩
      · simp only [u1, get?_erase _ h.idxSorted, hk, if_false]

/-! ### record bookkeeping -/

theorem Holds.congr {p : Bool} {m m' : Meta} {v : Val} {ent : DiskEntry} (ho : m'.oid = m.oid)
    (h : Holds p m v ent) : Holds p m' v ent :=
  ⟨h.peb, fun hp => by rw [ho]; exact h.mem hp⟩

/-- the invariant of a record only looks at state, deadline, value, `stored` and identity -/
theorem RecInv.congr {disk : AList DiskEntry} {p : Bool} {x : Option Bytes} {t : Int} {k : Bytes}
    {m m' : Meta} (r : RecInv disk p x t k m) (hs : m'.state = m.state) (he : m'.exp = m.exp)
    (hv : m'.value = m.value) (hst : m'.stored = m.stored) (ho : m'.oid = m.oid) :
    RecInv disk p x t k m' := by
  have e1 : m'.isOk = m.isOk := by simp [Meta.isOk, hs]
  have e2 : ∀ t, m'.expired t = m.expired t := by intro t; simp [Meta.expired, he]
  have e3 : m'.isModified = m.isModified := by simp [Meta.isModified, hs, hv]
  refine ⟨by rw [e1]; exact r.ok, by rw [he]; exact r.expR, by rw [hv]; exact r.good,
    by rw [hst]; exact r.stored, ?_, ?_⟩
  · rw [e2, hv, hst, he]; exact r.cold
  · rw [e2, e3, hv, hst, he]
    intro a b c v hv'
    obtain ⟨ent, h1, h2, h3⟩ := r.clean a b c v hv'
    exact ⟨ent, h1, h2, h3.congr ho⟩

@[simp] theorem markModified_isOk (m : Meta) : m.markModified.isOk = m.isOk := by
  simp only [Meta.markModified, Meta.isOk]
  split
  · rfl
  · congr 1
    apply propext
    constructor <;> intro h <;> omega

@[simp] theorem markModified_isModified (m : Meta) : m.markModified.isModified = m.value.isSome := by
  simp only [Meta.markModified, Meta.isModified]
  cases m.value with
  | none => simp
  | some v =>
    simp only [Option.isSome_some, Bool.true_and]
    split
    · simp_all
    · rename_i h
      simp only [decide_eq_true_eq]
      omega

@[simp] theorem markModified_exp (m : Meta) : m.markModified.exp = m.exp := rfl
@[simp] theorem markModified_value (m : Meta) : m.markModified.value = m.value := rfl
@[simp] theorem markModified_stored (m : Meta) : m.markModified.stored = m.stored := rfl
@[simp] theorem markModified_oid (m : Meta) : m.markModified.oid = m.oid := rfl
@[simp] theorem markModified_expired (m : Meta) (t : Int) : m.markModified.expired t = m.expired t := rfl

@[simp] theorem setValue_isOk (m : Meta) (v : Val) : (m.setValue v).isOk = true := by
  simp only [Meta.setValue, Meta.isOk]
  split
  · simp_all
  · simp only [decide_eq_true_eq]; omega

@[simp] theorem setValue_exp (m : Meta) (v : Val) : (m.setValue v).exp = m.exp := rfl
@[simp] theorem setValue_value (m : Meta) (v : Val) : (m.setValue v).value = some v := rfl
@[simp] theorem setValue_stored (m : Meta) (v : Val) : (m.setValue v).stored = m.stored := rfl
@[simp] theorem setValue_oid (m : Meta) (v : Val) : (m.setValue v).oid = m.oid := rfl
@[simp] theorem setValue_expired (m : Meta) (v : Val) (t : Int) : (m.setValue v).expired t = m.expired t := rfl

theorem setValue_state_of_ok (m : Meta) (v : Val) (h : m.isOk = true) : (m.setValue v).state = m.state := by
  simp only [Meta.isOk, decide_eq_true_eq] at h
  simp [Meta.setValue, h]

/-- the exemption can be dropped once the exempted record is not a clean hot one -/
theorem StoreInvX.drop_exempt {s : MState} {k : Bytes} {t : Int} (h : StoreInvX s (some k) t)
    (hk : ∀ m, AList.get? s.index k = some m → m.value = none ∨ m.isModified = true) :
    StoreInvX s none t := by
  refine ⟨h.idxSorted, h.diskSorted, ?_, h.ents, h.oids, h.idPos⟩
  intro k' m hm
  have r := h.recs k' m hm
  refine { r with clean := ?_ }
  intro he _ hmod v hv
  by_cases hkk : k' = k
  · subst hkk
    rcases hk m hm with h1 | h1
    · rw [h1] at hv; cases hv
    · rw [h1] at hmod; cases hmod
  · exact r.clean he (by simpa using fun e => hkk e.symm) hmod v hv

theorem StoreInvX.exempt_irrelevant {s : MState} {x : Option Bytes} {k : Bytes} {t : Int}
    (h : StoreInvX s x t) (hx : ∀ k', k' ≠ k → x ≠ some k') : StoreInvX s (some k) t := by
  refine ⟨h.idxSorted, h.diskSorted, ?_, h.ents, h.oids, h.idPos⟩
  intro k' m hm
  have r := h.recs k' m hm
  refine { r with clean := ?_ }
  intro he hne
  have : k' ≠ k := by intro e; subst e; exact hne rfl
  exact r.clean he (hx k' this)

/-- `signalModifiedKey`: marks the record modified; ends the exemption of that name -/
theorem inv_signal {s : MState} {x : Option Bytes} {t : Int} (h : StoreInvX s x t) (k : Bytes)
    (hx : ∀ k', k' ≠ k → x ≠ some k') : StoreInvX (signal s k) none t := by
  have h' := h.exempt_irrelevant hx
  refine StoreInvX.congr (s := modMeta s k Meta.markModified) ?_ rfl rfl rfl rfl
  unfold modMeta getMeta
  cases hm : AList.get? s.index k with
  | none =>
    simp only []
    exact h'.drop_exempt (fun m hm' => by rw [hm] at hm'; cases hm')
  | some m =>
    simp only []
    have r := h'.recs k m hm
    have : StoreInvX (putMeta s k m.markModified) (some k) t := by
      apply inv_putMeta_same (m' := m.markModified) h' (fun _ _ a => a) hm _ rfl rfl
      cases hv : m.value with
      | some v =>
        exact RecInv.hot (v := v) (by simp [hv]) (by simp [r.ok]) r.expR (r.good v hv) r.stored (Or.inr rfl)
      | none =>
        refine ⟨by simp [r.ok], r.expR, by simp [hv], r.stored, ?_, ?_⟩
        · intro he _; exact r.cold he hv
        · intro _ _ _ v hv'; simp [hv] at hv'
    apply this.drop_exempt
    intro m' hm'
    simp only [putMeta, get?_set, if_true] at hm'
    cases hm'
    cases hv : m.value with
    | none => left; exact hv
    | some v => right; simp [hv]

theorem lookup_signal (s : MState) (k : Bytes) (t' : Int) (k' : Bytes) :
    lookup (signal s k) t' k' = lookup s t' k' := by
  have : lookup (signal s k) t' k' = lookup (modMeta s k Meta.markModified) t' k' :=
    lookup_congr rfl rfl rfl _ _
  rw [this]
  unfold modMeta getMeta
  cases hm : AList.get? s.index k with
  | none => rfl
  | some m =>
    simp only []
    by_cases hk : k' = k
    · subst hk
      rw [lookup_putMeta_same]
      simp only [lookup, getMeta, hm, Option.bind_some]
      simp [view, loadValue, diskGet]
    · exact lookup_putMeta_other _ _ hk

theorem get?_signal (s : MState) (k k' : Bytes) :
    AList.get? (signal s k).index k' =
      if k' = k then (AList.get? s.index k).map Meta.markModified else AList.get? s.index k' := by
  show AList.get? (modMeta s k Meta.markModified).index k' = _
  unfold modMeta getMeta
  cases hm : AList.get? s.index k with
  | none => by_cases hk : k' = k <;> simp [hk, hm]
  | some m => simp [putMeta, get?_set]

end NodisVerif.Proofs.C11
