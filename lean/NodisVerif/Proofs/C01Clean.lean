import NodisVerif.Proofs.C01Api
/-
  C01 helper lemmas: the `Clean` invariant (Pebble backend, or in-memory backend without shared
  value objects) under which a string command touches the record of its own key only.
-/
namespace NodisVerif.Proofs.C01
open NodisVerif
open NodisVerif.Proofs.AListLemmas NodisVerif.Proofs.AListLemmas2
open Store Api

/-! ### value-object identities: no two records share one -/

/-- distinct records have distinct value-object ids (0 = none), all below the allocator's next id -/
def OidsOK (s : MState) : Prop :=
  (∀ k k' m m', getMeta s k = some m → getMeta s k' = some m' → m.oid = m'.oid → m.oid ≠ 0 → k = k') ∧
  (∀ k m, getMeta s k = some m → m.oid < s.nextId)

/-- the backend is Pebble (records hold copies), or it is the in-memory backend with nothing
    written back yet and no value object shared between records — every state reachable from a
    freshly opened store by the commands of this family is like that -/
def Clean (s : MState) : Prop := s.pebble = true ∨ (s.disk = [] ∧ OidsOK s)

theorem oids_congr {s s' : MState} (hg : ∀ k, getMeta s' k = getMeta s k) (hn : s.nextId ≤ s'.nextId)
    (h : OidsOK s) : OidsOK s' := by
  refine ⟨fun k k' m m' h1 h2 => ?_, fun k m h1 => ?_⟩
  · rw [hg] at h1 h2; exact h.1 k k' m m' h1 h2
  · rw [hg] at h1; exact Nat.lt_of_lt_of_le (h.2 k m h1) hn

theorem getMeta_putMeta (s : MState) (k k' : Bytes) (m : Meta) :
    getMeta (putMeta s k m) k' = if k' = k then some m else getMeta s k' := by
  by_cases e : k' = k
  · subst e; rw [if_pos rfl]; exact getMeta_putMeta_same _ _ _
  · rw [if_neg e]; exact getMeta_putMeta_other _ _ _ _ e

/-- replacing a record by one with the same value-object id -/
theorem oids_putMeta_same (s : MState) (k : Bytes) (m0 m : Meta) (hm : getMeta s k = some m0) (ho : m.oid = m0.oid)
    (h : OidsOK s) : OidsOK (putMeta s k m) := by
  refine ⟨fun a b ma mb h1 h2 heq hne => ?_, fun a ma h1 => ?_⟩
  · rw [getMeta_putMeta] at h1 h2
    by_cases ea : a = k <;> by_cases eb : b = k
    · rw [ea, eb]
    · rw [if_pos ea] at h1; rw [if_neg eb] at h2
      cases h1
      rw [ea]; exact h.1 k b m0 mb hm h2 (by rw [← ho]; exact heq) (by rw [← ho]; exact hne)
    · rw [if_neg ea] at h1; rw [if_pos eb] at h2
      cases h2
      rw [eb]; exact h.1 a k ma m0 h1 hm (by rw [← ho]; exact heq) hne
    · rw [if_neg ea] at h1; rw [if_neg eb] at h2
      exact h.1 a b ma mb h1 h2 heq hne
  · rw [getMeta_putMeta] at h1
    by_cases ea : a = k
    · rw [if_pos ea] at h1; cases h1
      show m.oid < s.nextId
      rw [ho]; exact h.2 k m0 hm
    · rw [if_neg ea] at h1; exact h.2 a ma h1

theorem nkBase_nextId (s : MState) (k : Bytes) (old : Option Meta) : (nkBase s k old).nextId = s.nextId + 1 + 1 := by
  unfold nkBase
  cases old <;> cases getMeta ({ s with nextId := s.nextId + 1 + 1 } : MState) k <;>
    first | rfl | exact unpersist_nextId _ _ _

theorem nkBase_disk_nil (s : MState) (k : Bytes) (old : Option Meta) (h : s.disk = []) : (nkBase s k old).disk = [] := by
  unfold nkBase
  cases old <;> cases getMeta ({ s with nextId := s.nextId + 1 + 1 } : MState) k <;>
    first | exact h | exact unpersist_disk_nil _ _ _ h

theorem oids_newKeyWith (s : MState) (k : Bytes) (old : Option Meta) (v : Val) (h : OidsOK s) :
    OidsOK (newKeyWith s k old v) := by
  rw [newKeyWith_eq]
  generalize hm : (Meta.markModified (Meta.setValue _ v)) = mnew
  have hoid : mnew.oid = s.nextId + 1 := by rw [← hm]; rfl
  have g : ∀ x, getMeta (nkBase s k old) x = getMeta s x := getMeta_nkBase s k old
  refine ⟨fun a b ma mb h1 h2 heq hne => ?_, fun a ma h1 => ?_⟩
  · rw [getMeta_putMeta] at h1 h2
    by_cases ea : a = k <;> by_cases eb : b = k
    · rw [ea, eb]
    · rw [if_pos ea] at h1; rw [if_neg eb, g] at h2
      cases h1
      have := h.2 b mb h2
      omega
    · rw [if_neg ea, g] at h1; rw [if_pos eb] at h2
      cases h2
      have := h.2 a ma h1
      omega
    · rw [if_neg ea, g] at h1; rw [if_neg eb, g] at h2
      exact h.1 a b ma mb h1 h2 heq hne
  · rw [getMeta_putMeta] at h1
    show ma.oid < (nkBase s k old).nextId
    rw [nkBase_nextId]
    by_cases ea : a = k
    · rw [if_pos ea] at h1; cases h1; omega
    · rw [if_neg ea, g] at h1
      have := h.2 a ma h1
      omega

theorem setValG_self (m : Meta) (v : Val) (k : Bytes) :
    setValG m.oid v k { m with value := some v } = { m with value := some v } := by
  unfold setValG
  split <;> rfl

/-- with unshared value objects `setVal` is a plain replacement of the record -/
theorem getMeta_setVal_clean (s : MState) (k : Bytes) (v : Val) (m : Meta) (hm : getMeta s k = some m)
    (hc : s.pebble = true ∨ OidsOK s) (k' : Bytes) :
    getMeta (setVal s k v) k' = getMeta (putMeta s k { m with value := some v }) k' := by
  unfold getMeta
  rw [setVal_index s k v m hm]
  split
  · rfl
  · next hn =>
    have hnp : ¬ s.pebble = true := fun e => hn (Or.inl e)
    have hno : m.oid ≠ 0 := fun e => hn (Or.inr e)
    have ho : OidsOK s := by
      rcases hc with hc | hc
      · exact absurd hc hnp
      · exact hc
    rw [get?_map_entries]
    show Option.map _ (getMeta (putMeta s k { m with value := some v }) k') = getMeta (putMeta s k { m with value := some v }) k'
    rw [getMeta_putMeta]
    by_cases e : k' = k
    · rw [if_pos e]
      simp only [Option.map_some]
      rw [setValG_self]
    · rw [if_neg e]
      cases hg : getMeta s k' with
      | none => rfl
      | some m' =>
        simp only [Option.map_some]
        congr 1
        unfold setValG
        split
        · next hcnd =>
          exfalso
          exact e (ho.1 k' k m' m hg hm hcnd.1 (by rw [hcnd.1]; exact hno))
        · rfl

theorem setVal_misc (s : MState) (k : Bytes) (v : Val) :
    (setVal s k v).pebble = s.pebble ∧ (setVal s k v).nextId = s.nextId ∧ (s.disk = [] → (setVal s k v).disk = []) := by
  unfold setVal
  cases getMeta s k with
  | none => exact ⟨rfl, rfl, fun h => h⟩
  | some m =>
    simp only
    split
    · exact ⟨rfl, rfl, fun h => h⟩
    · refine ⟨rfl, rfl, fun h => ?_⟩
      show List.map _ (putMeta s k { m with value := some v }).disk = []
      show List.map _ s.disk = []
      rw [h]; rfl

theorem setExp_misc (s : MState) (k : Bytes) (e : Int) :
    (setExp s k e).pebble = s.pebble ∧ (setExp s k e).nextId = s.nextId ∧ (s.disk = [] → (setExp s k e).disk = []) ∧
    (∀ m, getMeta s k = some m → ∀ k', getMeta (setExp s k e) k' = getMeta (putMeta s k { m with exp := e }) k') := by
  rw [setExp_eq]
  cases getMeta s k with
  | none => exact ⟨rfl, rfl, fun h => h, fun m h => by cases h⟩
  | some m => exact ⟨rfl, rfl, fun h => h, fun m' h k' => by cases h; rfl⟩

theorem clean_setVal (s : MState) (k : Bytes) (v : Val) (hc : Clean s) :
    Clean (setVal s k v) ∧ SameDisk s (setVal s k v) ∧ ∀ k', k' ≠ k → getMeta (setVal s k v) k' = getMeta s k' := by
  obtain ⟨m1, m2, m3⟩ := setVal_misc s k v
  cases hm : getMeta s k with
  | none =>
    have : setVal s k v = s := by unfold setVal; rw [hm]
    rw [this]; exact ⟨hc, SameDisk.refl s, fun _ _ => rfl⟩
  | some m =>
    have hc' : s.pebble = true ∨ OidsOK s := by
      rcases hc with h | h
      · exact Or.inl h
      · exact Or.inr h.2
    have g := getMeta_setVal_clean s k v m hm hc'
    rcases hc with hp | ⟨hd, ho⟩
    · obtain ⟨sd, fr⟩ := frame_setVal_pebble s k v hp
      exact ⟨Or.inl (by rw [m1]; exact hp), sd, fr⟩
    · refine ⟨Or.inr ⟨m3 hd, ?_⟩, ⟨by rw [m3 hd, hd], m1⟩, fun k' h => ?_⟩
      · apply oids_congr (s := putMeta s k { m with value := some v }) g (by rw [m2]; exact Nat.le_refl _)
        exact oids_putMeta_same s k m _ hm rfl ho
      · rw [g k', getMeta_putMeta_other _ _ _ _ h]

theorem clean_setExp (s : MState) (k : Bytes) (e : Int) (hc : Clean s) :
    Clean (setExp s k e) ∧ SameDisk s (setExp s k e) ∧ ∀ k', k' ≠ k → getMeta (setExp s k e) k' = getMeta s k' := by
  obtain ⟨m1, m2, m3, m4⟩ := setExp_misc s k e
  cases hm : getMeta s k with
  | none =>
    have : setExp s k e = s := by unfold setExp; rw [hm]
    rw [this]; exact ⟨hc, SameDisk.refl s, fun _ _ => rfl⟩
  | some m =>
    have g := m4 m hm
    rcases hc with hp | ⟨hd, ho⟩
    · obtain ⟨sd, fr⟩ := frame_setExp_pebble s k e hp
      exact ⟨Or.inl (by rw [m1]; exact hp), sd, fr⟩
    · refine ⟨Or.inr ⟨m3 hd, ?_⟩, ⟨by rw [m3 hd, hd], m1⟩, fun k' h => ?_⟩
      · apply oids_congr (s := putMeta s k { m with exp := e }) g (by rw [m2]; exact Nat.le_refl _)
        exact oids_putMeta_same s k m _ hm rfl ho
      · rw [g k', getMeta_putMeta_other _ _ _ _ h]

/-- `Clean` only looks at the index, the backend and the id allocator -/
theorem clean_congr {s s' : MState} (hg : ∀ k, getMeta s' k = getMeta s k) (hd : SameDisk s s')
    (hn : s.nextId ≤ s'.nextId) (hc : Clean s) : Clean s' := by
  rcases hc with hp | ⟨hdk, ho⟩
  · exact Or.inl (by rw [hd.2]; exact hp)
  · exact Or.inr ⟨by rw [hd.1]; exact hdk, oids_congr hg hn ho⟩

theorem clean_putMeta_same (s : MState) (k : Bytes) (m0 m : Meta) (hm : getMeta s k = some m0) (ho : m.oid = m0.oid)
    (hc : Clean s) : Clean (putMeta s k m) := by
  rcases hc with hp | ⟨hdk, hoo⟩
  · exact Or.inl hp
  · exact Or.inr ⟨hdk, oids_putMeta_same s k m0 m hm ho hoo⟩

theorem clean_newKeyWith (s : MState) (k : Bytes) (old : Option Meta) (v : Val) (hc : Clean s) :
    Clean (newKeyWith s k old v) := by
  rcases hc with hp | ⟨hdk, hoo⟩
  · left
    rw [newKeyWith_eq]
    show (nkBase s k old).pebble = true
    rw [nkBase_pebble]; exact hp
  · right
    refine ⟨?_, oids_newKeyWith s k old v hoo⟩
    rw [newKeyWith_eq]
    show (nkBase s k old).disk = []
    exact nkBase_disk_nil s k old hdk

theorem clean_signal (s : MState) (k : Bytes) (hc : Clean s) : Clean (signal s k) := by
  unfold signal modMeta
  cases hm : getMeta s k with
  | none => exact clean_congr (fun _ => rfl) ⟨rfl, rfl⟩ (Nat.le_refl _) hc
  | some m =>
    simp only
    exact clean_congr (s := putMeta s k m.markModified) (fun _ => rfl) ⟨rfl, rfl⟩ (Nat.le_refl _)
      (clean_putMeta_same s k m _ hm rfl hc)

theorem clean_emit (s : MState) (op : FeedOp) (hc : Clean s) : Clean (emit s op) :=
  clean_congr (fun k => getMeta_emit s op k) (sameDisk_emit s op) (by unfold emit; split <;> exact Nat.le_refl _) hc

theorem clean_lockW (s : MState) (k : Bytes) (hc : Clean s) : Clean (lockW s k) :=
  clean_congr (fun k' => getMeta_lockW s k' k) (sameDisk_lockW s k)
    (by unfold lockW; repeat' split
        all_goals exact Nat.le_refl _) hc

theorem clean_lockR (s : MState) (k : Bytes) (hc : Clean s) : Clean (lockR s k) :=
  clean_congr (fun k' => getMeta_lockR s k' k) (sameDisk_lockR s k)
    (by unfold lockR; repeat' split
        all_goals exact Nat.le_refl _) hc

theorem loadValue_nil (s : MState) (k : Bytes) (m : Meta) (h : s.disk = []) : loadValue s k m = none := by
  unfold loadValue diskGet; rw [h]; rfl

theorem clean_orCreate (s : MState) (k : Bytes) (old : Option Meta) (mk : Option Val) (hc : Clean s) :
    Clean (orCreate s k old mk).1 := by
  unfold orCreate
  cases mk with
  | none => exact hc
  | some v => exact clean_newKeyWith s k old v hc

theorem clean_bump (s : MState) (k : Bytes) (m0 : Meta) (hm : getMeta s k = some m0) (hc : Clean s) :
    Clean (putMeta s k (bump m0)) := clean_putMeta_same s k m0 _ hm rfl hc

theorem clean_loaded (s : MState) (k : Bytes) (m0 : Meta) (v : Val) (oid : Nat)
    (hl : loadValue s k m0 = some (v, oid)) (hc : Clean s) : s.pebble = true := by
  rcases hc with hp | ⟨hd, _⟩
  · exact hp
  · rw [loadValue_nil s k m0 hd] at hl; cases hl

theorem clean_writeKey (s : MState) (now : Int) (k : Bytes) (mk : Option Val) (hc : Clean s) :
    Clean (writeKey s now k mk).1 := by
  rcases writeKey_shape s now k mk with ⟨_, e⟩ | ⟨m0, hm, ⟨e, _⟩ | ⟨e, _⟩ | ⟨v, oid, e, _, _, _, hl⟩⟩ <;> rw [e]
  · exact clean_orCreate _ _ _ _ hc
  · exact clean_orCreate _ _ _ _ (clean_bump _ k m0 (by rw [getMeta_lockW]; exact hm) (clean_lockW s k hc))
  · exact clean_bump _ k m0 (by rw [getMeta_lockW]; exact hm) (clean_lockW s k hc)
  · exact Or.inl (((sameDisk_lockW s k).trans ((sameDisk_putMeta _ _ _).trans (sameDisk_putMeta _ _ _))).2.trans
      (clean_loaded s k m0 v oid hl hc))

theorem clean_readKey (s : MState) (now : Int) (k : Bytes) (hc : Clean s) : Clean (readKey s now k).1 := by
  rcases readKey_shape s now k with ⟨_, e⟩ | ⟨m0, hm, ⟨e, _⟩ | ⟨e, _⟩ | ⟨v, oid, e, _, _, _, hl⟩⟩ <;> rw [e]
  · exact hc
  · exact clean_bump _ k m0 (by rw [getMeta_lockR]; exact hm) (clean_lockR s k hc)
  · exact clean_bump _ k m0 (by rw [getMeta_lockR]; exact hm) (clean_lockR s k hc)
  · exact Or.inl (((sameDisk_lockR s k).trans ((sameDisk_putMeta _ _ _).trans (sameDisk_putMeta _ _ _))).2.trans
      (clean_loaded s k m0 v oid hl hc))

theorem delKey_misc (s : MState) (k : Bytes) :
    (delKey s k).nextId = s.nextId ∧ (s.disk = [] → (delKey s k).disk = []) := by
  unfold delKey
  cases AList.get? s.index k with
  | none => exact ⟨rfl, fun h => h⟩
  | some m =>
    simp only
    exact ⟨unpersist_nextId s k m, fun h => unpersist_disk_nil s k m h⟩

theorem oids_delKey (s : MState) (k : Bytes) (hs : IndexSorted s) (h : OidsOK s) : OidsOK (delKey s k) := by
  have g : ∀ a m, getMeta (delKey s k) a = some m → a ≠ k ∧ getMeta s a = some m := by
    intro a m ha
    by_cases e : a = k
    · subst e; rw [getMeta_delKey_same s a hs] at ha; cases ha
    · rw [getMeta_delKey_other s a k e] at ha; exact ⟨e, ha⟩
  refine ⟨fun a b ma mb h1 h2 => h.1 a b ma mb (g a ma h1).2 (g b mb h2).2, fun a ma h1 => ?_⟩
  rw [(delKey_misc s k).1]
  exact h.2 a ma (g a ma h1).2

theorem clean_delKey (s : MState) (k : Bytes) (hs : IndexSorted s) (hc : Clean s) : Clean (delKey s k) := by
  rcases hc with hp | ⟨hd, ho⟩
  · exact Or.inl (by rw [delKey_pebble]; exact hp)
  · exact Or.inr ⟨(delKey_misc s k).2 hd, oids_delKey s k hs ho⟩

theorem syncShared_clean (s : MState) (hc : Clean s) : Store.syncShared s = s := by
  unfold Store.syncShared
  split
  · rfl
  · rcases hc with hp | ⟨hd, _⟩
    · next hn => exact absurd hp hn
    · cases s with
      | mk index disk pebble nextId closed failSet feed listeners signalled held hung =>
        simp only at hd
        subst hd
        rfl

theorem clean_initial (pebble : Bool) : Clean ({ pebble := pebble } : MState) := by
  cases pebble
  · right
    refine ⟨rfl, fun k k' m m' h => ?_, fun k m h => ?_⟩
    · cases h
    · cases h
  · left; rfl
end NodisVerif.Proofs.C01
