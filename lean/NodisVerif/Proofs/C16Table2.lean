import NodisVerif.Model.Handler2
import NodisVerif.Proofs.C16Handlers
/-
  C16 "exactly one well-formed RESP reply per command", handler level, list / hash / set families
  (`Handler2.table2`).

  Part 1 (this file): `one_reply_<h>` for every handler reachable from `table2` — for EVERY argument
  vector, store, clock and choice the handler writes exactly one RESP value (`.crash` = the
  dispatch-level recover writes the single error) — and `table2_one_reply`.
  Part 2 (C16Table2b.lean): the wire-level side conditions `wire_<h>`, `table2_wire`.

  No handler of `table2` needed a finding region: every `| _ =>` fallback of the array-shaped replies
  writes `*0` (one value), every `panicWith` has an empty token list, the header of HGETALL is
  `2·len` and is followed by exactly `2·len` bulk strings, HMGET pads with one null per field.
-/
namespace NodisVerif.Proofs.C16Table2
open NodisVerif NodisVerif.Resp NodisVerif.Handler NodisVerif.Handler2
open NodisVerif.Proofs.C16Handlers

/-! ## token-list facts -/

theorem scalar_optBulk (b : Option Bytes) : isScalar (optBulk b) = true := by
  cases b <;> rfl

theorem scalar_unsupported : isScalar unsupported = true := rfl

theorem oneValue_arr0 : oneValue [Tok.arr 0] = true := oneValue_arr_nonpos 0 (by omega)

/-- `*len` followed by one scalar token per element -/
theorem oneValue_arr_map {α : Type} (xs : List α) (f : α → Tok) (h : ∀ x, isScalar (f x) = true) :
    oneValue (Tok.arr xs.length :: xs.map f) = true := by
  have := oneValue_arr_scalars (xs.map f) (by
    intro t ht
    rw [List.mem_map] at ht
    obtain ⟨x, _, rfl⟩ := ht
    exact h x)
  rw [List.length_map] at this
  exact this

/-- the tokens of a map-shaped reply: field, value, field, value … -/
def pairToks (m : List (Bytes × Option Bytes)) : List Tok :=
  m.flatMap fun (k, v) => [Tok.bulk k, Tok.bulk (v.getD [])]

theorem pairToks_length (m : List (Bytes × Option Bytes)) : (pairToks m).length = 2 * m.length := by
  induction m with
  | nil => rfl
  | cons p m ih =>
    obtain ⟨k, v⟩ := p
    show ([Tok.bulk k, Tok.bulk (v.getD [])] ++ pairToks m).length = _
    rw [List.length_append, ih, List.length_cons]
    simp only [List.length_cons, List.length_nil]
    omega

theorem pairToks_scalar (m : List (Bytes × Option Bytes)) : ∀ t ∈ pairToks m, isScalar t = true := by
  intro t ht
  unfold pairToks at ht
  rw [List.mem_flatMap] at ht
  obtain ⟨⟨k, v⟩, _, hx⟩ := ht
  simp only [List.mem_cons, List.mem_nil_iff, or_false] at hx
  rcases hx with rfl | rfl <;> rfl

/-- HGETALL: the header announces `2·(number of pairs)` and exactly that many bulk strings follow -/
theorem oneValue_pairs (m : List (Bytes × Option Bytes)) :
    oneValue (Tok.arr (2 * m.length) :: m.flatMap fun (k, v) => [Tok.bulk k, Tok.bulk (v.getD [])]) = true := by
  have h := oneValue_arr_scalars (pairToks m) (pairToks_scalar m)
  have hl : ((pairToks m).length : Int) = 2 * (m.length : Int) := by
    have := pairToks_length m; omega
  rw [hl] at h
  exact h

theorem oneValue_invalidChoice (o : Out) : oneValue (invalidChoice o) = true := by
  unfold invalidChoice
  split <;> exact oneValue_scalar _ rfl

theorem good_panicWith_nil (s : MState) : Good (panicWith s []) := good_panic_nil s

/-- the token is a scalar, possibly after case distinctions (with `optBulk`) -/
macro "scal2" : tactic =>
  `(tactic| first
    | rfl
    | exact scalar_optBulk _
    | (split <;> first | rfl | exact scalar_optBulk _ | (split <;> rfl)))

/-- a closure `call r (fun s o => done s [scalar])` -/
macro "hcall2" : tactic =>
  `(tactic| (intro s now ch; apply good_call_all; intro s o;
             first
             | (apply good_done_scalar; scal2)
             | (split <;> apply good_done_scalar <;> scal2)))

/-! ## lists -/

theorem one_reply_pushH (left : Bool) (args : List Bytes) : OneReply (Handler2.pushH left args) := by
  unfold Handler2.pushH
  split
  · hcall2
  · exact oneReply_errReply

/-- LPOP / RPOP: null, one bulk (count = 1), or `*len` with `len` bulk strings -/
theorem good_pop_k (noCount : Bool) (s : MState) (o : Out) :
    Good (match o with
          | .blist (v :: vs) =>
            let bs := (v :: vs).map (·.getD [])
            if noCount then done s [.bulk (v.getD [])] else done s (bulkList bs)
          | _ => done s [.nullBulk]) := by
  split
  · dsimp only
    split
    · exact good_done_scalar _ _ rfl
    · exact good_done _ _ (oneValue_bulkList _)
  · exact good_done_scalar _ _ rfl

theorem one_reply_popH (left : Bool) (args : List Bytes) : OneReply (Handler2.popH left args) := by
  unfold Handler2.popH
  split
  · exact oneReply_errReply
  · dsimp only
    apply oneReply_ite
    · exact oneReply_errReply
    · intro s now ch
      apply good_call_all
      intro s o
      exact good_pop_k _ s o

theorem one_reply_llenH (args : List Bytes) : OneReply (Handler2.llenH args) := by
  unfold Handler2.llenH
  split
  · hcall2
  · exact oneReply_errReply

theorem one_reply_lIndexH (args : List Bytes) : OneReply (Handler2.lIndexH args) := by
  unfold Handler2.lIndexH
  split
  · hcall2
  · exact oneReply_errReply

theorem one_reply_lInsertH (args : List Bytes) : OneReply (Handler2.lInsertH args) := by
  unfold Handler2.lInsertH
  split
  · hcall2
  · exact oneReply_errReply

theorem one_reply_lPushxH (args : List Bytes) : OneReply (Handler2.lPushxH args) := by
  unfold Handler2.lPushxH
  split
  · hcall2
  · exact oneReply_errReply

theorem one_reply_rPushxH (args : List Bytes) : OneReply (Handler2.rPushxH args) := by
  unfold Handler2.rPushxH
  split
  · hcall2
  · exact oneReply_errReply

/-- LREM: `cmd.Args[2]` missing ⇒ the closure panics before writing anything ⇒ one recovered error -/
theorem one_reply_lRemH (args : List Bytes) : OneReply (Handler2.lRemH args) := by
  unfold Handler2.lRemH
  split
  · split
    · exact oneReply_errReply
    · intro s now ch
      show Good _
      split
      · exact good_panicWith_nil _
      · apply good_call_all; intro s o; exact good_done_scalar _ _ rfl
  · exact oneReply_errReply

/-- the common prologue of LTRIM / LRANGE -/
theorem one_reply_startStop (args : List Bytes) (k : Bytes → Int → Int → HRes)
    (hk : ∀ key a b, OneReply (k key a b)) : OneReply (Handler2.startStop args k) := by
  unfold Handler2.startStop
  split
  · split
    · exact oneReply_errReply
    · split
      · trivial
      · split
        · exact oneReply_errReply
        · exact hk _ _ _
  · exact oneReply_errReply

theorem one_reply_lTrimH (args : List Bytes) : OneReply (Handler2.lTrimH args) := by
  unfold Handler2.lTrimH
  apply one_reply_startStop
  intro key a b
  hcall2

/-- LRANGE: `*len` with `len` bulk strings (or `*0`) -/
theorem one_reply_lRangeH (args : List Bytes) : OneReply (Handler2.lRangeH args) := by
  unfold Handler2.lRangeH
  apply one_reply_startStop
  intro key a b s now ch
  apply good_call_all
  intro s o
  apply good_done
  split
  · exact oneValue_bulkList _
  · exact oneValue_arr0

/-- LSET: one API call in the closure; a panic gives one error; otherwise one token -/
theorem one_reply_lSetH (args : List Bytes) : OneReply (Handler2.lSetH args) := by
  unfold Handler2.lSetH
  split
  · split
    · exact oneReply_errReply
    · intro s now ch
      apply good_call_all
      intro s o
      split
      · exact good_done_scalar _ _ rfl
      · exact good_done_scalar _ _ rfl
  · exact oneReply_errReply

theorem one_reply_rotateH (left : Bool) (args : List Bytes) : OneReply (Handler2.rotateH left args) := by
  unfold Handler2.rotateH
  split
  · hcall2
  · exact oneReply_errReply

/-! ## hashes -/

theorem one_reply_hSetH (args : List Bytes) : OneReply (Handler2.hSetH args) := by
  unfold Handler2.hSetH
  split
  · intro s now ch
    apply good_call_all
    intro s o
    exact good_done_scalar _ _ rfl
  · exact oneReply_errReply

theorem one_reply_hGetH (args : List Bytes) : OneReply (Handler2.hGetH args) := by
  unfold Handler2.hGetH
  split
  · hcall2
  · exact oneReply_errReply

theorem one_reply_hDelH (args : List Bytes) : OneReply (Handler2.hDelH args) := by
  unfold Handler2.hDelH
  split
  · hcall2
  · exact oneReply_errReply

theorem one_reply_hLenH (args : List Bytes) : OneReply (Handler2.hLenH args) := by
  unfold Handler2.hLenH
  split
  · hcall2
  · exact oneReply_errReply

theorem one_reply_hKeysH (args : List Bytes) : OneReply (Handler2.hKeysH args) := by
  unfold Handler2.hKeysH
  split
  · intro s now ch
    apply good_call_all
    intro s o
    apply good_done
    split
    · exact oneValue_bulkList _
    · exact oneValue_arr0
  · exact oneReply_errReply

theorem one_reply_hExistsH (args : List Bytes) : OneReply (Handler2.hExistsH args) := by
  unfold Handler2.hExistsH
  split
  · hcall2
  · exact oneReply_errReply

/-- HGETALL: `*2·len` and `2·len` bulk strings (or `*0`) -/
theorem one_reply_hGetAllH (args : List Bytes) : OneReply (Handler2.hGetAllH args) := by
  unfold Handler2.hGetAllH
  split
  · intro s now ch
    apply good_call_all
    intro s o
    split
    · exact good_done _ _ (oneValue_pairs _)
    · exact good_done _ _ oneValue_arr0
  · exact oneReply_errReply

theorem one_reply_hIncrByH (args : List Bytes) : OneReply (Handler2.hIncrByH args) := by
  unfold Handler2.hIncrByH
  split
  · split
    · exact oneReply_errReply
    · intro s now ch
      apply good_call_all
      intro s o
      split <;> exact good_done_scalar _ _ rfl
  · exact oneReply_errReply

theorem one_reply_hIncrByFloatH (args : List Bytes) : OneReply (Handler2.hIncrByFloatH args) := by
  unfold Handler2.hIncrByFloatH
  split
  · split
    · trivial
    · exact oneReply_errReply
    · intro s now ch
      show oneValue [unsupported] = true
      exact oneValue_scalar _ rfl
    · intro s now ch
      apply good_call_all
      intro s o
      split
      · apply good_done_scalar; split <;> rfl
      · exact good_done_scalar _ _ rfl
      · exact good_done_scalar _ _ rfl
  · exact oneReply_errReply

theorem one_reply_hSetNXH (args : List Bytes) : OneReply (Handler2.hSetNXH args) := by
  unfold Handler2.hSetNXH
  split
  · hcall2
  · exact oneReply_errReply

/-- HMGET: `*n` and one bulk / null per field, whichever alternative is taken -/
theorem one_reply_hMGetH (args : List Bytes) : OneReply (Handler2.hMGetH args) := by
  unfold Handler2.hMGetH
  split
  · intro s now ch
    dsimp only
    apply good_call_all
    intro s o
    split
    · exact good_done _ _ (oneValue_arr_map _ _ (fun _ => rfl))
    · exact good_done _ _ (oneValue_arr_map _ _ scalar_optBulk)
    · exact good_done _ _ oneValue_arr0
  · exact oneReply_errReply

theorem one_reply_hMSetH (args : List Bytes) : OneReply (Handler2.hMSetH args) := by
  unfold Handler2.hMSetH
  split
  · hcall2
  · exact oneReply_errReply

theorem one_reply_hClearH (args : List Bytes) : OneReply (Handler2.hClearH args) := by
  unfold Handler2.hClearH
  split
  · hcall2
  · exact oneReply_errReply

theorem one_reply_hStrLenH (args : List Bytes) : OneReply (Handler2.hStrLenH args) := by
  unfold Handler2.hStrLenH
  split
  · hcall2
  · exact oneReply_errReply

theorem one_reply_hValsH (args : List Bytes) : OneReply (Handler2.hValsH args) := by
  unfold Handler2.hValsH
  split
  · intro s now ch
    apply good_call_all
    intro s o
    apply good_done
    split
    · exact oneValue_bulkList _
    · exact oneValue_arr0
  · exact oneReply_errReply

/-! ## sets -/

theorem one_reply_sAddH (args : List Bytes) : OneReply (Handler2.sAddH args) := by
  unfold Handler2.sAddH
  split
  · hcall2
  · exact oneReply_errReply

theorem one_reply_sMoveH (args : List Bytes) : OneReply (Handler2.sMoveH args) := by
  unfold Handler2.sMoveH
  split
  · hcall2
  · exact oneReply_errReply

/-- SPOP: null, one bulk, `*len` with `len` bulk strings, or the model's verdict token — for EVERY
    choice list, valid or not -/
theorem one_reply_sPopH (args : List Bytes) : OneReply (Handler2.sPopH args) := by
  unfold Handler2.sPopH
  split
  · exact oneReply_errReply
  · dsimp only
    apply oneReply_ite
    · exact oneReply_errReply
    · intro s now ch
      apply good_call_all
      intro s o
      split
      · exact good_done_scalar _ _ rfl
      · split
        · exact good_done_scalar _ _ rfl
        · exact good_done _ _ (oneValue_bulkList _)
      · exact good_done _ _ (oneValue_invalidChoice _)

theorem one_reply_sCardH (args : List Bytes) : OneReply (Handler2.sCardH args) := by
  unfold Handler2.sCardH
  split
  · hcall2
  · exact oneReply_errReply

/-- SDIFF / SINTER / SUNION — for ANY operation `op` -/
theorem one_reply_sOpH (op : MState → Int → List Bytes → Api.R) (args : List Bytes) :
    OneReply (Handler2.sOpH op args) := by
  unfold Handler2.sOpH
  split
  · intro s now ch
    apply good_call_all
    intro s o
    apply good_done
    split
    · exact oneValue_bulkList _
    · exact oneValue_arr0
  · exact oneReply_errReply

/-- S*STORE — for ANY operation `op`: one API call in the closure -/
theorem one_reply_sStoreH (op : MState → Int → List Bytes → Api.R) (all : Bool) (args : List Bytes) :
    OneReply (Handler2.sStoreH op all args) := by
  unfold Handler2.sStoreH
  split
  · intro s now ch
    apply good_call_all
    intro s o
    exact good_done_scalar _ _ rfl
  · exact oneReply_errReply

theorem one_reply_sIsMemberH (args : List Bytes) : OneReply (Handler2.sIsMemberH args) := by
  unfold Handler2.sIsMemberH
  split
  · hcall2
  · exact oneReply_errReply

theorem one_reply_sMembersH (args : List Bytes) : OneReply (Handler2.sMembersH args) := by
  unfold Handler2.sMembersH
  split
  · intro s now ch
    apply good_call_all
    intro s o
    apply good_done
    split
    · exact oneValue_bulkList _
    · exact oneValue_arr0
  · exact oneReply_errReply

/-- SRANDMEMBER: `*0` / null, `*len` with `len` bulk strings / one bulk, or the verdict token -/
theorem one_reply_sRandMemberH (args : List Bytes) : OneReply (Handler2.sRandMemberH args) := by
  unfold Handler2.sRandMemberH
  split
  · exact oneReply_errReply
  · dsimp only
    apply oneReply_ite
    · exact oneReply_errReply
    · intro s now ch
      apply good_call_all
      intro s o
      split
      · split
        · exact good_done _ _ oneValue_arr0
        · exact good_done_scalar _ _ rfl
      · split
        · exact good_done _ _ (oneValue_bulkList _)
        · exact good_done_scalar _ _ rfl
      · exact good_done _ _ (oneValue_invalidChoice _)

theorem one_reply_sRemH (args : List Bytes) : OneReply (Handler2.sRemH args) := by
  unfold Handler2.sRemH
  split
  · hcall2
  · exact oneReply_errReply

/-! ## the dispatch table -/

/-- every handler of `Handler2.table2`, on every argument vector, writes exactly one RESP value -/
theorem table2_one_reply (name : String) (args : List Bytes) (r : HRes)
    (h : Handler2.table2 name args = some r) : OneReply r := by
  unfold Handler2.table2 at h
  split at h
  · cases h; exact one_reply_pushH _ _
  · cases h; exact one_reply_pushH _ _
  · cases h; exact one_reply_popH _ _
  · cases h; exact one_reply_popH _ _
  · cases h; exact one_reply_llenH _
  · cases h; exact one_reply_lIndexH _
  · cases h; exact one_reply_lInsertH _
  · cases h; exact one_reply_lPushxH _
  · cases h; exact one_reply_rPushxH _
  · cases h; exact one_reply_lRemH _
  · cases h; exact one_reply_lTrimH _
  · cases h; exact one_reply_lSetH _
  · cases h; exact one_reply_lRangeH _
  · cases h; exact one_reply_rotateH _ _
  · cases h; exact one_reply_rotateH _ _
  · cases h; exact one_reply_hSetH _
  · cases h; exact one_reply_hGetH _
  · cases h; exact one_reply_hDelH _
  · cases h; exact one_reply_hLenH _
  · cases h; exact one_reply_hKeysH _
  · cases h; exact one_reply_hExistsH _
  · cases h; exact one_reply_hGetAllH _
  · cases h; exact one_reply_hIncrByH _
  · cases h; exact one_reply_hIncrByFloatH _
  · cases h; exact one_reply_hSetNXH _
  · cases h; exact one_reply_hMGetH _
  · cases h; exact one_reply_hMSetH _
  · cases h; exact one_reply_hClearH _
  · cases h; exact one_reply_hStrLenH _
  · cases h; exact one_reply_hValsH _
  · cases h; exact one_reply_sAddH _
  · cases h; exact one_reply_sMoveH _
  · cases h; exact one_reply_sCardH _
  · cases h; exact one_reply_sPopH _
  · cases h; exact one_reply_sOpH _ _
  · cases h; exact one_reply_sStoreH _ _ _
  · cases h; exact one_reply_sOpH _ _
  · cases h; exact one_reply_sStoreH _ _ _
  · cases h; exact one_reply_sOpH _ _
  · cases h; exact one_reply_sStoreH _ _ _
  · cases h; exact one_reply_sIsMemberH _
  · cases h; exact one_reply_sMembersH _
  · cases h; exact one_reply_sRandMemberH _
  · cases h; exact one_reply_sRemH _
  · cases h

/- UNPROVED: nothing. FINDINGS: none (every statement holds at full strength). -/

end NodisVerif.Proofs.C16Table2
