import NodisVerif.Proofs.C09IncrStep
/-
  C09 — the EXEC move of the optimistic-increment system, and the invariant along any schedule.
-/
namespace NodisVerif.Proofs.C09Incr
open NodisVerif.Proofs.C08Step NodisVerif.Proofs.AListLemmas2 Store Resp Server

variable (k : Bytes)

/-- what an EXEC move does, in one statement (used for the per-transaction theorem as well) -/
theorem exec_move (v0 : Nat) (s : Sys) (h : Inv k v0 s) (i : String) (now : Int) (v : Nat) (hp : s.ph i = .queued v) :
    let c := cmdOf k i now (.queued v)
    ((s.sv.conn i).watch.any (·.2) = true →
        (step scriptTable s.sv c).2 = [Tok.nullBulk] ∧ (step scriptTable s.sv c).1.store = s.sv.store) ∧
    ((s.sv.conn i).watch.any (·.2) = false →
        v = v0 + s.wins ∧ CounterIs k s.sv.store v ∧
        (step scriptTable s.sv c).2 = [Tok.arr 1, Handler.ok] ∧
        CounterIs k (step scriptTable s.sv c).1.store (v + 1) ∧
        (step scriptTable s.sv c).1.store.flushed = false ∧
        stepTouches scriptTable s.sv c k) := by
  intro c
  have hi := h.conns i
  rw [hp] at hi
  obtain ⟨hst, hq, hreg, hcl⟩ := hi
  have h1 : (s.sv.conn i).state % 2 = 1 := by rw [hst]; rfl
  have h2 : ((s.sv.conn i).state / 4) % 2 ≠ 1 := by rw [hst]; decide
  have hne : (s.sv.conn i).queue ≠ [] := by rw [hq]; simp
  have e : step scriptTable s.sv c = exec s.sv i now := step_exec scriptTable s.sv c rfl
  refine ⟨fun hw => ?_, fun hw => ?_⟩
  · rw [e, exec_watch_abort s.sv i now h1 h2 hw]
    exact ⟨rfl, resetConn_store _ _⟩
  · have hv : v = v0 + s.wins := hcl ((clean_iff_any _).mpr hw)
    have hcnt : CounterIs k s.sv.store v := by rw [hv]; exact h.cnt
    obtain ⟨a, b⟩ := exec_runs s.sv i now h1 h2 hne hw
    rw [hq] at a b
    have hpre : getMeta s.sv.store k = none ∨ ∃ b, StrAt k s.sv.store b := by
      rcases hcnt with ⟨x, _⟩ | x
      · exact Or.inl x
      · exact Or.inr ⟨_, x⟩
    obtain ⟨o1, o2, o3⟩ := setBody_out k s.sv.store now none (formatInt ((v + 1 : Nat) : Int)) hpre
    have hstore : (step scriptTable s.sv c).1.store =
        storeAfter (outOf s.sv.store now none (setBody k (formatInt ((v + 1 : Nat) : Int)))) := by
      rw [e, a]; rfl
    refine ⟨hv, hcnt, ?_, ?_, ?_, ?_⟩
    · rw [e, b]
      simp only [execOuts, List.flatMap_cons, List.flatMap_nil, List.append_nil, o1, List.length_singleton]
      rfl
    · rw [hstore]; exact Or.inr o2
    · rw [hstore]; rfl
    · have hr : execRuns (s.sv.conn i) := ⟨h1, h2, hne, hw⟩
      refine ⟨outOf s.sv.store now none (setBody k (formatInt ((v + 1 : Nat) : Int))), ?_, Or.inl o3⟩
      have : stepOuts scriptTable s.sv c = execOuts s.sv.store now (s.sv.conn i).queue := by
        simp only [stepOuts, c, cmdOf, if_true]
        rw [if_pos hr]
      rw [this, hq]; simp [execOuts]

/-- queued v → EXEC -/
theorem inv_queued (v0 : Nat) (s : Sys) (h : Inv k v0 s) (i : String) (now : Int) (v : Nat) (hp : s.ph i = .queued v) :
    Inv k v0 (sysStep k s (i, now)) := by
  let c : Cmd := cmdOf k i now (.queued v)
  obtain ⟨hA, hB⟩ := exec_move k v0 s h i now v hp
  have hwf' := h.wf.step scriptTable c
  have hconn : (step scriptTable s.sv c).1.conn i = {} := by
    rw [step_exec scriptTable s.sv c rfl]; exact exec_conn_reset s.sv i now
  by_cases hw : (s.sv.conn i).watch.any (·.2) = true
  · obtain ⟨r1, r2⟩ := hA hw
    have hnp : nextPhase (.queued v) (step scriptTable s.sv c).2 = (.idle, false) := by
      rw [r1]; rfl
    have houts : stepOuts scriptTable s.sv c = [] := by
      have : ¬ execRuns (s.sv.conn i) := fun hr => by rw [hr.2.2.2] at hw; cases hw
      simp only [stepOuts, c, cmdOf, if_true]
      rw [if_neg this]
    simp only [sysStep, hp]
    show Inv k v0 { sv := (step scriptTable s.sv c).1,
                    ph := fun j => if j = i then (nextPhase (.queued v) (step scriptTable s.sv c).2).1 else s.ph j,
                    wins := if (nextPhase (.queued v) (step scriptTable s.sv c).2).2 then s.wins + 1 else s.wins }
    rw [hnp]
    refine ⟨hwf', ?_, ?_, ?_⟩
    · show (step scriptTable s.sv c).1.store.flushed = false
      rw [r2]; exact h.nofl
    · show CounterIs k (step scriptTable s.sv c).1.store (v0 + s.wins)
      rw [r2]; exact h.cnt
    · intro j
      by_cases hj : j = i
      · subst hj
        simp only [if_true, Bool.false_eq_true, if_false]
        show ConnInv k (step scriptTable s.sv c).1 (v0 + s.wins) j .idle
        refine ⟨?_, ?_⟩ <;> rw [hconn]
      · simp only [if_neg hj, Bool.false_eq_true, if_false]
        have o := others_of_quiet k h.wf c (quiet_of_no_outs houts) j hj
        exact (h.conns j).transfer k o.1 o.2
  · have hw' : (s.sv.conn i).watch.any (·.2) = false := by simpa using hw
    obtain ⟨hv, _, r1, r2, r3, r4⟩ := hB hw'
    have hnp : nextPhase (.queued v) (step scriptTable s.sv c).2 = (.idle, true) := by
      rw [r1]; rfl
    simp only [sysStep, hp]
    show Inv k v0 { sv := (step scriptTable s.sv c).1,
                    ph := fun j => if j = i then (nextPhase (.queued v) (step scriptTable s.sv c).2).1 else s.ph j,
                    wins := if (nextPhase (.queued v) (step scriptTable s.sv c).2).2 then s.wins + 1 else s.wins }
    rw [hnp]
    refine ⟨hwf', r3, ?_, ?_⟩
    · show CounterIs k (step scriptTable s.sv c).1.store (v0 + (s.wins + 1))
      rw [← Nat.add_assoc, ← hv]; exact r2
    · intro j
      by_cases hj : j = i
      · subst hj
        simp only [if_true]
        show ConnInv k (step scriptTable s.sv c).1 _ j .idle
        refine ⟨?_, ?_⟩ <;> rw [hconn]
      · simp only [if_neg hj, if_true]
        have o := Others.step scriptTable s.sv c
        have hj' : j ≠ c.id := hj
        refine (h.conns j).flagged k (o.state j hj') (o.queue j hj') (fun r => (o.reg j hj' k).mpr r) ?_
        intro r
        exact (step_keeps scriptTable h.wf c j (fun hc => hj hc.1.symm)).hit k r4 r

/-- every move preserves the invariant (as long as the counter fits an int64) -/
theorem Inv.sysStep (v0 : Nat) (s : Sys) (h : Inv k v0 s) (mv : String × Int)
    (hb : ((v0 + s.wins : Nat) : Int) ≤ int64Max) : Inv k v0 (sysStep k s mv) := by
  obtain ⟨i, now⟩ := mv
  cases hp : s.ph i with
  | idle => exact inv_idle k v0 s h i now hp
  | watched => exact inv_watched k v0 s h i now hp hb
  | read v => exact inv_read k v0 s h i now v hp
  | inMulti v => exact inv_inMulti k v0 s h i now v hp
  | queued v => exact inv_queued k v0 s h i now v hp

theorem wins_step (s : Sys) (mv : String × Int) : (sysStep k s mv).wins ≤ s.wins + 1 := by
  simp only [C09Incr.sysStep]
  split <;> omega

theorem Inv.sysRun (v0 : Nat) : ∀ (sched : List (String × Int)) (s : Sys), Inv k v0 s →
    ((v0 + s.wins + sched.length : Nat) : Int) ≤ int64Max → Inv k v0 (sysRun k s sched) := by
  intro sched
  induction sched with
  | nil => intro s h _; exact h
  | cons mv rest ih =>
    intro s h hb
    simp only [List.length_cons] at hb
    have h' := h.sysStep k v0 s mv (by
      have : ((v0 + s.wins : Nat) : Int) ≤ ((v0 + s.wins + (rest.length + 1) : Nat) : Int) := by
        exact Int.ofNat_le.mpr (by omega)
      omega)
    have hw := wins_step k s mv
    show Inv k v0 (C09Incr.sysRun k (C09Incr.sysStep k s mv) rest)
    apply ih _ h'
    have : ((v0 + (C09Incr.sysStep k s mv).wins + rest.length : Nat) : Int) ≤ ((v0 + s.wins + (rest.length + 1) : Nat) : Int) :=
      Int.ofNat_le.mpr (by omega)
    omega

theorem Inv.init (v0 : Nat) (st : MState) (h0 : CounterIs k st v0) (hfl : st.flushed = false) :
    Inv k v0 { sv := { store := st }, ph := fun _ => .idle, wins := 0 } := by
  refine ⟨RegWF.init st, hfl, h0, ?_⟩
  intro i
  exact ⟨rfl, rfl⟩

end NodisVerif.Proofs.C09Incr
