import NodisVerif.Proofs.C03Seq
/-
  C03, store level: value-object identities.

  `Api.setVal` mutates the value *object* of a key: with the in-memory backend the new value shows
  through every index record and every backend entry that carries the same object identity (`oid`).
  A command on one key therefore leaves the other keys alone only in stores where no two live
  records share a value object. `OidsDistinct` is that invariant, together with what is needed to
  keep it: identities are below the allocator's `nextId` (so that a freshly allocated one is new),
  and a backend entry's identity belongs to the key under whose name the entry is filed (so that a
  cold value loaded back by `writeKey` / `readKey` does not import a foreign identity).

  It holds in the empty store and is preserved by every store primitive the set / hash commands are
  made of (`writeKey`, `readKey`, `newKeyWith`, `setVal`, `delKey`, `signal`, `emit`, `commit`) — also when the
  key is cold and its value is loaded back from the backend — and hence by SADD, SREM, SPOP (any choice),
  SMOVE, DEL, the three S*STORE forms, the set reads, and HSET / HSETNX / HMSET / HDEL / HINCRBY (`inv_*`).
  Under it a single-key writer leaves every other record untouched (`step_*`), and SMOVE between two
  different keys does what it should (`smove_between`).

  REMARK (where it is NOT claimed — outside these theorems):
  * `Api.rename` / `Api.renameNX` hand the *source's* value object to the destination on purpose
    (`{ d with oid := m.oid }`). The index stays unshared (the source is unlinked), but a backend entry of the
    source that outlives the call keeps the identity under the source's name (`diskOwner` fails).
  * `Store.reopen` rebuilds the index from the backend entries and gives every record the identity kept in
    its entry (and does not advance `nextId`): with the in-memory backend the records share their objects
    with whatever the backend holds, so any violation of `diskOwner` / `diskDisk` becomes two index records
    sharing one object — the situation the doc comment of `Api.setVal` describes. In such a store the
    conclusion of `smove_between` is false (Props/C03.lean, `smove_between_keys_needs_unshared_objects`).
  * `Store.gc` / `Store.flush` file new backend entries (`diskSet`); keeping `diskOwner` there needs the backend
    to be keyed by `Codec.encodeKey name deadline` injectively (Proofs/C10Base.lean `encodeKey_inj`, and the
    backend invariants of C11 / C13). Not done here: not needed for the commands of C03.
-/
namespace NodisVerif.Proofs.C03Oids
open NodisVerif.Proofs.AListLemmas NodisVerif.Proofs.AListLemmas2 NodisVerif.Proofs.C03 NodisVerif.Proofs.C03Api
open NodisVerif.Proofs.C03Seq
open Store Api

/-- the identity invariant with an explicit bound `n` in place of `s.nextId` -/
structure OidsBelow (n : Nat) (s : MState) : Prop where
  /-- identities of index records are below the bound (0 = "no identity": a copy decoded from Pebble) -/
  idxBound : ∀ k m, getMeta s k = some m → m.oid ≠ 0 → m.oid < n
  /-- distinct keys, distinct value objects -/
  idxDistinct : ∀ k k' m m', getMeta s k = some m → getMeta s k' = some m' → m.oid = m'.oid → m.oid ≠ 0 → k = k'
  /-- identities kept in the backend are below the bound -/
  diskBound : ∀ ek e, (ek, e) ∈ s.disk → e.oid ≠ 0 → e.oid < n
  /-- an identity kept in a backend entry belongs to the key under whose name the entry is filed -/
  diskOwner : ∀ ek e k m name exp, (ek, e) ∈ s.disk → getMeta s k = some m → m.oid = e.oid → e.oid ≠ 0 →
    ek = Codec.encodeKey name exp → k = name
  /-- two backend entries with one identity are filed under one name -/
  diskDisk : ∀ ek e ek' e' name exp name' exp', (ek, e) ∈ s.disk → (ek', e') ∈ s.disk → e.oid = e'.oid → e.oid ≠ 0 →
    ek = Codec.encodeKey name exp → ek' = Codec.encodeKey name' exp' → name = name'

/-- distinct live keys have distinct value objects, all identities are below `nextId`, and the backend
    does not hold a key's identity under another key's name -/
def OidsDistinct (s : MState) : Prop := OidsBelow s.nextId s

/-- `s'` carries no identity that `s` did not carry at the same place -/
structure OidSub (s s' : MState) : Prop where
  nextId : s.nextId ≤ s'.nextId
  idx : ∀ k m', getMeta s' k = some m' → ∃ m, getMeta s k = some m ∧ m.oid = m'.oid
  disk : ∀ ek e', (ek, e') ∈ s'.disk → ∃ e, (ek, e) ∈ s.disk ∧ e.oid = e'.oid

theorem OidsBelow.mono {n n' : Nat} {s s' : MState} (h : OidsBelow n s) (hn : n ≤ n')
    (hi : ∀ k m', getMeta s' k = some m' → ∃ m, getMeta s k = some m ∧ m.oid = m'.oid)
    (hd : ∀ ek e', (ek, e') ∈ s'.disk → ∃ e, (ek, e) ∈ s.disk ∧ e.oid = e'.oid) : OidsBelow n' s' := by
  refine ⟨?_, ?_, ?_, ?_, ?_⟩
  · intro k m' hm' hne
    obtain ⟨m, hm, ho⟩ := hi k m' hm'
    have := h.idxBound k m hm (by rw [ho]; exact hne)
    omega
  · intro k k' m1' m2' h1 h2 heq hne
    obtain ⟨m1, hm1, ho1⟩ := hi k m1' h1
    obtain ⟨m2, hm2, ho2⟩ := hi k' m2' h2
    exact h.idxDistinct k k' m1 m2 hm1 hm2 (by rw [ho1, ho2]; exact heq) (by rw [ho1]; exact hne)
  · intro ek e' he' hne
    obtain ⟨e, he, ho⟩ := hd ek e' he'
    have := h.diskBound ek e he (by rw [ho]; exact hne)
    omega
  · intro ek e' k m' name exp he' hm' heq hne hek
    obtain ⟨e, he, ho⟩ := hd ek e' he'
    obtain ⟨m, hm, hmo⟩ := hi k m' hm'
    exact h.diskOwner ek e k m name exp he hm (by rw [hmo, ho]; exact heq) (by rw [ho]; exact hne) hek
  · intro ek1 e1' ek2 e2' n1 x1 n2 x2 h1 h2 heq hne hk1 hk2
    obtain ⟨e1, he1, ho1⟩ := hd ek1 e1' h1
    obtain ⟨e2, he2, ho2⟩ := hd ek2 e2' h2
    exact h.diskDisk ek1 e1 ek2 e2 n1 x1 n2 x2 he1 he2 (by rw [ho1, ho2]; exact heq) (by rw [ho1]; exact hne) hk1 hk2

theorem OidsDistinct.mono {s s' : MState} (h : OidsDistinct s) (hs : OidSub s s') : OidsDistinct s' :=
  OidsBelow.mono h hs.nextId hs.idx hs.disk

theorem OidSub.refl (s : MState) : OidSub s s :=
  ⟨Nat.le_refl _, fun _ m h => ⟨m, h, rfl⟩, fun _ e h => ⟨e, h, rfl⟩⟩

theorem OidSub.trans {s1 s2 s3 : MState} (a : OidSub s1 s2) (b : OidSub s2 s3) : OidSub s1 s3 := by
  refine ⟨Nat.le_trans a.nextId b.nextId, fun k m3 h3 => ?_, fun ek e3 h3 => ?_⟩
  · obtain ⟨m2, h2, o2⟩ := b.idx k m3 h3
    obtain ⟨m1, h1, o1⟩ := a.idx k m2 h2
    exact ⟨m1, h1, o1.trans o2⟩
  · obtain ⟨e2, h2, o2⟩ := b.disk ek e3 h3
    obtain ⟨e1, h1, o1⟩ := a.disk ek e2 h2
    exact ⟨e1, h1, o1.trans o2⟩

/-- the empty store -/
theorem oids_empty : OidsDistinct ({} : MState) := by
  refine ⟨?_, ?_, ?_, ?_, ?_⟩
  · intro k m h; simp [getMeta, AList.get?] at h
  · intro k k' m m' h; simp [getMeta, AList.get?] at h
  · intro ek e h; simp at h
  · intro ek e k m name exp h; simp at h
  · intro ek e ek' e' n x n' x' h; simp at h

/-! ### steps that move no identity -/

theorem OidSub.of_eq {s s' : MState} (hi : s'.index = s.index) (hd : s'.disk = s.disk) (hn : s'.nextId = s.nextId) :
    OidSub s s' := by
  refine ⟨by rw [hn]; exact Nat.le_refl _, fun k m' h => ⟨m', ?_, rfl⟩, fun ek e' h => ⟨e', ?_, rfl⟩⟩
  · unfold getMeta at h ⊢; rw [← hi]; exact h
  · rw [← hd]; exact h

theorem lockW_disk (s : MState) (k : Bytes) : (lockW s k).disk = s.disk := by
  unfold lockW; split
  · rfl
  · split <;> rfl
theorem lockW_nextId (s : MState) (k : Bytes) : (lockW s k).nextId = s.nextId := by
  unfold lockW; split
  · rfl
  · split <;> rfl
theorem lockR_disk (s : MState) (k : Bytes) : (lockR s k).disk = s.disk := by
  unfold lockR; split <;> rfl
theorem lockR_nextId (s : MState) (k : Bytes) : (lockR s k).nextId = s.nextId := by
  unfold lockR; split <;> rfl
theorem emit_disk (s : MState) (op : FeedOp) : (emit s op).disk = s.disk := by
  unfold emit; split <;> rfl
theorem emit_nextId (s : MState) (op : FeedOp) : (emit s op).nextId = s.nextId := by
  unfold emit; split <;> rfl

theorem sub_lockW (s : MState) (k : Bytes) : OidSub s (lockW s k) :=
  OidSub.of_eq (lockW_index s k) (lockW_disk s k) (lockW_nextId s k)
theorem sub_lockR (s : MState) (k : Bytes) : OidSub s (lockR s k) :=
  OidSub.of_eq (lockR_index s k) (lockR_disk s k) (lockR_nextId s k)
theorem sub_emit (s : MState) (op : FeedOp) : OidSub s (emit s op) :=
  OidSub.of_eq (emit_index s op) (emit_disk s op) (emit_nextId s op)
theorem sub_commit (s : MState) : OidSub s (commit s) := OidSub.of_eq rfl rfl rfl

theorem getMeta_putMeta (s : MState) (k k' : Bytes) (m : Meta) :
    getMeta (putMeta s k m) k' = if k' = k then some m else getMeta s k' := by
  by_cases e : k' = k
  · subst e; rw [if_pos rfl]; exact getMeta_putMeta_same _ _ _
  · rw [if_neg e]; exact getMeta_putMeta_other _ _ _ _ e

/-- replacing a record by one that carries the same identity -/
theorem sub_putMeta_same (s : MState) (k : Bytes) (m0 m : Meta) (hm : getMeta s k = some m0) (ho : m.oid = m0.oid) :
    OidSub s (putMeta s k m) := by
  refine ⟨Nat.le_refl _, fun k' m' h => ?_, fun ek e' h => ⟨e', h, rfl⟩⟩
  rw [getMeta_putMeta] at h
  by_cases e : k' = k
  · rw [if_pos e] at h; cases h; subst e; exact ⟨m0, hm, ho.symm⟩
  · rw [if_neg e] at h; exact ⟨m', h, rfl⟩

theorem sub_signal (s : MState) (k : Bytes) : OidSub s (signal s k) := by
  have h1 : OidSub s (modMeta s k Meta.markModified) := by
    unfold modMeta
    cases hm : getMeta s k with
    | none => exact OidSub.refl s
    | some m => exact sub_putMeta_same s k m _ hm rfl
  exact h1.trans (OidSub.of_eq rfl rfl rfl)

theorem unpersist_nextId (s : MState) (k : Bytes) (m : Meta) : (unpersist s k m).nextId = s.nextId := by
  unfold unpersist; split <;> rfl

theorem mem_erase {V : Type} (l : AList V) (k : Bytes) (p : Bytes × V) (h : p ∈ AList.erase l k) : p ∈ l :=
  (erase_sublist l k).subset h

theorem unpersist_disk_sub (s : MState) (k : Bytes) (m : Meta) (p : Bytes × DiskEntry)
    (h : p ∈ (unpersist s k m).disk) : p ∈ s.disk := by
  unfold unpersist at h
  split at h
  · exact mem_erase _ _ _ h
  · exact h

theorem sub_unpersist (s : MState) (k : Bytes) (m : Meta) : OidSub s (unpersist s k m) := by
  refine ⟨by rw [unpersist_nextId]; exact Nat.le_refl _, fun k' m' h => ⟨m', ?_, rfl⟩,
    fun ek e' h => ⟨e', unpersist_disk_sub s k m _ h, rfl⟩⟩
  unfold getMeta at h ⊢; rw [unpersist_index] at h; exact h

theorem delKey_nextId (s : MState) (k : Bytes) : (delKey s k).nextId = s.nextId := by
  unfold delKey
  split
  · exact unpersist_nextId _ _ _
  · rfl

theorem delKey_disk_sub (s : MState) (k : Bytes) (p : Bytes × DiskEntry) (h : p ∈ (delKey s k).disk) : p ∈ s.disk := by
  unfold delKey at h
  split at h
  · exact unpersist_disk_sub _ _ _ _ h
  · exact h

/-- unlinking a record (the index must be well formed: `erase` unlinks one entry) -/
theorem sub_delKey (s : MState) (k : Bytes) (hs : IndexSorted s) : OidSub s (delKey s k) := by
  refine ⟨by rw [delKey_nextId]; exact Nat.le_refl _, fun k' m' h => ?_, fun ek e' h => ⟨e', delKey_disk_sub s k _ h, rfl⟩⟩
  by_cases e : k' = k
  · subst e; rw [getMeta_delKey_same s k' hs] at h; cases h
  · rw [getMeta_delKey_other s k' k e] at h; exact ⟨m', h, rfl⟩

/-! ### `setVal` -/

theorem setValG_oid (oid : Nat) (v : Val) (k : Bytes) (m : Meta) : (setValG oid v k m).oid = m.oid := by
  unfold setValG; split <;> rfl

theorem setVal_nextId (s : MState) (key : Bytes) (v : Val) : (setVal s key v).nextId = s.nextId := by
  unfold setVal
  split
  · rfl
  · simp only; split <;> rfl

theorem setVal_disk_sub (s : MState) (key : Bytes) (v : Val) (ek : Bytes) (e' : DiskEntry)
    (h : (ek, e') ∈ (setVal s key v).disk) : ∃ e, (ek, e) ∈ s.disk ∧ e.oid = e'.oid := by
  unfold setVal at h
  split at h
  · exact ⟨e', h, rfl⟩
  · simp only at h
    split at h
    · exact ⟨e', h, rfl⟩
    · simp only [putMeta, List.mem_map] at h
      obtain ⟨⟨k0, e0⟩, hmem, heq⟩ := h
      simp only at heq
      split at heq
      · cases heq; exact ⟨e0, hmem, rfl⟩
      · cases heq; exact ⟨_, hmem, rfl⟩

theorem sub_setVal (s : MState) (key : Bytes) (v : Val) : OidSub s (setVal s key v) := by
  refine ⟨by rw [setVal_nextId]; exact Nat.le_refl _, fun k' m' h => ?_, setVal_disk_sub s key v⟩
  cases hm : getMeta s key with
  | none =>
    have : setVal s key v = s := by unfold setVal; rw [hm]
    rw [this] at h; exact ⟨m', h, rfl⟩
  | some m =>
    unfold getMeta at h
    rw [setVal_index s key v m hm] at h
    split at h
    · rw [get?_set] at h
      by_cases e : k' = key
      · rw [if_pos e] at h; cases h; subst e; exact ⟨m, hm, rfl⟩
      · rw [if_neg e] at h; exact ⟨m', h, rfl⟩
    · rw [get?_map_entries, get?_set] at h
      by_cases e : k' = key
      · rw [if_pos e] at h
        simp only [Option.map_some] at h
        cases h; subst e
        exact ⟨m, hm, by rw [setValG_oid]⟩
      · rw [if_neg e] at h
        cases hk : AList.get? s.index k' with
        | none => rw [hk] at h; cases h
        | some m0 =>
          rw [hk] at h
          simp only [Option.map_some] at h
          cases h
          exact ⟨m0, hk, by rw [setValG_oid]⟩

/-- under the invariant `setVal` is a plain replacement of the record of its own key: no other record
    sees the new value -/
theorem getMeta_setVal_oids (s : MState) (key : Bytes) (v : Val) (m : Meta) (hm : getMeta s key = some m)
    (ho : OidsDistinct s) (k' : Bytes) :
    getMeta (setVal s key v) k' = getMeta (putMeta s key { m with value := some v }) k' := by
  unfold getMeta
  rw [setVal_index s key v m hm]
  split
  · rfl
  · next hn =>
    have hno : m.oid ≠ 0 := fun e => hn (Or.inr e)
    rw [get?_map_entries]
    show Option.map _ (AList.get? (AList.set s.index key { m with value := some v }) k') = AList.get? (AList.set s.index key { m with value := some v }) k'
    rw [get?_set]
    by_cases e : k' = key
    · rw [if_pos e]
      simp only [Option.map_some, setValG]
      split <;> rfl
    · rw [if_neg e]
      cases hk : AList.get? s.index k' with
      | none => rfl
      | some m0 =>
        simp only [Option.map_some, setValG]
        split
        · next hc => exact absurd (ho.idxDistinct key k' m m0 hm hk hc.1.symm hno).symm e
        · rfl

theorem getMeta_setVal_other_oids (s : MState) (key : Bytes) (v : Val) (ho : OidsDistinct s) (k' : Bytes) (hne : k' ≠ key) :
    getMeta (setVal s key v) k' = getMeta s k' := by
  cases hm : getMeta s key with
  | none =>
    have : setVal s key v = s := by unfold setVal; rw [hm]
    rw [this]
  | some m =>
    rw [getMeta_setVal_oids s key v m hm ho k', getMeta_putMeta_other _ _ _ _ hne]

/-! ### steps that introduce an identity -/

/-- publishing a record with an identity at or above the old bound -/
theorem oidsBelow_putFresh {n : Nat} {s : MState} (h : OidsBelow n s) (key : Bytes) (m : Meta) (hn : n ≤ m.oid) :
    OidsBelow (m.oid + 1) (putMeta s key m) := by
  refine ⟨?_, ?_, ?_, ?_, ?_⟩
  · intro k m' hm' hne
    rw [getMeta_putMeta] at hm'
    by_cases e : k = key
    · rw [if_pos e] at hm'; cases hm'; omega
    · rw [if_neg e] at hm'; have := h.idxBound k m' hm' hne; omega
  · intro k k' m1 m2 h1 h2 heq hne
    rw [getMeta_putMeta] at h1 h2
    by_cases e1 : k = key <;> by_cases e2 : k' = key
    · rw [e1, e2]
    · rw [if_pos e1] at h1; rw [if_neg e2] at h2; cases h1
      have := h.idxBound k' m2 h2 (by rw [← heq]; exact hne); omega
    · rw [if_neg e1] at h1; rw [if_pos e2] at h2; cases h2
      have := h.idxBound k m1 h1 hne; omega
    · rw [if_neg e1] at h1; rw [if_neg e2] at h2
      exact h.idxDistinct k k' m1 m2 h1 h2 heq hne
  · intro ek e he hne
    have := h.diskBound ek e he hne; omega
  · intro ek e k m' name exp he hm' heq hne hek
    rw [getMeta_putMeta] at hm'
    by_cases e1 : k = key
    · rw [if_pos e1] at hm'; cases hm'
      have := h.diskBound ek e he hne; omega
    · rw [if_neg e1] at hm'
      exact h.diskOwner ek e k m' name exp he hm' heq hne hek
  · exact h.diskDisk

/-- adopting the identity found in the backend entry filed under the key's own name (a cold value is
    loaded back), or no identity at all (Pebble hands out a copy) -/
theorem oidsBelow_putLoaded {n : Nat} {s : MState} (h : OidsBelow n s) (key : Bytes) (m : Meta)
    (hl : m.oid = 0 ∨ ∃ e exp, (Codec.encodeKey key exp, e) ∈ s.disk ∧ e.oid = m.oid) :
    OidsBelow n (putMeta s key m) := by
  refine ⟨?_, ?_, ?_, ?_, ?_⟩
  · intro k m' hm' hne
    rw [getMeta_putMeta] at hm'
    by_cases e : k = key
    · rw [if_pos e] at hm'; cases hm'
      rcases hl with hl | ⟨e0, x0, he0, ho0⟩
      · exact absurd hl hne
      · rw [← ho0]; exact h.diskBound _ e0 he0 (by rw [ho0]; exact hne)
    · rw [if_neg e] at hm'; exact h.idxBound k m' hm' hne
  · intro k k' m1 m2 h1 h2 heq hne
    rw [getMeta_putMeta] at h1 h2
    by_cases e1 : k = key <;> by_cases e2 : k' = key
    · rw [e1, e2]
    · rw [if_pos e1] at h1; rw [if_neg e2] at h2; cases h1
      rcases hl with hl | ⟨e0, x0, he0, ho0⟩
      · exact absurd hl hne
      · rw [e1]
        exact (h.diskOwner _ e0 k' m2 key x0 he0 h2 (by rw [ho0]; exact heq.symm) (by rw [ho0]; exact hne) rfl).symm
    · rw [if_neg e1] at h1; rw [if_pos e2] at h2; cases h2
      rcases hl with hl | ⟨e0, x0, he0, ho0⟩
      · exact absurd (heq.trans hl) hne
      · rw [e2]
        exact h.diskOwner _ e0 k m1 key x0 he0 h1 (by rw [ho0]; exact heq) (by rw [ho0, ← heq]; exact hne) rfl
    · rw [if_neg e1] at h1; rw [if_neg e2] at h2
      exact h.idxDistinct k k' m1 m2 h1 h2 heq hne
  · exact h.diskBound
  · intro ek e k m' name exp he hm' heq hne hek
    rw [getMeta_putMeta] at hm'
    by_cases e1 : k = key
    · rw [if_pos e1] at hm'; cases hm'
      rcases hl with hl | ⟨e0, x0, he0, ho0⟩
      · exact absurd (heq.symm.trans hl) hne
      · rw [e1]
        exact h.diskDisk _ e0 ek e key x0 name exp he0 he (by rw [ho0]; exact heq) (by rw [ho0, heq]; exact hne) rfl hek
    · rw [if_neg e1] at hm'
      exact h.diskOwner ek e k m' name exp he hm' heq hne hek
  · exact h.diskDisk

/-- what `loadValue` hands back -/
theorem loadValue_oid (s : MState) (key : Bytes) (m : Meta) (v : Val) (oid : Nat)
    (h : loadValue s key m = some (v, oid)) :
    oid = 0 ∨ ∃ e exp, (Codec.encodeKey key exp, e) ∈ s.disk ∧ e.oid = oid := by
  unfold loadValue diskGet at h
  split at h
  · cases h
  · next e he =>
    split at h
    · cases hd : Codec.decodeEntry (Codec.encodeEntry e.val) with
      | none => rw [hd] at h; cases h
      | some v' => rw [hd] at h; simp only [Option.map_some] at h; cases h; exact Or.inl rfl
    · cases h
      exact Or.inr ⟨e, m.exp, mem_of_get? _ _ _ he, rfl⟩

theorem oids_putLoaded (s : MState) (key : Bytes) (m0 : Meta) (v : Val) (oid : Nat) (h : OidsDistinct s)
    (hl : loadValue s key m0 = some (v, oid)) (m : Meta) (ho : m.oid = oid) : OidsDistinct (putMeta s key m) := by
  apply oidsBelow_putLoaded h key m
  rw [ho]
  exact loadValue_oid s key m0 v oid hl

/-- the pre-state of the final `putMeta` in `newKeyWith` -/
def nkBase (s : MState) (k : Bytes) (old : Option Meta) : MState :=
  match old, getMeta ({ s with nextId := s.nextId + 1 + 1 } : MState) k with
  | none, some dead => unpersist { s with nextId := s.nextId + 1 + 1 } k dead
  | _, _ => { s with nextId := s.nextId + 1 + 1 }

theorem newKeyWith_eq (s : MState) (k : Bytes) (old : Option Meta) (v : Val) :
    newKeyWith s k old v =
      putMeta (nkBase s k old) k
        (({ (match old with | some m => m | none => ({ exp := 0, value := none } : Meta)) with
              exp := 0, kid := s.nextId, oid := s.nextId + 1 } : Meta).setValue v).markModified := by
  unfold newKeyWith fresh nkBase
  rfl

theorem nkBase_nextId (s : MState) (k : Bytes) (old : Option Meta) : (nkBase s k old).nextId = s.nextId + 1 + 1 := by
  unfold nkBase
  cases old <;> cases getMeta ({ s with nextId := s.nextId + 1 + 1 } : MState) k <;>
    first | rfl | exact unpersist_nextId _ _ _

theorem sub_nkBase (s : MState) (k : Bytes) (old : Option Meta) : OidSub s (nkBase s k old) := by
  have h0 : OidSub s ({ s with nextId := s.nextId + 1 + 1 } : MState) :=
    ⟨by show s.nextId ≤ s.nextId + 1 + 1; omega, fun _ m h => ⟨m, h, rfl⟩, fun _ e h => ⟨e, h, rfl⟩⟩
  unfold nkBase
  cases old <;> cases getMeta ({ s with nextId := s.nextId + 1 + 1 } : MState) k <;>
    first | exact h0 | exact h0.trans (sub_unpersist _ _ _)

theorem oids_newKeyWith (s : MState) (k : Bytes) (old : Option Meta) (v : Val) (h : OidsDistinct s) :
    OidsDistinct (newKeyWith s k old v) := by
  rw [newKeyWith_eq]
  generalize hm : (Meta.markModified (Meta.setValue _ v)) = mnew
  have hoid : mnew.oid = s.nextId + 1 := by rw [← hm]; rfl
  have hb : OidsBelow s.nextId (nkBase s k old) :=
    OidsBelow.mono h (Nat.le_refl _) (sub_nkBase s k old).idx (sub_nkBase s k old).disk
  have := oidsBelow_putFresh hb k mnew (by rw [hoid]; omega)
  rw [hoid] at this
  show OidsBelow (nkBase s k old).nextId _
  rw [nkBase_nextId]
  exact this

/-! ### `writeKey` / `readKey` -/

theorem oids_writeKey (s : MState) (now : Int) (key : Bytes) (mk : Option Val) (h : OidsDistinct s) :
    OidsDistinct (writeKey s now key mk).1 := by
  unfold writeKey
  split
  · next m0 hm0 =>
    have hb : OidsDistinct (putMeta (lockW s key) key { m0 with count := m0.count + 1 }) :=
      (h.mono (sub_lockW s key)).mono (sub_putMeta_same _ key m0 _ (by rw [getMeta_lockW]; exact hm0) rfl)
    simp only
    repeat' split
    all_goals first
      | exact hb
      | exact oids_newKeyWith _ _ _ _ hb
      | exact oids_putLoaded _ _ _ _ _ hb ‹_› _ rfl
  · split
    · exact oids_newKeyWith _ _ _ _ h
    · exact h

theorem oids_readKey (s : MState) (now : Int) (key : Bytes) (h : OidsDistinct s) :
    OidsDistinct (readKey s now key).1 := by
  unfold readKey
  split
  · next m0 hm0 =>
    have hb : OidsDistinct (putMeta (lockR s key) key { m0 with count := m0.count + 1 }) :=
      (h.mono (sub_lockR s key)).mono (sub_putMeta_same _ key m0 _ (by rw [getMeta_lockR]; exact hm0) rfl)
    simp only
    repeat' split
    all_goals first
      | exact hb
      | exact oids_putLoaded _ _ _ _ _ hb ‹_› _ rfl
  · exact h

/-! ## API level: the set commands keep the invariant -/

/-- index well formed (no duplicate keys) and value objects unshared -/
def Inv (s : MState) : Prop := IndexSorted s ∧ OidsDistinct s

/-- the name under which Props/C03.lean uses it -/
abbrev StoreInv := Inv

theorem inv_empty : Inv ({} : MState) := ⟨trivial, oids_empty⟩

theorem inv_writeKey (s : MState) (now : Int) (key : Bytes) (mk : Option Val) (h : Inv s) : Inv (writeKey s now key mk).1 :=
  ⟨writeKey_sorted s now key mk h.1, oids_writeKey s now key mk h.2⟩
theorem inv_readKey (s : MState) (now : Int) (key : Bytes) (h : Inv s) : Inv (readKey s now key).1 :=
  ⟨readKey_sorted s now key h.1, oids_readKey s now key h.2⟩
theorem inv_setVal (s : MState) (key : Bytes) (v : Val) (h : Inv s) : Inv (setVal s key v) :=
  ⟨setVal_sorted s key v h.1, h.2.mono (sub_setVal s key v)⟩
theorem inv_delKey (s : MState) (key : Bytes) (h : Inv s) : Inv (delKey s key) :=
  ⟨delKey_sorted s key h.1, h.2.mono (sub_delKey s key h.1)⟩
theorem inv_signal (s : MState) (key : Bytes) (h : Inv s) : Inv (signal s key) :=
  ⟨signal_sorted s key h.1, h.2.mono (sub_signal s key)⟩
theorem inv_emit (s : MState) (op : FeedOp) (h : Inv s) : Inv (emit s op) :=
  ⟨emit_sorted s op h.1, h.2.mono (sub_emit s op)⟩
theorem inv_commit (s : MState) (h : Inv s) : Inv (commit s) :=
  ⟨h.1, h.2.mono (sub_commit s)⟩
theorem inv_signalled (s : MState) (l : List Bytes) (h : Inv s) : Inv { s with signalled := l } :=
  ⟨h.1, h.2.mono (OidSub.of_eq rfl rfl rfl)⟩

/-- closes `Inv (…)` goals built from the primitives above -/
macro "inv_close" : tactic =>
  `(tactic| repeat (first
      | with_reducible assumption | with_reducible apply inv_emit | with_reducible apply inv_signal
      | with_reducible apply inv_setVal | with_reducible apply inv_delKey
      | with_reducible apply inv_writeKey | with_reducible apply inv_readKey
      | with_reducible apply inv_commit | split))

/-- SADD -/
theorem inv_sadd (s : MState) (now : Int) (key : Bytes) (ms : List Bytes) (h : Inv s) : Inv (sadd s now key ms).1 := by
  unfold sadd
  rw [pair_eta (writeKey s now key (some (.set [])))]
  simp only
  split
  · inv_close
  · next st _ =>
    rw [pair_eta (DsSet.sadd st ms)]
    simp only
    inv_close


/-- SREM -/
theorem inv_srem (s : MState) (now : Int) (key : Bytes) (ms : List Bytes) (h : Inv s) : Inv (srem s now key ms).1 := by
  unfold srem
  rw [pair_eta (writeKey s now key none)]
  simp only
  split
  · inv_close
  · split
    · inv_close
    · next st _ =>
      rw [pair_eta (DsSet.srem st ms)]
      simp only
      inv_close

/-- SPOP, whatever the implementation's choice -/
theorem inv_spop (s : MState) (now : Int) (key : Bytes) (count : Int) (choice : List Bytes) (h : Inv s) :
    Inv (spop s now key count choice).1 := by
  unfold spop
  rw [pair_eta (writeKey s now key none)]
  simp only
  split
  · inv_close
  · split
    · inv_close
    · next st _ =>
      rw [pair_eta (DsSet.srem st choice)]
      simp only
      inv_close

/-- SMOVE -/
theorem inv_smove (s : MState) (now : Int) (src dst member : Bytes) (h : Inv s) :
    Inv (smove s now src dst member).1 := by
  unfold smove
  rw [pair_eta (writeKey s now src none)]
  simp only
  split
  · inv_close
  · split
    · inv_close
    · next st _ =>
      rw [pair_eta (writeKey (writeKey s now src none).1 now dst none)]
      simp only
      split
      · inv_close
      · rw [pair_eta (DsSet.srem st [member])]
        simp only
        split
        · inv_close
        · rw [pair_eta (writeKey _ now dst (some (.set [])))]
          simp only
          split
          · inv_close
          · next d _ =>
            rw [pair_eta (DsSet.sadd d [member])]
            simp only
            inv_close


/-! ### the hash writers of C03 keep it as well -/

theorem inv_hset (s : MState) (now : Int) (key f v : Bytes) (h : Inv s) : Inv (hset s now key f v).1 := by
  unfold hset
  rw [pair_eta (writeKey s now key (some (.hash [])))]
  simp only
  split
  · inv_close
  · next hh _ =>
    rw [pair_eta (DsHash.hset hh f v)]
    simp only
    inv_close

theorem inv_hsetnx (s : MState) (now : Int) (key f v : Bytes) (h : Inv s) : Inv (hsetnx s now key f v).1 := by
  unfold hsetnx
  rw [pair_eta (writeKey s now key (some (.hash [])))]
  simp only
  split
  · inv_close
  · next hh _ =>
    split
    · inv_close
    · rw [pair_eta (DsHash.hset hh f v)]
      simp only
      inv_close

theorem inv_hdel (s : MState) (now : Int) (key : Bytes) (fs : List Bytes) (h : Inv s) : Inv (hdel s now key fs).1 := by
  unfold hdel
  rw [pair_eta (writeKey s now key none)]
  simp only
  split
  · inv_close
  · split
    · inv_close
    · next hh _ =>
      rw [pair_eta (DsHash.hdel hh fs)]
      simp only
      inv_close

theorem inv_hincrby (s : MState) (now : Int) (key f : Bytes) (delta : Int) (h : Inv s) :
    Inv (hincrby s now key f delta).1 := by
  unfold hincrby
  rw [pair_eta (writeKey s now key (some (.hash [])))]
  simp only
  split
  · inv_close
  · split
    · simp only; inv_close
    · simp only; inv_close

theorem inv_emit_fold {α : Type} (f : α → FeedOp) : ∀ (l : List α) (s : MState), Inv s →
    Inv (l.foldl (fun s a => emit s (f a)) s) := by
  intro l
  induction l with
  | nil => intro s h; exact h
  | cons a l ih => intro s h; exact ih _ (inv_emit s (f a) h)

theorem inv_hmset (s : MState) (now : Int) (key : Bytes) (pairs : List (Bytes × Bytes)) (h : Inv s) :
    Inv (hmset s now key pairs).1 := by
  unfold hmset
  rw [pair_eta (writeKey s now key (some (.hash [])))]
  simp only
  split
  · inv_close
  · next hh _ =>
    generalize List.foldl _ (hh, (0 : Int)) pairs = acc
    obtain ⟨h', c⟩ := acc
    simp only
    exact inv_emit_fold (fun (p : Bytes × Bytes) => { typ := 10, key := key, args := [Bytes.toHex p.1, Bytes.toHex p.2] })
      pairs _ (inv_signal _ _ (inv_setVal _ _ _ (inv_writeKey _ _ _ _ h)))

/-! ### reads of several keys, DEL, S*STORE -/

theorem inv_readMany (now : Int) : ∀ (ks : List Bytes) (s : MState) (acc : List (Option (Option (AList Unit)))),
    Inv s → Inv (ks.foldl (readStep now) (s, acc)).1 := by
  intro ks
  induction ks with
  | nil => intro s acc h; exact h
  | cons k ks ih =>
    intro s acc h
    simp only [List.foldl_cons]
    have : readStep now (s, acc) k = ((readKey s now k).1, (readStep now (s, acc) k).2) := rfl
    rw [this]
    exact ih _ _ (inv_readKey s now k h)

theorem inv_sinter_go (now : Int) : ∀ (ks : List Bytes) (s : MState) (acc : List (AList Unit)),
    Inv s → Inv (sinter.go now ks s acc).1 := by
  intro ks
  induction ks with
  | nil => intro s acc h; rw [sinter.go]; exact h
  | cons k ks ih =>
    intro s acc h
    rw [sinter.go]
    rw [pair_eta (readKey s now k)]
    simp only
    split
    · exact inv_readKey s now k h
    · split
      · exact inv_readKey s now k h
      · exact ih _ _ (inv_readKey s now k h)

theorem inv_smembers (s : MState) (now : Int) (k : Bytes) (h : Inv s) : Inv (smembers s now k).1 := by
  unfold smembers sread
  rw [pair_eta (readKey s now k)]
  simp only
  split
  · exact inv_readKey s now k h
  · split <;> exact inv_readKey s now k h

theorem inv_sunion (s : MState) (now : Int) (keys : List Bytes) (h : Inv s) : Inv (sunion s now keys).1 := by
  unfold sunion
  split
  · exact h
  · exact inv_smembers s now _ h
  · rw [pair_eta (readMany s now keys)]
    simp only
    have g : Inv (readMany s now keys).1 := inv_readMany now keys s [] h
    split
    · exact g
    · split <;> exact g

theorem inv_sdiff (s : MState) (now : Int) (keys : List Bytes) (h : Inv s) : Inv (sdiff s now keys).1 := by
  unfold sdiff
  split
  · exact h
  · next k0 rest =>
    rw [pair_eta (readKey s now k0)]
    simp only
    split
    · exact inv_readKey s now k0 h
    · rw [pair_eta (readMany (readKey s now k0).1 now rest)]
      simp only
      have g : Inv (readMany (readKey s now k0).1 now rest).1 :=
        inv_readMany now rest _ [] (inv_readKey s now k0 h)
      split
      · exact g
      · split <;> exact g

theorem inv_sinter (s : MState) (now : Int) (keys : List Bytes) (h : Inv s) : Inv (sinter s now keys).1 := by
  unfold sinter
  split
  · exact h
  · exact inv_smembers s now _ h
  · next k0 rest _ =>
    rw [pair_eta (readKey s now k0)]
    simp only
    split
    · exact inv_readKey s now k0 h
    · have g0 : Inv (sinter.go now rest (readKey s now k0).1 []).1 :=
        inv_sinter_go now rest _ [] (inv_readKey s now k0 h)
      cases hgo : sinter.go now rest (readKey s now k0).1 [] with
      | mk s2 r2 =>
        rw [hgo] at g0
        have g : Inv s2 := g0
        cases r2 with
        | none => exact g
        | some o =>
          cases o with
          | none => exact g
          | some os =>
            simp only
            split <;> exact g

/-- one step of DEL's loop -/
def delStepS (now : Int) (acc : MState × Int) (key : Bytes) : MState × Int :=
  let (s, ok) := writeKey acc.1 now key none
  if !ok then (s, acc.2) else
  (emit { delKey s key with signalled := key :: s.signalled } { typ := 2, key := key }, acc.2 + 1)

theorem inv_delStepS (now : Int) (acc : MState × Int) (key : Bytes) (h : Inv acc.1) : Inv (delStepS now acc key).1 := by
  unfold delStepS
  rw [pair_eta (writeKey acc.1 now key none)]
  simp only
  split
  · exact inv_writeKey _ now key none h
  · apply inv_emit
    apply inv_signalled
    exact inv_delKey _ _ (inv_writeKey _ now key none h)

theorem inv_del_fold (now : Int) : ∀ (keys : List Bytes) (acc : MState × Int), Inv acc.1 →
    Inv (keys.foldl (delStepS now) acc).1 := by
  intro keys
  induction keys with
  | nil => intro acc h; exact h
  | cons k ks ih => intro acc h; exact ih _ (inv_delStepS now acc k h)

/-- DEL -/
theorem inv_del (s : MState) (now : Int) (keys : List Bytes) (h : Inv s) : Inv (del s now keys).1 := by
  have : del s now keys = ((keys.foldl (delStepS now) (s, 0)).1, .int (keys.foldl (delStepS now) (s, 0)).2) := rfl
  rw [this]
  exact inv_del_fold now keys (s, 0) h

/-- the common body of SINTERSTORE / SUNIONSTORE / SDIFFSTORE -/
theorem inv_sstore (op : MState → Int → List Bytes → Api.R) (hop : ∀ s now keys, Inv s → Inv (op s now keys).1)
    (s : MState) (now : Int) (dst : Bytes) (keys : List Bytes) (h : Inv s) : Inv (sstore op s now dst keys).1 := by
  unfold sstore
  split
  · exact h
  · have h1 := hop s now keys h
    split
    · next s1 ms heq =>
      rw [heq] at h1
      have h2 : Inv (del (commit s1) now [dst]).1 := inv_del _ now [dst] (inv_commit _ h1)
      rw [pair_eta (del (commit s1) now [dst])]
      simp only
      split
      · exact h2
      · exact inv_sadd _ now dst ms (inv_commit _ h2)
    · next s1 o _ heq =>
      rw [heq] at h1
      exact h1

theorem inv_sinterstore (s : MState) (now : Int) (dst : Bytes) (keys : List Bytes) (h : Inv s) :
    Inv (sstore sinter s now dst keys).1 := inv_sstore sinter inv_sinter s now dst keys h
theorem inv_sunionstore (s : MState) (now : Int) (dst : Bytes) (keys : List Bytes) (h : Inv s) :
    Inv (sstore sunion s now dst keys).1 := inv_sstore sunion inv_sunion s now dst keys h
theorem inv_sdiffstore (s : MState) (now : Int) (dst : Bytes) (keys : List Bytes) (h : Inv s) :
    Inv (sstore sdiff s now dst keys).1 := inv_sstore sdiff inv_sdiff s now dst keys h

/-- every store built from the empty one by SADD commands (any keys, any members, any times) satisfies the invariant -/
theorem inv_sadd_sequence : ∀ (cmds : List (Int × Bytes × List Bytes)) (s : MState), Inv s →
    Inv (cmds.foldl (fun s c => (sadd s c.1 c.2.1 c.2.2).1) s) := by
  intro cmds
  induction cmds with
  | nil => intro s h; exact h
  | cons c cs ih => intro s h; exact ih _ (inv_sadd s c.1 c.2.1 c.2.2 h)


/-! ## single-key writers leave every other record alone

  `Step key s s'`: if `s` satisfies the invariant then so does `s'`, and the record of every key other than
  `key` is the same in both. -/

def Step (key : Bytes) (s s' : MState) : Prop :=
  Inv s → Inv s' ∧ ∀ k, k ≠ key → getMeta s' k = getMeta s k

theorem step_refl (key : Bytes) (s : MState) : Step key s s := fun h => ⟨h, fun _ _ => rfl⟩

theorem step_emit {key : Bytes} {s x : MState} (op : FeedOp) (h : Step key s x) : Step key s (emit x op) := fun hi => by
  obtain ⟨i, f⟩ := h hi
  exact ⟨inv_emit x op i, fun k hk => by rw [getMeta_emit, f k hk]⟩

theorem step_signal {key : Bytes} {s x : MState} (h : Step key s x) : Step key s (signal x key) := fun hi => by
  obtain ⟨i, f⟩ := h hi
  exact ⟨inv_signal x key i, fun k hk => by rw [getMeta_signal_other _ _ _ hk, f k hk]⟩

theorem step_setVal {key : Bytes} {s x : MState} (v : Val) (h : Step key s x) : Step key s (setVal x key v) := fun hi => by
  obtain ⟨i, f⟩ := h hi
  exact ⟨inv_setVal x key v i, fun k hk => by rw [getMeta_setVal_other_oids x key v i.2 k hk, f k hk]⟩

theorem step_delKey {key : Bytes} {s x : MState} (h : Step key s x) : Step key s (delKey x key) := fun hi => by
  obtain ⟨i, f⟩ := h hi
  exact ⟨inv_delKey x key i, fun k hk => by rw [getMeta_delKey_other _ _ _ hk, f k hk]⟩

theorem step_writeKey {key : Bytes} {s x : MState} (now : Int) (mk : Option Val) (h : Step key s x) :
    Step key s (writeKey x now key mk).1 := fun hi => by
  obtain ⟨i, f⟩ := h hi
  exact ⟨inv_writeKey x now key mk i, fun k hk => by rw [getMeta_writeKey_other x now key mk k hk, f k hk]⟩

theorem step_emit_fold {α : Type} {key : Bytes} (g : α → FeedOp) : ∀ (l : List α) {s x : MState}, Step key s x →
    Step key s (l.foldl (fun s a => emit s (g a)) x) := by
  intro l
  induction l with
  | nil => intro s x h; exact h
  | cons a l ih => intro s x h; exact ih (step_emit (g a) h)

/-- closes `Step key s (…)` goals built from the primitives above -/
macro "step_close" : tactic =>
  `(tactic| repeat (first
      | with_reducible exact step_refl _ _ | with_reducible apply step_emit | with_reducible apply step_signal
      | with_reducible apply step_setVal | with_reducible apply step_delKey
      | with_reducible apply step_writeKey | split))

theorem step_sadd (s : MState) (now : Int) (key : Bytes) (ms : List Bytes) : Step key s (sadd s now key ms).1 := by
  unfold sadd
  rw [pair_eta (writeKey s now key (some (.set [])))]
  simp only
  split
  · step_close
  · next st _ =>
    rw [pair_eta (DsSet.sadd st ms)]
    simp only
    step_close

theorem step_srem (s : MState) (now : Int) (key : Bytes) (ms : List Bytes) : Step key s (srem s now key ms).1 := by
  unfold srem
  rw [pair_eta (writeKey s now key none)]
  simp only
  split
  · step_close
  · split
    · step_close
    · next st _ =>
      rw [pair_eta (DsSet.srem st ms)]
      simp only
      step_close

theorem step_spop (s : MState) (now : Int) (key : Bytes) (count : Int) (choice : List Bytes) :
    Step key s (spop s now key count choice).1 := by
  unfold spop
  rw [pair_eta (writeKey s now key none)]
  simp only
  split
  · step_close
  · split
    · step_close
    · next st _ =>
      rw [pair_eta (DsSet.srem st choice)]
      simp only
      step_close

theorem step_hset (s : MState) (now : Int) (key f v : Bytes) : Step key s (hset s now key f v).1 := by
  unfold hset
  rw [pair_eta (writeKey s now key (some (.hash [])))]
  simp only
  split
  · step_close
  · next hh _ =>
    rw [pair_eta (DsHash.hset hh f v)]
    simp only
    step_close

theorem step_hsetnx (s : MState) (now : Int) (key f v : Bytes) : Step key s (hsetnx s now key f v).1 := by
  unfold hsetnx
  rw [pair_eta (writeKey s now key (some (.hash [])))]
  simp only
  split
  · step_close
  · next hh _ =>
    split
    · step_close
    · rw [pair_eta (DsHash.hset hh f v)]
      simp only
      step_close

theorem step_hdel (s : MState) (now : Int) (key : Bytes) (fs : List Bytes) : Step key s (hdel s now key fs).1 := by
  unfold hdel
  rw [pair_eta (writeKey s now key none)]
  simp only
  split
  · step_close
  · split
    · step_close
    · next hh _ =>
      rw [pair_eta (DsHash.hdel hh fs)]
      simp only
      step_close

theorem step_hincrby (s : MState) (now : Int) (key f : Bytes) (delta : Int) : Step key s (hincrby s now key f delta).1 := by
  unfold hincrby
  rw [pair_eta (writeKey s now key (some (.hash [])))]
  simp only
  split
  · step_close
  · split
    · simp only; step_close
    · simp only; step_close

theorem step_hmset (s : MState) (now : Int) (key : Bytes) (pairs : List (Bytes × Bytes)) :
    Step key s (hmset s now key pairs).1 := by
  unfold hmset
  rw [pair_eta (writeKey s now key (some (.hash [])))]
  simp only
  split
  · step_close
  · next hh _ =>
    generalize List.foldl _ (hh, (0 : Int)) pairs = acc
    obtain ⟨h', c⟩ := acc
    simp only
    exact step_emit_fold (fun (p : Bytes × Bytes) => { typ := 10, key := key, args := [Bytes.toHex p.1, Bytes.toHex p.2] })
      pairs (step_signal (step_setVal _ (step_writeKey _ _ (step_refl _ _))))

/-! ## SMOVE between two different keys -/

theorem hot_of_getMeta {s s' : MState} {k : Bytes} (e : getMeta s' k = getMeta s k) {v : Val} {now : Int}
    (h : Hot s k v now) : Hot s' k v now := by
  obtain ⟨m, hm, rest⟩ := h
  exact ⟨m, by rw [e]; exact hm, rest⟩

theorem absent_of_getMeta {s s' : MState} {k : Bytes} (e : getMeta s' k = getMeta s k) {now : Int}
    (h : Absent s k now) : Absent s' k now := by
  intro m hm
  rw [e] at hm
  exact h m hm

/-- first half of SMOVE after the checks: the member leaves the source (which is unlinked when it
    becomes empty), watchers of the source are told -/
def moveOut (s2 : MState) (src : Bytes) (st' : AList Unit) : MState :=
  signal (if DsSet.scard st' = 0 then delKey (setVal s2 src (.set st')) src else setVal s2 src (.set st')) src

/-- second half: the destination is opened (created if missing) and receives the member -/
def moveIn (x : MState) (now : Int) (dst member : Bytes) (d : AList Unit) : MState :=
  emit (signal (setVal (writeKey x now dst (some (.set []))).1 dst (.set (DsSet.sadd d [member]).1)) dst)
    { typ := 23, key := dst, args := [Bytes.toHex member] }

/-- `Api.smove` written out for a hot source that holds the member and an acceptable destination -/
theorem smove_hot_eq (s : MState) (now : Int) (src dst member : Bytes) (st : AList Unit)
    (h : Hot s src (.set st) now) (hd : DstOk s dst now) (hmem : DsSet.mem st member = true) :
    smove s now src dst member =
      match asSet (writeKey (moveOut (writeKey (writeKey s now src none).1 now dst none).1 src (AList.erase st member))
                      now dst (some (.set []))).1 dst with
      | none => ((writeKey (moveOut (writeKey (writeKey s now src none).1 now dst none).1 src (AList.erase st member))
                      now dst (some (.set []))).1, .panic)
      | some d => (moveIn (moveOut (writeKey (writeKey s now src none).1 now dst none).1 src (AList.erase st member))
                      now dst member d, .bool true) := by
  have hw := hot_after_writeKey s now src none _ h
  have p1 := pres_writeKey_none s now src
  unfold smove
  rw [writeKey_hot_pair s now src none _ h]
  simp only [Bool.not_true, Bool.false_eq_true, if_false]
  rw [asSet_hot hw.2]
  simp only
  rw [pair_eta (writeKey (writeKey s now src none).1 now dst none)]
  simp only
  rw [smove_check_ok _ now dst (dstOk_pres p1 hd)]
  simp only [Bool.false_eq_true, if_false]
  rw [srem_singleton_member st member hmem]
  simp only [Int.reduceEq, if_false]
  rw [pair_eta (writeKey _ now dst (some (.set [])))]
  simp only
  unfold moveIn moveOut
  split
  · next he => rw [he]
  · next d he => rw [he]

/-- what `moveOut` does to the store, under the invariant -/
theorem moveOut_spec (s2 : MState) (now : Int) (src : Bytes) (st st' : AList Unit)
    (h : Hot s2 src (.set st) now) (hinv : Inv s2) :
    Inv (moveOut s2 src st') ∧
    (∀ k, k ≠ src → getMeta (moveOut s2 src st') k = getMeta s2 k) ∧
    (DsSet.scard st' = 0 → getMeta (moveOut s2 src st') src = none) ∧
    (DsSet.scard st' ≠ 0 → Hot (moveOut s2 src st') src (.set st') now) := by
  have i3 := inv_setVal s2 src (.set st') hinv
  have h3 := hot_setVal s2 src _ (.set st') now h
  have o3 : ∀ k, k ≠ src → getMeta (setVal s2 src (.set st')) k = getMeta s2 k :=
    fun k hk => getMeta_setVal_other_oids s2 src _ hinv.2 k hk
  unfold moveOut
  by_cases hc : DsSet.scard st' = 0
  · rw [if_pos hc]
    refine ⟨inv_signal _ _ (inv_delKey _ _ i3), fun k hk => ?_, fun _ => ?_, fun hn => absurd hc hn⟩
    · rw [getMeta_signal_other _ _ _ hk, getMeta_delKey_other _ _ _ hk, o3 k hk]
    · rw [getMeta_signal_same, getMeta_delKey_same _ _ i3.1]; rfl
  · rw [if_neg hc]
    refine ⟨inv_signal _ _ i3, fun k hk => ?_, fun h0 => absurd h0 hc, fun _ => hot_signal _ _ _ _ h3⟩
    rw [getMeta_signal_other _ _ _ hk, o3 k hk]

/-- what `moveIn` does: the destination (missing = the empty set) gains the member, nothing else changes -/
theorem moveIn_spec (x : MState) (now : Int) (dst member : Bytes) (d : AList Unit)
    (hd : (Absent x dst now ∧ d = []) ∨ Hot x dst (.set d) now) (hinv : Inv x) :
    asSet (writeKey x now dst (some (.set []))).1 dst = some d ∧
    Inv (moveIn x now dst member d) ∧
    Hot (moveIn x now dst member d) dst (.set (DsSet.sadd d [member]).1) now ∧
    (∀ k, k ≠ dst → getMeta (moveIn x now dst member d) k = getMeta x k) := by
  have i6 := inv_writeKey x now dst (some (.set [])) hinv
  have h6 : Hot (writeKey x now dst (some (.set []))).1 dst (.set d) now := by
    rcases hd with ⟨ha, rfl⟩ | hh
    · exact writeKey_absent_some x now dst _ ha
    · exact (hot_after_writeKey x now dst _ _ hh).2
  refine ⟨asSet_hot h6, ?_, ?_, fun k hk => ?_⟩
  · unfold moveIn; inv_close
  · exact hot_after_write _ dst _ _ now _ h6
  · unfold moveIn
    rw [getMeta_emit, getMeta_signal_other _ _ _ hk, getMeta_setVal_other_oids _ dst _ i6.2 k hk,
      getMeta_writeKey_other x now dst _ k hk]

/-- SMOVE of a member between two different keys (destination missing or a set), under the invariant:
    reply true; the destination holds its old members plus the member; the source holds the rest, or is
    unlinked when nothing is left; the record of every other key is untouched; the invariant is kept -/
theorem smove_between (s : MState) (now : Int) (src dst member : Bytes) (st d : AList Unit)
    (h : Hot s src (.set st) now) (hinv : Inv s) (hne : src ≠ dst)
    (hd : (Absent s dst now ∧ d = []) ∨ Hot s dst (.set d) now)
    (hmem : DsSet.mem st member = true) :
    (smove s now src dst member).2 = .bool true ∧
    Hot (smove s now src dst member).1 dst (.set (DsSet.sadd d [member]).1) now ∧
    (DsSet.scard (AList.erase st member) = 0 → getMeta (smove s now src dst member).1 src = none) ∧
    (DsSet.scard (AList.erase st member) ≠ 0 →
      Hot (smove s now src dst member).1 src (.set (AList.erase st member)) now) ∧
    (∀ k, k ≠ src → k ≠ dst → getMeta (smove s now src dst member).1 k = getMeta s k) ∧
    Inv (smove s now src dst member).1 := by
  have hdok : DstOk s dst now := by
    rcases hd with ⟨ha, _⟩ | hh
    · exact Or.inl ha
    · exact Or.inr ⟨d, hh⟩
  have hw := hot_after_writeKey s now src none _ h
  have i1 := inv_writeKey s now src none hinv
  have p1 := pres_writeKey_none s now src
  have p2 := pres_writeKey_none (writeKey s now src none).1 now dst
  have i2 := inv_writeKey (writeKey s now src none).1 now dst none i1
  have hs2 : Hot (writeKey (writeKey s now src none).1 now dst none).1 src (.set st) now := p2.2 _ _ hw.2
  have g2 : ∀ k, k ≠ src → k ≠ dst →
      getMeta (writeKey (writeKey s now src none).1 now dst none).1 k = getMeta s k := fun k h1 h2 => by
    rw [getMeta_writeKey_other _ now dst none k h2, getMeta_writeKey_other s now src none k h1]
  have hd2 : (Absent (writeKey (writeKey s now src none).1 now dst none).1 dst now ∧ d = []) ∨
      Hot (writeKey (writeKey s now src none).1 now dst none).1 dst (.set d) now := by
    rcases hd with ⟨ha, hnil⟩ | hh
    · exact Or.inl ⟨p2.1 _ (p1.1 _ ha), hnil⟩
    · exact Or.inr (p2.2 _ _ (p1.2 _ _ hh))
  obtain ⟨ix, ox, gx, hx⟩ := moveOut_spec _ now src st (AList.erase st member) hs2 i2
  have hdx : (Absent (moveOut (writeKey (writeKey s now src none).1 now dst none).1 src (AList.erase st member)) dst now ∧ d = []) ∨
      Hot (moveOut (writeKey (writeKey s now src none).1 now dst none).1 src (AList.erase st member)) dst (.set d) now := by
    have e := ox dst (Ne.symm hne)
    rcases hd2 with ⟨ha, hnil⟩ | hh
    · exact Or.inl ⟨absent_of_getMeta e ha, hnil⟩
    · exact Or.inr (hot_of_getMeta e hh)
  obtain ⟨ha, iy, hy, oy⟩ := moveIn_spec _ now dst member d hdx ix
  rw [smove_hot_eq s now src dst member st h hdok hmem, ha]
  refine ⟨rfl, hy, fun hc => ?_, fun hc => ?_, fun k h1 h2 => ?_, iy⟩
  · show getMeta (moveIn _ now dst member d) src = none
    rw [oy src hne]; exact gx hc
  · exact hot_of_getMeta (oy src hne) (hx hc)
  · show getMeta (moveIn _ now dst member d) k = getMeta s k
    rw [oy k h2, ox k h1]; exact g2 k h1 h2

/-! ### the same against the reference semantics -/

theorem mem_erase_remove (st : AList Unit) (hs : AList.Sorted st) (member : Bytes) :
    DsSet.mem (AList.erase st member) = Spec.BSet.remove (DsSet.mem st) member := by
  funext x
  rw [mem_eq_contains, contains_erase st hs, mem_eq_contains]
  simp only [Spec.BSet.remove]
  exact Bool.and_comm _ _

theorem mem_sadd_insert (d : AList Unit) (hs : AList.Sorted d) (member : Bytes) :
    DsSet.mem (DsSet.sadd d [member]).1 = Spec.BSet.insert (DsSet.mem d) member := by
  rw [(sadd_spec d hs [member]).2.1]
  funext x
  simp [Spec.BSet.insertAll, Spec.BSet.insert]

theorem erase_card_zero_iff (st : AList Unit) (hs : AList.Sorted st) (member : Bytes) :
    DsSet.scard (AList.erase st member) = 0 ↔ ∀ x, DsSet.mem st x = true → x = member := by
  constructor
  · intro h0 x hx
    have hnil : AList.erase st member = [] := eq_nil_of_length_zero _ h0
    have := congrFun (mem_erase_remove st hs member) x
    rw [hnil] at this
    simp only [Spec.BSet.remove, hx, Bool.true_and] at this
    have h1 : DsSet.mem ([] : AList Unit) x = false := rfl
    rw [h1] at this
    simpa using this.symm
  · intro hall
    have hnil : AList.erase st member = [] := by
      apply eq_nil_of_get?_none
      intro x
      rw [get?_erase st hs]
      split
      · rfl
      · next hx =>
        cases hc : AList.contains st x with
        | true => exact absurd (hall x hc) hx
        | false => exact (contains_eq_false_iff st x).mp hc
    rw [hnil]; rfl

theorem smove_between_spec (s : MState) (now : Int) (src dst member : Bytes) (st d : AList Unit)
    (h : Hot s src (.set st) now) (hi : IndexSorted s) (ho : OidsDistinct s) (hne : src ≠ dst)
    (hd : (Absent s dst now ∧ d = []) ∨ Hot s dst (.set d) now)
    (hst : AList.Sorted st) (hdst : AList.Sorted d) (hmem : DsSet.mem st member = true) :
    (smove s now src dst member).2 = .bool true ∧
    (∃ d', Hot (smove s now src dst member).1 dst (.set d') now ∧ AList.Sorted d' ∧
      DsSet.mem d' = Spec.BSet.insert (DsSet.mem d) member) ∧
    ((∀ x, DsSet.mem st x = true → x = member) → getMeta (smove s now src dst member).1 src = none) ∧
    ((∃ x, DsSet.mem st x = true ∧ x ≠ member) →
      ∃ st', Hot (smove s now src dst member).1 src (.set st') now ∧ AList.Sorted st' ∧
        DsSet.mem st' = Spec.BSet.remove (DsSet.mem st) member) ∧
    (∀ k, k ≠ src → k ≠ dst → getMeta (smove s now src dst member).1 k = getMeta s k) ∧
    IndexSorted (smove s now src dst member).1 ∧ OidsDistinct (smove s now src dst member).1 := by
  obtain ⟨r, hdst', gone, kept, others, inv⟩ := smove_between s now src dst member st d h ⟨hi, ho⟩ hne hd hmem
  refine ⟨r, ⟨_, hdst', (sadd_spec d hdst [member]).1, mem_sadd_insert d hdst member⟩, ?_, ?_, others, inv.1, inv.2⟩
  · intro hall
    exact gone ((erase_card_zero_iff st hst member).mpr hall)
  · intro ⟨x, hx, hxne⟩
    refine ⟨_, kept (fun h0 => hxne ((erase_card_zero_iff st hst member).mp h0 x hx)),
      erase_preserves_sorted st hst member, mem_erase_remove st hst member⟩

end NodisVerif.Proofs.C03Oids
