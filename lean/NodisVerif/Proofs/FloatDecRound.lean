import NodisVerif.Model.FloatDec
import NodisVerif.Proofs.C09Float
/-
  `FloatDec.roundRat` on exactly representable rationals: the 53-bit significand comes back unchanged
  (no rounding), for power-of-two denominators (every normal double's exact value) and for naturals below 2^53.
-/
namespace NodisVerif.Proofs.FloatDecRound
open NodisVerif NodisVerif.F64 NodisVerif.FloatDec NodisVerif.Proofs.C09Float

theorem log2_sig_mul (q a : Nat) (hq1 : 2 ^ 52 ≤ q) (hq2 : q < 2 ^ 53) : (q * 2 ^ a).log2 = 52 + a := by
  have hpos : 0 < 2 ^ a := Nat.two_pow_pos _
  rw [Nat.log2_eq_iff (by have := Nat.mul_pos (by omega : 0 < q) hpos; omega)]
  constructor
  · rw [Nat.pow_add]; exact Nat.mul_le_mul_right _ hq1
  · rw [show 52 + a + 1 = 53 + a by omega, Nat.pow_add]; exact Nat.mul_lt_mul_of_pos_right hq2 hpos

/-- the scaled quotient is q·2^5 with remainder 0: `roundRat` returns the significand q at exponent 5 − k -/
theorem roundRat_of_quot (neg : Bool) (num den q : Nat) (hq1 : 2 ^ 52 ≤ q) (hq2 : q < 2 ^ 53) (hnum : num ≠ 0)
    (k : Int) (hk : k = 57 + (den.log2 : Int) - (num.log2 : Int))
    (hQ : (if k ≥ 0 then num <<< k.toNat else num) / (if k ≥ 0 then den else den <<< (-k).toNat) = q * 2 ^ 5)
    (hR : (if k ≥ 0 then num <<< k.toNat else num) % (if k ≥ 0 then den else den <<< (-k).toNat) = 0)
    (he : -1074 ≤ 5 - k) :
    roundRat neg num den = rpFinish neg q (5 - k) := by
  unfold roundRat
  rw [if_neg hnum]
  simp only [← hk, hQ, hR, if_true]
  have h6 : 2 * (q * 2 ^ 5) + 0 = q * 2 ^ 6 := by omega
  have hne : q * 2 ^ 6 ≠ 0 := by omega
  rw [h6, roundPack_eq, if_neg hne,
    rpCore_exact q 6 (-k - 1) hq1 hq2 (by decide) (by omega)]
  show rpFinish neg q (-k - 1 + ((6 : Nat) : Int)) = _
  congr 1; omega

/-- a significand times a power of two over a power of two -/
theorem roundRat_pow2 (neg : Bool) (q a b : Nat) (hq1 : 2 ^ 52 ≤ q) (hq2 : q < 2 ^ 53) (he : -1074 ≤ (a : Int) - b) :
    roundRat neg (q * 2 ^ a) (2 ^ b) = rpFinish neg q ((a : Int) - b) := by
  have hpa : 0 < 2 ^ a := Nat.two_pow_pos _
  have hnum : q * 2 ^ a ≠ 0 := Nat.ne_of_gt (Nat.mul_pos (by omega) hpa)
  have hl1 := log2_sig_mul q a hq1 hq2
  have hl2 : (2 ^ b).log2 = b := Nat.log2_two_pow
  have key := roundRat_of_quot neg (q * 2 ^ a) (2 ^ b) q hq1 hq2 hnum (5 + (b : Int) - a) (by rw [hl1, hl2]; omega)
  have hgoal : (5 : Int) - (5 + (b : Int) - a) = (a : Int) - b := by omega
  rw [hgoal] at key
  apply key
  · by_cases hk : (5 + (b : Int) - a) ≥ 0
    · simp only [hk, if_true]
      rw [Nat.shiftLeft_eq, Nat.mul_assoc, ← Nat.pow_add]
      have : a + (5 + (b : Int) - a).toNat = 5 + b := by omega
      rw [this, Nat.pow_add, ← Nat.mul_assoc]
      exact Nat.mul_div_cancel _ (Nat.two_pow_pos _)
    · simp only [hk, if_false]
      rw [Nat.shiftLeft_eq, ← Nat.pow_add]
      have : a = 5 + (b + (-(5 + (b : Int) - a)).toNat) := by omega
      rw [this, Nat.pow_add, ← Nat.mul_assoc]
      have h2 : b + (-(5 + (b : Int) - ((5 + (b + (-(5 + (b : Int) - a)).toNat) : Nat) : Int))).toNat = b + (-(5 + (b : Int) - a)).toNat := by omega
      rw [h2]
      exact Nat.mul_div_cancel _ (Nat.two_pow_pos _)
  · by_cases hk : (5 + (b : Int) - a) ≥ 0
    · simp only [hk, if_true]
      rw [Nat.shiftLeft_eq, Nat.mul_assoc, ← Nat.pow_add]
      have : a + (5 + (b : Int) - a).toNat = 5 + b := by omega
      rw [this, Nat.pow_add, ← Nat.mul_assoc]
      exact Nat.mul_mod_left _ _
    · simp only [hk, if_false]
      rw [Nat.shiftLeft_eq, ← Nat.pow_add]
      have : a = 5 + (b + (-(5 + (b : Int) - a)).toNat) := by omega
      rw [this, Nat.pow_add, ← Nat.mul_assoc]
      have h2 : b + (-(5 + (b : Int) - ((5 + (b + (-(5 + (b : Int) - a)).toNat) : Nat) : Int))).toNat = b + (-(5 + (b : Int) - a)).toNat := by omega
      rw [h2]
      exact Nat.mul_mod_left _ _
  · omega

/-- a natural below 2^53 over 1: the same double as `roundPack n 0` (the integer model `F64.ofInt?`) -/
theorem roundRat_nat (neg : Bool) (n : Nat) (hn0 : 0 < n) (hn : n < 2 ^ 53) : roundRat neg n 1 = roundPack neg n 0 := by
  have hL : n.log2 ≤ 52 := by have := (Nat.log2_lt (by omega)).2 hn; omega
  have hlo := Nat.log2_self_le (n := n) (by omega)
  have hhi := Nat.lt_log2_self (n := n)
  have hq1 : 2 ^ 52 ≤ n * 2 ^ (52 - n.log2) := by
    calc 2 ^ 52 = 2 ^ n.log2 * 2 ^ (52 - n.log2) := by rw [← Nat.pow_add]; congr 1; omega
      _ ≤ _ := Nat.mul_le_mul_right _ hlo
  have hq2 : n * 2 ^ (52 - n.log2) < 2 ^ 53 := by
    calc n * 2 ^ (52 - n.log2) < 2 ^ (n.log2 + 1) * 2 ^ (52 - n.log2) := Nat.mul_lt_mul_of_pos_right hhi (Nat.two_pow_pos _)
      _ = 2 ^ 53 := by rw [← Nat.pow_add]; congr 1; omega
  have hl1 : (1 : Nat).log2 = 0 := by decide
  have hk : (57 - (n.log2 : Int)) = 57 + ((1 : Nat).log2 : Int) - (n.log2 : Int) := by rw [hl1]; omega
  have hkpos : (57 - (n.log2 : Int)) ≥ 0 := by omega
  have hsh : n <<< (57 - (n.log2 : Int)).toNat = n * 2 ^ (52 - n.log2) * 2 ^ 5 := by
    rw [Nat.shiftLeft_eq, Nat.mul_assoc, ← Nat.pow_add]
    congr 2; omega
  have key := roundRat_of_quot neg n 1 (n * 2 ^ (52 - n.log2)) hq1 hq2 (by omega) (57 - (n.log2 : Int)) hk
    (by simp only [hkpos, if_true]; rw [hsh, Nat.div_one])
    (by simp only [hkpos, if_true]; exact Nat.mod_one _)
    (by omega)
  rw [key, roundPack_eq, if_neg (by omega), rpCore_small n hn0 hn]
  congr 1; omega

/-! ### every normal double is the rounding of its own exact value -/

theorem pack_self (x : F64) : pack (sign x) (expBits x) (manBits x) = x := by
  have he := expBits_eq x
  have hm := manBits_eq x
  have hs := sign_eq x
  have hlt := x.toNat_lt
  have hE : expBits x < 2048 := by rw [he]; exact Nat.mod_lt _ (by decide)
  have hM : manBits x < 2 ^ 52 := by rw [hm]; exact Nat.mod_lt _ (by decide)
  apply UInt64.toNat_inj.mp
  rw [pack_toNat _ _ _ hE hM, he, hm, hs]
  by_cases h63 : 2 ^ 63 ≤ x.toNat
  · simp only [h63, decide_true, if_true]; omega
  · simp only [h63, decide_false, Bool.false_eq_true, if_false]; omega

/-- `decode` of a packed normal double: significand M + 2^52 at exponent E − 1075 -/
theorem decode_pack (neg : Bool) (E M : Nat) (hE1 : 1 ≤ E) (hE : E < 2048) (hM : M < 2 ^ 52) :
    decode (pack neg E M) = (M + 2 ^ 52, (E : Int) - 1075) := by
  unfold decode
  rw [expBits_pack neg E M hE hM, manBits_pack neg E M hE hM, if_neg (by omega)]

/-- `roundRat_exact`: a normal double x = (−1)^s · m · 2^e (m, e = `decode x`) is what `roundRat` returns on the
    exact rational m·2^e (numerator / denominator as `parseDec` and the shortest-digit search build them) -/
theorem roundRat_decode_normal (x : F64) (h1 : 1 ≤ expBits x) (h2 : expBits x < 2047) :
    roundRat (sign x) (if (decode x).2 ≥ 0 then (decode x).1 * 2 ^ (decode x).2.toNat else (decode x).1)
      (if (decode x).2 ≥ 0 then 1 else 2 ^ (-(decode x).2).toNat) = x := by
  have hM : manBits x < 2 ^ 52 := by rw [manBits_eq]; exact Nat.mod_lt _ (by decide)
  have hd : decode x = (manBits x + 2 ^ 52, (expBits x : Int) - 1075) := by
    unfold decode; rw [if_neg (by omega)]
  rw [hd]
  simp only
  have hfin : rpFinish (sign x) (manBits x + 2 ^ 52) ((expBits x : Int) - 1075) = x := by
    rw [rpFinish_normal (sign x) _ _ (expBits x) (by omega) (by omega) h2]
    have : manBits x + 2 ^ 52 - 2 ^ 52 = manBits x := by omega
    rw [this]; exact pack_self x
  by_cases hge : (expBits x : Int) - 1075 ≥ 0
  · simp only [hge, if_true]
    have := roundRat_pow2 (sign x) (manBits x + 2 ^ 52) ((expBits x : Int) - 1075).toNat 0 (by omega) (by omega) (by omega)
    rw [Nat.pow_zero] at this
    rw [this]
    have h3 : ((((expBits x : Int) - 1075).toNat : Nat) : Int) - ((0 : Nat) : Int) = (expBits x : Int) - 1075 := by omega
    rw [h3]; exact hfin
  · simp only [hge, if_false]
    have := roundRat_pow2 (sign x) (manBits x + 2 ^ 52) 0 (-((expBits x : Int) - 1075)).toNat (by omega) (by omega) (by omega)
    rw [Nat.pow_zero, Nat.mul_one] at this
    rw [this]
    have h3 : (((0 : Nat) : Int)) - (((-((expBits x : Int) - 1075)).toNat : Nat) : Int) = (expBits x : Int) - 1075 := by omega
    rw [h3]; exact hfin

end NodisVerif.Proofs.FloatDecRound
