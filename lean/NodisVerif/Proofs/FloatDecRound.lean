import NodisVerif.Model.FloatDec
import NodisVerif.Proofs.C09Float
/-
  `FloatDec.roundRat` on exactly representable rationals: the 53-bit significand comes back unchanged
  (no rounding), for power-of-two denominators (every normal double's exact value) and for naturals below 2^53.
-/
namespace NodisVerif.Proofs.FloatDecRound
open NodisVerif NodisVerif.F64 NodisVerif.FloatDec NodisVerif.Proofs.C09Float

theorem log2_sig_mul (q a : Nat) (hq1 : 2 ^ 52 ≤ q) (hq2 : q < 2 ^ 53) : (q * 2 ^ a).log2 = 52 + a := by
  have hpos : 0 < 2 ^ a := Nat.two_pow_pos _
  rw [Nat.log2_eq_iff (by have := Nat.mul_pos (by omega : 0 < q) hpos; omega)]
  constructor
  · rw [Nat.pow_add]; exact Nat.mul_le_mul_right _ hq1
  · rw [show 52 + a + 1 = 53 + a by omega, Nat.pow_add]; exact Nat.mul_lt_mul_of_pos_right hq2 hpos

/-- the scaled quotient is q·2^5 with remainder 0: `roundRat` returns the significand q at exponent 5 − k -/
theorem roundRat_of_quot (neg : Bool) (num den q : Nat) (hq1 : 2 ^ 52 ≤ q) (hq2 : q < 2 ^ 53) (hnum : num ≠ 0)
    (k : Int) (hk : k = 57 + (den.log2 : Int) - (num.log2 : Int))
    (hQ : (if k ≥ 0 then num <<< k.toNat else num) / (if k ≥ 0 then den else den <<< (-k).toNat) = q * 2 ^ 5)
    (hR : (if k ≥ 0 then num <<< k.toNat else num) % (if k ≥ 0 then den else den <<< (-k).toNat) = 0)
    (he : -1074 ≤ 5 - k) :
    roundRat neg num den = rpFinish neg q (5 - k) := by
  unfold roundRat
  rw [if_neg hnum]
  simp only [← hk, hQ, hR, if_true]
  have h6 : 2 * (q * 2 ^ 5) + 0 = q * 2 ^ 6 := by omega
  have hne : q * 2 ^ 6 ≠ 0 := by omega
  rw [h6, roundPack_eq, if_neg hne,
    rpCore_exact q 6 (-k - 1) hq1 hq2 (by decide) (by omega)]
  show rpFinish neg q (-k - 1 + ((6 : Nat) : Int)) = _
  congr 1; omega

/-- a significand times a power of two over a power of two -/
theorem roundRat_pow2 (neg : Bool) (q a b : Nat) (hq1 : 2 ^ 52 ≤ q) (hq2 : q < 2 ^ 53) (he : -1074 ≤ (a : Int) - b) :
    roundRat neg (q * 2 ^ a) (2 ^ b) = rpFinish neg q ((a : Int) - b) := by
  have hpa : 0 < 2 ^ a := Nat.two_pow_pos _
  have hnum : q * 2 ^ a ≠ 0 := Nat.ne_of_gt (Nat.mul_pos (by omega) hpa)
  have hl1 := log2_sig_mul q a hq1 hq2
  have hl2 : (2 ^ b).log2 = b := Nat.log2_two_pow
  have key := roundRat_of_quot neg (q * 2 ^ a) (2 ^ b) q hq1 hq2 hnum (5 + (b : Int) - a) (by rw [hl1, hl2]; omega)
  have hgoal : (5 : Int) - (5 + (b : Int) - a) = (a : Int) - b := by omega
  rw [hgoal] at key
  apply key
  · by_cases hk : (5 + (b : Int) - a) ≥ 0
    · simp only [hk, if_true]
      rw [Nat.shiftLeft_eq, Nat.mul_assoc, ← Nat.pow_add]
      have : a + (5 + (b : Int) - a).toNat = 5 + b := by omega
      rw [this, Nat.pow_add, ← Nat.mul_assoc]
      exact Nat.mul_div_cancel _ (Nat.two_pow_pos _)
    · simp only [hk, if_false]
      rw [Nat.shiftLeft_eq, ← Nat.pow_add]
      have : a = 5 + (b + (-(5 + (b : Int) - a)).toNat) := by omega
      rw [this, Nat.pow_add, ← Nat.mul_assoc]
      have h2 : b + (-(5 + (b : Int) - ((5 + (b + (-(5 + (b : Int) - a)).toNat) : Nat) : Int))).toNat = b + (-(5 + (b : Int) - a)).toNat := by omega
      rw [h2]
      exact Nat.mul_div_cancel _ (Nat.two_pow_pos _)
  · by_cases hk : (5 + (b : Int) - a) ≥ 0
    · simp only [hk, if_true]
      rw [Nat.shiftLeft_eq, Nat.mul_assoc, ← Nat.pow_add]
      have : a + (5 + (b : Int) - a).toNat = 5 + b := by omega
      rw [this, Nat.pow_add, ← Nat.mul_assoc]
      exact Nat.mul_mod_left _ _
    · simp only [hk, if_false]
      rw [Nat.shiftLeft_eq, ← Nat.pow_add]
      have : a = 5 + (b + (-(5 + (b : Int) - a)).toNat) := by omega
      rw [this, Nat.pow_add, ← Nat.mul_assoc]
      have h2 : b + (-(5 + (b : Int) - ((5 + (b + (-(5 + (b : Int) - a)).toNat) : Nat) : Int))).toNat = b + (-(5 + (b : Int) - a)).toNat := by omega
      rw [h2]
      exact Nat.mul_mod_left _ _
  · omega

/-- a natural below 2^53 over 1: the same double as `roundPack n 0` (the integer model `F64.ofInt?`) -/
theorem roundRat_nat (neg : Bool) (n : Nat) (hn0 : 0 < n) (hn : n < 2 ^ 53) : roundRat neg n 1 = roundPack neg n 0 := by
  have hL : n.log2 ≤ 52 := by have := (Nat.log2_lt (by omega)).2 hn; omega
  have hlo := Nat.log2_self_le (n := n) (by omega)
  have hhi := Nat.lt_log2_self (n := n)
  have hq1 : 2 ^ 52 ≤ n * 2 ^ (52 - n.log2) := by
    calc 2 ^ 52 = 2 ^ n.log2 * 2 ^ (52 - n.log2) := by rw [← Nat.pow_add]; congr 1; omega
      _ ≤ _ := Nat.mul_le_mul_right _ hlo
  have hq2 : n * 2 ^ (52 - n.log2) < 2 ^ 53 := by
    calc n * 2 ^ (52 - n.log2) < 2 ^ (n.log2 + 1) * 2 ^ (52 - n.log2) := Nat.mul_lt_mul_of_pos_right hhi (Nat.two_pow_pos _)
      _ = 2 ^ 53 := by rw [← Nat.pow_add]; congr 1; omega
  have hl1 : (1 : Nat).log2 = 0 := by decide
  have hk : (57 - (n.log2 : Int)) = 57 + ((1 : Nat).log2 : Int) - (n.log2 : Int) := by rw [hl1]; omega
  have hkpos : (57 - (n.log2 : Int)) ≥ 0 := by omega
  have hsh : n <<< (57 - (n.log2 : Int)).toNat = n * 2 ^ (52 - n.log2) * 2 ^ 5 := by
    rw [Nat.shiftLeft_eq, Nat.mul_assoc, ← Nat.pow_add]
    congr 2; omega
  have key := roundRat_of_quot neg n 1 (n * 2 ^ (52 - n.log2)) hq1 hq2 (by omega) (57 - (n.log2 : Int)) hk
    (by simp only [hkpos, if_true]; rw [hsh, Nat.div_one])
    (by simp only [hkpos, if_true]; exact Nat.mod_one _)
    (by omega)
  rw [key, roundPack_eq, if_neg (by omega), rpCore_small n hn0 hn]
  congr 1; omega

/-! ### every normal double is the rounding of its own exact value -/

theorem pack_self (x : F64) : pack (sign x) (expBits x) (manBits x) = x := by
  have he := expBits_eq x
  have hm := manBits_eq x
  have hs := sign_eq x
  have hlt := x.toNat_lt
  have hE : expBits x < 2048 := by rw [he]; exact Nat.mod_lt _ (by decide)
  have hM : manBits x < 2 ^ 52 := by rw [hm]; exact Nat.mod_lt _ (by decide)
  apply UInt64.toNat_inj.mp
  rw [pack_toNat _ _ _ hE hM, he, hm, hs]
  by_cases h63 : 2 ^ 63 ≤ x.toNat
  · simp only [h63, decide_true, if_true]; omega
  · simp only [h63, decide_false, Bool.false_eq_true, if_false]; omega

/-- `decode` of a packed normal double: significand M + 2^52 at exponent E − 1075 -/
theorem decode_pack (neg : Bool) (E M : Nat) (hE1 : 1 ≤ E) (hE : E < 2048) (hM : M < 2 ^ 52) :
    decode (pack neg E M) = (M + 2 ^ 52, (E : Int) - 1075) := by
  unfold decode
  rw [expBits_pack neg E M hE hM, manBits_pack neg E M hE hM, if_neg (by omega)]

/-- `roundRat_exact`: a normal double x = (−1)^s · m · 2^e (m, e = `decode x`) is what `roundRat` returns on the
    exact rational m·2^e (numerator / denominator as `parseDec` and the shortest-digit search build them) -/
theorem roundRat_decode_normal (x : F64) (h1 : 1 ≤ expBits x) (h2 : expBits x < 2047) :
    roundRat (sign x) (if (decode x).2 ≥ 0 then (decode x).1 * 2 ^ (decode x).2.toNat else (decode x).1)
      (if (decode x).2 ≥ 0 then 1 else 2 ^ (-(decode x).2).toNat) = x := by
  have hM : manBits x < 2 ^ 52 := by rw [manBits_eq]; exact Nat.mod_lt _ (by decide)
  have hd : decode x = (manBits x + 2 ^ 52, (expBits x : Int) - 1075) := by
    unfold decode; rw [if_neg (by omega)]
  rw [hd]
  simp only
  have hfin : rpFinish (sign x) (manBits x + 2 ^ 52) ((expBits x : Int) - 1075) = x := by
    rw [rpFinish_normal (sign x) _ _ (expBits x) (by omega) (by omega) h2]
    have : manBits x + 2 ^ 52 - 2 ^ 52 = manBits x := by omega
    rw [this]; exact pack_self x
  by_cases hge : (expBits x : Int) - 1075 ≥ 0
  · simp only [hge, if_true]
    have := roundRat_pow2 (sign x) (manBits x + 2 ^ 52) ((expBits x : Int) - 1075).toNat 0 (by omega) (by omega) (by omega)
    rw [Nat.pow_zero] at this
    rw [this]
    have h3 : ((((expBits x : Int) - 1075).toNat : Nat) : Int) - ((0 : Nat) : Int) = (expBits x : Int) - 1075 := by omega
    rw [h3]; exact hfin
  · simp only [hge, if_false]
    have := roundRat_pow2 (sign x) (manBits x + 2 ^ 52) 0 (-((expBits x : Int) - 1075)).toNat (by omega) (by omega) (by omega)
    rw [Nat.pow_zero, Nat.mul_one] at this
    rw [this]
    have h3 : (((0 : Nat) : Int)) - (((-((expBits x : Int) - 1075)).toNat : Nat) : Int) = (expBits x : Int) - 1075 := by omega
    rw [h3]; exact hfin


/-! ### subnormal doubles and zeros -/

theorem rpFinish_subnormal_toNat (neg : Bool) (m : Nat) (e' : Int) (hm : m < 2 ^ 52) :
    (rpFinish neg m e').toNat = (if neg then 2 ^ 63 else 0) + m := by
  unfold rpFinish
  rw [if_neg (by omega)]
  dsimp only
  have hb : (UInt64.ofNat m).toNat = m := by rw [UInt64.toNat_ofNat']; exact Nat.mod_eq_of_lt (by omega)
  cases neg
  · simp only [Bool.false_eq_true, if_false, hb, Nat.zero_add]
  · simp only [if_true]
    rw [UInt64.toNat_or, hb]
    have h2 : (0x8000000000000000 : UInt64).toNat = 2 ^ 63 * 1 := by decide
    rw [h2, Nat.or_comm, ← Nat.two_pow_add_eq_or_of_lt (by omega)]

theorem rpCore_subnormal (m : Nat) (hm0 : 0 < m) (hm : m < 2 ^ 52) :
    rpCore (m * 2 ^ (58 - m.log2)) ((m.log2 : Int) - 1132) = (m, -1074) := by
  have hL : m.log2 ≤ 51 := by have := (Nat.log2_lt (by omega)).2 hm; omega
  have hlo := Nat.log2_self_le (n := m) (by omega)
  have hhi := Nat.lt_log2_self (n := m)
  have hpos : 0 < 2 ^ (58 - m.log2) := Nat.two_pow_pos _
  have hlog : (m * 2 ^ (58 - m.log2)).log2 = 58 := by
    rw [Nat.log2_eq_iff (by have := Nat.mul_pos hm0 hpos; omega)]
    constructor
    · calc 2 ^ 58 = 2 ^ m.log2 * 2 ^ (58 - m.log2) := by rw [← Nat.pow_add]; congr 1; omega
        _ ≤ _ := Nat.mul_le_mul_right _ hlo
    · calc m * 2 ^ (58 - m.log2) < 2 ^ (m.log2 + 1) * 2 ^ (58 - m.log2) := Nat.mul_lt_mul_of_pos_right hhi hpos
        _ = 2 ^ (58 + 1) := by rw [← Nat.pow_add]; congr 1; omega
  unfold rpCore
  dsimp only
  have hshift : max ((((m * 2 ^ (58 - m.log2)).log2 : Nat) : Int) + 1 - 53) (-1074 - ((m.log2 : Int) - 1132)) =
      ((58 - m.log2 : Nat) : Int) := by rw [hlog]; omega
  rw [hshift, if_neg (by omega), Int.toNat_natCast, Nat.shiftRight_eq_div_pow, Nat.mul_div_cancel _ hpos,
    Nat.mul_mod_left]
  have hhalf : 0 < 2 ^ (58 - m.log2 - 1) := Nat.two_pow_pos _
  have hc : ¬ (0 > 2 ^ (58 - m.log2 - 1) ∨ (0 = 2 ^ (58 - m.log2 - 1) ∧ m % 2 = 1)) := by omega
  rw [if_neg hc, if_neg (by omega)]
  congr 1; omega

/-- a subnormal double (biased exponent 0, significand m ≠ 0) is the rounding of its exact value m / 2^1074 -/
theorem roundRat_subnormal (neg : Bool) (m : Nat) (hm0 : 0 < m) (hm : m < 2 ^ 52) :
    (roundRat neg m (2 ^ 1074)).toNat = (if neg then 2 ^ 63 else 0) + m := by
  have hL : m.log2 ≤ 51 := by have := (Nat.log2_lt (by omega)).2 hm; omega
  have hl2 : (2 ^ 1074).log2 = 1074 := Nat.log2_two_pow
  unfold roundRat
  rw [if_neg (by omega), hl2]
  have hk : (57 : Int) + ((1074 : Nat) : Int) - (m.log2 : Int) ≥ 0 := by omega
  simp only [hk, if_true]
  have hkn : ((57 : Int) + ((1074 : Nat) : Int) - (m.log2 : Int)).toNat = (57 - m.log2) + 1074 := by omega
  rw [hkn, Nat.shiftLeft_eq, Nat.pow_add, ← Nat.mul_assoc, Nat.mul_div_cancel _ (Nat.two_pow_pos _), Nat.mul_mod_left]
  simp only [if_true]
  have h2 : 2 * (m * 2 ^ (57 - m.log2)) + 0 = m * 2 ^ (58 - m.log2) := by
    have : 58 - m.log2 = (57 - m.log2) + 1 := by omega
    rw [this, Nat.pow_succ]; generalize 2 ^ (57 - m.log2) = P
    rw [Nat.add_zero, ← Nat.mul_assoc, Nat.mul_comm 2 m, Nat.mul_assoc, Nat.mul_comm 2 P]
  have he : -((57 : Int) + ((1074 : Nat) : Int) - (m.log2 : Int)) - 1 = (m.log2 : Int) - 1132 := by omega
  rw [h2, he, roundPack_eq, if_neg (by have := Nat.mul_pos hm0 (Nat.two_pow_pos (58 - m.log2)); omega),
    rpCore_subnormal m hm0 hm]
  exact rpFinish_subnormal_toNat neg m _ hm

/-- `roundRat_exact`, every finite double: x is what `roundRat` returns on its own exact value m·2^e
    (m, e = `decode x`; numerator and denominator as `searchShortest` builds them). No rounding happens. -/
theorem roundRat_decode (x : F64) (hfin : expBits x < 2047) :
    roundRat (sign x) (if (decode x).2 ≥ 0 then (decode x).1 * 2 ^ (decode x).2.toNat else (decode x).1)
      (if (decode x).2 ≥ 0 then 1 else 2 ^ (-(decode x).2).toNat) = x := by
  by_cases h1 : 1 ≤ expBits x
  · exact roundRat_decode_normal x h1 hfin
  · have h0 : expBits x = 0 := by omega
    have hd : decode x = (manBits x, -1074) := by unfold decode; rw [if_pos h0]
    rw [hd]
    have hneg : ¬ ((-1074 : Int) ≥ 0) := by decide
    simp only [hneg, if_false]
    have h74 : (-(-1074 : Int)).toNat = 1074 := by decide
    rw [h74]
    have hM : manBits x < 2 ^ 52 := by rw [manBits_eq]; exact Nat.mod_lt _ (by decide)
    have hx : x.toNat = (if sign x then 2 ^ 63 else 0) + manBits x := by
      have he := expBits_eq x
      have hm := manBits_eq x
      have hs := sign_eq x
      have hlt := x.toNat_lt
      rw [hs, hm]
      by_cases h63 : 2 ^ 63 ≤ x.toNat
      · simp only [h63, decide_true, if_true]; omega
      · simp only [h63, decide_false, Bool.false_eq_true, if_false]; omega
    apply UInt64.toNat_inj.mp
    by_cases hm0 : manBits x = 0
    · rw [hm0] at hx ⊢
      unfold roundRat
      rw [if_pos rfl, hx]
      cases sign x <;> decide
    · rw [roundRat_subnormal (sign x) (manBits x) (by omega) hM, hx]

end NodisVerif.Proofs.FloatDecRound

