import NodisVerif.Proofs.C12Seq
/-
  C11-B / C12: RENAME (two names, the value object moves).
-/
namespace NodisVerif.Proofs.C11
open NodisVerif.Store NodisVerif.Codec NodisVerif.Spec.Persist
open NodisVerif.Proofs.AListLemmas NodisVerif.Proofs.AListLemmas2 NodisVerif.Proofs.C11AList

/-- drop the backend entry of whatever record is indexed under `k` -/
def dropEntries (s : MState) (k : Bytes) : MState :=
  match getMeta s k with
  | some dead => unpersist s k dead
  | none => s

/-- publish a hot, modified, never-persisted record under `k`, replacing what is there together
    with its backend entry -/
theorem inv_install_drop {s : MState} {t : Int} (h : StoreInvX s none t) (k : Bytes) {mF : Meta} {v : Val}
    (hv : mF.value = some v) (hok : mF.isOk = true) (hexp : inInt64 mF.exp = true) (hg : Good v)
    (hmod : mF.isModified = true) (hst : mF.stored = none)
    (hoid : s.pebble = false → 0 < mF.oid ∧ mF.oid < s.nextId ∧
      (∀ k' m', k' ≠ k → AList.get? s.index k' = some m' → m'.oid ≠ mF.oid) ∧
      (∀ dk e, AList.get? s.disk dk = some e → e.name ≠ k → e.oid ≠ mF.oid)) :
    StoreInvX (putMeta (dropEntries s k) k mF) none t ∧
    (putMeta (dropEntries s k) k mF).pebble = s.pebble ∧
    (∀ t', t ≤ t' → ∀ k', k' ≠ k → lookup (putMeta (dropEntries s k) k mF) t' k' = lookup s t' k') := by
  have hrec : ∀ disk p, RecInv disk p none t k mF := by
    intro disk p
    refine RecInv.hot (v := v) hv hok hexp hg ?_ (Or.inl hmod)
    intro e he; rw [hst] at he; cases he
  unfold dropEntries getMeta
  cases hm : AList.get? s.index k with
  | none =>
    simp only
    refine ⟨?_, rfl, fun t' _ k' hk => lookup_putMeta_other _ _ hk⟩
    apply inv_putMeta h (fun _ _ a => a) (hrec _ _)
    · intro dk e he hn; subst hn; exact (h.no_entry he hm).elim
    · exact hoid
  | some dead =>
    simp only
    obtain ⟨u1, u2, u3, _, u5, u6⟩ := unpersist_spec h hm
    refine ⟨?_, u2, ?_⟩
    · apply frame (k := k) h (fun _ _ a => a)
      · exact u2
      · show s.nextId ≤ (unpersist s k dead).nextId; rw [u3]; exact Nat.le_refl _
      · simp only [putMeta, u1]; exact set_preserves_sorted _ h.idxSorted _ _
      · exact u5
      · intro k' hk; simp only [putMeta, u1, get?_set, hk, if_false]
      · intro dk e he hn; exact (u6 dk e).mpr ⟨he, hn⟩
      · intro dk e he _; exact ((u6 dk e).mp he).1
      · intro m'
        simp only [putMeta, u1, get?_set, if_true, Option.some.injEq]
        intro e; subst e; exact hrec _ _
      · intro dk e he hn; exact absurd hn ((u6 dk e).mp he).2
      · intro hp
        refine ⟨?_, ?_⟩
        · intro m'
          simp only [putMeta, u1, get?_set, if_true, Option.some.injEq]
          intro e; subst e
          have := hoid hp
          exact ⟨this.1, by show _ < (unpersist s k dead).nextId; rw [u3]; exact this.2.1, this.2.2⟩
        · intro dk e he hn; exact absurd hn ((u6 dk e).mp he).2
    · intro t' ht' k' hk
      refine lookup_frame (k := k) h ht' ?_ ?_ k' hk ?_
      · exact u2
      · intro dk e he hn; exact (u6 dk e).mpr ⟨he, hn⟩
      · simp only [putMeta, u1, get?_set, hk, if_false]

theorem putMeta_putMeta (s : MState) (k : Bytes) (a b : Meta) :
    putMeta (putMeta s k a) k b = putMeta s k b := by
  simp only [putMeta, set_set]

theorem modMeta_putMeta (s : MState) (k : Bytes) (a : Meta) (f : Meta → Meta) :
    modMeta (putMeta s k a) k f = putMeta s k (f a) := by
  simp only [modMeta, getMeta, putMeta, get?_set_same, set_set]

theorem setExp_putMeta (s : MState) (k : Bytes) (a : Meta) (e : Int) :
    Api.setExp (putMeta s k a) k e = putMeta s k { a with exp := e } := by
  simp only [Api.setExp, getMeta, putMeta, get?_set_same, set_set]

theorem modMeta_of_get {s : MState} {k : Bytes} {d : Meta} (h : AList.get? s.index k = some d) (f : Meta → Meta) :
    modMeta s k f = putMeta s k (f d) := by
  simp only [modMeta, getMeta, h]

/-- everything `rename` does after the two lookups -/
def renameTail (s2 : MState) (dok : Bool) (m : Meta) (key dst : Bytes) : MState :=
  let s := delKey s2 key
  let s :=
    if !dok then
      let s' := (fresh s).2
      let s' := match getMeta s' dst with | some dead => unpersist s' dst dead | none => s'
      putMeta s' dst { exp := m.exp, value := none, kid := (fresh s).1 }
    else s
  let s := match m.value with
    | some v => modMeta s dst fun d => ({ d with oid := m.oid }.setValue v)
    | none => s
  let s := Api.setExp s dst m.exp
  { modMeta s dst Meta.markModified with signalled := dst :: key :: s.signalled }

theorem rename_eq (s : MState) (now : Int) (key dst : Bytes) :
    Api.rename s now key dst =
      (if !(writeKey s now key none).2 then ((writeKey s now key none).1, .err true) else
       match getMeta (writeKey s now key none).1 key with
       | none => ((writeKey s now key none).1, .err true)
       | some m =>
         if key = dst then ((writeKey s now key none).1, .err false) else
         (emit (renameTail (writeKey (writeKey s now key none).1 now dst none).1
                 (writeKey (writeKey s now key none).1 now dst none).2 m key dst)
               { typ := 32, key := key, args := [Bytes.toHex dst] }, .err false)) := by
  unfold Api.rename
  generalize writeKey s now key none = r1
  obtain ⟨s1, ok⟩ := r1
  simp only
  cases ok with
  | false => rfl
  | true =>
    simp only [Bool.not_true, Bool.false_eq_true, if_false]
    cases getMeta s1 key with
    | none => rfl
    | some m =>
      simp only
      split
      · rfl
      · generalize writeKey s1 now dst none = r2
        obtain ⟨s2, dok⟩ := r2
        rfl

/-- the record that ends up under the destination name -/
def renameRec (base : Meta) (m : Meta) (v : Val) : Meta :=
  Meta.markModified { ({ base with oid := m.oid }.setValue v) with exp := m.exp }

theorem renameRec_facts (base m : Meta) (v : Val) :
    (renameRec base m v).value = some v ∧ (renameRec base m v).exp = m.exp ∧
    (renameRec base m v).isOk = true ∧ (renameRec base m v).isModified = true ∧
    (renameRec base m v).oid = m.oid ∧ (renameRec base m v).stored = base.stored := by
  refine ⟨rfl, rfl, ?_, ?_, rfl, rfl⟩
  · unfold renameRec
    rw [markModified_isOk]
    show ({ base with oid := m.oid }.setValue v).isOk = true
    exact setValue_isOk _ _
  · unfold renameRec
    rw [markModified_isModified]; rfl

theorem renameTail_dok {s2 : MState} {m d : Meta} {v : Val} {key dst : Bytes} (hv : m.value = some v)
    (hd : AList.get? (delKey s2 key).index dst = some d) :
    renameTail s2 true m key dst =
      { putMeta (delKey s2 key) dst (renameRec d m v) with
        signalled := dst :: key :: (putMeta (delKey s2 key) dst (renameRec d m v)).signalled } := by
  unfold renameTail
  simp only [Bool.not_true, Bool.false_eq_true, if_false, hv]
  rw [modMeta_of_get hd, setExp_putMeta, modMeta_putMeta]
  rfl

theorem renameTail_miss {s2 : MState} {m : Meta} {v : Val} {key dst : Bytes} (hv : m.value = some v) :
    renameTail s2 false m key dst =
      { putMeta (dropEntries { delKey s2 key with nextId := (delKey s2 key).nextId + 1 } dst) dst
          (renameRec { exp := m.exp, value := none, kid := (delKey s2 key).nextId } m v) with
        signalled := dst :: key :: (delKey s2 key).signalled } := by
  unfold renameTail
  simp only [Bool.not_false, if_true, hv, fresh]
  rw [modMeta_putMeta, setExp_putMeta, modMeta_putMeta]
  unfold dropEntries
  cases getMeta { delKey s2 key with nextId := (delKey s2 key).nextId + 1 } dst with
  | none => rfl
  | some dead =>
    simp only [unpersist]
    cases dead.stored <;> rfl

theorem delKey_sub {s : MState} {x : Option Bytes} {t : Int} (h : StoreInvX s x t) {k : Bytes} {m : Meta}
    (hm : AList.get? s.index k = some m) :
    (∀ k', AList.get? (delKey s k).index k' = if k' = k then none else AList.get? s.index k') ∧
    (∀ dk e, AList.get? (delKey s k).disk dk = some e → AList.get? s.disk dk = some e ∧ e.name ≠ k) ∧
    (delKey s k).nextId = s.nextId := by
  obtain ⟨u1, _, u3, _, _, u6⟩ := unpersist_spec h hm
  simp only [delKey, hm]
  refine ⟨?_, fun dk e he => (u6 dk e).mp he, u3⟩
  intro k'
  simp only [u1, get?_erase _ h.idxSorted]

/-- what RENAME does, in terms of the logical keyspace -/
structure RenameSpec (s : MState) (t now : Int) (key dst : Bytes) (r : Api.R) : Prop where
  inv : StoreInvX r.1 none t
  peb : r.1.pebble = s.pebble
  reply : r.2 = match lookup s now key with | none => .err true | some _ => .err false
  look : ∀ t', t ≤ t' → ∀ k', lookup r.1 t' k' =
    match lookup s now key with
    | none => lookup s t' k'
    | some c => if key = dst then lookup s t' k' else
        if k' = dst then filt c t' else if k' = key then none else lookup s t' k'

theorem rename_spec {s : MState} {t now : Int} (h : StoreInvX s none t) (ht : t ≤ now) (key dst : Bytes) :
    RenameSpec s t now key dst (Api.rename s now key dst) := by
  rw [rename_eq]
  have ks1 := writeKey_spec h ht key none (fun _ hc => nomatch hc)
  have oi1 := writeKey_otherIdx s now key none
  generalize writeKey s now key none = r1 at ks1 oi1
  obtain ⟨s1, ok⟩ := r1
  simp only at oi1 ⊢
  cases hL : lookup s now key with
  | none =>
    obtain ⟨hok, hl⟩ := ks1.miss hL rfl
    simp only at hok
    simp only [hok, Bool.not_false, if_true]
    refine ⟨ks1.inv, ks1.peb, by simp only [hL], ?_⟩
    intro t' ht' k'
    simp only [hL]
    by_cases hk : k' = key
    · subst hk; exact hl t' ht'
    · exact ks1.other t' ht' k' hk
  | some c =>
    obtain ⟨v, e⟩ := c
    obtain ⟨hok, hl, m, hm, hv, he, hal⟩ := ks1.hit v e hL
    simp only at hok hm
    simp only [hok, Bool.not_true, Bool.false_eq_true, if_false, getMeta, hm]
    have hsame1 : ∀ t', t ≤ t' → ∀ k', lookup s1 t' k' = lookup s t' k' := by
      intro t' ht' k'
      by_cases hk : k' = key
      · subst hk; exact hl t' ht'
      · exact ks1.other t' ht' k' hk
    by_cases hkd : key = dst
    · rw [if_pos hkd]
      refine ⟨ks1.inv, ks1.peb, by simp only [hL], ?_⟩
      intro t' ht' k'
      simp only [hL, if_pos hkd]
      exact hsame1 t' ht' k'
    · rw [if_neg hkd]
      have hdk : dst ≠ key := fun c => hkd c.symm
      have r1 := ks1.inv.recs key m hm
      have ks2 := writeKey_spec ks1.inv ht dst none (fun _ hc => nomatch hc)
      have oi2 := writeKey_otherIdx s1 now dst none key hkd
      generalize writeKey s1 now dst none = r2 at ks2 oi2
      obtain ⟨s2, dok⟩ := r2
      simp only at oi2 ⊢
      have hm2 : AList.get? s2.index key = some m := by rw [oi2]; exact hm
      have hsame2 : ∀ t', t ≤ t' → ∀ k', lookup s2 t' k' = lookup s1 t' k' := by
        intro t' ht' k'
        by_cases hk : k' = dst
        · subst hk
          cases hL2 : lookup s1 now k' with
          | none => exact (ks2.miss hL2 rfl).2 t' ht'
          | some c2 => exact (ks2.hit c2.1 c2.2 hL2).2.1 t' ht'
        · exact ks2.other t' ht' k' hk
      obtain ⟨d1, d2, d3⟩ := delKey_sub ks2.inv hm2
      have i3 : StoreInvX (delKey s2 key) none t := inv_delKey ks2.inv key (fun _ _ => by simp)
      have p3 : (delKey s2 key).pebble = s.pebble := by
        rw [(delKey_fields _ _).1, ks2.peb, ks1.peb]
      have look3 : ∀ t', t ≤ t' → ∀ k', lookup (delKey s2 key) t' k' =
          if k' = key then none else lookup s t' k' := by
        intro t' ht' k'
        rw [lookup_delKey ks2.inv ht']
        by_cases hk : k' = key
        · simp [hk]
        · simp only [hk, if_false]; rw [hsame2 t' ht', hsame1 t' ht']
      -- the identity of the moved value object is free once the source is unlinked
      have hfree : s.pebble = false →
          0 < m.oid ∧ m.oid < (delKey s2 key).nextId ∧
          (∀ k' m', AList.get? (delKey s2 key).index k' = some m' → m'.oid ≠ m.oid) ∧
          (∀ dk e', AList.get? (delKey s2 key).disk dk = some e' → e'.oid ≠ m.oid) := by
        intro hp
        have o2 := ks2.inv.oids (by rw [ks2.peb, ks1.peb]; exact hp)
        have := o2.recR key m hm2
        refine ⟨this.1, by rw [d3]; exact this.2, ?_, ?_⟩
        · intro k' m' hk' ho
          rw [d1] at hk'
          by_cases hkk : k' = key
          · simp [hkk] at hk'
          · simp only [hkk, if_false] at hk'
            exact hkk (o2.recInj k' m' key m hk' hm2 ho)
        · intro dk e' he' ho
          obtain ⟨a, b⟩ := d2 dk e' he'
          exact b (o2.entRec dk e' key m a hm2 ho)
      have emitL : ∀ (sX : MState) (sg : List Bytes) (op : FeedOp) (t' : Int) (k' : Bytes),
          lookup (emit { sX with signalled := sg } op) t' k' = lookup sX t' k' := by
        intro sX sg op t' k'
        obtain ⟨a, b, c, _, _⟩ := emit_fields { sX with signalled := sg } op
        rw [lookup_congr a b c]
        exact lookup_congr rfl rfl rfl _ _
      have emitI : ∀ (sX : MState) (sg : List Bytes) (op : FeedOp), StoreInvX sX none t →
          StoreInvX (emit { sX with signalled := sg } op) none t := by
        intro sX sg op hi
        exact inv_emits (ops := [op]) (hi.congr (s' := { sX with signalled := sg }) rfl rfl rfl rfl)
      have emitP : ∀ (sX : MState) (sg : List Bytes) (op : FeedOp),
          (emit { sX with signalled := sg } op).pebble = sX.pebble := by
        intro sX sg op; rw [(emit_fields _ _).2.2.1]
      cases dok with
      | true =>
        -- the destination exists: it is overwritten in place
        have hL2 : ∃ c2, lookup s1 now dst = some c2 := by
          cases hL2 : lookup s1 now dst with
          | none => have := (ks2.miss hL2 rfl).1; simp at this
          | some c2 => exact ⟨c2, rfl⟩
        obtain ⟨c2, hL2⟩ := hL2
        obtain ⟨_, _, d, hd, hdv, _, _⟩ := ks2.hit c2.1 c2.2 hL2
        simp only at hd
        have hd3 : AList.get? (delKey s2 key).index dst = some d := by rw [d1]; simp [hdk, hd]
        rw [renameTail_dok hv hd3]
        obtain ⟨n1, n2, n3, n4, n5, n6⟩ := renameRec_facts d m v
        have rd := i3.recs dst d hd3
        have iF : StoreInvX (putMeta (delKey s2 key) dst (renameRec d m v)) none t := by
          apply inv_putMeta i3 (fun _ _ a => a)
          · exact RecInv.hot (v := v) n1 n3 (by rw [n2]; exact r1.expR) (r1.good v hv)
              (by rw [n6]; exact rd.stored) (Or.inl n4)
          · intro dk e' he' hn
            subst hn
            rw [n6]; exact (i3.ent_of_name he' hd3).1
          · intro hp
            rw [p3] at hp
            obtain ⟨a, b, c, dd⟩ := hfree hp
            rw [n5]
            exact ⟨a, b, fun k' m' _ hk' => c k' m' hk', fun dk e' he' _ => dd dk e' he'⟩
        refine ⟨emitI _ _ _ iF, by rw [emitP]; exact p3, by simp only [hL], ?_⟩
        intro t' ht' k'
        simp only [hL, if_neg hkd]
        rw [emitL]
        by_cases hk : k' = dst
        · subst hk
          simp only [if_true]
          rw [lookup_putMeta_same, view_put n1 n3, n2, he]
        · simp only [hk, if_false]
          rw [lookup_putMeta_other _ _ hk, look3 t' ht']
      | false =>
        rw [renameTail_miss hv]
        obtain ⟨n1, n2, n3, n4, n5, n6⟩ :=
          renameRec_facts { exp := m.exp, value := none, kid := (delKey s2 key).nextId } m v
        have ib := inv_bump i3 ((delKey s2 key).nextId + 1) (by omega)
        obtain ⟨iF, pF, lF⟩ := inv_install_drop ib dst (mF := renameRec
            { exp := m.exp, value := none, kid := (delKey s2 key).nextId } m v) n1 n3
          (by rw [n2]; exact r1.expR) (r1.good v hv) n4 n6
          (by
            intro hp
            obtain ⟨a, b, c, dd⟩ := hfree (by rw [← p3]; exact hp)
            rw [n5]
            exact ⟨a, by show m.oid < (delKey s2 key).nextId + 1; omega,
              fun k' m' _ hk' => c k' m' hk', fun dk e' he' _ => dd dk e' he'⟩)
        refine ⟨emitI _ _ _ iF, by rw [emitP, pF]; exact p3, by simp only [hL], ?_⟩
        intro t' ht' k'
        simp only [hL, if_neg hkd]
        rw [emitL]
        by_cases hk : k' = dst
        · subst hk
          simp only [if_true]
          rw [lookup_putMeta_same, view_put n1 n3, n2, he]
        · simp only [hk, if_false]
          rw [lF t' ht' k' hk]
          have : lookup { delKey s2 key with nextId := (delKey s2 key).nextId + 1 } t' k'
              = lookup (delKey s2 key) t' k' := lookup_congr rfl rfl rfl _ _
          rw [this, look3 t' ht']

theorem rename_sim {t now : Int} {s1 s2 : MState} (h : Sim t s1 s2) (ht : t ≤ now) (key dst : Bytes) :
    (Api.rename s1 now key dst).2 = (Api.rename s2 now key dst).2 ∧
    Sim t (Api.rename s1 now key dst).1 (Api.rename s2 now key dst).1 := by
  have r1 := rename_spec h.inv1 ht key dst
  have r2 := rename_spec h.inv2 ht key dst
  have hL : lookup s1 now key = lookup s2 now key := h.look now ht key
  refine ⟨by rw [r1.reply, r2.reply, hL], r1.inv, r2.inv, ?_⟩
  intro t' ht' k'
  rw [r1.look t' ht', r2.look t' ht', hL]
  cases lookup s2 now key with
  | none => exact h.look t' ht' k'
  | some c =>
    simp only
    split
    · exact h.look t' ht' k'
    · split
      · rfl
      · split
        · rfl
        · exact h.look t' ht' k'

theorem rename_lnil {t now : Int} {s : MState} (h : StoreInvX s none t) (ht : t ≤ now) (key dst : Bytes)
    (hl : LNil s t) : LNil (Api.rename s now key dst).1 t := by
  have r := rename_spec h ht key dst
  intro hp t' ht' k' v e hlk
  rw [r.peb] at hp
  rw [r.look t' ht'] at hlk
  cases hL : lookup s now key with
  | none => rw [hL] at hlk; exact hl hp t' ht' k' v e hlk
  | some c =>
    rw [hL] at hlk
    simp only at hlk
    split at hlk
    · exact hl hp t' ht' k' v e hlk
    · split at hlk
      · have := filt_some hlk
        subst this
        exact hl hp now ht key _ _ hL
      · split at hlk
        · cases hlk
        · exact hl hp t' ht' k' v e hlk

end NodisVerif.Proofs.C11
