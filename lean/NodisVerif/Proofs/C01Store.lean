import NodisVerif.Model.Api
import NodisVerif.Model.WF
import NodisVerif.Proofs.AListLemmas2
/-
  C01 helper lemmas, store level: what `readKey` / `writeKey` / `setVal` / `setExp` / `delKey` do to
  the *logical* content of the keyspace index (Model/Store.lean), for every store state.
-/
namespace NodisVerif.Proofs.C01
open NodisVerif
open NodisVerif.Proofs.AListLemmas NodisVerif.Proofs.AListLemmas2
open Store Api

/-! ### backend addressing: `Key.Encode` is injective -/

section KeyEncoding
open Varint

theorem ofNat_inj_small (a b : Nat) (ha : a < 256) (hb : b < 256) (h : UInt8.ofNat a = UInt8.ofNat b) : a = b := by
  have := congrArg UInt8.toNat h
  rw [UInt8.toNat_ofNat', UInt8.toNat_ofNat'] at this
  omega

/-- LEB128 is prefix-free: two encodings followed by anything agree only if the numbers do -/
theorem putUvarint_prefix_free (n : Nat) : ∀ (m : Nat) (a b : Bytes),
    putUvarint n ++ a = putUvarint m ++ b → n = m ∧ a = b := by
  induction n using Nat.strongRecOn with
  | _ n ih =>
    intro m a b h
    have e1 : putUvarint n = if h : n < 128 then [UInt8.ofNat n] else UInt8.ofNat (n % 128 + 128) :: putUvarint (n / 128) := by
      rw [putUvarint]
    have e2 : putUvarint m = if h : m < 128 then [UInt8.ofNat m] else UInt8.ofNat (m % 128 + 128) :: putUvarint (m / 128) := by
      rw [putUvarint]
    rw [e1, e2] at h
    by_cases hn : n < 128 <;> by_cases hm : m < 128
    · simp only [hn, hm, dite_true, List.cons_append, List.nil_append, List.cons.injEq] at h
      exact ⟨ofNat_inj_small n m (by omega) (by omega) h.1, h.2⟩
    · simp only [hn, hm, dite_true, dite_false, List.cons_append, List.nil_append, List.cons.injEq] at h
      have := ofNat_inj_small n (m % 128 + 128) (by omega) (by omega) h.1
      omega
    · simp only [hn, hm, dite_true, dite_false, List.cons_append, List.nil_append, List.cons.injEq] at h
      have := ofNat_inj_small (n % 128 + 128) m (by omega) (by omega) h.1
      omega
    · simp only [hn, hm, dite_false, List.cons_append, List.cons.injEq] at h
      have h1 := ofNat_inj_small (n % 128 + 128) (m % 128 + 128) (by omega) (by omega) h.1
      obtain ⟨h2, h3⟩ := ih (n / 128) (by omega) (m / 128) a b h.2
      exact ⟨by omega, h3⟩

theorem zigzag_inj (x y : Int) (h : zigzag x = zigzag y) : x = y := by
  unfold zigzag at h
  split at h <;> split at h <;> omega

/-- `Key.Encode` is injective: distinct (name, deadline) pairs address distinct backend entries -/
theorem encodeKey_inj (a b : Bytes) (e e' : Int) (h : Codec.encodeKey a e = Codec.encodeKey b e') : a = b ∧ e = e' := by
  unfold Codec.encodeKey putVarint at h
  obtain ⟨h1, h2⟩ := putUvarint_prefix_free _ _ _ _ h
  exact ⟨h2, zigzag_inj e e' h1⟩

end KeyEncoding

/-- the index is key-sorted, as the btree guarantees -/
def IndexSorted (s : MState) : Prop := AList.Sorted s.index

/-- what the record `m` indexed under `k` resolves to when it is looked up: its hot value, or
    else what the backend hands back for it (`none` = cold and not loadable) -/
def resolve (s : MState) (k : Bytes) (m : Meta) : Option Val :=
  match m.value with
  | some v => some v
  | none => (loadValue s k m).map (·.1)

/-- the logical content of one record: resolved value, deadline, ok flag -/
def entryView (s : MState) (k : Bytes) (m : Meta) : Option Val × Int × Bool :=
  (resolve s k m, m.exp, m.isOk)

/-- the logical content of the record indexed under `k`, if it is not expired at `now` -/
def lookup (s : MState) (now : Int) (k : Bytes) : Option (Option Val × Int × Bool) :=
  match getMeta s k with
  | some m => if m.expired now then none else some (entryView s k m)
  | none => none

/-- name, resolved value, deadline and ok flag of every non-expired record, in index order.
    `count`, lock state, ids, `signalled`, `held`, `feed`, the modified bit are not part of it. -/
def logical (s : MState) (now : Int) : AList (Option Val × Int × Bool) :=
  (s.index.filter fun p => !p.2.expired now).map fun p => (p.1, entryView s p.1 p.2)

/-- the value a command finds under `k` (what `readKey`/`writeKey` deliver): the record exists, is
    ok, is not expired, and its value is hot or loadable -/
def live (s : MState) (now : Int) (k : Bytes) : Option Val :=
  match getMeta s k with
  | some m => if m.isOk && !m.expired now then resolve s k m else none
  | none => none

/-- deadline of the live record under `k` -/
def liveExp (s : MState) (now : Int) (k : Bytes) : Option Int :=
  match getMeta s k with
  | some m => if m.isOk && !m.expired now && (resolve s k m).isSome then some m.exp else none
  | none => none

/-- `k` is indexed, ok, not expired, and its value `v` is in memory -/
def Hot (s : MState) (k : Bytes) (v : Val) (now : Int) : Prop :=
  ∃ m, getMeta s k = some m ∧ m.isOk = true ∧ m.expired now = false ∧ m.value = some v

/-- the backend is the same -/
def SameDisk (s s' : MState) : Prop := s'.disk = s.disk ∧ s'.pebble = s.pebble

theorem SameDisk.refl (s : MState) : SameDisk s s := ⟨rfl, rfl⟩
theorem SameDisk.trans {a b c : MState} (h1 : SameDisk a b) (h2 : SameDisk b c) : SameDisk a c :=
  ⟨h2.1.trans h1.1, h2.2.trans h1.2⟩

theorem live_eq_of_lookup (s : MState) (now : Int) (k : Bytes) :
    live s now k = match lookup s now k with
      | some (v, _, true) => v
      | _ => none := by
  unfold live lookup
  cases getMeta s k with
  | none => rfl
  | some m =>
    simp only [entryView]
    cases h1 : m.expired now <;> cases h2 : m.isOk <;> simp

theorem liveExp_eq_of_lookup (s : MState) (now : Int) (k : Bytes) :
    liveExp s now k = match lookup s now k with
      | some (some _, e, true) => some e
      | _ => none := by
  unfold liveExp lookup
  cases getMeta s k with
  | none => rfl
  | some m =>
    simp only [entryView]
    cases h1 : m.expired now <;> cases h2 : m.isOk <;> cases h3 : resolve s k m <;> simp

theorem live_congr {s s' : MState} {now : Int} {k : Bytes} (h : lookup s' now k = lookup s now k) :
    live s' now k = live s now k := by
  rw [live_eq_of_lookup, live_eq_of_lookup, h]

theorem liveExp_congr {s s' : MState} {now : Int} {k : Bytes} (h : lookup s' now k = lookup s now k) :
    liveExp s' now k = liveExp s now k := by
  rw [liveExp_eq_of_lookup, liveExp_eq_of_lookup, h]

/-! ### basic getMeta facts -/

theorem getMeta_putMeta_same (s : MState) (k : Bytes) (m : Meta) : getMeta (putMeta s k m) k = some m := by
  simp [getMeta, putMeta, get?_set_same]

theorem getMeta_putMeta_other (s : MState) (k k' : Bytes) (m : Meta) (h : k ≠ k') :
    getMeta (putMeta s k' m) k = getMeta s k := by
  simp [getMeta, putMeta, get?_set_other _ _ _ _ h]

theorem lockW_index (s : MState) (k : Bytes) : (lockW s k).index = s.index := by
  unfold lockW; repeat' split
  all_goals rfl
theorem lockR_index (s : MState) (k : Bytes) : (lockR s k).index = s.index := by
  unfold lockR; repeat' split
  all_goals rfl
theorem getMeta_lockW (s : MState) (k k' : Bytes) : getMeta (lockW s k') k = getMeta s k := by
  simp [getMeta, lockW_index]
theorem getMeta_lockR (s : MState) (k k' : Bytes) : getMeta (lockR s k') k = getMeta s k := by
  simp [getMeta, lockR_index]
theorem sameDisk_lockW (s : MState) (k : Bytes) : SameDisk s (lockW s k) := by
  unfold lockW; repeat' split
  all_goals exact ⟨rfl, rfl⟩
theorem sameDisk_lockR (s : MState) (k : Bytes) : SameDisk s (lockR s k) := by
  unfold lockR; repeat' split
  all_goals exact ⟨rfl, rfl⟩
theorem sameDisk_putMeta (s : MState) (k : Bytes) (m : Meta) : SameDisk s (putMeta s k m) := ⟨rfl, rfl⟩
/-! ### frames: what a step leaves alone -/

/-- outside the key set `K`, `s'` has the records of `s` and the backend hands back the same
    values; the backend kind is the same -/
def FrameOn (K : List Bytes) (s s' : MState) : Prop :=
  s'.pebble = s.pebble ∧
  (∀ k' m, k' ∉ K → loadValue s' k' m = loadValue s k' m) ∧
  (∀ k', k' ∉ K → getMeta s' k' = getMeta s k')

theorem FrameOn.refl (K : List Bytes) (s : MState) : FrameOn K s s := ⟨rfl, fun _ _ _ => rfl, fun _ _ => rfl⟩
theorem FrameOn.trans {K : List Bytes} {a b c : MState} (h1 : FrameOn K a b) (h2 : FrameOn K b c) : FrameOn K a c :=
  ⟨h2.1.trans h1.1, fun k' m hk => (h2.2.1 k' m hk).trans (h1.2.1 k' m hk),
    fun k' hk => (h2.2.2 k' hk).trans (h1.2.2 k' hk)⟩
theorem FrameOn.mono {K K' : List Bytes} {s s' : MState} (h : FrameOn K s s') (hs : ∀ x, x ∈ K → x ∈ K') :
    FrameOn K' s s' :=
  ⟨h.1, fun k' m hk => h.2.1 k' m (fun hx => hk (hs _ hx)), fun k' hk => h.2.2 k' (fun hx => hk (hs _ hx))⟩

theorem unpersist_index (s : MState) (k : Bytes) (m : Meta) : (unpersist s k m).index = s.index := by
  unfold unpersist diskDelete; cases m.stored <;> rfl
theorem unpersist_nextId (s : MState) (k : Bytes) (m : Meta) : (unpersist s k m).nextId = s.nextId := by
  unfold unpersist diskDelete; cases m.stored <;> rfl
theorem unpersist_locks (s : MState) (k : Bytes) (m : Meta) :
    (unpersist s k m).hung = s.hung ∧ (unpersist s k m).held = s.held := by
  unfold unpersist diskDelete; cases m.stored <;> exact ⟨rfl, rfl⟩
theorem unpersist_disk_nil (s : MState) (k : Bytes) (m : Meta) (h : s.disk = []) : (unpersist s k m).disk = [] := by
  unfold unpersist diskDelete
  cases m.stored with
  | none => exact h
  | some e => simp only; rw [h]; rfl
theorem getMeta_unpersist (s : MState) (k : Bytes) (m : Meta) (k' : Bytes) :
    getMeta (unpersist s k m) k' = getMeta s k' := by
  unfold getMeta; rw [unpersist_index]

theorem loadValue_unpersist_other (s : MState) (k : Bytes) (m0 : Meta) (k' : Bytes) (m : Meta) (hk : k' ≠ k) :
    loadValue (unpersist s k m0) k' m = loadValue s k' m := by
  unfold unpersist diskDelete
  cases m0.stored with
  | none => rfl
  | some e0 =>
    unfold loadValue diskGet
    simp only
    rw [get?_erase_other _ _ _ (fun heq => hk (encodeKey_inj k' k m.exp e0 heq).1)]

theorem unpersist_pebble (s : MState) (k : Bytes) (m : Meta) : (unpersist s k m).pebble = s.pebble := by
  unfold unpersist diskDelete; cases m.stored <;> rfl

/-- the pre-state of the final `putMeta` in `newKeyWith`: ids allocated, and — when a brand-new
    record is published over a dead one — the dead record's backend entry removed -/
def nkBase (s : MState) (k : Bytes) (old : Option Meta) : MState :=
  match old, getMeta ({ s with nextId := s.nextId + 1 + 1 } : MState) k with
  | none, some dead => unpersist { s with nextId := s.nextId + 1 + 1 } k dead
  | _, _ => { s with nextId := s.nextId + 1 + 1 }

/-- `newKeyWith` written out -/
theorem newKeyWith_eq (s : MState) (k : Bytes) (old : Option Meta) (v : Val) :
    newKeyWith s k old v =
      putMeta (nkBase s k old) k
        (({ (match old with | some m => m | none => ({ exp := 0, value := none } : Meta)) with
              exp := 0, kid := s.nextId, oid := s.nextId + 1 } : Meta).setValue v).markModified := by
  unfold newKeyWith fresh nkBase
  rfl

theorem nkBase_index (s : MState) (k : Bytes) (old : Option Meta) : (nkBase s k old).index = s.index := by
  unfold nkBase
  cases old <;> cases getMeta ({ s with nextId := s.nextId + 1 + 1 } : MState) k <;>
    first | rfl | exact unpersist_index _ _ _

theorem nkBase_pebble (s : MState) (k : Bytes) (old : Option Meta) : (nkBase s k old).pebble = s.pebble := by
  unfold nkBase
  cases old <;> cases getMeta ({ s with nextId := s.nextId + 1 + 1 } : MState) k <;>
    first | rfl | exact unpersist_pebble _ _ _

theorem loadValue_nkBase_other (s : MState) (k : Bytes) (old : Option Meta) (k' : Bytes) (m : Meta) (hk : k' ≠ k) :
    loadValue (nkBase s k old) k' m = loadValue s k' m := by
  unfold nkBase
  cases old <;> cases getMeta ({ s with nextId := s.nextId + 1 + 1 } : MState) k <;>
    first | rfl | exact loadValue_unpersist_other _ k _ k' m hk

theorem nkBase_sameDisk (s : MState) (k : Bytes) (old : Option Meta) (h : old.isSome = true ∨ getMeta s k = none) :
    SameDisk s (nkBase s k old) := by
  unfold nkBase
  cases old with
  | some m => exact ⟨rfl, rfl⟩
  | none =>
    rcases h with h | h
    · cases h
    · rw [show getMeta ({ s with nextId := s.nextId + 1 + 1 } : MState) k = getMeta s k from rfl, h]
      exact ⟨rfl, rfl⟩

theorem sameDisk_newKeyWith (s : MState) (k : Bytes) (old : Option Meta) (v : Val)
    (h : old.isSome = true ∨ getMeta s k = none) : SameDisk s (newKeyWith s k old v) := by
  rw [newKeyWith_eq]
  exact (nkBase_sameDisk s k old h).trans ⟨rfl, rfl⟩

theorem putMeta_sorted (s : MState) (k : Bytes) (m : Meta) (h : IndexSorted s) : IndexSorted (putMeta s k m) :=
  set_preserves_sorted _ h _ _
theorem lockW_sorted (s : MState) (k : Bytes) (h : IndexSorted s) : IndexSorted (lockW s k) := by
  unfold IndexSorted; rw [lockW_index]; exact h
theorem lockR_sorted (s : MState) (k : Bytes) (h : IndexSorted s) : IndexSorted (lockR s k) := by
  unfold IndexSorted; rw [lockR_index]; exact h
theorem newKeyWith_sorted (s : MState) (k : Bytes) (old : Option Meta) (v : Val) (h : IndexSorted s) :
    IndexSorted (newKeyWith s k old v) := by
  rw [newKeyWith_eq]
  apply putMeta_sorted
  show AList.Sorted (nkBase s k old).index
  rw [nkBase_index]; exact h

theorem loadValue_congr {s s' : MState} (h : SameDisk s s') (k : Bytes) (m m' : Meta) (he : m'.exp = m.exp) :
    loadValue s' k m' = loadValue s k m := by
  unfold loadValue diskGet
  rw [h.1, h.2, he]

theorem resolve_congr {s s' : MState} (h : SameDisk s s') (k : Bytes) (m m' : Meta) (he : m'.exp = m.exp)
    (hv : m'.value = m.value) : resolve s' k m' = resolve s k m := by
  unfold resolve
  rw [hv, loadValue_congr h k m m' he]

theorem entryView_congr {s s' : MState} (h : SameDisk s s') (k : Bytes) (m m' : Meta) (he : m'.exp = m.exp)
    (hv : m'.value = m.value) (ho : m'.isOk = m.isOk) : entryView s' k m' = entryView s k m := by
  unfold entryView
  rw [resolve_congr h k m m' he hv, he, ho]

theorem lookup_congr {s s' : MState} (h : SameDisk s s') (now : Int) (k : Bytes)
    (hm : getMeta s' k = getMeta s k) : lookup s' now k = lookup s now k := by
  unfold lookup
  rw [hm]
  cases getMeta s k with
  | none => rfl
  | some m => simp only [entryView_congr h k m m rfl rfl rfl]

/-- replacing the record under `k` by one with the same logical content changes no lookup -/
theorem lookup_putMeta {s s0 : MState} (h : SameDisk s0 s) (now : Int) (k : Bytes) (m0 m : Meta)
    (hget : ∀ k', k' ≠ k → getMeta s k' = getMeta s0 k')
    (hm0 : getMeta s0 k = some m0) (hexp : m.expired now = m0.expired now)
    (hview : m0.expired now = false → entryView s k m = entryView s0 k m0) (k' : Bytes) :
    lookup (putMeta s k m) now k' = lookup s0 now k' := by
  by_cases hk : k' = k
  · subst hk
    unfold lookup
    rw [getMeta_putMeta_same, hm0]
    simp only [hexp]
    cases he : m0.expired now with
    | true => rfl
    | false =>
      simp only [Bool.false_eq_true, if_false]
      rw [entryView_congr (sameDisk_putMeta s k' m) k' m m rfl rfl rfl, hview he]
  · apply lookup_congr (h.trans (sameDisk_putMeta s k m))
    rw [getMeta_putMeta_other _ _ _ _ hk, hget k' hk]

theorem setValue_isOk (m : Meta) (v : Val) : (m.setValue v).isOk = true := by
  unfold Meta.setValue Meta.isOk
  simp only
  split
  · next h => simp [h]
  · next h => simp only [decide_eq_true_eq]; omega

theorem markModified_isOk (m : Meta) : m.markModified.isOk = m.isOk := by
  simp only [Meta.markModified, Meta.isOk]
  split
  · rfl
  · congr 1
    apply propext
    constructor <;> intro h <;> omega

/-- the record after the access counter was incremented -/
def bump (m0 : Meta) : Meta := { m0 with count := m0.count + 1 }

/-- the record after its value was fetched from the backend -/
def loaded (m0 : Meta) (oid : Nat) (v : Val) : Meta := ({ bump m0 with oid := oid } : Meta).setValue v

theorem bump_isOk (m0 : Meta) : (bump m0).isOk = m0.isOk := rfl
theorem bump_expired (m0 : Meta) (now : Int) : (bump m0).expired now = m0.expired now := rfl
theorem bump_value (m0 : Meta) : (bump m0).value = m0.value := rfl
theorem bump_exp (m0 : Meta) : (bump m0).exp = m0.exp := rfl

/-! ### readKey -/

theorem readKey_none (s : MState) (now : Int) (k : Bytes) (hm : getMeta s k = none) :
    readKey s now k = (s, false) := by
  unfold readKey; rw [hm]

theorem readKey_dead (s : MState) (now : Int) (k : Bytes) (m0 : Meta) (hm : getMeta s k = some m0)
    (h : ¬ (m0.isOk = true ∧ m0.expired now = false)) :
    readKey s now k = (putMeta (lockR s k) k (bump m0), false) := by
  unfold readKey
  rw [hm]
  simp only
  have h1 : ({ m0 with count := m0.count + 1 } : Meta).isOk = m0.isOk := rfl
  have h2 : ({ m0 with count := m0.count + 1 } : Meta).expired now = m0.expired now := rfl
  simp only [h1, h2]
  cases hok : m0.isOk <;> cases hex : m0.expired now
  · simp [bump]
  · simp [bump]
  · exact absurd ⟨hok, hex⟩ h
  · simp [bump]

theorem readKey_hot (s : MState) (now : Int) (k : Bytes) (m0 : Meta) (hm : getMeta s k = some m0)
    (hok : m0.isOk = true) (hex : m0.expired now = false) (hv : m0.value.isSome = true) :
    readKey s now k = (putMeta (lockR s k) k (bump m0), true) := by
  unfold readKey
  rw [hm]
  simp only
  have h1 : ({ m0 with count := m0.count + 1 } : Meta).isOk = m0.isOk := rfl
  have h2 : ({ m0 with count := m0.count + 1 } : Meta).expired now = m0.expired now := rfl
  simp only [h1, h2, hok, hex, hv, if_true, Bool.false_eq_true, if_false]
  rfl

theorem readKey_cold (s : MState) (now : Int) (k : Bytes) (m0 : Meta) (hm : getMeta s k = some m0)
    (hok : m0.isOk = true) (hex : m0.expired now = false) (hv : m0.value = none) :
    readKey s now k =
      match loadValue s k m0 with
      | some (v, oid) => (putMeta (putMeta (lockR s k) k (bump m0)) k (loaded m0 oid v), true)
      | none => (putMeta (lockR s k) k (bump m0), false) := by
  unfold readKey
  rw [hm]
  simp only
  have h1 : ({ m0 with count := m0.count + 1 } : Meta).isOk = m0.isOk := rfl
  have h2 : ({ m0 with count := m0.count + 1 } : Meta).expired now = m0.expired now := rfl
  have h3 : loadValue (putMeta (lockR s k) k { m0 with count := m0.count + 1 }) k { m0 with count := m0.count + 1 }
      = loadValue s k m0 :=
    loadValue_congr ((sameDisk_lockR s k).trans (sameDisk_putMeta _ _ _)) k _ _ rfl
  simp only [h1, h2, h3]
  simp only [hok, hex, if_true, Bool.false_eq_true, if_false]
  rw [if_neg (by rw [hv]; simp)]
  rfl


/-- the shapes `readKey` can take -/
theorem readKey_shape (s : MState) (now : Int) (k : Bytes) :
    (getMeta s k = none ∧ readKey s now k = (s, false)) ∨
    (∃ m0, getMeta s k = some m0 ∧
      ((readKey s now k = (putMeta (lockR s k) k (bump m0), false) ∧
          (¬ (m0.isOk = true ∧ m0.expired now = false) ∨
           (m0.isOk = true ∧ m0.expired now = false ∧ m0.value = none ∧ loadValue s k m0 = none))) ∨
       (readKey s now k = (putMeta (lockR s k) k (bump m0), true) ∧
          m0.isOk = true ∧ m0.expired now = false ∧ m0.value.isSome = true) ∨
       (∃ v oid, readKey s now k =
            (putMeta (putMeta (lockR s k) k (bump m0)) k (loaded m0 oid v), true) ∧
          m0.isOk = true ∧ m0.expired now = false ∧ m0.value = none ∧ loadValue s k m0 = some (v, oid)))) := by
  cases hm : getMeta s k with
  | none => exact Or.inl ⟨rfl, readKey_none s now k hm⟩
  | some m0 =>
    refine Or.inr ⟨m0, rfl, ?_⟩
    by_cases hc : m0.isOk = true ∧ m0.expired now = false
    · obtain ⟨hok, hex⟩ := hc
      cases hv : m0.value with
      | some x => exact Or.inr (Or.inl ⟨readKey_hot s now k m0 hm hok hex (by rw [hv]; rfl), hok, hex, rfl⟩)
      | none =>
        have := readKey_cold s now k m0 hm hok hex hv
        cases hl : loadValue s k m0 with
        | none =>
          rw [hl] at this
          exact Or.inl ⟨this, Or.inr ⟨hok, hex, rfl, rfl⟩⟩
        | some p =>
          obtain ⟨v, oid⟩ := p
          rw [hl] at this
          exact Or.inr (Or.inr ⟨v, oid, this, hok, hex, rfl, rfl⟩)
    · exact Or.inl ⟨readKey_dead s now k m0 hm hc, Or.inl hc⟩

theorem readKey_sorted (s : MState) (now : Int) (k : Bytes) (h : IndexSorted s) : IndexSorted (readKey s now k).1 := by
  rcases readKey_shape s now k with ⟨_, e⟩ | ⟨m0, _, ⟨e, _⟩ | ⟨e, _⟩ | ⟨v, oid, e, _⟩⟩ <;> rw [e]
  · exact h
  · exact putMeta_sorted _ _ _ (lockR_sorted _ _ h)
  · exact putMeta_sorted _ _ _ (lockR_sorted _ _ h)
  · exact putMeta_sorted _ _ _ (putMeta_sorted _ _ _ (lockR_sorted _ _ h))

theorem sameDisk_readKey (s : MState) (now : Int) (k : Bytes) : SameDisk s (readKey s now k).1 := by
  rcases readKey_shape s now k with ⟨_, e⟩ | ⟨m0, _, ⟨e, _⟩ | ⟨e, _⟩ | ⟨v, oid, e, _⟩⟩ <;> rw [e]
  · exact SameDisk.refl s
  · exact (sameDisk_lockR s k).trans (sameDisk_putMeta _ _ _)
  · exact (sameDisk_lockR s k).trans (sameDisk_putMeta _ _ _)
  · exact (sameDisk_lockR s k).trans ((sameDisk_putMeta _ _ _).trans (sameDisk_putMeta _ _ _))

theorem getMeta_readKey_other (s : MState) (now : Int) (key : Bytes) (k : Bytes) (h : k ≠ key) :
    getMeta (readKey s now key).1 k = getMeta s k := by
  rcases readKey_shape s now key with ⟨_, e⟩ | ⟨m0, _, ⟨e, _⟩ | ⟨e, _⟩ | ⟨v, oid, e, _⟩⟩ <;> rw [e]
  all_goals simp only [getMeta_putMeta_other _ _ _ _ h, getMeta_lockR]

theorem lookup_bump {s : MState} (now : Int) (k : Bytes) (m0 : Meta) (hm : getMeta s k = some m0)
    {sL : MState} (hsd : SameDisk s sL) (hget : ∀ k', getMeta sL k' = getMeta s k') (k' : Bytes) :
    lookup (putMeta sL k (bump m0)) now k' = lookup s now k' :=
  lookup_putMeta hsd now k m0 (bump m0) (fun k' _ => hget k') hm rfl
    (fun _ => entryView_congr hsd k m0 (bump m0) rfl rfl rfl) k'

theorem lookup_loaded {s : MState} (now : Int) (k : Bytes) (m0 : Meta) (hm : getMeta s k = some m0)
    (hok : m0.isOk = true) (hv : m0.value = none) (v : Val) (oid : Nat) (hl : loadValue s k m0 = some (v, oid))
    {sL : MState} (hsd : SameDisk s sL) (hget : ∀ k', getMeta sL k' = getMeta s k') (k' : Bytes) :
    lookup (putMeta (putMeta sL k (bump m0)) k (loaded m0 oid v)) now k' = lookup s now k' := by
  apply lookup_putMeta (hsd.trans (sameDisk_putMeta _ _ _)) now k m0 (loaded m0 oid v) _ hm rfl
  · intro _
    unfold entryView loaded
    rw [setValue_isOk, hok]
    have : resolve s k m0 = some v := by
      unfold resolve
      rw [hv]
      simp only [hl, Option.map_some]
    rw [this]
    rfl
  · intro k'' hk''
    rw [getMeta_putMeta_other _ _ _ _ hk'', hget]

/-- no read changes the logical content of any record -/
theorem lookup_readKey (s : MState) (now : Int) (k k' : Bytes) :
    lookup (readKey s now k).1 now k' = lookup s now k' := by
  rcases readKey_shape s now k with ⟨_, e⟩ | ⟨m0, hm, ⟨e, _⟩ | ⟨e, _⟩ | ⟨v, oid, e, hok, _, hv, hl⟩⟩ <;> rw [e]
  · exact lookup_bump now k m0 hm (sameDisk_lockR s k) (fun k' => getMeta_lockR s k' k) k'
  · exact lookup_bump now k m0 hm (sameDisk_lockR s k) (fun k' => getMeta_lockR s k' k) k'
  · exact lookup_loaded now k m0 hm hok hv v oid hl (sameDisk_lockR s k) (fun k' => getMeta_lockR s k' k) k'

theorem live_some_iff (s : MState) (now : Int) (k : Bytes) (v : Val) :
    live s now k = some v ↔
      ∃ m0, getMeta s k = some m0 ∧ m0.isOk = true ∧ m0.expired now = false ∧ resolve s k m0 = some v := by
  unfold live
  cases getMeta s k with
  | none => simp
  | some m0 =>
    cases hok : m0.isOk <;> cases hex : m0.expired now <;> simp [hok, hex]

theorem live_none_iff (s : MState) (now : Int) (k : Bytes) :
    live s now k = none ↔
      ∀ m0, getMeta s k = some m0 → ¬ (m0.isOk = true ∧ m0.expired now = false) ∨ resolve s k m0 = none := by
  unfold live
  cases getMeta s k with
  | none => simp
  | some m0 =>
    cases hok : m0.isOk <;> cases hex : m0.expired now <;> simp [hok, hex]

theorem live_of_hot {s : MState} {now : Int} {k : Bytes} {v : Val} (h : Hot s k v now) : live s now k = some v := by
  obtain ⟨m, hm, hok, hex, hv⟩ := h
  rw [live_some_iff]
  exact ⟨m, hm, hok, hex, by unfold resolve; rw [hv]⟩

theorem valOf_hot {s : MState} {k : Bytes} {v : Val} {now : Int} (h : Hot s k v now) : valOf s k = some v := by
  obtain ⟨m, hm, _, _, hv⟩ := h
  simp [valOf, hm, hv]

/-- the reply flag of `readKey` and the value it leaves in memory -/
theorem readKey_live (s : MState) (now : Int) (k : Bytes) :
    (readKey s now k).2 = (live s now k).isSome ∧
    (∀ v, live s now k = some v → Hot (readKey s now k).1 k v now) := by
  rcases readKey_shape s now k with ⟨hm, e⟩ | ⟨m0, hm, ⟨e, hc⟩ | ⟨e, hok, hex, hv⟩ | ⟨v, oid, e, hok, hex, hv, hl⟩⟩
  · have : live s now k = none := by unfold live; rw [hm]
    rw [e, this]; exact ⟨rfl, fun v h => by cases h⟩
  · have : live s now k = none := by
      rw [live_none_iff]
      intro m hm'
      rw [hm] at hm'; cases hm'
      rcases hc with hc | ⟨_, _, hv, hl⟩
      · exact Or.inl hc
      · right; unfold resolve; rw [hv]; simp [hl]
    rw [e, this]; exact ⟨rfl, fun v h => by cases h⟩
  · obtain ⟨x, hx⟩ := Option.isSome_iff_exists.mp hv
    have : live s now k = some x := by
      rw [live_some_iff]; exact ⟨m0, hm, hok, hex, by unfold resolve; rw [hx]⟩
    rw [e, this]
    refine ⟨rfl, fun v h => ?_⟩
    cases h
    exact ⟨_, getMeta_putMeta_same _ _ _, hok, hex, hx⟩
  · have : live s now k = some v := by
      rw [live_some_iff]; exact ⟨m0, hm, hok, hex, by unfold resolve; rw [hv]; simp [hl]⟩
    rw [e, this]
    refine ⟨rfl, fun v' h => ?_⟩
    cases h
    exact ⟨_, getMeta_putMeta_same _ _ _, setValue_isOk _ _, hex, rfl⟩


/-! ### writeKey -/

/-- what `writeKey` does when it finds nothing usable: create (constructor given) or give up -/
def orCreate (s : MState) (k : Bytes) (old : Option Meta) (mk : Option Val) : MState × Bool :=
  match mk with
  | some v => (newKeyWith s k old v, true)
  | none => (s, false)

theorem writeKey_none (s : MState) (now : Int) (k : Bytes) (mk : Option Val) (hm : getMeta s k = none) :
    writeKey s now k mk = orCreate s k none mk := by
  unfold writeKey orCreate; rw [hm]; cases mk <;> rfl

theorem writeKey_dead (s : MState) (now : Int) (k : Bytes) (mk : Option Val) (m0 : Meta) (hm : getMeta s k = some m0)
    (h : ¬ (m0.isOk = true ∧ m0.expired now = false)) :
    writeKey s now k mk = orCreate (putMeta (lockW s k) k (bump m0)) k (some (bump m0)) mk := by
  unfold writeKey orCreate
  rw [hm]
  simp only
  have h1 : ({ m0 with count := m0.count + 1 } : Meta).isOk = m0.isOk := rfl
  have h2 : ({ m0 with count := m0.count + 1 } : Meta).expired now = m0.expired now := rfl
  simp only [h1, h2]
  cases hok : m0.isOk <;> cases hex : m0.expired now
  · simp only [Bool.false_eq_true, if_false]; rfl
  · simp only [Bool.false_eq_true, if_false]; rfl
  · exact absurd ⟨hok, hex⟩ h
  · simp only [if_true]; rfl

theorem writeKey_hot (s : MState) (now : Int) (k : Bytes) (mk : Option Val) (m0 : Meta) (hm : getMeta s k = some m0)
    (hok : m0.isOk = true) (hex : m0.expired now = false) (hv : m0.value.isSome = true) :
    writeKey s now k mk = (putMeta (lockW s k) k (bump m0), true) := by
  unfold writeKey
  rw [hm]
  simp only
  have h1 : ({ m0 with count := m0.count + 1 } : Meta).isOk = m0.isOk := rfl
  have h2 : ({ m0 with count := m0.count + 1 } : Meta).expired now = m0.expired now := rfl
  simp only [h1, h2, hok, hex, hv, if_true, Bool.false_eq_true, if_false]
  rfl

theorem writeKey_cold (s : MState) (now : Int) (k : Bytes) (mk : Option Val) (m0 : Meta) (hm : getMeta s k = some m0)
    (hok : m0.isOk = true) (hex : m0.expired now = false) (hv : m0.value = none) :
    writeKey s now k mk =
      match loadValue s k m0 with
      | some (v, oid) => (putMeta (putMeta (lockW s k) k (bump m0)) k (loaded m0 oid v), true)
      | none => orCreate (putMeta (lockW s k) k (bump m0)) k (some (bump m0)) mk := by
  unfold writeKey orCreate
  rw [hm]
  simp only
  have h1 : ({ m0 with count := m0.count + 1 } : Meta).isOk = m0.isOk := rfl
  have h2 : ({ m0 with count := m0.count + 1 } : Meta).expired now = m0.expired now := rfl
  have h3 : loadValue (putMeta (lockW s k) k { m0 with count := m0.count + 1 }) k { m0 with count := m0.count + 1 }
      = loadValue s k m0 :=
    loadValue_congr ((sameDisk_lockW s k).trans (sameDisk_putMeta _ _ _)) k _ _ rfl
  simp only [h1, h2, h3]
  simp only [hok, hex, if_true, Bool.false_eq_true, if_false]
  rw [if_neg (by rw [hv]; simp)]
  rfl

/-- the shapes `writeKey` can take -/
theorem writeKey_shape (s : MState) (now : Int) (k : Bytes) (mk : Option Val) :
    (getMeta s k = none ∧ writeKey s now k mk = orCreate s k none mk) ∨
    (∃ m0, getMeta s k = some m0 ∧
      ((writeKey s now k mk = orCreate (putMeta (lockW s k) k (bump m0)) k (some (bump m0)) mk ∧
          (¬ (m0.isOk = true ∧ m0.expired now = false) ∨
           (m0.isOk = true ∧ m0.expired now = false ∧ m0.value = none ∧ loadValue s k m0 = none))) ∨
       (writeKey s now k mk = (putMeta (lockW s k) k (bump m0), true) ∧
          m0.isOk = true ∧ m0.expired now = false ∧ m0.value.isSome = true) ∨
       (∃ v oid, writeKey s now k mk =
            (putMeta (putMeta (lockW s k) k (bump m0)) k (loaded m0 oid v), true) ∧
          m0.isOk = true ∧ m0.expired now = false ∧ m0.value = none ∧ loadValue s k m0 = some (v, oid)))) := by
  cases hm : getMeta s k with
  | none => exact Or.inl ⟨rfl, writeKey_none s now k mk hm⟩
  | some m0 =>
    refine Or.inr ⟨m0, rfl, ?_⟩
    by_cases hc : m0.isOk = true ∧ m0.expired now = false
    · obtain ⟨hok, hex⟩ := hc
      cases hv : m0.value with
      | some x => exact Or.inr (Or.inl ⟨writeKey_hot s now k mk m0 hm hok hex (by rw [hv]; rfl), hok, hex, rfl⟩)
      | none =>
        have := writeKey_cold s now k mk m0 hm hok hex hv
        cases hl : loadValue s k m0 with
        | none =>
          rw [hl] at this
          exact Or.inl ⟨this, Or.inr ⟨hok, hex, rfl, rfl⟩⟩
        | some p =>
          obtain ⟨v, oid⟩ := p
          rw [hl] at this
          exact Or.inr (Or.inr ⟨v, oid, this, hok, hex, rfl, rfl⟩)
    · exact Or.inl ⟨writeKey_dead s now k mk m0 hm hc, Or.inl hc⟩

theorem orCreate_sorted (s : MState) (k : Bytes) (old : Option Meta) (mk : Option Val) (h : IndexSorted s) :
    IndexSorted (orCreate s k old mk).1 := by
  unfold orCreate
  cases mk with
  | none => exact h
  | some v => exact newKeyWith_sorted s k old v h

theorem sameDisk_orCreate (s : MState) (k : Bytes) (old : Option Meta) (mk : Option Val)
    (h : old.isSome = true ∨ getMeta s k = none) : SameDisk s (orCreate s k old mk).1 := by
  unfold orCreate
  cases mk with
  | none => exact SameDisk.refl s
  | some v => exact sameDisk_newKeyWith s k old v h

theorem getMeta_nkBase (s : MState) (k : Bytes) (old : Option Meta) (k' : Bytes) :
    getMeta (nkBase s k old) k' = getMeta s k' := by
  unfold getMeta; rw [nkBase_index]

theorem getMeta_newKeyWith_other (s : MState) (key : Bytes) (old : Option Meta) (v : Val) (k : Bytes) (h : k ≠ key) :
    getMeta (newKeyWith s key old v) k = getMeta s k := by
  rw [newKeyWith_eq, getMeta_putMeta_other _ _ _ _ h, getMeta_nkBase]

theorem getMeta_orCreate_other (s : MState) (key : Bytes) (old : Option Meta) (mk : Option Val) (k : Bytes)
    (h : k ≠ key) : getMeta (orCreate s key old mk).1 k = getMeta s k := by
  unfold orCreate
  cases mk with
  | none => rfl
  | some v => exact getMeta_newKeyWith_other s key old v k h

theorem writeKey_sorted (s : MState) (now : Int) (k : Bytes) (mk : Option Val) (h : IndexSorted s) :
    IndexSorted (writeKey s now k mk).1 := by
  rcases writeKey_shape s now k mk with ⟨_, e⟩ | ⟨m0, _, ⟨e, _⟩ | ⟨e, _⟩ | ⟨v, oid, e, _⟩⟩ <;> rw [e]
  · exact orCreate_sorted _ _ _ _ h
  · exact orCreate_sorted _ _ _ _ (putMeta_sorted _ _ _ (lockW_sorted _ _ h))
  · exact putMeta_sorted _ _ _ (lockW_sorted _ _ h)
  · exact putMeta_sorted _ _ _ (putMeta_sorted _ _ _ (lockW_sorted _ _ h))

theorem sameDisk_writeKey (s : MState) (now : Int) (k : Bytes) (mk : Option Val) :
    SameDisk s (writeKey s now k mk).1 := by
  rcases writeKey_shape s now k mk with ⟨_, e⟩ | ⟨m0, _, ⟨e, _⟩ | ⟨e, _⟩ | ⟨v, oid, e, _⟩⟩ <;> rw [e]
  · next hm => exact sameDisk_orCreate _ _ _ _ (Or.inr hm)
  · exact (sameDisk_lockW s k).trans ((sameDisk_putMeta _ _ _).trans (sameDisk_orCreate _ _ _ _ (Or.inl rfl)))
  · exact (sameDisk_lockW s k).trans (sameDisk_putMeta _ _ _)
  · exact (sameDisk_lockW s k).trans ((sameDisk_putMeta _ _ _).trans (sameDisk_putMeta _ _ _))

theorem getMeta_writeKey_other (s : MState) (now : Int) (key : Bytes) (mk : Option Val) (k : Bytes) (h : k ≠ key) :
    getMeta (writeKey s now key mk).1 k = getMeta s k := by
  rcases writeKey_shape s now key mk with ⟨_, e⟩ | ⟨m0, _, ⟨e, _⟩ | ⟨e, _⟩ | ⟨v, oid, e, _⟩⟩ <;> rw [e]
  all_goals simp only [getMeta_orCreate_other _ _ _ _ _ h, getMeta_putMeta_other _ _ _ _ h, getMeta_lockW]

/-- `writeKey` never changes the logical content of another record -/
theorem lookup_writeKey_other (s : MState) (now : Int) (k : Bytes) (mk : Option Val) (k' : Bytes) (h : k' ≠ k) :
    lookup (writeKey s now k mk).1 now k' = lookup s now k' :=
  lookup_congr (sameDisk_writeKey s now k mk) now k' (getMeta_writeKey_other s now k mk k' h)

/-- without a constructor `writeKey` changes no logical content at all -/
theorem lookup_writeKey_none (s : MState) (now : Int) (k k' : Bytes) :
    lookup (writeKey s now k none).1 now k' = lookup s now k' := by
  rcases writeKey_shape s now k none with ⟨_, e⟩ | ⟨m0, hm, ⟨e, _⟩ | ⟨e, _⟩ | ⟨v, oid, e, hok, _, hv, hl⟩⟩ <;> rw [e]
  · rfl
  · exact lookup_bump now k m0 hm (sameDisk_lockW s k) (fun k' => getMeta_lockW s k' k) k'
  · exact lookup_bump now k m0 hm (sameDisk_lockW s k) (fun k' => getMeta_lockW s k' k) k'
  · exact lookup_loaded now k m0 hm hok hv v oid hl (sameDisk_lockW s k) (fun k' => getMeta_lockW s k' k) k'

/-- on a live key `writeKey` (any constructor) finds the value, leaves it hot, changes no logical content -/
theorem writeKey_live (s : MState) (now : Int) (k : Bytes) (mk : Option Val) (v : Val) (hl : live s now k = some v) :
    (writeKey s now k mk).2 = true ∧ Hot (writeKey s now k mk).1 k v now ∧
    (∀ k', lookup (writeKey s now k mk).1 now k' = lookup s now k') := by
  rw [live_some_iff] at hl
  obtain ⟨m0, hm, hok, hex, hr⟩ := hl
  cases hv : m0.value with
  | some x =>
    have hx : x = v := by unfold resolve at hr; rw [hv] at hr; exact Option.some.inj hr
    subst hx
    rw [writeKey_hot s now k mk m0 hm hok hex (by rw [hv]; rfl)]
    exact ⟨rfl, ⟨_, getMeta_putMeta_same _ _ _, hok, hex, hv⟩,
      fun k' => lookup_bump now k m0 hm (sameDisk_lockW s k) (fun k' => getMeta_lockW s k' k) k'⟩
  | none =>
    have hr' : (loadValue s k m0).map (·.1) = some v := by unfold resolve at hr; rw [hv] at hr; exact hr
    cases hl : loadValue s k m0 with
    | none => rw [hl] at hr'; cases hr'
    | some p =>
      obtain ⟨v', oid⟩ := p
      rw [hl] at hr'
      have : v' = v := Option.some.inj hr'
      subst this
      have e := writeKey_cold s now k mk m0 hm hok hex hv
      rw [hl] at e
      rw [e]
      exact ⟨rfl, ⟨_, getMeta_putMeta_same _ _ _, setValue_isOk _ _, hex, rfl⟩,
        fun k' => lookup_loaded now k m0 hm hok hv v' oid hl (sameDisk_lockW s k) (fun k' => getMeta_lockW s k' k) k'⟩

/-- a freshly constructed record -/
theorem newKeyWith_hot (s : MState) (k : Bytes) (old : Option Meta) (v : Val) :
    ∃ m, getMeta (newKeyWith s k old v) k = some m ∧ m.isOk = true ∧ m.exp = 0 ∧ m.value = some v := by
  rw [newKeyWith_eq]
  refine ⟨_, getMeta_putMeta_same _ _ _, ?_, rfl, rfl⟩
  rw [markModified_isOk, setValue_isOk]

theorem expired_of_exp_zero (m : Meta) (now : Int) (h : m.exp = 0) : m.expired now = false := by
  unfold Meta.expired; rw [h]; rfl

/-- on a key that is not live: without a constructor `writeKey` reports "absent"; with one it
    publishes a fresh hot record holding the constructed value, without deadline -/
theorem writeKey_absent (s : MState) (now : Int) (k : Bytes) (mk : Option Val) (hl : live s now k = none) :
    (mk = none → (writeKey s now k mk).2 = false) ∧
    (∀ v0, mk = some v0 → (writeKey s now k mk).2 = true ∧
      ∃ m, getMeta (writeKey s now k mk).1 k = some m ∧ m.isOk = true ∧ m.exp = 0 ∧ m.value = some v0) := by
  have key : ∀ (s' : MState) (old : Option Meta),
      (mk = none → (orCreate s' k old mk).2 = false) ∧
      (∀ v0, mk = some v0 → (orCreate s' k old mk).2 = true ∧
        ∃ m, getMeta (orCreate s' k old mk).1 k = some m ∧ m.isOk = true ∧ m.exp = 0 ∧ m.value = some v0) := by
    intro s' old
    constructor
    · intro e; subst e; rfl
    · intro v0 e; subst e
      exact ⟨rfl, newKeyWith_hot s' k old v0⟩
  rcases writeKey_shape s now k mk with ⟨_, e⟩ | ⟨m0, hm, ⟨e, _⟩ | ⟨e, hok, hex, hv⟩ | ⟨v, oid, e, hok, hex, hv, hld⟩⟩
  · rw [e]; exact key _ _
  · rw [e]; exact key _ _
  · exfalso
    obtain ⟨x, hx⟩ := Option.isSome_iff_exists.mp hv
    have : live s now k = some x := by
      rw [live_some_iff]; exact ⟨m0, hm, hok, hex, by unfold resolve; rw [hx]⟩
    rw [hl] at this; cases this
  · exfalso
    have : live s now k = some v := by
      rw [live_some_iff]; exact ⟨m0, hm, hok, hex, by unfold resolve; rw [hv]; simp [hld]⟩
    rw [hl] at this; cases this


/-! ### setVal / setExp / signal / emit / commit -/

theorem get?_map_entries {V : Type} (g : Bytes → V → V) : ∀ (l : AList V) (x : Bytes),
    AList.get? (l.map fun p => (p.1, g p.1 p.2)) x = (AList.get? l x).map (g x) := by
  intro l
  induction l with
  | nil => intro x; rfl
  | cons a rest ih =>
    intro x
    obtain ⟨k, v⟩ := a
    simp only [List.map_cons, AList.get?]
    split
    · next e => subst e; rfl
    · exact ih x

theorem sorted_map_entries {V : Type} (g : Bytes → V → V) (l : AList V) (h : AList.Sorted l) :
    AList.Sorted (l.map fun p => (p.1, g p.1 p.2)) := by
  rw [sorted_iff_pairwise] at h ⊢
  rw [List.pairwise_map]
  exact h

/-- the index after `setVal`, in entry-wise form -/
def setValG (oid : Nat) (v : Val) (_k : Bytes) (m' : Meta) : Meta :=
  if m'.oid = oid ∧ m'.value.isSome then { m' with value := some v } else m'

theorem setVal_index (s : MState) (key : Bytes) (v : Val) (m : Meta) (hm : getMeta s key = some m) :
    (setVal s key v).index =
      if s.pebble ∨ m.oid = 0 then AList.set s.index key { m with value := some v }
      else (AList.set s.index key { m with value := some v }).map fun p => (p.1, setValG m.oid v p.1 p.2) := by
  unfold setVal
  rw [hm]
  by_cases hc : s.pebble = true ∨ m.oid = 0
  · rw [if_pos hc]
    show MState.index (if (putMeta s key { m with value := some v }).pebble = true ∨ m.oid = 0 then _ else _) = _
    rw [if_pos (show (putMeta s key { m with value := some v }).pebble = true ∨ m.oid = 0 from hc)]
    rfl
  · rw [if_neg hc]
    show MState.index (if (putMeta s key { m with value := some v }).pebble = true ∨ m.oid = 0 then _ else _) = _
    rw [if_neg (show ¬ ((putMeta s key { m with value := some v }).pebble = true ∨ m.oid = 0) from hc)]
    show List.map _ _ = List.map _ _
    congr 1
    funext p
    obtain ⟨k, m'⟩ := p
    simp only [setValG]
    split <;> rfl

theorem getMeta_setVal_same (s : MState) (key : Bytes) (v : Val) (m : Meta) (hm : getMeta s key = some m) :
    getMeta (setVal s key v) key = some { m with value := some v } := by
  unfold getMeta
  rw [setVal_index s key v m hm]
  split
  · exact get?_set_same _ _ _
  · rw [get?_map_entries, get?_set_same]
    simp [setValG]

theorem setVal_sorted (s : MState) (key : Bytes) (v : Val) (h : IndexSorted s) : IndexSorted (setVal s key v) := by
  cases hm : getMeta s key with
  | none => unfold setVal; rw [hm]; exact h
  | some m =>
    unfold IndexSorted
    rw [setVal_index s key v m hm]
    split
    · exact set_preserves_sorted _ h _ _
    · exact sorted_map_entries _ _ (set_preserves_sorted _ h _ _)

theorem setExp_eq (s : MState) (key : Bytes) (e : Int) :
    setExp s key e = match getMeta s key with
      | none => s
      | some m => putMeta s key { m with exp := e } := rfl

theorem getMeta_setExp_same (s : MState) (key : Bytes) (e : Int) (m : Meta) (hm : getMeta s key = some m) :
    getMeta (setExp s key e) key = some { m with exp := e } := by
  rw [setExp_eq, hm]
  exact getMeta_putMeta_same _ _ _

theorem getMeta_setExp_other (s : MState) (key : Bytes) (e : Int) (k : Bytes) (h : k ≠ key) :
    getMeta (setExp s key e) k = getMeta s k := by
  rw [setExp_eq]
  cases getMeta s key with
  | none => rfl
  | some m => exact getMeta_putMeta_other _ _ _ _ h

theorem setExp_sorted (s : MState) (key : Bytes) (e : Int) (h : IndexSorted s) : IndexSorted (setExp s key e) := by
  rw [setExp_eq]
  cases getMeta s key with
  | none => exact h
  | some m => exact putMeta_sorted _ _ _ h

theorem sameDisk_setExp (s : MState) (key : Bytes) (e : Int) : SameDisk s (setExp s key e) := by
  rw [setExp_eq]
  cases getMeta s key with
  | none => exact SameDisk.refl s
  | some m => exact sameDisk_putMeta _ _ _

theorem getMeta_emit (s : MState) (op : FeedOp) (k : Bytes) : getMeta (emit s op) k = getMeta s k := by
  unfold emit; split <;> rfl

theorem emit_sorted (s : MState) (op : FeedOp) (h : IndexSorted s) : IndexSorted (emit s op) := by
  unfold emit; split
  · exact h
  · exact h

theorem sameDisk_emit (s : MState) (op : FeedOp) : SameDisk s (emit s op) := by
  unfold emit; split <;> exact ⟨rfl, rfl⟩

theorem getMeta_signal_same (s : MState) (k : Bytes) : getMeta (signal s k) k = (getMeta s k).map Meta.markModified := by
  unfold signal modMeta
  cases hm : getMeta s k with
  | none => simp [getMeta] at hm ⊢; exact hm
  | some m => simp only [Option.map_some]; exact getMeta_putMeta_same s k _

theorem getMeta_signal_other (s : MState) (k k' : Bytes) (h : k ≠ k') : getMeta (signal s k') k = getMeta s k := by
  unfold signal modMeta
  cases hm : getMeta s k' with
  | none => rfl
  | some m => exact getMeta_putMeta_other s k k' _ h

theorem signal_sorted (s : MState) (k : Bytes) (h : IndexSorted s) : IndexSorted (signal s k) := by
  unfold signal modMeta
  cases getMeta s k with
  | none => exact h
  | some m => exact putMeta_sorted _ _ _ h

theorem sameDisk_signal (s : MState) (k : Bytes) : SameDisk s (signal s k) := by
  unfold signal modMeta
  cases getMeta s k with
  | none => exact ⟨rfl, rfl⟩
  | some m => exact ⟨rfl, rfl⟩

theorem getMeta_commit (s : MState) (k : Bytes) : getMeta (commit s) k = getMeta s k := rfl

theorem markModified_expired (m : Meta) (now : Int) : m.markModified.expired now = m.expired now := rfl
theorem markModified_value (m : Meta) : m.markModified.value = m.value := rfl

theorem hot_setVal {s : MState} {k : Bytes} {v0 : Val} {now : Int} (h : Hot s k v0 now) (v : Val) :
    Hot (setVal s k v) k v now := by
  obtain ⟨m, hm, hok, hex, _⟩ := h
  exact ⟨_, getMeta_setVal_same s k v m hm, hok, hex, rfl⟩

theorem hot_setExp {s : MState} {k : Bytes} {v : Val} {now : Int} (h : Hot s k v now) (e : Int)
    (he : e = 0 ∨ now < e) : Hot (setExp s k e) k v now := by
  obtain ⟨m, hm, hok, hex, hv⟩ := h
  refine ⟨_, getMeta_setExp_same s k e m hm, hok, ?_, hv⟩
  unfold Meta.expired
  simp only
  rcases he with he | he
  · subst he; rfl
  · simp only [Bool.and_eq_false_iff, decide_eq_false_iff_not, Int.not_le]
    exact Or.inr he

theorem hot_signal {s : MState} {k : Bytes} {v : Val} {now : Int} (h : Hot s k v now) : Hot (signal s k) k v now := by
  obtain ⟨m, hm, hok, hex, hv⟩ := h
  refine ⟨m.markModified, ?_, ?_, ?_, ?_⟩
  · rw [getMeta_signal_same, hm]; rfl
  · rw [markModified_isOk]; exact hok
  · exact hex
  · exact hv

theorem hot_emit {s : MState} {k : Bytes} {v : Val} {now : Int} (h : Hot s k v now) (op : FeedOp) :
    Hot (emit s op) k v now := by
  obtain ⟨m, hm, rest⟩ := h
  exact ⟨m, by rw [getMeta_emit]; exact hm, rest⟩

theorem hot_commit {s : MState} {k : Bytes} {v : Val} {now : Int} (h : Hot s k v now) : Hot (commit s) k v now := h

/-- deadline of a hot key -/
def HotExp (s : MState) (k : Bytes) (e : Int) : Prop := ∃ m, getMeta s k = some m ∧ m.exp = e

theorem hotExp_setVal {s : MState} {k : Bytes} {e : Int} (h : HotExp s k e) (v : Val) : HotExp (setVal s k v) k e := by
  obtain ⟨m, hm, he⟩ := h
  exact ⟨_, getMeta_setVal_same s k v m hm, he⟩
theorem hotExp_signal {s : MState} {k : Bytes} {e : Int} (h : HotExp s k e) : HotExp (signal s k) k e := by
  obtain ⟨m, hm, he⟩ := h
  exact ⟨m.markModified, by rw [getMeta_signal_same, hm]; rfl, he⟩
theorem hotExp_emit {s : MState} {k : Bytes} {e : Int} (h : HotExp s k e) (op : FeedOp) : HotExp (emit s op) k e := by
  obtain ⟨m, hm, he⟩ := h
  exact ⟨m, by rw [getMeta_emit]; exact hm, he⟩
theorem hotExp_setExp {s : MState} {k : Bytes} {e0 : Int} (h : HotExp s k e0) (e : Int) : HotExp (setExp s k e) k e := by
  obtain ⟨m, hm, _⟩ := h
  exact ⟨_, getMeta_setExp_same s k e m hm, rfl⟩

theorem liveExp_of_hot {s : MState} {k : Bytes} {v : Val} {now : Int} {e : Int} (h : Hot s k v now) (he : HotExp s k e) :
    liveExp s now k = some e := by
  obtain ⟨m, hm, hok, hex, hv⟩ := h
  obtain ⟨m', hm', he'⟩ := he
  rw [hm] at hm'; cases hm'
  unfold liveExp
  rw [hm]
  have : resolve s k m = some v := by unfold resolve; rw [hv]
  simp [hok, hex, this, he']

/-! ### delKey -/

theorem delKey_index (s : MState) (k : Bytes) : (delKey s k).index = AList.erase s.index k := by
  unfold delKey
  cases AList.get? s.index k with
  | none => rfl
  | some m => simp only; rw [unpersist_index]

theorem getMeta_delKey_same (s : MState) (k : Bytes) (h : IndexSorted s) : getMeta (delKey s k) k = none := by
  unfold getMeta; rw [delKey_index]; exact get?_erase_same s.index h k

theorem getMeta_delKey_other (s : MState) (k k' : Bytes) (h : k ≠ k') : getMeta (delKey s k') k = getMeta s k := by
  unfold getMeta; rw [delKey_index]; exact get?_erase_other s.index k' k h

theorem delKey_sorted (s : MState) (k : Bytes) (h : IndexSorted s) : IndexSorted (delKey s k) := by
  unfold IndexSorted; rw [delKey_index]; exact erase_preserves_sorted _ h _

theorem delKey_pebble (s : MState) (k : Bytes) : (delKey s k).pebble = s.pebble := by
  unfold delKey
  cases AList.get? s.index k with
  | none => rfl
  | some m => simp only; exact unpersist_pebble s k m

theorem loadValue_delKey_other (s : MState) (k k' : Bytes) (m : Meta) (hk : k' ≠ k) :
    loadValue (delKey s k) k' m = loadValue s k' m := by
  unfold delKey
  cases AList.get? s.index k with
  | none => rfl
  | some m0 =>
    simp only
    exact loadValue_unpersist_other s k m0 k' m hk

theorem frameOn_lookup {K : List Bytes} {s s' : MState} (h : FrameOn K s s') (now : Int) (k' : Bytes) (hk : k' ∉ K) :
    lookup s' now k' = lookup s now k' := by
  unfold lookup
  rw [h.2.2 k' hk]
  cases getMeta s k' with
  | none => rfl
  | some m =>
    have : entryView s' k' m = entryView s k' m := by
      unfold entryView resolve
      rw [h.2.1 k' m hk]
    simp only [this]

theorem frameOn_same {K : List Bytes} {s s' : MState} (hd : SameDisk s s')
    (hg : ∀ k', k' ∉ K → getMeta s' k' = getMeta s k') : FrameOn K s s' :=
  ⟨hd.2, fun k' m _ => loadValue_congr hd k' m m rfl, hg⟩

theorem not_mem_ne {K : List Bytes} {k k' : Bytes} (hk : k ∈ K) (h : k' ∉ K) : k' ≠ k :=
  fun e => h (e ▸ hk)

theorem frameOn_putMeta {K : List Bytes} (s : MState) (k : Bytes) (m : Meta) (hk : k ∈ K) :
    FrameOn K s (putMeta s k m) :=
  frameOn_same (sameDisk_putMeta s k m) (fun k' h => getMeta_putMeta_other s k' k m (not_mem_ne hk h))

theorem frameOn_unpersist {K : List Bytes} (s : MState) (k : Bytes) (m : Meta) (hk : k ∈ K) :
    FrameOn K s (unpersist s k m) :=
  ⟨unpersist_pebble s k m, fun k' m' h => loadValue_unpersist_other s k m k' m' (not_mem_ne hk h),
    fun k' _ => getMeta_unpersist s k m k'⟩

theorem frameOn_delKey {K : List Bytes} (s : MState) (k : Bytes) (hk : k ∈ K) : FrameOn K s (delKey s k) :=
  ⟨delKey_pebble s k, fun k' m h => loadValue_delKey_other s k k' m (not_mem_ne hk h),
    fun k' h => getMeta_delKey_other s k' k (not_mem_ne hk h)⟩

theorem frameOn_newKeyWith {K : List Bytes} (s : MState) (k : Bytes) (old : Option Meta) (v : Val) (hk : k ∈ K) :
    FrameOn K s (newKeyWith s k old v) := by
  rw [newKeyWith_eq]
  refine FrameOn.trans (b := nkBase s k old) ⟨nkBase_pebble s k old, fun k' m h => ?_, fun k' _ => getMeta_nkBase s k old k'⟩
    (frameOn_putMeta _ k _ hk)
  exact loadValue_nkBase_other s k old k' m (not_mem_ne hk h)

theorem frameOn_writeKey {K : List Bytes} (s : MState) (now : Int) (k : Bytes) (mk : Option Val) (hk : k ∈ K) :
    FrameOn K s (writeKey s now k mk).1 :=
  frameOn_same (sameDisk_writeKey s now k mk) (fun k' h => getMeta_writeKey_other s now k mk k' (not_mem_ne hk h))

theorem frameOn_readKey {K : List Bytes} (s : MState) (now : Int) (k : Bytes) (hk : k ∈ K) :
    FrameOn K s (readKey s now k).1 :=
  frameOn_same (sameDisk_readKey s now k) (fun k' h => getMeta_readKey_other s now k k' (not_mem_ne hk h))

theorem frameOn_emit {K : List Bytes} (s : MState) (op : FeedOp) : FrameOn K s (emit s op) :=
  frameOn_same (sameDisk_emit s op) (fun k' _ => getMeta_emit s op k')

theorem frameOn_signal {K : List Bytes} (s : MState) (k : Bytes) (hk : k ∈ K) : FrameOn K s (signal s k) :=
  frameOn_same (sameDisk_signal s k) (fun k' h => getMeta_signal_other s k' k (not_mem_ne hk h))

theorem frameOn_setExp {K : List Bytes} (s : MState) (k : Bytes) (e : Int) (hk : k ∈ K) : FrameOn K s (setExp s k e) :=
  frameOn_same (sameDisk_setExp s k e) (fun k' h => getMeta_setExp_other s k e k' (not_mem_ne hk h))

theorem lookup_delKey_same (s : MState) (now : Int) (k : Bytes) (h : IndexSorted s) : lookup (delKey s k) now k = none := by
  unfold lookup; rw [getMeta_delKey_same s k h]

theorem lookup_delKey_other (s : MState) (now : Int) (k k' : Bytes) (h : k' ≠ k) :
    lookup (delKey s k) now k' = lookup s now k' :=
  frameOn_lookup (frameOn_delKey (K := [k]) s k List.mem_cons_self) now k' (by simpa using h)

/-! ### the logical keyspace as a list -/

theorem get?_filter_sorted {V : Type} (p : Bytes × V → Bool) : ∀ (l : AList V), AList.Sorted l → ∀ (k : Bytes),
    AList.get? (l.filter p) k = (AList.get? l k).bind fun v => if p (k, v) then some v else none := by
  intro l
  induction l with
  | nil => intro _ k; rfl
  | cons a rest ih =>
    intro hs k
    obtain ⟨ka, va⟩ := a
    obtain ⟨hlt, hr⟩ := (sorted_cons_iff _ _).mp hs
    by_cases hk : ka = k
    · subst hk
      simp only [AList.get?, if_true, Option.bind_some]
      cases hp : p (ka, va) with
      | true =>
        simp only [List.filter_cons, hp, if_true, AList.get?]
      | false =>
        simp only [List.filter_cons, hp, Bool.false_eq_true, if_false]
        rw [ih hr ka, get?_none_of_lt rest ka hlt]
        rfl
    · simp only [AList.get?, hk, if_false]
      cases hp : p (ka, va) with
      | true =>
        simp only [List.filter_cons, hp, if_true, AList.get?, hk, if_false]
        exact ih hr k
      | false =>
        simp only [List.filter_cons, hp, Bool.false_eq_true, if_false]
        exact ih hr k

theorem get?_map_pair {V W : Type} (g : Bytes → V → W) : ∀ (l : AList V) (x : Bytes),
    AList.get? (l.map fun p => (p.1, g p.1 p.2)) x = (AList.get? l x).map (g x) := by
  intro l
  induction l with
  | nil => intro x; rfl
  | cons a rest ih =>
    intro x
    obtain ⟨k, v⟩ := a
    simp only [List.map_cons, AList.get?]
    split
    · next e => subst e; rfl
    · exact ih x

theorem get?_logical (s : MState) (now : Int) (h : IndexSorted s) (k : Bytes) :
    AList.get? (logical s now) k = lookup s now k := by
  unfold logical lookup getMeta
  rw [get?_map_pair (fun k m => entryView s k m), get?_filter_sorted _ _ h]
  cases AList.get? s.index k with
  | none => rfl
  | some m =>
    simp only [Option.bind_some]
    cases m.expired now <;> rfl

theorem logical_sorted (s : MState) (now : Int) (h : IndexSorted s) : AList.Sorted (logical s now) := by
  unfold logical
  rw [sorted_iff_pairwise, List.pairwise_map]
  have := (sorted_iff_pairwise _).mp h
  exact (this.filter _).imp (fun {a b} hab => hab)

/-- two sorted stores with the same lookups have the same logical keyspace -/
theorem logical_ext {s s' : MState} {now : Int} (h : IndexSorted s) (h' : IndexSorted s')
    (hl : ∀ k, lookup s' now k = lookup s now k) : logical s' now = logical s now := by
  apply ext_of_sorted _ _ (logical_sorted s' now h') (logical_sorted s now h)
  intro k
  rw [get?_logical s' now h', get?_logical s now h, hl]

end NodisVerif.Proofs.C01
