import NodisVerif.Proofs.SkiplistInsertD
/-
  skiplist.insert, part E: list lemmas (takeWhile / slInsert / BackLinked) and the facts about the heap after
  `extendLevels` that the final assembly needs.
-/
namespace NodisVerif.Skiplist
open NodisVerif.DsZSet (Item nodeLt slInsert)
open NodisVerif.Proofs.C04 (ILt)
open NodisVerif.Proofs.ZSetLemmas (Good itemLt_trans itemLt_total)

theorem ins_takeWhile_index {α : Type} (p : α → Bool) : ∀ (l : List α),
    l.Pairwise (fun a b => p b = true → p a = true) →
    ∀ t x, l[t]? = some x → p x = decide (t < (l.takeWhile p).length) := by
  intro l
  induction l with
  | nil => intro _ t x h; simp at h
  | cons a l ih =>
    intro hpw t x hx
    obtain ⟨h1, h2⟩ := List.pairwise_cons.1 hpw
    cases hpa : p a with
    | true =>
      cases t with
      | zero => simp at hx; subst hx; simp [hpa]
      | succ t =>
        simp at hx
        have := ih h2 t x hx
        simp [hpa, this]
    | false =>
      simp only [List.takeWhile_cons, hpa]
      cases t with
      | zero => simp at hx; subst hx; simp [hpa]
      | succ t =>
        simp at hx
        have hmem : x ∈ l := List.mem_of_getElem? hx
        cases hpx : p x with
        | false => simp
        | true => have := h1 x hmem hpx; rw [hpa] at this; cases this

theorem slInsert_eq (m : Bytes) (s : F64) : ∀ (l : List Item),
    slInsert l m s = l.takeWhile (fun a => nodeLt a s m) ++ (s, m) :: l.dropWhile (fun a => nodeLt a s m) := by
  intro l
  induction l with
  | nil => simp [slInsert]
  | cons a l ih =>
    unfold slInsert
    by_cases h : nodeLt a s m = true
    · simp [h, ih]
    · simp [h]

/-- the previous node of what follows a list `L` -/
def lastOr (prev : Option Nat) : List Nat → Option Nat
  | [] => prev
  | a :: l => lastOr (some a) l

theorem backLinked_cons (h : List Node) (prev : Option Nat) (n : Nat) (rest : List Nat) :
    BackLinked h prev (n :: rest) ↔ bk h n = some prev ∧ BackLinked h (some n) rest := by
  have : (∃ nd, h[n]? = some nd ∧ nd.backward = prev) ↔ bk h n = some prev := by
    unfold bk; cases h[n]? <;> simp
  rw [← this]
  exact Iff.rfl

theorem backLinked_congr {h h' : List Node} : ∀ (L : List Nat) (prev : Option Nat),
    (∀ x ∈ L, bk h' x = bk h x) → BackLinked h prev L → BackLinked h' prev L := by
  intro L
  induction L with
  | nil => intro _ _ _; trivial
  | cons a L ih =>
    intro prev hx hb
    rw [backLinked_cons] at hb ⊢
    exact ⟨by rw [hx a (by simp)]; exact hb.1, ih (some a) (fun x hm => hx x (by simp [hm])) hb.2⟩

theorem backLinked_append (h : List Node) : ∀ (L1 L2 : List Nat) (prev : Option Nat),
    BackLinked h prev (L1 ++ L2) ↔ BackLinked h prev L1 ∧ BackLinked h (lastOr prev L1) L2 := by
  intro L1
  induction L1 with
  | nil => intro L2 prev; simp [BackLinked, lastOr]
  | cons a L1 ih =>
    intro L2 prev
    rw [List.cons_append, backLinked_cons, backLinked_cons, ih]
    simp [lastOr, and_assoc]

theorem lastOr_append_singleton : ∀ (A : List Nat) (prev : Option Nat) (u : Nat), lastOr prev (A ++ [u]) = some u := by
  intro A
  induction A with
  | nil => intro prev u; simp [lastOr]
  | cons a A ih => intro prev u; simp [lastOr, ih]


theorem itemAt_eq_of_get (h : List Node) (n : Nat) (nd : Node) (hn : h[n]? = some nd) : itemAt h n = nd.item := by
  simp [itemAt, hn]

theorem condUpTo_less {sl : SL} {c : List Nat} (hc : IsChain sl c) (m : Bytes) (s : F64)
    (hs : F64.isNaN s = false) :
    CondUpTo sl c (lessCond m s) (c.takeWhile (fun n => nodeLt (itemAt sl.heap n) s m)).length := by
  intro q n nd hq hn h1q
  cases q with
  | zero => omega
  | succ t =>
    simp at hq
    have hmono : c.Pairwise (fun a b => nodeLt (itemAt sl.heap b) s m = true → nodeLt (itemAt sl.heap a) s m = true) := by
      have hsorted := List.pairwise_map.1 hc.sorted
      refine List.Pairwise.imp_of_mem ?_ hsorted
      intro a b ha hb hab hbs
      exact itemLt_trans (itemAt sl.heap a) (itemAt sl.heap b) (s, m) (hc.good a ha) (hc.good b hb) hs hab hbs
    have := ins_takeWhile_index (fun n => nodeLt (itemAt sl.heap n) s m) c hmono t n hq
    simp only [lessCond, ← itemAt_eq_of_get sl.heap n nd hn]
    rw [this]
    simp only [decide_eq_decide]
    push_cast
    omega

theorem take_pre (p : Nat → Bool) (c : List Nat) :
    (0 :: c).take ((c.takeWhile p).length + 1) = 0 :: c.takeWhile p := by
  rw [List.take_succ_cons]
  congr 1
  have h := List.takeWhile_append_dropWhile (p := p) (l := c)
  have h2 : ∀ (a b : List Nat), (a ++ b).take a.length = a := by intro a b; simp
  have h3 := h2 (c.takeWhile p) (c.dropWhile p)
  rwa [h] at h3

theorem linked_extend {sl : SL} {c : List Nat} (hc : IsChain sl c) (h1 : List Node) (lvl : Nat)
    (hs : skel h1 = skel sl.heap)
    (hlv : ∀ x j, lv h1 x j = if x = 0 ∧ sl.level ≤ j ∧ j < lvl then
      (lv sl.heap 0 j).map (fun l => { l with span := sl.length }) else lv sl.heap x j) :
    Linked h1 (0 :: c) := by
  rw [linked_iff_split]
  intro A n B hsplit
  have hold := (linked_iff_split sl.heap _).1 hc.linked A n B hsplit
  have hBc := InsCtx.mem_pre_of_split hsplit
  intro j l hl
  have hab : above h1 j = above sl.heap j := funext (above_congr hs j)
  rw [hab]
  rw [hlv] at hl
  by_cases hcond : n = 0 ∧ sl.level ≤ j ∧ j < lvl
  · rw [if_pos hcond] at hl
    cases hl0 : lv sl.heap 0 j with
    | none => rw [hl0] at hl; simp at hl
    | some l0 =>
      rw [hl0] at hl; simp at hl; subst hl
      obtain ⟨e1, e2⟩ := hold j l0 (hcond.1 ▸ hl0)
      have hB : ∀ y ∈ B, above sl.heap j y = false := by
        intro y hy
        have := hc.hle y (hBc y hy)
        simp [above]; omega
      rw [find_all_false hB] at e1 ⊢
      exact ⟨e1, fun h => absurd e1 h⟩
  · rw [if_neg hcond] at hl
    exact hold j l hl

/-- `update[]` / `rank[]` after the extension block -/
theorem updateRank_extend {sl : SL} {c : List Nat} (hc : IsChain sl c) (pre : List Nat) (hpre : ∀ y ∈ pre, y ∈ c)
    (h1 : List Node) (lvl : Nat) (hl2 : lvl ≤ maxLevel)
    (update update' : List (Option Nat)) (rank rank' : List Int)
    (hUR : UpdateRankFor sl.heap sl.level (0 :: pre) update rank)
    (hs : skel h1 = skel sl.heap)
    (hup : ∀ j, update'[j]? = if sl.level ≤ j ∧ j < lvl then some (some 0) else update[j]?)
    (hrk : ∀ j, rank'[j]? = if sl.level ≤ j ∧ j < lvl then some 0 else rank[j]?) :
    UpdateRankFor h1 (max sl.level lvl) (0 :: pre) update' rank' := by
  intro j hj
  by_cases hjl : j < sl.level
  · obtain ⟨A, u, B, h1', h2, h3, h4, h5⟩ := hUR j hjl
    have hn : ¬ (sl.level ≤ j ∧ j < lvl) := by omega
    refine ⟨A, u, B, h1', by rw [above_congr hs]; exact h2, fun y hy => by rw [above_congr hs]; exact h3 y hy, ?_, ?_⟩
    · rw [hup, if_neg hn]; exact h4
    · rw [hrk, if_neg hn]; exact h5
  · have hn : sl.level ≤ j ∧ j < lvl := by omega
    refine ⟨[], 0, pre, rfl, ?_, ?_, ?_, ?_⟩
    · have := hc.header
      simp [above, height_congr hs, this]; omega
    · intro y hy
      have := hc.hle y (hpre y hy)
      simp [above, height_congr hs]; omega
    · rw [hup, if_pos hn]
    · rw [hrk, if_pos hn]; rfl

theorem height_of_skel (h1 hf : List Node) (lvl : Nat) (s : F64) (m : Bytes)
    (hs : skel hf = skel h1 ++ [(s, m, lvl)]) (x : Nat) :
    height hf x = if x = h1.length then lvl else height h1 x := by
  rw [← skel_append_new] at hs
  rw [height_congr hs, height_append_new]

theorem itemAt_of_skel (h1 hf : List Node) (lvl : Nat) (s : F64) (m : Bytes)
    (hs : skel hf = skel h1 ++ [(s, m, lvl)]) (x : Nat) :
    itemAt hf x = if x = h1.length then (s, m) else itemAt h1 x := by
  rw [itemAt_skel, hs, itemAt_skel, List.getElem?_append]
  have hlen : (skel h1).length = h1.length := by simp [skel]
  by_cases hx : x < h1.length
  · have : x ≠ h1.length := by omega
    simp [hlen, hx, this]
  · by_cases hx2 : x = h1.length
    · subst hx2; simp [hlen]
    · have h2 : ([(s, m, lvl)] : List (F64 × Bytes × Nat))[x - h1.length]? = none :=
        List.getElem?_eq_none_iff.2 (by simp; omega)
      have h3 : (skel h1)[x]? = none := List.getElem?_eq_none_iff.2 (by omega)
      simp [hlen, hx, hx2, h2]

end NodisVerif.Skiplist
