import NodisVerif.Proofs.AListLemmas
import NodisVerif.Proofs.ZSetLemmas
/-
  Association-list facts used by the sorted-set proofs (membership form of get?/set/erase on a
  key-sorted list).
-/
namespace NodisVerif.Proofs.C04
open AListLemmas

variable {V : Type}

theorem pairwise_sorted : ∀ (m : AList V), m.Pairwise KeyLt → AList.Sorted m := by
  intro m
  induction m with
  | nil => intro _; trivial
  | cons a rest ih =>
    intro h
    obtain ⟨h1, h2⟩ := List.pairwise_cons.mp h
    cases rest with
    | nil => trivial
    | cons b rest =>
      obtain ⟨ka, va⟩ := a
      obtain ⟨kb, vb⟩ := b
      exact ⟨h1 (kb, vb) (by simp), ih h2⟩

theorem sorted_iff_pairwise (m : AList V) : AList.Sorted m ↔ m.Pairwise KeyLt :=
  ⟨sorted_pairwise m, pairwise_sorted m⟩

/-- `get?` holds for every list -/
theorem get?_set_self (key : Bytes) (v : V) : ∀ (d : AList V),
    AList.get? (AList.set d key v) key = some v := by
  intro d
  induction d with
  | nil => simp [AList.set, AList.get?]
  | cons p rest ih =>
    obtain ⟨k, w⟩ := p
    unfold AList.set
    by_cases hk : k = key
    · simp [hk, AList.get?]
    · simp only [hk, if_false]
      by_cases hlt : Bytes.lt key k = true
      · simp [hlt, AList.get?]
      · rw [if_neg hlt]
        simp only [AList.get?, hk, if_false]
        exact ih

theorem get?_set_other (key key' : Bytes) (v : V) (hne : key' ≠ key) : ∀ (d : AList V),
    AList.get? (AList.set d key v) key' = AList.get? d key' := by
  intro d
  induction d with
  | nil => simp [AList.set, AList.get?, Ne.symm hne]
  | cons p rest ih =>
    obtain ⟨k, w⟩ := p
    unfold AList.set
    by_cases hk : k = key
    · subst hk
      simp [AList.get?, Ne.symm hne]
    · simp only [hk, if_false]
      by_cases hlt : Bytes.lt key k = true
      · simp [hlt, AList.get?, Ne.symm hne]
      · rw [if_neg hlt]
        simp only [AList.get?]
        rw [ih]

theorem get?_iff_mem (key : Bytes) (v : V) : ∀ (d : AList V), d.Pairwise KeyLt →
    (AList.get? d key = some v ↔ (key, v) ∈ d) := by
  intro d
  induction d with
  | nil => intro _; simp [AList.get?]
  | cons p rest ih =>
    intro hpw
    obtain ⟨k, w⟩ := p
    obtain ⟨h1, h2⟩ := List.pairwise_cons.mp hpw
    simp only [AList.get?]
    by_cases hk : k = key
    · subst hk
      simp only [if_true, Option.some.injEq, List.mem_cons, Prod.mk.injEq, true_and]
      constructor
      · intro h; exact Or.inl h.symm
      · rintro (h | h)
        · exact h.symm
        · exact absurd rfl (lt_ne _ _ (h1 (k, v) h))
    · simp only [hk, if_false, List.mem_cons, Prod.mk.injEq]
      rw [ih h2]
      constructor
      · intro h; exact Or.inr h
      · rintro (⟨h, _⟩ | h)
        · exact absurd h.symm hk
        · exact h

theorem get?_none_iff (key : Bytes) : ∀ (d : AList V),
    (AList.get? d key = none ↔ ∀ p ∈ d, p.1 ≠ key) := by
  intro d
  induction d with
  | nil => simp [AList.get?]
  | cons p rest ih =>
    obtain ⟨k, w⟩ := p
    simp only [AList.get?]
    by_cases hk : k = key
    · simp [hk]
    · simp only [hk, if_false, ih, List.mem_cons, forall_eq_or_imp, ne_eq, not_false_eq_true,
        true_and]

theorem mem_set (key : Bytes) (v : V) (q : Bytes × V) : ∀ (d : AList V), d.Pairwise KeyLt →
    (q ∈ AList.set d key v ↔ q = (key, v) ∨ (q ∈ d ∧ q.1 ≠ key)) := by
  intro d
  induction d with
  | nil => intro _; simp [AList.set]
  | cons p rest ih =>
    intro hpw
    obtain ⟨k, w⟩ := p
    obtain ⟨h1, h2⟩ := List.pairwise_cons.mp hpw
    unfold AList.set
    by_cases hk : k = key
    · subst hk
      simp only [if_true, List.mem_cons]
      constructor
      · rintro (h | h)
        · exact Or.inl h
        · exact Or.inr ⟨Or.inr h, Ne.symm (lt_ne _ _ (h1 q h))⟩
      · rintro (h | ⟨h | h, hne⟩)
        · exact Or.inl h
        · exact absurd (by rw [h]) hne
        · exact Or.inr h
    · simp only [hk, if_false]
      by_cases hlt : Bytes.lt key k = true
      · simp only [hlt, if_true, List.mem_cons]
        constructor
        · rintro (h | h | h)
          · exact Or.inl h
          · exact Or.inr ⟨Or.inl h, by rw [h]; exact hk⟩
          · refine Or.inr ⟨Or.inr h, ?_⟩
            exact Ne.symm (lt_ne _ _ (lt_trans _ _ _ hlt (h1 q h)))
        · rintro (h | ⟨h | h, _⟩)
          · exact Or.inl h
          · exact Or.inr (Or.inl h)
          · exact Or.inr (Or.inr h)
      · rw [if_neg hlt]
        simp only [List.mem_cons, ih h2]
        constructor
        · rintro (h | h | ⟨h, hne⟩)
          · exact Or.inr ⟨Or.inl h, by rw [h]; exact hk⟩
          · exact Or.inl h
          · exact Or.inr ⟨Or.inr h, hne⟩
        · rintro (h | ⟨h | h, hne⟩)
          · exact Or.inr (Or.inl h)
          · exact Or.inl h
          · exact Or.inr (Or.inr ⟨h, hne⟩)

theorem set_pairwise (key : Bytes) (v : V) : ∀ (d : AList V), d.Pairwise KeyLt →
    (AList.set d key v).Pairwise KeyLt := by
  intro d
  induction d with
  | nil => intro _; simp [AList.set]
  | cons p rest ih =>
    intro hpw
    obtain ⟨k, w⟩ := p
    obtain ⟨h1, h2⟩ := List.pairwise_cons.mp hpw
    unfold AList.set
    by_cases hk : k = key
    · subst hk
      simp only [if_true]
      exact List.Pairwise.cons (fun q hq => h1 q hq) h2
    · simp only [hk, if_false]
      by_cases hlt : Bytes.lt key k = true
      · simp only [hlt, if_true]
        refine List.Pairwise.cons ?_ hpw
        intro q hq
        rcases List.mem_cons.mp hq with rfl | hq
        · exact hlt
        · exact lt_trans _ _ _ hlt (h1 q hq)
      · rw [if_neg hlt]
        refine List.Pairwise.cons ?_ (ih h2)
        intro q hq
        rcases (mem_set key v q rest h2).mp hq with rfl | ⟨hq, _⟩
        · show Bytes.lt k key = true
          cases h : Bytes.lt k key with
          | true => rfl
          | false => exact absurd (lt_total _ _ h (by simpa using hlt)) hk
        · exact h1 q hq

theorem erase_sublist (key : Bytes) : ∀ (d : AList V), (AList.erase d key).Sublist d := by
  intro d
  induction d with
  | nil => exact List.Sublist.refl _
  | cons p rest ih =>
    obtain ⟨k, w⟩ := p
    unfold AList.erase
    by_cases hk : k = key
    · simp only [hk, if_true]; exact List.sublist_cons_self _ _
    · simp only [hk, if_false]; exact ih.cons_cons _

theorem mem_erase (key : Bytes) (q : Bytes × V) : ∀ (d : AList V), d.Pairwise KeyLt →
    (q ∈ AList.erase d key ↔ q ∈ d ∧ q.1 ≠ key) := by
  intro d
  induction d with
  | nil => intro _; simp [AList.erase]
  | cons p rest ih =>
    intro hpw
    obtain ⟨k, w⟩ := p
    obtain ⟨h1, h2⟩ := List.pairwise_cons.mp hpw
    unfold AList.erase
    by_cases hk : k = key
    · subst hk
      simp only [if_true, List.mem_cons]
      constructor
      · intro h; exact ⟨Or.inr h, Ne.symm (lt_ne _ _ (h1 q h))⟩
      · rintro ⟨h | h, hne⟩
        · exact absurd (by rw [h]) hne
        · exact h
    · simp only [hk, if_false, List.mem_cons, ih h2]
      constructor
      · rintro (h | ⟨h, hne⟩)
        · exact ⟨Or.inl h, by rw [h]; exact hk⟩
        · exact ⟨Or.inr h, hne⟩
      · rintro ⟨h | h, hne⟩
        · exact Or.inl h
        · exact Or.inr ⟨h, hne⟩

theorem erase_pairwise (key : Bytes) (d : AList V) (h : d.Pairwise KeyLt) :
    (AList.erase d key).Pairwise KeyLt := h.sublist (erase_sublist key d)

/-- keys of a key-sorted list determine the value -/
theorem pairwise_key_unique (d : AList V) (h : d.Pairwise KeyLt) (k : Bytes) (v w : V)
    (h1 : (k, v) ∈ d) (h2 : (k, w) ∈ d) : v = w := by
  have a := (get?_iff_mem k v d h).mpr h1
  have b := (get?_iff_mem k w d h).mpr h2
  rw [a] at b
  exact Option.some.inj b

theorem contains_iff (d : AList V) (k : Bytes) :
    AList.contains d k = true ↔ ∃ v, AList.get? d k = some v := by
  unfold AList.contains
  cases AList.get? d k <;> simp

end NodisVerif.Proofs.C04
