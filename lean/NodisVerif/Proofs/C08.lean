import NodisVerif.Proofs.C08Exec
/-
  C08 — step-level lemmas about MULTI / queueing / EXEC / DISCARD for an arbitrary handler table.
-/
namespace NodisVerif.Proofs.C08Step
open Resp Server
open NodisVerif.Proofs.AListLemmas2

variable (H : Table) (sv : Server) (c : Cmd)

theorem not_special {n : String} (h : ¬ special n) :
    n ≠ "MULTI" ∧ n ≠ "EXEC" ∧ n ≠ "DISCARD" ∧ n ≠ "WATCH" ∧ n ≠ "UNWATCH" := by
  unfold special at h
  refine ⟨fun e => h (Or.inl e), fun e => h (Or.inr (Or.inl e)), fun e => h (Or.inr (Or.inr (Or.inl e))),
    fun e => h (Or.inr (Or.inr (Or.inr (Or.inl e)))), fun e => h (Or.inr (Or.inr (Or.inr (Or.inr e))))⟩

/-! ### dispatch by name -/

theorem dispatch_multi (hn : c.name = "MULTI") : dispatch H sv c = multi sv c.id := by
  simp [dispatch, hn]
theorem dispatch_exec (hn : c.name = "EXEC") : dispatch H sv c = exec sv c.id c.now := by
  simp [dispatch, hn]
theorem dispatch_discard (hn : c.name = "DISCARD") : dispatch H sv c = discard sv c.id := by
  simp [dispatch, hn]
theorem dispatch_watch (hn : c.name = "WATCH") : dispatch H sv c = watch sv c.id c.args := by
  simp [dispatch, hn]
theorem dispatch_unwatch (hn : c.name = "UNWATCH") : dispatch H sv c =
    execCommand (if runsNow (sv.conn c.id).state then unwatchAll sv c.id else sv) c.id c.now c.ch okBody := by
  simp [dispatch, hn, unwatchBody]
theorem dispatch_table (hs : ¬ special c.name) : dispatch H sv c =
    match H c.name c.args with
    | none => (sv, [Tok.err 0])
    | some (.direct ts) => (sv, ts)
    | some .crash => (sv, [Tok.err 0])
    | some (.exec b) => execCommand sv c.id c.now c.ch b := by
  obtain ⟨h1, h2, h3, h4, h5⟩ := not_special hs
  simp only [dispatch, if_neg h1, if_neg h2, if_neg h3, if_neg h4, if_neg h5]
  rfl

/-! ### EXEC and DISCARD: the error-flag bookkeeping finds the connection idle -/

theorem exec_conn_reset (id : String) (now : Int) : ((exec sv id now).1.conn id) = {} := by
  rw [exec_eq]; simp only
  split; · exact resetConn_conn_same _ _
  split; · exact resetConn_conn_same _ _
  split; · exact resetConn_conn_same _ _
  split; · exact resetConn_conn_same _ _
  exact resetConn_conn_same _ _

theorem step_exec (hn : c.name = "EXEC") : step H sv c = exec sv c.id c.now := by
  simp only [step, dispatch_exec H sv c hn]
  rw [afterHandler_noerr _ _ _ (Or.inr (by rw [exec_conn_reset]))]

theorem step_discard (hn : c.name = "DISCARD") : step H sv c = (resetConn sv c.id, [okTok]) := by
  simp only [step, dispatch_discard H sv c hn, discard_eq]
  rw [afterHandler_noerr _ _ _ (Or.inl (by simp [okTok, isErr]))]

/-! ### queueing -/

/-- inside MULTI (prepare bit set) a command whose handler hands a closure to `execCommand` is
    only queued: the server is the old one with exactly that closure appended to the queue -/
theorem step_queued (hs : ¬ special c.name) (b : Body) (hH : H c.name c.args = some (.exec b))
    (hst : (sv.conn c.id).state % 2 = 1) :
    step H sv c = (sv.setConn c.id { (sv.conn c.id) with queue := (sv.conn c.id).queue ++ [b] }, [queuedTok]) := by
  have hr : ¬ runsNow (sv.conn c.id).state := by
    unfold runsNow multiCommit; omega
  simp only [step, dispatch_table H sv c hs, hH, execCommand_eq, if_neg hr, if_pos hst]
  rw [afterHandler_noerr _ _ _ (Or.inl (by simp [queuedTok, isErr]))]

/-- a handler that replies without `execCommand` (arity / syntax errors): nothing is queued, the
    store is untouched; an error token sets the MultiError bit -/
theorem step_direct (hs : ¬ special c.name) (ts : List Tok) (hH : H c.name c.args = some (.direct ts)) :
    step H sv c = (afterHandler sv c.id ts, ts) := by
  simp only [step, dispatch_table H sv c hs, hH]

theorem step_unknown (hs : ¬ special c.name) (hH : H c.name c.args = none ∨ H c.name c.args = some .crash) :
    step H sv c = (afterHandler sv c.id [Tok.err 0], [Tok.err 0]) := by
  rcases hH with hH | hH <;> simp only [step, dispatch_table H sv c hs, hH]

/-- outside MULTI the closure runs at once -/
theorem step_runs (hs : ¬ special c.name) (b : Body) (hH : H c.name c.args = some (.exec b))
    (hst : runsNow (sv.conn c.id).state) :
    step H sv c = (afterHandler (runBody sv c.now c.ch b).1 c.id (replyOf (outOf sv.store c.now c.ch b)),
                   replyOf (outOf sv.store c.now c.ch b)) := by
  simp only [step, dispatch_table H sv c hs, hH, execCommand_eq, if_pos hst, runBody_toks]

/-! ### EXEC -/

/-- EXEC on a clean prepared transaction with a non-empty queue and no watch flag set -/
theorem exec_runs (id : String) (now : Int)
    (hst : (sv.conn id).state % 2 = 1) (herr : ((sv.conn id).state / 4) % 2 ≠ 1)
    (hne : (sv.conn id).queue ≠ []) (hw : (sv.conn id).watch.any (·.2) = false) :
    (exec sv id now).1.store = execStore sv.store now (sv.conn id).queue ∧
    (exec sv id now).2 = Tok.arr (sv.conn id).queue.length ::
        (execOuts sv.store now (sv.conn id).queue).flatMap replyOf := by
  rw [exec_eq]; simp only
  rw [if_neg (by simpa using hst), if_neg herr, if_neg (by simp [hw]), if_neg (by simpa using hne)]
  obtain ⟨h1, h2, _⟩ := execLoop_spec now (sv.conn id).queue
    (sv.setConn id { (sv.conn id) with state := (sv.conn id).state + multiCommit -
      (if ((sv.conn id).state / 2) % 2 = 1 then multiCommit else 0) }) [Tok.arr (sv.conn id).queue.length]
  refine ⟨?_, ?_⟩
  · rw [resetConn_store, h2]; rfl
  · rw [h1]; rfl

theorem exec_empty (id : String) (now : Int)
    (hst : (sv.conn id).state % 2 = 1) (herr : ((sv.conn id).state / 4) % 2 ≠ 1)
    (hw : (sv.conn id).watch.any (·.2) = false)
    (hq : (sv.conn id).queue = []) : exec sv id now = (resetConn sv id, [Tok.arr 0]) := by
  rw [exec_eq]; simp only
  rw [if_neg (by simpa using hst), if_neg herr, if_neg (by simp [hw]), if_pos (by simp [hq])]

theorem exec_no_multi (id : String) (now : Int) (hst : (sv.conn id).state % 2 ≠ 1) :
    exec sv id now = (resetConn sv id, [Tok.err 0]) := by
  rw [exec_eq]; simp only
  rw [if_pos hst]

theorem exec_aborted (id : String) (now : Int)
    (hst : (sv.conn id).state % 2 = 1) (herr : ((sv.conn id).state / 4) % 2 = 1) :
    exec sv id now = (resetConn sv id, [Tok.err 2]) := by
  rw [exec_eq]; simp only
  rw [if_neg (by simpa using hst), if_pos herr]

theorem exec_watch_abort (id : String) (now : Int)
    (hst : (sv.conn id).state % 2 = 1) (herr : ((sv.conn id).state / 4) % 2 ≠ 1)
    (hw : (sv.conn id).watch.any (·.2) = true) :
    exec sv id now = (resetConn sv id, [Tok.nullBulk]) := by
  rw [exec_eq]; simp only
  rw [if_neg (by simpa using hst), if_neg herr, if_pos (by simp [hw])]

/-- whenever a watch flag is set, EXEC has no effect on the store, whatever else holds -/
theorem exec_flag_no_effect (id : String) (now : Int) (hw : (sv.conn id).watch.any (·.2) = true) :
    (exec sv id now).1.store = sv.store := by
  rw [exec_eq]; simp only
  split; · exact resetConn_store _ _
  split; · exact resetConn_store _ _
  first
    | exact resetConn_store _ _
    | (rw [if_pos (by simp [hw])]; exact resetConn_store _ _)

/-! ### the invariant is preserved by every step -/

theorem RegWF.runBody {sv : Server} (h : RegWF sv) (now : Int) (ch : Choice) (b : Body) :
    RegWF (Server.runBody sv now ch b).1 := h.flaggedC (runBody_flagged sv now ch b)

theorem RegWF.execCommand {sv : Server} (h : RegWF sv) (id : String) (now : Int) (ch : Choice) (b : Body) :
    RegWF (Server.execCommand sv id now ch b).1 := by
  rw [execCommand_eq]; split
  · exact h.runBody now ch b
  · refine h.setConn_keep id _ ?_
    split <;> rfl

theorem RegWF.exec {sv : Server} (h : RegWF sv) (id : String) (now : Int) : RegWF (Server.exec sv id now).1 := by
  rw [exec_eq]; simp only
  split; · exact h.resetConn id
  split; · exact h.resetConn id
  split; · exact h.resetConn id
  split; · exact h.resetConn id
  refine RegWF.resetConn ?_ id
  have h1 : RegWF (sv.setConn id { (sv.conn id) with state := (sv.conn id).state + multiCommit -
      (if ((sv.conn id).state / 2) % 2 = 1 then multiCommit else 0) }) := h.setConn_keep id _ rfl
  exact h1.flaggedC (execLoop_spec now _ _ _).2.2

theorem RegWF.dispatch {sv : Server} (h : RegWF sv) (H : Table) (c : Cmd) : RegWF (dispatch H sv c).1 := by
  by_cases h1 : c.name = "MULTI"
  · rw [dispatch_multi H sv c h1, multi_eq]; split
    · exact h
    · exact h.setConn_keep _ _ rfl
  by_cases h2 : c.name = "EXEC"
  · rw [dispatch_exec H sv c h2]; exact h.exec _ _
  by_cases h3 : c.name = "DISCARD"
  · rw [dispatch_discard H sv c h3, discard_eq]; exact h.resetConn _
  by_cases h4 : c.name = "WATCH"
  · rw [dispatch_watch H sv c h4, watch_eq]; split
    · exact h
    · split
      · exact h
      · exact h.watchLoop _ _
  by_cases h5 : c.name = "UNWATCH"
  · rw [dispatch_unwatch H sv c h5]
    apply RegWF.execCommand
    split
    · exact h.unwatchAll _
    · exact h
  have hs : ¬ special c.name := by
    unfold special; rintro (e | e | e | e | e) <;> contradiction
  rw [dispatch_table H sv c hs]
  split
  · exact h
  · exact h
  · exact h
  · exact h.execCommand _ _ _ _

theorem RegWF.step {sv : Server} (h : RegWF sv) (H : Table) (c : Cmd) : RegWF (step H sv c).1 :=
  (h.dispatch H c).afterHandler _ _

theorem RegWF.run (H : Table) : ∀ (cs : List Cmd) {sv : Server}, RegWF sv → RegWF (run H sv cs).1 := by
  intro cs; induction cs with
  | nil => intro sv h; exact h
  | cons c rest ih => intro sv h; exact ih (h.step H c)

/-! ### run -/

theorem run_append : ∀ (cs ds : List Cmd) (sv : Server),
    run H sv (cs ++ ds) = ((run H (run H sv cs).1 ds).1, (run H sv cs).2 ++ (run H (run H sv cs).1 ds).2) := by
  intro cs; induction cs with
  | nil => intro ds sv; rfl
  | cons c rest ih =>
    intro ds sv
    simp only [List.cons_append, run, ih]

theorem run_cons (c : Cmd) (cs : List Cmd) (sv : Server) :
    run H sv (c :: cs) = ((run H (step H sv c).1 cs).1, (step H sv c).2 :: (run H (step H sv c).1 cs).2) := rfl

theorem run_replies_length : ∀ (cs : List Cmd) (sv : Server), (run H sv cs).2.length = cs.length := by
  intro cs; induction cs with
  | nil => intro sv; rfl
  | cons c rest ih => intro sv; simp [run, ih]

end NodisVerif.Proofs.C08Step
