import NodisVerif.Proofs.GateProgOk
/-
  What one transition of the program model does to the gate-relevant part of the state (execMu, the live transactions,
  the serving goroutines; of the thread: held / rep / tx / emb), as one of eleven effects (`Eff`), and what it does to
  the other connections (`tstep_conn_other`: nothing but their watch flags).
-/
namespace NodisVerif.GateProg
open NodisVerif.Gate (G T GMode Ev)

inductive Eff (s : Shared) (t : Tid) (l : Loc) (s' : Shared) (l' : Loc) : List Ev → Prop
  | silent (h1 : s'.execMu = s.execMu) (h2 : s'.active = s.active) (h3 : s'.clients = s.clients)
      (h4 : l'.held = l.held) (h5 : l'.rep = l.rep) (h6 : l'.tx = l.tx)
      (h7 : l'.emb = l.emb ∨ (l'.emb = true ∧ s.clients.contains t = false)) : Eff s t l s' l' []
  | lock (m : GMode) (h1 : s'.execMu = (t, m) :: s.execMu)
      (hm : (m = .x ∧ s.execMu = []) ∨ (m = .s ∧ s.execMu.all (·.2 == .s) = true))
      (h2 : s'.active = s.active) (h3 : s'.clients = s.clients)
      (h4 : l.held = none) (h4' : l'.held = some m) (h5 : l.rep = false) (h5' : l'.rep = false)
      (h6 : l'.tx = l.tx) (h7 : l'.emb = l.emb) : Eff s t l s' l' []
  | unlock (h1 : s'.execMu = s.execMu.filter (·.1 != t)) (h2 : s'.active = s.active) (h3 : s'.clients = s.clients)
      (h4' : l'.held = none) (h5 : l.rep = false) (h5' : l'.rep = false)
      (h6 : l'.tx = l.tx) (h7 : l'.emb = l.emb) : Eff s t l s' l' []
  | ginS (m : GMode) (h1 : s'.execMu = s.execMu) (h2 : s'.active = s.active) (h3 : s'.clients = (s.serve t).clients)
      (h4 : l.held = some m) (h4' : l'.held = some m) (h5 : l.rep = false) (h5' : l'.rep = true)
      (h6 : l.tx = none) (h6' : l'.tx = none) (h7 : l.emb = false) (h7' : l'.emb = false) :
      Eff s t l s' l' [.serve t, .gin t m]
  | ginP (m : GMode) (h1 : s'.execMu = s.execMu) (h2 : s'.active = s.active) (h3 : s'.clients = s.clients)
      (h4 : l.held = some m) (h4' : l'.held = some m) (h5 : l.rep = false) (h5' : l'.rep = true)
      (h6 : l'.tx = l.tx) (h7 : l'.emb = l.emb) : Eff s t l s' l' [.gin t m]
  | serveOnly (h1 : s'.execMu = s.execMu) (h2 : s'.active = s.active) (h3 : s'.clients = (s.serve t).clients)
      (h4 : l'.held = l.held) (h5 : l'.rep = l.rep)
      (h6 : l.tx = none) (h6' : l'.tx = none) (h7 : l.emb = false) (h7' : l'.emb = false) : Eff s t l s' l' [.serve t]
  | gout (h1 : s'.execMu = s.execMu) (h2 : s'.active = s.active) (h3 : s'.clients = s.clients)
      (h4 : l.held.isSome = true) (h4' : l'.held = l.held) (h5 : l.rep = true) (h5' : l'.rep = false)
      (h6 : l.tx = none) (h6' : l'.tx = none) (h7 : l'.emb = l.emb) : Eff s t l s' l' [.gout t]
  | txb (x : T) (h1 : s'.execMu = s.execMu) (h2 : s'.active = (x, t) :: s.active) (hf : s.active.any (·.1 == x) = false)
      (h3 : s'.clients = s.clients) (h4 : l'.held = l.held) (h5 : l'.rep = l.rep)
      (h6 : l.tx = none) (h6' : l'.tx = some x) (h7 : l'.emb = l.emb)
      (hc : l.emb = true ∨ (l.held.isSome = true ∧ l.rep = true)) : Eff s t l s' l' [.txb t x]
  | txe (x : T) (h1 : s'.execMu = s.execMu) (h2 : s'.active = s.active.filter (·.1 != x))
      (h3 : s'.clients = s.clients) (h4 : l'.held = l.held) (h5 : l'.rep = l.rep)
      (h6 : l.tx = some x) (h6' : l'.tx = none) (h7 : l'.emb = l.emb) : Eff s t l s' l' [.txe t x]
  | sig (h1 : s'.execMu = s.execMu) (h2 : s'.active = s.active) (h3 : s'.clients = s.clients)
      (h4 : l'.held = l.held) (h5 : l'.rep = l.rep) (h6 : l'.tx = l.tx) (h7 : l'.emb = l.emb)
      (hc : l.emb = true ∨ (l.held.isSome = true ∧ l.rep = true)) : Eff s t l s' l' [.sig t]
  | xact (e : Ev) (he : e = .chk t ∨ e = .run t) (h1 : s'.execMu = s.execMu) (h2 : s'.active = s.active)
      (h3 : s'.clients = s.clients) (h4 : l'.held = l.held) (h5 : l'.rep = l.rep) (h6 : l'.tx = l.tx)
      (h7 : l'.emb = l.emb) (hx : l.held = some .x ∧ l.rep = true) : Eff s t l s' l' [e]

@[simp] theorem startBody_held (l : Loc) (q : QCmd) (c : Bool) : (startBody l q c).held = l.held := by cases q <;> rfl
@[simp] theorem startBody_rep (l : Loc) (q : QCmd) (c : Bool) : (startBody l q c).rep = l.rep := by cases q <;> rfl
@[simp] theorem startBody_tx (l : Loc) (q : QCmd) (c : Bool) : (startBody l q c).tx = l.tx := by cases q <;> rfl
@[simp] theorem startBody_emb (l : Loc) (q : QCmd) (c : Bool) : (startBody l q c).emb = l.emb := by cases q <;> rfl
@[simp] theorem epilogue_held (l : Loc) : (epilogue l).held = l.held := rfl
@[simp] theorem epilogue_rep (l : Loc) : (epilogue l).rep = l.rep := rfl
@[simp] theorem epilogue_tx (l : Loc) : (epilogue l).tx = l.tx := rfl
@[simp] theorem epilogue_emb (l : Loc) : (epilogue l).emb = l.emb := rfl
@[simp] theorem afterTx_held (l : Loc) : (afterTx l).held = l.held := by unfold afterTx; split <;> rfl
@[simp] theorem afterTx_rep (l : Loc) : (afterTx l).rep = l.rep := by unfold afterTx; split <;> rfl
@[simp] theorem afterTx_tx (l : Loc) : (afterTx l).tx = l.tx := by unfold afterTx; split <;> rfl
@[simp] theorem afterTx_emb (l : Loc) : (afterTx l).emb = l.emb := by unfold afterTx; split <;> rfl
@[simp] theorem setConn_execMu (s : Shared) (t : Tid) (c : ConnSt) : (s.setConn t c).execMu = s.execMu := rfl
@[simp] theorem setConn_active (s : Shared) (t : Tid) (c : ConnSt) : (s.setConn t c).active = s.active := rfl
@[simp] theorem setConn_clients (s : Shared) (t : Tid) (c : ConnSt) : (s.setConn t c).clients = s.clients := rfl
@[simp] theorem serve_execMu (s : Shared) (t : Tid) : (s.serve t).execMu = s.execMu := by unfold Shared.serve; split <;> rfl
@[simp] theorem serve_active (s : Shared) (t : Tid) : (s.serve t).active = s.active := by unfold Shared.serve; split <;> rfl

set_option hygiene false in
macro "eff_fin" : tactic => `(tactic|
  first | rfl | (exact Or.inr ⟨rfl, by assumption⟩) | (simp_all [ok, frame, bodyOk, cmdGate, gateIs, isBpop, RW.lock, RW.rlock, RW.unlock, RW.canLock, RW.canRLock]; done)
        | (cases hx : l.ctx <;> simp_all [ok, frame, bodyOk, cmdGate, gateIs, isBpop]; done)
        | (cases hx : l.ctx <;> cases hc : l.cmd <;> simp_all [ok, frame, bodyOk, cmdGate, gateIs, isBpop] <;> grind))

set_option hygiene false in
macro "eff_tac" : tactic => `(tactic| (
  simp only [tstep, hpc] at hs
  repeat' split at hs
  all_goals (first | (cases hs; done) | skip)
  all_goals (try (injection hs with hs; injection hs with h1 h2; injection h2 with h2 h3; subst h1 h2 h3))
  all_goals (simp only [ok, hpc] at h)
  all_goals (first
    | (apply Eff.silent <;> eff_fin)
    | (apply Eff.lock <;> eff_fin)
    | (apply Eff.unlock <;> eff_fin)
    | (apply Eff.ginS <;> eff_fin)
    | (apply Eff.ginP <;> eff_fin)
    | (apply Eff.serveOnly <;> eff_fin)
    | (apply Eff.gout <;> eff_fin)
    | (apply Eff.txb <;> eff_fin)
    | (apply Eff.txe <;> eff_fin)
    | (apply Eff.sig <;> eff_fin)
    | (apply Eff.xact <;> eff_fin))))

theorem eff_idle {s : Shared} {t : Tid} {l : Loc} {ch : Choice} {s' l' evs} (hpc : l.pc = .idle)
    (h : ok l (s.conn t).commit = true) (hs : tstep s t l ch = some (s', l', evs)) : Eff s t l s' l' evs := by
  eff_tac

theorem eff_xIn {s : Shared} {t : Tid} {l : Loc} {ch : Choice} {s' l' evs} (hpc : l.pc = .xIn)
    (h : ok l (s.conn t).commit = true) (hs : tstep s t l ch = some (s', l', evs)) : Eff s t l s' l' evs := by
  eff_tac

theorem eff_sIn {s : Shared} {t : Tid} {l : Loc} {ch : Choice} {s' l' evs} (hpc : l.pc = .sIn)
    (h : ok l (s.conn t).commit = true) (hs : tstep s t l ch = some (s', l', evs)) : Eff s t l s' l' evs := by
  eff_tac

theorem eff_bServe {s : Shared} {t : Tid} {l : Loc} {ch : Choice} {s' l' evs} (hpc : l.pc = .bServe)
    (h : ok l (s.conn t).commit = true) (hs : tstep s t l ch = some (s', l', evs)) : Eff s t l s' l' evs := by
  eff_tac

theorem eff_call {s : Shared} {t : Tid} {l : Loc} {ch : Choice} {s' l' evs} (hpc : l.pc = .call)
    (h : ok l (s.conn t).commit = true) (hs : tstep s t l ch = some (s', l', evs)) : Eff s t l s' l' evs := by
  eff_tac

theorem eff_ec {s : Shared} {t : Tid} {l : Loc} {ch : Choice} {s' l' evs} (hpc : l.pc = .ec)
    (h : ok l (s.conn t).commit = true) (hs : tstep s t l ch = some (s', l', evs)) : Eff s t l s' l' evs := by
  eff_tac

theorem eff_b0 {s : Shared} {t : Tid} {l : Loc} {ch : Choice} {s' l' evs} (hpc : l.pc = .b0)
    (h : ok l (s.conn t).commit = true) (hs : tstep s t l ch = some (s', l', evs)) : Eff s t l s' l' evs := by
  eff_tac

theorem eff_b1 {s : Shared} {t : Tid} {l : Loc} {ch : Choice} {s' l' evs} (hpc : l.pc = .b1)
    (h : ok l (s.conn t).commit = true) (hs : tstep s t l ch = some (s', l', evs)) : Eff s t l s' l' evs := by
  eff_tac

theorem eff_b2 {s : Shared} {t : Tid} {l : Loc} {ch : Choice} {s' l' evs} (hpc : l.pc = .b2)
    (h : ok l (s.conn t).commit = true) (hs : tstep s t l ch = some (s', l', evs)) : Eff s t l s' l' evs := by
  eff_tac

theorem eff_g1 {s : Shared} {t : Tid} {l : Loc} {ch : Choice} {s' l' evs} (hpc : l.pc = .g1)
    (h : ok l (s.conn t).commit = true) (hs : tstep s t l ch = some (s', l', evs)) : Eff s t l s' l' evs := by
  eff_tac

theorem eff_g2 {s : Shared} {t : Tid} {l : Loc} {ch : Choice} {s' l' evs} (hpc : l.pc = .g2)
    (h : ok l (s.conn t).commit = true) (hs : tstep s t l ch = some (s', l', evs)) : Eff s t l s' l' evs := by
  eff_tac

theorem eff_g3 {s : Shared} {t : Tid} {l : Loc} {ch : Choice} {s' l' evs} (hpc : l.pc = .g3)
    (h : ok l (s.conn t).commit = true) (hs : tstep s t l ch = some (s', l', evs)) : Eff s t l s' l' evs := by
  eff_tac

theorem eff_b3 {s : Shared} {t : Tid} {l : Loc} {ch : Choice} {s' l' evs} (hpc : l.pc = .b3)
    (h : ok l (s.conn t).commit = true) (hs : tstep s t l ch = some (s', l', evs)) : Eff s t l s' l' evs := by
  eff_tac

theorem eff_bret {s : Shared} {t : Tid} {l : Loc} {ch : Choice} {s' l' evs} (hpc : l.pc = .bret)
    (h : ok l (s.conn t).commit = true) (hs : tstep s t l ch = some (s', l', evs)) : Eff s t l s' l' evs := by
  eff_tac

theorem eff_p1 {s : Shared} {t : Tid} {l : Loc} {ch : Choice} {s' l' evs} (hpc : l.pc = .p1)
    (h : ok l (s.conn t).commit = true) (hs : tstep s t l ch = some (s', l', evs)) : Eff s t l s' l' evs := by
  eff_tac

theorem eff_p2 {s : Shared} {t : Tid} {l : Loc} {ch : Choice} {s' l' evs} (hpc : l.pc = .p2)
    (h : ok l (s.conn t).commit = true) (hs : tstep s t l ch = some (s', l', evs)) : Eff s t l s' l' evs := by
  eff_tac

theorem eff_p3 {s : Shared} {t : Tid} {l : Loc} {ch : Choice} {s' l' evs} (hpc : l.pc = .p3)
    (h : ok l (s.conn t).commit = true) (hs : tstep s t l ch = some (s', l', evs)) : Eff s t l s' l' evs := by
  eff_tac

theorem eff_p4 {s : Shared} {t : Tid} {l : Loc} {ch : Choice} {s' l' evs} (hpc : l.pc = .p4)
    (h : ok l (s.conn t).commit = true) (hs : tstep s t l ch = some (s', l', evs)) : Eff s t l s' l' evs := by
  eff_tac

theorem eff_p5 {s : Shared} {t : Tid} {l : Loc} {ch : Choice} {s' l' evs} (hpc : l.pc = .p5)
    (h : ok l (s.conn t).commit = true) (hs : tstep s t l ch = some (s', l', evs)) : Eff s t l s' l' evs := by
  eff_tac

theorem eff_w1 {s : Shared} {t : Tid} {l : Loc} {ch : Choice} {s' l' evs} (hpc : l.pc = .w1)
    (h : ok l (s.conn t).commit = true) (hs : tstep s t l ch = some (s', l', evs)) : Eff s t l s' l' evs := by
  eff_tac

theorem eff_w2 {s : Shared} {t : Tid} {l : Loc} {ch : Choice} {s' l' evs} (hpc : l.pc = .w2)
    (h : ok l (s.conn t).commit = true) (hs : tstep s t l ch = some (s', l', evs)) : Eff s t l s' l' evs := by
  eff_tac

theorem eff_w3 {s : Shared} {t : Tid} {l : Loc} {ch : Choice} {s' l' evs} (hpc : l.pc = .w3)
    (h : ok l (s.conn t).commit = true) (hs : tstep s t l ch = some (s', l', evs)) : Eff s t l s' l' evs := by
  eff_tac

theorem eff_u1 {s : Shared} {t : Tid} {l : Loc} {ch : Choice} {s' l' evs} (hpc : l.pc = .u1)
    (h : ok l (s.conn t).commit = true) (hs : tstep s t l ch = some (s', l', evs)) : Eff s t l s' l' evs := by
  eff_tac

theorem eff_u2 {s : Shared} {t : Tid} {l : Loc} {ch : Choice} {s' l' evs} (hpc : l.pc = .u2)
    (h : ok l (s.conn t).commit = true) (hs : tstep s t l ch = some (s', l', evs)) : Eff s t l s' l' evs := by
  eff_tac

theorem eff_u3 {s : Shared} {t : Tid} {l : Loc} {ch : Choice} {s' l' evs} (hpc : l.pc = .u3)
    (h : ok l (s.conn t).commit = true) (hs : tstep s t l ch = some (s', l', evs)) : Eff s t l s' l' evs := by
  eff_tac

theorem eff_e1 {s : Shared} {t : Tid} {l : Loc} {ch : Choice} {s' l' evs} (hpc : l.pc = .e1)
    (h : ok l (s.conn t).commit = true) (hs : tstep s t l ch = some (s', l', evs)) : Eff s t l s' l' evs := by
  eff_tac

theorem eff_e3 {s : Shared} {t : Tid} {l : Loc} {ch : Choice} {s' l' evs} (hpc : l.pc = .e3)
    (h : ok l (s.conn t).commit = true) (hs : tstep s t l ch = some (s', l', evs)) : Eff s t l s' l' evs := by
  eff_tac

theorem eff_e4 {s : Shared} {t : Tid} {l : Loc} {ch : Choice} {s' l' evs} (hpc : l.pc = .e4)
    (h : ok l (s.conn t).commit = true) (hs : tstep s t l ch = some (s', l', evs)) : Eff s t l s' l' evs := by
  eff_tac

theorem eff_e5 {s : Shared} {t : Tid} {l : Loc} {ch : Choice} {s' l' evs} (hpc : l.pc = .e5)
    (h : ok l (s.conn t).commit = true) (hs : tstep s t l ch = some (s', l', evs)) : Eff s t l s' l' evs := by
  eff_tac

theorem eff_e6 {s : Shared} {t : Tid} {l : Loc} {ch : Choice} {s' l' evs} (hpc : l.pc = .e6)
    (h : ok l (s.conn t).commit = true) (hs : tstep s t l ch = some (s', l', evs)) : Eff s t l s' l' evs := by
  eff_tac

theorem eff_ec1 {s : Shared} {t : Tid} {l : Loc} {ch : Choice} {s' l' evs} (hpc : l.pc = .ec1)
    (h : ok l (s.conn t).commit = true) (hs : tstep s t l ch = some (s', l', evs)) : Eff s t l s' l' evs := by
  eff_tac

theorem eff_ec2 {s : Shared} {t : Tid} {l : Loc} {ch : Choice} {s' l' evs} (hpc : l.pc = .ec2)
    (h : ok l (s.conn t).commit = true) (hs : tstep s t l ch = some (s', l', evs)) : Eff s t l s' l' evs := by
  eff_tac

theorem eff_edef {s : Shared} {t : Tid} {l : Loc} {ch : Choice} {s' l' evs} (hpc : l.pc = .edef)
    (h : ok l (s.conn t).commit = true) (hs : tstep s t l ch = some (s', l', evs)) : Eff s t l s' l' evs := by
  eff_tac

theorem eff_dOut {s : Shared} {t : Tid} {l : Loc} {ch : Choice} {s' l' evs} (hpc : l.pc = .dOut)
    (h : ok l (s.conn t).commit = true) (hs : tstep s t l ch = some (s', l', evs)) : Eff s t l s' l' evs := by
  eff_tac

theorem eff_dUnlock {s : Shared} {t : Tid} {l : Loc} {ch : Choice} {s' l' evs} (hpc : l.pc = .dUnlock)
    (h : ok l (s.conn t).commit = true) (hs : tstep s t l ch = some (s', l', evs)) : Eff s t l s' l' evs := by
  eff_tac

theorem eff_dRec {s : Shared} {t : Tid} {l : Loc} {ch : Choice} {s' l' evs} (hpc : l.pc = .dRec)
    (h : ok l (s.conn t).commit = true) (hs : tstep s t l ch = some (s', l', evs)) : Eff s t l s' l' evs := by
  eff_tac

theorem eff_flush {s : Shared} {t : Tid} {l : Loc} {ch : Choice} {s' l' evs} (hpc : l.pc = .flush)
    (h : ok l (s.conn t).commit = true) (hs : tstep s t l ch = some (s', l', evs)) : Eff s t l s' l' evs := by
  eff_tac

theorem eff_sw {s : Shared} {t : Tid} {l : Loc} {ch : Choice} {s' l' evs} (hpc : l.pc = .sw)
    (h : ok l (s.conn t).commit = true) (hs : tstep s t l ch = some (s', l', evs)) : Eff s t l s' l' evs := by
  eff_tac

theorem eff_p0 {s : Shared} {t : Tid} {l : Loc} {ch : Choice} {s' l' evs} (hpc : l.pc = .p0)
    (h : ok l (s.conn t).commit = true) (hs : tstep s t l ch = some (s', l', evs)) : Eff s t l s' l' evs := by
  eff_tac

/-- every transition has one of the eleven effects on the gate-relevant state -/
theorem tstep_eff {s : Shared} {t : Tid} {l : Loc} {ch : Choice} {s' l' evs}
    (h : ok l (s.conn t).commit = true) (hs : tstep s t l ch = some (s', l', evs)) : Eff s t l s' l' evs := by
  cases hpc : l.pc
  · exact eff_idle hpc h hs
  · exact eff_sw hpc h hs
  · exact eff_xIn hpc h hs
  · exact eff_sIn hpc h hs
  · exact eff_bServe hpc h hs
  · exact eff_call hpc h hs
  · exact eff_ec hpc h hs
  · exact eff_b0 hpc h hs
  · exact eff_b1 hpc h hs
  · exact eff_b2 hpc h hs
  · exact eff_g1 hpc h hs
  · exact eff_g2 hpc h hs
  · exact eff_g3 hpc h hs
  · exact eff_b3 hpc h hs
  · exact eff_bret hpc h hs
  · exact eff_p0 hpc h hs
  · exact eff_p1 hpc h hs
  · exact eff_p2 hpc h hs
  · exact eff_p3 hpc h hs
  · exact eff_p4 hpc h hs
  · exact eff_p5 hpc h hs
  · exact eff_w1 hpc h hs
  · exact eff_w2 hpc h hs
  · exact eff_w3 hpc h hs
  · exact eff_u1 hpc h hs
  · exact eff_u2 hpc h hs
  · exact eff_u3 hpc h hs
  · exact eff_e1 hpc h hs
  · exact eff_e3 hpc h hs
  · exact eff_e4 hpc h hs
  · exact eff_e5 hpc h hs
  · exact eff_e6 hpc h hs
  · exact eff_ec1 hpc h hs
  · exact eff_ec2 hpc h hs
  · exact eff_edef hpc h hs
  · exact eff_dOut hpc h hs
  · exact eff_dUnlock hpc h hs
  · exact eff_dRec hpc h hs
  · exact eff_flush hpc h hs

/-- a transition of `t` changes nothing of another connection but its watch flags -/
theorem tstep_conn_other {s : Shared} {t : Tid} {l : Loc} {ch : Choice} {s' l' evs}
    (hs : tstep s t l ch = some (s', l', evs)) {g : Tid} (hg : g ≠ t) : sameButWatch (s'.conn g) (s.conn g) := by
  have hr : sameButWatch (s.conn g) (s.conn g) := ⟨rfl, rfl, rfl, rfl, rfl⟩
  have hm : ∀ k cl, sameButWatch (({ s with conns := markAll s.conns k cl } : Shared).conn g) (s.conn g) :=
    fun k cl => markAll_conn s.conns k cl g
  cases hpc : l.pc <;> simp only [tstep, hpc] at hs <;> (repeat' split at hs) <;>
    (first | (cases hs; done) | skip) <;>
    (try (injection hs with hs; injection hs with h1 h2; subst h1)) <;>
    (first | exact hr | exact hm _ _ | (simp only [conn_setConn_other _ _ _ _ hg, conn_serve, conn_execMu, conn_watchMu, conn_active, conn_registry]; first | exact hr | exact hm _ _))

end NodisVerif.GateProg
