import NodisVerif.Proofs.C08Step
import NodisVerif.Driver.RespOps
/-
  The `step` the theorems are about is the dispatch step the differential driver executes
  (`Driver.respStep`, which is what is compared against the Go server).
-/
namespace NodisVerif.Proofs.C08Step
open Resp Server

/-- the command name as the driver computes it -/
def driverName (nameB : Bytes) : String := String.fromUTF8! (ByteArray.mk (upper nameB).toArray)

theorem step_matches_driver (tables : List (String → List Bytes → Option HRes)) (sv : Server) (id : String)
    (now : Int) (nameB : Bytes) (args : List Bytes) (ch : Choice) :
    (Driver.respStep tables sv id now (nameB :: args) ch).1 =
      (step (Driver.lookup tables) sv { id := id, name := driverName nameB, args := args, now := now, ch := ch }).1 := by
  simp only [Driver.respStep, step, dispatch, driverName]
  split
  · next h => simp [h]
  · next h => simp [h]
  · next h => simp [h]
  · next h => simp [h]
  · next h => simp [h, runsNow]; rfl
  · next h1 h2 h3 h4 h5 =>
    simp only [if_neg h1, if_neg h2, if_neg h3, if_neg h4, if_neg h5]
    split <;> simp_all

/-- … and the reply line the driver prints is the canonical rendering of `step`'s reply tokens -/
theorem step_matches_driver_reply (tables : List (String → List Bytes → Option HRes)) (sv : Server) (id : String)
    (now : Int) (nameB : Bytes) (args : List Bytes) (ch : Choice) :
    (Driver.respStep tables sv id now (nameB :: args) ch).2 =
      Wire.joinWith " " (Driver.canonical (driverName nameB)
        (step (Driver.lookup tables) sv { id := id, name := driverName nameB, args := args, now := now, ch := ch }).2) := by
  simp only [Driver.respStep, step, dispatch, driverName]
  split
  · next h => simp [h]
  · next h => simp [h]
  · next h => simp [h]
  · next h => simp [h]
  · next h => simp [h, runsNow]; rfl
  · next h1 h2 h3 h4 h5 =>
    simp only [if_neg h1, if_neg h2, if_neg h3, if_neg h4, if_neg h5]
    split <;> simp_all

end NodisVerif.Proofs.C08Step
