import NodisVerif.Proofs.C02Api
/-
  C02 at the API level, two-key commands: LPopRPush / RPopLPush (`Api.rotate`).
-/
namespace NodisVerif.Proofs.C02
open NodisVerif Store

/-! ### frame lemmas (no sortedness needed) -/

theorem get?_set_self {V : Type} (key : Bytes) (v : V) : ∀ (m : AList V),
    AList.get? (AList.set m key v) key = some v := by
  intro m
  induction m with
  | nil => simp [AList.set, AList.get?]
  | cons a rest ih =>
    obtain ⟨k, w⟩ := a
    by_cases hk : k = key
    · subst hk; simp [AList.set, AList.get?]
    · by_cases hl : Bytes.lt key k = true
      · simp [AList.set, AList.get?, hk, hl]
      · simp [AList.set, AList.get?, hk, hl, ih]

theorem get?_set_other {V : Type} (key key' : Bytes) (v : V) (hne : key ≠ key') : ∀ (m : AList V),
    AList.get? (AList.set m key v) key' = AList.get? m key' := by
  intro m
  induction m with
  | nil => simp [AList.set, AList.get?, hne]
  | cons a rest ih =>
    obtain ⟨k, w⟩ := a
    by_cases hk : k = key
    · subst hk; simp [AList.set, AList.get?, hne]
    · by_cases hl : Bytes.lt key k = true
      · simp [AList.set, AList.get?, hk, hl, hne]
      · by_cases hk' : k = key'
        · subst hk'; simp [AList.set, AList.get?, hk, hl]
        · simp [AList.set, AList.get?, hk, hl, hk', ih]

theorem get?_erase_other {V : Type} (key key' : Bytes) (hne : key ≠ key') : ∀ (m : AList V),
    AList.get? (AList.erase m key) key' = AList.get? m key' := by
  intro m
  induction m with
  | nil => rfl
  | cons a rest ih =>
    obtain ⟨k, w⟩ := a
    by_cases hk : k = key
    · subst hk; simp [AList.erase, AList.get?, hne]
    · by_cases hk' : k = key'
      · subst hk'; simp [AList.erase, AList.get?, hk]
      · simp [AList.erase, AList.get?, hk, hk', ih]

theorem putMeta_self (s : MState) (k : Bytes) (m : Meta) : getMeta (putMeta s k m) k = some m :=
  get?_set_self k m s.index

theorem putMeta_other (s : MState) (k k' : Bytes) (m : Meta) (hne : k ≠ k') :
    getMeta (putMeta s k m) k' = getMeta s k' :=
  get?_set_other k k' m hne s.index

theorem delKey_other (s : MState) (k k' : Bytes) (hne : k ≠ k') :
    getMeta (delKey s k) k' = getMeta s k' := by
  unfold getMeta; rw [delKey_index]; exact get?_erase_other k k' hne s.index

/-! `unpersist` (removal of a record's backend entry) changes `.disk` only -/

theorem unpersist_pebble (s : MState) (k : Bytes) (m : Meta) : (unpersist s k m).pebble = s.pebble := by
  unfold unpersist; split <;> rfl

theorem unpersist_nextId (s : MState) (k : Bytes) (m : Meta) : (unpersist s k m).nextId = s.nextId := by
  unfold unpersist; split <;> rfl

theorem unpersist_hung (s : MState) (k : Bytes) (m : Meta) : (unpersist s k m).hung = s.hung := by
  unfold unpersist; split <;> rfl

theorem unpersist_held (s : MState) (k : Bytes) (m : Meta) : (unpersist s k m).held = s.held := by
  unfold unpersist; split <;> rfl

theorem delKey_pebble (s : MState) (k : Bytes) : (delKey s k).pebble = s.pebble := by
  unfold delKey; split
  · exact unpersist_pebble s k _
  · rfl

theorem delKey_nextId (s : MState) (k : Bytes) : (delKey s k).nextId = s.nextId := by
  unfold delKey; split
  · exact unpersist_nextId s k _
  · rfl

theorem delKey_hung (s : MState) (k : Bytes) : (delKey s k).hung = s.hung := by
  unfold delKey; split
  · exact unpersist_hung s k _
  · rfl

theorem lockW_getMeta (s : MState) (k k' : Bytes) : getMeta (lockW s k) k' = getMeta s k' := by
  unfold getMeta; rw [lockW_index]

theorem lockW_pebble (s : MState) (k : Bytes) : (lockW s k).pebble = s.pebble := by
  unfold lockW; split
  · rfl
  · split <;> rfl

theorem lockW_nextId (s : MState) (k : Bytes) : (lockW s k).nextId = s.nextId := by
  unfold lockW; split
  · rfl
  · split <;> rfl

theorem lockW_disk (s : MState) (k : Bytes) : (lockW s k).disk = s.disk := by
  unfold lockW; split
  · rfl
  · split <;> rfl

/-- `writeKey` on a record that is ok, unexpired and hot: lock, bump the access counter -/
theorem writeKey_hot_eq (s : MState) (k : Bytes) (now : Int) (mk : Option Val) (m : Meta) (v : Val)
    (hm : getMeta s k = some m) (hok : m.isOk = true) (hexp : m.expired now = false)
    (hval : m.value = some v) :
    writeKey s now k mk = (putMeta (lockW s k) k { m with count := m.count + 1 }, true) := by
  unfold writeKey
  rw [hm]
  have e1 : Meta.isOk { m with count := m.count + 1 } = true := hok
  have e2 : Meta.expired { m with count := m.count + 1 } now = false := hexp
  have e3 : m.value.isSome = true := by rw [hval]; rfl
  simp only [e1, e2, e3, if_true, Bool.false_eq_true, if_false]

/-- `writeKey` with a nil constructor on a key that is not indexed -/
theorem writeKey_absent (s : MState) (now : Int) (k : Bytes) (h : getMeta s k = none) :
    writeKey s now k none = (s, false) := by
  unfold writeKey; rw [h]

/-- `writeKey` with a nil constructor on a record that is not ok or whose deadline has passed:
    locked, access counter bumped, reported as missing -/
theorem writeKey_dead (s : MState) (now : Int) (k : Bytes) (m : Meta) (hm : getMeta s k = some m)
    (hd : m.isOk = false ∨ m.expired now = true) :
    writeKey s now k none = (putMeta (lockW s k) k { m with count := m.count + 1 }, false) := by
  unfold writeKey
  rw [hm]
  have e1 : Meta.isOk { m with count := m.count + 1 } = m.isOk := rfl
  have e2 : Meta.expired { m with count := m.count + 1 } now = m.expired now := rfl
  simp only [e1, e2]
  cases hok : m.isOk with
  | false => simp
  | true =>
    rcases hd with hd | hd
    · rw [hok] at hd; cases hd
    · simp [hd]

/-- `writeKey` with a nil constructor never touches the record of another key (nothing is created,
    unlinked or replaced; at most the looked-up record is locked, counted and loaded) -/
theorem writeKey_none_other (s : MState) (now : Int) (k k' : Bytes) (hne : k ≠ k') :
    getMeta (writeKey s now k none).1 k' = getMeta s k' := by
  unfold writeKey
  cases hg : getMeta s k with
  | none => rfl
  | some m0 =>
    simp only
    have base : getMeta (putMeta (lockW s k) k { m0 with count := m0.count + 1 }) k' = getMeta s k' := by
      rw [putMeta_other _ _ _ _ hne, lockW_getMeta]
    split
    · split
      · exact base
      · split
        · exact base
        · split
          · simp only; rw [putMeta_other _ _ _ _ hne]; exact base
          · exact base
    · exact base

/-- ... nor the backend -/
theorem writeKey_none_disk (s : MState) (now : Int) (k : Bytes) :
    (writeKey s now k none).1.disk = s.disk := by
  unfold writeKey
  cases hg : getMeta s k with
  | none => rfl
  | some m0 =>
    simp only
    have base : (putMeta (lockW s k) k { m0 with count := m0.count + 1 }).disk = s.disk :=
      lockW_disk s k
    split
    · split
      · exact base
      · split
        · exact base
        · split
          · exact base
          · exact base
    · exact base

/-- overwriting the (present) record of another key keeps what `k` holds -/
theorem putMeta_holds_other (s : MState) (k k' : Bytes) (m : Meta) (v : Val) (h : Holds s k v)
    (hne : k' ≠ k) (hp : (getMeta s k').isSome) : Holds (putMeta s k' m) k v := by
  obtain ⟨hs, m0, hm0, hv⟩ := h
  obtain ⟨e1, _⟩ := set_present k' m s.index hs hp
  exact ⟨sorted_of_keys _ _ e1.symm hs, m0, by rw [putMeta_other _ _ _ _ hne]; exact hm0, hv⟩

theorem lockW_holds (s : MState) (k k' : Bytes) (v : Val) (h : Holds s k v) : Holds (lockW s k') k v := by
  obtain ⟨hs, m0, hm0, hv⟩ := h
  exact ⟨by rw [lockW_index]; exact hs, m0, by rw [lockW_getMeta]; exact hm0, hv⟩

theorem setVal_pebble (s : MState) (k : Bytes) (v : Val) : (Api.setVal s k v).pebble = s.pebble := by
  unfold Api.setVal
  split
  · rfl
  · simp only; split <;> rfl

theorem setVal_nextId (s : MState) (k : Bytes) (v : Val) : (Api.setVal s k v).nextId = s.nextId := by
  unfold Api.setVal
  split
  · rfl
  · simp only; split <;> rfl

/-- the index after `setVal`: the record of `k` gets the value; with the in-memory backend every
    other hot record sharing the value object sees it too -/
theorem setVal_getMeta (s : MState) (k k' : Bytes) (v : Val) (m : Meta) (hm : getMeta s k = some m) :
    getMeta (Api.setVal s k v) k' =
      if s.pebble = true ∨ m.oid = 0 then getMeta (putMeta s k { m with value := some v }) k'
      else (getMeta (putMeta s k { m with value := some v }) k').map fun m' =>
        if m'.oid = m.oid ∧ m'.value.isSome = true then { m' with value := some v } else m' := by
  unfold Api.setVal
  rw [hm]
  simp only
  have hp : (putMeta s k { m with value := some v }).pebble = s.pebble := rfl
  rw [hp]
  split
  · rfl
  · let f : Bytes → Meta → Meta := fun _ m' =>
      if m'.oid = m.oid ∧ m'.value.isSome = true then { m' with value := some v } else m'
    have hf : (fun (x : Bytes × Meta) =>
        match x with
        | (k, m') => if m'.oid = m.oid ∧ m'.value.isSome = true then (k, { m' with value := some v }) else (k, m'))
        = fun p => (p.1, f p.1 p.2) := by
      funext x; obtain ⟨a, b⟩ := x; simp only [f]; split <;> rfl
    simp only [getMeta, hf, get?_map_val]
    rfl

theorem setVal_self (s : MState) (k : Bytes) (v : Val) (m : Meta) (hm : getMeta s k = some m) :
    ∃ m2, getMeta (Api.setVal s k v) k = some m2 ∧ m2.value = some v ∧ m2.oid = m.oid := by
  rw [setVal_getMeta s k k v m hm, putMeta_self]
  split
  · exact ⟨_, rfl, rfl, rfl⟩
  · simp only [Option.map_some]
    split
    · exact ⟨_, rfl, rfl, rfl⟩
    · exact ⟨_, rfl, rfl, rfl⟩

/-- no other record is touched unless it shares the value object -/
theorem setVal_other (s : MState) (k k' : Bytes) (v : Val) (m : Meta) (hm : getMeta s k = some m)
    (hne : k ≠ k')
    (hna : s.pebble = true ∨ m.oid = 0 ∨ ∀ m', getMeta s k' = some m' → m'.oid ≠ m.oid) :
    getMeta (Api.setVal s k v) k' = getMeta s k' := by
  rw [setVal_getMeta s k k' v m hm, putMeta_other _ _ _ _ hne]
  split
  · rfl
  · rename_i hc
    cases hg : getMeta s k' with
    | none => rfl
    | some m' =>
      simp only [Option.map_some, Option.some.injEq]
      have : m'.oid ≠ m.oid := by
        rcases hna with h | h | h
        · exact absurd (Or.inl h) hc
        · exact absurd (Or.inr h) hc
        · exact h m' hg
      simp [this]

theorem signal_self (s : MState) (k : Bytes) :
    getMeta (signal s k) k = (getMeta s k).map Meta.markModified := by
  unfold signal modMeta
  cases hg : getMeta s k with
  | none => exact hg
  | some m => exact putMeta_self s k _

theorem signal_other (s : MState) (k k' : Bytes) (hne : k ≠ k') :
    getMeta (signal s k) k' = getMeta s k' := by
  unfold signal modMeta
  cases hg : getMeta s k with
  | none => rfl
  | some m => exact putMeta_other s k k' _ hne

theorem signal_pebble (s : MState) (k : Bytes) : (signal s k).pebble = s.pebble := by
  unfold signal modMeta; split <;> rfl

theorem signal_nextId (s : MState) (k : Bytes) : (signal s k).nextId = s.nextId := by
  unfold signal modMeta; split <;> rfl

theorem emit_pebble (s : MState) (op : FeedOp) : (emit s op).pebble = s.pebble := by
  unfold emit; split <;> rfl

/-- the part of `rotate` that works on the source key, after `writeKey` -/
def srcPhase (s1 : MState) (src : Bytes) (l' : LList) : MState :=
  signal (if DsList.llen l' = 0 then delKey (Api.setVal s1 src (.list l')) src
          else Api.setVal s1 src (.list l')) src

theorem srcPhase_pebble (s1 : MState) (src : Bytes) (l' : LList) :
    (srcPhase s1 src l').pebble = s1.pebble := by
  unfold srcPhase; rw [signal_pebble]; split
  · rw [delKey_pebble]; exact setVal_pebble s1 src _
  · exact setVal_pebble s1 src _

theorem srcPhase_nextId (s1 : MState) (src : Bytes) (l' : LList) :
    (srcPhase s1 src l').nextId = s1.nextId := by
  unfold srcPhase; rw [signal_nextId]; split
  · rw [delKey_nextId]; exact setVal_nextId s1 src _
  · exact setVal_nextId s1 src _

theorem srcPhase_empty (s1 : MState) (src : Bytes) (l' : LList) (v0 : Val)
    (h : Holds s1 src v0) (he : DsList.llen l' = 0) : getMeta (srcPhase s1 src l') src = none := by
  unfold srcPhase
  rw [if_pos he]
  apply signal_none
  apply delKey_none
  exact (setVal_holds s1 src v0 _ h).1

theorem srcPhase_nonempty (s1 : MState) (src : Bytes) (l' : LList) (m1 : Meta)
    (hm : getMeta s1 src = some m1) (he : DsList.llen l' ≠ 0) :
    ∃ m4, getMeta (srcPhase s1 src l') src = some m4 ∧ m4.value = some (.list l') ∧ m4.oid = m1.oid := by
  unfold srcPhase
  rw [if_neg he, signal_self]
  obtain ⟨m2, h1, h2, h3⟩ := setVal_self s1 src (.list l') m1 hm
  rw [h1]
  exact ⟨_, rfl, h2, h3⟩

theorem srcPhase_other (s1 : MState) (src k' : Bytes) (l' : LList) (m1 : Meta)
    (hm : getMeta s1 src = some m1) (hne : src ≠ k')
    (hna : s1.pebble = true ∨ m1.oid = 0 ∨ ∀ m', getMeta s1 k' = some m' → m'.oid ≠ m1.oid) :
    getMeta (srcPhase s1 src l') k' = getMeta s1 k' := by
  unfold srcPhase
  rw [signal_other _ _ _ hne]
  split
  · rw [delKey_other _ _ _ hne]; exact setVal_other s1 src k' _ m1 hm hne hna
  · exact setVal_other s1 src k' _ m1 hm hne hna

/-- the part of `rotate` that works on the destination key, after its `writeKey` -/
theorem dstPhase (s5 : MState) (dst : Bytes) (v : Val) (op : FeedOp) (m5 : Meta)
    (hm : getMeta s5 dst = some m5) :
    valOf (emit (signal (Api.setVal s5 dst v) dst) op) dst = some v ∧
    ∀ k', dst ≠ k' →
      (s5.pebble = true ∨ m5.oid = 0 ∨ ∀ m', getMeta s5 k' = some m' → m'.oid ≠ m5.oid) →
      getMeta (emit (signal (Api.setVal s5 dst v) dst) op) k' = getMeta s5 k' := by
  constructor
  · unfold valOf
    rw [emit_getMeta, signal_self]
    obtain ⟨m2, h1, h2, _⟩ := setVal_self s5 dst v m5 hm
    rw [h1]; exact h2
  · intro k' hne hna
    rw [emit_getMeta, signal_other _ _ _ hne]
    exact setVal_other s5 dst k' v m5 hm hne hna

theorem newKeyWith_self (s : MState) (k : Bytes) (v : Val) :
    ∃ m, getMeta (newKeyWith s k none v) k = some m ∧ m.value = some v ∧ m.oid = s.nextId + 1 := by
  unfold newKeyWith fresh
  exact ⟨_, putMeta_self _ _ _, rfl, rfl⟩

theorem newKeyWith_other (s : MState) (k k' : Bytes) (v : Val) (hne : k ≠ k') :
    getMeta (newKeyWith s k none v) k' = getMeta s k' := by
  unfold newKeyWith fresh
  simp only
  rw [putMeta_other _ _ _ _ hne]
  split
  · unfold getMeta; rw [unpersist_index]
  · rfl

theorem newKeyWith_pebble (s : MState) (k : Bytes) (v : Val) :
    (newKeyWith s k none v).pebble = s.pebble := by
  unfold newKeyWith fresh
  simp only
  show (match (none : Option Meta), getMeta _ k with
    | none, some dead => unpersist _ k dead
    | _, _ => _).pebble = s.pebble
  split
  · rw [unpersist_pebble]
  · rfl

theorem newKeyWith_hung (s : MState) (k : Bytes) (v : Val) :
    (newKeyWith s k none v).hung = s.hung := by
  unfold newKeyWith fresh
  simp only
  show (match (none : Option Meta), getMeta _ k with
    | none, some dead => unpersist _ k dead
    | _, _ => _).hung = s.hung
  split
  · rw [unpersist_hung]
  · rfl

/-- `Api.rotate` once the source lookup, the type check of the destination (`s2`, `dok`: the nil-
    constructor lookup of `dst`) and the pop have succeeded (the keys may coincide) -/
theorem rotate_eq (left : Bool) (s s1 s2 : MState) (dok : Bool) (now : Int) (src dst : Bytes)
    (l l' : LList) (vs : List Bytes)
    (hw : writeKey s now src none = (s1, true)) (ha : Api.asList s1 src = some l)
    (hw2 : writeKey s1 now dst none = (s2, dok))
    (hchk : (dok && (Api.asList s2 dst).isNone) = false)
    (hp : (if left then DsList.lpop l 1 else DsList.rpop l 1) = (l', some vs)) :
    Api.rotate left s now src dst =
      match Api.asList (writeKey (srcPhase s2 src l') now dst (some (.list DsList.empty))).1 dst with
      | none => ((writeKey (srcPhase s2 src l') now dst (some (.list DsList.empty))).1, .panic)
      | some d =>
        (emit (signal (Api.setVal (writeKey (srcPhase s2 src l') now dst (some (.list DsList.empty))).1
            dst (.list (if left then DsList.rpush d vs else DsList.lpush d vs))) dst)
          (Api.opList (if left then 13 else 20) src [Bytes.toHex dst]), .bytes vs.head?) := by
  unfold Api.rotate
  simp only [hw, ha, hw2, hchk, hp, Bool.not_true, Bool.false_eq_true, if_false]
  rfl

/-- `Api.rotate` when the type check passes and nothing can be popped: nil, only the two lookups
    happened -/
theorem rotate_nil (left : Bool) (s s1 s2 : MState) (dok : Bool) (now : Int) (src dst : Bytes)
    (l l' : LList)
    (hw : writeKey s now src none = (s1, true)) (ha : Api.asList s1 src = some l)
    (hw2 : writeKey s1 now dst none = (s2, dok))
    (hchk : (dok && (Api.asList s2 dst).isNone) = false)
    (hp : (if left then DsList.lpop l 1 else DsList.rpop l 1) = (l', none)) :
    Api.rotate left s now src dst = (s2, .bytes none) := by
  unfold Api.rotate
  simp only [hw, ha, hw2, hchk, hp, Bool.not_true, Bool.false_eq_true, if_false]

/-- `Api.rotate` when the destination lookup reports a live record that is not a list: the command
    fails right after the two lookups, before anything is popped -/
theorem rotate_panic (left : Bool) (s s1 s2 : MState) (now : Int) (src dst : Bytes) (l : LList)
    (hw : writeKey s now src none = (s1, true)) (ha : Api.asList s1 src = some l)
    (hw2 : writeKey s1 now dst none = (s2, true)) (hn : Api.asList s2 dst = none) :
    Api.rotate left s now src dst = (s2, .panic) := by
  unfold Api.rotate
  simp only [hw, ha, hw2, hn, Bool.not_true, Bool.false_eq_true, if_false, Option.isNone_none,
    Bool.and_self, if_true]

/-- destination of a rotation from `src`: either not indexed at all (the list is then created, `d` is
    the empty list) or indexed, ok, unexpired, hot and holding the well-formed list `d`; in both
    cases its value object is not the source's value object (object ids are unique among distinct
    records of the in-memory backend; with Pebble nothing is shared) -/
def RotDst (s : MState) (src dst : Bytes) (d : LList) (now : Int) : Prop :=
  ∃ msrc, getMeta s src = some msrc ∧
  ((getMeta s dst = none ∧ d = DsList.empty ∧ (s.pebble = true ∨ msrc.oid ≠ s.nextId + 1)) ∨
   (d.WF ∧ ∃ md, getMeta s dst = some md ∧ md.isOk = true ∧ md.expired now = false ∧
      md.value = some (.list d) ∧
      (s.pebble = true ∨ md.oid ≠ msrc.oid ∨ (md.oid = 0 ∧ msrc.oid = 0))))

theorem api_rotate (left : Bool) (s : MState) (src dst : Bytes) (l d : LList) (now : Int)
    (x : Bytes) (rest : List Bytes)
    (hsrc : HotList s src l now) (hne : src ≠ dst)
    (hl : l.items = if left then x :: rest else rest ++ [x])
    (hd : RotDst s src dst d now) :
    (Api.rotate left s now src dst).2 = .bytes (some x) ∧
    (rest = [] → getMeta (Api.rotate left s now src dst).1 src = none) ∧
    (rest ≠ [] → HoldsSeq (Api.rotate left s now src dst).1 src rest) ∧
    HoldsSeq (Api.rotate left s now src dst).1 dst (if left then d.items ++ [x] else x :: d.items) := by
  obtain ⟨hsorted, hwf, msrc, hms, hok, hexp, hval⟩ := hsrc
  obtain ⟨msrc', hms', hdst⟩ := hd
  rw [hms] at hms'; cases hms'
  -- source lookup
  have hw := writeKey_hot_eq s src now none msrc (.list l) hms hok hexp hval
  generalize hs1 : putMeta (lockW s src) src { msrc with count := msrc.count + 1 } = s1 at hw
  have hm1 : getMeta s1 src = some { msrc with count := msrc.count + 1 } := by
    rw [← hs1]; exact putMeta_self _ _ _
  have hh1 : Holds s1 src (.list l) := by
    rw [← hs1]
    apply putMeta_holds
    · rw [lockW_index]; exact hsorted
    · rw [lockW_getMeta, hms]; rfl
    · exact hval
  have hd1 : getMeta s1 dst = getMeta s dst := by
    rw [← hs1, putMeta_other _ _ _ _ hne, lockW_getMeta]
  have hp1 : s1.pebble = s.pebble := by rw [← hs1]; exact lockW_pebble s src
  have hn1 : s1.nextId = s.nextId := by rw [← hs1]; exact lockW_nextId s src
  -- the type check of the destination: absent (nothing happens) or a hot list (locked, counted)
  obtain ⟨s2, dok, hw2, hchk, hm2, hh2, hp2, hn2, hdst2⟩ : ∃ s2 dok,
      writeKey s1 now dst none = (s2, dok) ∧ (dok && (Api.asList s2 dst).isNone) = false ∧
      getMeta s2 src = some { msrc with count := msrc.count + 1 } ∧ Holds s2 src (.list l) ∧
      s2.pebble = s.pebble ∧ s2.nextId = s.nextId ∧
      ((getMeta s2 dst = none ∧ d = DsList.empty ∧ (s.pebble = true ∨ msrc.oid ≠ s.nextId + 1)) ∨
       (d.WF ∧ ∃ md, getMeta s2 dst = some md ∧ md.isOk = true ∧ md.expired now = false ∧
          md.value = some (.list d) ∧
          (s.pebble = true ∨ md.oid ≠ msrc.oid ∨ (md.oid = 0 ∧ msrc.oid = 0)))) := by
    rcases hdst with ⟨hnone, hde, hfresh⟩ | ⟨hdwf, md, hmd, hdok, hdexp, hdval, hna⟩
    · have hnone1 : getMeta s1 dst = none := by rw [hd1]; exact hnone
      exact ⟨s1, false, writeKey_absent s1 now dst hnone1, rfl, hm1, hh1, hp1, hn1,
        Or.inl ⟨hnone1, hde, hfresh⟩⟩
    · have hmd1 : getMeta s1 dst = some md := by rw [hd1]; exact hmd
      refine ⟨_, true, writeKey_hot_eq s1 dst now none md (.list d) hmd1 hdok hdexp hdval, ?_, ?_, ?_,
        ?_, ?_, Or.inr ⟨hdwf, _, putMeta_self _ _ _, hdok, hdexp, hdval, hna⟩⟩
      · simp [Api.asList, valOf, putMeta_self, hdval]
      · rw [putMeta_other _ _ _ _ (Ne.symm hne), lockW_getMeta]; exact hm1
      · apply putMeta_holds_other _ _ _ _ _ (lockW_holds s1 src dst _ hh1) (Ne.symm hne)
        rw [lockW_getMeta, hmd1]; rfl
      · show (lockW s1 dst).pebble = s.pebble
        rw [lockW_pebble]; exact hp1
      · show (lockW s1 dst).nextId = s.nextId
        rw [lockW_nextId]; exact hn1
  -- the pop
  obtain ⟨l', hpop, hitems', hwf'⟩ : ∃ l', (if left then DsList.lpop l 1 else DsList.rpop l 1) = (l', some [x]) ∧
      l'.items = rest ∧ l'.WF := by
    cases left
    · simp only [Bool.false_eq_true, if_false] at hl ⊢
      obtain ⟨_, _, h3⟩ := rotate_right l DsList.empty
      obtain ⟨e1, e2, _⟩ := h3 rest x hl
      exact ⟨(DsList.rpop l 1).1, by rw [← e2], e1, rpop_wf l hwf 1⟩
    · simp only [if_true] at hl ⊢
      obtain ⟨_, _, h3⟩ := rotate_left l DsList.empty
      obtain ⟨e1, e2, _⟩ := h3 x rest hl
      exact ⟨(DsList.lpop l 1).1, by rw [← e2], e1, lpop_wf l hwf 1⟩
  have hz : DsList.llen l' = 0 ↔ rest = [] := by rw [llen_zero_iff l' hwf', hitems']
  rw [rotate_eq left s s1 s2 dok now src dst l l' [x] hw (asList_holds s1 src l hh1) hw2 hchk hpop]
  -- state after the source phase
  have hp4 : (srcPhase s2 src l').pebble = s.pebble := by rw [srcPhase_pebble, hp2]
  have hn4 : (srcPhase s2 src l').nextId = s.nextId := by rw [srcPhase_nextId, hn2]
  have hsrc4 : (rest = [] → getMeta (srcPhase s2 src l') src = none) ∧
      (rest ≠ [] → ∃ m4, getMeta (srcPhase s2 src l') src = some m4 ∧
        m4.value = some (.list l') ∧ m4.oid = msrc.oid) :=
    ⟨fun e => srcPhase_empty s2 src l' _ hh2 (hz.mpr e),
     fun e => srcPhase_nonempty s2 src l' { msrc with count := msrc.count + 1 } hm2 (fun z => e (hz.mp z))⟩
  -- destination lookup: in both cases the record is now hot with value `d`
  obtain ⟨s5, hs5, m5, hm5, hv5, hsrc5, hna5⟩ : ∃ s5,
      (writeKey (srcPhase s2 src l') now dst (some (.list DsList.empty))).1 = s5 ∧
      ∃ m5, getMeta s5 dst = some m5 ∧ m5.value = some (.list d) ∧
        getMeta s5 src = getMeta (srcPhase s2 src l') src ∧
        (s5.pebble = true ∨ m5.oid = 0 ∨ ∀ m', getMeta s5 src = some m' → m'.oid ≠ m5.oid) := by
    rcases hdst2 with ⟨hnone, hde, hfresh⟩ | ⟨_, md, hmd, hdok, hdexp, hdval, hna⟩
    · have hd4 : getMeta (srcPhase s2 src l') dst = none := by
        rw [srcPhase_other s2 src dst l' _ hm2 hne (Or.inr (Or.inr (by
          intro m' hm'; rw [hnone] at hm'; cases hm'))), hnone]
      refine ⟨_, rfl, ?_⟩
      unfold writeKey
      rw [hd4]
      simp only
      obtain ⟨m, e1, e2, e3⟩ := newKeyWith_self (srcPhase s2 src l') dst (.list DsList.empty)
      refine ⟨m, e1, by rw [e2, hde], newKeyWith_other _ _ _ _ (Ne.symm hne), ?_⟩
      rw [newKeyWith_pebble, hp4, newKeyWith_other _ _ _ _ (Ne.symm hne), e3, hn4]
      rcases hfresh with hf | hf
      · exact Or.inl hf
      · refine Or.inr (Or.inr ?_)
        intro m' hm'
        by_cases hr : rest = []
        · rw [hsrc4.1 hr] at hm'; cases hm'
        · obtain ⟨m4, g1, _, g3⟩ := hsrc4.2 hr
          rw [g1] at hm'; cases hm'; rw [g3]; exact hf
    · have hd4 : getMeta (srcPhase s2 src l') dst = some md := by
        rw [srcPhase_other s2 src dst l' _ hm2 hne ?_, hmd]
        rw [hp2, hmd]
        rcases hna with h | h | h
        · exact Or.inl h
        · exact Or.inr (Or.inr (by intro m' hm'; cases hm'; exact h))
        · exact Or.inr (Or.inl h.2)
      refine ⟨_, rfl, ?_⟩
      rw [writeKey_hot_eq _ dst now _ md (.list d) hd4 hdok hdexp hdval]
      refine ⟨_, putMeta_self _ _ _, hdval, ?_, ?_⟩
      · rw [putMeta_other _ _ _ _ (Ne.symm hne), lockW_getMeta]
      · show (lockW (srcPhase s2 src l') dst).pebble = true ∨ md.oid = 0 ∨ _
        rw [lockW_pebble, hp4, putMeta_other _ _ _ _ (Ne.symm hne), lockW_getMeta]
        rcases hna with h | h | h
        · exact Or.inl h
        · refine Or.inr (Or.inr ?_)
          intro m' hm'
          by_cases hr : rest = []
          · rw [hsrc4.1 hr] at hm'; cases hm'
          · obtain ⟨m4, g1, _, g3⟩ := hsrc4.2 hr
            rw [g1] at hm'; cases hm'; rw [g3]; exact fun e => h e.symm
        · exact Or.inr (Or.inl h.1)
  rw [hs5]
  have ha5 : Api.asList s5 dst = some d := by simp [Api.asList, valOf, hm5, hv5]
  rw [ha5]
  simp only
  obtain ⟨t1, t2⟩ := dstPhase s5 dst
    (.list (if left then DsList.rpush d [x] else DsList.lpush d [x]))
    (Api.opList (if left then 13 else 20) src [Bytes.toHex dst]) m5 hm5
  have hfin := t2 src (Ne.symm hne) hna5
  have hdwf : d.WF := by
    rcases hdst2 with ⟨_, hde, _⟩ | ⟨h, _⟩
    · rw [hde]; exact empty_wf
    · exact h
  refine ⟨rfl, ?_, ?_, ?_⟩
  · intro hr; rw [hfin, hsrc5]; exact hsrc4.1 hr
  · intro hr
    obtain ⟨m4, g1, g2, _⟩ := hsrc4.2 hr
    refine ⟨l', ?_, hwf', hitems'⟩
    unfold valOf; rw [hfin, hsrc5, g1]; exact g2
  · refine ⟨_, t1, ?_, ?_⟩
    · cases left
      · exact lpush_wf d hdwf [x]
      · exact rpush_wf d hdwf [x]
    · cases left
      · simp [lpush_eq]
      · simp [rpush_eq]

/-! ### `src = dst`: the list is rotated in place

  The second `writeKey` finds either the record the call already write-locked (reused: `lockW` is
  the identity) or, when the only element was popped, no record at all (the key was unlinked, a new
  record is created by `newKeyWith`). -/

theorem markModified_isOk (m : Meta) : m.markModified.isOk = m.isOk := by
  unfold Meta.markModified Meta.isOk
  simp only
  split
  · rfl
  · have : (m.state + 2) % 2 = m.state % 2 := by omega
    rw [this]

theorem markModified_expired (m : Meta) (now : Int) : m.markModified.expired now = m.expired now := rfl

theorem markModified_value (m : Meta) : m.markModified.value = m.value := rfl

/-- `setVal_self` keeping track of the state bits and the deadline as well -/
theorem setVal_self' (s : MState) (k : Bytes) (v : Val) (m : Meta) (hm : getMeta s k = some m) :
    ∃ m2, getMeta (Api.setVal s k v) k = some m2 ∧ m2.value = some v ∧ m2.state = m.state ∧
      m2.exp = m.exp := by
  rw [setVal_getMeta s k k v m hm, putMeta_self]
  split
  · exact ⟨_, rfl, rfl, rfl, rfl⟩
  · simp only [Option.map_some]
    split
    · exact ⟨_, rfl, rfl, rfl, rfl⟩
    · exact ⟨_, rfl, rfl, rfl, rfl⟩

/-- after the source phase a list that kept an element is still ok / unexpired / hot -/
theorem srcPhase_nonempty' (s1 : MState) (src : Bytes) (l' : LList) (m1 : Meta) (now : Int)
    (hm : getMeta s1 src = some m1) (he : DsList.llen l' ≠ 0) :
    ∃ m4, getMeta (srcPhase s1 src l') src = some m4 ∧ m4.value = some (.list l') ∧
      m4.isOk = m1.isOk ∧ m4.expired now = m1.expired now := by
  unfold srcPhase
  rw [if_neg he, signal_self]
  obtain ⟨m2, h1, h2, h3, h4⟩ := setVal_self' s1 src (.list l') m1 hm
  rw [h1]
  refine ⟨_, rfl, h2, ?_, ?_⟩
  · rw [markModified_isOk]; unfold Meta.isOk; rw [h3]
  · rw [markModified_expired]; unfold Meta.expired; rw [h4]

/-! locks held by the running call (`held`) and the self-deadlock flag (`hung`) along the way -/

theorem lockW_fresh (s : MState) (k : Bytes) (h : s.held = []) :
    (lockW s k).held = [(k, true)] ∧ (lockW s k).hung = s.hung := by
  unfold lockW
  simp [h]

theorem lockW_reuse (s : MState) (k : Bytes) (h : (k, true) ∈ s.held) : lockW s k = s := by
  unfold lockW
  have : (s.held.any fun h => decide (h.1 = k ∧ h.2 = true)) = true := by
    rw [List.any_eq_true]
    exact ⟨(k, true), h, by simp⟩
  rw [if_pos this]

theorem setVal_held (s : MState) (k : Bytes) (v : Val) : (Api.setVal s k v).held = s.held := by
  unfold Api.setVal
  split
  · rfl
  · simp only; split <;> rfl

theorem setVal_hung (s : MState) (k : Bytes) (v : Val) : (Api.setVal s k v).hung = s.hung := by
  unfold Api.setVal
  split
  · rfl
  · simp only; split <;> rfl

theorem signal_held (s : MState) (k : Bytes) : (signal s k).held = s.held := by
  unfold signal modMeta; split <;> rfl

theorem signal_hung (s : MState) (k : Bytes) : (signal s k).hung = s.hung := by
  unfold signal modMeta; split <;> rfl

theorem emit_hung (s : MState) (op : FeedOp) : (emit s op).hung = s.hung := by
  unfold emit; split <;> rfl

theorem srcPhase_hung (s1 : MState) (src : Bytes) (l' : LList) :
    (srcPhase s1 src l').hung = s1.hung := by
  unfold srcPhase; rw [signal_hung]; split
  · rw [delKey_hung]; exact setVal_hung s1 src _
  · exact setVal_hung s1 src _

theorem srcPhase_held_nonempty (s1 : MState) (src : Bytes) (l' : LList) (he : DsList.llen l' ≠ 0) :
    (srcPhase s1 src l').held = s1.held := by
  unfold srcPhase; rw [signal_held, if_neg he]; exact setVal_held s1 src _

/-- LPOPRPUSH k k / RPOPLPUSH k k on a hot non-empty list: the moved element is the reply, the key
    holds the rotated sequence (a freshly created record when the list had one element), and a call
    that started without locks is not hung -/
theorem api_rotate_same (left : Bool) (s : MState) (k : Bytes) (l : LList) (now : Int)
    (x : Bytes) (rest : List Bytes)
    (hsrc : HotList s k l now)
    (hl : l.items = if left then x :: rest else rest ++ [x]) :
    (Api.rotate left s now k k).2 = .bytes (some x) ∧
    HoldsSeq (Api.rotate left s now k k).1 k (if left then rest ++ [x] else x :: rest) ∧
    (s.held = [] → (Api.rotate left s now k k).1.hung = s.hung) := by
  obtain ⟨hsorted, hwf, msrc, hms, hok, hexp, hval⟩ := hsrc
  -- source lookup
  have hw := writeKey_hot_eq s k now none msrc (.list l) hms hok hexp hval
  have hlk : s.held = [] →
      (putMeta (lockW s k) k { msrc with count := msrc.count + 1 }).held = [(k, true)] ∧
      (putMeta (lockW s k) k { msrc with count := msrc.count + 1 }).hung = s.hung :=
    fun h => lockW_fresh s k h
  generalize hs1 : putMeta (lockW s k) k { msrc with count := msrc.count + 1 } = s1 at hw hlk
  have hm1 : getMeta s1 k = some { msrc with count := msrc.count + 1 } := by
    rw [← hs1]; exact putMeta_self _ _ _
  have hh1 : Holds s1 k (.list l) := by
    rw [← hs1]
    apply putMeta_holds
    · rw [lockW_index]; exact hsorted
    · rw [lockW_getMeta, hms]; rfl
    · exact hval
  -- the type check of the destination = a second lookup of the same record: the write lock is
  -- reused, the access counter is bumped once more
  have hw2 := writeKey_hot_eq s1 k now none { msrc with count := msrc.count + 1 } (.list l) hm1 hok
    hexp hval
  have hlk2 : s.held = [] →
      (putMeta (lockW s1 k) k { msrc with count := msrc.count + 1 + 1 }).held = [(k, true)] ∧
      (putMeta (lockW s1 k) k { msrc with count := msrc.count + 1 + 1 }).hung = s.hung := by
    intro hh
    show (lockW s1 k).held = _ ∧ (lockW s1 k).hung = _
    rw [lockW_reuse s1 k (by rw [(hlk hh).1]; simp)]
    exact hlk hh
  have hh2 : Holds (putMeta (lockW s1 k) k { msrc with count := msrc.count + 1 + 1 }) k (.list l) := by
    apply putMeta_holds
    · rw [lockW_index]; exact hh1.1
    · rw [lockW_getMeta, hm1]; rfl
    · exact hval
  generalize hs2 : putMeta (lockW s1 k) k { msrc with count := msrc.count + 1 + 1 } = s2 at hw2 hlk2 hh2
  have hm2 : getMeta s2 k = some { msrc with count := msrc.count + 1 + 1 } := by
    rw [← hs2]; exact putMeta_self _ _ _
  have hchk : (true && (Api.asList s2 k).isNone) = false := by
    rw [asList_holds s2 k l hh2]; rfl
  -- the pop
  obtain ⟨l', hpop, hitems', hwf'⟩ : ∃ l', (if left then DsList.lpop l 1 else DsList.rpop l 1) = (l', some [x]) ∧
      l'.items = rest ∧ l'.WF := by
    cases left
    · simp only [Bool.false_eq_true, if_false] at hl ⊢
      obtain ⟨_, _, h3⟩ := rotate_right l DsList.empty
      obtain ⟨e1, e2, _⟩ := h3 rest x hl
      exact ⟨(DsList.rpop l 1).1, by rw [← e2], e1, rpop_wf l hwf 1⟩
    · simp only [if_true] at hl ⊢
      obtain ⟨_, _, h3⟩ := rotate_left l DsList.empty
      obtain ⟨e1, e2, _⟩ := h3 x rest hl
      exact ⟨(DsList.lpop l 1).1, by rw [← e2], e1, lpop_wf l hwf 1⟩
  have hz : DsList.llen l' = 0 ↔ rest = [] := by rw [llen_zero_iff l' hwf', hitems']
  rw [rotate_eq left s s1 s2 true now k k l l' [x] hw (asList_holds s1 k l hh1) hw2 hchk hpop]
  -- second lookup of the same key: the record is hot with a list `d` whose elements are `rest`
  obtain ⟨s5, hs5, d, hdwf, hditems, m5, hm5, hv5, hh5⟩ : ∃ s5,
      (writeKey (srcPhase s2 k l') now k (some (.list DsList.empty))).1 = s5 ∧
      ∃ d : LList, d.WF ∧ d.items = rest ∧
      ∃ m5, getMeta s5 k = some m5 ∧ m5.value = some (.list d) ∧
        (s.held = [] → s5.hung = s.hung) := by
    by_cases hr : rest = []
    · -- the key was unlinked: it is created again
      have hd4 : getMeta (srcPhase s2 k l') k = none := srcPhase_empty s2 k l' _ hh2 (hz.mpr hr)
      refine ⟨_, rfl, DsList.empty, empty_wf, by rw [hr]; rfl, ?_⟩
      unfold writeKey
      rw [hd4]
      simp only
      obtain ⟨m, e1, e2, _⟩ := newKeyWith_self (srcPhase s2 k l') k (.list DsList.empty)
      refine ⟨m, e1, e2, ?_⟩
      intro hh
      rw [newKeyWith_hung, srcPhase_hung]; exact (hlk2 hh).2
    · -- the record is still there and already write-locked by this call: reused
      have hne0 : DsList.llen l' ≠ 0 := fun z => hr (hz.mp z)
      obtain ⟨m4, g1, g2, g3, g4⟩ :=
        srcPhase_nonempty' s2 k l' { msrc with count := msrc.count + 1 + 1 } now hm2 hne0
      refine ⟨_, rfl, l', hwf', hitems', ?_⟩
      rw [writeKey_hot_eq _ k now _ m4 (.list l') g1 (g3.trans hok) (g4.trans hexp) g2]
      refine ⟨_, putMeta_self _ _ _, g2, ?_⟩
      intro hh
      show (lockW (srcPhase s2 k l') k).hung = s.hung
      rw [lockW_reuse _ k (by rw [srcPhase_held_nonempty s2 k l' hne0, (hlk2 hh).1]; simp),
        srcPhase_hung]
      exact (hlk2 hh).2
  rw [hs5]
  have ha5 : Api.asList s5 k = some d := by simp [Api.asList, valOf, hm5, hv5]
  rw [ha5]
  simp only
  obtain ⟨t1, _⟩ := dstPhase s5 k
    (.list (if left then DsList.rpush d [x] else DsList.lpush d [x]))
    (Api.opList (if left then 13 else 20) k [Bytes.toHex k]) m5 hm5
  refine ⟨rfl, ⟨_, t1, ?_, ?_⟩, ?_⟩
  · cases left
    · exact lpush_wf d hdwf [x]
    · exact rpush_wf d hdwf [x]
  · cases left
    · simp [lpush_eq, hditems]
    · simp [rpush_eq, hditems]
  · intro hh
    rw [emit_hung, signal_hung, setVal_hung]
    exact hh5 hh

/-! ### source missing / dead / empty: nil reply -/

theorem api_rotate_absent (left : Bool) (s : MState) (now : Int) (src dst : Bytes)
    (h : getMeta s src = none) : Api.rotate left s now src dst = (s, .bytes none) := by
  unfold Api.rotate
  simp only [writeKey_absent s now src h, Bool.not_false, if_true]

theorem api_rotate_dead (left : Bool) (s : MState) (now : Int) (src dst : Bytes) (m : Meta)
    (hm : getMeta s src = some m) (hd : m.isOk = false ∨ m.expired now = true) :
    Api.rotate left s now src dst =
      (putMeta (lockW s src) src { m with count := m.count + 1 }, .bytes none) := by
  unfold Api.rotate
  simp only [writeKey_dead s now src m hm hd, Bool.not_false, if_true]

/-! ### the type check of the destination

  After the source list has been obtained, and before anything is popped, `rotate` looks `dst` up
  with a nil constructor and fails when the lookup reports a live record that is not a list. -/

/-- destinations that pass the check in state `s`: the source itself, a key that is not indexed, a
    record that is not ok or past its deadline (both reported as missing), or a hot list -/
def DstPasses (s : MState) (src dst : Bytes) (now : Int) : Prop :=
  dst = src ∨ getMeta s dst = none ∨
  (∃ md, getMeta s dst = some md ∧ (md.isOk = false ∨ md.expired now = true)) ∨
  (∃ md d, getMeta s dst = some md ∧ md.isOk = true ∧ md.expired now = false ∧
    md.value = some (.list d))

/-- a destination that fails it: an ok, unexpired, hot record whose value `v` is not a list -/
def DstWrongType (s : MState) (dst : Bytes) (v : Val) (now : Int) : Prop :=
  (∀ d, v ≠ .list d) ∧
  ∃ md, getMeta s dst = some md ∧ md.isOk = true ∧ md.expired now = false ∧ md.value = some v

/-- the destination lookup after the source lookup `s1` of a hot source: a destination that passes
    does not trip the check -/
theorem dstPasses_check (s s1 : MState) (now : Int) (src dst : Bytes) (l : LList) (msrc : Meta)
    (hms : getMeta s src = some msrc) (hok : msrc.isOk = true) (hexp : msrc.expired now = false)
    (hval : msrc.value = some (.list l)) (hsorted : AList.Sorted s.index)
    (hs1 : putMeta (lockW s src) src { msrc with count := msrc.count + 1 } = s1)
    (hd : DstPasses s src dst now) :
    ((writeKey s1 now dst none).2 && (Api.asList (writeKey s1 now dst none).1 dst).isNone) = false := by
  have hm1 : getMeta s1 src = some { msrc with count := msrc.count + 1 } := by
    rw [← hs1]; exact putMeta_self _ _ _
  by_cases hsd : dst = src
  · subst hsd
    rw [writeKey_hot_eq s1 dst now none _ (.list l) hm1 hok hexp hval]
    have : Holds (putMeta (lockW s1 dst) dst { msrc with count := msrc.count + 1 + 1 }) dst (.list l) := by
      apply putMeta_holds
      · rw [lockW_index, ← hs1]
        exact (putMeta_holds (lockW s dst) dst { msrc with count := msrc.count + 1 } (.list l) (by rw [lockW_index]; exact hsorted)
          (by rw [lockW_getMeta, hms]; rfl) hval).1
      · rw [lockW_getMeta, hm1]; rfl
      · exact hval
    show (true && (Api.asList _ dst).isNone) = false
    rw [asList_holds _ dst l this]; rfl
  · have hd1 : getMeta s1 dst = getMeta s dst := by
      rw [← hs1, putMeta_other _ _ _ _ (Ne.symm hsd), lockW_getMeta]
    rcases hd with h | h | ⟨md, hmd, h⟩ | ⟨md, d, hmd, hdok, hdexp, hdval⟩
    · exact absurd h hsd
    · rw [writeKey_absent s1 now dst (by rw [hd1]; exact h)]; rfl
    · rw [writeKey_dead s1 now dst md (by rw [hd1]; exact hmd) h]; rfl
    · rw [writeKey_hot_eq s1 dst now none md (.list d) (by rw [hd1]; exact hmd) hdok hdexp hdval]
      simp [Api.asList, valOf, putMeta_self, hdval]

/-- a (hot, indexed) list without elements as the source: the value of `src` stays, only the two
    lookups happened; the reply is nil for every destination that passes the type check (and the
    command fails for the others, see `api_rotate_wrong_type`) -/
theorem api_rotate_empty (left : Bool) (s : MState) (now : Int) (src dst : Bytes) (l : LList)
    (hsrc : HotList s src l now) (he : l.items = []) :
    ((Api.rotate left s now src dst).2 = .bytes none ∨ (Api.rotate left s now src dst).2 = .panic) ∧
    valOf (Api.rotate left s now src dst).1 src = some (.list l) ∧
    (DstPasses s src dst now → (Api.rotate left s now src dst).2 = .bytes none) := by
  obtain ⟨hsorted, hwf, msrc, hms, hok, hexp, hval⟩ := hsrc
  have hw := writeKey_hot_eq s src now none msrc (.list l) hms hok hexp hval
  have hpass := fun s1 hs1 => dstPasses_check s s1 now src dst l msrc hms hok hexp hval hsorted hs1
  generalize hs1 : putMeta (lockW s src) src { msrc with count := msrc.count + 1 } = s1 at hw
  replace hpass := hpass s1 hs1
  have hm1 : getMeta s1 src = some { msrc with count := msrc.count + 1 } := by
    rw [← hs1]; exact putMeta_self _ _ _
  have hh1 : Holds s1 src (.list l) := by
    rw [← hs1]
    apply putMeta_holds
    · rw [lockW_index]; exact hsorted
    · rw [lockW_getMeta, hms]; rfl
    · exact hval
  have hv2 : valOf (writeKey s1 now dst none).1 src = some (.list l) := by
    by_cases hsd : dst = src
    · subst hsd
      rw [writeKey_hot_eq s1 dst now none _ (.list l) hm1 hok hexp hval]
      unfold valOf; rw [putMeta_self]; exact hval
    · unfold valOf; rw [writeKey_none_other s1 now dst src hsd, hm1]; exact hval
  have hp : (if left then DsList.lpop l 1 else DsList.rpop l 1) = (l, none) := by
    cases left
    · simp only [Bool.false_eq_true, if_false]
      exact ((rotate_right l DsList.empty).2.1 he).1
    · simp only [if_true]
      exact ((rotate_left l DsList.empty).2.1 he).1
  cases hc : ((writeKey s1 now dst none).2 && (Api.asList (writeKey s1 now dst none).1 dst).isNone) with
  | false =>
    rw [rotate_nil left s s1 (writeKey s1 now dst none).1 (writeKey s1 now dst none).2 now src dst l l
      hw (asList_holds s1 src l hh1) rfl hc hp]
    exact ⟨Or.inl rfl, hv2, fun _ => rfl⟩
  | true =>
    rw [Bool.and_eq_true, Option.isNone_iff_eq_none] at hc
    have hw2 : writeKey s1 now dst none = ((writeKey s1 now dst none).1, true) := by
      rw [← hc.1]
    rw [rotate_panic left s s1 (writeKey s1 now dst none).1 now src dst l
      hw (asList_holds s1 src l hh1) hw2 hc.2]
    refine ⟨Or.inr rfl, hv2, fun hd => ?_⟩
    have := hpass hd
    rw [hc.1, hc.2] at this
    cases this

/-- the destination is a live record of another type: the command fails before anything is popped.
    The source keeps its list (whatever its elements), the destination keeps its value; the two
    records only have their access counters bumped, no other record and no backend entry changes -/
theorem api_rotate_wrong_type (left : Bool) (s : MState) (now : Int) (src dst : Bytes) (l : LList)
    (v : Val) (hsrc : HotList s src l now) (hd : DstWrongType s dst v now) :
    (Api.rotate left s now src dst).2 = .panic ∧
    valOf (Api.rotate left s now src dst).1 src = some (.list l) ∧
    valOf (Api.rotate left s now src dst).1 dst = some v ∧
    (∀ k, getMeta (Api.rotate left s now src dst).1 k =
      if k = src ∨ k = dst then (getMeta s k).map (fun m => { m with count := m.count + 1 })
      else getMeta s k) ∧
    (Api.rotate left s now src dst).1.disk = s.disk := by
  obtain ⟨hsorted, hwf, msrc, hms, hok, hexp, hval⟩ := hsrc
  obtain ⟨hnl, md, hmd, hdok, hdexp, hdval⟩ := hd
  have hne : src ≠ dst := by
    intro e; subst e
    rw [hms] at hmd; cases hmd
    rw [hval] at hdval; cases hdval
    exact hnl l rfl
  have hw := writeKey_hot_eq s src now none msrc (.list l) hms hok hexp hval
  have hm1 : getMeta (putMeta (lockW s src) src { msrc with count := msrc.count + 1 }) src =
      some { msrc with count := msrc.count + 1 } := putMeta_self _ _ _
  have hh1 : Holds (putMeta (lockW s src) src { msrc with count := msrc.count + 1 }) src (.list l) := by
    apply putMeta_holds
    · rw [lockW_index]; exact hsorted
    · rw [lockW_getMeta, hms]; rfl
    · exact hval
  have hd1 : getMeta (putMeta (lockW s src) src { msrc with count := msrc.count + 1 }) dst = some md := by
    rw [putMeta_other _ _ _ _ hne, lockW_getMeta]; exact hmd
  have hw2 := writeKey_hot_eq _ dst now none md v hd1 hdok hdexp hdval
  have hn : Api.asList (putMeta (lockW (putMeta (lockW s src) src { msrc with count := msrc.count + 1 }) dst)
      dst { md with count := md.count + 1 }) dst = none := by
    unfold Api.asList valOf
    rw [putMeta_self]
    show (match md.value with | some (.list v) => some v | _ => none) = none
    rw [hdval]
    cases v <;> first | rfl | exact absurd rfl (hnl _)
  rw [rotate_panic left s _ _ now src dst l hw (asList_holds _ src l hh1) hw2 hn]
  refine ⟨rfl, ?_, ?_, ?_, ?_⟩
  · show valOf (putMeta _ dst _) src = _
    unfold valOf; rw [putMeta_other _ _ _ _ (Ne.symm hne), lockW_getMeta, hm1]; exact hval
  · show valOf (putMeta _ dst _) dst = _
    unfold valOf; rw [putMeta_self]; exact hdval
  · intro k
    show getMeta (putMeta _ dst _) k = _
    by_cases hk2 : k = dst
    · subst hk2
      rw [putMeta_self, if_pos (Or.inr rfl), hmd]; rfl
    · rw [putMeta_other _ _ _ _ (Ne.symm hk2), lockW_getMeta]
      by_cases hk1 : k = src
      · subst hk1
        rw [putMeta_self, if_pos (Or.inl rfl), hms]; rfl
      · rw [putMeta_other _ _ _ _ (Ne.symm hk1), lockW_getMeta, if_neg (by simp [hk1, hk2])]
  · show (lockW _ dst).disk = s.disk
    rw [lockW_disk]; exact lockW_disk s src

/-- LPUSH / RPUSH on a key that is not indexed: the list is created -/
theorem api_push_create (left : Bool) (s : MState) (k : Bytes) (now : Int) (vs : List Bytes)
    (h : getMeta s k = none) :
    (Api.push left s now k vs).2 = .int (vs.length : Nat) ∧
    HoldsSeq (Api.push left s now k vs).1 k (if left then vs.reverse else vs) := by
  obtain ⟨m, e1, e2, _⟩ := newKeyWith_self s k (.list DsList.empty)
  have hw : writeKey s now k (some (.list DsList.empty)) = (newKeyWith s k none (.list DsList.empty), true) := by
    unfold writeKey; rw [h]
  have ha : Api.asList (newKeyWith s k none (.list DsList.empty)) k = some DsList.empty := by
    simp [Api.asList, valOf, e1, e2]
  unfold Api.push
  simp only [hw, ha]
  obtain ⟨t1, _⟩ := dstPhase (newKeyWith s k none (.list DsList.empty)) k
    (.list (if left then DsList.lpush DsList.empty vs else DsList.rpush DsList.empty vs))
    (Api.opList (if left then 14 else 21) k (vs.map Bytes.toHex)) m e1
  cases left
  · refine ⟨?_, _, t1, rpush_wf _ empty_wf vs, ?_⟩
    · simp [rpush_eq, DsList.llen, DsList.empty]
    · simp [rpush_eq, DsList.empty]
  · refine ⟨?_, _, t1, lpush_wf _ empty_wf vs, ?_⟩
    · simp [lpush_eq, DsList.llen, DsList.empty]
    · simp [lpush_eq, DsList.empty]

end NodisVerif.Proofs.C02
