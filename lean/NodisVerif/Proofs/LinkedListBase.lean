import NodisVerif.Model.LinkedList
/-
  Pointer-level list (Model/LinkedList.lean): the invariant, the chain predicate `Seg` (a doubly linked
  segment in the sense of separation logic, but over an explicit heap), frame lemmas, and what the heap
  primitives do to a segment.  Core only.
-/
namespace NodisVerif.LinkedList

/-- pointer to the first node of `rest`, `q` when `rest` is empty -/
def hd (rest : List Nat) (q : Option Nat) : Option Nat :=
  match rest with
  | [] => q
  | j :: _ => some j

/-- pointer to the last node of `c`, `p` when `c` is empty -/
def lst (c : List Nat) (p : Option Nat) : Option Nat :=
  match c.getLast? with
  | some x => some x
  | none => p

/-- `Seg h p c q`: the nodes `c` are linked in this order; the first one's `prev` is `p`, the last one's
    `next` is `q` -/
def Seg (h : Heap) : Option Nat → List Nat → Option Nat → Prop
  | _, [], _ => True
  | p, i :: rest, q => ∃ n, h[i]? = some n ∧ n.prev = p ∧ n.next = hd rest q ∧ Seg h (some i) rest q

/-- the invariant with its witness: `c` is the chain of live nodes from head to tail -/
structure InvC (l : PList) (c : List Nat) : Prop where
  nodup : c.Nodup
  seg : Seg l.heap none c none
  head : l.head = c.head?
  tail : l.tail = c.getLast?
  length : l.length = c.length

/-- the invariant of the doubly linked list: there is a chain of distinct heap indexes, head = first,
    tail = last (both nil iff the chain is empty), next of c[i] = c[i+1] (nil for the last), prev of
    c[i] = c[i-1] (nil for the first), length = |c| -/
def Inv (l : PList) : Prop := ∃ c, InvC l c

@[simp] theorem hd_nil (q) : hd [] q = q := rfl
@[simp] theorem hd_cons (j rest q) : hd (j :: rest) q = some j := rfl
@[simp] theorem lst_nil (p) : lst [] p = p := rfl
@[simp] theorem lst_concat (a : List Nat) (x p) : lst (a ++ [x]) p = some x := by simp [lst]
@[simp] theorem lst_singleton (x p) : lst [x] p = some x := by simp [lst]
theorem lst_cons (i : Nat) (a : List Nat) (p) : lst (i :: a) p = lst a (some i) := by
  cases a with
  | nil => simp [lst]
  | cons j a =>
    unfold lst
    rw [List.getLast?_cons_cons]
    cases hl : (j :: a).getLast? with
    | none => simp at hl
    | some x => rfl
theorem hd_none (c : List Nat) : hd c none = c.head? := by cases c <;> rfl
theorem lst_none (c : List Nat) : lst c none = c.getLast? := by
  unfold lst; cases c.getLast? <;> rfl
theorem hd_append (a b : List Nat) (q) : hd (a ++ b) q = hd a (hd b q) := by cases a <;> rfl
theorem lst_append (a b : List Nat) (p) : lst (a ++ b) p = lst b (lst a p) := by
  unfold lst
  rw [List.getLast?_append]
  cases b.getLast? <;> simp

@[simp] theorem seg_nil (h p q) : Seg h p [] q := trivial

theorem seg_cons (h : Heap) (p q) (i : Nat) (rest : List Nat) :
    Seg h p (i :: rest) q ↔ ∃ n, h[i]? = some n ∧ n.prev = p ∧ n.next = hd rest q ∧ Seg h (some i) rest q :=
  Iff.rfl

theorem seg_append (h : Heap) (a b : List Nat) (p q : Option Nat) :
    Seg h p (a ++ b) q ↔ Seg h p a (hd b q) ∧ Seg h (lst a p) b q := by
  induction a generalizing p with
  | nil => simp
  | cons i a ih =>
    simp only [List.cons_append, seg_cons, ih, hd_append, lst_cons]
    constructor
    · rintro ⟨n, h1, h2, h3, h4, h5⟩; exact ⟨⟨n, h1, h2, h3, h4⟩, h5⟩
    · rintro ⟨⟨n, h1, h2, h3, h4⟩, h5⟩; exact ⟨n, h1, h2, h3, h4, h5⟩

/-- frame: a segment only depends on its own nodes -/
theorem seg_frame (h h' : Heap) (c : List Nat) (p q : Option Nat)
    (hf : ∀ i ∈ c, h'[i]? = h[i]?) (hs : Seg h p c q) : Seg h' p c q := by
  induction c generalizing p with
  | nil => trivial
  | cons i c ih =>
    obtain ⟨n, h1, h2, h3, h4⟩ := hs
    refine ⟨n, ?_, h2, h3, ih _ (fun j hj => hf j (List.mem_cons_of_mem _ hj)) h4⟩
    rw [hf i (List.mem_cons_self ..)]; exact h1

/-- every node of a segment is in the heap -/
theorem seg_lt (h : Heap) (c : List Nat) (p q : Option Nat) (hs : Seg h p c q) : ∀ i ∈ c, i < h.size := by
  induction c generalizing p with
  | nil => intro i hi; cases hi
  | cons j c ih =>
    obtain ⟨n, h1, _, _, h4⟩ := hs
    intro i hi
    rcases List.mem_cons.mp hi with rfl | hi
    · by_cases hlt : i < h.size
      · exact hlt
      · rw [Array.getElem?_eq_none (by omega)] at h1; cases h1
    · exact ih _ h4 i hi

/-- the node in the middle of a segment -/
theorem seg_mid (h : Heap) (a b : List Nat) (x : Nat) (p q : Option Nat) (hs : Seg h p (a ++ x :: b) q) :
    ∃ n, h[x]? = some n ∧ n.prev = lst a p ∧ n.next = hd b q := by
  rw [seg_append] at hs
  obtain ⟨_, n, h1, h2, h3, _⟩ := hs
  exact ⟨n, h1, h2, h3⟩

/-- pigeonhole: a chain of distinct indexes inside the heap is no longer than the heap -/
theorem nodup_length_le (c : List Nat) (n : Nat) (hn : c.Nodup) (hlt : ∀ i ∈ c, i < n) : c.length ≤ n := by
  have := List.Nodup.length_le_of_subset (l₂ := List.range n) hn (fun i hi => List.mem_range.mpr (hlt i hi))
  simpa using this

theorem InvC.length_le {l : PList} {c : List Nat} (hi : InvC l c) : c.length ≤ l.heap.size :=
  nodup_length_le c _ hi.nodup (seg_lt _ _ _ _ hi.seg)

/-! ### heap primitives -/

theorem rd_ok {h : Heap} {i : Nat} {n : Node} (hn : h[i]? = some n) : rd h i = .ok n := by
  simp [rd, hn]
theorem setNext_ok {h : Heap} {i : Nat} {n : Node} (hn : h[i]? = some n) (v) :
    setNext h i v = .ok (h.setIfInBounds i { n with next := v }) := by simp [setNext, hn]
theorem setPrev_ok {h : Heap} {i : Nat} {n : Node} (hn : h[i]? = some n) (v) :
    setPrev h i v = .ok (h.setIfInBounds i { n with prev := v }) := by simp [setPrev, hn]
theorem setData_ok {h : Heap} {i : Nat} {n : Node} (hn : h[i]? = some n) (v) :
    setData h i v = .ok (h.setIfInBounds i { n with data := v }) := by simp [setData, hn]

theorem get_set_ne (h : Heap) (i j : Nat) (v : Node) (hne : i ≠ j) : (h.setIfInBounds i v)[j]? = h[j]? := by
  simp [hne]
theorem get_set_eq (h : Heap) (i : Nat) (n v : Node) (hn : h[i]? = some n) : (h.setIfInBounds i v)[i]? = some v := by
  have : i < h.size := by
    by_cases hlt : i < h.size
    · exact hlt
    · rw [Array.getElem?_eq_none (by omega)] at hn; cases hn
  simp [this]
theorem get_push_lt (h : Heap) (i : Nat) (v : Node) (hlt : i < h.size) : (h.push v)[i]? = h[i]? := by
  simp [Array.getElem?_push]; omega

/-- writing a node outside a segment leaves the segment alone -/
theorem seg_set_notin (h : Heap) (c : List Nat) (p q) (k : Nat) (v : Node) (hk : k ∉ c)
    (hs : Seg h p c q) : Seg (h.setIfInBounds k v) p c q :=
  seg_frame h _ c p q (fun i hi => get_set_ne h k i v (fun e => hk (e ▸ hi))) hs

/-- allocation leaves every segment alone -/
theorem seg_push (h : Heap) (c : List Nat) (p q) (v : Node) (hs : Seg h p c q) : Seg (h.push v) p c q :=
  seg_frame h _ c p q (fun i hi => get_push_lt h i v (seg_lt h c p q hs i hi)) hs

/-- `last.next = v` -/
theorem seg_setNext_last (h : Heap) (a : List Nat) (y : Nat) (p q v) (n : Node) (hy : y ∉ a)
    (hn : h[y]? = some n) (hs : Seg h p (a ++ [y]) q) :
    Seg (h.setIfInBounds y { n with next := v }) p (a ++ [y]) v := by
  rw [seg_append] at hs ⊢
  obtain ⟨h1, m, hm, hp, _, _⟩ := hs
  have : m = n := by rw [hn] at hm; cases hm; rfl
  subst this
  refine ⟨seg_set_notin h a p _ y _ hy h1, _, get_set_eq h y m _ hn, hp, rfl, trivial⟩

/-- `first.prev = v` -/
theorem seg_setPrev_first (h : Heap) (b : List Nat) (y : Nat) (p q v) (n : Node) (hy : y ∉ b)
    (hn : h[y]? = some n) (hs : Seg h p (y :: b) q) :
    Seg (h.setIfInBounds y { n with prev := v }) v (y :: b) q := by
  obtain ⟨m, hm, _, hnx, h4⟩ := hs
  have : m = n := by rw [hn] at hm; cases hm; rfl
  subst this
  exact ⟨_, get_set_eq h y m _ hn, rfl, hnx, seg_set_notin h b _ q y _ hy h4⟩

/-! ### data along a chain -/

theorem dataAt_of {h : Heap} {i : Nat} {n : Node} (hn : h[i]? = some n) : dataAt h i = n.data := by
  simp [dataAt, hn]

theorem dataAt_set_next (h : Heap) (k : Nat) (n : Node) (v) (hn : h[k]? = some n) (i : Nat) :
    dataAt (h.setIfInBounds k { n with next := v }) i = dataAt h i := by
  by_cases e : k = i
  · subst e; simp [dataAt, get_set_eq h k n _ hn, hn]
  · simp [dataAt, get_set_ne h k i _ e]
theorem dataAt_set_prev (h : Heap) (k : Nat) (n : Node) (v) (hn : h[k]? = some n) (i : Nat) :
    dataAt (h.setIfInBounds k { n with prev := v }) i = dataAt h i := by
  by_cases e : k = i
  · subst e; simp [dataAt, get_set_eq h k n _ hn, hn]
  · simp [dataAt, get_set_ne h k i _ e]
theorem dataAt_push (h : Heap) (v : Node) (i : Nat) (hlt : i < h.size) : dataAt (h.push v) i = dataAt h i := by
  simp [dataAt, get_push_lt h i v hlt]

/-! ### the walks -/

theorem walkNext_seg (h : Heap) (c : List Nat) (p : Option Nat) (fuel : Nat) (hf : c.length ≤ fuel)
    (hs : Seg h p c none) : walkNext fuel h (hd c none) = c := by
  induction c generalizing p fuel with
  | nil => cases fuel <;> rfl
  | cons i c ih =>
    obtain ⟨n, h1, _, h3, h4⟩ := hs
    cases fuel with
    | zero => simp at hf
    | succ fuel =>
      simp only [hd_cons, walkNext, h1, h3]
      rw [ih _ fuel (by simpa using hf) h4]

theorem walkPrev_seg (h : Heap) (c : List Nat) (q : Option Nat) (fuel : Nat) (hf : c.length ≤ fuel)
    (hs : Seg h none c q) : walkPrev fuel h (lst c none) = c.reverse := by
  induction fuel generalizing c q with
  | zero =>
    have : c = [] := List.eq_nil_of_length_eq_zero (by omega)
    subst this; rfl
  | succ fuel ih =>
    rcases List.eq_nil_or_concat c with rfl | ⟨a, x, rfl⟩
    · rfl
    · rw [List.concat_eq_append] at hs hf ⊢
      obtain ⟨n, h1, h2, _⟩ := seg_mid h a [] x none q hs
      rw [seg_append] at hs
      simp only [lst_concat, walkPrev, h1, h2, List.reverse_append, List.reverse_cons, List.reverse_nil,
        List.nil_append, List.cons_append, List.cons.injEq, true_and]
      exact ih a _ (by simp at hf; omega) hs.1

theorem fwdIdx_eq {l : PList} {c : List Nat} (hi : InvC l c) : fwdIdx l = c := by
  unfold fwdIdx
  rw [hi.head, ← hd_none]
  exact walkNext_seg _ c none _ (by have := hi.length_le; omega) hi.seg

theorem bwdIdx_eq {l : PList} {c : List Nat} (hi : InvC l c) : bwdIdx l = c.reverse := by
  unfold bwdIdx
  rw [hi.tail, ← lst_none]
  exact walkPrev_seg _ c none _ (by have := hi.length_le; omega) hi.seg

/-- the witness of the invariant is unique: it is the forward walk -/
theorem InvC.unique {l : PList} {c c' : List Nat} (h1 : InvC l c) (h2 : InvC l c') : c = c' := by
  rw [← fwdIdx_eq h1, ← fwdIdx_eq h2]

theorem abs_eq {l : PList} {c : List Nat} (hi : InvC l c) : abs l = c.map (dataAt l.heap) := by
  unfold abs fwd; rw [fwdIdx_eq hi]

theorem Inv.invC {l : PList} (h : Inv l) : InvC l (fwdIdx l) := by
  obtain ⟨c, hc⟩ := h
  rw [fwdIdx_eq hc]; exact hc

/-- backward walk = reverse of forward walk -/
theorem bwd_eq_reverse_fwd_of_inv {l : PList} (h : Inv l) : bwd l = (fwd l).reverse := by
  obtain ⟨c, hc⟩ := h
  unfold bwd fwd
  rw [fwdIdx_eq hc, bwdIdx_eq hc, List.map_reverse]

theorem empty_invC : InvC empty [] :=
  { nodup := List.nodup_nil, seg := trivial, head := rfl, tail := rfl, length := rfl }

end NodisVerif.LinkedList
