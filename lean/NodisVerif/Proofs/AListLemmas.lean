import NodisVerif.Model.Codec
import NodisVerif.Model.WF
/-
  Order lemmas for bytewise `<` and for key-sorted association lists.
-/
namespace NodisVerif.Proofs.AListLemmas

theorem lt_irrefl (a : Bytes) : Bytes.lt a a = false := by
  induction a with
  | nil => rfl
  | cons x xs ih => simp [Bytes.lt, ih]

theorem lt_trans : ∀ (a b c : Bytes), Bytes.lt a b = true → Bytes.lt b c = true → Bytes.lt a c = true := by
  intro a
  induction a with
  | nil =>
    intro b c h1 h2
    cases b with
    | nil => simp [Bytes.lt] at h1
    | cons y ys =>
      cases c with
      | nil => simp [Bytes.lt] at h2
      | cons z zs => simp [Bytes.lt]
  | cons x xs ih =>
    intro b c h1 h2
    cases b with
    | nil => simp [Bytes.lt] at h1
    | cons y ys =>
      cases c with
      | nil => simp [Bytes.lt] at h2
      | cons z zs =>
        simp only [Bytes.lt] at h1 h2 ⊢
        simp only [UInt8.lt_iff_toNat_lt] at h1 h2 ⊢
        by_cases hxy : x.toNat < y.toNat
        · by_cases hyz : y.toNat < z.toNat
          · have : x.toNat < z.toNat := by omega
            simp [this]
          · simp only [hyz, if_false] at h2
            by_cases hzy : z.toNat < y.toNat
            · simp [hzy] at h2
            · have : x.toNat < z.toNat := by omega
              simp [this]
        · simp only [hxy, if_false] at h1
          by_cases hyx : y.toNat < x.toNat
          · simp [hyx] at h1
          · simp only [hyx, if_false] at h1
            have hxy' : x.toNat = y.toNat := by omega
            by_cases hyz : y.toNat < z.toNat
            · have : x.toNat < z.toNat := by omega
              simp [this]
            · simp only [hyz, if_false] at h2
              by_cases hzy : z.toNat < y.toNat
              · simp [hzy] at h2
              · simp only [hzy, if_false] at h2
                have h3 : ¬ x.toNat < z.toNat := by omega
                have h4 : ¬ z.toNat < x.toNat := by omega
                simp only [h3, h4, if_false]
                exact ih ys zs h1 h2

theorem lt_asymm (a b : Bytes) (h : Bytes.lt a b = true) : Bytes.lt b a = false := by
  cases hb : Bytes.lt b a with
  | false => rfl
  | true =>
    have := lt_trans a b a h hb
    rw [lt_irrefl] at this
    cases this

theorem lt_ne (a b : Bytes) (h : Bytes.lt a b = true) : a ≠ b := by
  intro e
  subst e
  rw [lt_irrefl] at h
  cases h

theorem lt_total : ∀ (a b : Bytes), Bytes.lt a b = false → Bytes.lt b a = false → a = b := by
  intro a
  induction a with
  | nil =>
    intro b h1 h2
    cases b with
    | nil => rfl
    | cons y ys => simp [Bytes.lt] at h1
  | cons x xs ih =>
    intro b h1 h2
    cases b with
    | nil => simp [Bytes.lt] at h2
    | cons y ys =>
      simp only [Bytes.lt] at h1 h2
      simp only [UInt8.lt_iff_toNat_lt] at h1 h2
      by_cases hxy : x.toNat < y.toNat
      · simp [hxy] at h1
      · by_cases hyx : y.toNat < x.toNat
        · simp [hyx] at h2
        · simp only [hxy, hyx, if_false] at h1 h2
          have : x = y := UInt8.toNat_inj.mp (by omega)
          rw [this, ih ys h1 h2]

/-! ### sorted association lists -/

def KeyLt {V : Type} (a b : Bytes × V) : Prop := Bytes.lt a.1 b.1 = true

theorem sorted_cons {V : Type} (a : Bytes × V) : ∀ (rest : AList V), AList.Sorted (a :: rest) →
    AList.Sorted rest ∧ ∀ b ∈ rest, KeyLt a b := by
  intro rest
  induction rest generalizing a with
  | nil => intro _; exact ⟨trivial, by simp⟩
  | cons b rest ih =>
    intro h
    obtain ⟨ka, va⟩ := a
    obtain ⟨kb, vb⟩ := b
    simp only [AList.Sorted] at h
    obtain ⟨h1, h2⟩ := h
    obtain ⟨_, h4⟩ := ih (kb, vb) h2
    refine ⟨h2, ?_⟩
    intro c hc
    rcases List.mem_cons.mp hc with rfl | hc
    · exact h1
    · exact lt_trans _ _ _ h1 (h4 c hc)

theorem sorted_pairwise {V : Type} : ∀ (m : AList V), AList.Sorted m → m.Pairwise KeyLt := by
  intro m
  induction m with
  | nil => intro _; exact List.Pairwise.nil
  | cons a rest ih =>
    intro h
    obtain ⟨h1, h2⟩ := sorted_cons a rest h
    exact List.Pairwise.cons h2 (ih h1)

theorem set_append {V : Type} (key : Bytes) (v : V) : ∀ (acc : AList V),
    (∀ p ∈ acc, Bytes.lt p.1 key = true) → AList.set acc key v = acc ++ [(key, v)] := by
  intro acc
  induction acc with
  | nil => intro _; rfl
  | cons a rest ih =>
    intro h
    obtain ⟨k, w⟩ := a
    have hk : Bytes.lt k key = true := h (k, w) (by simp)
    have h1 : ¬ k = key := lt_ne _ _ hk
    have h2 : Bytes.lt key k = false := lt_asymm _ _ hk
    simp only [AList.set, h1, if_false, h2, List.cons_append, Bool.false_eq_true]
    rw [ih (fun p hp => h p (by simp [hp]))]

theorem get?_none {V : Type} (key : Bytes) : ∀ (acc : AList V),
    (∀ p ∈ acc, Bytes.lt p.1 key = true) → AList.get? acc key = none := by
  intro acc
  induction acc with
  | nil => intro _; rfl
  | cons a rest ih =>
    intro h
    obtain ⟨k, w⟩ := a
    have hk : Bytes.lt k key = true := h (k, w) (by simp)
    have h1 : ¬ k = key := lt_ne _ _ hk
    simp only [AList.get?, h1, if_false]
    exact ih (fun p hp => h p (by simp [hp]))

end NodisVerif.Proofs.AListLemmas
