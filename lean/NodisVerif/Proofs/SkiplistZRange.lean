import NodisVerif.Model.SkiplistZRange
import NodisVerif.Proofs.SkiplistZSet
import NodisVerif.Proofs.SkiplistHeader
import NodisVerif.Proofs.C04Rank
/-
  The ordered queries of ds/zset/sorted_set.go on the pointer structure (Model/SkiplistZRange.lean) refine their
  list-level mirrors in Model/DsZSet.lean: `forEachByRank` (ZRANGE / ZREVRANGE, including the nil dereferences =
  `none` on the list level), `rangeCount` (ZCOUNT) and `zRange` (ZRANGEBYSCORE / ZREVRANGEBYSCORE).

  Method: a pointer walk from a node in direction `desc` meets a list of node indexes (`PStream`); on the list level
  the walk from a `Cursor` meets `C04.ostream`. `pzWalk` / `pzScoreLoop` are functions of the pointer stream exactly as
  `DsZSet.walk` / `DsZSet.scoreLoop` are functions of the item stream (`C04.walk_eq`, `C04.scoreLoop_eq`).
-/
namespace NodisVerif.Skiplist
open NodisVerif.DsZSet (Item nodeLt)
open NodisVerif.Proofs.C04 (ILt)
open NodisVerif.Proofs.ZSetLemmas (Good)
open NodisVerif.Proofs

namespace ZR

/-! ### pointer streams -/

/-- the nodes a walk in direction `desc` meets, starting on the head of the list: every node exists and its
    `backward` (desc) / `level[0].forward` (asc) is the next one of the list, nil after the last one -/
def PStream (h : List Node) (desc : Bool) : List Nat → Prop
  | [] => True
  | n :: rest => (∃ nd, h[n]? = some nd) ∧ stepPtr h desc n = .ok rest.head? ∧ PStream h desc rest

theorem PStream.drop {h : List Node} {desc : Bool} : ∀ (S : List Nat) (k : Nat), PStream h desc S →
    PStream h desc (S.drop k)
  | [], k, _ => by simp [PStream]
  | _ :: _, 0, hs => hs
  | _ :: rest, k + 1, hs => by
    rw [List.drop_succ_cons]
    exact PStream.drop rest k hs.2.2

theorem PStream.suffix {h : List Node} {desc : Bool} (A B : List Nat) (hs : PStream h desc (A ++ B)) :
    PStream h desc B := by
  have := PStream.drop (A ++ B) A.length hs
  simpa using this

theorem itemAt_of_get {h : List Node} {n : Nat} {nd : Node} (hn : h[n]? = some nd) : itemAt h n = nd.item := by
  simp [itemAt, hn]

/-- `pzWalk` as a function of the stream: `k` iterations need `k` nodes, else the nil dereference -/
theorem pzWalk_stream (h : List Node) (desc : Bool) : ∀ (k : Nat) (S : List Nat) (acc : List Item),
    PStream h desc S →
    pzWalk h desc S.head? k acc =
      if k ≤ S.length then .ok (acc.reverse ++ (S.take k).map (itemAt h)) else .error .panic := by
  intro k
  induction k with
  | zero => intro S acc _; simp [pzWalk, pure, Except.pure]
  | succ k ih =>
    intro S acc hs
    cases S with
    | nil => simp [pzWalk, throw, throwThe, MonadExceptOf.throw]
    | cons n rest =>
      obtain ⟨⟨nd, hn⟩, hstep, hrest⟩ := hs
      simp only [List.head?_cons, pzWalk, bind, Except.bind, (getNode_ok_iff _ _ _).2 hn, hstep]
      rw [ih rest _ hrest]
      simp only [List.length_cons, Nat.add_le_add_iff_right, List.reverse_cons, List.take_succ_cons, List.map_cons,
        List.append_assoc, List.singleton_append, itemAt_of_get hn]

/-- ascending: from the header along the whole chain -/
theorem pstream_asc_split {sl : SL} {c : List Nat} (hc : IsChain sl c) : ∀ (B A : List Nat) (x : Nat),
    0 :: c = A ++ x :: B → PStream sl.heap false (x :: B) := by
  intro B
  induction B with
  | nil =>
    intro A x hs
    obtain ⟨l, hl, hf⟩ := ir_forward0 hc A x [] hs
    obtain ⟨nd, hn, _⟩ := (getLevel_ok_iff _ _ _ _).1 hl
    refine ⟨⟨nd, hn⟩, ?_, trivial⟩
    simp [stepPtr, hl, bind, Except.bind, pure, Except.pure, hf]
  | cons y B ih =>
    intro A x hs
    obtain ⟨l, hl, hf⟩ := ir_forward0 hc A x (y :: B) hs
    obtain ⟨nd, hn, _⟩ := (getLevel_ok_iff _ _ _ _).1 hl
    refine ⟨⟨nd, hn⟩, ?_, ih (A ++ [x]) y (by simpa using hs)⟩
    simp [stepPtr, hl, bind, Except.bind, pure, Except.pure, hf]

theorem pstream_asc {sl : SL} {c : List Nat} (hc : IsChain sl c) : PStream sl.heap false (0 :: c) :=
  pstream_asc_split hc c [] 0 rfl

/-- descending: the reversed chain -/
theorem pstream_desc_gen {h : List Node} : ∀ (c P : List Nat), BackLinked h P.head? c → PStream h true P →
    PStream h true (c.reverse ++ P) := by
  intro c
  induction c with
  | nil => intro P _ hp; simpa using hp
  | cons n rest ih =>
    intro P hb hp
    obtain ⟨⟨nd, hn, hback⟩, hrest⟩ := hb
    have hnp : PStream h true (n :: P) := by
      refine ⟨⟨nd, hn⟩, ?_, hp⟩
      simp [stepPtr, (getNode_ok_iff _ _ _).2 hn, bind, Except.bind, pure, Except.pure, hback]
    have := ih (n :: P) (by simpa using hrest) hnp
    simpa using this

theorem pstream_desc {sl : SL} {c : List Nat} (hc : IsChain sl c) : PStream sl.heap true c.reverse := by
  have := pstream_desc_gen (h := sl.heap) c [] (by simpa using hc.back) trivial
  simpa using this

/-- descending from the header: its `backward` is nil -/
theorem pstream_header_desc {sl : SL} (hh : HeaderOk sl) : PStream sl.heap true [0] := by
  obtain ⟨hd, h0, _, _, hb⟩ := hh
  refine ⟨⟨hd, h0⟩, ?_, trivial⟩
  simp [stepPtr, (getNode_ok_iff _ _ _).2 h0, bind, Except.bind, pure, Except.pure, hb]

/-! ### `forEachByRank` -/

/-- `// find start node` of `forEachByRank` -/
def pzStartNode (sl : SL) (size s : Int) (desc : Bool) : M (Option Nat) :=
  if desc then do
    if s > 1 then getByRank sl (size - s) else pure sl.tail
  else do
    let l0 ← getLevel sl.heap 0 0
    if s > 1 then getByRank sl s else pure l0.forward

/-- the pointer-level `forEachByRank` after the normalisation of `start` / `stop` (cf. `C04.ferCore`) -/
def pzFerCore (p : PZSet) (s e : Int) (desc : Bool) : M (List Item) := do
  let node ← pzStartNode p.sl (pzCard p) s desc
  if wrap64 (e - s) < 0 then pure [] else pzWalk p.sl.heap desc node ((wrap64 (e - s)).toNat + 1) []

theorem startNode_jp {α : Type} (sl : SL) (size s : Int) (desc : Bool) (jp : Option Nat → M α) :
    (if desc = true then
        if s > 1 then getByRank sl (size - s) >>= jp else pure sl.tail >>= jp
      else getLevel sl.heap 0 0 >>= fun l0 => if s > 1 then getByRank sl s >>= jp else pure l0.forward >>= jp)
      = pzStartNode sl size s desc >>= jp := by
  unfold pzStartNode
  cases desc
  · simp only [Bool.false_eq_true, if_false, bind, Except.bind]
    cases getLevel sl.heap 0 0 with
    | error e => rfl
    | ok l0 =>
      simp only []
      split <;> rfl
  · simp only [if_true, bind, Except.bind]
    split <;> rfl

theorem pzForEachByRank_core (p : PZSet) (start stop : Int) (desc : Bool) :
    pzForEachByRank p start stop desc =
      if start > pzCard p then pure [] else
      if C04.stop1 (pzCard p) stop < C04.start1 start then pure [] else
      pzFerCore p (if C04.start1 start < 0 then pzCard p + C04.start1 start else C04.start1 start)
        (if C04.stop1 (pzCard p) stop > pzCard p then pzCard p else C04.stop1 (pzCard p) stop) desc := by
  unfold pzForEachByRank
  simp only []
  by_cases h1 : start > pzCard p
  · rw [if_pos h1, if_pos h1]
  rw [if_neg h1, if_neg h1]
  by_cases h2 : C04.stop1 (pzCard p) stop < C04.start1 start
  · rw [if_pos h2]; exact if_pos h2
  rw [if_neg h2]
  refine (if_neg h2).trans ?_
  exact startNode_jp p.sl (pzCard p) _ desc _

/-- the start node of `forEachByRank` heads a pointer stream whose items are `C04.nodeStream` of the chain -/
theorem startNode_stream {sl : SL} {c : List Nat} (hc : IsChain sl c) (hh : HeaderOk sl) (s : Int) (desc : Bool) :
    ∃ S, pzStartNode sl (c.length : Int) s desc = .ok S.head? ∧ PStream sl.heap desc S ∧
      S.map (itemAt sl.heap) = C04.nodeStream (c.map (itemAt sl.heap)) s desc := by
  cases desc with
  | false =>
    refine ⟨c.drop (s.toNat - 1), ?_, ?_, ?_⟩
    · obtain ⟨l0, hl0, hf⟩ := ir_forward0 hc [] 0 c rfl
      unfold pzStartNode
      simp only [Bool.false_eq_true, if_false, bind, Except.bind, hl0]
      by_cases hs : s > 1
      · rw [if_pos hs, getByRank_spec hc s, if_neg (by omega), if_neg (by omega), List.head?_drop]
      · rw [if_neg hs, hf]
        have : s.toNat - 1 = 0 := by omega
        rw [this]; rfl
    · have := PStream.drop (0 :: c) (s.toNat - 1 + 1) (pstream_asc hc)
      simpa using this
    · simp [C04.nodeStream, List.map_drop]
  | true =>
    unfold pzStartNode C04.nodeStream
    simp only [if_true, List.length_map]
    by_cases hs : s > 1
    · rw [if_pos hs, if_pos hs, getByRank_spec hc]
      by_cases h1 : (c.length : Int) - s < 0
      · rw [if_pos h1, if_pos h1]
        exact ⟨[], rfl, trivial, rfl⟩
      · rw [if_neg h1, if_neg h1]
        by_cases h2 : (c.length : Int) - s = 0
        · rw [if_pos h2, if_pos h2]
          exact ⟨[0], rfl, pstream_header_desc hh, by simp [headerOk_itemAt hh]⟩
        · rw [if_neg h2, if_neg h2]
          refine ⟨(c.take ((c.length : Int) - s).toNat).reverse, ?_, ?_, ?_⟩
          · rw [List.head?_reverse, List.getLast?_take, if_neg (by omega)]
            have hlt : ((c.length : Int) - s).toNat - 1 < c.length := by omega
            rw [List.getElem?_eq_getElem hlt]; rfl
          · rw [List.reverse_take]
            exact PStream.drop _ _ (pstream_desc hc)
          · rw [List.map_reverse, List.map_take]
    · rw [if_neg hs, if_neg hs]
      exact ⟨c.reverse, by rw [List.head?_reverse, hc.tail]; rfl, pstream_desc hc, by rw [List.map_reverse]⟩

theorem pzCard_eq {p : PZSet} (h : PZInv p) {c : List Nat} (hc : IsChain p.sl c) : pzCard p = (c.length : Int) := by
  have := h.2.sameLen
  have h2 : p.toZSet.sl = c.map (itemAt p.sl.heap) := abs_eq hc
  rw [h2, List.length_map] at this
  unfold pzCard
  rw [this]; rfl

theorem pzFerCore_refines {p : PZSet} (h : PZInv p) (hh : HeaderOk p.sl) (s e : Int) (desc : Bool) :
    pzFerCore p s e desc =
      (match C04.ferCore p.toZSet s e desc with | some l => .ok l | none => .error .panic) := by
  obtain ⟨c, hc⟩ := h.1
  rw [C04.ferCore_eq _ (h.2.sameLen)]
  have hsl : p.toZSet.sl = c.map (itemAt p.sl.heap) := abs_eq hc
  rw [hsl]
  obtain ⟨S, hnode, hS, hmap⟩ := startNode_stream hc hh s desc
  unfold pzFerCore
  rw [pzCard_eq h hc, hnode]
  simp only [bind, Except.bind]
  by_cases hw : wrap64 (e - s) < 0
  · rw [if_pos hw, if_pos hw]; rfl
  · rw [if_neg hw, if_neg hw, pzWalk_stream _ _ _ _ _ hS, ← hmap, List.length_map]
    by_cases hk : (wrap64 (e - s)).toNat + 1 ≤ S.length
    · rw [if_pos hk, if_pos hk]; simp [List.map_take]
    · rw [if_neg hk, if_neg hk]

/-! ### `zRange` (by score) -/

/-- `pzScoreLoop` as a function of the stream (`C04.loopS`); any fuel that covers the stream will do on both sides -/
theorem pzScoreLoop_stream (h : List Node) (desc : Bool) (min max : F64) (mode : Nat) (limit : Int) :
    ∀ (S : List Nat), PStream h desc S → ∀ (f1 f2 : Nat) (offset : Int) (acc : List Item),
      S.length ≤ f1 → S.length ≤ f2 →
      pzScoreLoop h desc min max mode limit f1 S.head? offset acc =
        .ok (C04.loopS min max mode limit (S.map (itemAt h)) offset f2 acc) := by
  intro S
  induction S with
  | nil =>
    intro _ f1 f2 offset acc _ _
    cases f1 <;> simp [pzScoreLoop, C04.loopS, pure, Except.pure]
  | cons n rest ih =>
    intro hs f1 f2 offset acc h1 h2
    obtain ⟨⟨nd, hn⟩, hstep, hrest⟩ := hs
    obtain ⟨f1, rfl⟩ : ∃ g, f1 = g + 1 := ⟨f1 - 1, by simp at h1; omega⟩
    obtain ⟨f2, rfl⟩ : ∃ g, f2 = g + 1 := ⟨f2 - 1, by simp at h2; omega⟩
    have h1' : rest.length ≤ f1 := by simp at h1; omega
    have h2' : rest.length ≤ f2 := by simp at h2; omega
    have hit : itemAt h n = nd.item := itemAt_of_get hn
    have hsc : nd.score = nd.item.1 := rfl
    simp only [List.head?_cons, List.map_cons, pzScoreLoop, C04.loopS, bind, Except.bind,
      (getNode_ok_iff _ _ _).2 hn, hstep, hit, hsc]
    by_cases hr : (!(F64.le min nd.item.1 && F64.le nd.item.1 max)) = true
    · rw [if_pos hr, if_pos hr]; rfl
    · rw [if_neg hr, if_neg hr]
      by_cases hex : (mode % 2 = 1 ∧ F64.eq nd.item.1 min = true) ∨ (mode / 2 % 2 = 1 ∧ F64.eq nd.item.1 max = true)
      · rw [if_pos hex, if_pos hex]
        exact ih hrest f1 f2 offset acc h1' h2'
      · rw [if_neg hex, if_neg hex]
        by_cases hoff : offset > 0
        · rw [if_pos hoff, if_pos hoff]
          exact ih hrest f1 f2 (offset - 1) acc h1' h2'
        · rw [if_neg hoff, if_neg hoff]
          by_cases hlim : limit > 0 ∧ (((nd.item :: acc).length : Nat) : Int) = limit
          · rw [if_pos hlim, if_pos hlim]; rfl
          · rw [if_neg hlim, if_neg hlim]
            exact ih hrest f1 f2 offset (nd.item :: acc) h1' h2'

theorem ds_first_some {L : List Item} {min max : F64} {cu : DsZSet.Cursor}
    (h : DsZSet.getFirstInRange L min max = some cu) :
    DsZSet.cursorAt L (L.takeWhile fun n => F64.gt min n.1).length = some cu := by
  unfold DsZSet.getFirstInRange at h
  simp only at h
  split at h
  · cases h
  · split at h
    · cases h
    · rename_i c' hc'
      split at h
      · cases h
      · rw [hc']; exact h

theorem ds_last_some {L : List Item} {min max : F64} {cu : DsZSet.Cursor}
    (h : DsZSet.getLastInRange L min max = some cu) :
    DsZSet.cursorAt L ((L.takeWhile fun n => F64.ge max n.1).length - 1) = some cu := by
  unfold DsZSet.getLastInRange at h
  simp only at h
  split at h
  · cases h
  · split at h
    · cases h
    · split at h
      · cases h
      · rename_i c' hc'
        split at h
        · cases h
        · rw [hc']; exact h

theorem ds_last_nan (L : List Item) (min max : F64) (hmax : F64.isNaN max = true) :
    DsZSet.getLastInRange L min max = none := by
  unfold DsZSet.getLastInRange
  simp only
  split
  · rfl
  · have hk : (L.takeWhile fun n => F64.ge max n.1).length = 0 := by
      rw [List.length_eq_zero_iff]
      cases L with
      | nil => rfl
      | cons a l => simp [F64.ge, F64.le, hmax]
    rw [if_pos hk]

/-- the start node of `zRange` heads a pointer stream whose items are the list-level start cursor's stream; the one
    exception (NaN `max`, descending) is the header, on which the loop stops at once -/
theorem scoreStart_stream {sl : SL} {c : List Nat} (hc : IsChain sl c) (hh : HeaderOk sl) (min max : F64) (desc : Bool) :
    ∃ S, (if desc = true then getLastInRange sl min max else getFirstInRange sl min max) = .ok S.head? ∧
      PStream sl.heap desc S ∧ S.length ≤ c.length + 1 ∧
      (S.map (itemAt sl.heap) = C04.ostream desc
          (if desc = true then DsZSet.getLastInRange (abs sl) min max else DsZSet.getFirstInRange (abs sl) min max) ∨
        (F64.isNaN max = true ∧ desc = true ∧ S = [0])) := by
  have hL : abs sl = c.map (itemAt sl.heap) := abs_eq hc
  cases desc with
  | false =>
    simp only [Bool.false_eq_true, if_false]
    obtain ⟨r, hr, hmap, hpos⟩ := getFirstInRange_spec hc min max
    rw [hr]
    cases r with
    | none =>
      refine ⟨[], rfl, trivial, by simp, Or.inl ?_⟩
      cases hd : DsZSet.getFirstInRange (abs sl) min max with
      | none => rfl
      | some cu => rw [hd] at hmap; cases hmap
    | some n =>
      obtain ⟨j, hj, hjk⟩ := hpos n rfl
      refine ⟨c.drop j, by rw [List.head?_drop, hj], ?_, by simp; omega, Or.inl ?_⟩
      · have := PStream.drop (0 :: c) (j + 1) (pstream_asc hc)
        simpa using this
      · cases hd : DsZSet.getFirstInRange (abs sl) min max with
        | none => rw [hd] at hmap; cases hmap
        | some cu =>
          rw [← ds_first_some hd, C04.ostream_cursorAt_asc, hL, List.map_drop, hjk]
  | true =>
    simp only [if_true]
    by_cases hmax : F64.isNaN max = true
    · rw [ds_last_nan _ _ _ hmax]
      by_cases hir : DsZSet.hasInRange (abs sl) min max = true
      · obtain ⟨hd, h0, hg, _⟩ := getLastInRange_nan_max hc min max hmax hir
        rw [hg]
        by_cases hgt : F64.gt min hd.score = true
        · rw [if_pos hgt]
          exact ⟨[], rfl, trivial, by simp, Or.inl rfl⟩
        · rw [if_neg hgt]
          exact ⟨[0], rfl, pstream_header_desc hh, by simp, Or.inr ⟨hmax, trivial, rfl⟩⟩
      · refine ⟨[], ?_, trivial, by simp, Or.inl rfl⟩
        unfold getLastInRange
        rw [hasInRange_chain hc]
        simp only [Bool.not_eq_true] at hir
        simp [hir, bind, Except.bind, pure, Except.pure]
    · simp only [Bool.not_eq_true] at hmax
      obtain ⟨r, hr, hmap, _, hpos⟩ := getLastInRange_spec hc min max hmax
      rw [hr]
      cases r with
      | none =>
        refine ⟨[], rfl, trivial, by simp, Or.inl ?_⟩
        cases hd : DsZSet.getLastInRange (abs sl) min max with
        | none => rfl
        | some cu => rw [hd] at hmap; cases hmap
      | some n =>
        obtain ⟨j, hj, hjk⟩ := hpos n rfl
        have hjlt : j < c.length := (List.getElem?_eq_some_iff.1 hj).1
        refine ⟨(c.take (j + 1)).reverse, ?_, ?_, by simp; omega, Or.inl ?_⟩
        · rw [List.head?_reverse, List.getLast?_take, if_neg (by omega)]
          simp [hj]
        · rw [List.reverse_take]
          exact PStream.drop _ _ (pstream_desc hc)
        · cases hd : DsZSet.getLastInRange (abs sl) min max with
          | none => rw [hd] at hmap; cases hmap
          | some cu =>
            rw [← ds_last_some hd, hL, ← hjk, Nat.add_sub_cancel, C04.ostream_cursorAt_desc, List.length_map,
              if_pos hjlt, List.map_reverse, List.map_take]

end ZR

/-- ZRANGE / ZREVRANGE on the pointer structure = the list-level `forEachByRank`; the list level's `none` (nil
    dereference of the Go code) is exactly the pointer level's panic -/
theorem pzForEachByRank_refines {p : PZSet} (h : PZInv p) (hh : HeaderOk p.sl) (start stop : Int) (desc : Bool) :
    pzForEachByRank p start stop desc =
      (match DsZSet.forEachByRank p.toZSet start stop desc with | some l => .ok l | none => .error .panic) := by
  rw [ZR.pzForEachByRank_core, C04.forEachByRank_core]
  have hcard : DsZSet.zCard p.toZSet = pzCard p := rfl
  rw [hcard]
  by_cases h1 : start > pzCard p
  · rw [if_pos h1, if_pos h1]; rfl
  rw [if_neg h1, if_neg h1]
  by_cases h2 : C04.stop1 (pzCard p) stop < C04.start1 start
  · rw [if_pos h2, if_pos h2]; rfl
  rw [if_neg h2, if_neg h2]
  exact ZR.pzFerCore_refines h hh _ _ desc

theorem pzRange_refines {p : PZSet} (h : PZInv p) (hh : HeaderOk p.sl) (a b : Int) :
    pzRange p a b = (match DsZSet.zRange p.toZSet a b with | some l => .ok l | none => .error .panic) :=
  pzForEachByRank_refines h hh a b false

theorem pzRevRange_refines {p : PZSet} (h : PZInv p) (hh : HeaderOk p.sl) (a b : Int) :
    pzRevRange p a b = (match DsZSet.zRevRange p.toZSet a b with | some l => .ok l | none => .error .panic) :=
  pzForEachByRank_refines h hh a b true

/-- ZCOUNT -/
theorem pzCount_refines {p : PZSet} (h : PZInv p) (hh : HeaderOk p.sl) (min max : F64) (mode : Nat) :
    pzCount p min max mode =
      (match DsZSet.zCount p.toZSet min max mode with | some n => .ok n | none => .error .panic) := by
  unfold pzCount DsZSet.zCount
  have hcard : DsZSet.zCard p.toZSet = pzCard p := rfl
  rw [pzForEachByRank_refines h hh, hcard]
  cases DsZSet.forEachByRank p.toZSet 0 (pzCard p) false with
  | none => rfl
  | some l => rfl

/-- ZRANGEBYSCORE / ZREVRANGEBYSCORE on the pointer structure = the list-level `rangeByScore`: never a panic, never
    out of fuel. (NaN `max`, descending: the pointer code starts on the header, whose score 0 fails
    `min <= 0 && 0 <= NaN`, so both sides answer `[]`.) -/
theorem pzRangeByScore_refines {p : PZSet} (h : PZInv p) (hh : HeaderOk p.sl) (min max : F64) (offset limit : Int)
    (desc : Bool) (mode : Nat) :
    pzRangeByScore p min max offset limit desc mode =
      .ok (DsZSet.rangeByScore p.toZSet min max offset limit desc mode) := by
  obtain ⟨c, hc⟩ := h.1
  unfold pzRangeByScore DsZSet.rangeByScore
  by_cases h0 : limit = 0 ∨ offset < 0
  · rw [if_pos h0, if_pos h0]; rfl
  rw [if_neg h0, if_neg h0]
  obtain ⟨S, hstart, hS, hlen, hmap⟩ := ZR.scoreStart_stream hc hh min max desc
  have hsl : p.toZSet.sl = abs p.sl := rfl
  have hL : abs p.sl = c.map (itemAt p.sl.heap) := abs_eq hc
  have hloop := ZR.pzScoreLoop_stream p.sl.heap desc min max mode limit S hS (p.sl.heap.length + 1)
    ((abs p.sl).length + 1) offset [] (by have := hc.size; omega) (by rw [hL, List.length_map]; exact hlen)
  have hgoal : ((if desc = true then getLastInRange p.sl min max else getFirstInRange p.sl min max) >>= fun start =>
      pzScoreLoop p.sl.heap desc min max mode limit (p.sl.heap.length + 1) start offset []) =
      Except.ok (C04.loopS min max mode limit (S.map (itemAt p.sl.heap)) offset ((abs p.sl).length + 1) []) := by
    rw [hstart]; exact hloop
  refine Eq.trans ?_ (hgoal.trans ?_)
  · cases desc <;> rfl
  · simp only [C04.scoreLoop_eq, hsl]
    rcases hmap with hmap | ⟨hmax, hd, rfl⟩
    · rw [hmap]
    · subst hd
      simp only [if_true, ZR.ds_last_nan _ _ _ hmax, List.map_cons, List.map_nil, headerOk_itemAt hh]
      simp [C04.loopS, C04.ostream, DsZSet.headerItem, F64.le, hmax]

/-- a concrete instance on the structure built by the model itself (two members): the window `ZRANGE -5 -1` walks past
    the end of the chain (nil dereference) on the pointer level exactly where the list level answers `none`
    (findings A-41), and `ZREVRANGE 2 2` reads the header's item (finding A-41b) -/
example :
    (do let (p, _) ← pzAdd PZSet.empty [97] 0x3FF0000000000000 2
        let (p, _) ← pzAdd p [98] 0x4000000000000000 1
        let r1 := pzRange p (-5) (-1)
        let r2 := DsZSet.zRange p.toZSet (-5) (-1)
        let r3 ← pzRevRange p 2 2
        pure (r1, r2, r3)) = .ok (.error .panic, none, [(0, [])]) := by
  rfl

end NodisVerif.Skiplist
