import NodisVerif.Model.Feed
import Std.Data.String.ToInt
/-
  C20: the textual fields of a change record parse back to the value they were rendered from
  (`Feed.pB`, `pI`, `pF`, `pT` are left inverses of `Bytes.toHex` / `toString`).
-/
namespace NodisVerif.Proofs.C20
open NodisVerif

theorem pI_toString (n : Int) : Feed.pI (toString n) = some n := by
  show (Int.repr n).toInt? = some n
  exact Int.toInt?_repr n

theorem pF_toString (x : F64) : Feed.pF (toString x) = some x := by
  show ((Nat.repr x.toNat).toNat?).map UInt64.ofNat = some x
  rw [Nat.toNat?_repr]
  simp

@[simp] theorem pI_repr (n : Int) : Feed.pI n.repr = some n := pI_toString n
@[simp] theorem pF_repr (x : F64) : Feed.pF x.toNat.repr = some x := pF_toString x

theorem pT_toString (b : Bool) : Feed.pT (toString b) = some b := by
  cases b <;> decide

/-! ### hex -/

def hexChars (b : Bytes) : List Char :=
  b.flatMap fun x => [Bytes.hexDigit (x.toNat / 16), Bytes.hexDigit (x.toNat % 16)]

theorem hexDigit_cases (n : Nat) (h : n < 16) :
    Bytes.hexVal (Bytes.hexDigit n) = some n ∧ Bytes.hexDigit n ≠ 'r' ∧ Bytes.hexDigit n ≠ 'x' ∧
    Bytes.hexDigit n ≠ '-' := by
  have : n = 0 ∨ n = 1 ∨ n = 2 ∨ n = 3 ∨ n = 4 ∨ n = 5 ∨ n = 6 ∨ n = 7 ∨ n = 8 ∨ n = 9 ∨ n = 10 ∨
      n = 11 ∨ n = 12 ∨ n = 13 ∨ n = 14 ∨ n = 15 := by omega
  rcases this with h | h | h | h | h | h | h | h | h | h | h | h | h | h | h | h <;> subst h <;> decide

theorem ofHexChars_hexChars (b : Bytes) : Bytes.ofHexChars (hexChars b) = some b := by
  induction b with
  | nil => rfl
  | cons x rest ih =>
    have h1 := (hexDigit_cases (x.toNat / 16) (by have := x.toNat_lt; omega)).1
    have h2 := (hexDigit_cases (x.toNat % 16) (by omega)).1
    show Bytes.ofHexChars (_ :: _ :: hexChars rest) = _
    simp only [Bytes.ofHexChars, h1, h2, ih, Option.bind_eq_bind, Option.bind_some, Option.pure_def]
    congr 2
    have : x.toNat / 16 * 16 + x.toNat % 16 = x.toNat := by omega
    rw [this]
    exact UInt8.ofNat_toNat

theorem hexChars_no (b : Bytes) : ∀ c ∈ hexChars b, c ≠ 'r' ∧ c ≠ 'x' ∧ c ≠ '-' := by
  intro c hc
  simp only [hexChars, List.mem_flatMap, List.mem_cons, List.not_mem_nil, or_false] at hc
  obtain ⟨x, _, rfl | rfl⟩ := hc
  · exact (hexDigit_cases _ (by have := x.toNat_lt; omega)).2
  · exact (hexDigit_cases _ (by omega)).2

theorem pB_toHex (b : Bytes) : Feed.pB (Bytes.toHex b) = some b := by
  unfold Feed.pB Wire.parseArg Bytes.toHex
  cases b with
  | nil =>
    have h1 : ("-" : String).startsWith "r" = false := by simp
    have h2 : ("-" : String).startsWith "c" = false := by simp
    simp [h1, h2, Bytes.ofHex]
  | cons x rest =>
    have hno := hexChars_no (x :: rest)
    simp only [List.isEmpty_cons, Bool.false_eq_true, if_false]
    change (if (String.ofList (hexChars (x :: rest))).startsWith "r" = true ∨
        (String.ofList (hexChars (x :: rest))).startsWith "c" = true then
        if (String.ofList (hexChars (x :: rest))).contains 'x' = true then
          Wire.parsePattern (String.ofList (hexChars (x :: rest)))
        else Bytes.ofHex (String.ofList (hexChars (x :: rest)))
      else Bytes.ofHex (String.ofList (hexChars (x :: rest)))) = some (x :: rest)
    have hx : (String.ofList (hexChars (x :: rest))).contains 'x' = false := by
      rw [String.contains_char_eq]
      simp only [String.toList_ofList, decide_eq_false_iff_not]
      intro hc
      exact (hno _ hc).2.1 rfl
    have hhex : Bytes.ofHex (String.ofList (hexChars (x :: rest))) = some (x :: rest) := by
      unfold Bytes.ofHex
      have hne : (String.ofList (hexChars (x :: rest)) == "-") = false := by
        rw [beq_eq_false_iff_ne]
        intro hc
        have := congrArg String.toList hc
        simp only [String.toList_ofList] at this
        have hm : '-' ∈ hexChars (x :: rest) := by rw [this]; decide
        exact (hno _ hm).2.2 rfl
      simp only [hne, Bool.false_eq_true, if_false, String.toList_ofList]
      exact ofHexChars_hexChars _
    simp only [hx, Bool.false_eq_true, if_false, hhex, ite_self]

theorem mapM_pB_toHex (bs : List Bytes) : (bs.map Bytes.toHex).mapM Feed.pB = some bs := by
  induction bs with
  | nil => rfl
  | cons b rest ih => simp [List.mapM_cons, pB_toHex, ih]

@[simp] theorem mapM_pB_comp (bs : List Bytes) : List.mapM (Feed.pB ∘ Bytes.toHex) bs = some bs := by
  induction bs with
  | nil => rfl
  | cons b rest ih => simp [List.mapM_cons, pB_toHex, ih]

theorem mapM_pF_toString (ws : List F64) : (ws.map toString).mapM Feed.pF = some ws := by
  induction ws with
  | nil => rfl
  | cons b rest ih => simp [List.mapM_cons, pF_toString, ih]

end NodisVerif.Proofs.C20
