import NodisVerif.Proofs.C20SMove
/-
  C20, LPopRPush / RPopLPush (`rotate`): two keys; the record is the rotation itself (source key,
  destination in the fields), the replica, showing the same two lists, rotates too.
-/
namespace NodisVerif.Proofs.C20
open NodisVerif NodisVerif.Store NodisVerif.Spec.Persist NodisVerif.Proofs.C11
open NodisVerif.Proofs.AListLemmas NodisVerif.Proofs.AListLemmas2

variable {now : Int} {p r : MState}

def rotPop (left : Bool) (l : LList) : LList × Option (List Bytes) :=
  if left then DsList.lpop l 1 else DsList.rpop l 1

/-- the silent removal from the source -/
def rotRemAct (l' : LList) : Act :=
  if DsList.llen l' = 0 then .drop (.list l') [] .unit else .put (some (.list l')) none [] .unit

def opRotate (left : Bool) (src dst : Bytes) : FeedOp :=
  Api.opList (if left then 13 else 20) src [Bytes.toHex dst]

def decRotAdd (left : Bool) (src dst : Bytes) (vs : List Bytes) (v : Val) (_ : Int) : Act :=
  match v with
  | .list d =>
    .put (some (.list (if left then DsList.rpush d vs else DsList.lpush d vs))) none [opRotate left src dst]
      (.bytes vs.head?)
  | _ => .keep .panic

def rotAddF (left : Bool) (src dst : Bytes) (vs : List Bytes) : TxForm :=
  ⟨true, some (.list DsList.empty), .unit, Cmd.pan, decRotAdd left src dst vs, dst⟩

theorem rotAddF_ok (left : Bool) (src dst : Bytes) (vs : List Bytes) (hvs : ∀ v ∈ vs, v.length < 2 ^ 63) :
    (rotAddF left src dst vs).OK := by
  refine ⟨(fun h => nomatch h), (fun w h => by cases h; exact good_emptyList), fun w e hg _ => ?_⟩
  cases w with
  | list d =>
    refine ⟨(fun w hw => ?_), (fun e he => by cases he)⟩
    cases hw
    have := good_push (!left) d vs hg hvs
    cases left <;> simpa using this
  | _ => trivial

theorem rotAddF_nilSafe (left : Bool) (src dst : Bytes) (vs : List Bytes) : (rotAddF left src dst vs).NilSafe := by
  apply nilSafe_of
  · intro v e hv; cases v <;> simp_all [rotAddF, decRotAdd]
  · intro v0 h0
    simp only [rotAddF, Option.some.injEq] at h0
    subst h0
    simp [rotAddF, decRotAdd]

theorem rotate_eq (left : Bool) (s : MState) (now : Int) (src dst : Bytes) :
    Api.rotate left s now src dst =
      (if !(writeKey s now src none).2 then ((writeKey s now src none).1, .bytes none) else
       match Api.asList (writeKey s now src none).1 src with
       | none => ((writeKey s now src none).1, .panic)
       | some l =>
         if (writeKey (writeKey s now src none).1 now dst none).2 &&
             (Api.asList (writeKey (writeKey s now src none).1 now dst none).1 dst).isNone then
           ((writeKey (writeKey s now src none).1 now dst none).1, .panic) else
         match (rotPop left l).2 with
         | none => ((writeKey (writeKey s now src none).1 now dst none).1, .bytes none)
         | some vs =>
           (rotAddF left src dst vs).run
             (runAct (writeKey (writeKey s now src none).1 now dst none).1 src (rotRemAct (rotPop left l).1)).1 now) := by
  unfold Api.rotate
  generalize writeKey s now src none = r1
  obtain ⟨s1, ok⟩ := r1
  simp only
  cases ok with
  | false => rfl
  | true =>
    simp only [Bool.not_true, Bool.false_eq_true, if_false]
    cases Api.asList s1 src with
    | none => rfl
    | some l =>
      simp only
      generalize writeKey s1 now dst none = r2
      obtain ⟨s2, dok⟩ := r2
      simp only
      split
      · rfl
      · have hp : (if left = true then DsList.lpop l 1 else DsList.rpop l 1) = rotPop left l := rfl
        rw [hp]
        generalize rotPop left l = pr
        obtain ⟨l', rr⟩ := pr
        cases rr with
        | none => rfl
        | some vs =>
          simp only
          have hs3 : (runAct s2 src (rotRemAct l')).1 =
              signal (if DsList.llen l' = 0 then delKey (Api.setVal s2 src (.list l')) src
                else Api.setVal s2 src (.list l')) src := by
            unfold rotRemAct
            split <;> rfl
          rw [hs3]
          generalize (signal (if DsList.llen l' = 0 then delKey (Api.setVal s2 src (.list l')) src
                else Api.setVal s2 src (.list l')) src) = s3
          refine Eq.trans ?_ (create_shape s3 now dst _ _ _ _ (fun s4 => match Api.asList s4 dst with
            | none => (s4, .panic)
            | some d =>
              (emit (signal (Api.setVal s4 dst (.list (if left then DsList.rpush d vs else DsList.lpush d vs))) dst)
                (opRotate left src dst), .bytes vs.head?)) ?_)
          · rfl
          · intro s4; simp only [Api.asList]
            cases valOf s4 dst with
            | none => rfl
            | some v => cases v <;> rfl

end NodisVerif.Proofs.C20

namespace NodisVerif.Proofs.C20
open NodisVerif NodisVerif.Store NodisVerif.Spec.Persist NodisVerif.Proofs.C11
open NodisVerif.Proofs.AListLemmas NodisVerif.Proofs.AListLemmas2

variable {now : Int} {p r : MState}

theorem rotPop_sub (left : Bool) (l : LList) (vs : List Bytes) (h : (rotPop left l).2 = some vs) :
    ∀ v ∈ vs, v ∈ l.items := by
  unfold rotPop at h
  cases left with
  | true =>
    simp only [if_true, DsList.lpop] at h
    split at h
    · cases h
    · split at h
      · cases h
      · simp only [Option.some.injEq] at h; subst h
        intro v hv; exact List.mem_of_mem_take hv
  | false =>
    simp only [Bool.false_eq_true, if_false, DsList.rpop] at h
    split at h
    · cases h
    · split at h
      · cases h
      · simp only [Option.some.injEq] at h; subst h
        intro v hv; exact List.mem_of_mem_drop (List.mem_reverse.mp hv)

/-- what the rotation moves, given what the two names show (`none` = nothing happens) -/
def rotMoves (left : Bool) (K : Bytes → Option (Val × Int)) (src dst : Bytes) : Option (List Bytes) :=
  match K src with
  | some (.list l, _) =>
    (match K dst with
     | none => (rotPop left l).2
     | some (.list _, _) => (rotPop left l).2
     | some _ => none)
  | _ => none

def popPost (now : Int) (left : Bool) (src : Bytes) (L : Option (Val × Int)) : Option (Val × Int) :=
  (popF' now left src 1).post now L

/-- the logical keyspace after the rotation -/
def rotateK (now : Int) (K : Bytes → Option (Val × Int)) (left : Bool) (src dst : Bytes)
    (moves : Option (List Bytes)) : Bytes → Option (Val × Int) :=
  match moves with
  | none => K
  | some vs =>
    upd (upd K src (popPost now left src (K src))) dst
      ((rotAddF left src dst vs).post now (upd K src (popPost now left src (K src)) dst))

theorem rotate_spec (left : Bool) {s : MState} (h : StoreInv s now) (src dst : Bytes) :
    StoreInv (Api.rotate left s now src dst).1 now ∧
    (∀ k', lookup (Api.rotate left s now src dst).1 now k' =
      rotateK now (lookup s now) left src dst (rotMoves left (lookup s now) src dst) k') ∧
    (s.listeners = true → fl (Api.rotate left s now src dst).1 =
      ((match rotMoves left (lookup s now) src dst with
        | some _ => [opRotate left src dst] | none => []) ++ s.feed, true)) := by
  rw [rotate_eq]
  have ht : now ≤ now := Int.le_refl now
  have ks1 := writeKey_spec h ht src none (fun _ hc => nomatch hc)
  have hfl1 := fl_writeKey s now src none
  generalize writeKey s now src none = r1 at ks1 hfl1
  obtain ⟨s1, ok⟩ := r1
  simp only at hfl1 ⊢
  have stay : ∀ (sX : MState), StoreInv sX now → (∀ k', lookup sX now k' = lookup s now k') → fl sX = fl s →
      rotMoves left (lookup s now) src dst = none →
      StoreInv sX now ∧
        (∀ k', lookup sX now k' = rotateK now (lookup s now) left src dst (rotMoves left (lookup s now) src dst) k') ∧
        (s.listeners = true → fl sX = ((match rotMoves left (lookup s now) src dst with
          | some _ => [opRotate left src dst] | none => []) ++ s.feed, true)) := by
    intro sX hi hlk hf hno
    rw [hno]
    refine ⟨hi, fun k' => by simp [rotateK, hlk k'], fun hl => ?_⟩
    rw [hf]; simp [fl, hl]
  cases hL : lookup s now src with
  | none =>
    obtain ⟨hok, hl⟩ := ks1.miss hL rfl
    simp only at hok
    simp only [hok, Bool.not_false, if_true]
    refine stay s1 ks1.inv (fun k' => ?_) hfl1 (by simp [rotMoves, hL])
    by_cases hk : k' = src
    · subst hk; rw [hl now ht, hL]
    · exact ks1.other now ht k' hk
  | some c =>
    obtain ⟨v, es⟩ := c
    obtain ⟨hok, hl, m, hm, hv, he, _⟩ := ks1.hit v es hL
    simp only at hok hm
    simp only [hok, Bool.not_true, Bool.false_eq_true, if_false]
    have hsame1 : ∀ k', lookup s1 now k' = lookup s now k' := by
      intro k'
      by_cases hk : k' = src
      · subst hk; rw [hl now ht]
      · exact ks1.other now ht k' hk
    have hvo : valOf s1 src = some v := by simp [valOf, getMeta, hm, hv]
    by_cases hnl : ¬ ∃ l, v = .list l
    · have hz : Api.asList s1 src = none := by
        cases v <;> first | (exact absurd ⟨_, rfl⟩ hnl) | simp [Api.asList, hvo]
      simp only [hz]
      refine stay s1 ks1.inv hsame1 hfl1 ?_
      cases v <;> first | (exact absurd ⟨_, rfl⟩ hnl) | simp [rotMoves, hL]
    obtain ⟨l, rfl⟩ : ∃ l, v = .list l := Classical.not_not.mp hnl
    have hz : Api.asList s1 src = some l := by simp [Api.asList, hvo]
    simp only [hz]
    have ks2 := writeKey_spec ks1.inv ht dst none (fun _ hc => nomatch hc)
    have hfl2 := fl_writeKey s1 now dst none
    have oi2 := writeKey_otherIdx s1 now dst none src
    generalize writeKey s1 now dst none = r2 at ks2 hfl2 oi2
    obtain ⟨s2, dok⟩ := r2
    simp only at hfl2 oi2 ⊢
    have hfl2' : fl s2 = fl s := hfl2.trans hfl1
    have hsame2 : ∀ k', lookup s2 now k' = lookup s now k' := by
      intro k'
      rw [← hsame1 k']
      by_cases hk : k' = dst
      · subst hk
        cases hL2 : lookup s1 now k' with
        | none => have := (ks2.miss hL2 rfl).2 now ht; simp only at this; rw [this, hL2]
        | some c2 => have := (ks2.hit c2.1 c2.2 hL2).2.1 now ht; simp only at this; rw [this, hL2]
      · exact ks2.other now ht k' hk
    have hsrc2 : ∃ m2, AList.get? s2.index src = some m2 ∧ m2.value = some (.list l) ∧ m2.exp = es := by
      by_cases hk : src = dst
      · subst hk
        have hL2 : lookup s1 now src = some (.list l, es) := by rw [hsame1]; exact hL
        obtain ⟨_, _, m2, hm2, hv2, he2, _⟩ := ks2.hit _ _ hL2
        exact ⟨m2, hm2, hv2, he2⟩
      · exact ⟨m, by rw [oi2 hk]; exact hm, hv, he⟩
    obtain ⟨m2, hm2, hv2, he2⟩ := hsrc2
    have hchk : (dok && (Api.asList s2 dst).isNone) = true ↔
        ∃ vd ed, lookup s now dst = some (vd, ed) ∧ ∀ d, vd ≠ .list d := by
      cases hLd : lookup s1 now dst with
      | none =>
        have := (ks2.miss hLd rfl).1
        simp only at this
        rw [hsame1] at hLd
        simp [this, hLd]
      | some cd =>
        obtain ⟨vd, ed⟩ := cd
        obtain ⟨hdok, _, md, hmd, hvd, _, _⟩ := ks2.hit vd ed hLd
        simp only at hdok hmd
        have hvod : valOf s2 dst = some vd := by simp [valOf, getMeta, hmd, hvd]
        rw [hsame1] at hLd
        cases vd <;> simp [hdok, Api.asList, hvod, hLd]
    by_cases hbad : (dok && (Api.asList s2 dst).isNone) = true
    · simp only [hbad, if_true]
      obtain ⟨vd, ed, h1, h2⟩ := hchk.mp hbad
      refine stay s2 ks2.inv hsame2 hfl2' ?_
      cases vd <;> first | (exact absurd rfl (h2 _)) | simp [rotMoves, hL, h1]
    · simp only [hbad, Bool.false_eq_true, if_false]
      have hdstok : lookup s now dst = none ∨ ∃ d ed, lookup s now dst = some (.list d, ed) := by
        cases hLd : lookup s now dst with
        | none => left; rfl
        | some cd =>
          obtain ⟨vd, ed⟩ := cd
          right
          cases vd with
          | list d => exact ⟨d, ed, rfl⟩
          | _ => exact absurd (hchk.mpr ⟨_, ed, hLd, fun d hc => by cases hc⟩) hbad
      have hmv : rotMoves left (lookup s now) src dst = (rotPop left l).2 := by
        rcases hdstok with h0 | ⟨d, ed, h0⟩ <;> simp [rotMoves, hL, h0]
      cases hr : (rotPop left l).2 with
      | none =>
        simp only
        exact stay s2 ks2.inv hsame2 hfl2' (by rw [hmv, hr])
      | some vs =>
        simp only
        rw [hmv, hr]
        have hgl : Good (.list l) := (ks2.inv.recs src m2 hm2).good _ hv2
        have hgrem : Good (.list (rotPop left l).1) := good_pop left l 1 hgl
        have hvs : ∀ v ∈ vs, v.length < 2 ^ 63 := fun v hv => hgl.2 v (rotPop_sub left l vs hr v hv)
        have hgA : (rotRemAct (rotPop left l).1).GoodA := by
          unfold rotRemAct
          split
          · exact hgrem
          · exact ⟨(fun w hw => by cases hw; exact hgrem), (fun _ hx => nomatch hx)⟩
        obtain ⟨i3, _, _, _, l3⟩ := runAct_spec ks2.inv hm2 hv2 (rotRemAct (rotPop left l).1) hgA
        have hl3 : ∀ k', lookup (runAct s2 src (rotRemAct (rotPop left l).1)).1 now k' =
            upd (lookup s now) src (popPost now left src (lookup s now src)) k' := by
          intro k'
          rw [l3 now ht k', he2, hL]
          have hlive := lookup_filt hL
          unfold rotRemAct
          by_cases hc : DsList.llen (rotPop left l).1 = 0
          · have hc' : DsList.llen (if left = true then DsList.lpop l 1 else DsList.rpop l 1).1 = 0 := hc
            simp only [hc, if_true, Act.eff, upd]
            by_cases hk : k' = src
            · simp [hk, popPost, popF', TxForm.post, TxForm.spec, txSpec, Cmd.form, decListMut, popF, hc', Act.eff]
            · simp only [hk, if_false]; exact hsame2 k'
          · have hc' : ¬ DsList.llen (if left = true then DsList.lpop l 1 else DsList.rpop l 1).1 = 0 := hc
            simp only [hc, if_false, Act.eff, upd, Option.getD_some, Option.getD_none]
            by_cases hk : k' = src
            · simp [hk, popPost, popF', TxForm.post, TxForm.spec, txSpec, Cmd.form, decListMut, popF, hc', Act.eff,
                hlive]
              rfl
            · simp only [hk, if_false]; exact hsame2 k'
        obtain ⟨i4, l4⟩ := form_step (rotAddF_ok left src dst vs hvs) i3
        refine ⟨i4, fun k' => ?_, fun hlis => ?_⟩
        · rw [l4 k']
          simp only [show (rotAddF left src dst vs).key = dst from rfl, rotateK]
          rw [hl3 dst]
          by_cases hk : k' = dst
          · subst hk; simp [upd]
          · rw [upd_other _ _ _ hk, upd_other _ _ _ hk, hl3 k']
        · have hfl3 : fl (runAct s2 src (rotRemAct (rotPop left l).1)).1 = fl s := by
            have hl2 : s2.listeners = true := (congrArg Prod.snd hfl2').trans hlis
            rw [fl_runAct _ _ _ hl2]
            have : Act.ops (rotRemAct (rotPop left l).1) = [] := by unfold rotRemAct; split <;> rfl
            rw [this]
            simp [fl, ← hlis, show s2.feed = s.feed from congrArg Prod.fst hfl2']
          have hl3' : (runAct s2 src (rotRemAct (rotPop left l).1)).1.listeners = true :=
            (congrArg Prod.snd hfl3).trans hlis
          rw [form_feed (rotAddF_ok left src dst vs hvs) i3 hl3']
          rw [show (runAct s2 src (rotRemAct (rotPop left l).1)).1.feed = s.feed from congrArg Prod.fst hfl3]
          have hops : (rotAddF left src dst vs).ops (lookup (runAct s2 src (rotRemAct (rotPop left l).1)).1 now dst) =
              [opRotate left src dst] := by
            rw [hl3 dst]
            by_cases hk : dst = src
            · subst hk
              rw [upd_same, hL]
              have hlive := lookup_filt hL
              by_cases hc : DsList.llen (if left = true then DsList.lpop l 1 else DsList.rpop l 1).1 = 0
              · simp [popPost, popF', TxForm.post, TxForm.spec, txSpec, Cmd.form, decListMut, popF, hc, Act.eff,
                  TxForm.ops, rotAddF, decRotAdd, Act.ops]
              · simp [popPost, popF', TxForm.post, TxForm.spec, txSpec, Cmd.form, decListMut, popF, hc, Act.eff,
                  TxForm.ops, rotAddF, decRotAdd, Act.ops, hlive]
            · rw [upd_other _ _ _ hk]
              rcases hdstok with h0 | ⟨d, ed, h0⟩ <;>
                simp [h0, TxForm.ops, rotAddF, decRotAdd, Act.ops]
          simp only [show (rotAddF left src dst vs).key = dst from rfl] at hops ⊢
          rw [hops]
          rfl

end NodisVerif.Proofs.C20

namespace NodisVerif.Proofs.C20
open NodisVerif NodisVerif.Store NodisVerif.Spec.Persist NodisVerif.Proofs.C11

variable {now : Int} {p r : MState}

theorem rotateK_nonil {K : Bytes → Option (Val × Int)} (hK : ∀ k e, K k ≠ some (.strNil, e)) (left : Bool)
    (src dst : Bytes) (moves : Option (List Bytes)) (k : Bytes) (e : Int) :
    rotateK now K left src dst moves k ≠ some (.strNil, e) := by
  unfold rotateK
  cases moves with
  | none => exact hK k e
  | some vs =>
    simp only
    have h1 : ∀ k e, upd K src (popPost now left src (K src)) k ≠ some (.strNil, e) := by
      intro k e
      by_cases hk : k = src
      · subst hk; rw [upd_same]
        exact post_nonil (Cmd.nilSafe (.pop left k 1) now trivial) now _ (fun e0 => hK k e0) e
      · rw [upd_other _ _ _ hk]; exact hK k e
    by_cases hk : k = dst
    · subst hk; rw [upd_same]
      exact post_nonil (rotAddF_nilSafe left src k vs) now _ (fun e0 => h1 k e0) e
    · rw [upd_other _ _ _ hk]; exact h1 k e

theorem rotate_main (left : Bool) (hs : Same now p r) (hl : p.listeners = true) (hfd : p.feed = [])
    (c : Feed.CallInfo) (hc : plainMethod c.method = true) (src dst : Bytes) :
    Replay now r c (Api.rotate left p now src dst) ∧ (Api.rotate left p now src dst).1.listeners = true ∧
    ∀ op ∈ (Api.rotate left p now src dst).1.feed.reverse, op.key = src := by
  obtain ⟨i1, l1, f1⟩ := rotate_spec left hs.invP src dst
  have f1' := f1 hl
  have hfeed : (Api.rotate left p now src dst).1.feed = _ := congrArg Prod.fst f1'
  refine ⟨?_, congrArg Prod.snd f1', ?_⟩
  · unfold Replay
    rw [emission_plain hc, hfeed, hfd]
    refine main_of i1 l1 (rotateK_nonil hs.nonil left src dst _) ?_
    have hK : lookup r now = lookup p now := funext hs.look
    cases hm : rotMoves left (lookup p now) src dst with
    | none =>
      simp only [List.append_nil, List.reverse_nil, rotateK]
      rw [← hK]; exact Replays.nil hs.invR
    | some vs =>
      simp only [List.append_nil, List.reverse_cons, List.reverse_nil, List.nil_append]
      obtain ⟨i2, l2, _⟩ := rotate_spec left hs.invR src dst
      rw [hK, hm] at l2
      refine ⟨_, ?_, i2, l2⟩
      cases left <;> simp [Feed.applyAll, Feed.applyOp, opRotate, Api.opList, pB_toHex]
  · intro op hop
    rw [hfeed, hfd] at hop
    cases hm : rotMoves left (lookup p now) src dst with
    | none => rw [hm] at hop; simp at hop
    | some vs =>
      rw [hm] at hop
      simp at hop
      subst hop
      rfl

end NodisVerif.Proofs.C20
