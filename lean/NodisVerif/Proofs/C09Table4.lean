import NodisVerif.Proofs.C09Table3
import NodisVerif.Model.Handler4
import NodisVerif.Proofs.GeoAddOpt
/-
  C09 (WATCH soundness) for `Handler4.table4`: every closure a handler of CLIENT / CONFIG / INFO / QUIT /
  GEOADD / GEOHASH / GEOPOS / GEODIST / GEORADIUS / GEORADIUSBYMEMBER hands to `execCommand` tells the
  watchers about every key whose logical content it changes (`SignalsChanges`).  The reads never write
  (`Frame []` through `readKey` alone); GEOADD signals its key after the last `ZAdd`.

  Left out of the table-level theorem (`table4Safe`): SAVE — `Store.flush` rewrites every record's
  persistence bookkeeping (it puts back the record it read from the index at the start of the pass); that
  this leaves the logical content alone needs the index invariant "keys are distinct" and is not proved
  here (it is C11 / C12's subject).
  GEOADD with `NX` or `XX` as argument 1 would build a closure around `GeoAddNX` (which creates the key
  without signalling, FINDINGS.md) or `GeoAddXX`; `GeoAddOpt.geoAddH_opt_not_exec` shows that the handler
  never gets that far (the option word is parsed as a longitude and rejected), so nothing is left out there.
-/
set_option linter.unusedSectionVars false
set_option linter.unusedVariables false

namespace NodisVerif.Proofs.C08Step.T4
open Resp Server
open NodisVerif NodisVerif.Store NodisVerif.Api
open NodisVerif.Proofs.C09Writers
open NodisVerif.Proofs.C08Step.T3
open NodisVerif.Handler3 (Pre)

/-! ## GEOADD -/

theorem frame_emits {D : List Bytes} {s : MState} (key : Bytes) : ∀ (items : List (Bytes × F64)) (s1 : MState),
    Frame D s s1 → Frame D s (items.foldl (fun s it => emit s (opZAdd key it.1 it.2)) s1)
  | [], s1, h => h
  | it :: rest, s1, h => frame_emits key rest _ (h.emit _)

theorem frame_geoAdd (s : MState) (hp : s.pebble = true) (now : Int) (key : Bytes) (items : List (Bytes × F64)) :
    Frame [] s (Handler4.geoAdd s now key items).1 := by
  unfold Handler4.geoAdd
  wk_some s now key (Val.zset DsZSet.empty)
  · split
    · exact h.signal key
    · split
      · exact h
      · exact frame_emits key _ _ ((h.setVal hp _ _).signal key)
  · split
    · exact h.signal key
    · simp only [asZSet_of_valOf hv]
      exact frame_emits key _ _ ((h.setVal hp _ _).signal key)

theorem execSignals_geoAddH (args : List Bytes) (hreg : ¬ (opt args "NX" = 1 ∨ opt args "XX" = 1)) :
    ExecSignals (Handler4.geoAddH args) := by
  have hn : ¬ opt args "NX" = 1 := fun e => hreg (Or.inl e)
  have hx : ¬ opt args "XX" = 1 := fun e => hreg (Or.inr e)
  unfold Handler4.geoAddH
  refine execSignals_ite execSignals_err ?_
  split
  · exact execSignals_err
  · dsimp only
    refine execSignals_ite execSignals_err (execSignals_ite execSignals_err ?_)
    refine execSignals_run ?_
    pre_steps
    refine preAll_pure (execSignals_exec (signals_of_frame fun st now _ hp => ?_))
    rw [if_neg hn, if_neg hx]
    exact frame_call _ _ (fun _ _ => rfl) (frame_geoAdd st hp now _ _)

theorem signals_geoAddH (args : List Bytes) (b : Body) (h : Handler4.geoAddH args = .exec b) : SignalsChanges b := by
  by_cases hreg : opt args "NX" = 1 ∨ opt args "XX" = 1
  · exact absurd h (NodisVerif.Proofs.GeoAddOpt.geoAddH_opt_not_exec args hreg b)
  · exact execSignals_geoAddH args hreg b h

/-! ## the reads: everything after `readKey` only renders -/

set_option hygiene false in
/-- a closure of the form `let (s, ok) := readKey st now key; …rendering…`: every branch ends in the
    store `readKey` returned -/
macro "read_body" : tactic => `(tactic|
  (generalize hr : Store.readKey _ _ _ = r
   have h : Frame [] st r.1 := by rw [← hr]; exact frame_readKey _ _ _
   clear hr
   obtain ⟨s1, okk⟩ := r
   dsimp only at h ⊢
   (repeat' split) <;> exact h))

theorem signals_geoHashH (args : List Bytes) (b : Body) (h : Handler4.geoHashH args = .exec b) : SignalsChanges b := by
  unfold Handler4.geoHashH at h
  exec_cases
  refine signals_of_frame fun st now _ hp => ?_
  read_body

theorem signals_geoPosH (args : List Bytes) (b : Body) (h : Handler4.geoPosH args = .exec b) : SignalsChanges b := by
  unfold Handler4.geoPosH at h
  exec_cases
  refine signals_of_frame fun st now _ hp => ?_
  read_body

theorem signals_geoDistH (args : List Bytes) (b : Body) (h : Handler4.geoDistH args = .exec b) : SignalsChanges b := by
  unfold Handler4.geoDistH at h
  exec_cases
  refine signals_of_frame fun st now _ hp => ?_
  read_body

theorem signals_geoRadiusH (args : List Bytes) (b : Body) (h : Handler4.geoRadiusH args = .exec b) : SignalsChanges b := by
  unfold Handler4.geoRadiusH at h
  split at h
  · refine execSignals_run ?_ b h
    pre_steps
    refine preAll_pure (execSignals_exec (signals_of_frame fun st now _ hp => ?_))
    read_body
  · cases h

theorem signals_geoRadiusByMemberH (args : List Bytes) (b : Body) (h : Handler4.geoRadiusByMemberH args = .exec b) :
    SignalsChanges b := by
  unfold Handler4.geoRadiusByMemberH at h
  split at h
  · refine execSignals_run ?_ b h
    pre_steps
    refine preAll_pure (execSignals_exec (signals_of_frame fun st now _ hp => ?_))
    read_body
  · cases h

/-! ## CLIENT, CONFIG, INFO, QUIT: the store is not touched -/

theorem signals_client (args : List Bytes) (b : Body) (h : Handler4.client args = .exec b) : SignalsChanges b := by
  unfold Handler4.client at h
  split at h
  · cases h
  · cases h
    refine signals_of_frame fun st now _ hp => ?_
    dsimp only
    (repeat' split) <;> exact Frame.refl _ _

theorem signals_config (args : List Bytes) (b : Body) (h : Handler4.config args = .exec b) : SignalsChanges b := by
  unfold Handler4.config at h
  split at h
  · cases h
    refine signals_of_frame fun st now _ hp => ?_
    (repeat' split) <;> exact Frame.refl _ _
  · cases h

theorem signals_info (b : Body) (h : Handler4.info = .exec b) : SignalsChanges b := by
  cases h; exact signals_of_frame fun st _ _ _ => Frame.refl _ st

theorem signals_quit (b : Body) (h : Handler4.quit = .exec b) : SignalsChanges b := by
  cases h; exact signals_of_frame fun st _ _ _ => Frame.refl _ st

/-! ## the table -/

/-- `Handler4.table4` without SAVE (not proved) -/
def table4Safe : Table := fun name args => if name = "SAVE" then none else Handler4.table4 name args

theorem table4Safe_signals : TableSignals table4Safe := by
  intro name args b h
  unfold table4Safe at h
  split at h
  · cases h
  · next hsave =>
    unfold Handler4.table4 at h
    split at h
    all_goals first
      | (cases h; done)
      | (exfalso; exact hsave rfl)
      | skip
    all_goals injection h with h
    · exact signals_client _ _ h
    · exact signals_config _ _ h
    · exact signals_info _ h
    · exact signals_quit _ h
    · exact signals_geoAddH _ _ h
    · exact signals_geoHashH _ _ h
    · exact signals_geoPosH _ _ h
    · exact signals_geoDistH _ _ h
    · exact signals_geoRadiusH _ _ h
    · exact signals_geoRadiusByMemberH _ _ h

end NodisVerif.Proofs.C08Step.T4
