import NodisVerif.Proofs.C10Resp
/-
  C10, the ZADD command's transaction (`Api.zaddPairs`, work package Z): a `writeCmd` on its key - `writeKey` once,
  then it acts on that key only - hence an expired record that is still indexed is invisible to it (`Resp`).
-/
namespace NodisVerif.Proofs.C10
open NodisVerif Store

def zaddPairsA (key : Bytes) (nx xx gt lt ch : Bool) (pairs : List (Bytes × F64)) : ZSet → Int → Act := fun z _ =>
  let a := pairs.foldl (Api.zaddStep nx xx gt lt) { z := z, added := 0, changed := 0, ops := [] }
  let reply : Int := if ch then a.added + a.changed else a.added
  if a.ops.isEmpty then { out := .int reply }
  else { val := some (.zset a.z), sig := true, ops := a.ops.map fun q => Api.opZAdd key q.1 q.2, out := .int reply }

theorem zaddPairs_eq (s : MState) (now : Int) (k : Bytes) (nx xx gt lt ch : Bool) (pairs : List (Bytes × F64))
    (hne : pairs ≠ []) :
    Api.zaddPairs s now k nx xx gt lt ch pairs =
      writeCmd (if xx then none else some (.zset DsZSet.empty)) (.int 0)
        (actOn zsetOf (zaddPairsA k nx xx gt lt ch pairs)) s now k := by
  have hne' : pairs.isEmpty = false := by cases pairs <;> simp_all
  unfold Api.zaddPairs writeCmd
  simp only [hne', Bool.false_eq_true, if_false]
  have hok : (writeKey s now k (some (.zset DsZSet.empty))).2 = true := writeKey_some_ok s now k _
  cases xx with
  | false =>
    simp only [Bool.false_eq_true, if_false, Bool.false_and]
    have := hok
    generalize writeKey s now k (some (.zset DsZSet.empty)) = w at this ⊢
    obtain ⟨s1, ok⟩ := w
    dsimp only at this ⊢
    subst this
    simp only [Bool.not_true, Bool.false_eq_true, if_false, actOn, asZSet_eq]
    cases zsetOf (valOf s1 k) with
    | none => rfl
    | some z =>
      simp only [zaddPairsA]
      split
      · rfl
      · simp only [applyAct, List.foldl_map, Bool.false_eq_true, if_false, if_true]
  | true =>
    simp only [if_true, Bool.true_and]
    generalize writeKey s now k none = w
    obtain ⟨s1, ok⟩ := w
    dsimp only
    cases ok with
    | false => rfl
    | true =>
      simp only [Bool.not_true, Bool.false_eq_true, if_false, actOn, asZSet_eq]
      cases zsetOf (valOf s1 k) with
      | none => rfl
      | some z =>
        simp only [zaddPairsA]
        split
        · rfl
        · simp only [applyAct, List.foldl_map, Bool.false_eq_true, if_false, if_true]

theorem resp_zaddPairs (now : Int) (k : Bytes) (nx xx gt lt ch : Bool) (pairs : List (Bytes × F64)) (hne : pairs ≠ []) :
    Resp now (fun s => Api.zaddPairs s now k nx xx gt lt ch pairs) :=
  resp_write (fun s => zaddPairs_eq s now k nx xx gt lt ch pairs hne)

end NodisVerif.Proofs.C10
