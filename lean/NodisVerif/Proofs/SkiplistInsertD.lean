import NodisVerif.Proofs.SkiplistInsertB
import NodisVerif.Proofs.SkiplistInsertC
import NodisVerif.Proofs.ZSetLemmas
/-
  skiplist.insert, part D: the run of `insert` on a heap with the invariant.
-/
namespace NodisVerif.Skiplist
open NodisVerif.DsZSet (Item nodeLt)
open NodisVerif.Proofs.C04 (ILt)
open NodisVerif.Proofs.ZSetLemmas (Good itemLt_trans itemLt_total)

/-- the `if level > skiplist.level { … }` block -/
def extendBranch (sl : SL) (lvl : Nat) (update : List (Option Nat)) (rank : List Int) :
    M (List Node × List (Option Nat) × List Int × Nat) :=
  if lvl > sl.level then do
    let (h, u, r) ← extendLevels sl.length (lvl - sl.level) sl.level sl.heap update rank
    pure (h, u, r, lvl)
  else pure (sl.heap, update, rank, sl.level)

/-- the rest of `insert` -/
def insertTail (sl : SL) (m : Bytes) (s : F64) (lvl : Nat) (h : List Node) (update : List (Option Nat))
    (rank : List Int) (level : Nat) : M SL := do
  let new := h.length
  let h := h ++ [newNode lvl s m]
  let h ← linkLevels new update rank lvl 0 h
  let h ← bumpLevels update (level - lvl) lvl h
  let u0 ← getUpd update 0
  let h ← setBackward h new (if u0 = 0 then none else some u0)
  let l0 ← getLevel h new 0
  match l0.forward with
  | some f =>
    let h ← setBackward h f (some new)
    pure { heap := h, tail := sl.tail, length := sl.length + 1, level := level }
  | none => pure { heap := h, tail := some new, length := sl.length + 1, level := level }

theorem insert_eq (sl : SL) (m : Bytes) (s : F64) (lvl : Nat) :
    insert sl m s lvl =
      (search sl.heap (lessCond m s) sl.level 0 0 emptyUpdate emptyRank >>= fun r =>
        extendBranch sl lvl r.2.2.1 r.2.2.2 >>= fun t => insertTail sl m s lvl t.1 t.2.1 t.2.2.1 t.2.2.2) := by
  unfold insert extendBranch insertTail
  cases hsr : search sl.heap (lessCond m s) sl.level 0 0 emptyUpdate emptyRank with
  | error e => rfl
  | ok r =>
    obtain ⟨a, b, u, rk⟩ := r
    by_cases hl : lvl > sl.level
    · simp only [bind, Except.bind, hl, if_true]
      cases extendLevels sl.length (lvl - sl.level) sl.level sl.heap u rk with
      | error e => rfl
      | ok t => rfl
    · simp only [bind, Except.bind, hl, if_false]
      rfl


theorem extendBranch_spec (sl : SL) (lvl : Nat) (update : List (Option Nat)) (rank : List Int)
    (hu : update.length = maxLevel) (hr : rank.length = maxLevel) (hl2 : lvl ≤ maxLevel)
    (hh : height sl.heap 0 = maxLevel) :
    ∃ h1 update' rank', extendBranch sl lvl update rank = .ok (h1, update', rank', max sl.level lvl) ∧
      skel h1 = skel sl.heap ∧ (∀ x, bk h1 x = bk sl.heap x) ∧ update'.length = maxLevel ∧
      rank'.length = maxLevel ∧
      (∀ x j, lv h1 x j = if x = 0 ∧ sl.level ≤ j ∧ j < lvl then
          (lv sl.heap 0 j).map (fun l => { l with span := sl.length }) else lv sl.heap x j) ∧
      (∀ j, update'[j]? = if sl.level ≤ j ∧ j < lvl then some (some 0) else update[j]?) ∧
      (∀ j, rank'[j]? = if sl.level ≤ j ∧ j < lvl then some 0 else rank[j]?) := by
  unfold extendBranch
  by_cases hl : lvl > sl.level
  · obtain ⟨h1, u', r', e, hs, hb, hu', hr', hlv, hup, hrk⟩ :=
      extendLevels_spec sl.length (lvl - sl.level) sl.level sl.heap update rank hu hr (by omega) hh
    have hadd : sl.level + (lvl - sl.level) = lvl := by omega
    rw [hadd] at hlv hup hrk
    refine ⟨h1, u', r', ?_, hs, hb, hu', hr', hlv, hup, hrk⟩
    have hmax : max sl.level lvl = lvl := by omega
    simp [hl, bind, Except.bind, e, pure, Except.pure, hmax]
  · have hmax : max sl.level lvl = sl.level := by omega
    refine ⟨sl.heap, update, rank, by simp [hl, pure, Except.pure, hmax], rfl, fun _ => rfl, hu, hr, ?_, ?_, ?_⟩
    · intro x j
      have : ¬ (x = 0 ∧ sl.level ≤ j ∧ j < lvl) := by omega
      rw [if_neg this]
    · intro j
      have : ¬ (sl.level ≤ j ∧ j < lvl) := by omega
      rw [if_neg this]
    · intro j
      have : ¬ (sl.level ≤ j ∧ j < lvl) := by omega
      rw [if_neg this]


theorem height_append_new (h : List Node) (lvl : Nat) (s : F64) (m : Bytes) (x : Nat) :
    height (h ++ [newNode lvl s m]) x = if x = h.length then lvl else height h x := by
  rw [height_skel, skel_append_new, height_skel, List.getElem?_append]
  have hlen : (skel h).length = h.length := by simp [skel]
  by_cases hx : x < h.length
  · have : x ≠ h.length := by omega
    simp [hlen, hx, this]
  · by_cases hx2 : x = h.length
    · subst hx2; simp [hlen]
    · have h1 : (skel h)[x]? = none := List.getElem?_eq_none_iff.2 (by omega)
      have h2 : ([(s, m, lvl)] : List (F64 × Bytes × Nat))[x - h.length]? = none :=
        List.getElem?_eq_none_iff.2 (by simp; omega)
      simp [hlen, hx, hx2, h2]

/-- the level slots after linking the new node `N`, against the heap `h1` before -/
def insLv (h1 : List Node) (N lvl level' : Nat) (U : Nat → Nat) (R : Nat → Int) (r0 : Int) (x j : Nat) :
    Option Level :=
  if j < lvl then
    (if x = U j then some { forward := some N, span := r0 - R j + 1 }
     else if x = N then
       (lv h1 (U j) j).map (fun l => { forward := l.forward, span := l.span - (r0 - R j) })
     else lv h1 x j)
  else if j < level' ∧ x = U j then (lv h1 x j).map (fun l => { l with span := l.span + 1 })
  else lv h1 x j

theorem linkBump_spec (h1 : List Node) (lvl level' : Nat) (s : F64) (m : Bytes)
    (update : List (Option Nat)) (rank : List Int) (U : Nat → Nat) (R : Nat → Int)
    (hl1 : 1 ≤ lvl) (hlvl : lvl ≤ level')
    (hU : ∀ j, j < level' → update[j]? = some (some (U j)) ∧ rank[j]? = some (R j) ∧ j < height h1 (U j)) :
    ∃ h3 h4, linkLevels h1.length update rank lvl 0 (h1 ++ [newNode lvl s m]) = .ok h3 ∧
      bumpLevels update (level' - lvl) lvl h3 = .ok h4 ∧
      skel h4 = skel h1 ++ [(s, m, lvl)] ∧
      (∀ x, bk h4 x = if x = h1.length then some none else bk h1 x) ∧
      ∀ x j, lv h4 x j = insLv h1 h1.length lvl level' U R (R 0) x j := by
  have hUN : ∀ j, j < level' → U j ≠ h1.length := by
    intro j hj e
    have := height_lt_length h1 (U j) j (hU j hj).2.2
    omega
  have hh2 := height_append_new h1 lvl s m
  obtain ⟨h3, e3, hs3, hb3, hl3⟩ := linkLevels_spec h1.length update rank U R (R 0) lvl 0
    (h1 ++ [newNode lvl s m]) (hU 0 (by omega)).2.1
    (fun j _ hj => ⟨(hU j (by omega)).1, (hU j (by omega)).2.1,
      by rw [hh2, if_neg (hUN j (by omega))]; exact (hU j (by omega)).2.2, hUN j (by omega)⟩)
    (fun j _ hj => by rw [hh2]; simp; omega)
  obtain ⟨h4, e4, hs4, hb4, hl4⟩ := bumpLevels_spec update U (level' - lvl) lvl h3
    (fun j hj1 hj2 => ⟨(hU j (by omega)).1,
      by rw [height_congr hs3, hh2, if_neg (hUN j (by omega))]; exact (hU j (by omega)).2.2⟩)
  refine ⟨h3, h4, e3, e4, by rw [hs4, hs3, skel_append_new], ?_, ?_⟩
  · intro x; rw [hb4, hb3, bk_append_new]
  · intro x j
    have hN1 : lv h1 h1.length j = none := by
      rw [lv_eq_none_iff]; simp [height]
    simp only [hl4, hl3, lv_append_new, insLv]
    by_cases hj : j < lvl
    · have hjl : j < level' := by omega
      have := hUN j hjl
      have h3 : ¬ (lvl ≤ j ∧ j < lvl + (level' - lvl) ∧ x = U j) := by omega
      simp [hj, this, h3]
      by_cases hx : x = U j
      · simp [hx]
      · by_cases hxN : x = h1.length
        · simp [hxN]
        · simp [hx, hxN]
    · by_cases hj2 : j < level'
      · have := hUN j hj2
        by_cases hx : x = U j
        · have h3 : (lvl ≤ j ∧ j < lvl + (level' - lvl) ∧ x = U j) := ⟨by omega, by omega, hx⟩
          subst hx
          simp [hj, hj2, this, h3]
        · have h3 : ¬ (lvl ≤ j ∧ j < lvl + (level' - lvl) ∧ x = U j) := fun h => hx h.2.2
          simp only [hj, hj2, hx, if_false, and_false, Nat.zero_le, Nat.zero_add]
          by_cases hxN : x = h1.length
          · subst hxN; simp [hN1]
          · simp [hxN]
      · have h3 : ¬ (lvl ≤ j ∧ j < lvl + (level' - lvl) ∧ x = U j) := by omega
        simp only [hj, hj2, h3, if_false, false_and, and_false, Nat.zero_le, Nat.zero_add]
        by_cases hxN : x = h1.length
        · subst hxN; simp [hN1]
        · simp [hxN]


theorem insertTail_spec (sl : SL) (m : Bytes) (s : F64) (lvl : Nat) (h1 : List Node)
    (update : List (Option Nat)) (rank : List Int) (level' : Nat) (U : Nat → Nat) (R : Nat → Int)
    (hl1 : 1 ≤ lvl) (hlvl : lvl ≤ level')
    (hU : ∀ j, j < level' → update[j]? = some (some (U j)) ∧ rank[j]? = some (R j) ∧ j < height h1 (U j))
    (hfw : ∀ l f, lv h1 (U 0) 0 = some l → l.forward = some f → f < h1.length) :
    ∃ sl' l0, insertTail sl m s lvl h1 update rank level' = .ok sl' ∧
      skel sl'.heap = skel h1 ++ [(s, m, lvl)] ∧
      (∀ x j, lv sl'.heap x j = insLv h1 h1.length lvl level' U R (R 0) x j) ∧
      sl'.length = sl.length + 1 ∧ sl'.level = level' ∧
      lv sl'.heap h1.length 0 = some l0 ∧
      sl'.tail = (match l0.forward with | some _ => sl.tail | none => some h1.length) ∧
      ∀ x, bk sl'.heap x =
        if some x = l0.forward then some (some h1.length)
        else if x = h1.length then some (if U 0 = 0 then none else some (U 0)) else bk h1 x := by
  obtain ⟨h3, h4, e3, e4, hs4, hb4, hl4⟩ := linkBump_spec h1 lvl level' s m update rank U R hl1 hlvl hU
  have hlen4 : h4.length = h1.length + 1 := by
    have := congrArg List.length hs4; simpa [skel] using this
  have hU0 := hU 0 (by omega)
  have hUN : U 0 ≠ h1.length := by
    intro e
    have := height_lt_length h1 (U 0) 0 hU0.2.2
    omega
  obtain ⟨h5, e5, hs5, hl5, hb5⟩ := setBackward_spec h4 h1.length (if U 0 = 0 then none else some (U 0)) (by omega)
  obtain ⟨l1, hl1'⟩ := (lv_isSome_iff h1 (U 0) 0).2 hU0.2.2
  have hlN : lv h4 h1.length 0 = some { forward := l1.forward, span := l1.span - (R 0 - R 0) } := by
    rw [hl4]; unfold insLv
    have h0 : 0 < lvl := by omega
    have : h1.length ≠ U 0 := fun e => hUN e.symm
    simp [h0, this, hl1']
  have egl : getLevel h5 h1.length 0 = .ok { forward := l1.forward, span := l1.span - (R 0 - R 0) } :=
    (getLevel_eq_lv _ _ _ _).2 (by rw [hl5, hlN])
  have eu := getUpd_ok update 0 (U 0) hU0.1
  unfold insertTail
  cases hf : l1.forward with
  | none =>
    refine ⟨{ heap := h5, tail := some h1.length, length := sl.length + 1, level := level' },
      { forward := l1.forward, span := l1.span - (R 0 - R 0) }, ?_, ?_, ?_, rfl, rfl, ?_, ?_, ?_⟩
    · simp [bind, Except.bind, e3, e4, eu, e5, egl, hf, pure, Except.pure]
    · show skel h5 = _; rw [hs5, hs4]
    · intro x j; show lv h5 x j = _; rw [hl5, hl4]
    · show lv h5 _ _ = _; rw [hl5, hlN]
    · simp [hf]
    · intro x; show bk h5 x = _; rw [hb5, hb4]; simp [hf]
      by_cases hx : x = h1.length <;> simp [hx]
  | some f =>
    have hfl : f < h1.length := hfw l1 f hl1' hf
    have hlen5 : h5.length = h4.length := length_congr hs5
    obtain ⟨h6, e6, hs6, hl6, hb6⟩ := setBackward_spec h5 f (some h1.length) (by omega)
    refine ⟨{ heap := h6, tail := sl.tail, length := sl.length + 1, level := level' },
      { forward := l1.forward, span := l1.span - (R 0 - R 0) }, ?_, ?_, ?_, rfl, rfl, ?_, ?_, ?_⟩
    · simp [bind, Except.bind, e3, e4, eu, e5, egl, hf, e6, pure, Except.pure]
    · show skel h6 = _; rw [hs6, hs5, hs4]
    · intro x j; show lv h6 x j = _; rw [hl6, hl5, hl4]
    · show lv h6 _ _ = _; rw [hl6, hl5, hlN]
    · simp [hf]
    · intro x; show bk h6 x = _; rw [hb6, hb5, hb4]; simp [hf]
      by_cases hx : x = f
      · simp [hx]
      · simp [hx]
        by_cases hx2 : x = h1.length <;> simp [hx2]

end NodisVerif.Skiplist
