import NodisVerif.Proofs.C20ZStoreStep
/-
  C20, ZUnionStore / ZInterStore: the record carries destination, operands, weights and aggregate;
  the replica re-executes the command on its own copies of the operands.  Since the result is a
  function of what the operand names show (`zcoreSpec`), and the destination afterwards a function
  of the result and of what the destination showed (`zstorePost`), a replica with the same logical
  keyspace ends with the same logical keyspace.
    * empty result: a DEL record for the destination;
    * the call fails (an operand of another type; ZInterStore: an operand missing where it is checked):
      nothing is emitted and nothing changes;
    * missing or expired operands are the same thing (`lookup … = none`);
    * the destination may be one of the operands, and may hold anything.
  Region: an aggregated score of the result is NaN (the sorted-set invariant does not cover NaN).
-/
namespace NodisVerif.Proofs.C20
open NodisVerif NodisVerif.Store NodisVerif.Spec.Persist NodisVerif.Proofs.C11

variable {now : Int} {p r : MState}

/-! ### the region -/

/-- some aggregated score of the result is NaN (∞·0, ∞ + -∞, a NaN weight through the embedded API) -/
def zstoreNaN (K : Bytes → Option (Val × Int)) (union : Bool) (keys : List Bytes) (weights : List F64) (agg : Bytes) : Bool :=
  match zcoreSpec union K keys weights agg with
  | some (some items) => items.any fun it => F64.isNaN it.1
  | _ => false

def ZStoreNaN (K : Bytes → Option (Val × Int)) (union : Bool) (keys : List Bytes) (weights : List F64) (agg : Bytes) : Prop :=
  zstoreNaN K union keys weights agg = true

instance (K : Bytes → Option (Val × Int)) (union : Bool) (keys : List Bytes) (weights : List F64) (agg : Bytes) :
    Decidable (ZStoreNaN K union keys weights agg) :=
  inferInstanceAs (Decidable (zstoreNaN K union keys weights agg = true))

theorem noNaN_of_not_region {K : Bytes → Option (Val × Int)} {union : Bool} {keys : List Bytes} {weights : List F64}
    {agg : Bytes} (hreg : ¬ ZStoreNaN K union keys weights agg) {items : List DsZSet.Item}
    (he : zcoreSpec union K keys weights agg = some (some items)) : ∀ it ∈ items, F64.isNaN it.1 = false := by
  intro it hit
  cases hn : F64.isNaN it.1 with
  | false => rfl
  | true =>
    exfalso; apply hreg
    unfold ZStoreNaN zstoreNaN
    rw [he]
    exact List.any_eq_true.mpr ⟨it, hit, hn⟩

/-! ### the call on any state satisfying the invariant -/

/-- the call fails: only reading happened -/
theorem zstore_fails (union : Bool) {s : MState} (h : StoreInv s now) (dst : Bytes) (keys : List Bytes)
    (weights : List F64) (agg : Bytes)
    (he : zcoreSpec union (lookup s now) keys weights agg = none ∨ zcoreSpec union (lookup s now) keys weights agg = some none) :
    Kept now s (Api.zstore union s now dst keys weights agg).1 := by
  rw [zstore_eq]
  obtain ⟨kept, e⟩ := zcore_spec union h keys weights agg
  generalize (if union = true then Api.zunionCore else Api.zinterCore) s now keys weights agg = q at kept e
  obtain ⟨s1, res⟩ := q
  simp only at kept e
  subst e
  rcases he with he | he <;> rw [he] <;> exact kept

/-- the call succeeds with `items`: destination and feed afterwards (whatever the scores) -/
theorem zstore_look' (union : Bool) {s : MState} (h : StoreInv s now) (dst : Bytes) (keys : List Bytes)
    (weights : List F64) (agg : Bytes) (items : List DsZSet.Item)
    (he : zcoreSpec union (lookup s now) keys weights agg = some (some items)) :
    ((∀ it ∈ items, F64.isNaN it.1 = false) → StoreInv (Api.zstore union s now dst keys weights agg).1 now) ∧
    (∀ k', lookup (Api.zstore union s now dst keys weights agg).1 now k' =
      upd (lookup s now) dst (zstorePost items (lookup s now dst)) k') ∧
    (s.listeners = true →
      fl (Api.zstore union s now dst keys weights agg).1 = (zstoreOp union dst items :: s.feed, true)) := by
  rw [zstore_eq]
  obtain ⟨kept, e⟩ := zcore_spec union h keys weights agg
  generalize (if union = true then Api.zunionCore else Api.zinterCore) s now keys weights agg = q at kept e
  obtain ⟨s1, res⟩ := q
  simp only at kept e
  rw [he] at e
  subst e
  simp only
  have hsm := zcoreSpec_small union (kgood_lookup h) keys weights agg he
  obtain ⟨a, b, c⟩ := zstoreTail_spec union kept.inv dst items
  refine ⟨fun hn => a (fun _ => good_buildZ hsm hn), ?_, ?_⟩
  · intro k'
    rw [b k', lookup_fun kept]
  · intro hl
    have hl1 : s1.listeners = true := (congrArg Prod.snd kept.fl).trans hl
    rw [c hl1]
    have : s1.feed = s.feed := congrArg Prod.fst kept.fl
    rw [this]

/-- the call succeeds with NaN-free `items` -/
theorem zstore_look (union : Bool) {s : MState} (h : StoreInv s now) (dst : Bytes) (keys : List Bytes)
    (weights : List F64) (agg : Bytes) (items : List DsZSet.Item)
    (he : zcoreSpec union (lookup s now) keys weights agg = some (some items))
    (hn : ∀ it ∈ items, F64.isNaN it.1 = false) :
    StoreInv (Api.zstore union s now dst keys weights agg).1 now ∧
    (∀ k', lookup (Api.zstore union s now dst keys weights agg).1 now k' =
      upd (lookup s now) dst (zstorePost items (lookup s now dst)) k') ∧
    (s.listeners = true →
      fl (Api.zstore union s now dst keys weights agg).1 = (zstoreOp union dst items :: s.feed, true)) := by
  obtain ⟨a, b, c⟩ := zstore_look' union h dst keys weights agg items he
  exact ⟨a hn, b, c⟩

/-! ### the record -/

theorem toHex_ne_bar (b : Bytes) : Bytes.toHex b ≠ "|" := by
  unfold Bytes.toHex
  cases b with
  | nil => decide
  | cons x rest =>
    simp only [List.isEmpty_cons, Bool.false_eq_true, if_false, List.flatMap_cons]
    intro hc
    have := congrArg String.toList hc
    simp only [String.toList_ofList] at this
    have h2 : ("|" : String).toList = ['|'] := by decide
    rw [h2] at this
    simp at this

/-- the fields `Feed.emission` adds to a Z*STORE record -/
def zstoreArgs (keys : List Bytes) (weights : List F64) (agg : Bytes) : List String :=
  [Bytes.toHex agg] ++ keys.map Bytes.toHex ++ ["|"] ++ weights.map toString

theorem zstoreArgs_parse (keys : List Bytes) (weights : List F64) :
    ((keys.map Bytes.toHex ++ "|" :: weights.map toString).takeWhile (· ≠ "|")).mapM Feed.pB = some keys ∧
    (((keys.map Bytes.toHex ++ "|" :: weights.map toString).dropWhile (· ≠ "|")).drop 1).mapM Feed.pF = some weights := by
  have hpos : ∀ a ∈ keys.map Bytes.toHex, (decide (a ≠ "|")) = true := by
    intro a ha
    obtain ⟨b, _, rfl⟩ := List.mem_map.mp ha
    simpa using toHex_ne_bar b
  constructor
  · rw [List.takeWhile_append_of_pos hpos]
    simp only [ne_eq, not_true_eq_false, decide_false, Bool.false_eq_true, not_false_eq_true, List.takeWhile_cons_of_neg,
      List.append_nil]
    exact mapM_pB_toHex keys
  · rw [List.dropWhile_append_of_pos hpos]
    simp only [ne_eq, not_true_eq_false, decide_false, Bool.false_eq_true, not_false_eq_true, List.dropWhile_cons_of_neg,
      List.drop_succ_cons, List.drop_zero]
    exact mapM_pF_toString weights

/-- the replica's call for a Z*STORE record -/
theorem applyOp_zstore (union : Bool) (r : MState) (now : Int) (dst : Bytes) (keys : List Bytes) (weights : List F64)
    (agg : Bytes) :
    Feed.applyOp r now { typ := if union then 34 else 35, key := dst, args := zstoreArgs keys weights agg } =
      some (Api.zstore union r now dst keys weights agg).1 := by
  obtain ⟨h1, h2⟩ := zstoreArgs_parse keys weights
  have hargs : zstoreArgs keys weights agg = Bytes.toHex agg :: (keys.map Bytes.toHex ++ "|" :: weights.map toString) := by
    simp [zstoreArgs]
  rw [hargs]
  cases union with
  | true =>
    simp only [if_true, Feed.applyOp]
    rw [h1, h2, pB_toHex]
    rfl
  | false =>
    simp only [Bool.false_eq_true, if_false, Feed.applyOp]
    rw [h1, h2, pB_toHex]
    rfl

/-- `Feed.emission` for the two methods -/
theorem emission_zstore {c : Feed.CallInfo} (hc : c.method = "ZUnionStore" ∨ c.method = "ZInterStore") (out : Out)
    (raw : List FeedOp) :
    Feed.emission c out raw = raw.map fun op =>
      if op.typ == 34 || op.typ == 35 then { op with args := zstoreArgs c.keys c.weights c.aggregate } else op := by
  unfold Feed.emission zstoreArgs
  rcases hc with hc | hc
  · rw [if_neg (by rw [hc]; decide)]
    simp [hc]
  · rw [if_neg (by rw [hc]; decide)]
    simp [hc]

theorem emission_zstoreOp {c : Feed.CallInfo} (hc : c.method = "ZUnionStore" ∨ c.method = "ZInterStore") (out : Out)
    (union : Bool) (dst : Bytes) (items : List DsZSet.Item) :
    Feed.emission c out [zstoreOp union dst items] =
      [if items.isEmpty then { typ := 2, key := dst }
       else { typ := if union then 34 else 35, key := dst, args := zstoreArgs c.keys c.weights c.aggregate }] := by
  rw [emission_zstore hc]
  unfold zstoreOp
  cases items.isEmpty with
  | true => rfl
  | false => cases union <;> rfl

/-! ### main lemma -/

theorem zstore_main (union : Bool) (hs : Same now p r) (hl : p.listeners = true) (hfd : p.feed = [])
    (c : Feed.CallInfo) (hc : c.method = "ZUnionStore" ∨ c.method = "ZInterStore") (dst : Bytes) (keys : List Bytes)
    (weights : List F64) (agg : Bytes) (hk : c.keys = keys) (hw : c.weights = weights) (ha : c.aggregate = agg)
    (hreg : ¬ ZStoreNaN (lookup p now) union keys weights agg) :
    Replay now r c (Api.zstore union p now dst keys weights agg) ∧
    (Api.zstore union p now dst keys weights agg).1.listeners = true ∧
    ∀ o ∈ (Api.zstore union p now dst keys weights agg).1.feed.reverse, o.key = dst := by
  have hfun : lookup r now = lookup p now := funext hs.look
  unfold Replay
  cases he : zcoreSpec union (lookup p now) keys weights agg with
  | none =>
    have kept := zstore_fails union hs.invP dst keys weights agg (Or.inl he)
    have hf1 : (Api.zstore union p now dst keys weights agg).1.feed = [] := (congrArg Prod.fst kept.fl).trans hfd
    refine ⟨⟨r, by rw [hf1, emission_zstore hc]; rfl, hs.kept kept⟩, (congrArg Prod.snd kept.fl).trans hl, ?_⟩
    rw [hf1]; intro o ho; cases ho
  | some res =>
    cases res with
    | none =>
      have kept := zstore_fails union hs.invP dst keys weights agg (Or.inr he)
      have hf1 : (Api.zstore union p now dst keys weights agg).1.feed = [] := (congrArg Prod.fst kept.fl).trans hfd
      refine ⟨⟨r, by rw [hf1, emission_zstore hc]; rfl, hs.kept kept⟩, (congrArg Prod.snd kept.fl).trans hl, ?_⟩
      rw [hf1]; intro o ho; cases ho
    | some items =>
      have hn := noNaN_of_not_region hreg he
      obtain ⟨ip, lp, fp⟩ := zstore_look union hs.invP dst keys weights agg items he hn
      have fp := fp hl
      have hfeed : (Api.zstore union p now dst keys weights agg).1.feed.reverse = [zstoreOp union dst items] := by
        have : (Api.zstore union p now dst keys weights agg).1.feed = _ := congrArg Prod.fst fp
        rw [this, hfd]; rfl
      refine ⟨?_, congrArg Prod.snd fp, ?_⟩
      · rw [hfeed, emission_zstoreOp hc, hk, hw, ha]
        refine main_of ip lp ?_ ?_
        · -- nothing shown afterwards is a nil string
          intro k e
          by_cases hkd : k = dst
          · subst hkd
            rw [upd_same]
            unfold zstorePost
            split
            · intro hc'; cases hc'
            · intro hc'; cases hc'
          · rw [upd_other _ _ _ hkd]; exact hs.nonil k e
        · -- the replica
          rw [← hfun]
          cases hemp : items.isEmpty with
          | true =>
            simp only [if_true]
            have : zstorePost items (lookup r now dst) = none := by simp [zstorePost, hemp]
            rw [this]
            exact replays_del hs.invR dst
          | false =>
            simp only [Bool.false_eq_true, if_false]
            have her : zcoreSpec union (lookup r now) keys weights agg = some (some items) := by rw [hfun]; exact he
            obtain ⟨ir, lr, _⟩ := zstore_look union hs.invR dst keys weights agg items her hn
            exact ⟨_, by simp [Feed.applyAll, applyOp_zstore], ir, lr⟩
      · intro o ho
        rw [hfeed] at ho
        simp only [List.mem_cons, List.not_mem_nil, or_false] at ho
        subst ho
        unfold zstoreOp
        split <;> rfl

/-- a call that hands nothing to the watchers changed nothing (no region needed: a result, even an
    empty one, always emits) -/
theorem zstore_silent (union : Bool) {s : MState} (h : StoreInv s now) (hl : s.listeners = true) (hfd : s.feed = [])
    (c : Feed.CallInfo) (hc : c.method = "ZUnionStore" ∨ c.method = "ZInterStore") (dst : Bytes) (keys : List Bytes)
    (weights : List F64) (agg : Bytes) (hreg : ¬ ZStoreNaN (lookup s now) union keys weights agg)
    (hsil : Feed.emission c (Api.zstore union s now dst keys weights agg).2
      (Api.zstore union s now dst keys weights agg).1.feed.reverse = []) :
    ∀ k, lookup (Api.zstore union s now dst keys weights agg).1 now k = lookup s now k := by
  cases he : zcoreSpec union (lookup s now) keys weights agg with
  | none => exact (zstore_fails union h dst keys weights agg (Or.inl he)).look
  | some res =>
    cases res with
    | none => exact (zstore_fails union h dst keys weights agg (Or.inr he)).look
    | some items =>
      exfalso
      have hn := noNaN_of_not_region hreg he
      obtain ⟨_, _, fp⟩ := zstore_look union h dst keys weights agg items he hn
      have fp := fp hl
      have : (Api.zstore union s now dst keys weights agg).1.feed = _ := congrArg Prod.fst fp
      rw [this, hfd, emission_zstore hc] at hsil
      simp at hsil

end NodisVerif.Proofs.C20
