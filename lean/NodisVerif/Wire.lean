import NodisVerif.Model.Val
/-
  Line-protocol helpers shared by the driver: argument tokens, canonical dumps, FNV-1a digests.
  Token forms:  `-` (empty) | hex | `r<len>x<hh>` (len copies of byte hh) | `c<len>x<hh>` (counting
  pattern: byte i = hh + i mod 251).
-/
namespace NodisVerif.Wire

def splitWs (s : String) : List String := (s.splitOn " ").filter (· ≠ "")

def parsePattern (s : String) : Option Bytes :=
  -- r<len>x<hh> or c<len>x<hh>
  let kind := s.front
  match (s.drop 1).toString.splitOn "x" with
  | [lenS, hh] =>
    match lenS.toNat?, Bytes.ofHex hh with
    | some n, some [b] =>
      if kind = 'r' then some (List.replicate n b)
      else some ((List.range n).map fun i => UInt8.ofNat ((b.toNat + i % 251) % 256))
    | _, _ => none
  | _ => none

def parseArg (s : String) : Option Bytes :=
  if s.startsWith "r" ∨ s.startsWith "c" then
    -- hex strings may start with 'c' too: patterns always contain an 'x'
    if s.contains 'x' then parsePattern s else Bytes.ofHex s
  else Bytes.ofHex s

def fnv64 (b : Bytes) : UInt64 :=
  b.foldl (fun h x => (h ^^^ x.toUInt64) * 1099511628211) 14695981039346656037

def hex64 (x : UInt64) : String :=
  String.ofList ((List.range 16).reverse.map fun i => Bytes.hexDigit ((x.toNat >>> (4 * i)) % 16))

/-- short values in full, long ones as length + digest -/
def showBytes (b : Bytes) : String :=
  if b.length ≤ 64 then Bytes.toHex b else s!"#{b.length}:{hex64 (fnv64 b)}"

def joinWith (sep : String) (xs : List String) : String := sep.intercalate xs

def dumpVal : Val → String
  | .str v => "str:" ++ showBytes v
  | .strNil => "str:-"
  | .list l => s!"list:{l.length}:" ++ joinWith "," (l.items.map showBytes)
  | .hash h => "hash:" ++ joinWith "," (h.map fun (k, v) => showBytes k ++ "=" ++ showBytes v)
  | .set s => "set:" ++ joinWith "," (s.map fun (k, _) => showBytes k)
  | .zset z => "zset:" ++ joinWith "," (z.dict.map fun (m, sc) => showBytes m ++ "=" ++ hex64 sc)
      ++ "|" ++ joinWith "," (z.sl.map fun (sc, m) => showBytes m ++ "=" ++ hex64 sc)

/-- digest of a long dump, full text of a short one -/
def compact (s : String) : String :=
  if s.length ≤ 400 then s else s!"#{s.length}:{hex64 (fnv64 s.toUTF8.toList)}"

end NodisVerif.Wire
