/-
  Basic definitions shared by every model: byte strings, hex transport encoding,
  Go's strconv.ParseInt/FormatInt (base 10, 64 bit), bytewise lexicographic order.
  Core Lean only (no Mathlib) so that the driver links as a lean_exe.
-/
namespace NodisVerif

abbrev Bytes := List UInt8

namespace Bytes

/-- bytewise lexicographic `<` — this is Go's string `<` and `btree.Map[string,_]`'s order -/
def lt : Bytes → Bytes → Bool
  | [], [] => false
  | [], _ :: _ => true
  | _ :: _, [] => false
  | a :: as, b :: bs => if a < b then true else if b < a then false else lt as bs

def le (a b : Bytes) : Bool := !(lt b a)

def ofString (s : String) : Bytes := s.toUTF8.toList

def hexDigit (n : Nat) : Char :=
  if n < 10 then Char.ofNat (48 + n) else Char.ofNat (87 + n)

def toHex (b : Bytes) : String :=
  if b.isEmpty then "-" else
  String.ofList (b.flatMap fun x => [hexDigit (x.toNat / 16), hexDigit (x.toNat % 16)])

def hexVal (c : Char) : Option Nat :=
  if '0' ≤ c ∧ c ≤ '9' then some (c.toNat - 48)
  else if 'a' ≤ c ∧ c ≤ 'f' then some (c.toNat - 87)
  else if 'A' ≤ c ∧ c ≤ 'F' then some (c.toNat - 55)
  else none

def ofHexChars : List Char → Option Bytes
  | [] => some []
  | [_] => none
  | a :: b :: rest => do
    let x ← hexVal a
    let y ← hexVal b
    let r ← ofHexChars rest
    pure (UInt8.ofNat (x * 16 + y) :: r)

def ofHex (s : String) : Option Bytes :=
  if s == "-" then some [] else ofHexChars s.toList

end Bytes

/-! ### Go `strconv` integers -/

def isDigit (b : UInt8) : Bool := 48 ≤ b ∧ b ≤ 57

def digitsToNat : List UInt8 → Nat → Nat
  | [], acc => acc
  | d :: ds, acc => digitsToNat ds (acc * 10 + (d.toNat - 48))

def int64Min : Int := -9223372036854775808
def int64Max : Int := 9223372036854775807

def inInt64 (x : Int) : Bool := int64Min ≤ x ∧ x ≤ int64Max

/-- two's-complement wrap to int64, as Go's `+`/`-`/`*` on int64 -/
def wrap64 (x : Int) : Int :=
  let m : Int := 18446744073709551616
  let r := x % m            -- 0 ≤ r < 2^64 (Int.emod is non-negative for positive modulus)
  if r > int64Max then r - m else r

/-- `strconv.ParseInt(s, 10, 64)`: optional sign, then one or more decimal digits, in range. -/
def parseInt64 (s : Bytes) : Option Int :=
  let (neg, ds) := match s with
    | 43 :: r => (false, r)     -- '+'
    | 45 :: r => (true, r)      -- '-'
    | r => (false, r)
  if ds.isEmpty then none
  else if !ds.all isDigit then none
  else
    let n := digitsToNat ds 0
    let v : Int := if neg then -(n : Int) else (n : Int)
    if inInt64 v then some v else none

def natDigits (n : Nat) : List UInt8 := (toString n).toUTF8.toList

/-- `strconv.FormatInt(x, 10)` -/
def formatInt (x : Int) : Bytes :=
  if x < 0 then 45 :: natDigits x.natAbs else natDigits x.toNat

end NodisVerif
