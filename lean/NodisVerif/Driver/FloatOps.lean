import NodisVerif.Wire
import NodisVerif.Model.Codec
import NodisVerif.Model.FloatDec
/- driver commands for the float text table (strconv.ParseFloat / FormatFloat against Model/FloatDec) -/
namespace NodisVerif.Driver
open Wire

def floatOp (toks : List String) : String :=
  match toks with
  | ["fmtfloat", h] =>
    (match parseArg h with
     | some b =>
       if b.length ≠ 8 then "bad-op" else
       let x : F64 := Codec.leU64 b.reverse
       let t := FloatDec.formatShortest x
       let back := match FloatDec.parseFloat t with
         | some (some v) => hex64 v
         | some none => "E"
         | none => "OUTSIDE"
       s!"fmt={showBytes t} back={back}"
     | none => "bad-op")
  | ["parsefloat", t] =>
    (match parseArg t with
     | some b =>
       (match FloatDec.parseFloat b with
        | some (some v) => s!"v={hex64 v} fmt={showBytes (FloatDec.formatShortest v)}"
        | some none => "E"
        | none => "OUTSIDE")
     | none => "bad-op")
  | _ => "bad-op"

end NodisVerif.Driver
