import NodisVerif.Model.BlockProg
/-
  Replay of a recorded `bev` trace (the wake-up steps list.go reports through verifTrace) against the PROGRAM model
  `Model/BlockProg.lean`: every waiter and every push round of the trace is a thread of the model; between two
  consecutive events of a thread its pc path is deterministic given the shared state, so a line is replayed by running
  that thread through its silent transitions until it emits an event, which must be the event of the line.

  Lines (besides the `bev` lines of the harness):
    bpp call <w> <tmo> <key>...   inserted by bin/checks/conc.py in front of the first `reg` of waiter w: the arguments
                                  of the call (keys = its `reg` lines, sign of the timeout = its `block` line)
    bpp b <id> <key>              `verifTrace("bp-push", true)`: a push has taken the registry lock (shared) and found
                                  an entry for the key: thread <id> runs p2, p3
    bpp e <id> <key>              `verifTrace("bp-push", false)`: the round is over (p5), RUnlock (p6)
  What the trace does not show is supplied before the step (and only this):
    * the outcome of `pop` (other clients' commands on the lists are not in the trace): the list length / type of the
      key of a `try` / panicking pop is set so that the model's pop has the recorded outcome;
    * the buffer of the channel at a `wake`: the hook reports `notify` before the send and `wake` after the receive, so
      the buffer cannot be reconstructed from the report order; like `Block.stepLoose` the replay counts tokens
      (a wake-up consumed was offered before) and fills the buffer when one is left;
    * the key lock of a push (p1, p7) is outside the hooks: push threads run from p2 to p6.
  What IS checked beyond `stepLoose`: registration and unregistration happen with the registry lock held exclusively
  and a push round with the lock held shared (no `reg` / `unreg` inside a round, no round inside a registration); a
  round offers a wake-up to exactly the channels in the key's cList, in list order (most recent first), and ends only
  after the last one; `unreg` removes keys in argument order; the loop structure of blockingPop.
-/
namespace NodisVerif.Driver
open NodisVerif.Block (Ev Key)
open NodisVerif.BlockProg

structure BPReplay where
  sys     : Sys := {}
  tokens  : Tid → Nat := fun _ => 0      -- wake-ups offered and not yet consumed, by report order
instance : Inhabited BPReplay := ⟨{}⟩

def evEq : Ev → Ev → Bool
  | .reg a k, .reg b k' => a == b && k == k'
  | .try_ a k g, .try_ b k' g' => a == b && k == k' && g == g'
  | .block a t, .block b t' => a == b && t == t'
  | .wake a, .wake b => a == b
  | .timeout a, .timeout b => a == b
  | .notify a k, .notify b k' => a == b && k == k'
  | .abort a, .abort b => a == b
  | .unreg a k, .unreg b k' => a == b && k == k'
  | .fin a, .fin b => a == b
  | _, _ => false

def evWaiter : Ev → Tid
  | .reg w _ | .try_ w _ _ | .block w _ | .wake w | .timeout w | .notify w _ | .abort w | .unreg w _ | .fin w => w

def pcName (σ : Sys) (t : Tid) : String := toString (repr (σ.thr t).pc)

/-- run thread `t` through silent transitions until it emits an event; it must be `want` -/
def runTo (σ : Sys) (t : Tid) (ch : Choice) (want : Ev) : Nat → Except String Sys
  | 0 => .error "no event within the fuel"
  | fuel + 1 =>
    match σ.step t ch with
    | none => .error s!"thread {t} is blocked at {pcName σ t}"
    | some (σ', none) => runTo σ' t ch want fuel
    | some (σ', some e) =>
      if evEq e want then .ok σ' else .error s!"thread {t} at {pcName σ t} emits {repr e}"

/-- the releases that follow an event without a hook of their own: Unlock after the last `reg` / `unreg` (+ `fin`) -/
def bpRelease (σ : Sys) (t : Tid) : Nat → Sys
  | 0 => σ
  | fuel + 1 =>
    match (σ.thr t).pc with
    | .r3 | .u3 =>
      match σ.step t {} with
      | some (σ', _) => bpRelease σ' t fuel
      | none => σ
    | _ => σ

def setCell (σ : Sys) (k : Key) (cnt : Nat) (wrong : Bool) : Sys :=
  { σ with sh := { σ.sh with lists := upd σ.sh.lists k cnt, wrong := upd σ.sh.wrong k wrong } }

/-- the key the thread pops next -/
def nextKey (σ : Sys) (t : Tid) : Option Key :=
  let l := σ.thr t
  match l.pc with
  | .l0 => l.keys[0]?
  | .l1 => l.keys[l.i]?
  | _ => none

def bpStepEv (r : BPReplay) (e : Ev) : Except String BPReplay :=
  match e with
  | .notify w k =>
    -- the push round that is at w in the cList of k
    match r.sys.sh.bmu.readers.find? (fun p => let l := r.sys.thr p; l.pc == .p4 && l.key == k && l.todo.head? == some w) with
    | none => .error s!"no push round on the key is at waiter {w}"
    | some p =>
      match runTo r.sys p {} e 2 with
      | .error m => .error m
      | .ok σ => .ok { r with sys := σ, tokens := upd r.tokens w (r.tokens w + 1) }
  | .try_ w k got =>
    let σ := setCell r.sys k (if got then max 1 (r.sys.sh.lists k) else 0) false
    (runTo σ w {} e 4).map fun σ => { r with sys := bpRelease σ w 2 }
  | .abort w =>
    let σ := match nextKey r.sys w with
      | some k => setCell r.sys k (r.sys.sh.lists k) true
      | none => r.sys
    (runTo σ w {} e 4).map fun σ => { r with sys := bpRelease σ w 2 }
  | .wake w =>
    if r.tokens w == 0 then .error s!"waiter {w} consumes a wake-up that was never offered" else
    let σ := { r.sys with sh := { r.sys.sh with full := upd r.sys.sh.full w true } }
    (runTo σ w {} e 2).map fun σ => { r with sys := σ, tokens := upd r.tokens w (r.tokens w - 1) }
  | .timeout w => (runTo r.sys w { timer := true } e 2).map fun σ => { r with sys := σ }
  | .reg w _ | .block w _ | .unreg w _ | .fin w =>
    (runTo r.sys w {} e (4 + (r.sys.thr w).keys.length)).map fun σ => { r with sys := bpRelease σ w 2 }

def bpCall (r : BPReplay) (w : Tid) (tmo : Int) (keys : List Key) : Except String BPReplay :=
  match r.sys.step w { call := .bpop keys tmo } with
  | some (σ, _) => if (r.sys.thr w).pc == .idle then .ok { sys := σ, tokens := upd r.tokens w 0 } else .error s!"thread {w} is not idle"
  | none => .error s!"thread {w} cannot start a blocking pop"

def bpPushBegin (r : BPReplay) (p : Tid) (k : Key) : Except String BPReplay :=
  let σ0 : Sys := { r.sys with thr := upd r.sys.thr p { pc := .p2, key := k, n := 1 } }
  match σ0.step p {} with
  | none => .error s!"push {p}: the registry lock is held exclusively by thread {repr r.sys.sh.bmu.writer}"
  | some (σ1, _) =>
    match σ1.step p {} with
    | none => .error "push: p3 disabled"
    | some (σ2, _) =>
      if (σ2.thr p).pc == .p6 then .error s!"push {p}: a round on a key without an entry in the registry" else .ok { r with sys := σ2 }

def bpPushEnd (r : BPReplay) (p : Tid) : Except String BPReplay :=
  let l := r.sys.thr p
  if l.pc != .p5 then .error s!"push {p}: the round ends at {pcName r.sys p} with {l.todo} not offered a wake-up" else
  match r.sys.step p {} with
  | none => .error "push: p5 disabled"
  | some (σ1, _) =>
    match σ1.step p {} with
    | none => .error "push: p6 disabled"
    | some (σ2, _) => .ok { r with sys := { σ2 with thr := upd σ2.thr p {} } }

def parseInt (s : String) : Option Int :=
  if s.startsWith "-" then (s.drop 1).toNat?.map fun n => -(n : Int) else s.toNat?.map fun n => (n : Int)

def fin (x : Except String BPReplay) (r : BPReplay) : BPReplay × String :=
  match x with
  | .ok r' => (r', "ok")
  | .error m => (r, "rejected-prog " ++ m)

/-- `bpp ...` lines -/
def bpProgOp (r : BPReplay) (toks : List String) : BPReplay × String :=
  match toks with
  | "call" :: w :: tmo :: keys =>
    match w.toNat?, parseInt tmo with
    | some w, some tmo => fin (bpCall r w tmo keys) r
    | _, _ => (r, "bad-op")
  | ["b", p, k] => match p.toNat? with | some p => fin (bpPushBegin r p k) r | none => (r, "bad-op")
  | ["e", p, _] => match p.toNat? with | some p => fin (bpPushEnd r p) r | none => (r, "bad-op")
  | _ => (r, "bad-op")

/-- a `bev` line, after the protocol model has accepted it; a waiter without a `call` line is not replayed -/
def bpProgEv (r : BPReplay) (e : Ev) (w : Tid) : BPReplay × String :=
  if (r.sys.thr w).pc == .idle && (match e with | .notify _ _ => false | _ => true) then (r, "ok")
  else fin (bpStepEv r e) r

end NodisVerif.Driver
