import NodisVerif.Wire
import NodisVerif.Model.Codec
/- driver commands for the codec correspondence (C14) -/
namespace NodisVerif.Driver
open Wire

def pairs {α} : List α → List (α × α)
  | a :: b :: rest => (a, b) :: pairs rest
  | _ => []

def parseArgs (ts : List String) : Option (List Bytes) := ts.mapM parseArg

/-- 16 hex digits (big-endian, as printed by the harness) → bit pattern -/
def bitsOfBytes (b : Bytes) : UInt64 := Codec.leU64 b.reverse

def buildVal (typ : String) (args : List Bytes) : Option Val :=
  match typ with
  | "str" => some (.str (args.headD []))
  | "list" => some (.list (DsList.rpush DsList.empty args))
  | "hash" => some (.hash ((pairs args).foldl (fun h (k, v) => (DsHash.hset h k v).1) []))
  | "set" => some (.set (DsSet.sadd [] args).1)
  | "zset" => some (.zset ((pairs args).foldl (fun z (m, bits) => (DsZSet.zAdd z m (bitsOfBytes bits)).1) DsZSet.empty))
  | _ => none

def codecOp (toks : List String) : String :=
  match toks with
  | ["ck", name, exp] =>
    (match parseArg name, exp.toInt? with
     | some n, some e =>
       let enc := Codec.encodeKey n e
       let dec := match Codec.decodeKey enc with
         | none => "N"
         | some (n', e') => s!"{showBytes n'}:{e'}"
       s!"enc={showBytes enc} dec={dec}"
     | _, _ => "bad-op")
  | ["dk", b] =>
    (match parseArg b with
     | some b =>
       (match Codec.decodeKey b with
        | none => "N"
        | some (n', e') => s!"{showBytes n'}:{e'}")
     | none => "bad-op")
  | "ev" :: typ :: rest =>
    (match parseArgs rest with
     | none => "bad-op"
     | some args =>
       match buildVal typ args with
       | none => "bad-op"
       | some v =>
         let payload := Codec.encodeVal v
         let dec := match Codec.decodeEntry (Codec.encodeEntry v) with
           | none => "P"
           | some v' => compact (dumpVal v')
         s!"orig={compact (dumpVal v)} enc={showBytes payload} dec={dec}")
  | _ => "bad-op"

end NodisVerif.Driver
