import NodisVerif.Wire
import NodisVerif.Model.Handler
/- driver commands for the RESP-level correspondence: `resp <conn> <name> <args…> now=… [choice=…]` -/
namespace NodisVerif.Driver
open Wire Resp

def fmtTok : Tok → String
  | .simple s => if s = Bytes.ofString "UNSUPPORTED" then "UNSUPPORTED" else "+" ++ Bytes.toHex s
  | .err 1 => "-W"
  | .err 2 => "-X"
  | .err _ => "-E"
  | .int n => s!":{n}"
  | .bulk b => "$" ++ showBytes b
  | .nullBulk => "$N"
  | .arr n => s!"*{n}"
  | .nullArr => "*N"

/-- the part of INFO's text that is compared: the `# Keyspace` section up to the average TTL (which
    depends on the server's own reading of the clock) -/
def cutAvgTtl : Bytes → Bytes
  | [] => []
  | b :: rest =>
    if (b :: rest).take 9 = Bytes.ofString ",avg_ttl=" then [] else b :: cutAvgTtl rest

def pairUp : List String → List String
  | a :: b :: r => (a ++ " " ++ b) :: pairUp r
  | _ => []

/-- same canonicalisation as the harness: replies whose pair order comes out of a Go map -/
def canonical (name : String) (ts : List Tok) : List String :=
  let ts := if name == "INFO" then ts.map (fun t => match t with | .bulk b => .bulk (cutAvgTtl b) | t => t) else ts
  let out := ts.map fmtTok
  let at? : Option Nat := if name == "HGETALL" then some 0 else if name == "HSCAN" then some 2 else none
  match at? with
  | some ix =>
    let isArr : Bool := match ts[ix]? with | some (.arr _) => true | _ => false
    if decide (ix < ts.length) && oneValue ts && isArr then
      let body := out.drop (ix + 1)
      let pairs := ((pairUp body).toArray.qsort (· < ·)).toList
      out.take (ix + 1) ++ pairs
    else out
  | none => out

/-- further families are added to this list by Handler2/Handler3 -/
def lookup (tables : List (String → List Bytes → Option HRes)) (name : String) (args : List Bytes) : Option HRes :=
  tables.findSome? fun t => t name args

def respStep (tables : List (String → List Bytes → Option HRes)) (sv : Server) (id : String) (now : Int)
    (argv : List Bytes) (ch : Choice) : Server × String :=
  match argv with
  | [] => (sv, "bad-op")
  | nameB :: args =>
    let name := String.fromUTF8! (ByteArray.mk (upper nameB).toArray)
    let (sv, toks) : Server × List Tok :=
      match name with
      | "MULTI" => Server.multi sv id
      | "EXEC" => Server.exec sv id now
      | "DISCARD" => Server.discard sv id
      | "WATCH" => Server.watch sv id args
      | "UNWATCH" =>
        -- the closure clears the connection's own flags when it runs (immediately, or at EXEC,
        -- where the reset clears them anyway)
        let c := sv.conn id
        let sv := if c.state = 0 ∨ c.state = multiCommit then Server.unwatchBody id sv else sv
        Server.execCommand sv id now ch fun s _ _ => { store := s, toks := [Tok.simple (Bytes.ofString "OK")] }
      | _ =>
        match lookup tables name args with
        | none => (sv, [Tok.err 0])
        | some (.direct ts) => (sv, ts)
        | some .crash => (sv, [Tok.err 0])
        | some (.exec b) => Server.execCommand sv id now ch b
    let sv := Server.afterHandler sv id toks
    (sv, joinWith " " (canonical name toks))

/-- one raw step returning tokens (no canonical rendering) -/
def respToks (tables : List (String → List Bytes → Option HRes)) (sv : Server) (id : String) (now : Int)
    (argv : List Bytes) : Server × List Tok :=
  match argv with
  | [] => (sv, [])
  | nameB :: args =>
    let name := String.fromUTF8! (ByteArray.mk (upper nameB).toArray)
    let (sv, toks) : Server × List Tok :=
      match lookup tables name args with
      | none => (sv, [Tok.err 0])
      | some (.direct ts) => (sv, ts)
      | some .crash => (sv, [Tok.err 0])
      | some (.exec b) => Server.execCommand sv id now none b
    (Server.afterHandler sv id toks, toks)

/-- `scanall`: follow the cursor from 0 until 0 comes back, as a client would -/
def scanAll (tables : List (String → List Bytes → Option HRes)) (sv : Server) (id : String) (now : Int)
    (template : List (Option Bytes)) : Nat → Bytes → Nat → List Bytes → Server × String
  | 0, cursor, calls, elems =>
    (sv, s!"calls={calls} n={elems.length} last={String.fromUTF8! (ByteArray.mk cursor.toArray)} elems=" ++
      compact (joinWith "," ((elems.map Bytes.toHex).toArray.qsort (· < ·)).toList))
  | fuel + 1, cursor, calls, elems =>
    let argv := template.map fun a => a.getD cursor
    let (sv, toks) := respToks tables sv id now argv
    let calls := calls + 1
    match toks with
    | .arr 2 :: .bulk next :: .arr _ :: rest =>
      let elems := elems ++ rest.filterMap fun t => match t with | .bulk b => some b | _ => none
      if next = [48] ∨ calls ≥ 5000 then
        (sv, s!"calls={calls} n={elems.length} last={String.fromUTF8! (ByteArray.mk next.toArray)} elems=" ++
          compact (joinWith "," ((elems.map Bytes.toHex).toArray.qsort (· < ·)).toList))
      else scanAll tables sv id now template fuel next calls elems
    | _ => (sv, s!"calls={calls} !SHAPE " ++ joinWith " " (toks.map fmtTok))

end NodisVerif.Driver
