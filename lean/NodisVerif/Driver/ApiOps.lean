import NodisVerif.Wire
import NodisVerif.Model.Api
import NodisVerif.Model.Handler4
/- driver commands for the API-level correspondence: `api <Method> <tokens…> now=<ms> [choice=…]` -/
namespace NodisVerif.Driver
open Wire

def fmtItem (it : Option Item) : String :=
  match it with
  | none => "N"
  | some (sc, m) => s!"{showBytes m}={hex64 sc}"

def fmtOB (b : Option Bytes) : String :=
  match b with
  | none => "N"
  | some v => "B" ++ showBytes v

partial def fmtOut (sorted : Bool) : Out → String
  | .unit => "U"
  | .int n => s!"I{n}"
  | .bool b => if b then "T" else "F"
  | .bytes b => fmtOB b
  | .str s => "S" ++ showBytes s
  | .err e => if e then "E" else "-"
  | .f64 x => "D" ++ hex64 x
  | .blist xs => "A[" ++ joinWith "," (xs.map fmtOB) ++ "]"
  | .slist xs => "A[" ++ joinWith "," (xs.map showBytes) ++ "]"
  | .ilist xs =>
    let parts := xs.map fmtItem
    let parts := if sorted then (parts.toArray.qsort (· < ·)).toList else parts
    "A[" ++ joinWith "," parts ++ "]"
  | .bmap m => "M[" ++ joinWith "," (m.map fun (k, v) => showBytes k ++ "=" ++ fmtOB v) ++ "]"
  | .item i => "Z(" ++ fmtItem i ++ ")"
  | .many xs => joinWith " " (xs.map (fmtOut sorted))
  | .panic => "P"
  | .hang => "HANG"
  | .unsupported => "UNSUPPORTED"

/-- parsed argument groups: a bare token or a bracketed group -/
inductive Grp
  | one (t : String)
  | many (ts : List String)

def groups : List String → List Grp
  | [] => []
  | "[" :: rest =>
    let inner := rest.takeWhile (· ≠ "]")
    .many inner :: groups (rest.drop (inner.length + 1))
  | t :: rest => .one t :: groups rest
termination_by l => l.length
decreasing_by all_goals simp_wf <;> omega

def gB : Grp → Option Bytes | .one t => parseArg t | _ => none
def gI : Grp → Option Int | .one t => t.toInt? | _ => none
def gT : Grp → Option Bool | .one t => some (t == "1") | _ => none
def hexToU64 (t : String) : Option UInt64 :=
  t.toList.foldlM (fun (acc : Nat) c => (Bytes.hexVal c).map (acc * 16 + ·)) 0 |>.map UInt64.ofNat
def gF : Grp → Option F64 | .one t => hexToU64 t | _ => none
def gBs : Grp → Option (List Bytes) | .many ts => ts.mapM parseArg | _ => none
def gFs : Grp → Option (List F64) | .many ts => ts.mapM hexToU64 | _ => none
def restB (gs : List Grp) : Option (List Bytes) := gs.mapM gB

def pairsB : List Bytes → List (Bytes × Bytes)
  | a :: b :: r => (a, b) :: pairsB r
  | _ => []

/-- dedupe by key keeping the last value, as building a Go map from pairs does -/
def mapOfPairs (ps : List (Bytes × Bytes)) : List (Bytes × Bytes) :=
  ps.foldl (fun (m : AList Bytes) (k, v) => AList.set m k v) []

/-- `<member>:<longitude bits>:<latitude bits>` tokens of the GeoAdd family -/
def geoItems (items : List Grp) : Option (List (Bytes × F64)) :=
  items.mapM fun g => match g with
    | .one t => (match t.splitOn ":" with
      | [m, lo, la] => do pure ((← parseArg m), Handler4.geoScore (← hexToU64 lo) (← hexToU64 la))
      | _ => none)
    | _ => none

open Api in
def callApi (s : MState) (now : Int) (method : String) (gs : List Grp) (choice : Option (List Bytes)) : Option (MState × Out) :=
  match method, gs with
  | "Del", r => do let ks ← restB r; pure (del s now ks)
  | "Unlink", r => do let ks ← restB r; pure (del s now ks)
  | "Exists", r => do let ks ← restB r; pure (exists_ s now ks)
  | "Expire", [k, n] => do pure (expire s now (← gB k) (← gI n))
  | "ExpirePX", [k, n] => do pure (expirePX s now (← gB k) (← gI n))
  | "ExpireNX", [k, n] => do pure (expireNX s now (← gB k) (← gI n))
  | "ExpireXX", [k, n] => do pure (expireXX s now (← gB k) (← gI n))
  | "ExpireLT", [k, n] => do pure (expireLT s now (← gB k) (← gI n))
  | "ExpireGT", [k, n] => do pure (expireGT s now (← gB k) (← gI n))
  | "ExpireAt", [k, n] => do pure (expireAt s now (← gB k) (← gI n))
  | "ExpireAtNX", [k, n] => do pure (expireAtNX s now (← gB k) (← gI n))
  | "ExpireAtXX", [k, n] => do pure (expireAtXX s now (← gB k) (← gI n))
  | "ExpireAtLT", [k, n] => do pure (expireAtLT s now (← gB k) (← gI n))
  | "ExpireAtGT", [k, n] => do pure (expireAtGT s now (← gB k) (← gI n))
  | "Keys", [p] => do pure (keys s now (← gB p))
  | "RandomKey", [] => pure (randomKey s now (choice.bind (·.head?)))
  | "TTL", [k] => do pure (ttl s now (← gB k))
  | "PTTL", [k] => do pure (pttl s now (← gB k))
  | "Rename", [a, b] => do pure (rename s now (← gB a) (← gB b))
  | "RenameNX", [a, b] => do pure (renameNX s now (← gB a) (← gB b))
  | "Type", [k] => do pure (type_ s now (← gB k))
  | "Scan", [c, p, n, t] => do pure (scan s now (← gI c) (← gB p) (← gI n) (← gI t).toNat)
  | "Persist", [k] => do pure (persist s now (← gB k))
  | "Clear", [] => pure (Store.clear s, .unit)
  -- strings
  | "Set", [k, v, t] => do pure (set s now (← gB k) (← gB v) (← gT t))
  | "GetSet", [k, v] => do pure (getSet s now (← gB k) (← gB v))
  | "SetEX", [k, v, n] => do pure (setEX s now (← gB k) (← gB v) (← gI n))
  | "SetPX", [k, v, n] => do pure (setPX s now (← gB k) (← gB v) (← gI n))
  | "SetNX", [k, v, t] => do pure (setNX s now (← gB k) (← gB v) (← gT t))
  | "SetXX", [k, v, t] => do pure (setXX s now (← gB k) (← gB v) (← gT t))
  | "Get", [k] => do pure (get s now (← gB k))
  | "Incr", [k] => do pure (addInt s now (← gB k) 1 false false)
  | "IncrBy", [k, n] => do pure (addInt s now (← gB k) (← gI n) false true)
  | "Decr", [k] => do pure (addInt s now (← gB k) 1 true false)
  | "DecrBy", [k, n] => do pure (addInt s now (← gB k) (← gI n) true false)
  | "IncrByFloat", [k, f] => do pure (incrByFloat s now (← gB k) (← gF f))
  | "SetBit", [k, o, t] => do pure (setBit s now (← gB k) (← gI o) (← gT t))
  | "GetBit", [k, o] => do pure (getBit s now (← gB k) (← gI o))
  | "BitCount", [k, a, b, t] => do pure (bitCount s now (← gB k) (← gI a) (← gI b) (← gT t))
  | "Append", [k, v] => do pure (append s now (← gB k) (← gB v))
  | "GetRange", [k, a, b] => do pure (getRange s now (← gB k) (← gI a) (← gI b))
  | "StrLen", [k] => do pure (strLen s now (← gB k))
  | "SetRange", [k, o, v] => do pure (setRange s now (← gB k) (← gI o) (← gB v))
  | "MSet", r => do pure (mset s now (← restB r))
  -- lists
  | "LPush", k :: r => do pure (push true s now (← gB k) (← restB r))
  | "RPush", k :: r => do pure (push false s now (← gB k) (← restB r))
  | "LPop", [k, n] => do pure (pop true s now (← gB k) (← gI n))
  | "RPop", [k, n] => do pure (pop false s now (← gB k) (← gI n))
  | "LLen", [k] => do pure (llen s now (← gB k))
  | "LIndex", [k, i] => do pure (lindex s now (← gB k) (← gI i))
  | "LInsert", [k, p, d, t] => do pure (linsert s now (← gB k) (← gB p) (← gB d) (← gT t))
  | "LPushX", [k, d] => do pure (pushX true s now (← gB k) (← gB d))
  | "RPushX", [k, d] => do pure (pushX false s now (← gB k) (← gB d))
  | "LRem", [k, d, n] => do pure (lrem s now (← gB k) (← gB d) (← gI n))
  | "LSet", [k, i, d] => do pure (lset s now (← gB k) (← gI i) (← gB d))
  | "LTrim", [k, a, b] => do pure (ltrim s now (← gB k) (← gI a) (← gI b))
  | "LRange", [k, a, b] => do pure (lrange s now (← gB k) (← gI a) (← gI b))
  | "LPopRPush", [a, b] => do pure (rotate true s now (← gB a) (← gB b))
  | "RPopLPush", [a, b] => do pure (rotate false s now (← gB a) (← gB b))
  -- hashes
  | "HSet", [k, f, v] => do pure (hset s now (← gB k) (← gB f) (← gB v))
  | "HGet", [k, f] => do pure (hget s now (← gB k) (← gB f))
  | "HDel", k :: r => do pure (hdel s now (← gB k) (← restB r))
  | "HLen", [k] => do pure (hlen s now (← gB k))
  | "HKeys", [k] => do pure (hkeys s now (← gB k))
  | "HVals", [k] => do pure (hvals s now (← gB k))
  | "HGetAll", [k] => do pure (hgetall s now (← gB k))
  | "HExists", [k, f] => do pure (hexists s now (← gB k) (← gB f))
  | "HStrLen", [k, f] => do pure (hstrlen s now (← gB k) (← gB f))
  | "HMGet", k :: r => do pure (hmget s now (← gB k) (← restB r))
  | "HScan", [k, c, p, n] => do pure (hscan s now (← gB k) (← gI c) (← gB p) (← gI n))
  | "HIncrBy", [k, f, n] => do pure (hincrby s now (← gB k) (← gB f) (← gI n))
  | "HIncrByFloat", [k, f, x] => do pure (hincrbyfloat s now (← gB k) (← gB f) (← gF x))
  | "HSetNX", [k, f, v] => do pure (hsetnx s now (← gB k) (← gB f) (← gB v))
  | "HMSet", [k, m] => do pure (hmset s now (← gB k) (mapOfPairs (pairsB (← gBs m))))
  | "HClear", [k] => do let (s, _) := del s now [← gB k]; pure (s, .unit)
  -- sets
  | "SAdd", k :: r => do pure (sadd s now (← gB k) (← restB r))
  | "SCard", [k] => do pure (scard s now (← gB k))
  | "SMembers", [k] => do pure (smembers s now (← gB k))
  | "SIsMember", [k, m] => do pure (sismember s now (← gB k) (← gB m))
  | "SScan", [k, c, p, n] => do pure (sscan s now (← gB k) (← gI c) (← gB p) (← gI n))
  | "SDiff", r => do pure (sdiff s now (← restB r))
  | "SInter", r => do pure (sinter s now (← restB r))
  | "SUnion", r => do pure (sunion s now (← restB r))
  | "SDiffStore", d :: r => do pure (sstore sdiff s now (← gB d) (← restB r))
  | "SInterStore", d :: r => do pure (sstore sinter s now (← gB d) (← restB r))
  | "SUnionStore", d :: r => do pure (sstore sunion s now (← gB d) (← restB r))
  | "SRem", k :: r => do pure (srem s now (← gB k) (← restB r))
  | "SPop", [k, n] => do pure (spop s now (← gB k) (← gI n) (choice.getD []))
  | "SRandMember", [k, n] => do pure (srandmember s now (← gB k) (← gI n) (choice.getD []))
  | "SMove", [a, b, m] => do pure (smove s now (← gB a) (← gB b) (← gB m))
  -- sorted sets
  | "GeoAdd", k :: items => do
    pure (Handler4.geoAdd s now (← gB k) (← geoItems items))
  | "GeoAddNX", k :: items => do
    pure (Handler4.geoAddNX s now (← gB k) (← geoItems items))
  | "GeoAddXX", k :: items => do
    pure (Handler4.geoAddXX s now (← gB k) (← geoItems items))
  | "ZAdd", [k, m, f] => do pure (zadd s now (← gB k) (← gB m) (← gF f))
  | "ZAddXX", [k, m, f] => do pure (zaddXX s now (← gB k) (← gB m) (← gF f))
  | "ZAddNX", [k, m, f] => do pure (zaddNX s now (← gB k) (← gB m) (← gF f))
  | "ZAddLT", [k, m, f] => do pure (zaddLT s now (← gB k) (← gB m) (← gF f))
  | "ZAddGT", [k, m, f] => do pure (zaddGT s now (← gB k) (← gB m) (← gF f))
  | "ZCard", [k] => do pure (zcard s now (← gB k))
  | "ZRank", [k, m] => do pure (zrank s now (← gB k) (← gB m))
  | "ZRevRank", [k, m] => do pure (zrevrank s now (← gB k) (← gB m))
  | "ZRankWithScore", [k, m] => do pure (rankWithScore false s now (← gB k) (← gB m))
  | "ZRevRankWithScore", [k, m] => do pure (rankWithScore true s now (← gB k) (← gB m))
  | "ZScore", [k, m] => do pure (zscore s now (← gB k) (← gB m))
  | "ZIncrBy", [k, m, f] => do pure (zincrby s now (← gB k) (← gB m) (← gF f))
  | "ZRange", [k, a, b] => do pure (zrange false false s now (← gB k) (← gI a) (← gI b))
  | "ZRangeWithScores", [k, a, b] => do pure (zrange false true s now (← gB k) (← gI a) (← gI b))
  | "ZRevRange", [k, a, b] => do pure (zrange true false s now (← gB k) (← gI a) (← gI b))
  | "ZRevRangeWithScores", [k, a, b] => do pure (zrange true true s now (← gB k) (← gI a) (← gI b))
  | "ZRangeByScore", [k, a, b, o, c, m] => do pure (zrangeByScore false false s now (← gB k) (← gF a) (← gF b) (← gI o) (← gI c) (← gI m))
  | "ZRangeByScoreWithScores", [k, a, b, o, c, m] => do pure (zrangeByScore false true s now (← gB k) (← gF a) (← gF b) (← gI o) (← gI c) (← gI m))
  | "ZRevRangeByScore", [k, a, b, o, c, m] => do pure (zrangeByScore true false s now (← gB k) (← gF a) (← gF b) (← gI o) (← gI c) (← gI m))
  | "ZRevRangeByScoreWithScores", [k, a, b, o, c, m] => do pure (zrangeByScore true true s now (← gB k) (← gF a) (← gF b) (← gI o) (← gI c) (← gI m))
  | "ZRem", k :: r => do pure (zrem s now (← gB k) (← restB r))
  | "ZRemRangeByRank", [k, a, b] => do pure (zremRangeByRank s now (← gB k) (← gI a) (← gI b))
  | "ZRemRangeByScore", [k, a, b, m] => do pure (zremRangeByScore s now (← gB k) (← gF a) (← gF b) (← gI m))
  | "ZExists", [k, m] => do pure (zexists s now (← gB k) (← gB m))
  | "ZClear", [k] => do let (s, _) := del s now [← gB k]; pure (s, .unit)
  | "ZCount", [k, a, b, m] => do pure (zcount s now (← gB k) (← gF a) (← gF b) (← gI m))
  | "ZMax", [k] => do pure (zmax s now (← gB k))
  | "ZMin", [k] => do pure (zmin s now (← gB k))
  | "ZScan", [k, c, p, n] => do pure (zscan s now (← gB k) (← gI c) (← gB p) (← gI n))
  | "ZUnion", [ks, ws, a] => do pure (zunion s now (← gBs ks) (← gFs ws) (← gB a))
  | "ZInter", [ks, ws, a] => do pure (zinter s now (← gBs ks) (← gFs ws) (← gB a))
  | "ZUnionStore", [d, ks, ws, a] => do pure (zstore true s now (← gB d) (← gBs ks) (← gFs ws) (← gB a))
  | "ZInterStore", [d, ks, ws, a] => do pure (zstore false s now (← gB d) (← gBs ks) (← gFs ws) (← gB a))
  | _, _ => none

/-- dump of the keyspace: name@deadline{value}; cold values are read from the backend.
    `live = some now`: only records whose deadline has not passed (the logical keyspace). -/
def dumpState (s : MState) (live : Option Int := none) (deadAt : Option Int := none) : String :=
  let ents : List (Bytes × Meta) := match live with
    | some now => s.index.filter fun (km : Bytes × Meta) => !km.2.expired now
    | none => s.index
  let parts := ents.map fun (k, m) =>
    let v := match m.value with
      | some v => dumpVal v
      | none => match Store.loadValue s k m with
        | some (v, _) => dumpVal v
        | none => "unreadable"
    -- an expired, not yet collected record: only its presence and deadline are compared (see the harness)
    let v := match deadAt with
      | some now => if m.expired now then "dead" else v
      | none => v
    s!"{showBytes k}@{m.exp}" ++ "{" ++ v ++ "}"
  compact ((if live.isSome then "ldump " else "dump ") ++ joinWith " " parts)

end NodisVerif.Driver
