import NodisVerif.Model.Proto
import NodisVerif.Model.Block
import NodisVerif.Model.Gate
/-
  `pev <event>`: one step of the locking protocol as reported by the implementation's trace hook.
  Keys travel as "k" ++ lowercase hex (order-preserving), transactions and records as numbers.
-/
namespace NodisVerif.Driver
open NodisVerif.Proto

def parseMode : String → Option Mode
  | "r" => some .r
  | "w" => some .w
  | _ => none

def parseEv : List String → Option Ev
  | ["begin", t] => t.toNat?.map .begin
  | ["look", t, k, "-"] => t.toNat?.map fun t => .look t k none
  | ["look", t, k, r] => do some (.look (← t.toNat?) k (some (← r.toNat?)))
  | ["claim", t, k, r, m] => do some (.claim (← t.toNat?) k (← r.toNat?) (← parseMode m))
  | ["wait", t, k, r, m] => do some (.wait (← t.toNat?) k (← r.toNat?) (← parseMode m))
  | ["lock", t, k, r, m] => do some (.lock (← t.toNat?) k (← r.toNat?) (← parseMode m))
  | ["valid", t, k, r, ok] => do some (.valid (← t.toNat?) k (← r.toNat?) (ok == "1"))
  | ["publish", t, k, r] => do some (.publish (← t.toNat?) k (← r.toNat?))
  | ["unlink", t, k, r] => do some (.unlink (← t.toNat?) k (← r.toNat?))
  | ["commit", t] => t.toNat?.map .commit
  | ["trylock", t, k, r] => do some (.trylock (← t.toNat?) k (← r.toNat?))
  | ["drop", t, k, r] => do some (.drop (← t.toNat?) k (← r.toNat?))
  | ["unlock", t, r] => do some (.unlock (← t.toNat?) (← r.toNat?))
  | ["fin", t] => t.toNat?.map .fin
  | ["clear"] => some .clear
  | _ => none

/-- "ok", or why the step is not a step of the protocol -/
def protoOp (s : PState) (toks : List String) : PState × String :=
  match parseEv toks with
  | none => (s, "bad-op")
  | some e =>
    match step s e with
    | some s' => (s', "ok")
    | none => (s, "rejected")

/-- summary of the final state: active transactions, registered keys -/
def protoEnd (s : PState) : String :=
  s!"active={s.txs.length} index={s.index.length} pending={s.pending.length}"

end NodisVerif.Driver

namespace NodisVerif.Driver
open NodisVerif.Block in
def parseBev : List String → Option Block.Ev
  | ["reg", w, k] => w.toNat?.map fun w => .reg w k
  | ["try", w, k, g] => w.toNat?.map fun w => .try_ w k (g == "1")
  | ["block", w, t] => w.toNat?.map fun w => .block w (t == "1")
  | ["wake", w] => w.toNat?.map .wake
  | ["timeout", w] => w.toNat?.map .timeout
  | ["abort", w] => w.toNat?.map .abort
  | ["notify", w, k] => w.toNat?.map fun w => .notify w k
  | ["unreg", w, k] => w.toNat?.map fun w => .unreg w k
  | ["fin", w] => w.toNat?.map .fin
  | _ => none

def blockOp (s : Block.BState) (toks : List String) : Block.BState × String :=
  match parseBev toks with
  | none => (s, "bad-op")
  | some e =>
    match Block.stepLoose s e with
    | some s' => (s', "ok")
    | none => (s, "rejected")
end NodisVerif.Driver

namespace NodisVerif.Driver
/-- `gev <event>`: one step of the EXEC gate as reported by the implementation's trace hook -/
def parseGev : List String → Option Gate.Ev
  | ["serve", g] => g.toNat?.map .serve
  | ["gin", g, "x"] => g.toNat?.map fun g => .gin g .x
  | ["gin", g, "s"] => g.toNat?.map fun g => .gin g .s
  | ["gout", g] => g.toNat?.map .gout
  | ["txb", g, t] => do some (.txb (← g.toNat?) (← t.toNat?))
  | ["txe", g, t] => do some (.txe (← g.toNat?) (← t.toNat?))
  | ["sig", g] => g.toNat?.map .sig
  | ["chk", g] => g.toNat?.map .chk
  | ["run", g] => g.toNat?.map .run
  | _ => none

def gateOp (s : Gate.GState) (toks : List String) : Gate.GState × String :=
  match parseGev toks with
  | none => (s, "bad-op")
  | some e =>
    match Gate.step s e with
    | some s' => (s', "ok")
    | none => (s, "rejected")
end NodisVerif.Driver
