import NodisVerif.Wire
import NodisVerif.Model.RespWriter
/- driver commands for the bare RESP reply writer (C16): `wr <Method> args…`, same lines as harness/respwriter.go.
   Output: `<reply> | w=<w> len=<len(buf)> err=<0|1>`; a panic is the line `PANIC`. -/
namespace NodisVerif.Driver
open Wire NodisVerif.RespWriter

def wrHexU64 (t : String) : Option UInt64 :=
  t.toList.foldlM (fun (acc : Nat) c => (Bytes.hexVal c).map (acc * 16 + ·)) 0 |>.map UInt64.ofNat

def wrCall (toks : List String) : Option Call :=
  match toks with
  | ["WriteString", a] => (parseArg a).map .string
  | ["WriteBulk", a] => (parseArg a).map .bulk
  | ["WriteError", a] => (parseArg a).map .error
  | ["WriteBulkNull"] => some .bulkNull
  | ["WriteArrayNull"] => some .arrayNull
  | ["WriteNullMap"] => some .nullMap
  | ["WriteOK"] => some .ok
  | ["WriteArray", n] => n.toInt?.map .array
  | ["WriteMap", n] => n.toInt?.map .map
  | ["WriteInt64", n] => n.toInt?.map .int64
  | ["WriteUInt64", n] => n.toNat?.map .uint64
  | ["WriteDouble", h] => (wrHexU64 h).map .double
  | ["Flush"] => some (.flush none)
  | ["FlushFail", k] => k.toNat?.map fun k => .flush (some k)
  | ["Bytes"] => some .bytes
  | ["HasError"] => some .hasError
  | _ => none

def wrState (s : Writer) : String := s!" | w={s.w} len={s.buf.size} err={if s.err then 1 else 0}"

def wrReply : Reply → String
  | .unit => "ok"
  | .flushed chunk failed => s!"flushed={showBytes chunk} ret={if failed then "err" else "ok"}"
  | .bytes b => s!"bytes={showBytes b}"
  | .flag b => if b then "true" else "false"

/-- the writer is passed in owned (the caller has taken it out of its state), so that the model's
    array updates happen in place -/
def wrOp (s : Writer) (toks : List String) : Writer × String :=
  match toks with
  | ["new"] => let s := RespWriter.new; (s, "ok" ++ wrState s)
  | ["dump"] => (s, s!"buf={showBytes s.buf.toList} sink={showBytes s.sink.toList}" ++ wrState s)
  | _ =>
    match wrCall toks with
    | none => (s, "bad-op")
    | some c =>
      match step s c with
      | .ok (s', r) => (s', wrReply r ++ wrState s')
      | .panic => (RespWriter.new, "PANIC")
      | .outside => (RespWriter.new, "UNSUPPORTED")

end NodisVerif.Driver
