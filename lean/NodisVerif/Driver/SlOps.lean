import NodisVerif.Wire
import NodisVerif.Model.Skiplist
import NodisVerif.Model.SkiplistZSet
import NodisVerif.Model.SkiplistZRange
import NodisVerif.Driver.ApiOps
/- driver commands for the pointer-level skiplist tie: `sl <op> <args…> [lvl=<h>]` (see DESIGN_NOTES.md) -/
namespace NodisVerif.Driver
open Wire Skiplist

/-- chain position of every heap index (-2 = not on the level-0 chain) -/
def slPositions (sl : SL) (full : List Nat) : Array Int :=
  (full.zipIdx).foldl (fun (a : Array Int) (p : Nat × Nat) => a.setIfInBounds p.1 (p.2 : Int)) (Array.replicate sl.heap.length (-2))

def slPos (pos : Array Int) (p : Option Nat) : Int :=
  match p with
  | none => -1
  | some n => pos.getD n (-2)

def slDumpNode (h : List Node) (pos : Array Int) (n : Nat) : String :=
  match h[n]? with
  | none => " ?"
  | some nd =>
    s!" {hex64 nd.score}:{Bytes.toHex nd.member} b={slPos pos nd.backward} h={nd.level.length}" ++
      String.join (nd.level.map fun l => s!" {slPos pos l.forward}/{l.span}")

def slDump (sl : SL) : String :=
  let full := 0 :: chain sl
  if full.length > sl.heap.length then "CYCLE" else
  let pos := slPositions sl full
  s!"L={sl.level} n={sl.length} t={slPos pos sl.tail} |" ++ " |".intercalate (full.map (slDumpNode sl.heap pos))

def slItems (xs : List DsZSet.Item) : String :=
  "[" ++ ",".intercalate (xs.map fun (sc, m) => s!"{hex64 sc}:{Bytes.toHex m}") ++ "]"

def slNodePos (sl : SL) (r : Option Nat) : String :=
  match r with
  | none => "nil"
  | some n => s!"pos={slPos (slPositions sl (0 :: chain sl)) (some n)}"

def slErr : Err → String
  | .panic => "panic"
  | .fuel => "FUEL"

/-- a mutating op: new state + `<result> ; DUMP`; after a panic the model keeps the old state (the Go side's
    half-updated structure then shows as a divergence, which is the right verdict) -/
def slMut (sl : SL) (r : M (SL × String)) : SL × String :=
  match r with
  | .ok (sl', out) => (sl', out ++ " ; " ++ slDump sl')
  | .error e => (sl, slErr e ++ " ; " ++ slDump sl)

def slQuery (sl : SL) (r : M String) : SL × String :=
  match r with
  | .ok out => (sl, out)
  | .error e => (sl, slErr e)

def slOp (sl : SL) (toks : List String) : SL × String :=
  let lvl := ((toks.find? (·.startsWith "lvl=")).bind fun t => (t.drop 4).toString.toNat?).getD 1
  let toks := toks.filter fun t => !t.startsWith "lvl="
  match toks with
  | ["new"] => (makeSkiplist, "ok ; " ++ slDump makeSkiplist)
  | ["dump"] => (sl, "ok ; " ++ slDump sl)
  | ["insert", m, s] =>
    (match parseArg m, hexToU64 s with
     | some m, some s =>
       -- the oracle for the random level must be a height `randomLevel()` can return (the theorems assume 1..16)
       if lvl < 1 ∨ lvl > maxLevel then (sl, s!"LEVEL-OUT-OF-RANGE {lvl}") else
       slMut sl ((insert sl m s lvl).map fun sl' => (sl', "ok"))
     | _, _ => (sl, "bad-op"))
  | ["remove", m, s] =>
    (match parseArg m, hexToU64 s with
     | some m, some s => slMut sl ((remove sl m s).map fun (sl', b) => (sl', if b then "true" else "false"))
     | _, _ => (sl, "bad-op"))
  | ["getRank", m, s] =>
    (match parseArg m, hexToU64 s with
     | some m, some s => slQuery sl ((getRank sl m s).map fun r => s!"{r}")
     | _, _ => (sl, "bad-op"))
  | ["getByRank", r] =>
    (match r.toInt? with
     | some r => slQuery sl ((getByRank sl r).map (slNodePos sl))
     | none => (sl, "bad-op"))
  | ["hasInRange", a, b] =>
    (match hexToU64 a, hexToU64 b with
     | some a, some b => slQuery sl ((hasInRange sl a b).map fun r => if r then "true" else "false")
     | _, _ => (sl, "bad-op"))
  | ["getFirstInRange", a, b] =>
    (match hexToU64 a, hexToU64 b with
     | some a, some b => slQuery sl ((getFirstInRange sl a b).map (slNodePos sl))
     | _, _ => (sl, "bad-op"))
  | ["getLastInRange", a, b] =>
    (match hexToU64 a, hexToU64 b with
     | some a, some b => slQuery sl ((getLastInRange sl a b).map (slNodePos sl))
     | _, _ => (sl, "bad-op"))
  | ["removeRange", a, b, limit, mode] =>
    (match hexToU64 a, hexToU64 b, limit.toInt?, mode.toNat? with
     | some a, some b, some limit, some mode =>
       slMut sl ((removeRange sl a b limit mode).map fun (sl', rem) => (sl', "removed=" ++ slItems rem))
     | _, _, _, _ => (sl, "bad-op"))
  | ["removeRangeByRank", a, b] =>
    (match a.toInt?, b.toInt? with
     | some a, some b => slMut sl ((removeRangeByRank sl a b).map fun (sl', rem) => (sl', "removed=" ++ slItems rem))
     | _, _ => (sl, "bad-op"))
  | _ => (sl, "bad-op")


/-! `slz <Method> …`: the real `SortedSet` methods against the pointer-level sorted set of Model/SkiplistZSet.lean -/

def slzMut (p : PZSet) (r : M (PZSet × Int)) : PZSet × String :=
  match r with
  | .ok (p', n) => (p', s!"{n} ; " ++ slDump p'.sl)
  | .error e => (p, slErr e ++ " ; " ++ slDump p.sl)

def slzOp (p : PZSet) (toks : List String) : PZSet × String :=
  let lvl := ((toks.find? (·.startsWith "lvl=")).bind fun t => (t.drop 4).toString.toNat?).getD 1
  let toks := toks.filter fun t => !t.startsWith "lvl="
  match toks with
  | ["new"] => (PZSet.empty, "ok ; " ++ slDump PZSet.empty.sl)
  | ["dump"] => (p, "ok ; " ++ slDump p.sl)
  | ["ZAdd", m, s] =>
    (match parseArg m, hexToU64 s with
     | some m, some s =>
       if lvl < 1 ∨ lvl > maxLevel then (p, s!"LEVEL-OUT-OF-RANGE {lvl}") else slzMut p (pzAdd p m s lvl)
     | _, _ => (p, "bad-op"))
  | "ZRem" :: ms =>
    (match ms.mapM parseArg with
     | some ms => if ms.isEmpty then (p, "bad-op") else slzMut p (pzRem p ms)
     | none => (p, "bad-op"))
  | ["ZRemRangeByScore", a, b, mode] =>
    (match hexToU64 a, hexToU64 b, mode.toNat? with
     | some a, some b, some mode => slzMut p (pzRemRangeByScore p a b mode)
     | _, _, _ => (p, "bad-op"))
  | ["ZRemRangeByRank", a, b] =>
    (match a.toInt?, b.toInt? with
     | some a, some b => slzMut p (pzRemRangeByRank p a b)
     | _, _ => (p, "bad-op"))
  | ["ZRange", a, b] =>
    (match a.toInt?, b.toInt? with
     | some a, some b => (p, (slQuery p.sl ((pzRange p a b).map slItems)).2)
     | _, _ => (p, "bad-op"))
  | ["ZRevRange", a, b] =>
    (match a.toInt?, b.toInt? with
     | some a, some b => (p, (slQuery p.sl ((pzRevRange p a b).map slItems)).2)
     | _, _ => (p, "bad-op"))
  | ["ZCount", a, b, mode] =>
    (match hexToU64 a, hexToU64 b, mode.toNat? with
     | some a, some b, some mode => (p, (slQuery p.sl ((pzCount p a b mode).map fun n => s!"{n}")).2)
     | _, _, _ => (p, "bad-op"))
  | [cmd, a, b, off, cnt, mode] =>
    if cmd != "ZRangeByScore" && cmd != "ZRevRangeByScore" then (p, "bad-op") else
    (match hexToU64 a, hexToU64 b, off.toInt?, cnt.toInt?, mode.toNat? with
     | some a, some b, some off, some cnt, some mode =>
       (p, (slQuery p.sl ((pzRangeByScore p a b off cnt (cmd == "ZRevRangeByScore") mode).map slItems)).2)
     | _, _, _, _, _ => (p, "bad-op"))
  | ["ZRank", m] =>
    (match parseArg m with
     | some m =>
       (match pzRank p m with
        | .ok (some r) => (p, s!"{r}")
        | .ok none => (p, "nil")
        | .error e => (p, slErr e))
     | none => (p, "bad-op"))
  | _ => (p, "bad-op")

end NodisVerif.Driver
