import Std.Data.HashMap
import Std.Data.HashSet
import NodisVerif.Model.TxProg
import NodisVerif.Driver.ProtoOps
/-
  `driver txprog <trace> [maxEvents]`: is the recorded trace a trace of the PROGRAM model?

  The `pev` lines of a recorded scenario run are replayed, in order, against `Model/TxProg.lean`:
  for the event `e` of transaction `t`, thread `t` is advanced through `TxProg.step` until a
  transition emits an event, which has to be `e`; the silent transitions in between are the path
  between two hook sites.  The scheduler's choices (the next call of the command, the record
  `newMetadata()` returns, whether TryLock succeeds) are read off the transaction's own future
  events.  A thread that is blocked on a mutex makes the owners of the mutex run (silent
  transitions only: the owner's release is never reported after the acquisition it enables).

  Threads are advanced lazily (only when their next event is replayed) with two exceptions where
  the real step happened earlier: the owners of a mutex somebody needs, and a thread that found
  its key missing and will find it registered at its second lookup under `store.mu` (pc a5): it
  is advanced as soon as another transaction claims that key.

  Transactions outside the program model (the one-record transactions of eviction, flush and SCAN,
  and `store.clear`) are the environment: their events act directly on the shared state.
-/
namespace NodisVerif.Driver
open NodisVerif.Proto (Ev Mode Key Rec assoc erase put)
open NodisVerif.TxProg

def evTid : Ev → Option Nat
  | .begin t | .commit t | .fin t => some t
  | .look t _ _ | .publish t _ _ | .unlink t _ _ | .trylock t _ _ | .drop t _ _ => some t
  | .claim t _ _ _ | .wait t _ _ _ | .lock t _ _ _ | .valid t _ _ _ => some t
  | .unlock t _ => some t
  | .clear => none

def evBeq : Ev → Ev → Bool
  | .begin a, .begin b => a == b
  | .look a k r, .look a' k' r' => a == a' && k == k' && r == r'
  | .claim a k r m, .claim a' k' r' m' => a == a' && k == k' && r == r' && m == m'
  | .wait a k r m, .wait a' k' r' m' => a == a' && k == k' && r == r' && m == m'
  | .lock a k r m, .lock a' k' r' m' => a == a' && k == k' && r == r' && m == m'
  | .valid a k r b, .valid a' k' r' b' => a == a' && k == k' && r == r' && b == b'
  | .publish a k r, .publish a' k' r' => a == a' && k == k' && r == r'
  | .unlink a k r, .unlink a' k' r' => a == a' && k == k' && r == r'
  | .commit a, .commit b => a == b
  | .trylock a k r, .trylock a' k' r' => a == a' && k == k' && r == r'
  | .drop a k r, .drop a' k' r' => a == a' && k == k' && r == r'
  | .unlock a r, .unlock a' r' => a == a' && r == r'
  | .fin a, .fin b => a == b
  | .clear, .clear => true
  | _, _ => false

def showMode : Mode → String
  | .r => "r"
  | .w => "w"

def showEv : Ev → String
  | .begin t => s!"begin {t}"
  | .look t k none => s!"look {t} {k} -"
  | .look t k (some r) => s!"look {t} {k} {r}"
  | .claim t k r m => s!"claim {t} {k} {r} {showMode m}"
  | .wait t k r m => s!"wait {t} {k} {r} {showMode m}"
  | .lock t k r m => s!"lock {t} {k} {r} {showMode m}"
  | .valid t k r b => s!"valid {t} {k} {r} {if b then 1 else 0}"
  | .publish t k r => s!"publish {t} {k} {r}"
  | .unlink t k r => s!"unlink {t} {k} {r}"
  | .commit t => s!"commit {t}"
  | .trylock t k r => s!"trylock {t} {k} {r}"
  | .drop t k r => s!"drop {t} {k} {r}"
  | .unlock t r => s!"unlock {t} {r}"
  | .fin t => s!"fin {t}"
  | .clear => "clear"

def showPc (p : Pc) : String := (toString (repr p)).replace "NodisVerif.TxProg.Pc." ""

/-! ### lookahead: the calls of a transaction, read off its events -/

/-- one call of `acquire` on `k`, starting with the `look` at index `j` of the transaction's events:
    (write, placeholder, index of the call's last event) -/
partial def scanCall (a : Array Ev) (k : Key) (j : Nat) (write : Option Bool) (ph : Bool) : Bool × Bool × Nat :=
  match a[j]? with
  | some (.look _ k' none) =>
    if k' != k then (write.getD false, ph, j - 1) else
    match a[j+1]? with
    | some (.claim _ k2 _ m) => if k2 == k then (write.getD (m == .w), true, j + 1) else (write.getD false, ph, j)
    | some (.look _ k2 _) => if k2 == k then scanCall a k (j + 1) write true else (write.getD false, ph, j)
    | _ => (write.getD false, ph, j)
  | some (.look _ k' (some _)) =>
    if k' != k then (write.getD false, ph, j - 1) else
    match a[j+1]? with
    | some (.wait _ _ _ m) =>
      let write := some (write.getD (m == .w))
      match a[j+3]? with
      | some (.valid _ _ _ true) => (write.getD false, ph, j + 3)
      | some (.valid _ _ _ false) =>
        match a[j+5]? with
        | some (.look _ k2 _) => if k2 == k then scanCall a k (j + 5) write ph else (write.getD false, ph, j + 4)
        | _ => (write.getD false, ph, j + 4)
      | _ => (write.getD false, ph, a.size - 1)      -- the trace ends inside the call
    | _ => (write.getD false, ph, j)                 -- already held: returns (or panics) at once
  | _ => (write.getD false, ph, j - 1)

/-- the locking phase: the calls on strictly increasing keys right after `begin` -/
partial def inferPlan (a : Array Ev) (j : Nat) (last : Option Key) (acc : Array PlanItem) : List PlanItem :=
  match a[j]? with
  | some (.look _ k _) =>
    if last.all (fun lk => decide (lk < k)) then
      let (w, ph, e) := scanCall a k j none false
      inferPlan a (max e j + 1) (some k) (acc.push (k, w, ph))
    else acc.toList
  | _ => acc.toList

/-! ### the replay state -/

structure Ctx where
  tev : Std.HashMap Nat (Array Ev)

structure RS where
  cfg     : Cfg := {}
  pos     : Std.HashMap Nat Nat := {}          -- per transaction: how many of its events have been replayed
  env     : Std.HashSet Nat := {}              -- environment transactions (and unsupported ones)
  watch   : Std.HashMap String (List Nat) := {}   -- key -> threads between a3 and a5 that will find the key registered
  events  : Nat := 0
  envN    : Nat := 0
  silent  : Nat := 0
  oracle  : Nat := 0
  maxpath : Nat := 0
  unsupEv : Nat := 0
  unsupTx : Nat := 0

abbrev M := ReaderT Ctx (StateT RS (Except String))

def tevOf (t : Nat) : M (Array Ev) := do return (← read).tev.getD t #[]
def posOf (t : Nat) : M Nat := do return (← get).pos.getD t 0

/-- the scheduler's choice for thread `t` at `l`, from the events `t` is going to emit (`none`: no call fits) -/
def choiceFor (t : Nat) (l : Loc) : M (Option Choice) := do
  let a ← tevOf t
  let p ← posOf t
  match l.pc with
  | .init =>
    match a[p]?, a[p+1]? with
    | some (.begin _), some (.wait _ _ r _) => return some { call := .mini r }     -- gcRecord / flushRecord / scan visit
    | some (.begin _), _ => return some { call := .begin (inferPlan a (p + 1) none #[]) }
    | _, _ => return none
  | .g6 =>
    -- gcRecord finds the key dead iff the transaction goes on to unlink it
    match a[p]? with
    | some (.unlink _ _ _) => return some { dead := true }
    | _ => return some { dead := false }
  | .g10 =>
    -- eviction / value loads are outside the model: keep `value != nil` as it is (the read validations correct it)
    return some { hvNew := ((← get).cfg.sh.flag l.m).hasValue }
  | .idle =>
    match a[p]? with
    | some (.look _ k _) =>
      let (w, ph, e) := scanCall a k p none false
      match a[e+1]? with
      | some (.publish _ k2 _) =>
        if k2 == k then return some { call := .newKey k } else return some { call := .reacq k w ph }
      | _ => return some { call := .reacq k w ph }
    | some (.unlink _ k _) => return some { call := .delKey k }
    | some (.commit _) => return some { call := .commit }
    | _ => return none
  | .a5 | .d3 =>
    match a[p]? with
    | some (.claim _ _ r _) => return some { fresh := r }
    | _ => return some {}
  | .c6 =>
    match a[p]? with
    | some (.trylock _ _ _) => return some { tryOk := true }
    | _ => return some { tryOk := false }
  | _ => return some {}

inductive MuId
  | smu
  | recd (r : Rec)

/-- the mutex a disabled transition waits for, and whether it wants it exclusively -/
def blockedOn (l : Loc) : Option (MuId × Bool) :=
  match l.pc with
  | .a1 | .a10 => some (.smu, false)
  | .a4 | .n2 | .d1 | .c8 => some (.smu, true)
  | .a8 => some (.recd l.m, l.write)
  | .g2 => some (.recd l.m, true)
  | .g4 => some (.smu, false)
  | .g7 => some (.smu, true)
  | _ => none

def muOf (s : Shared) : MuId → Mu
  | .smu => s.smu
  | .recd r => s.mu r

mutual
/-- make the owners (other than `t`) of a mutex release it, by silent transitions only -/
partial def release (t : Nat) (mu : MuId) (excl : Bool) (depth : Nat) : M Unit := do
  if depth == 0 then throw "blocked"
  let rec loop (fuel : Nat) : M Unit := do
    if fuel == 0 then throw "blocked"
    let m := muOf (← get).cfg.sh mu
    let owners := ((if excl then m.readers else []) ++ m.writer.toList).filter (· != t)
    match owners with
    | [] => return
    | o :: _ =>
      silentStep o depth
      loop (fuel - 1)
  loop 256

/-- one silent transition of thread `o` (which is not the thread whose event is being replayed) -/
partial def silentStep (o : Nat) (depth : Nat) : M Unit := do
  let st ← get
  if st.env.contains o then throw "blocked"
  let l := st.cfg.loc o
  if l.pc == .init || l.pc == .idle then throw "blocked"
  let some ch ← choiceFor o l | throw "blocked"
  match step st.cfg o ch with
  | some (c', none) => modify fun st => { st with cfg := c', silent := st.silent + 1 }
  | some (_, some _) => throw "blocked"
  | none =>
    match blockedOn l with
    | none => throw "blocked"
    | some (mu, ex) =>
      release o mu ex (depth - 1)
      let st ← get
      match step st.cfg o ch with
      | some (c', none) => modify fun st => { st with cfg := c', silent := st.silent + 1 }
      | _ => throw "blocked"
end

def setSh (f : Shared → Shared) : M Unit := modify fun st => { st with cfg := { st.cfg with sh := f st.cfg.sh } }

/-- an event of an environment transaction acts on the shared state directly -/
def applyEnv (t : Nat) (e : Ev) : M Unit := do
  match e with
  | .lock _ _ r m =>
    release t (.recd r) (m == .w) 8
    let mu := (← get).cfg.sh.mu r
    if m == .w then
      if !mu.canLock then throw "blocked"
      setSh fun s => s.setMu r ((s.mu r).lock t)
    else
      if !mu.canRLock then throw "blocked"
      setSh fun s => s.setMu r ((s.mu r).rlock t)
  | .trylock _ _ r =>
    release t (.recd r) true 8
    if !((← get).cfg.sh.mu r).canLock then throw "blocked"
    setSh fun s => s.setMu r ((s.mu r).lock t)
  | .claim _ k r m =>
    setSh fun s =>
      let s := { s with names := (r, k) :: s.names, pending := put s.pending k r }
      s.setMu r (if m == .w then (s.mu r).lock t else (s.mu r).rlock t)
  | .publish _ k r =>
    setSh fun s => { s with pending := erase s.pending k, index := put s.index k r,
                            flags := setD s.flags r { ok := true, hasValue := true } }
  | .unlink _ k _ => setSh fun s => { s with index := erase s.index k }
  | .drop _ k _ => setSh fun s => { s with pending := erase s.pending k }
  | .unlock _ r =>
    setSh fun s =>
      let mu := s.mu r
      s.setMu r (if mu.writer == some t then mu.unlock else mu.runlock t)
  | _ => return

/-- thread `t` leaves the program model: it gives up `store.mu` and continues as environment -/
def toEnv (t : Nat) : M Unit := do
  setSh fun s =>
    let smu := s.smu
    let smu := if smu.writer == some t then smu.unlock else smu
    { s with smu := smu.runlock t }
  modify fun st => { st with cfg := { st.cfg with thr := erase st.cfg.thr t }, env := st.env.insert t, unsupTx := st.unsupTx + 1 }

/-- replay event `e` of thread `t` of the program model -/
partial def replayEv (t : Nat) (e : Ev) : M Unit := do
  let rec go (fuel path : Nat) : M Unit := do
    let st ← get
    let l := st.cfg.loc t
    let pc := showPc l.pc
    if fuel == 0 then throw s!"thread-pc={pc} reason=fuel"
    -- value presence: eviction and the loads of writeKey / readKey are outside the program model
    match l.pc, e with
    | .a11, .valid _ _ _ flag =>
      if !l.write && st.cfg.sh.lookup l.key == some l.m && (st.cfg.sh.flag l.m).hasValue != flag then
        setSh fun s => { s with flags := setD s.flags l.m { s.flag l.m with hasValue := flag } }
        modify fun st => { st with oracle := st.oracle + 1 }
    | .c6, .trylock _ _ _ =>
      -- a reader that has released the record in the real run may not have been advanced yet
      if !(st.cfg.sh.mu l.cur.rid).canLock then
        (release t (.recd l.cur.rid) true 8 : M Unit) <|> pure ()
    | _, _ => pure ()
    let some ch ← choiceFor t l | throw s!"thread-pc={pc} reason=disabled"
    let st ← get
    match step st.cfg t ch with
    | none =>
      match blockedOn l with
      | some (mu, ex) =>
        (try release t mu ex 8 catch _ => throw s!"thread-pc={pc} reason=blocked")
        let st ← get
        match step st.cfg t ch with
        | none => throw s!"thread-pc={pc} reason=blocked"
        | some _ => go (fuel - 1) path
      | none => throw s!"thread-pc={pc} reason=disabled"
    | some (c', none) =>
      modify fun st => { st with cfg := c', silent := st.silent + 1 }
      go (fuel - 1) (path + 1)
    | some (c', some e') =>
      if evBeq e e' then
        modify fun st => { st with cfg := c', maxpath := max st.maxpath path }
      else throw s!"thread-pc={pc} reason=mismatch got {showEv e'}"
  go 64 0

/-- a thread waiting between a3 and a5 for a key that has just been claimed: it runs up to its next lookup -/
partial def advanceWatcher (a : Nat) (fuel : Nat) : M Unit := do
  if fuel == 0 then return
  let st ← get
  if st.env.contains a then return
  let l := st.cfg.loc a
  if l.pc == .a3 || l.pc == .a4 || l.pc == .a5 || l.pc == .a6r then
    silentStep a 8
    advanceWatcher a (fuel - 1)

/-- one `pev` event; the result says whether the transaction had to be moved to the environment -/
def replayOne (e : Ev) : M Unit := do
  match evTid e with
  | none =>
    setSh fun s => { s with index := [] }
    modify fun st => { st with envN := st.envN + 1 }
  | some t =>
    let a ← tevOf t
    let p ← posOf t
    match e with
    | .begin _ =>
      -- the one-record transactions of eviction / flush / SCAN and `store.clear` never look a key up
      match a[p+1]? with
      | some (.wait _ _ _ _) =>
        -- the shape of a mini transaction of the program model (pcs g1 … g13): begin wait lock valid, then
        -- `unlock fin` (stale record) or `[unlink] commit unlock fin`; anything else (`store.clear`, a cut-off tail)
        -- stays environment
        let shape : Bool := match (a.toList.drop p) with
          | [.begin _, .wait _ _ _ _, .lock _ _ _ _, .valid _ _ _ false, .unlock _ _, .fin _] => true
          | [.begin _, .wait _ _ _ _, .lock _ _ _ _, .valid _ _ _ true, .commit _, .unlock _ _, .fin _] => true
          | [.begin _, .wait _ _ _ _, .lock _ _ _ _, .valid _ _ _ true, .unlink _ _ _, .commit _, .unlock _ _, .fin _] => true
          | _ => false
        if !shape then modify fun st => { st with env := st.env.insert t }
      | _ => pure ()
    | _ => pure ()
    if (← get).env.contains t then
      (try applyEnv t e catch err => throw s!"thread-pc=env reason={err}")
      modify fun st => { st with envN := st.envN + 1 }
    else
      let l0 := (← get).cfg.loc t
      -- the only calls the program model does not have: acquire / delKey on a name the transaction does not hold
      let callEv : Bool := match e with
        | Ev.look _ _ _ => true
        | Ev.unlink _ _ _ => true
        | _ => false
      let r ← (try replayEv t e; pure true catch err =>
        if l0.pc == .idle && callEv && err.endsWith "reason=disabled" then pure false else throw err)
      if !r then
        toEnv t
        (try applyEnv t e catch err => throw s!"thread-pc=env reason={err}")
      -- a missing key that this thread is going to find registered when it looks again under store.mu
      match e with
      | .look _ k none =>
        let l := (← get).cfg.loc t
        if r && l.pc == .a3 && l.ph then
          match a[p+1]? with
          | some (.look _ _ _) =>
            modify fun st => { st with watch := st.watch.insert k (t :: (st.watch.getD k [])) }
          | _ => pure ()
      | _ => pure ()
    let isMini : Bool := match a[1]? with
      | some (Ev.wait _ _ _ _) => true
      | _ => false
    if (← get).env.contains t && !isMini then
      modify fun st => { st with unsupEv := st.unsupEv + 1 }
    match e with
    | .claim _ k _ _ =>
      let ws := (← get).watch.getD k []
      if !ws.isEmpty then
        modify fun st => { st with watch := st.watch.erase k }
        for w in ws.reverse do
          (advanceWatcher w 6 : M Unit) <|> pure ()
    | _ => pure ()
    match e with
    | .fin _ => modify fun st => { st with pos := st.pos.erase t, env := st.env.erase t, events := st.events + 1 }
    | _ => modify fun st => { st with pos := st.pos.insert t (p + 1), events := st.events + 1 }

def splitWs (s : String) : List String := (s.splitOn " ").filter (· ≠ "")

/-- all lines of a trace file; `bound` = number of `pev` events to replay (0 = all) -/
def txprogReplay (lines : Array String) (bound : Nat := 0) : String := Id.run do
  -- the pev events with their line numbers
  let mut evs : Array (Nat × Option Ev) := #[]
  let mut tev : Std.HashMap Nat (Array Ev) := {}
  let mut i := 0
  -- with a bound only a prefix is parsed: the bound plus a margin for the lookahead of the transactions
  -- that are active when the bound is reached
  let parseMax := if bound == 0 then lines.size else bound + bound / 2 + 20000
  for line in lines do
    if evs.size >= parseMax then break
    if line.startsWith "pev " then
      let e := parseEv (splitWs ((line.drop 4).trimAscii.toString))
      evs := evs.push (i, e)
      match e with
      | some ev =>
        match evTid ev with
        | some t => tev := tev.alter t fun o => some ((o.getD #[]).push ev)
        | none => pure ()
      | none => pure ()
    i := i + 1
  let ctx : Ctx := { tev := tev }
  let mut st : RS := {}
  let mut n := 0
  for (li, e) in evs do
    if bound != 0 && n >= bound then break
    match e with
    | none => return s!"txprog reject line={li} event={lines[li]!} thread-pc=- reason=bad-op"
    | some ev =>
      match (replayOne ev).run ctx |>.run st with
      | .ok ((), st') => st := st'
      | .error err => return s!"txprog reject line={li} event={lines[li]!} {err}"
    n := n + 1
  return s!"txprog ok events={st.events} env={st.envN} silent={st.silent} oracle_hv={st.oracle} maxpath={st.maxpath} unsupported={st.unsupEv} unsupported_tx={st.unsupTx}"

end NodisVerif.Driver
