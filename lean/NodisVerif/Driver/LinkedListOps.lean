import NodisVerif.Wire
import NodisVerif.Model.LinkedList
/- driver commands for the bare pointer-level list (C02): `ll <method> args…`, same lines as harness/linkedlist.go -/
namespace NodisVerif.Driver
open Wire NodisVerif.LinkedList

def llShown (items : List Bytes) : String := joinWith "," (items.map showBytes)

/-- the canonical dump: length field, forward walk, backward walk, head.prev / tail.next nil -/
def llDump (l : PList) : String :=
  let f := fwdIdx l
  let b := bwdIdx l
  let fs := if f.length > l.heap.size then "LOOP" else llShown (f.map (dataAt l.heap))
  let bs := if b.length > l.heap.size then "LOOP" else llShown (b.map (dataAt l.heap))
  let nilp (p : Option Nat) (sel : Node → Option Nat) : String :=
    match p with
    | none => "-"
    | some i => match l.heap[i]? with
      | some n => if (sel n).isNone then "1" else "0"
      | none => "?"
  compact s!"len={l.length} fwd={fs} bwd={bs} hp={nilp l.head (·.prev)} tn={nilp l.tail (·.next)}"

def llFinish (old : PList) (r : Res (PList × String)) : PList × String :=
  match r with
  | .ok (l, reply) => (l, compact reply ++ " | " ++ llDump l)
  | .panic => (old, "PANIC | " ++ llDump old)
  | .fuel => (old, "FUEL | " ++ llDump old)

def llOp (l : PList) (toks : List String) : PList × String :=
  match toks with
  | ["new"] => llFinish l (.ok (LinkedList.empty, "ok"))
  | "LPush" :: rest =>
    (match rest.mapM parseArg with
     | some args => llFinish l ((lpush l args).bind fun l' => .ok (l', "ok"))
     | none => (l, "bad-op"))
  | "RPush" :: rest =>
    (match rest.mapM parseArg with
     | some args => llFinish l ((rpush l args).bind fun l' => .ok (l', "ok"))
     | none => (l, "bad-op"))
  | ["LPop", n] | ["RPop", n] =>
    (match n.toInt? with
     | some c =>
       let r := if toks.head? == some "LPop" then lpop l c else rpop l c
       llFinish l (r.bind fun (l', res) => .ok (l', match res with | none => "nil" | some xs => "[" ++ llShown xs ++ "]"))
     | none => (l, "bad-op"))
  | ["LRange", a, b] =>
    (match a.toInt?, b.toInt? with
     | some a, some b => llFinish l ((lrange l a b).bind fun xs => .ok (l, "[" ++ llShown xs ++ "]"))
     | _, _ => (l, "bad-op"))
  | ["LLen"] => llFinish l (.ok (l, toString (llen l)))
  | ["Size"] => llFinish l ((size l).bind fun n => .ok (l, toString n))
  | ["LIndex", i] =>
    (match i.toInt? with
     | some i => llFinish l ((lindex l i).bind fun r => .ok (l, match r with | none => "nil" | some v => showBytes v))
     | none => (l, "bad-op"))
  | ["LInsert", p, d, b] =>
    (match parseArg p, parseArg d with
     | some p, some d => llFinish l ((linsert l p d (b == "1")).bind fun (l', n) => .ok (l', toString n))
     | _, _ => (l, "bad-op"))
  | ["LRem", c, v] =>
    (match c.toInt?, parseArg v with
     | some c, some v => llFinish l ((lrem l c v).bind fun (l', n) => .ok (l', toString n))
     | _, _ => (l, "bad-op"))
  | ["LSet", i, v] =>
    (match i.toInt?, parseArg v with
     | some i, some v => llFinish l ((lset l i v).bind fun (l', b) => .ok (l', if b then "true" else "false"))
     | _, _ => (l, "bad-op"))
  | ["LTrim", a, b] =>
    (match a.toInt?, b.toInt? with
     | some a, some b => llFinish l ((ltrim l a b).bind fun l' => .ok (l', "ok"))
     | _, _ => (l, "bad-op"))
  | ["GetValue"] => llFinish l ((getValue l).bind fun b => .ok (l, showBytes b))
  | ["SetValue", b] =>
    (match parseArg b with
     | some b => llFinish l ((setValue b l (b.length + 1)).bind fun l' => .ok (l', "ok"))
     | none => (l, "bad-op"))
  | _ => (l, "bad-op")

end NodisVerif.Driver
