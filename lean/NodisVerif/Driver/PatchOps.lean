import NodisVerif.Wire
import NodisVerif.Model.ProtoWire
/-
  driver commands for the wire encoding of change records (C20, Model/ProtoWire.lean):
    pschema <type>            the message and field kinds of an operation type
    penc <type> <field>…      Op.Encode of the record, Marshal's error flag, DecodeOp of the encoding
    pdec <bytes>              DecodeOp of arbitrary bytes, and Encode of what it returned
  Field tokens: string / bytes as argument tokens (`-`, hex, r<len>x<hh>, c<len>x<hh>), int64 decimal,
  bool true / false, double as the decimal of its bit pattern, repeated fields `_` (empty) or the
  elements joined by commas.
-/
namespace NodisVerif.Driver
open Wire ProtoWire

def parseList {α} (f : String → Option α) (s : String) : Option (List α) :=
  if s == "_" then some [] else (s.splitOn ",").mapM f

def parseVal (k : Kind) (s : String) : Option PVal :=
  match k with
  | .str | .bytes => (parseArg s).map .bytes
  | .int64 => s.toInt?.map .int
  | .bool => if s == "true" then some (.bool true) else if s == "false" then some (.bool false) else none
  | .double => s.toNat?.map fun n => .f64 (UInt64.ofNat n)
  | .repStr | .repBytes => (parseList parseArg s).map .list
  | .repDouble => (parseList (fun t => t.toNat?.map UInt64.ofNat) s).map .f64s

def parseVals : Schema → List String → Option (List PVal)
  | [], [] => some []
  | (_, k) :: sch, t :: ts => do
    let v ← parseVal k t
    let vs ← parseVals sch ts
    pure (v :: vs)
  | _, _ => none

def showList (xs : List String) : String := if xs.isEmpty then "_" else ",".intercalate xs

def showVal : PVal → String
  | .bytes b => showBytes b
  | .int i => toString i
  | .bool b => toString b
  | .f64 x => toString x.toNat
  | .list l => showList (l.map showBytes)
  | .f64s l => showList (l.map fun x => toString x.toNat)

def showDec : Except DecErr Op → String
  | .error .empty => "err:empty"
  | .error .unknownType => "err:type"
  | .error .wire => "err:wire"
  | .ok op => s!"ok:{op.typ.toNat}:{";".intercalate (op.msg.vals.map showVal)}:unk={showBytes op.msg.unknown}"

def patchOp (toks : List String) : String :=
  match toks with
  | ["pschema", t] =>
    (match t.toNat?.bind fun n => opTable.find? (·.1 == n) with
     | some (_, name, sch) => " ".intercalate ("pschema" :: name :: sch.map fun (no, k) => s!"{no}:{k.name}")
     | none => "pschema none")
  | "penc" :: t :: fields =>
    (match t.toNat? with
     | none => "bad-op"
     | some n =>
       match schemaOf n with
       | none => "bad-op"
       | some sch =>
         match parseVals sch fields with
         | none => "bad-op"
         | some vs =>
           let op : Op := { typ := UInt8.ofNat n, msg := { vals := vs } }
           let enc := encodeOp op
           compact s!"enc={showBytes enc} merr={if encodeFails op then 1 else 0} dec={showDec (decodeOp enc)}")
  | ["pdec", b] =>
    (match parseArg b with
     | none => "bad-op"
     | some data =>
       let d := decodeOp data
       let re := match d with
         | .ok op => showBytes (encodeOp op)
         | .error _ => "none"
       compact s!"dec={showDec d} reenc={re}")
  | _ => "bad-op"

end NodisVerif.Driver
