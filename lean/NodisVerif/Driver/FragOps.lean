import NodisVerif.Wire
import NodisVerif.Model.RespReader
/- driver command `frag <chunk> <chunk> …`: the reader model on exactly these read fragments -/
namespace NodisVerif.Driver
open Wire Resp RespReader

/-- non-zero option indexes as `readOptions` leaves them: the last argument spelling the word wins.
    `base` = index passed for the first argument (0 for RESP arrays, 1 for inline commands). -/
def optionsOf (args : List Bytes) (base : Nat) : List (String × Nat) :=
  let all := optionTable.map fun (w, plus) =>
    let idx := args.zipIdx.foldl (fun (acc : Nat) (a, i) =>
      if upper a = Bytes.ofString w then i + base + (if plus then 1 else 0) else acc) 0
    (w, idx)
  let nz := all.filter (·.2 ≠ 0)
  (nz.toArray.qsort (fun a b => a.1 < b.1)).toList

def fmtCmd (c : Cmd) (inline : Bool) : String :=
  let parts := ("C" ++ Bytes.toHex c.name) :: c.args.map showBytes
  let opts := (optionsOf c.args (if inline then 1 else 0)).map fun (w, i) => s!"{w}={i}"
  joinWith " " parts ++ " {" ++ joinWith "," opts ++ "}"

def errName : RErr → String
  | .eof => "eof"
  | .expectedArrayLength => "expectedArrayLength"
  | .expectedArray => "expectedArray"
  | .expectedBulk => "expectedBulk"
  | .badInteger => "other(strconv)"
  | .tooLarge => "other(tooLarge)"

/-- loop of handleConn with a handler that records the command and replies OK -/
def fragLoop (src : Source) : Nat → List String → Nat → String
  | 0, acc, n => joinWith " ; " (acc.reverse ++ [s!"END fuel replies={n}"])
  | fuel + 1, acc, n =>
    let inline := match srcFlat src with | 42 :: _ => false | _ => true
    match readCommand src with
    | .ok c st => fragLoop st.src fuel (fmtCmd c inline :: acc) (n + 1)
    | .err e _ => joinWith " ; " (acc.reverse ++ [s!"END {errName e} replies={n}"])
    | .panic => joinWith " ; " (acc.reverse ++ ["PANIC"])

def fragOp (toks : List String) : String :=
  match toks.mapM parseArg with
  | none => "bad-op"
  | some chunks => fragLoop chunks ((srcFlat chunks).length + 2) [] 0

end NodisVerif.Driver
