import NodisVerif.Wire
import NodisVerif.Model.Handler4
/- driver commands that tie the float arithmetic and the geohash functions directly:
   `geo <fn> <operands>`; floats travel as 16 hex digits, integers in decimal, text as hex bytes -/
namespace NodisVerif.Driver
open Wire

def hexNat? (s : String) : Option Nat :=
  s.toList.foldl (fun acc c =>
    acc.bind fun a =>
      let d := c.toNat
      if 48 ≤ d ∧ d ≤ 57 then some (a * 16 + (d - 48))
      else if 97 ≤ d ∧ d ≤ 102 then some (a * 16 + (d - 87))
      else if 65 ≤ d ∧ d ≤ 70 then some (a * 16 + (d - 55))
      else none) (some 0)

def f64? (s : String) : Option F64 := (hexNat? s).map UInt64.ofNat

def geoOp (toks : List String) : String :=
  match toks with
  | ["sub", a, b] => (match f64? a, f64? b with | some a, some b => hex64 (F64.sub a b) | _, _ => "bad-op")
  | ["add", a, b] => (match f64? a, f64? b with | some a, some b => hex64 (F64.add a b) | _, _ => "bad-op")
  | ["mul", a, b] => (match f64? a, f64? b with | some a, some b => hex64 (F64.mul a b) | _, _ => "bad-op")
  | ["div", a, b] => (match f64? a, f64? b with | some a, some b => hex64 (F64.div a b) | _, _ => "bad-op")
  | ["u64", a] => (match f64? a with | some a => toString (F64.toUInt64 a) | _ => "bad-op")
  | ["u32", a] => (match f64? a with | some a => toString (F64.toUInt32 a) | _ => "bad-op")
  | ["fromu64", n] => (match n.toNat? with | some n => hex64 (F64.ofNat n) | _ => "bad-op")
  | ["parse", t] =>
    (match parseArg t with
     | some b => (match GeoText.parseFloat b with
       | none => "UNSUPPORTED"
       | some none => "E"
       | some (some x) => hex64 x)
     | none => "bad-op")
  | ["enc", lo, la] =>
    (match f64? lo, f64? la with
     | some lo, some la => (match Geohash.encode Geohash.wgsLong Geohash.wgsLat lo la Geohash.wgsStep with
       | none => "E"
       | some h => toString h.toNat)
     | _, _ => "bad-op")
  | ["dec", n] =>
    (match n.toNat? with
     | some n => let (lo, la) := Geohash.decodeWGS84 (UInt64.ofNat n); hex64 lo ++ " " ++ hex64 la
     | _ => "bad-op")
  | ["il", x, y] =>
    (match x.toNat?, y.toNat? with
     | some x, some y => toString (Geohash.interleave64 (UInt64.ofNat x) (UInt64.ofNat y)).toNat
     | _, _ => "bad-op")
  | ["dil", v] =>
    (match v.toNat? with
     | some v => let (x, y) := Geohash.deinterleave64 (UInt64.ofNat v); s!"{x.toNat} {y.toNat}"
     | _ => "bad-op")
  | ["b32", v] => (match v.toNat? with | some v => Bytes.toHex (Geohash.encodeToBase32 (UInt64.ofNat v)) | _ => "bad-op")
  | ["consts"] =>
    " ".intercalate ([Geohash.f180, Geohash.fm180, Geohash.latMax, Geohash.latMin, Geohash.f90, Geohash.fm90,
      Handler4.f1000, Handler4.fMile, Handler4.fFoot].map hex64)
  | _ => "bad-op"

end NodisVerif.Driver
