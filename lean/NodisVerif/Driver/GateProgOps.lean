import NodisVerif.Model.GateProg
/-
  Replay of the recorded gate trace against the PROGRAM model (Model/GateProg.lean): is the sequence of `gev` events
  that each goroutine reported a path of the program?

  The shared part that the events determine (holders of execMu as reported, open transactions, serving goroutines) is
  the gate state `Gate.GState` itself, advanced by `Gate.step` on every `gev` line.  For every goroutine a SET of
  candidate local states (`Loc` × its connection's `ConnSt`) is kept: the event `e` of goroutine `g` advances every
  candidate through silent transitions (under every choice the scheduler could have made at that pc) up to a
  transition that emits `e`; candidates that cannot emit `e` die.  `gpc g site state qlen` lines (the harness reads
  `conn.State` and `len(conn.Commands)` at the gate-in / gate-out / gate-serve / exec-run hook sites, on the
  connection's own goroutine) filter the candidates.  No candidate left = the code took a path the program model
  does not have: `rejected-prog`.

  Keys are not part of the `gev` trace: WATCH watches "k", a signal is for "k" or for another key (both tried), and a
  signal of another goroutine may or may not have marked a watching connection (both kept).
-/
namespace NodisVerif.Driver
open NodisVerif.Gate (Ev GMode GState)
open NodisVerif.GateProg

abbrev Cand := Loc × ConnSt

structure GPR where
  cands : List (Nat × List Cand) := []
  maxc  : Nat := 0

def GPR.get (r : GPR) (g : Nat) : List Cand := ((r.cands.find? (·.1 == g)).map (·.2)).getD [({}, {})]
def GPR.set (r : GPR) (g : Nat) (cs : List Cand) : GPR :=
  { r with cands := (g, cs) :: r.cands.filter (·.1 != g), maxc := max r.maxc cs.length }

/-- the shared state a candidate of goroutine `g` sees -/
def mkShared (gs : GState) (g : Nat) (cs : ConnSt) : Shared :=
  { execMu := gs.holders, active := gs.active, clients := gs.clients, conns := [(g, cs)],
    registry := if cs.watch.isEmpty then [] else [("k", [g])] }

def evIsServe : Ev → Bool
  | .serve _ => true
  | _ => false

def gateEvEq : Ev → Ev → Bool
  | .serve a, .serve b => a == b
  | .gin a m, .gin b m' => a == b && m == m'
  | .gout a, .gout b => a == b
  | .txb a t, .txb b t' => a == b && t == t'
  | .txe a t, .txe b t' => a == b && t == t'
  | .sig a, .sig b => a == b
  | .chk a, .chk b => a == b
  | .run a, .run b => a == b
  | _, _ => false

/-- the choices the scheduler has at a pc (`fresh`: the transaction id of the event being replayed) -/
def choicesAt (l : Loc) (cs : ConnSt) (fresh : Nat) : List Choice :=
  match l.pc with
  | .idle =>
    let cmds : List Cmd := [.exec, .multi, .discard, .watch ["k"], .watch [], .bpop 0, .plain 0] ++
      (if cs.prep then [] else [.unwatch])     -- a queued UNWATCH reports nothing and changes nothing EXEC's reset does not
    ({ call := .embed } : Choice) :: cmds.map fun c => { call := .cmd c }
  | .call => [{ pre := .ok }, { pre := .argErr }, { pre := .panic }]
  | .b0 => [{ body := .beginTx }, { body := .finish false }, { body := .finish true }, { body := .panic },
            { body := .bpop false }, { body := .bpop true }]
  | .b1 | .ec1 => [{ fresh := fresh }]
  | .b2 => [{ body := .signal "k" }, { body := .signal "o" }, { body := .endTx }, { body := .panic }]
  | .p2 => [{ body := .beginTx }, { body := .finish false, found := true }, { body := .finish false, found := false }, { body := .panic }]
  | .p5 => [{ wake := true }, { wake := false }]
  | .flush => [{ flushOk := true }, { flushOk := false }]
  | _ => [{}]

def insertCand (l : List Cand) (c : Cand) : List Cand := if l.contains c then l else c :: l

/-- advance every candidate of `g` through silent transitions up to one whose emission satisfies `want` -/
def advance (gs : GState) (g : Nat) (start : List Cand) (want : List Ev → Bool) (fresh : Nat) : List Cand := Id.run do
  let mut frontier := start
  let mut seen := start
  let mut res : List Cand := []
  for _ in [0:48] do
    if frontier.isEmpty then break
    let mut next : List Cand := []
    for (l, cs) in frontier do
      for ch in choicesAt l cs fresh do
        match tstep (mkShared gs g cs) g l ch with
        | none => pure ()
        | some (s', l', evs) =>
          let c' : Cand := (l', s'.conn g)
          if want evs then res := insertCand res c'
          else if evs.isEmpty && !seen.contains c' then
            seen := c' :: seen
            next := c' :: next
    frontier := next
  return res

def evGoroutine : Ev → Nat
  | .serve g | .gin g _ | .gout g | .txb g _ | .txe g _ | .sig g | .chk g | .run g => g

def evFresh : Ev → Nat
  | .txb _ t => t
  | _ => 0

/-- a signal of another goroutine may have marked this connection's watched keys -/
def forkDirty (cs : List Cand) : List Cand :=
  cs.foldl (fun acc (l, c) =>
    if c.watch.isEmpty || c.watch.all (·.2) then acc
    else insertCand acc (l, { c with watch := c.watch.map fun (k, _) => (k, true) })) cs

/-- one `gev` event that `Gate.step` has accepted from `gs` -/
def gprogEv (r : GPR) (gs : GState) (e : Ev) : GPR × Bool :=
  if evIsServe e then (r, true) else
  let g := evGoroutine e
  let want := fun (evs : List Ev) =>
    match evs.filter (!evIsServe ·) with
    | [e'] => gateEvEq e' e
    | _ => false
  let cs := advance gs g (r.get g) want (evFresh e)
  let r := r.set g cs
  let r := match e with
    | .sig _ => { r with cands := r.cands.map fun (g', c) => if g' == g then (g', c) else (g', forkDirty c) }
    | _ => r
  (r, !cs.isEmpty)

def stateBits (c : ConnSt) : Nat := (if c.prep then 1 else 0) + (if c.commit then 2 else 0) + (if c.err then 4 else 0)

/-- `gpc g site state qlen` -/
def gprogObs (r : GPR) (gs : GState) (toks : List String) : GPR × String :=
  match toks with
  | [g, site, st, q] =>
    match g.toNat?, st.toNat?, q.toNat? with
    | some g, some st, some q =>
      let cs := if site == "serve" then advance gs g (r.get g) (fun evs => evs.length == 1 && evs.all evIsServe) 0 else r.get g
      let cs := cs.filter fun (_, c) => stateBits c == st && c.queue.length == q
      (r.set g cs, if cs.isEmpty then "rejected-prog" else "ok")
    | _, _, _ => (r, "bad-op")
  | _ => (r, "bad-op")

end NodisVerif.Driver
