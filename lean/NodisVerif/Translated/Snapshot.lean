import NodisVerif.Model.GoLib
/- SNAPSHOT of the translator's output (extract -translate) for the repository as it was when the theorems of
   Proofs/Snap*.lean were written; regenerate with bin/translate_check.py --snapshot. The per-run obligations
   (translated/*.lean) show that the freshly translated functions equal these, then reuse the theorems. -/
set_option linter.unusedVariables false
namespace NodisVerif.Snap
open NodisVerif

/-! ## package nodis (.) -/
namespace nodis

/-- Go: ./metadata.go:15  `type metadata struct`; fields outside the subset (a function touching one is rejected): *sync.RWMutex (embedded field) key (type of another package ds.Key) stored (type of another package ds.Key) value (type of another package ds.Value) valueType (type of another package ds.ValueType) -/
structure metadata where
  count : Int
  state : Int
  writeable : Bool
  deriving DecidableEq, Inhabited

/-- Go constant (uint8) -/
def KeyStateNormal : Int := 1

/-- Go: ./metadata.go:74  `func (m *metadata) isOk() bool` -/
def metadata.isOk (m : metadata) : GoLib.M Bool := do
  return ((GoLib.band .u8 m.state KeyStateNormal) == KeyStateNormal)

/-- Go: ./metadata.go:54  `func (m *metadata) reset()`
    updates [m]: returned first -/
def metadata.reset (m : metadata) : GoLib.M metadata := do
  let mut m := m
  m := { m with state := KeyStateNormal }
  m := { m with count := (GoLib.wrap .i64 (m.count - 1)) }
  return m

end nodis

/-! ## package ds (ds) -/
namespace ds

/-- Go: ds/ds.go:12  `type Key struct` -/
structure Key where
  Name : Bytes
  Expiration : Int
  deriving DecidableEq, Inhabited

/-- Go constant (uint8) -/
def Hash : Int := 5

/-- Go constant (uint8) -/
def List_ : Int := 3

/-- Go constant (uint8) -/
def None : Int := 0

/-- Go constant (uint8) -/
def Set_ : Int := 2

/-- Go constant (uint8) -/
def String_ : Int := 1

/-- Go constant (uint8) -/
def ZSet : Int := 4

/-- Go: `var ErrCorruptedData = errors.New(…)` -/
def ErrCorruptedData : GoLib.Error := some "corrupted data"

/-- Go: ds/ds.go:31  `func DecodeKey(b []byte) (*Key, error)` -/
def DecodeKey (b : Bytes) : GoLib.M ((Option Key) × GoLib.Error) := do
  let (t1_, t2_) := (GoLib.binary_Varint b)
  let mut i : Int := t1_
  let mut n : Int := t2_
  if (decide (n ≤ 0)) then
    return (none, ErrCorruptedData)
  return ((some ({ Name := (← GoLib.slice b n (GoLib.len b)), Expiration := i } : Key)), none)

/-- Go: ds/ds.go:23  `func (k *Key) Encode() []byte` -/
def Key.Encode (k : Key) : GoLib.M Bytes := do
  let mut b : Bytes := (← GoLib.makeBytes (GoLib.wrap .i64 (GoLib.binary_MaxVarintLen64 + (GoLib.len k.Name))))
  let (t1_, t2_) ← GoLib.binary_PutVarint b k.Expiration
  b := t1_
  let mut n : Int := t2_
  b := (← GoLib.copyAt b n k.Name)
  return (← GoLib.slice b 0 (GoLib.wrap .i64 (n + (GoLib.len k.Name))))

/-- Go: ds/ds.go:18  `func NewKey(name string, expiration int64) *Key` -/
def NewKey (name : Bytes) (expiration : Int) : GoLib.M (Option Key) := do
  return (some ({ Name := name, Expiration := expiration } : Key))

/-- Go: ds/ds.go:81  `func StringToDataType(s string) ValueType` -/
def StringToDataType (s : Bytes) : GoLib.M Int := do
  do
    let t1_ := s
    if (t1_ == ([83, 84, 82, 73, 78, 71] /- "STRING" -/ : Bytes)) then
      return String_
    else if (t1_ == ([76, 73, 83, 84] /- "LIST" -/ : Bytes)) then
      return List_
    else if (t1_ == ([72, 65, 83, 72] /- "HASH" -/ : Bytes)) then
      return Hash
    else if (t1_ == ([83, 69, 84] /- "SET" -/ : Bytes)) then
      return Set_
    else if (t1_ == ([90, 83, 69, 84] /- "ZSET" -/ : Bytes)) then
      return ZSet
    else
      return None

end ds

/-! ## package hash (ds/hash) -/
namespace hash

/-- Go: ds/hash/hash.go:18  `type keyValuePair struct` -/
structure keyValuePair where
  key : Bytes
  value : Bytes
  deriving DecidableEq, Inhabited

/-- Go: ds/hash/hash.go:33  `func decodeKeyValuePair(b []byte) *keyValuePair` -/
def decodeKeyValuePair (b : Bytes) : GoLib.M (Option keyValuePair) := do
  let mut b := b
  let (t1_, t2_) := (GoLib.binary_Varint b)
  let mut l : Int := t1_
  let mut n : Int := t2_
  b := (← GoLib.slice b n (GoLib.len b))
  let mut key : Bytes := (← GoLib.slice b 0 l)
  return (some ({ key := key, value := (← GoLib.slice b l (GoLib.len b)) } : keyValuePair))

end hash

/-! ## package str (ds/str) -/
namespace str

/-- Go: ds/str/str.go:15  `type String struct` -/
structure String_ where
  V : Bytes
  deriving DecidableEq, Inhabited

/-- Go: ds/str/str.go:203  `func (s *String) Append(data []byte) int64`
    updates [s]: returned first -/
def String_.Append (s : String_) (data : Bytes) : GoLib.M (String_ × Int) := do
  let mut s := s
  s := { s with V := (s.V ++ data) }
  return (s, (GoLib.len s.V))

/-- Go: ds/str/str.go:151  `func (s *String) BitCount(start, end int64) int64` -/
def String_.BitCount (s : String_) (start : Int) (end_ : Int) : GoLib.M Int := do
  let mut start := start
  let mut end_ := end_
  let mut count : Int := 0
  if (decide (start < 0)) then
    start := 0
  if (decide (start ≥ (GoLib.len s.V))) then
    return 0
  let mut bl : Int := (GoLib.len s.V)
  if (decide (end_ ≤ 0)) then
    end_ := (GoLib.wrap .i64 (end_ + (GoLib.wrap .i64 (bl + 1))))
  if (decide (end_ > bl)) then
    end_ := bl
  if (decide (start > end_)) then
    return 0
  if (start == end_) then
    end_ := (GoLib.wrap .i64 (end_ + 1))
  for (_, v) in GoLib.enum (← GoLib.slice s.V start end_) do
    for i in GoLib.irange 0 8 do
      if ((GoLib.band .u8 v (GoLib.shl .u8 1 (GoLib.wrap .u64 i))) != 0) then
        count := (GoLib.wrap .i64 (count + 1))
  return count

/-- Go: ds/str/str.go:137  `func (s *String) getBit(offset int64) int64` -/
def String_.getBit (s : String_) (offset : Int) : GoLib.M Int := do
  let mut i : Int := (Int.tdiv offset 8)
  if (((decide (offset < 0)) || ((GoLib.len s.V) == 0)) || (decide (i > (GoLib.wrap .i64 ((GoLib.len s.V) - 1))))) then
    return 0
  let mut by_ : Int := (← GoLib.idx s.V i)
  let mut bit : Int := (GoLib.shl .u8 1 (GoLib.wrap .u64 (7 - (GoLib.wrap .u64 (Int.tmod offset 8)))))
  if ((GoLib.band .u8 by_ bit) != 0) then
    return 1
  return 0

/-- Go: ds/str/str.go:183  `func (s *String) BitCountByBit(start, end int64) int64` -/
def String_.BitCountByBit (s : String_) (start : Int) (end_ : Int) : GoLib.M Int := do
  let mut start := start
  let mut end_ := end_
  let mut count : Int := 0
  if (decide (start < 0)) then
    start := 0
  let mut bl : Int := (GoLib.wrap .i64 ((GoLib.len s.V) * 8))
  if (decide (end_ ≤ 0)) then
    end_ := bl
  if (decide (end_ > (GoLib.wrap .i64 ((GoLib.len s.V) * 8)))) then
    end_ := bl
  for i in GoLib.irange start end_ do
    if ((← str.String_.getBit s i) == 1) then
      count := (GoLib.wrap .i64 (count + 1))
  return count

/-- Go: ds/str/str.go:43  `func (s *String) Get() []byte` -/
def String_.Get (s : String_) : GoLib.M Bytes := do
  return s.V

/-- Go: ds/str/str.go:133  `func (s *String) GetBit(offset int64) int64` -/
def String_.GetBit (s : String_) (offset : Int) : GoLib.M Int := do
  return (← str.String_.getBit s offset)

/-- Go: ds/str/str.go:209  `func (s *String) GetRange(start, end int64) []byte` -/
def String_.GetRange (s : String_) (start : Int) (end_ : Int) : GoLib.M Bytes := do
  let mut start := start
  let mut end_ := end_
  let mut bl : Int := (GoLib.len s.V)
  if (decide (start < 0)) then
    start := (GoLib.wrap .i64 (bl + start))
    if (decide (start < 0)) then
      start := 0
  if (decide (start ≥ (GoLib.len s.V))) then
    return []
  end_ := (GoLib.wrap .i64 (end_ + 1))
  if (decide (end_ ≤ 0)) then
    end_ := (GoLib.wrap .i64 (end_ + bl))
  if (decide (end_ > bl)) then
    end_ := bl
  if (decide (start > end_)) then
    return []
  return (← GoLib.slice s.V start end_)

/-- Go: ds/str/str.go:36  `func (s *String) GetSet(v []byte) []byte`
    updates [s]: returned first -/
def String_.GetSet (s : String_) (v : Bytes) : GoLib.M (String_ × Bytes) := do
  let mut s := s
  let mut old : Bytes := s.V
  s := { s with V := v }
  return (s, old)

/-- Go: ds/str/str.go:31  `func (s *String) Set(v []byte)`
    updates [s]: returned first -/
def String_.Set_ (s : String_) (v : Bytes) : GoLib.M String_ := do
  let mut s := s
  s := { s with V := v }
  return s

/-- Go: ds/str/str.go:108  `func (s *String) SetBit(offset int64, value bool) int64`
    updates [s]: returned first -/
def String_.SetBit (s : String_) (offset : Int) (value : Bool) : GoLib.M (String_ × Int) := do
  let mut s := s
  if (decide (offset < 0)) then
    return (s, 0)
  let mut i : Int := (Int.tdiv offset 8)
  if (decide (i > (GoLib.wrap .i64 ((GoLib.len s.V) - 1)))) then
    let mut newV : Bytes := (← GoLib.makeBytes (GoLib.wrap .i64 (i + 1)))
    newV := (← GoLib.copyAt newV 0 s.V)
    s := { s with V := newV }
  let mut by_ : Int := (← GoLib.idx s.V i)
  let mut bit : Int := (GoLib.shl .u8 1 (GoLib.wrap .u64 (7 - (GoLib.wrap .u64 (Int.tmod offset 8)))))
  let mut old : Int := (GoLib.band .u8 by_ bit)
  if value then
    s := { s with V := (← GoLib.setIdx s.V i (GoLib.bor .u8 by_ bit)) }
  else
    s := { s with V := (← GoLib.setIdx s.V i (GoLib.bandnot .u8 by_ bit)) }
  if (old != 0) then
    return (s, 1)
  return (s, 0)

/-- Go: ds/str/str.go:239  `func (s *String) SetRange(offset int64, data []byte) int64`
    updates [s]: returned first -/
def String_.SetRange (s : String_) (offset : Int) (data : Bytes) : GoLib.M (String_ × Int) := do
  let mut s := s
  if (decide (offset < 0)) then
    return (s, 0)
  let mut dLen : Int := (GoLib.len data)
  let mut vLen : Int := (GoLib.len s.V)
  if (decide ((GoLib.wrap .i64 (offset + dLen)) > vLen)) then
    s := { s with V := (s.V ++ (← GoLib.makeBytes (GoLib.wrap .i64 ((GoLib.wrap .i64 (offset + dLen)) - vLen)))) }
  s := { s with V := (← GoLib.copyAt s.V offset data) }
  return (s, (GoLib.len s.V))

/-- Go: ds/str/str.go:234  `func (s *String) Strlen() int64` -/
def String_.Strlen (s : String_) : GoLib.M Int := do
  return (GoLib.len s.V)

end str

/-! ## package zset (ds/zset) -/
namespace zset

/-- Go: ds/zset/skiplist.go:15  `type Item struct` -/
structure Item where
  Score : Int
  Member : Bytes
  deriving DecidableEq, Inhabited

/-- Go constant (untyped constant) -/
def maxLevel : Int := 16

/-- Go: ds/zset/skiplist.go:20  `func (i *Item) encode() []byte` -/
def Item.encode (i : Item) : GoLib.M Bytes := do
  let mut b : Bytes := (← GoLib.makeBytes (GoLib.wrap .i64 (8 + (GoLib.len i.Member))))
  b := (← GoLib.binary_LittleEndian_PutUint64 b (id i.Score))
  b := (← GoLib.copyAt b 8 i.Member)
  return b

/-- Go: ds/zset/skiplist.go:27  `func decodeItem(b []byte) *Item` -/
def decodeItem (b : Bytes) : GoLib.M (Option Item) := do
  let mut score : Int := (id (← GoLib.binary_LittleEndian_Uint64 b))
  let mut member : Bytes := (← GoLib.slice b 8 (GoLib.len b))
  return (some ({ Score := score, Member := member } : Item))

/-- Go: ds/zset/skiplist.go:76  `func randomLevel() int16` -/
def randomLevel (rand_Uint64 : Int) : GoLib.M Int := do
  let mut total : Int := (GoLib.wrap .u64 ((GoLib.shl .u64 1 maxLevel) - 1))
  let mut k : Int := (← GoLib.mod .u64 rand_Uint64 total)
  return (GoLib.wrap .i16 ((GoLib.wrap .i16 (maxLevel - (GoLib.wrap .i16 (GoLib.bits_Len64 (GoLib.wrap .u64 (k + 1)))))) + 1))

end zset

/-! ## package geohash (internal/geohash) -/
namespace geohash

/-- Go: internal/geohash/types.go:13  `type HashBits struct` -/
structure HashBits where
  Bits : Int
  Step : Int
  deriving DecidableEq, Inhabited

/-- Go: internal/geohash/types.go:27  `type Neighbors struct` -/
structure Neighbors where
  North : HashBits
  East : HashBits
  West : HashBits
  South : HashBits
  NorthEast : HashBits
  SouthEast : HashBits
  NorthWest : HashBits
  SouthWest : HashBits
  deriving DecidableEq, Inhabited

/-- Go package-level variable, never assigned in the package -/
def b : (List Int) := [6148914691236517205, 3689348814741910323, 1085102592571150095, 71777214294589695, 281470681808895, 4294967295]

/-- Go package-level variable, never assigned in the package -/
def geoalphabet : Bytes := ([48, 49, 50, 51, 52, 53, 54, 55, 56, 57, 98, 99, 100, 101, 102, 103, 104, 106, 107, 109, 110, 112, 113, 114, 115, 116, 117, 118, 119, 120, 121, 122] /- "0123456789bcdefghjkmnpqrstuvwxyz" -/ : Bytes)

/-- Go package-level variable, never assigned in the package -/
def s : (List Int) := [0, 1, 2, 4, 8, 16]

/-- Go: internal/geohash/helper.go:117  `func EncodeToBase32(hash uint64) []byte` -/
def EncodeToBase32 (hash : Int) : GoLib.M Bytes := do
  let mut buf : Bytes := (← GoLib.makeBytes 11)
  let mut i : Int := 0
  do
    let mut fuel_ok1 := false
    for _ in GoLib.fuelList 11 do
      if !(decide (i < 11)) then
        fuel_ok1 := true
        break
      let mut idx : Int := (GoLib.band .u64 (GoLib.shr .u64 hash (GoLib.wrap .u8 (52 - (GoLib.wrap .u8 ((GoLib.wrap .u8 (i + 1)) * 5))))) 31)
      buf := (← GoLib.setIdx buf i (← GoLib.idx geoalphabet idx))
      i := (GoLib.wrap .u8 (i + 1))
    if !fuel_ok1 then
      throw GoLib.Panic.fuel
  return buf

/-- Go: internal/geohash/helper.go:313  `func moveX(hash *HashBits, d int8) *HashBits`
    updates [hash]: returned first
    the pointer result is always one of the pointer parameters: dropped -/
def moveX (hash : HashBits) (d : Int) : GoLib.M HashBits := do
  let mut hash := hash
  if (d == 0) then
    return hash
  let mut xmask : Int := 12297829382473034410
  let mut ymask : Int := 6148914691236517205
  let mut x : Int := (GoLib.band .u64 hash.Bits xmask)
  let mut y : Int := (GoLib.band .u64 hash.Bits ymask)
  let mut zz : Int := (GoLib.shr .u64 ymask (GoLib.wrap .u8 (64 - (GoLib.wrap .u8 (hash.Step * 2)))))
  if (decide (d > 0)) then
    x := (GoLib.wrap .u64 (x + (GoLib.wrap .u64 (zz + 1))))
  else
    x := (GoLib.bor .u64 x zz)
    x := (GoLib.wrap .u64 (x - (GoLib.wrap .u64 (zz + 1))))
  x := (GoLib.band .u64 x (GoLib.shr .u64 xmask (GoLib.wrap .u8 (64 - (GoLib.wrap .u8 (hash.Step * 2))))))
  hash := { hash with Bits := (GoLib.bor .u64 x y) }
  return hash

/-- Go: internal/geohash/helper.go:336  `func moveY(hash *HashBits, d int8) *HashBits`
    updates [hash]: returned first
    the pointer result is always one of the pointer parameters: dropped -/
def moveY (hash : HashBits) (d : Int) : GoLib.M HashBits := do
  let mut hash := hash
  if (d == 0) then
    return hash
  let mut xmask : Int := 12297829382473034410
  let mut ymask : Int := 6148914691236517205
  let mut x : Int := (GoLib.band .u64 hash.Bits xmask)
  let mut y : Int := (GoLib.band .u64 hash.Bits ymask)
  let mut zz : Int := (GoLib.shr .u64 xmask (GoLib.wrap .u8 (64 - (GoLib.wrap .u8 (hash.Step * 2)))))
  if (decide (d > 0)) then
    y := (GoLib.wrap .u64 (y + (GoLib.wrap .u64 (zz + 1))))
  else
    y := (GoLib.bor .u64 y zz)
    y := (GoLib.wrap .u64 (y - (GoLib.wrap .u64 (zz + 1))))
  y := (GoLib.band .u64 y (GoLib.shr .u64 ymask (GoLib.wrap .u8 (64 - (GoLib.wrap .u8 (hash.Step * 2))))))
  hash := { hash with Bits := (GoLib.bor .u64 x y) }
  return hash

/-- Go: internal/geohash/helper.go:274  `func GetNeighbors(hash HashBits) *Neighbors` -/
def GetNeighbors (hash : HashBits) : GoLib.M (Option Neighbors) := do
  let mut neighbors : Neighbors := ({ North := hash, East := hash, West := hash, South := hash, NorthEast := hash, SouthEast := hash, NorthWest := hash, SouthWest := hash } : Neighbors)
  let t1_ ← geohash.moveX neighbors.East 1
  neighbors := { neighbors with East := t1_ }
  let t2_ ← geohash.moveY neighbors.East 0
  neighbors := { neighbors with East := t2_ }
  let t3_ ← geohash.moveX neighbors.West (-1)
  neighbors := { neighbors with West := t3_ }
  let t4_ ← geohash.moveY neighbors.West 0
  neighbors := { neighbors with West := t4_ }
  let t5_ ← geohash.moveX neighbors.South 0
  neighbors := { neighbors with South := t5_ }
  let t6_ ← geohash.moveY neighbors.South (-1)
  neighbors := { neighbors with South := t6_ }
  let t7_ ← geohash.moveX neighbors.North 0
  neighbors := { neighbors with North := t7_ }
  let t8_ ← geohash.moveY neighbors.North 1
  neighbors := { neighbors with North := t8_ }
  let t9_ ← geohash.moveX neighbors.NorthWest (-1)
  neighbors := { neighbors with NorthWest := t9_ }
  let t10_ ← geohash.moveY neighbors.NorthWest 1
  neighbors := { neighbors with NorthWest := t10_ }
  let t11_ ← geohash.moveX neighbors.NorthEast 1
  neighbors := { neighbors with NorthEast := t11_ }
  let t12_ ← geohash.moveY neighbors.NorthEast 1
  neighbors := { neighbors with NorthEast := t12_ }
  let t13_ ← geohash.moveX neighbors.SouthEast 1
  neighbors := { neighbors with SouthEast := t13_ }
  let t14_ ← geohash.moveY neighbors.SouthEast (-1)
  neighbors := { neighbors with SouthEast := t14_ }
  let t15_ ← geohash.moveX neighbors.SouthWest (-1)
  neighbors := { neighbors with SouthWest := t15_ }
  let t16_ ← geohash.moveY neighbors.SouthWest (-1)
  neighbors := { neighbors with SouthWest := t16_ }
  return (some neighbors)

/-- Go: internal/geohash/types.go:22  `func (hash *HashBits) Clean()`
    updates [hash]: returned first -/
def HashBits.Clean (hash : HashBits) : GoLib.M HashBits := do
  let mut hash := hash
  hash := { hash with Bits := 0 }
  hash := { hash with Step := 0 }
  return hash

/-- Go: internal/geohash/types.go:18  `func (hash HashBits) IsZero() bool` -/
def HashBits.IsZero (hash : HashBits) : GoLib.M Bool := do
  return ((hash.Bits == 0) && (hash.Step == 0))

/-- Go: internal/geohash/helper.go:67  `func deinterleave64(interleaved uint64) (uint32, uint32)` -/
def deinterleave64 (interleaved : Int) : GoLib.M (Int × Int) := do
  let t1_ := interleaved
  let t2_ := (GoLib.shr .u64 interleaved 1)
  let mut x : Int := t1_
  let mut y : Int := t2_
  x := (GoLib.band .u64 (GoLib.bor .u64 x (GoLib.shr .u64 x (← GoLib.idxI s 0))) (← GoLib.idxI b 0))
  y := (GoLib.band .u64 (GoLib.bor .u64 y (GoLib.shr .u64 y (← GoLib.idxI s 0))) (← GoLib.idxI b 0))
  x := (GoLib.band .u64 (GoLib.bor .u64 x (GoLib.shr .u64 x (← GoLib.idxI s 1))) (← GoLib.idxI b 1))
  y := (GoLib.band .u64 (GoLib.bor .u64 y (GoLib.shr .u64 y (← GoLib.idxI s 1))) (← GoLib.idxI b 1))
  x := (GoLib.band .u64 (GoLib.bor .u64 x (GoLib.shr .u64 x (← GoLib.idxI s 2))) (← GoLib.idxI b 2))
  y := (GoLib.band .u64 (GoLib.bor .u64 y (GoLib.shr .u64 y (← GoLib.idxI s 2))) (← GoLib.idxI b 2))
  x := (GoLib.band .u64 (GoLib.bor .u64 x (GoLib.shr .u64 x (← GoLib.idxI s 3))) (← GoLib.idxI b 3))
  y := (GoLib.band .u64 (GoLib.bor .u64 y (GoLib.shr .u64 y (← GoLib.idxI s 3))) (← GoLib.idxI b 3))
  x := (GoLib.band .u64 (GoLib.bor .u64 x (GoLib.shr .u64 x (← GoLib.idxI s 4))) (← GoLib.idxI b 4))
  y := (GoLib.band .u64 (GoLib.bor .u64 y (GoLib.shr .u64 y (← GoLib.idxI s 4))) (← GoLib.idxI b 4))
  x := (GoLib.band .u64 (GoLib.bor .u64 x (GoLib.shr .u64 x (← GoLib.idxI s 5))) (← GoLib.idxI b 5))
  y := (GoLib.band .u64 (GoLib.bor .u64 y (GoLib.shr .u64 y (← GoLib.idxI s 5))) (← GoLib.idxI b 5))
  x := (GoLib.bor .u64 x (GoLib.shl .u64 y 32))
  return ((GoLib.wrap .u32 x), (GoLib.wrap .u32 (GoLib.shr .u64 x 32)))

/-- Go: internal/geohash/helper.go:44  `func interleave64(xlo uint32, ylo uint32) uint64` -/
def interleave64 (xlo : Int) (ylo : Int) : GoLib.M Int := do
  let mut x : Int := xlo
  let mut y : Int := ylo
  x := (GoLib.band .u64 (GoLib.bor .u64 x (GoLib.shl .u64 x (← GoLib.idxI s 5))) (← GoLib.idxI b 4))
  y := (GoLib.band .u64 (GoLib.bor .u64 y (GoLib.shl .u64 y (← GoLib.idxI s 5))) (← GoLib.idxI b 4))
  x := (GoLib.band .u64 (GoLib.bor .u64 x (GoLib.shl .u64 x (← GoLib.idxI s 4))) (← GoLib.idxI b 3))
  y := (GoLib.band .u64 (GoLib.bor .u64 y (GoLib.shl .u64 y (← GoLib.idxI s 4))) (← GoLib.idxI b 3))
  x := (GoLib.band .u64 (GoLib.bor .u64 x (GoLib.shl .u64 x (← GoLib.idxI s 3))) (← GoLib.idxI b 2))
  y := (GoLib.band .u64 (GoLib.bor .u64 y (GoLib.shl .u64 y (← GoLib.idxI s 3))) (← GoLib.idxI b 2))
  x := (GoLib.band .u64 (GoLib.bor .u64 x (GoLib.shl .u64 x (← GoLib.idxI s 2))) (← GoLib.idxI b 1))
  y := (GoLib.band .u64 (GoLib.bor .u64 y (GoLib.shl .u64 y (← GoLib.idxI s 2))) (← GoLib.idxI b 1))
  x := (GoLib.band .u64 (GoLib.bor .u64 x (GoLib.shl .u64 x (← GoLib.idxI s 1))) (← GoLib.idxI b 0))
  y := (GoLib.band .u64 (GoLib.bor .u64 y (GoLib.shl .u64 y (← GoLib.idxI s 1))) (← GoLib.idxI b 0))
  return (GoLib.bor .u64 x (GoLib.shl .u64 y 1))

end geohash

/-! ## package strings (internal/strings) -/
namespace strings

/-- Go: internal/strings/strings.go:17  `func Fnv32(key string) uint32` -/
def Fnv32 (key : Bytes) : GoLib.M Int := do
  let mut h : Int := 2166136261
  for i in GoLib.irange 0 (GoLib.len key) do
    h := (GoLib.wrap .u32 (h * 16777619))
    h := (GoLib.bxor .u32 h (← GoLib.idx key i))
  return h

/-- Go: internal/strings/strings.go:26  `func String2Bytes(s string) []byte` -/
def String2Bytes (s : Bytes) : GoLib.M Bytes := do
  return s

/-- Go: internal/strings/strings.go:5  `func ToUpper(v string) string` -/
def ToUpper (v : Bytes) : GoLib.M Bytes := do
  let mut buf : Bytes := (← GoLib.makeBytes (GoLib.len v))
  for (i, vv) in GoLib.runes v do
    if ((decide (97 ≤ vv)) && (decide (vv ≤ 122))) then
      buf := (← GoLib.setIdx buf i (GoLib.wrap .u8 (GoLib.wrap .i32 (vv - 32))))
    else
      buf := (← GoLib.setIdx buf i (GoLib.wrap .u8 vv))
  return buf

end strings

/-! ## package redis (redis) -/
namespace redis

/-- Go: redis/cmd.go:9  `type Options struct` -/
structure Options where
  NX : Int
  XX : Int
  KEEPTTL : Int
  GET : Int
  LT : Int
  GT : Int
  CH : Int
  INCR : Int
  WITHSCORES : Int
  EX : Int
  PX : Int
  EXAT : Int
  PXAT : Int
  MATCH : Int
  COUNT : Int
  BYLEX : Int
  BYSCORE : Int
  LIMIT : Int
  BYTE : Int
  BIT : Int
  NUMKEYS : Int
  WEIGHTS : Int
  AGGREGATE : Int
  REV : Int
  TYPE : Int
  M : Int
  KM : Int
  FT : Int
  MI : Int
  ASC : Int
  DESC : Int
  ANY : Int
  WITHCOORD : Int
  WITHDIST : Int
  WITHHASH : Int
  deriving DecidableEq, Inhabited

/-- Go: redis/cmd.go:3  `type Command struct`; fields outside the subset (a function touching one is rejected): Args (slice of string) -/
structure Command where
  Name : Bytes
  Options : Options
  deriving DecidableEq, Inhabited

/-- Go: redis/resp.go:13  `type Reader struct`; fields outside the subset (a function touching one is rejected): reader (type of another package io.Reader) -/
structure Reader where
  buf : Bytes
  r : Int
  l : Int
  cmd : Command
  deriving DecidableEq, Inhabited

/-- Go: redis/resp.go:348  `type Writer struct`; fields outside the subset (a function touching one is rejected): writer (type of another package io.Writer) -/
structure Writer where
  buf : Bytes
  w : Int
  err : Bool
  deriving DecidableEq, Inhabited

/-- Go constant (untyped constant) -/
def defaultSize : Int := 4096

/-- Go: redis/number.go:9  `func FormatFloat64(s string) (float64, error)` -/
def FormatFloat64 (strconv_ParseFloat : Bytes → Int → Int × GoLib.Error) (s : Bytes) : GoLib.M (Int × GoLib.Error) := do
  let mut f : Bytes := []
  if ((← GoLib.idx s 0) == 40) then
    f := (← GoLib.slice s 1 (GoLib.len s))
  else
    f := s
  let (t1_, t2_) := (strconv_ParseFloat f 64)
  let mut v : Int := t1_
  let mut err : GoLib.Error := t2_
  if ((err == none) && (GoLib.math_IsNaN v)) then
    return (0, (some "value is not a valid float" : GoLib.Error))
  return (v, err)

/-- Go: redis/number.go:24  `func FormatInt64(s string) (int64, error)` -/
def FormatInt64 (strconv_ParseInt : Bytes → Int → Int → Int × GoLib.Error) (s : Bytes) : GoLib.M (Int × GoLib.Error) := do
  let mut i : Bytes := []
  if ((← GoLib.idx s 0) == 40) then
    i := (← GoLib.slice s 1 (GoLib.len s))
  else
    i := s
  return (strconv_ParseInt i 10 64)

/-- Go: redis/resp.go:74  `func (r *Reader) indexByte(i int) byte` -/
def Reader.indexByte (r : Reader) (i : Int) : GoLib.M Int := do
  if (decide (i ≥ 0)) then
    return (← GoLib.idx r.buf (GoLib.wrap .i64 (r.r + i)))
  return (← GoLib.idx r.buf (GoLib.wrap .i64 ((GoLib.wrap .i64 (r.r + r.l)) + i)))

/-- Go: redis/resp.go:70  `func (r *Reader) firstByte() byte` -/
def Reader.firstByte (r : Reader) : GoLib.M Int := do
  return (← redis.Reader.indexByte r 0)

/-- Go: redis/resp.go:30  `func (r *Reader) grow(n int)`
    updates [r]: returned first -/
def Reader.grow (r : Reader) (n : Int) : GoLib.M Reader := do
  let mut r := r
  if (decide ((GoLib.wrap .i64 ((GoLib.wrap .i64 (r.r + r.l)) + n)) ≤ (GoLib.len r.buf))) then
    return r
  let mut c : Int := (GoLib.wrap .i64 ((GoLib.wrap .i64 (r.r + r.l)) + n))
  let mut newBuf : Bytes := (← GoLib.makeBytes c)
  newBuf := (← GoLib.copyAt newBuf 0 r.buf)
  r := { r with buf := newBuf }
  return r

/-- Go: redis/resp.go:101  `func (r *Reader) malloc()`
    updates [r]: returned first -/
def Reader.malloc (r : Reader) : GoLib.M Reader := do
  let mut r := r
  r := { r with r := (GoLib.wrap .i64 (r.r + r.l)) }
  r := { r with l := 0 }
  return r

/-- Go: redis/resp.go:362  `func (w *Writer) grow(n int)`
    updates [w]: returned first -/
def Writer.grow (w : Writer) (n : Int) : GoLib.M Writer := do
  let mut w := w
  let mut newBuf : Bytes := (← GoLib.makeBytes (GoLib.wrap .i64 ((GoLib.len w.buf) + n)))
  newBuf := (← GoLib.copyAt newBuf 0 w.buf)
  w := { w with buf := newBuf }
  return w

/-- Go: redis/resp.go:386  `func (w *Writer) writeByte(b byte)`
    updates [w]: returned first -/
def Writer.writeByte (w : Writer) (b : Int) : GoLib.M Writer := do
  let mut w := w
  if (decide (w.w ≥ (GoLib.len w.buf))) then
    let t1_ ← redis.Writer.grow w defaultSize
    w := t1_
  w := { w with buf := (← GoLib.setIdx w.buf w.w b) }
  w := { w with w := (GoLib.wrap .i64 (w.w + 1)) }
  return w

end redis

/-! ## package storage (storage) -/
namespace storage

/-- Go: storage/entry.go:19  `type Entry struct` -/
structure Entry where
  Type_ : Int
  Value : Bytes
  deriving DecidableEq, Inhabited

/-- Go: `var ErrCorruptedData = errors.New(…)` -/
def ErrCorruptedData : GoLib.Error := some "corrupted values"

/-- Go: storage/entry.go:24  `func (e *Entry) encode() []byte` -/
def Entry.encode (e : Entry) : GoLib.M Bytes := do
  let mut b : Bytes := (← GoLib.makeBytes (GoLib.wrap .i64 (1 + (GoLib.len e.Value))))
  b := (← GoLib.setIdx b 0 e.Type_)
  b := (← GoLib.copyAt b 1 e.Value)
  return b

/-- Go: storage/entry.go:31  `func (e *Entry) from(b []byte) error`
    updates [e]: returned first -/
def Entry.from_ (e : Entry) (b : Bytes) : GoLib.M (Entry × GoLib.Error) := do
  let mut e := e
  if (decide ((GoLib.len b) < 1)) then
    return (e, ErrCorruptedData)
  e := { e with Type_ := (← GoLib.idx b 0) }
  e := { e with Value := ((GoLib.bytesOfInts []) ++ (← GoLib.slice b 1 (GoLib.len b))) }
  return (e, none)

end storage

end NodisVerif.Snap
