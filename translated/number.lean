-- Obligations about redis/number.go: the '(' prefix logic around strconv.ParseInt / ParseFloat (the parse
-- functions are parameters: they are outside the subset and modelled elsewhere, Basic.parseInt64).
-- functions: redis FormatInt64, redis FormatFloat64
-- properties: C04
-- import: NodisVerif.Proofs.SnapCodec
namespace NodisVerif.TranslatedTie
open NodisVerif NodisVerif.Translated NodisVerif.GoLib

/-- `FormatInt64`: an empty argument panics (index out of range: a finding class the handlers must exclude);
    otherwise one leading '(' is stripped and the rest goes to ParseInt(·, 10, 64) unchanged -/
theorem redis_FormatInt64_spec (p : Bytes → Int → Int → Int × GoLib.Error) (s : Bytes) :
    redis.FormatInt64 p s = match s with
      | [] => .error .index
      | c :: rest => .ok (if c = 40 then p rest 10 64 else p (c :: rest) 10 64) := by
  cases s with
  | nil => rfl
  | cons c rest =>
    have hs := slice_from (c :: rest) 1 (by simp; omega)
    have hi : idx (c :: rest) 0 = .ok (c.toNat : Int) := by simp [idx, pure, Except.pure]
    have hc : ((c.toNat : Int) == 40) = decide (c = 40) := by
      cases h : decide (c = 40) <;> simp at h ⊢
      · intro h'; apply h; apply UInt8.toNat_inj.mp; simp; omega
      · subst h; rfl
    simp only [redis.FormatInt64, hi, bind, Except.bind, hc]
    by_cases h40 : c = 40
    · subst h40; simp [hs, pure, Except.pure, bind, Except.bind]
    · simp [h40, pure, Except.pure]

/-- `FormatFloat64`: same prefix logic; a NaN that parses without error is turned into an error with value 0 -/
theorem redis_FormatFloat64_spec (p : Bytes → Int → Int × GoLib.Error) (c : UInt8) (rest : Bytes) :
    redis.FormatFloat64 p (c :: rest) =
      let r := if c = 40 then p rest 64 else p (c :: rest) 64
      .ok (if r.2 == none && math_IsNaN r.1 then (0, some "value is not a valid float") else r) := by
  have hs := slice_from (c :: rest) 1 (by simp; omega)
  have hi : idx (c :: rest) 0 = .ok (c.toNat : Int) := by simp [idx, pure, Except.pure]
  have hc : ((c.toNat : Int) == 40) = decide (c = 40) := by
    cases h : decide (c = 40) <;> simp at h ⊢
    · intro h'; apply h; apply UInt8.toNat_inj.mp; simp; omega
    · subst h; rfl
  simp only [redis.FormatFloat64, hi, bind, Except.bind, hc]
  by_cases h40 : c = 40
  · subst h40
    simp only [decide_true, if_true, hs, pure, Except.pure]
    split <;> simp_all <;> split <;> rfl
  · simp only [h40, decide_false, Bool.false_eq_true, if_false, pure, Except.pure]
    split <;> simp_all <;> split <;> rfl

theorem redis_FormatFloat64_empty (p : Bytes → Int → Int × GoLib.Error) : redis.FormatFloat64 p [] = .error .index := rfl

end NodisVerif.TranslatedTie
