-- Obligations about ds/zset/skiplist.go randomLevel (the random word is a parameter): the level is always in
-- 1..maxLevel (16), so node levels index the header's 16 slots; level l has probability 2^-l (up to 1/65535):
-- the level is 17 - bitlen(k+1) for k = r mod 65535.
-- functions: ds/zset randomLevel
-- properties: C04
-- import: NodisVerif.Proofs.GoLibLemmas
namespace NodisVerif.TranslatedTie
open NodisVerif NodisVerif.Translated NodisVerif.GoLib

theorem zset_randomLevel_eq (r : Int) (hr : 0 ≤ r ∧ r < 2 ^ 64) :
    zset.randomLevel r = .ok (17 - bits_Len64 (r % 65535 + 1)) ∧
      1 ≤ 17 - bits_Len64 (r % 65535 + 1) ∧ 17 - bits_Len64 (r % 65535 + 1) ≤ 16 := by
  have ht : wrap .u64 (shl .u64 1 zset.maxLevel - 1) = 65535 := by decide
  have htm : Int.tmod r 65535 = r % 65535 := Int.tmod_eq_emod_of_nonneg hr.1
  have hk : 0 ≤ r % 65535 ∧ r % 65535 < 65535 := by omega
  generalize r % 65535 = k at hk htm
  have hw : wrap .u64 (k + 1) = k + 1 := by rw [wrap_u64]; omega
  have hlen : 1 ≤ bits_Len64 (k + 1) ∧ bits_Len64 (k + 1) ≤ 16 := by
    have hpos : ¬ (k + 1 ≤ 0) := by omega
    have hne : (k + 1).toNat ≠ 0 := by omega
    have : (k + 1).toNat.log2 < 16 := (Nat.log2_lt hne).mpr (by omega)
    simp only [bits_Len64, hpos, if_false]
    omega
  refine ⟨?_, by omega, by omega⟩
  unfold zset.randomLevel
  rw [ht]
  have hmod : GoLib.mod .u64 r 65535 = .ok k := by
    simp only [GoLib.mod, htm]; rfl
  simp only [hmod, bind, Except.bind, pure, Except.pure, hw, zset.maxLevel]
  generalize bits_Len64 (k + 1) = l at hlen
  simp only [wrap_i16]
  congr 1
  omega

example : zset.randomLevel 0 = .ok 16 ∧ zset.randomLevel 1 = .ok 15 ∧ zset.randomLevel 65534 = .ok 1 := by decide

end NodisVerif.TranslatedTie
