-- Obligations about internal/geohash/helper.go bit arithmetic (no model counterpart: direct properties).
-- PARTIAL: the round trip deinterleave64 ∘ interleave64 is proved for all x, y < 16 and a set of boundary words
-- (kernel evaluation), not for all 32-bit words: the general statement needs bit-level reasoning over the six
-- mask-and-shift rounds that core Lean has no automation for without bv_decide (forbidden here).  What the bounded
-- statement does give on every run: any change of a mask, a shift distance, an operator or the round order that
-- changes the function on small or boundary words breaks it (see docs/go2lean.md, robustness experiment).
-- functions: internal/geohash interleave64, internal/geohash deinterleave64, internal/geohash EncodeToBase32, internal/geohash moveX, internal/geohash moveY, internal/geohash GetNeighbors, internal/geohash HashBits.Clean, internal/geohash HashBits.IsZero
-- properties: C04
-- import: NodisVerif.Proofs.GoLibLemmas
namespace NodisVerif.TranslatedTie
open NodisVerif NodisVerif.Translated NodisVerif.GoLib

def geoRound (x y : Int) : Bool :=
  (geohash.interleave64 x y >>= geohash.deinterleave64) == .ok (x, y)

theorem geo_roundtrip_partial : ∀ x : Fin 16, ∀ y : Fin 16, geoRound (x.val : Int) (y.val : Int) = true := by
  decide +kernel

theorem geo_roundtrip_boundary_partial :
    [(0, 4294967295), (4294967295, 0), (4294967295, 4294967295), (3735928559, 305419896), (2147483648, 1), (65535, 4294901760),
     (1431655765, 2863311530)].all (fun p => geoRound p.1 p.2) = true := by
  decide +kernel

/-- x lands on the even bit positions, y on the odd ones -/
theorem geo_interleave_examples :
    geohash.interleave64 1 0 = .ok 1 ∧ geohash.interleave64 0 1 = .ok 2 ∧ geohash.interleave64 3 0 = .ok 5 ∧
    geohash.interleave64 4294967295 0 = .ok 6148914691236517205 ∧ geohash.interleave64 0 4294967295 = .ok 12297829382473034410 := by
  decide +kernel

/-- 11 base-32 characters, 5 bits each from bit 51 down; the 11th is always "0" (52 - 55 wraps to 253 as uint8, the shift
    yields 0 — the same character Redis emits); the fuel (11) is not exhausted -/
theorem geo_EncodeToBase32_examples_partial :
    geohash.EncodeToBase32 0 = .ok [48, 48, 48, 48, 48, 48, 48, 48, 48, 48, 48] ∧
    geohash.EncodeToBase32 4503599627370495 = .ok [122, 122, 122, 122, 122, 122, 122, 122, 122, 122, 48] ∧
    (geohash.EncodeToBase32 3471579339700058).map List.length = .ok 11 := by
  decide +kernel

/-- moving east then west (and north then south) at step 26 returns to the start cell -/
theorem geo_move_examples_partial :
    (geohash.moveX ⟨3471579339700058, 26⟩ 1 >>= fun h => geohash.moveX h (-1)) = .ok ⟨3471579339700058, 26⟩ ∧
    (geohash.moveY ⟨3471579339700058, 26⟩ 1 >>= fun h => geohash.moveY h (-1)) = .ok ⟨3471579339700058, 26⟩ ∧
    geohash.moveX ⟨5, 2⟩ 0 = .ok ⟨5, 2⟩ := by
  decide +kernel

theorem geo_Clean_IsZero (h : geohash.HashBits) : (geohash.HashBits.Clean h >>= geohash.HashBits.IsZero) = .ok true := rfl

end NodisVerif.TranslatedTie
