-- Obligations about the translated functions of ds/str/str.go: each equals the hand-written model function of
-- Model/DsStr.lean (the model is on unbounded Int; the hypotheses say the arguments are int64 values and the
-- value is shorter than 2^62 bytes, which is where Go's wrap-around is the identity).
-- Heavy case analyses are proved once about a normal form (Proofs/SnapStr.lean, built by lake); here the
-- freshly translated function is shown to BE that normal form.
-- functions: ds/str String.SetRange, ds/str String.SetBit, ds/str String.BitCountByBit, ds/str String.BitCount, ds/str String.getBit, ds/str String.GetBit, ds/str String.Strlen, ds/str String.GetRange, ds/str String.Append, ds/str String.Set, ds/str String.Get, ds/str String.GetSet
-- properties: C01
-- import: NodisVerif.Model.DsStr
-- import: NodisVerif.Proofs.SnapStrSetRange
namespace NodisVerif.TranslatedTie
open NodisVerif NodisVerif.Translated NodisVerif.GoLib

theorem str_Strlen_eq_model (v : Bytes) : str.String_.Strlen ⟨v⟩ = .ok (DsStr.len (some v)) := rfl

theorem str_GetRange_is_normal_form (v : Bytes) (a b : Int) : str.String_.GetRange ⟨v⟩ a b = StrNF.GetRange v a b := by
  first | rfl | simp [str.String_.GetRange, StrNF.GetRange]

/-- `GetRange` is the model's `getRange` (nil and the empty slice identified) and never panics -/
theorem str_GetRange_eq_model (v : Bytes) (a b : Int) (hv : v.length < 2 ^ 62) (ha : inInt64 a) (hb : inInt64 b) :
    str.String_.GetRange ⟨v⟩ a b = .ok ((DsStr.getRange (some v) a b).getD []) := by
  rw [str_GetRange_is_normal_form]; exact StrNF.GetRange_eq_model v a b hv ha hb

example : str.String_.GetRange ⟨[104, 101, 108, 108, 111]⟩ (-3) (-2) = .ok [108, 108] := by decide

theorem str_getBit_is_normal_form (v : Bytes) (o : Int) : str.String_.getBit ⟨v⟩ o = StrNF.getBit v o := by
  first | rfl | simp [str.String_.getBit, StrNF.getBit]

/-- `getBit` / `GetBit` are the model's `getBit` for every int64 offset (bit 7−(offset mod 8) of byte offset/8; 0 outside) and never panic -/
theorem str_getBit_eq_model (v : Bytes) (o : Int) (hv : v.length < 2 ^ 62) (ho : inInt64 o) :
    str.String_.getBit ⟨v⟩ o = .ok (DsStr.getBit (some v) o) := by
  rw [str_getBit_is_normal_form]; exact StrNF.getBit_eq_model v o hv ho

theorem str_GetBit_eq_model (v : Bytes) (o : Int) (hv : v.length < 2 ^ 62) (ho : inInt64 o) :
    str.String_.GetBit ⟨v⟩ o = .ok (DsStr.getBit (some v) o) := by
  simp only [str.String_.GetBit, str_getBit_eq_model v o hv ho, bind, Except.bind, pure, Except.pure]

example : str.String_.getBit ⟨[0xA5]⟩ 2 = .ok 1 ∧ str.String_.getBit ⟨[0xA5]⟩ 1 = .ok 0 := by decide

theorem str_BitCount_is_normal_form (v : Bytes) (a b : Int) : str.String_.BitCount ⟨v⟩ a b = StrNF.BitCount v a b := by
  first | rfl | simp [str.String_.BitCount, StrNF.BitCount]

/-- `BitCount(start, end)` is the model's `bitCount` (the code's own index normalisation, then the number of set bits of the
    window) for all int64 arguments, and never panics; the counter cannot wrap -/
theorem str_BitCount_eq_model (v : Bytes) (a b : Int) (hv : v.length < 2 ^ 58) (ha : inInt64 a) (hb : inInt64 b) :
    str.String_.BitCount ⟨v⟩ a b = .ok (DsStr.bitCount (some v) a b) := by
  rw [str_BitCount_is_normal_form]; exact StrNF.BitCount_eq_model v a b hv ha hb

example : str.String_.BitCount ⟨[0xA5, 0x0F, 0xFF]⟩ 1 (-1) = .ok 12 := by decide +kernel

theorem str_BitCountByBit_is_normal_form (v : Bytes) (a b : Int) :
    str.String_.BitCountByBit ⟨v⟩ a b = StrNF.BitCountByBit v a b := by
  have hg : ∀ o, str.String_.getBit ⟨v⟩ o = StrNF.getBit v o := str_getBit_is_normal_form v
  first
  | rfl
  | (simp only [str.String_.BitCountByBit, StrNF.BitCountByBit, hg])
  | (simp [str.String_.BitCountByBit, StrNF.BitCountByBit, hg])

/-- `BitCountByBit(start, end)` is the model's `bitCountByBit` for ALL integer arguments (they are clamped to 0 … 8·len) and never panics -/
theorem str_BitCountByBit_eq_model (v : Bytes) (a b : Int) (hv : v.length < 2 ^ 58) :
    str.String_.BitCountByBit ⟨v⟩ a b = .ok (DsStr.bitCountByBit (some v) a b) := by
  rw [str_BitCountByBit_is_normal_form]; exact StrNF.BitCountByBit_eq_model v a b hv

example : str.String_.BitCountByBit ⟨[0xA5, 0x0F]⟩ 2 12 = .ok 3 := by decide +kernel

theorem str_SetBit_is_normal_form (v : Bytes) (o : Int) (b : Bool) :
    str.String_.SetBit ⟨v⟩ o b = StrNF.SetBit str.String_.mk v o b := by
  first | rfl | simp [str.String_.SetBit, StrNF.SetBit]

/-- `SetBit(offset, value)` is the model's `setBit` (grow with zero bytes up to the addressed byte, set or clear bit
    7−(offset mod 8), return the old bit) for every int64 offset, and never panics -/
theorem str_SetBit_eq_model (v : Bytes) (o : Int) (b : Bool) (hv : v.length < 2 ^ 58) (ho : inInt64 o) :
    str.String_.SetBit ⟨v⟩ o b = .ok (⟨(DsStr.setBit (some v) o b).1.getD []⟩, (DsStr.setBit (some v) o b).2) := by
  rw [str_SetBit_is_normal_form]; exact StrNF.SetBit_eq_model str.String_.mk v o b hv ho

example : str.String_.SetBit ⟨[0xA5]⟩ 9 true = .ok (⟨[0xA5, 0x40]⟩, 0) := by decide +kernel

theorem str_SetRange_is_normal_form (v : Bytes) (o : Int) (d : Bytes) :
    str.String_.SetRange ⟨v⟩ o d = StrNF.SetRange str.String_.mk v o d := by
  first | rfl | simp [str.String_.SetRange, StrNF.SetRange]

/-- `SetRange(offset, data)` against the model's `setRange`: the same value and length wherever the model yields one; where the
    model says `none`, either the growth exceeds 1 GiB (the model does not follow the allocator there) or the translated
    function panics with slice bounds out of range — which happens only after an int64 overflow of offset+len(data) -/
theorem str_SetRange_eq_model (v : Bytes) (o : Int) (d : Bytes) (hv : v.length < 2 ^ 58) (hd : d.length < 2 ^ 58) (ho : inInt64 o) :
    match DsStr.setRange (some v) o d with
    | some (s', n) => str.String_.SetRange ⟨v⟩ o d = .ok (⟨s'.getD []⟩, n)
    | none => wrap64 (o + d.length) - v.length > 1073741824 ∨ str.String_.SetRange ⟨v⟩ o d = .error .slice := by
  rw [str_SetRange_is_normal_form]; exact StrNF.SetRange_eq_model str.String_.mk v o d hv hd ho

example : str.String_.SetRange ⟨[1, 2]⟩ 3 [9] = .ok (⟨[1, 2, 0, 9]⟩, 4) := by decide +kernel
example : str.String_.SetRange ⟨[1, 2]⟩ 9223372036854775807 [9] = .error .slice := by decide +kernel

theorem str_Append_eq_model (v d : Bytes) (h : ¬ (v = [] ∧ d = [])) :
    str.String_.Append ⟨v⟩ d = .ok (⟨v ++ d⟩, (DsStr.append (some v) d).2) := by
  simp [str.String_.Append, DsStr.append, DsStr.len, DsStr.bytes, len_eq, pure, Except.pure]

theorem str_Set_Get (v w : Bytes) : (str.String_.Set_ ⟨v⟩ w >>= fun s => str.String_.Get s) = .ok w := rfl

theorem str_GetSet (v w : Bytes) : str.String_.GetSet ⟨v⟩ w = .ok (⟨w⟩, v) := rfl

end NodisVerif.TranslatedTie
