-- Obligations about internal/strings/strings.go.  ToUpper = Model/Resp.lean `upper` for every input (UTF-8 `range` included).  Fnv32: the loop is a left fold of the FNV-1 step and never
-- panics (no model counterpart: direct property).  ToUpper: the freshly translated function IS the snapshot one,
-- for which Proofs/SnapStrings.lean shows: on ASCII input it is the bytewise map a–z ↦ A–Z (hence length-preserving,
-- idempotent, touches only a–z).  On non-ASCII input ToUpper is not a case mapping (examples below; the model
-- Model/Resp.lean `upper` has the same behaviour and is tied by execution in C15/C16).
-- functions: internal/strings Fnv32, internal/strings ToUpper, internal/strings String2Bytes
-- properties: C15 C16
-- import: NodisVerif.Proofs.SnapStrings
namespace NodisVerif.TranslatedTie
open NodisVerif NodisVerif.Translated NodisVerif.GoLib NodisVerif.SnapStrings

/-- one round of FNV-1 (32 bit): multiply by the prime with wrap-around, xor the byte in -/
def fnvStep (h : Int) (c : UInt8) : Int := bxor .u32 (wrap .u32 (h * 16777619)) (c.toNat : Int)

theorem strings_Fnv32_eq_fold (key : Bytes) : strings.Fnv32 key = .ok (key.foldl fnvStep 2166136261) := by
  first
  | -- the indexed loop `for i := 0; i < len(key); i++ { … key[i] … }`
    (have h := forIn_irange_idx_fold (fun (s : Int) c => bxor .u32 (wrap .u32 (s * 16777619)) c) key [] 2166136261
     simp only [List.length_nil, List.nil_append, Int.natCast_zero] at h
     unfold strings.Fnv32
     simp only [bind, Except.bind] at h ⊢
     rw [h]; rfl)
  | -- the same loop written `for _, c := range []byte(key)`
    (have h := forIn_enum_fold (fun (s : Int) c => bxor .u32 (wrap .u32 (s * 16777619)) c) key 2166136261
     unfold strings.Fnv32
     simp only [bind, Except.bind] at h ⊢
     rw [h]; rfl)

theorem strings_Fnv32_append (a b : Bytes) :
    strings.Fnv32 (a ++ b) = .ok (b.foldl fnvStep (a.foldl fnvStep 2166136261)) := by
  rw [strings_Fnv32_eq_fold, List.foldl_append]

example : strings.Fnv32 [] = .ok 2166136261 := by decide
example : strings.Fnv32 [97] = .ok 84696446 := by decide   -- FNV-1 of "a" = 0x050c5d7e

theorem strings_ToUpper_is_snapshot : strings.ToUpper = Snap.strings.ToUpper := by
  first
  | rfl
  | (funext v; simp [strings.ToUpper, Snap.strings.ToUpper]; done)
  | -- same loop with another (equivalent) body: compare the bodies pointwise
    (funext v
     have hf : ∀ (f g : Int × Int → Bytes → M (ForInStep Bytes)), f = g →
         (makeBytes (len v) >>= fun b => (forIn (runes v) b f >>= fun s => pure s)) =
         (makeBytes (len v) >>= fun b => (forIn (runes v) b g >>= fun s => pure s)) := by
       intro f g h; rw [h]
     exact hf _ _ (by funext x s; split <;> split <;> simp_all <;> omega))

theorem strings_ToUpper_ascii (v : Bytes) (h : isAscii v) : strings.ToUpper v = .ok (v.map upByte) := by
  rw [strings_ToUpper_is_snapshot]; exact ToUpper_ascii v h

/-- **for every input** the freshly translated ToUpper is the model's `Resp.upper` (Model/Resp.lean, the function the
    RESP reader model uses for command and option names in C15/C16) and does not panic -/
theorem strings_ToUpper_eq_model (v : Bytes) : strings.ToUpper v = .ok (Resp.upper v) := by
  rw [strings_ToUpper_is_snapshot]; exact ToUpper_eq_model v

/-- length-preserving, idempotent, and the identity outside a–z, on ASCII input -/
theorem strings_ToUpper_props (v : Bytes) (h : isAscii v) :
    ∃ u, strings.ToUpper v = .ok u ∧ u.length = v.length ∧ strings.ToUpper u = .ok u ∧
      (∀ i (hi : i < v.length) (hu : i < u.length), ¬ (97 ≤ v[i] ∧ v[i] ≤ 122) → u[i] = v[i]) := by
  refine ⟨v.map upByte, strings_ToUpper_ascii v h, by simp, ?_, ?_⟩
  · have hu : isAscii (v.map upByte) := by
      intro c hc
      obtain ⟨d, hd, rfl⟩ := List.mem_map.mp hc
      exact upByte_ascii d (h d hd)
    rw [strings_ToUpper_ascii _ hu, List.map_map]
    congr 1
    apply List.map_congr_left
    intro a _
    exact upByte_idem a
  · intro i hi hu hn
    simp [upByte_only_lower _ hn]

example : strings.ToUpper [103, 101, 116, 49] = .ok [71, 69, 84, 49] := by decide   -- "get1" ↦ "GET1"
/-- not a case mapping beyond ASCII, and not idempotent there: "é" (C3 A9) ↦ E9 00 ↦ FD 00 -/
example : strings.ToUpper [0xC3, 0xA9] = .ok [0xE9, 0] ∧ strings.ToUpper [0xE9, 0] = .ok [0xFD, 0] := by decide

theorem strings_String2Bytes_id (s : Bytes) : strings.String2Bytes s = .ok s := rfl

end NodisVerif.TranslatedTie
