-- Obligations about the state-bit arithmetic of metadata.go (isOk, reset): equal to the model's reading of the
-- state byte (Model/Store.lean: `isOk m := m.state % 2 = 1`, bit 1 = KeyStateNormal).
-- functions: . metadata.isOk, . metadata.reset
-- properties: C12
-- import: NodisVerif.Proofs.GoLibLemmas
namespace NodisVerif.TranslatedTie
open NodisVerif NodisVerif.Translated NodisVerif.GoLib

theorem band_u8_one (x : Int) (h : 0 ≤ x ∧ x < 256) : band .u8 x 1 = x % 2 := by
  have h1 : toU .u8 x = x.toNat := by simp [toU, IT.u8]; omega
  have h2 : toU .u8 1 = 1 := by simp [toU, IT.u8]
  rw [band, h1, h2, Nat.and_one_is_mod, wrap_u8]
  omega

/-- `isOk` reads bit 1 of the state byte, as the model does (`Store.isOk`: `state % 2 = 1`) -/
theorem meta_isOk_eq_model (m : nodis.metadata) (h : 0 ≤ m.state ∧ m.state < 256) :
    nodis.metadata.isOk m = .ok (decide (m.state.toNat % 2 = 1)) := by
  simp only [nodis.metadata.isOk, nodis.KeyStateNormal, band_u8_one m.state h, pure, Except.pure]
  rcases (by omega : m.state % 2 = 0 ∨ m.state % 2 = 1) with h0 | h1
  · have : ¬ (m.state.toNat % 2 = 1) := by omega
    simp [h0, this]
  · have : m.state.toNat % 2 = 1 := by omega
    simp [h1, this]

example : nodis.metadata.isOk ⟨0, 3, false⟩ = .ok true := by decide

/-- `reset` sets the state to exactly KeyStateNormal (clearing "modified") and decrements the access count with int64 wrap-around -/
theorem meta_reset_eq (m : nodis.metadata) :
    nodis.metadata.reset m = .ok { m with state := 1, count := wrap64 (m.count - 1) } := by
  simp [nodis.metadata.reset, nodis.KeyStateNormal, wrap_i64, pure, Except.pure]

theorem meta_reset_isOk (m : nodis.metadata) : (nodis.metadata.reset m >>= nodis.metadata.isOk) = .ok true := by
  rw [meta_reset_eq]; simp only [bind, Except.bind]; rw [meta_isOk_eq_model _ (by simp)]; rfl

end NodisVerif.TranslatedTie
