-- Obligations about the bit functions of ds/str/str.go that have no general theorem yet (SetBit, BitCountByBit; getBit and
-- BitCount have general theorems in str.lean): PARTIAL —
-- equality with the model (Model/DsStr.lean) on an exhaustive small domain, evaluated by the kernel on every run
-- for the freshly translated functions (values [], [A5], [A5 0F FF]; offsets -2..25; ranges -4..4).
-- Missing for the full statements: loop invariants for the nested counting loops (BitCount) and the relation between
-- UInt8 shifts (model) and Int shifts (translation) for symbolic offsets.
-- functions: ds/str String.SetBit
-- properties: C01
-- import: NodisVerif.Model.DsStr
-- import: NodisVerif.Proofs.GoLibLemmas
namespace NodisVerif.TranslatedTie
open NodisVerif NodisVerif.Translated NodisVerif.GoLib

def smallVals : List Bytes := [[], [0xA5], [0xA5, 0x0F, 0xFF]]
def offsets : List Int := (List.range 28).map fun (k : Nat) => (k : Int) - 2
def bounds : List Int := (List.range 9).map fun (k : Nat) => (k : Int) - 4

theorem str_SetBit_eq_model_partial :
    smallVals.all (fun v => offsets.all fun o => [true, false].all fun b =>
      (str.String_.SetBit ⟨v⟩ o b).map (fun r => (r.1.V, r.2)) ==
        .ok (let m := DsStr.setBit (some v) o b; (m.1.getD [], m.2))) = true := by
  decide +kernel

end NodisVerif.TranslatedTie
