-- Obligations about the translated byte-layout functions: ds.Key.Encode / ds.DecodeKey (ds/ds.go),
-- zset Item.encode / decodeItem (ds/zset/skiplist.go), storage Entry.encode / Entry.from (storage/entry.go):
-- each equals the codec of the hand-written model (Model/Codec.lean) and does not panic on the stated domain.
-- functions: ds StringToDataType, ds/hash decodeKeyValuePair, ds Key.Encode, ds DecodeKey, ds NewKey, ds/zset Item.encode, ds/zset decodeItem, storage Entry.encode, storage Entry.from
-- properties: C14 C11
-- import: NodisVerif.Model.Codec
-- import: NodisVerif.Proofs.VarintLemmas
-- import: NodisVerif.Proofs.SnapCodec
namespace NodisVerif.TranslatedTie
open NodisVerif NodisVerif.Translated NodisVerif.GoLib

/-- `Key.Encode` writes exactly the model's key encoding: varint(expiration) ++ name -/
theorem ds_Key_Encode_eq_model (name : Bytes) (exp : Int) (he : inInt64 exp) (hn : name.length < 2 ^ 62) :
    ds.Key.Encode ⟨name, exp⟩ = .ok (Codec.encodeKey name exp) := by
  have hl := Proofs.VarintLemmas.putVarint_length_le exp he
  have h10 : wrap .i64 (binary_MaxVarintLen64 + len name) = ((10 + name.length : Nat) : Int) := by
    rw [wrap_i64_id] <;> simp [binary_MaxVarintLen64, len_eq] <;> omega
  have hpv : binary_PutVarint (List.replicate (10 + name.length) 0) exp =
      .ok (Varint.putVarint exp ++ List.replicate (10 + name.length - (Varint.putVarint exp).length) 0, ((Varint.putVarint exp).length : Int)) := by
    have : (Varint.putVarint exp).length ≤ 10 + name.length := by omega
    simp [binary_PutVarint, this, pure, Except.pure]
  have hw : wrap .i64 (((Varint.putVarint exp).length : Int) + len name) = ((Varint.putVarint exp ++ name).length : Int) := by
    rw [wrap_i64_id] <;> simp [len_eq] <;> omega
  simp only [ds.Key.Encode, h10, makeBytes_ok (Int.natCast_nonneg _), Int.toNat_natCast, bind, Except.bind, hpv]
  rw [copyAt_prefix _ _ _ (by simp; omega)]
  simp only [hw, pure, Except.pure]
  rw [slice_prefix _ _ _ rfl]
  rfl

example : ds.Key.Encode ⟨[107], 300⟩ = .ok (Codec.encodeKey [107] 300) := ds_Key_Encode_eq_model _ _ (by decide) (by decide)

/-- `DecodeKey` is the model's `decodeKey`: it fails exactly when the varint is missing or overlong, and never panics -/
theorem ds_DecodeKey_eq_model (b : Bytes) :
    ds.DecodeKey b = .ok (match Codec.decodeKey b with
      | none => (none, ds.ErrCorruptedData)
      | some (nm, x) => (some ⟨nm, x⟩, none)) := by
  have hle := varint_snd_le b
  rcases hv : Varint.varint b with ⟨x, n⟩
  rw [hv] at hle
  simp only [ds.DecodeKey, binary_Varint, Codec.decodeKey, hv]
  simp only at hle ⊢
  by_cases hn : n ≤ 0
  · simp [hn, pure, Except.pure]
  · simp only [hn, decide_false, if_false, bind, Except.bind, slice_from b n (by omega), Bool.false_eq_true]
    rfl

example : ds.DecodeKey [216, 4, 107] = .ok (some ⟨[107], 300⟩, none) := by decide
example : ds.DecodeKey [] = .ok (none, some "corrupted data") := by decide

/-- decode ∘ encode on keys, through the translated functions -/
theorem ds_DecodeKey_Encode (name : Bytes) (exp : Int) (he : inInt64 exp) (hn : name.length < 2 ^ 62) :
    (ds.Key.Encode ⟨name, exp⟩ >>= ds.DecodeKey) = .ok (some ⟨name, exp⟩, none) := by
  rw [ds_Key_Encode_eq_model name exp he hn]
  simp only [bind, Except.bind, ds_DecodeKey_eq_model, Codec.decodeKey, Codec.encodeKey]
  rw [Proofs.VarintLemmas.varint_putVarint exp he name]
  have := Proofs.VarintLemmas.putVarint_length_pos exp
  have hne : Varint.putVarint exp ≠ [] := by intro h; simp [h] at this
  simp [hne]

/-- `Item.encode`: 8 little-endian bytes of the score's bit pattern, then the member -/
theorem zset_Item_encode_eq_model (score : Int) (member : Bytes) (hm : member.length < 2 ^ 62) :
    zset.Item.encode ⟨score, member⟩ = .ok (GoLib.u64le score ++ member) := by
  have h8 : wrap .i64 (8 + len member) = ((8 + member.length : Nat) : Int) := by
    rw [wrap_i64_id] <;> simp [len_eq] <;> omega
  have hput : binary_LittleEndian_PutUint64 (List.replicate (8 + member.length) 0) (id score) =
      .ok (u64le score ++ List.replicate member.length 0) := by
    simp [binary_LittleEndian_PutUint64, pure, Except.pure]
  have hl : ((u64le score).length : Int) = 8 := by simp [u64le]
  simp only [zset.Item.encode, h8, makeBytes_ok (Int.natCast_nonneg _), Int.toNat_natCast, bind, Except.bind, hput]
  rw [← hl, copyAt_prefix _ _ _ (by simp)]
  simp [pure, Except.pure]

/-- the model's u64le on the UInt64 of the same bits -/
theorem u64le_eq_model (x : UInt64) : GoLib.u64le (x.toNat : Int) = Codec.u64le x := by
  simp [GoLib.u64le, Codec.u64le]

/-- `decodeItem`: the score is the little-endian word of the first 8 bytes (the model's `leU64`), the member the rest;
    it panics (index out of range) on fewer than 8 bytes, exactly like the Go code -/
theorem zset_decodeItem_eq (b : Bytes) (h : 8 ≤ b.length) :
    ∃ sc : Int, zset.decodeItem b = .ok (some ⟨sc, b.drop 8⟩) ∧ UInt64.ofNat sc.toNat = Codec.leU64 b := by
  have hs := slice_from b 8 (by omega)
  refine ⟨(((b.take 8).zipIdx.foldl (fun acc (x, i) => acc + x.toNat <<< (8 * i)) 0 : Nat) : Int), ?_, ?_⟩
  · simp only [zset.decodeItem, binary_LittleEndian_Uint64, h, if_true, bind, Except.bind, pure, Except.pure, hs, id]
    rfl
  · simp [Codec.leU64]

theorem zset_decodeItem_short (b : Bytes) (h : b.length < 8) : zset.decodeItem b = .error .index := by
  have : ¬ 8 ≤ b.length := by omega
  simp [zset.decodeItem, binary_LittleEndian_Uint64, this, bind, Except.bind, throw, throwThe, MonadExceptOf.throw]

example : zset.decodeItem [1, 0, 0, 0, 0, 0, 0, 0, 97] = .ok (some ⟨1, [97]⟩) := by decide

/-- `Entry.encode`: the type byte, then the payload -/
theorem storage_Entry_encode_eq (t : Int) (val : Bytes) (hv : val.length < 2 ^ 62) :
    storage.Entry.encode ⟨t, val⟩ = .ok (byteOf t :: val) := by
  have h1 : wrap .i64 (1 + len val) = ((1 + val.length : Nat) : Int) := by
    rw [wrap_i64_id] <;> simp [len_eq] <;> omega
  have hset : setIdx (List.replicate (1 + val.length) 0) 0 t = .ok ([byteOf t] ++ List.replicate val.length 0) := by
    simp [setIdx, pure, Except.pure, Nat.add_comm 1, List.replicate_succ]
  simp only [storage.Entry.encode, h1, makeBytes_ok (Int.natCast_nonneg _), Int.toNat_natCast, bind, Except.bind, hset]
  have := copyAt_prefix [byteOf t] (List.replicate val.length 0) val (by simp)
  simp only [List.length_singleton, Int.natCast_one] at this
  simp only [List.singleton_append, List.cons_append, List.nil_append] at this
  simp [this, pure, Except.pure]

example : storage.Entry.encode ⟨1, [97, 98]⟩ = .ok [1, 97, 98] := by decide

/-- `Entry.from`: splits the type byte off; an empty input is the error value, not a panic; the value is a copy -/
theorem storage_Entry_from_eq (e : storage.Entry) (b : Bytes) :
    storage.Entry.from_ e b = .ok (match b with
      | [] => (e, storage.ErrCorruptedData)
      | t :: rest => (⟨(t.toNat : Int), rest⟩, none)) := by
  cases b with
  | nil => simp [storage.Entry.from_, len_eq, pure, Except.pure]
  | cons t rest =>
    have hs := slice_from (t :: rest) 1 (by simp; omega)
    have hl : ¬ (len (t :: rest) < 1) := by simp [len_eq]; omega
    simp only [storage.Entry.from_, hl, decide_false, Bool.false_eq_true, if_false, bind, Except.bind, hs, idx]
    simp [pure, Except.pure, bytesOfInts]

/-- from ∘ encode -/
theorem storage_Entry_from_encode (t : Int) (val : Bytes) (e0 : storage.Entry) (ht : 0 ≤ t ∧ t < 256) (hv : val.length < 2 ^ 62) :
    (storage.Entry.encode ⟨t, val⟩ >>= storage.Entry.from_ e0) = .ok (⟨t, val⟩, none) := by
  rw [storage_Entry_encode_eq t val hv]
  simp only [bind, Except.bind, storage_Entry_from_eq]
  have : ((byteOf t).toNat : Int) = t := by
    simp only [byteOf, UInt8.toNat_ofNat']; omega
  simp [this]

/-- `hash.decodeKeyValuePair`: a varint length l, then l bytes of key, the rest is the value; it panics (slice bounds) exactly
    when the varint is malformed (n < 0), or l is negative or exceeds what is left -/
theorem hash_decodeKeyValuePair_eq (b : Bytes) :
    hash.decodeKeyValuePair b =
      (let l := (Varint.varint b).1
       let n := (Varint.varint b).2
       if 0 ≤ n ∧ 0 ≤ l ∧ l ≤ (b.length : Int) - n then
         .ok (some ⟨(b.drop n.toNat).take l.toNat, (b.drop n.toNat).drop l.toNat⟩)
       else .error .slice) := by
  have hle := varint_snd_le b
  rcases hv : Varint.varint b with ⟨l, n⟩
  rw [hv] at hle
  simp only at hle
  simp only [hash.decodeKeyValuePair, binary_Varint, hv]
  by_cases hn : 0 ≤ n
  · rw [slice_from b n ⟨hn, hle⟩]
    simp only [bind, Except.bind]
    have hlen : ((b.drop n.toNat).length : Int) = (b.length : Int) - n := by
      simp only [List.length_drop]; omega
    by_cases hl : 0 ≤ l ∧ l ≤ (b.length : Int) - n
    · have c : 0 ≤ n ∧ 0 ≤ l ∧ l ≤ (b.length : Int) - n := ⟨hn, hl⟩
      have h1 : slice (b.drop n.toNat) 0 l = .ok ((b.drop n.toNat).take l.toNat) := by
        have : (0 : Int) ≤ 0 ∧ (0 : Int) ≤ l ∧ l ≤ ((b.drop n.toNat).length : Int) := by omega
        simp only [slice, this, and_self, if_true, pure, Except.pure]
        simp
      rw [h1, slice_from _ l (by omega)]
      simp [c, pure, Except.pure]
    · have c : ¬ (0 ≤ n ∧ 0 ≤ l ∧ l ≤ (b.length : Int) - n) := fun h => hl ⟨h.2.1, h.2.2⟩
      have h1 : slice (b.drop n.toNat) 0 l = .error .slice := by
        have : ¬ ((0 : Int) ≤ 0 ∧ (0 : Int) ≤ l ∧ l ≤ ((b.drop n.toNat).length : Int)) := by omega
        simp only [slice, this, if_false]
        rfl
      rw [h1]
      simp [c]
  · have c : ¬ (0 ≤ n ∧ 0 ≤ l ∧ l ≤ (b.length : Int) - n) := fun h => hn h.1
    have h1 : slice b n (len b) = .error .slice := by
      have : ¬ ((0 : Int) ≤ n ∧ n ≤ len b ∧ len b ≤ (b.length : Int)) := fun h => hn h.1
      simp [slice, this, throw, throwThe, MonadExceptOf.throw]
    rw [h1]
    simp [c, bind, Except.bind]

example : hash.decodeKeyValuePair [4, 107, 49, 118] = .ok (some ⟨[107, 49], [118]⟩) := by decide
example : hash.decodeKeyValuePair [40, 107] = .error .slice := by decide

/-- `StringToDataType` is total and yields a type tag 0..5: exactly the five upper-case names map to their tags, everything else to None -/
theorem ds_StringToDataType_range (s : Bytes) : ∃ t, ds.StringToDataType s = .ok t ∧ 0 ≤ t ∧ t ≤ 5 := by
  unfold ds.StringToDataType
  simp only []
  repeat' split
  all_goals exact ⟨_, rfl, by decide, by decide⟩

example : ds.StringToDataType [90, 83, 69, 84] = .ok 4 ∧ ds.StringToDataType [122, 115, 101, 116] = .ok 0 := by decide

end NodisVerif.TranslatedTie
