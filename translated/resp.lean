-- Obligations about the buffer arithmetic of the RESP reader / writer (redis/resp.go) that fits the subset
-- (the reader proper — I/O, the request loop — is outside it and tied by execution in C15/C16).
-- functions: redis Reader.indexByte, redis Reader.firstByte, redis Reader.malloc, redis Reader.grow, redis Writer.grow, redis Writer.writeByte
-- properties: C15 C16
-- import: NodisVerif.Proofs.SnapCodec
namespace NodisVerif.TranslatedTie
open NodisVerif NodisVerif.Translated NodisVerif.GoLib

/-- `indexByte(i)`, i ≥ 0: the i-th byte of the current token; out of the buffer = panic, never a default -/
theorem redis_indexByte_nonneg (r : redis.Reader) (i : Int) (hi : 0 ≤ i) (hr : 0 ≤ r.r) (hb : r.r + i < 2 ^ 62) :
    redis.Reader.indexByte r i = idx r.buf (r.r + i) := by
  have : wrap .i64 (r.r + i) = r.r + i := wrap_i64_id (by omega)
  simp [redis.Reader.indexByte, hi, this, bind, Except.bind, pure, Except.pure]

/-- `indexByte(i)`, i < 0: counted from the end of the current token -/
theorem redis_indexByte_neg (r : redis.Reader) (i : Int) (hi : i < 0) (hr : 0 ≤ r.r ∧ 0 ≤ r.l) (hb : r.r + r.l < 2 ^ 62) (hi2 : -(2 ^ 62) < i) :
    redis.Reader.indexByte r i = idx r.buf (r.r + r.l + i) := by
  have h1 : wrap .i64 (r.r + r.l) = r.r + r.l := wrap_i64_id (by omega)
  have h2 : wrap .i64 (r.r + r.l + i) = r.r + r.l + i := wrap_i64_id (by omega)
  have : ¬ (i ≥ 0) := by omega
  simp [redis.Reader.indexByte, this, h1, h2, bind, Except.bind, pure, Except.pure]

theorem redis_firstByte_eq (r : redis.Reader) : redis.Reader.firstByte r = redis.Reader.indexByte r 0 := by
  simp [redis.Reader.firstByte, bind, Except.bind, pure, Except.pure]

/-- `malloc` moves the read position past the current token -/
theorem redis_malloc_eq (r : redis.Reader) (hr : 0 ≤ r.r ∧ 0 ≤ r.l) (hb : r.r + r.l < 2 ^ 62) :
    redis.Reader.malloc r = .ok { r with r := r.r + r.l, l := 0 } := by
  have h1 : wrap .i64 (r.r + r.l) = r.r + r.l := wrap_i64_id (by omega)
  simp [redis.Reader.malloc, h1, pure, Except.pure]

/-- `Writer.grow` keeps the contents and adds n zero bytes -/
theorem redis_Writer_grow_eq (w : redis.Writer) (n : Int) (hn : 0 ≤ n ∧ n < 2 ^ 62) (hl : w.buf.length < 2 ^ 62) :
    redis.Writer.grow w n = .ok { w with buf := w.buf ++ List.replicate n.toNat 0 } := by
  have h1 : wrap .i64 (len w.buf + n) = ((w.buf.length + n.toNat : Nat) : Int) := by
    rw [wrap_i64_id] <;> simp [len_eq] <;> omega
  have hc := copyAt_prefix [] (List.replicate (w.buf.length + n.toNat) 0) w.buf (by simp)
  simp only [List.nil_append, List.length_nil, Int.natCast_zero] at hc
  simp only [redis.Writer.grow, h1, makeBytes_ok (Int.natCast_nonneg _), Int.toNat_natCast, bind, Except.bind, hc, pure, Except.pure]
  simp [List.drop_replicate]

/-- `writeByte` with room left: the byte is stored at the write position, which advances by one -/
theorem redis_Writer_writeByte_room (w : redis.Writer) (b : Int) (hw : 0 ≤ w.w ∧ w.w < (w.buf.length : Int)) (hl : w.buf.length < 2 ^ 62) :
    redis.Writer.writeByte w b = .ok { w with buf := w.buf.set w.w.toNat (byteOf b), w := w.w + 1 } := by
  have h1 : ¬ (w.w ≥ len w.buf) := by simp [len_eq]; omega
  have h2 : wrap .i64 (w.w + 1) = w.w + 1 := wrap_i64_id (by omega)
  have h3 : setIdx w.buf w.w b = .ok (w.buf.set w.w.toNat (byteOf b)) := by
    simp only [setIdx, hw, and_self, if_true, pure, Except.pure]
  simp [redis.Writer.writeByte, h1, h2, h3, bind, Except.bind, pure, Except.pure]

example : redis.Writer.writeByte ⟨[0, 0], 1, false⟩ 65 = .ok ⟨[0, 65], 2, false⟩ := by decide

end NodisVerif.TranslatedTie
