-- Obligations about the buffer arithmetic of the RESP reader / writer (redis/resp.go) that fits the subset
-- (the reader proper — I/O, the request loop — is outside it and tied by execution in C15/C16).
-- functions: redis Reader.indexByte, redis Reader.firstByte, redis Reader.malloc, redis Reader.grow
-- properties: C15 C16
-- import: NodisVerif.Proofs.SnapCodec
namespace NodisVerif.TranslatedTie
open NodisVerif NodisVerif.Translated NodisVerif.GoLib

/-- `indexByte(i)`, i ≥ 0: the i-th byte of the current token; out of the buffer = panic, never a default -/
theorem redis_indexByte_nonneg (r : redis.Reader) (i : Int) (hi : 0 ≤ i) (hr : 0 ≤ r.r) (hb : r.r + i < 2 ^ 62) :
    redis.Reader.indexByte r i = idx r.buf (r.r + i) := by
  have : wrap .i64 (r.r + i) = r.r + i := wrap_i64_id (by omega)
  simp [redis.Reader.indexByte, hi, this, bind, Except.bind, pure, Except.pure]

/-- `indexByte(i)`, i < 0: counted from the end of the current token -/
theorem redis_indexByte_neg (r : redis.Reader) (i : Int) (hi : i < 0) (hr : 0 ≤ r.r ∧ 0 ≤ r.l) (hb : r.r + r.l < 2 ^ 62) (hi2 : -(2 ^ 62) < i) :
    redis.Reader.indexByte r i = idx r.buf (r.r + r.l + i) := by
  have h1 : wrap .i64 (r.r + r.l) = r.r + r.l := wrap_i64_id (by omega)
  have h2 : wrap .i64 (r.r + r.l + i) = r.r + r.l + i := wrap_i64_id (by omega)
  have : ¬ (i ≥ 0) := by omega
  simp [redis.Reader.indexByte, this, h1, h2, bind, Except.bind, pure, Except.pure]

theorem redis_firstByte_eq (r : redis.Reader) : redis.Reader.firstByte r = redis.Reader.indexByte r 0 := by
  simp [redis.Reader.firstByte, bind, Except.bind, pure, Except.pure]

/-- `malloc` moves the read position past the current token -/
theorem redis_malloc_eq (r : redis.Reader) (hr : 0 ≤ r.r ∧ 0 ≤ r.l) (hb : r.r + r.l < 2 ^ 62) :
    redis.Reader.malloc r = .ok { r with r := r.r + r.l, l := 0 } := by
  have h1 : wrap .i64 (r.r + r.l) = r.r + r.l := wrap_i64_id (by omega)
  simp [redis.Reader.malloc, h1, pure, Except.pure]

-- (The writer's `grow` / `writeByte` are deliberately NOT among the per-run obligations: how the reply buffer grows is not
-- behaviour - the behaviour-preserving change H1-1 rewrites exactly these two functions. The writer is tied by the whole-state
-- comparison of C16, which tolerates a drift of len(buf) and of the bytes beyond the write position.)

end NodisVerif.TranslatedTie
