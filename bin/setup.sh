#!/bin/bash
# One-time setup after a fresh restore, offline: build the Lean project (model driver, every property's
# theorems, the source-facts spec), the fact extractor, and warm the Go build cache. Nothing is fetched.
set -e
cd "$(dirname "$0")/.."
ROOT=$(pwd)
export GOFLAGS=-mod=mod GOPROXY=off GOSUMDB=off GOTOOLCHAIN=local
mkdir -p build work evidence replays
(cd lean && lake build NodisVerif driver NodisVerif.Spec.SourceFacts 2>&1 | tail -3)
# the property theorems (about 6 minutes from clean on 16 cores; every check re-runs `lake build` for its
# own module, which is then a no-op unless a source changed)
(cd lean && lake build $(for i in 01 02 03 04 05 06 07 08 09 10 11 12 13 14 15 16 17 18 19 20; do echo NodisVerif.Props.C$i; done) 2>&1 | tail -2)
# the cached normal-form lemmas the per-run translated obligations import (translated/*.lean headers)
(cd lean && lake build $(grep -h "^-- import:" ../translated/*.lean 2>/dev/null | sed 's/^-- import: *//' | tr ' ' '\n' | sort -u | tr '\n' ' ') NodisVerif.Model.GoLib 2>&1 | tail -1)
cp /repo/go.sum harness/go.sum
(cd harness && go build -tags verif -o "$ROOT/build/harness" . )
(cd harness && CGO_ENABLED=0 go build -tags verif,faketime -o "$ROOT/build/harness_ft" . ) || true
(cd extract && go build -o "$ROOT/build/extract" . )
echo setup-done
