#!/bin/bash
# One-time setup after a fresh restore, offline: build the Lean project (proofs + model driver)
# and warm the Go build cache. Nothing is fetched.
set -e
cd /verif
export GOFLAGS=-mod=mod GOPROXY=off GOSUMDB=off GOTOOLCHAIN=local
mkdir -p build work evidence replays
(cd lean && lake build NodisVerif driver 2>&1 | tail -3)
cp /repo/go.sum harness/go.sum
(cd harness && go build -tags verif -o /verif/build/harness . )
(cd harness && CGO_ENABLED=0 go build -tags verif,faketime -o /verif/build/harness_ft . ) || true
echo setup-done
