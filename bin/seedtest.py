#!/usr/bin/env python3
"""Development-time tool: apply a seeded change to /repo, run checks, undo.
usage: seedtest.py <seed-dir> <check-id> [<check-id> ...] [--tier quick|thorough]
Prints one line per check: CAUGHT (exit 1 + VIOLATION line) / MISSED (exit 0)."""
import subprocess, sys, os, json, time
ROOT = os.path.dirname(os.path.dirname(os.path.abspath(__file__)))
args = [a for a in sys.argv[1:] if not a.startswith("--")]
tier = "quick"
if "--tier" in sys.argv:
    tier = sys.argv[sys.argv.index("--tier") + 1]
    args.remove(tier)
seed, checks = os.path.abspath(args[0]), args[1:]
patch = os.path.join(seed, "patch.diff")
st = subprocess.run(["git", "-C", "/repo", "status", "--porcelain"], capture_output=True, text=True).stdout.strip()
assert st == "", "/repo working tree is not clean:\n" + st
r = subprocess.run(["git", "-C", "/repo", "apply", patch], capture_output=True, text=True)
if r.returncode != 0:
    print("PATCH DOES NOT APPLY:", r.stderr[:500]); sys.exit(2)
results = {}
try:
    for c in checks:
        t = time.time()
        p = subprocess.run(["python3", f"{ROOT}/bin/vcheck.py", c, tier], capture_output=True, text=True, cwd=ROOT, timeout=7200)
        viol = [l for l in p.stdout.splitlines() if l.startswith("VIOLATION")]
        verdict = "CAUGHT" if (p.returncode == 1 and viol) else ("MISSED" if p.returncode == 0 else f"ERROR rc={p.returncode}")
        replay = viol[0].split("replay=")[1].split()[0] if viol else ""
        kind = ""
        if replay and os.path.exists(replay):
            try:
                kind = json.load(open(replay)).get("kind", "")
            except Exception:
                pass
        results[c] = {"verdict": verdict, "line": viol[0] if viol else "", "kind": kind, "seconds": round(time.time() - t, 1)}
        print(c, tier, verdict, kind, viol[0] if viol else "", f"({time.time()-t:.0f}s)", flush=True)
finally:
    subprocess.run(["git", "-C", "/repo", "checkout", "--", "."], check=True)
    subprocess.run(["git", "-C", "/repo", "clean", "-fdq", "--", "."], check=False)
json.dump(results, open(os.path.join(seed, f"result_{tier}.json"), "w"), indent=1)
