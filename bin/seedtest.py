#!/usr/bin/env python3
"""Development-time tool: run checks against a seeded change.
usage: seedtest.py <seed-dir> <check-id> [<check-id> ...] [--tier quick|thorough] [--inplace]

Default: the patch is applied to a scratch git worktree of /repo's HEAD under /tmp (removed afterwards)
and the checks run with VERIF_REPO / VERIF_SCRATCH pointing there, so several seeded changes can be
tested at the same time and /repo, /verif/evidence and /verif/replays are never touched.
--inplace: apply to /repo itself, run the registered commands as they are, undo.
Prints one line per check: CAUGHT (exit 1 + VIOLATION line) / MISSED (exit 0)."""
import subprocess, sys, os, json, time, shutil, tempfile
ROOT = os.path.dirname(os.path.dirname(os.path.abspath(__file__)))
argv = sys.argv[1:]
inplace = "--inplace" in argv
argv = [a for a in argv if a != "--inplace"]
tier = "quick"
if "--tier" in argv:
    i = argv.index("--tier")
    tier = argv[i + 1]
    del argv[i:i + 2]
seed, checks = os.path.abspath(argv[0]), argv[1:]
patch = os.path.join(seed, "patch.diff")
env = dict(os.environ)
if inplace:
    repo = "/repo"
    st = subprocess.run(["git", "-C", "/repo", "status", "--porcelain"], capture_output=True, text=True).stdout.strip()
    assert st == "", "/repo working tree is not clean:\n" + st
    scratch = None
else:
    scratch = tempfile.mkdtemp(prefix="seedtest-", dir="/tmp")
    repo = scratch + "/repo"
    subprocess.run(["git", "-C", "/repo", "worktree", "add", "--detach", "-f", repo, "HEAD"], check=True, capture_output=True)
    env["VERIF_REPO"] = repo
    env["VERIF_SCRATCH"] = scratch + "/out"
r = subprocess.run(["git", "-C", repo, "apply", patch], capture_output=True, text=True)
results = {}
try:
    if r.returncode != 0:
        print("PATCH DOES NOT APPLY:", r.stderr[:500]); sys.exit(2)
    for c in checks:
        t = time.time()
        p = subprocess.run(["python3", f"{ROOT}/bin/vcheck.py", c, tier], capture_output=True, text=True, cwd=ROOT, timeout=7200, env=env)
        viol = [l for l in p.stdout.splitlines() if l.startswith("VIOLATION")]
        verdict = "CAUGHT" if (p.returncode == 1 and viol) else ("MISSED" if p.returncode == 0 else f"ERROR rc={p.returncode}")
        replay = viol[0].split("replay=")[1].split()[0] if viol else ""
        kind, summary = "", ""
        if replay and os.path.exists(replay):
            try:
                rj = json.load(open(replay))
                kind = rj.get("kind", "")
                summary = json.dumps({k: rj[k] for k in ("stream", "scenario", "explain", "broken") if k in rj})[:400]
            except Exception:
                pass
        if verdict.startswith("ERROR"):
            summary = (p.stdout + p.stderr)[-600:]
        results[c] = {"verdict": verdict, "line": viol[0] if viol else "", "kind": kind, "seconds": round(time.time() - t, 1), "summary": summary}
        print(os.path.basename(seed), c, tier, verdict, kind, viol[0] if viol else "", f"({time.time()-t:.0f}s)", flush=True)
finally:
    if inplace:
        subprocess.run(["git", "-C", "/repo", "checkout", "--", "."], check=True)
        subprocess.run(["git", "-C", "/repo", "clean", "-fdq", "--", "."], check=False)
    else:
        subprocess.run(["git", "-C", "/repo", "worktree", "remove", "--force", repo], check=False, capture_output=True)
        shutil.rmtree(scratch, ignore_errors=True)
        subprocess.run(["git", "-C", "/repo", "worktree", "prune"], check=False)
if results:
    json.dump(results, open(os.path.join(seed, f"result_{tier}.json"), "w"), indent=1)
