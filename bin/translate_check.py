#!/usr/bin/env python3
"""Translate the target Go functions of the repository anew and elaborate the committed theorems about them
(translated/*.lean).  usage: translate_check.py [group ...]    (default: all groups; VERIF_REPO selects the tree)
Exit 0 = every obligation holds; 1 = some obligation is broken (printed)."""
import os, sys, time
sys.path.insert(0, os.path.dirname(os.path.abspath(__file__)))
import vlib

def snapshot():
    """regenerate lean/NodisVerif/Translated/Snapshot.lean from the current tree (namespace NodisVerif.Snap)"""
    exe = f"{vlib.BUILD}/extract"
    os.makedirs(vlib.BUILD, exist_ok=True)
    rc, so, se = vlib.sh(["go", "build", "-o", exe, "."], cwd=f"{vlib.ROOT}/extract", env=vlib.GOENV)
    rc, gen, se = vlib.sh([exe, "-translate", vlib.REPO, f"{vlib.ROOT}/extract/go2lean.targets"])
    if rc != 0:
        print(se)
        return 1
    head = ("import NodisVerif.Model.GoLib\n/- SNAPSHOT of the translator's output (extract -translate) for the repository as it was when the theorems of\n"
            "   Proofs/Snap*.lean were written; regenerate with bin/translate_check.py --snapshot. The per-run obligations\n"
            "   (translated/*.lean) show that the freshly translated functions equal these, then reuse the theorems. -/\n")
    body = "\n".join(gen.splitlines()[1:]).replace("NodisVerif.Translated", "NodisVerif.Snap")
    open(f"{vlib.LEAN}/NodisVerif/Translated/Snapshot.lean", "w").write(head + body + "\n")
    return 0


def selftest():
    """translator self-test on extract/selftest: semantics of a few constructs by kernel evaluation, and loud rejections"""
    st = f"{vlib.ROOT}/extract/selftest"
    exe = f"{vlib.BUILD}/extract"
    os.makedirs(vlib.BUILD, exist_ok=True)
    vlib.sh(["go", "build", "-o", exe, "."], cwd=f"{vlib.ROOT}/extract", env=vlib.GOENV)
    rc, gen, se = vlib.sh([exe, "-translate", st, f"{st}/targets"])
    if rc != 0:
        print("selftest: targets do not translate:", se)
        return 1
    rc, sv, se = vlib.sh([exe, "-survey", st, f"{st}/targets", "p"])
    bad = 0
    for line in open(f"{st}/rejected"):
        key, why = [x.strip() for x in line.split(":", 1)]
        if not any(l.startswith("NO") and key in l and why in l for l in sv.splitlines()):
            print("selftest: not rejected as expected:", line.strip())
            bad = 1
    work = f"{vlib.WORK}/translated"
    os.makedirs(work, exist_ok=True)
    path = f"{work}/Selftest.lean"
    open(path, "w").write("import NodisVerif.Model.GoLib\n" + gen + open(f"{st}/expect.lean").read())
    rc, so, se = vlib.sh(["lake", "env", "lean", path], cwd=vlib.LEAN)
    if "error" in so + se:
        print(so + se)
        bad = 1
    print("selftest", "FAILED" if bad else "ok")
    return bad


def main():
    if sys.argv[1:] == ["--snapshot"]:
        return snapshot()
    if sys.argv[1:] == ["--selftest"]:
        return selftest()
    want = sys.argv[1:]
    groups = [g for g in vlib.translated_groups() if not want or g["name"] in want]
    work = f"{vlib.WORK}/translated"
    os.makedirs(work, exist_ok=True)
    mods = vlib.translated_imports(None)
    rc, out = vlib.sh(["lake", "build"] + mods, cwd=vlib.LEAN)[0:2]
    t0 = time.time()
    bad, info = vlib.run_translated(groups, work)
    print(f"groups={info.get('groups')} theorems_ok={len(info.get('theorems', []))} wall={time.time()-t0:.1f}s")
    for l in info.get("outside_subset", []):
        print("  " + l)
    for n, why in bad:
        print(f"BROKEN {n}: {why}")
    return 1 if bad else 0

if __name__ == "__main__":
    sys.exit(main())
