#!/usr/bin/env python3
"""Translate the target Go functions of the repository anew and elaborate the committed theorems about them
(translated/*.lean).  usage: translate_check.py [group ...]    (default: all groups; VERIF_REPO selects the tree)
Exit 0 = every obligation holds; 1 = some obligation is broken (printed)."""
import os, sys, time
sys.path.insert(0, os.path.dirname(os.path.abspath(__file__)))
import vlib

def snapshot():
    """regenerate lean/NodisVerif/Translated/Snapshot.lean from the current tree (namespace NodisVerif.Snap)"""
    exe = f"{vlib.BUILD}/extract"
    os.makedirs(vlib.BUILD, exist_ok=True)
    rc, so, se = vlib.sh(["go", "build", "-o", exe, "."], cwd=f"{vlib.ROOT}/extract", env=vlib.GOENV)
    rc, gen, se = vlib.sh([exe, "-translate", vlib.REPO, f"{vlib.ROOT}/extract/go2lean.targets"])
    if rc != 0:
        print(se)
        return 1
    head = ("import NodisVerif.Model.GoLib\n/- SNAPSHOT of the translator's output (extract -translate) for the repository as it was when the theorems of\n"
            "   Proofs/Snap*.lean were written; regenerate with bin/translate_check.py --snapshot. The per-run obligations\n"
            "   (translated/*.lean) show that the freshly translated functions equal these, then reuse the theorems. -/\n")
    body = "\n".join(gen.splitlines()[1:]).replace("NodisVerif.Translated", "NodisVerif.Snap")
    open(f"{vlib.LEAN}/NodisVerif/Translated/Snapshot.lean", "w").write(head + body + "\n")
    return 0


def main():
    if sys.argv[1:] == ["--snapshot"]:
        return snapshot()
    want = sys.argv[1:]
    groups = [g for g in vlib.translated_groups() if not want or g["name"] in want]
    work = f"{vlib.WORK}/translated"
    os.makedirs(work, exist_ok=True)
    mods = vlib.translated_imports(None)
    rc, out = vlib.sh(["lake", "build"] + mods, cwd=vlib.LEAN)[0:2]
    t0 = time.time()
    bad, info = vlib.run_translated(groups, work)
    print(f"groups={info.get('groups')} theorems_ok={len(info.get('theorems', []))} wall={time.time()-t0:.1f}s")
    for l in info.get("outside_subset", []):
        print("  " + l)
    for n, why in bad:
        print(f"BROKEN {n}: {why}")
    return 1 if bad else 0

if __name__ == "__main__":
    sys.exit(main())
