#!/usr/bin/env python3
"""Translate the target Go functions of the repository anew and elaborate the committed theorems about them
(translated/*.lean).  usage: translate_check.py [group ...]    (default: all groups; VERIF_REPO selects the tree)
Exit 0 = every obligation holds; 1 = some obligation is broken (printed)."""
import os, sys, time
sys.path.insert(0, os.path.dirname(os.path.abspath(__file__)))
import vlib

def main():
    want = sys.argv[1:]
    groups = [g for g in vlib.translated_groups() if not want or g["name"] in want]
    work = f"{vlib.WORK}/translated"
    os.makedirs(work, exist_ok=True)
    mods = vlib.translated_imports(None)
    rc, out = vlib.sh(["lake", "build"] + mods, cwd=vlib.LEAN)[0:2]
    t0 = time.time()
    bad, info = vlib.run_translated(groups, work)
    print(f"groups={info.get('groups')} theorems_ok={len(info.get('theorems', []))} wall={time.time()-t0:.1f}s")
    for l in info.get("outside_subset", []):
        print("  " + l)
    for n, why in bad:
        print(f"BROKEN {n}: {why}")
    return 1 if bad else 0

if __name__ == "__main__":
    sys.exit(main())
