#!/usr/bin/env python3
"""Development-time tool (not a check): which statements of /repo do the correspondence runs and scenarios of the
quick tiers actually execute?  The harness is built with `go build -cover -coverpkg=github.com/diiyw/nodis/...`,
every quick check runs with GOCOVERDIR set (in a scratch output directory, so evidence/ and replays/ are untouched),
the counters are merged and written per function to docs/coverage.md / docs/coverage.json.
Statements no run reaches are the part of the code the tie never sees: the list is the work list for generators.
usage: coverage.py [C01 C02 ...]   (default: all twenty)"""
import json, os, re, shutil, subprocess, sys, tempfile
ROOT = os.path.dirname(os.path.dirname(os.path.abspath(__file__)))
ids = sys.argv[1:] or [f"C{i:02d}" for i in range(1, 21)]
scratch = tempfile.mkdtemp(prefix="vcover-", dir="/tmp")
cov = scratch + "/cov"
os.makedirs(cov)
env = dict(os.environ, VERIF_COVER="1", GOCOVERDIR=cov, VERIF_SCRATCH=scratch + "/out",
           GOFLAGS="-mod=mod", GOPROXY="off", GOSUMDB="off", GOTOOLCHAIN="local")
res = {}
try:
    for c in ids:
        p = subprocess.run(["python3", f"{ROOT}/bin/vcheck.py", c, "quick"], cwd=ROOT, env=env, capture_output=True, text=True)
        res[c] = p.returncode
        print(c, "exit", p.returncode, flush=True)
    prof = scratch + "/profile.txt"
    subprocess.run(["go", "tool", "covdata", "textfmt", "-i=" + cov, "-o=" + prof], check=True, env=env)
    # go tool cover -func needs the module on disk: run it inside /repo
    out = subprocess.run(["go", "tool", "cover", "-func=" + prof], cwd=os.environ.get("VERIF_REPO", "/repo"), env=env, capture_output=True, text=True).stdout
    rows = []
    for l in out.splitlines():
        m = re.match(r"(\S+):(\d+):\s+(\S+)\s+([\d.]+)%", l)
        if m:
            rows.append({"file": m.group(1).replace("github.com/diiyw/nodis/", ""), "line": int(m.group(2)), "func": m.group(3), "pct": float(m.group(4))})
    total = [l for l in out.splitlines() if l.startswith("total:")]
    rows = [r for r in rows if "verif" not in r["file"] and not r["file"].startswith("pb/")]
    os.makedirs(f"{ROOT}/docs", exist_ok=True)
    json.dump({"checks": res, "total": total, "functions": rows}, open(f"{ROOT}/docs/coverage.json", "w"), indent=0)
    with open(f"{ROOT}/docs/coverage.md", "w") as f:
        f.write("# Statement coverage of /repo by the quick tiers (harness built with -cover)\n\n")
        f.write(f"checks run: {' '.join(ids)}; {total[0] if total else ''}\n\n")
        zero = [r for r in rows if r["pct"] == 0]
        part = [r for r in rows if 0 < r["pct"] < 100]
        f.write(f"functions: {len(rows)}; fully covered {len(rows)-len(zero)-len(part)}; partly {len(part)}; never reached {len(zero)}\n\n")
        f.write("## never reached\n\n" + "\n".join(f"- {r['file']}:{r['line']} {r['func']}" for r in zero) + "\n\n")
        f.write("## partly covered\n\n" + "\n".join(f"- {r['file']}:{r['line']} {r['func']} {r['pct']}%" for r in sorted(part, key=lambda r: r['pct'])) + "\n")
    shutil.copy(prof, f"{ROOT}/work/cover_profile.txt") if os.path.isdir(f"{ROOT}/work") else None
    print(total)
finally:
    shutil.rmtree(scratch, ignore_errors=True)
