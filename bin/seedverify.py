#!/usr/bin/env python3
"""Development-time tool: confirm a seeded change delivered by a sub-agent before it is kept.
usage: seedverify.py <dir with patch.diff, demo_test.go, meta.json>
In a scratch worktree of /repo's HEAD (removed afterwards):
  1. the demonstration passes on the clean tree,
  2. the patch applies and the tree builds,
  3. the demonstration fails with the patch,
  4. the existing test suite with the patch fails only the two tests that always failed.
Prints CONFIRMED or the step that failed; writes verify.json next to the patch."""
import json, os, re, shutil, subprocess, sys, tempfile
d = os.path.abspath(sys.argv[1])
meta = json.load(open(f"{d}/meta.json"))
env = dict(os.environ, GOFLAGS="-mod=mod", GOPROXY="off", GOSUMDB="off", GOTOOLCHAIN="local")
OLD_FAIL = {"TestReadInlineSpace", "TestReaderReset"}
scratch = tempfile.mkdtemp(prefix="seedverify-", dir="/tmp")
wt = scratch + "/repo"
subprocess.run(["git", "-C", "/repo", "worktree", "add", "--detach", "-f", wt, "HEAD"], check=True, capture_output=True)
res = {"steps": []}


def go(*a, timeout=900):
    try:
        p = subprocess.run(["go", *a], cwd=wt, env=env, capture_output=True, text=True, timeout=timeout)
        return p.returncode, p.stdout + p.stderr
    except subprocess.TimeoutExpired:
        return -9, "TIMEOUT"


def step(name, ok, detail=""):
    res["steps"].append({"step": name, "ok": ok, "detail": detail[-1500:]})
    print(("ok   " if ok else "FAIL ") + name + ("" if ok else "\n" + detail[-1500:]), flush=True)
    return ok


try:
    pkg = meta.get("demo_pkg_dir", ".").strip("/") or "."
    dst = f"{wt}/{pkg}/zz_seeded_demo_test.go"
    shutil.copy(f"{d}/demo_test.go", dst)
    rc, out = go("test", "-vet=off", "-count=1", "-run", "^TestSeededDemo$", f"./{pkg}", timeout=600)
    good = step("demo passes on the clean tree", rc == 0 and re.search(r"^ok\s", out, re.M) is not None, out)
    r = subprocess.run(["git", "-C", wt, "apply", f"{d}/patch.diff"], capture_output=True, text=True)
    good = step("patch applies", r.returncode == 0, r.stderr) and good
    rc, out = go("build", "./...")
    good = step("patched tree builds", rc == 0, out) and good
    rc, out = go("test", "-vet=off", "-count=1", "-run", "^TestSeededDemo$", f"./{pkg}", timeout=600)
    good = step("demo fails with the patch", rc != 0 and "[build failed]" not in out and "[setup failed]" not in out, out) and good
    os.remove(dst)
    rc, out = go("test", "-vet=off", "-count=1", "-timeout", "25m", "./...", timeout=1800)
    failed = set(re.findall(r"^--- FAIL: (\S+)", out, re.M))
    failed_pkgs = set(re.findall(r"^FAIL\s+(\S+)\s", out, re.M))
    good = step("existing suite with the patch: only the two old failures (both in package redis; TestReaderReset panics there at the baseline too)",
                failed <= OLD_FAIL and failed_pkgs <= {"github.com/diiyw/nodis/redis"} and "[build failed]" not in out,
                f"failed={sorted(failed)} packages={sorted(failed_pkgs)}\n" + out[-800:]) and good
    res["confirmed"] = bool(good)
    print("CONFIRMED" if good else "NOT CONFIRMED", d)
finally:
    subprocess.run(["git", "-C", "/repo", "worktree", "remove", "--force", wt], check=False, capture_output=True)
    shutil.rmtree(scratch, ignore_errors=True)
    subprocess.run(["git", "-C", "/repo", "worktree", "prune"], check=False)
json.dump(res, open(f"{d}/verify.json", "w"), indent=1)
sys.exit(0 if res.get("confirmed") else 1)
