#!/usr/bin/env python3
"""Run /repo's test suite with the verif guard OFF and compare with /root/.vp/BASELINE.json."""
import json, os, subprocess, sys
env = dict(os.environ, GOFLAGS="-mod=mod", GOPROXY="off", GOSUMDB="off", GOTOOLCHAIN="local")
p = subprocess.run(["go", "test", "-json", "-vet=off", "-count=1", "-timeout", "25m", "./..."],
                   cwd="/repo", env=env, capture_output=True, text=True)
res = {}
for line in p.stdout.splitlines():
    try:
        e = json.loads(line)
    except Exception:
        continue
    if e.get("Test") and e.get("Action") in ("pass", "fail", "skip"):
        res[e["Package"] + "::" + e["Test"]] = e["Action"]
base = json.load(open("/root/.vp/BASELINE.json"))
want = base.get("stable_pass", [])
missing = [t for t in want if res.get(t) != "pass"]
print(f"baseline stable_pass={len(want)} passing_now={sum(1 for t in want if res.get(t)=='pass')} "
      f"other_results={ {k:v for k,v in res.items() if k not in want} }")
if missing:
    print("NOT PASSING:", missing)
    sys.exit(1)
print("BASELINE-OK")
