"""C20 — the change feed is complete and ordered: replaying it reproduces the primary.

Proof: Props/C20.lean over Model/Feed.lean (`emission` = the records a watcher is handed for one API
call, `applyOp` = Nodis.applyPatch): applying the records of a call to a replica whose logical state
equals the primary's yields the primary's new logical state.
Tie, two ways: (1) the records the real watcher receives for every call are compared with the model's
`emission` (type, key, every field); (2) closed loop on the implementation alone: the collected
records go through Op.Encode / DecodeOp into ApplyPatch on a second instance and the logical dumps
of primary and replica are compared.  Key / field / member names are kept valid UTF-8 here: the wire
encoding (protobuf `string` fields) cannot carry other names - known finding.
(3) the wire encoding itself: Model/ProtoWire.lean (proto3 wire format + Op.Encode / DecodeOp, with the
round-trip / injectivity / totality theorems of Props/C20.lean) against the real Op.Encode / DecodeOp on
every operation type x edge values and on malformed inputs (checks/patchwire.py); the message table is
regenerated from patch/op.pb.go + patch/patch.go on every run (source fact `patch`)."""
import os
import vlib, gen_api
from checks import apicheck, patchwire

UTF8 = {"00ff2a": "c3a92a", "00ff6d": "c3a96d"}
MIN64 = "-9223372036854775808"


def sanitize(op):
    t = op.split()
    t = [UTF8.get(x, x) for x in t]
    # GeoAdd's members travel as <member>:<longitude bits>:<latitude bits>
    t = [":".join([UTF8.get(x.split(":")[0], x.split(":")[0])] + x.split(":")[1:]) if x.count(":") == 2 else x for x in t]
    # A-15b (known finding of C01): a command that fails after creating its key leaves an empty key
    # behind and emits nothing
    if len(t) > 3 and t[0] == "api" and t[1] == "DecrBy" and t[3] == MIN64:
        t[3] = "5"
    # GeoAddNX on a missing key creates an empty sorted set and emits nothing (FINDINGS.md D-8, the A-15b pattern)
    if len(t) > 2 and t[0] == "api" and t[1] == "GeoAddNX":
        return "api Exists " + t[2]
    # empty collections created through the embedded API (known finding of C03) emit nothing either
    if len(t) > 1 and t[0] == "api" and ((t[1] == "HMSet" and t[3:] == ["[", "]"]) or (t[1] in ("SAdd", "LPush", "RPush") and len(t) == 3)):
        return "api Exists " + t[2]
    return " ".join(t)


def feed_stream(ctx, fams, n, every, feedop="feed"):
    ops = gen_api.stream(ctx.rng, fams, n, events={"sleep": 0.04}, dump_every=0, realtime=False)
    out = ["open b mem", "open a mem", "watch 2a 2a2f2a"]
    k = 0
    for op in ops[1:]:
        if op == "dump":
            continue
        if op.startswith("sleep") and every > 1:
            # records are delivered synchronously: never apply them after the clock has moved
            out.append("replicate b")
        out.append(sanitize(op))
        k += 1
        if every == 1:
            out.append(feedop)
        elif k % every == 0:
            out += ["replicate b", "ldump", "inst b", "ldump", "inst a"]
    if every > 1:
        out += ["replicate b", "ldump", "inst b", "ldump", "inst a"]
    return out


FAMS = [["str"], ["key", "str", "exp"], ["list"], ["hash"], ["set"], ["zset"], ["str", "key", "list", "hash", "set", "zset", "exp"]]


def run(ctx, proofs_ok):
    q = ctx.tier == "quick"
    hft = vlib.build_harness(ctx, faketime=True)
    hplain = vlib.build_harness(ctx)
    vlib.replay_known_findings(ctx, hplain, hft)
    # the wire encoding itself (Model/ProtoWire.lean): Op.Encode / DecodeOp byte for byte
    if patchwire.run(ctx, hplain):
        return
    for ops in split_corpus(vlib.corpus_ops(ctx.pid, "ft.ops")):
        vlib.correspond_stream(ctx, hft, ops, "corpus", "corpus: witnesses of repaired defects", shrink=False)
    reps = 2 if q else 12
    n = 250 if q else 800
    for fi, fams in enumerate(FAMS):
        for i in range(reps):
            if vlib.correspond_stream(ctx, hft, feed_stream(ctx, fams, n, 1, "feedw" if i % 2 else "feed"), f"e{fi}-{i}", "emitted records compared with the model after every call (odd rounds: with the digest of each record's Op.Encode bytes): " + "+".join(fams)):
                return
            if vlib.correspond_stream(ctx, hft, feed_stream(ctx, fams, n, 17), f"r{fi}-{i}", "closed loop primary -> Encode/DecodeOp -> ApplyPatch on a replica: " + "+".join(fams)):
                return
    # GEOADD has no model of its replies (float text, geohash arithmetic); what it stores is a sorted set, and
    # its records are checked by the closed loop on the implementation alone: primary -> Encode/DecodeOp ->
    # ApplyPatch -> replica, dumps equal
    from gen_api import hx
    c = lambda *a: "resp c1 " + " ".join(hx(x) for x in a)
    geo = ["open b mem", "open a mem", "watch 2a 2a2f2a", "conn c1"]
    for i, cmd in enumerate([("GEOADD", "g", "13.361389", "38.115556", "Palermo", "15.087269", "37.502669", "Catania"), ("GEOADD", "g", "2", "2", "Palermo"),
                             ("GEOADD", "g2", "200", "100", "Out"), ("ZADD", "g", "5", "plain"), ("GEOADD", "g", "-122.27652", "37.805186", "st1", "-122.2674626", "37.8062344", "st2"),
                             ("DEL", "g2"), ("GEOADD", "g2", "0", "0", "origin"), ("GEOADD", "str", "1", "1", "m"), ("SET", "str", "v"), ("GEOADD", "str", "1", "1", "m"),
                             ("ZREM", "g", "Palermo"), ("GEOADD", "g", "13.361389", "38.115556", "Palermo"),
                             # the ZADD command (zAddPairs, one transaction, one record per member written; Lean: C20.replay_zaddPairs)
                             ("ZADD", "g", "GT", "CH", "1", "plain", "7", "plain2", "3", "Palermo"), ("ZADD", "zp", "NX", "1", "a", "2", "a", "3", "b"),
                             ("ZADD", "zp", "XX", "CH", "5", "a", "6", "nothere"), ("ZADD", "zp", "LT", "0", "a", "9", "b", "4", "c"), ("ZADD", "zq", "XX", "1", "a"),
                             ("ZADD", "zp", "1", "a", "x", "b"), ("ZADD", "zp", "GT", "CH", "2", "a", "2", "a", "1", "a", "8", "d"), ("ZADD", "zr", "LT", "1", "n", "2", "n", "0", "n"),
                             ("ZADD", "zp", "-0", "z0", "0", "z0"), ("ZADD", "zp", "CH", "0", "z0", "5", "a")]):
        geo += [c(*cmd), "replicate b", "ldump", "inst b", "ldump", "inst a"]
    # (the model's side of GEOADD's records is tied at the API level: `api GeoAdd` in the zset family above - records
    # against `Feed.emission`, and the closed loop; here the command goes over the network protocol)
    g, _ = vlib.run_pair(ctx, geo, hplain, "geo")
    ctx.cov["evaluations"] += len(geo)
    for i, op in enumerate(geo):
        if op.startswith("replicate ") and i + 3 < len(g):
            ctx.cov["replications"] = ctx.cov.get("replications", 0) + 1
            if not g[i].startswith("ok") or g[i + 1] != g[i + 3] or not g[i + 1].startswith(("ldump", "#")):
                vlib.record_violation(ctx, "replica-differs", {"ops": geo[:i + 4], "impl": g[:i + 4], "model": [], "stream": "GEOADD closed loop (implementation only)",
                                                               "explain": "after the primary's records for this command went through Encode/DecodeOp and ApplyPatch, the replica's logical keyspace differs from the primary's (last and third-last line)"})
                return
    # watcher bookkeeping: additional watchers are added and removed (also removed twice) while the first one
    # must keep receiving every record, and a replica fed by it stays equal
    # a command after every change of the watcher set, so that every count of (live + removed-again) watchers
    # a buggy bookkeeping might pass through is observed
    steps = ["watchx", "api Set 6b31 7631 0", "unwatchx 1", "api Set 6b32 7632 0", "unwatchx 1", "api RPush 6c31 61 62", "unwatchx 1", "api SAdd 7431 61",
             "watchx", "watchx", "api HSet 6831 66 76", "unwatchx 2", "unwatchx 2", "api Incr 6b33", "unwatchx 3", "api Del 6b31", "unwatchx 3", "unwatchx 2", "api ZAdd 7a31 61 3ff0000000000000",
             "watchx", "unwatchx 4", "api Append 6b32 7a", "unwatchx 4", "api LPop 6c31 1"]
    with_feed = ["open a mem", "watch 2a"] + [x for st in steps for x in ([st, "feed"] if st.startswith("api ") else [st])]
    closed = ["open b mem", "open a mem", "watch 2a"] + steps + ["replicate b", "ldump", "inst b", "ldump", "inst a"]
    for tag, ops in (("book1", with_feed), ("book2", closed)):
        if vlib.correspond_stream(ctx, hft, ops, tag, "additional watchers come and go (removed once, twice, three times): the first watcher keeps receiving every record", shrink=False):
            return
    # pattern filtering: a narrow watcher next to the `*` watcher
    pats_pool = [["t1"], ["t?"], ["t2", "l1"], ["*1"], ["[st]*"], ["z3", "t3"], ["w"], ["l2"], ["s*"], ["z1"]]
    for i in range(6 if q else 40):
        fams = ctx.rng.choice([["set"], ["list"], ["key", "str"], ["zset"], ["set", "list", "key", "str"]])
        pats = ctx.rng.choice(pats_pool)
        ops = gen_api.stream(ctx.rng, fams, 150 if q else 400, dump_every=0, realtime=False)
        # both registration orders: the narrow watcher before and after the `*` watcher (records of one command are
        # handed to the watchers in registration order - what one watcher is given must not depend on the others)
        out = ["open a mem", "watch 2a 2a2f2a", "watchp " + " ".join(p.encode().hex() for p in pats)]
        if i % 2:
            out = [out[0], out[2], out[1]]
        for op in ops[1:]:
            if op == "dump" or op.startswith("sleep"):
                continue
            out += [sanitize(op), "feedp"]
        if vlib.correspond_stream(ctx, hft, out, f"p{i}", "a watcher with narrow patterns receives exactly the matching records of the * watcher, in order"):
            return
    # commands whose records name two different keys, with a narrow watcher that matches only ONE of the two keys, registered
    # before or after the `*` watcher: each watcher gets exactly its own records, and the `*` watcher's are the model's emission
    for order in (0, 1):
        for which in ("second", "first"):
            pat = {"second": "*2", "first": "*1"}[which]
            regs = ["watch 2a 2a2f2a", "watchp " + pat.encode().hex()]
            out = ["open a mem"] + (regs if order == 0 else regs[::-1])
            hxs = lambda x: x.encode().hex()
            for cmd in ("SAdd t1 a b c", "SMove t1 t2 a", "SMove t2 t1 a", "RPush l1 x y z", "RPopLPush l1 l2", "LPopRPush l2 l1", "RPopLPush l1 l2", "Set s1 v 0", "Rename s1 s2",
                        "RenameNX s2 s1", "MSet s1 p s2 q", "Del s1 s2", "SAdd t2 q", "SUnionStore t2 t1 t2", "SDiffStore t1 t2 t1", "Del t2 t1 l1 l2"):
                t = cmd.split(" ")
                out += ["api " + t[0] + " " + " ".join(x if x == "0" else hxs(x) for x in t[1:]), "feedp"]
            if vlib.correspond_stream(ctx, hft, out, f"two{order}{which[0]}", "records of one command naming two keys, a narrow watcher matching one of them, both registration orders", shrink=False):
                return
    # the implementation's own verdict (independent of the model)
    for i in range(6 if q else 40):
        f = f"{ctx.work}/p{i}.g"
        if not os.path.exists(f):
            continue
        for line in open(f):
            if line.startswith("feedp") and "MISMATCH" in line:
                vlib.record_violation(ctx, "pattern-filter", {"impl": [line.strip()[:2000]], "ops": [], "model": [],
                                      "explain": "the watcher with narrow patterns did not receive exactly the matching records of the * watcher"})
                return


def split_corpus(ops):
    seqs, cur = [], []
    for l in ops:
        if l == "---":
            seqs.append(cur); cur = []
        else:
            cur.append(l)
    if cur:
        seqs.append(cur)
    return seqs
