"""C06 — every command completes: no deadlock or permanent stall under any command mix.

Proof: Props/C06.lean (a transaction only ever waits for a key greater than every key it holds, so the
waits-for relation has no cycle and some transaction can always move; a commit releases everything).
Tie: the recorded protocol trace of every run must be accepted by the model — a lock taken out of
order is a rejected `wait` event even when no deadlock happened in that run. Search: scenarios mixing
multi-key commands with overlapping key sets in opposite orders, self-aliasing commands, eviction,
flush, FLUSHDB, KEYS/SCAN, wrong-type panics, through the embedded API and over TCP, with a watchdog
that reports a run as hung when no protocol step happens for 10 s."""
from checks import conc


def run(ctx, proofs_ok):
    q = ctx.tier == "quick"
    plan = []
    for widen in ((0, 25) if q else (0, 10, 30, 60)):
        plan.append(("mix", 150 if q else 1500, widen))
        plan.append(("tcp-mix", 25 if q else 200, widen))
        plan.append(("rotate", 15 if q else 100, widen))
        plan.append(("smove", 10 if q else 60, widen))
        plan.append(("rename", 10 if q else 60, widen))
    # every blocking form queued in MULTI returns at once (EXEC is exclusive: waiting inside it stalls the server)
    plan.append(("tcp-multi-bpop", 2 if q else 20, 0))
    conc.run_scenarios(ctx, plan, "command mixes with overlapping key sets", txprog=True, prog_replay=False)
