"""Shared machinery of C05 / C06 / C07 (and the concurrent parts of C08 / C09).

Three layers:
  1. Lean: Model/Proto.lean is the locking protocol as a transition system; Props/C05-C07 prove mutual
     exclusion, currency of validated records, absence of waits-for cycles, strict two-phase locking.
  2. Tie: the implementation reports every protocol step through its verifTrace hook; the recorded
     trace of every scenario run is replayed through the model (`pev` lines of the driver) and every
     event must be a step the model allows. A change of the protocol (a dropped re-validation, a lock
     taken out of order, a release before the commit, a publication without the lock ...) produces a
     rejected event.
  3. Search for a failing execution: scenarios with invariants that every linearizable / atomic /
     deadlock-free implementation satisfies, with race windows widened by the verifPoint hook.
"""
import json, os, subprocess, time
import vlib


def _limit_memory():
    import resource
    resource.setrlimit(resource.RLIMIT_AS, (8 << 30, 8 << 30))


def txprog_replay(ctx, tracef, sc, seed, rounds, widen, lines):
    """the recorded trace must also be a trace of the PROGRAM model (Model/TxProg.lean): `driver txprog`
    advances the model's threads through the pcs of tx.go so that they emit exactly the recorded events.
    Returns False when a violation was recorded."""
    bound = 30000 if ctx.tier == "quick" else 400000
    t0 = time.time()
    p = subprocess.run([f"{vlib.LEAN}/.lake/build/bin/driver", "txprog", tracef, str(bound)], capture_output=True, text=True, timeout=1800)
    ctx.cov["txprog_seconds"] = round(ctx.cov.get("txprog_seconds", 0) + time.time() - t0, 2)
    res = p.stdout.strip()
    toks = res.split()
    if toks[:2] == ["txprog", "ok"]:
        kv = dict(t.split("=", 1) for t in toks[2:] if "=" in t)
        for name, key in (("txprog_events_replayed", "events"), ("txprog_silent_steps", "silent"), ("txprog_env_events", "env"),
                          ("txprog_oracle_hv", "oracle_hv"), ("txprog_unsupported_events", "unsupported")):
            ctx.cov[name] = ctx.cov.get(name, 0) + int(kv.get(key, 0))
        ctx.cov["txprog_traces"] = ctx.cov.get("txprog_traces", 0) + 1
        return True
    kv = dict(t.split("=", 1) for t in toks[2:] if "=" in t)
    j = int(kv["line"]) if kv.get("line", "").isdigit() else 0
    vlib.record_violation(ctx, "txprog-trace", {
        "scenario": sc, "scenario_seed": seed, "rounds": rounds, "widen": widen,
        "replay_result": res[:600] or f"the driver died (exit {p.returncode}): {p.stderr[:300]}",
        "rejected_event": lines[j] if j < len(lines) else "", "position": j, "preceding": lines[max(0, j - 40):j],
        "ops": [f"stress {sc} {seed} {rounds} {widen}"],
        "explain": "the recorded trace is accepted by the protocol model but cannot be produced by the program model Model/TxProg.lean: the code of tx.go no longer does what the program model (about which prog_refines_proto is proved) says"},
        no_input=True)
    return False


def run_scenarios(ctx, plan, label, mem_limit=False, txprog=False, prog_replay=True):
    """plan: list of (scenario, rounds, widen). Returns number of runs.
    txprog: also replay the recorded trace against the program model of tx.go (C05 / C06 / C07).
    prog_replay=False: the trace is checked against the PROTOCOL models only (locking, wake-up, gate), not against the
    program-level models of the blocking-pop and gate code (C17: half a million events of hostile traffic per run - the
    program-level replays belong to C18 / C08 / C09 and cost 40 s there)."""
    h = vlib.build_harness(ctx)
    runs = 0
    events = 0
    for i, (sc, rounds, widen) in enumerate(plan):
        seed = ctx.seed * 7919 + i
        tracef = f"{ctx.work}/trace_{i}.ops"
        opsf = f"{ctx.work}/sc_{i}.ops"
        outf = f"{ctx.work}/sc_{i}.out"
        open(opsf, "w").write(f"ptrace {sc} {seed} {rounds} {widen} {tracef}\n")
        for f in (tracef, outf):
            if os.path.exists(f):
                os.remove(f)
        env = dict(vlib.GOENV)
        env["VERIF_HANG_DUMP"] = f"{ctx.work}/hang_{i}.txt"
        try:
            if mem_limit:
                # an allocation announced by a frame header (or any other runaway) ends the process
                p = subprocess.run([h, "-i", opsf, "-o", outf], timeout=900, env=env, capture_output=True, text=True, errors="replace", preexec_fn=_limit_memory)
                rc, so, se = p.returncode, p.stdout, p.stderr
            else:
                rc, so, se = vlib.sh([h, "-i", opsf, "-o", outf], timeout=900, env=env)
        except subprocess.TimeoutExpired:
            rc, se = -9, "TIMEOUT"
        res = open(outf).read().strip() if os.path.exists(outf) else ""
        runs += 1
        ctx.cov["evaluations"] += 1
        ctx.cov["streams"].setdefault(label, []).append({"scenario": sc, "rounds": rounds, "widen_percent": widen, "seed": seed, "result": res[:200]})
        if not res.startswith("ok"):
            tail = [l for l in se.splitlines() if l.strip() and "Recovered error" not in l and "listen on" not in l]
            why = res or f"the server process died (exit {rc}): " + " | ".join(tail[:6])[:600]
            stacks = ""
            if os.path.exists(env["VERIF_HANG_DUMP"]):
                stacks = open(env["VERIF_HANG_DUMP"]).read()[:20000]
            vlib.record_violation(ctx, "concurrency", {
                "scenario": sc, "scenario_seed": seed, "rounds": rounds, "widen": widen, "result": why,
                "ops": [f"stress {sc} {seed} {rounds} {widen}"],
                "goroutines": stacks,
                "explain": "a concurrent scenario on the real code broke an invariant that every linearizable, atomic and deadlock-free implementation keeps (the schedule is not deterministic: the replay runs the scenario repeatedly)"})
            return runs
        ctx.nontrivial.add((sc, widen))
        # the recorded protocol trace must be a run of the Lean model
        if os.path.exists(tracef):
            add_bpop_calls(tracef)
            if not prog_replay:
                open(tracef, "w").write("noprog\n" + open(tracef).read())
            p = subprocess.run([f"{vlib.LEAN}/.lake/build/bin/driver"], stdin=open(tracef), capture_output=True, text=True, timeout=1800)
            out = p.stdout.split("\n")
            lines = open(tracef).read().split("\n")
            n_ev = sum(1 for l in lines if l.startswith(("pev ", "bev ", "gev ")))
            events += n_ev
            n_ev += sum(1 for l in lines if l.startswith("gpc "))
            bad = [j for j, o in enumerate(out[:len(lines)]) if o in ("rejected", "bad-op") or o.startswith("rejected-prog")]
            kinds = {}
            for l in lines:
                t = l.split()
                if len(t) > 1:
                    kinds[t[1]] = kinds.get(t[1], 0) + 1
            for k, v in kinds.items():
                ctx.cov["distribution"][f"event:{k}"] = ctx.cov["distribution"].get(f"event:{k}", 0) + v
            if bad:
                j = bad[0]
                vlib.record_violation(ctx, "protocol-trace", {
                    "scenario": sc, "scenario_seed": seed, "rounds": rounds, "widen": widen,
                    "rejected_event": lines[j], "position": j, "preceding": lines[max(0, j - 40):j], "driver_says": out[j],
                    "ops": [f"stress {sc} {seed} {rounds} {widen}"],
                    "explain": ("the gate protocol (Model/Gate.lean) accepts the step, but no path of the program model of the code around store.execMu (Model/GateProg.lean: Serve closure, execCommand, exec, blockingPop's look) emits this goroutine's events in this order with the connection state the harness observed (gpc lines)"
                                if out[j] == "rejected-prog" else
                                "the implementation took a step that the locking protocol model (Model/Proto.lean, about which the theorems are proved) does not allow in the state reached by the earlier steps; the scenario's own invariants held in this run")},
                    no_input=True)
                return runs
            if txprog and not txprog_replay(ctx, tracef, sc, seed, rounds, widen, lines):
                return runs
            os.remove(tracef)
    ctx.cov["protocol_events_validated"] = ctx.cov.get("protocol_events_validated", 0) + events
    return runs


def add_bpop_calls(tracef):
    """The replay of the `bev` lines against the program model of blockingPop (Model/BlockProg.lean) needs the
    arguments of every call when it starts; the hooks report them piecemeal (one `reg` per key, the sign of the timeout
    with the first `block`). Insert `bpp call <w> <tmo> <key>...` in front of the first `reg` of every waiter."""
    lines = open(tracef).read().split("\n")
    if not any(l.startswith("bev ") for l in lines):
        return
    keys, tmo, fails, first = {}, {}, {}, {}
    for j, l in enumerate(lines):
        t = l.split()
        if len(t) < 3 or t[0] != "bev":
            continue
        w = t[2]
        if t[1] == "reg":
            first.setdefault(w, j)
            keys.setdefault(w, []).append(t[3])
        elif t[1] == "try" and t[4] == "0":
            fails[w] = fails.get(w, 0) + 1
        elif t[1] == "block":
            tmo.setdefault(w, 1 if t[3] == "1" else 0)
        elif t[1] == "abort" and w not in tmo:
            # no wait before the call unwinds: after a complete round of failed tries it is the non-waiting form
            # (timeout < 0, used inside EXEC), otherwise a pop panicked
            tmo[w] = -1 if fails.get(w, 0) == len(keys.get(w, [])) else 0
    at = {j: w for w, j in first.items()}
    out = []
    for j, l in enumerate(lines):
        if j in at:
            w = at[j]
            out.append(f"bpp call {w} {tmo.get(w, 0)} " + " ".join(keys[w]))
        out.append(l)
    open(tracef, "w").write("\n".join(out))


def replay(r):
    """re-run a recorded scenario a number of times; 1 = it failed again"""
    ctx = vlib.Ctx(r.get("property", "C05"), "quick")
    vlib.lake_build(ctx, ["driver"])
    ctx.seed = 0
    fails = 0
    for k in range(5):
        before = len(ctx.violations)
        plan = [(r["scenario"], r["rounds"], r["widen"])]
        ctx.seed = k
        run_scenarios(ctx, plan, "replay", txprog=r.get("kind") == "txprog-trace")
        if len(ctx.violations) > before:
            fails += 1
            print(open(ctx.violations[-1][0]).read()[:3000])
            break
    print("FAILS AGAIN" if fails else "did not fail in 5 runs")
    return 1 if fails else 0
