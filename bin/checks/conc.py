"""Shared machinery of C05 / C06 / C07 (and the concurrent parts of C08 / C09).

Three layers:
  1. Lean: Model/Proto.lean is the locking protocol as a transition system; Props/C05-C07 prove mutual
     exclusion, currency of validated records, absence of waits-for cycles, strict two-phase locking.
  2. Tie: the implementation reports every protocol step through its verifTrace hook; the recorded
     trace of every scenario run is replayed through the model (`pev` lines of the driver) and every
     event must be a step the model allows. A change of the protocol (a dropped re-validation, a lock
     taken out of order, a release before the commit, a publication without the lock ...) produces a
     rejected event.
  3. Search for a failing execution: scenarios with invariants that every linearizable / atomic /
     deadlock-free implementation satisfies, with race windows widened by the verifPoint hook.
"""
import json, os, subprocess
import vlib


def _limit_memory():
    import resource
    resource.setrlimit(resource.RLIMIT_AS, (8 << 30, 8 << 30))


def run_scenarios(ctx, plan, label, mem_limit=False):
    """plan: list of (scenario, rounds, widen). Returns number of runs."""
    h = vlib.build_harness(ctx)
    runs = 0
    events = 0
    for i, (sc, rounds, widen) in enumerate(plan):
        seed = ctx.seed * 7919 + i
        tracef = f"{ctx.work}/trace_{i}.ops"
        opsf = f"{ctx.work}/sc_{i}.ops"
        outf = f"{ctx.work}/sc_{i}.out"
        open(opsf, "w").write(f"ptrace {sc} {seed} {rounds} {widen} {tracef}\n")
        for f in (tracef, outf):
            if os.path.exists(f):
                os.remove(f)
        env = dict(vlib.GOENV)
        env["VERIF_HANG_DUMP"] = f"{ctx.work}/hang_{i}.txt"
        try:
            if mem_limit:
                # an allocation announced by a frame header (or any other runaway) ends the process
                p = subprocess.run([h, "-i", opsf, "-o", outf], timeout=900, env=env, capture_output=True, text=True, errors="replace", preexec_fn=_limit_memory)
                rc, so, se = p.returncode, p.stdout, p.stderr
            else:
                rc, so, se = vlib.sh([h, "-i", opsf, "-o", outf], timeout=900, env=env)
        except subprocess.TimeoutExpired:
            rc, se = -9, "TIMEOUT"
        res = open(outf).read().strip() if os.path.exists(outf) else ""
        runs += 1
        ctx.cov["evaluations"] += 1
        ctx.cov["streams"].setdefault(label, []).append({"scenario": sc, "rounds": rounds, "widen_percent": widen, "seed": seed, "result": res[:200]})
        if not res.startswith("ok"):
            tail = [l for l in se.splitlines() if l.strip() and "Recovered error" not in l and "listen on" not in l]
            why = res or f"the server process died (exit {rc}): " + " | ".join(tail[:6])[:600]
            stacks = ""
            if os.path.exists(env["VERIF_HANG_DUMP"]):
                stacks = open(env["VERIF_HANG_DUMP"]).read()[:20000]
            vlib.record_violation(ctx, "concurrency", {
                "scenario": sc, "scenario_seed": seed, "rounds": rounds, "widen": widen, "result": why,
                "ops": [f"stress {sc} {seed} {rounds} {widen}"],
                "goroutines": stacks,
                "explain": "a concurrent scenario on the real code broke an invariant that every linearizable, atomic and deadlock-free implementation keeps (the schedule is not deterministic: the replay runs the scenario repeatedly)"})
            return runs
        ctx.nontrivial.add((sc, widen))
        # the recorded protocol trace must be a run of the Lean model
        if os.path.exists(tracef):
            p = subprocess.run([f"{vlib.LEAN}/.lake/build/bin/driver"], stdin=open(tracef), capture_output=True, text=True, timeout=1800)
            out = p.stdout.split("\n")
            lines = open(tracef).read().split("\n")
            n_ev = sum(1 for l in lines if l.startswith(("pev ", "bev ", "gev ")))
            events += n_ev
            n_ev += sum(1 for l in lines if l.startswith("gpc "))
            bad = [j for j, o in enumerate(out[:len(lines)]) if o in ("rejected", "bad-op", "rejected-prog")]
            kinds = {}
            for l in lines:
                t = l.split()
                if len(t) > 1:
                    kinds[t[1]] = kinds.get(t[1], 0) + 1
            for k, v in kinds.items():
                ctx.cov["distribution"][f"event:{k}"] = ctx.cov["distribution"].get(f"event:{k}", 0) + v
            if bad:
                j = bad[0]
                vlib.record_violation(ctx, "protocol-trace", {
                    "scenario": sc, "scenario_seed": seed, "rounds": rounds, "widen": widen,
                    "rejected_event": lines[j], "position": j, "preceding": lines[max(0, j - 40):j],
                    "ops": [f"stress {sc} {seed} {rounds} {widen}"],
                    "explain": ("the gate protocol (Model/Gate.lean) accepts the step, but no path of the program model of the code around store.execMu (Model/GateProg.lean: Serve closure, execCommand, exec, blockingPop's look) emits this goroutine's events in this order with the connection state the harness observed (gpc lines)"
                                if out[j] == "rejected-prog" else
                                "the implementation took a step that the locking protocol model (Model/Proto.lean, about which the theorems are proved) does not allow in the state reached by the earlier steps; the scenario's own invariants held in this run")},
                    no_input=True)
                return runs
            os.remove(tracef)
    ctx.cov["protocol_events_validated"] = ctx.cov.get("protocol_events_validated", 0) + events
    return runs


def replay(r):
    """re-run a recorded scenario a number of times; 1 = it failed again"""
    ctx = vlib.Ctx(r.get("property", "C05"), "quick")
    vlib.lake_build(ctx, ["driver"])
    ctx.seed = 0
    fails = 0
    for k in range(5):
        before = len(ctx.violations)
        plan = [(r["scenario"], r["rounds"], r["widen"])]
        ctx.seed = k
        run_scenarios(ctx, plan, "replay")
        if len(ctx.violations) > before:
            fails += 1
            print(open(ctx.violations[-1][0]).read()[:3000])
            break
    print("FAILS AGAIN" if fails else "did not fail in 5 runs")
    return 1 if fails else 0
