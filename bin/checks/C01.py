"""C01 — strings and keyspace follow sequential Redis semantics (correspondence part)."""
from checks import apicheck


def ranges():
    ops = ["open a mem"]
    for n in (0, 1, 2, 5):
        key = ("g%d" % n).encode().hex()
        if n:
            ops.append(f"api Set {key} {''.join('%02x' % (0x61 + i) for i in range(n))} 0")
        for a in range(-(n + 2), n + 3):
            for b in range(-(n + 2), n + 3):
                ops += [f"api GetRange {key} {a} {b}", f"api BitCount {key} {a} {b} 0", f"api BitCount {key} {a} {b} 1"]
            ops += [f"api GetBit {key} {a}", f"api GetBit {key} {a * 8 + 3}"]
    i = 0
    for n in (0, 1, 3):
        for off in (-1, 0, 1, 2, 3, 4, 7, 4097):
            for data in ("-", "7a", "7a7a7a"):
                i += 1
                key = ("h%d" % i).encode().hex()
                if n:
                    ops.append(f"api Set {key} {'61' * n} 0")
                ops += [f"api SetRange {key} {off} {data}", f"api Get {key}", f"api StrLen {key}", f"api Exists {key}"]
            i += 1
            key = ("b%d" % i).encode().hex()
            if n:
                ops.append(f"api Set {key} {'61' * n} 0")
            ops += [f"api SetBit {key} {off} 1", f"api Get {key}", f"api SetBit {key} {off} 0", f"api Get {key}"]
    ops.append("dump")
    return ops


def edge_values(open_line):
    """string values at the edges of the domain - empty, one byte (also NUL), CR LF, counters, > 4 KiB - written, then
    read by every reading command of the family before and after the value has been evicted and re-read from the
    storage backend (three eviction passes) and after Close + Open: a value comes back byte for byte, an empty
    value stays an empty value (not a missing key)"""
    e = "-"
    keys = {"7630": e, "7631": "00", "7632": "0d0a", "7633": "30", "7634": "2d39323233333732303336383534373735383038", "7635": "r5000x61", "7636": "ff00fe"}
    ops = [open_line] + [f"api Set {k} {v} 0" for k, v in keys.items()]
    ops += [f"api Append 7637 {e}", f"api SetRange 7638 0 {e}", f"api SetNX 7639 {e} 0", f"api MSet 763a {e} 763b 00", f"api GetSet 763c {e}", f"api GetSet 763c {e}"]
    allk = list(keys) + ["7637", "7638", "7639", "763a", "763b", "763c"]
    reads = []
    for k in allk:
        reads += [f"api Get {k}", f"api StrLen {k}", f"api GetRange {k} 0 -1", f"api Exists {k}", f"api Type {k}", f"api GetBit {k} 0", f"api BitCount {k} 0 0 0"]
    reads += ["api Keys 2a", "api Exists " + " ".join(allk), f"api SetNX 7630 78 0", f"api Append 7630 {e}", "api Get 7630", "api Incr 7633", "api DecrBy 7633 1",
              "api Incr 7630", "api Set 7630 - 0", "api Rename 7631 7631", "dump"]
    ops += reads + ["gc", "gc", "gc"] + reads + ["ldump", "close", "reopen", "ldump"] + reads + ["gc", "gc", "gc"] + reads
    return ops


def multi_reads():
    """every reading command of the family queued after writes inside MULTI: it must see the state at EXEC
    time (after the queued writes and after another client's write between queueing and EXEC), not the
    state at the time it was queued"""
    from gen_api import hx
    c = lambda conn, *a: f"resp {conn} " + " ".join(hx(x.encode() if isinstance(x, str) else x) for x in a)
    ops = ["open a mem", "conn c1", "conn c2"]
    reads = [("DBSIZE",), ("KEYS", "*"), ("EXISTS", "a", "b", "c"), ("GET", "a"), ("STRLEN", "a"), ("GETRANGE", "a", "0", "-1"), ("MGET", "a", "b"), ("TYPE", "a"),
             ("GETBIT", "a", "1"), ("BITCOUNT", "a"), ("TTL", "a"), ("SCAN", "0"), ("RANDOMKEY",) if False else ("EXISTS", "a")]
    for rd in reads:
        ops += [c("c2", "FLUSHDB"), c("c1", "MULTI"), c("c1", "SET", "a", "1"), c("c1", *rd), c("c1", "APPEND", "a", "23"), c("c1", "SET", "b", "x"), c("c1", *rd),
                c("c1", "DEL", "a"), c("c1", *rd), c("c2", "SET", "c", "other"), c("c1", "EXEC"), c("c1", *rd)]
    return ops


def run(ctx, proofs_ok):
    apicheck.run_streams(ctx, [
        {"label": "random string/keyspace command streams (embedded API, memory backend)", "fams": ["str", "str", "str", "key"],
         "n": (1500, 5000), "count": (4, 40)},
        {"label": "string/keyspace streams mixed with every other family (type conflicts)", "fams": ["str", "key", "list", "hash", "set", "zset"],
         "n": (1500, 5000), "count": (2, 20)},
        {"label": "string/keyspace streams with eviction passes, expiry and reopen (memory backend, deterministic clock)",
         "fams": ["str", "str", "key", "exp"], "n": (1200, 4000), "count": (2, 12), "ft": True,
         "events": {"gc": 0.08, "flush": 0.03, "reopen": 0.02, "sleep": 0.03}},
        {"label": "string/keyspace streams on Pebble with eviction and reopen", "fams": ["str", "str", "key"],
         "n": (600, 3000), "count": (1, 6), "backend": "pebble", "events": {"gc": 0.08, "flush": 0.03, "reopen": 0.02}},
    ], extra=[("exhaustive GETRANGE / BITCOUNT / GETBIT windows and SETRANGE / SETBIT offsets on short strings", ranges(), False),
              ("string values at the edges of the domain through eviction, reload and reopen (memory)", edge_values("open a mem"), False),
              ("string values at the edges of the domain through eviction, reload and reopen (Pebble)", edge_values(f"open a pebble {ctx.work}/pebble-edge"), False)])
    if ctx.violations:
        return
    apicheck.run_resp_streams(ctx, [
        {"label": "string/keyspace commands over the network protocol, with transactions on a second connection", "fams": ["strings", "strings", "keyspace", "tx"],
         "n": (1200, 5000), "count": (2, 12), "conns": 2},
    ], extra=[("reading commands queued after writes inside MULTI see the state at EXEC time", multi_reads())], corpus=False)
    # a second oracle that owes nothing to the model: the documented Redis semantics (bin/refredis.py)
    from checks import refcheck
    refcheck.run(ctx, "ssk", "strings and keyspace against the reference implementation of the documented semantics")
