"""C14 — storage codecs are lossless and injective (correspondence part)."""
import struct
import vlib

BOUNDARY = [0, 1, 2, 7, 8, 62, 63, 64, 65, 127, 128, 129, 255, 256, 8190, 8191, 8192, 8193, 16383, 16384, 16385]
DEADLINES = [0, 1, -1, 63, 64, -64, -65, 8191, 8192, 1257894000000, 1790000000123, 2**55 - 1, 2**55, 2**56,
             2**62, 2**63 - 1, -2**63, -2**55, 2**48, 2**49 - 1]
FLOATS = [0.0, -0.0, 1.0, -1.0, 1.5, float("inf"), float("-inf"), 5e-324, -5e-324, 1.7976931348623157e308,
          2.2250738585072014e-308, 3.141592653589793, 1e100, -1e-100, 123456789.125]


def fbits(x):
    return "%016x" % struct.unpack(">Q", struct.pack(">d", x))[0]


def tok(rng, n):
    """a token for a byte string of length n"""
    if n == 0:
        return "-"
    if n <= 24 and rng.random() < 0.7:
        return bytes(rng.randrange(256) for _ in range(n)).hex()
    return f"{rng.choice('rc')}{n}x{rng.randrange(256):02x}"


def gen_keys(ctx, exhaustive_upto):
    rng = ctx.rng
    ops = []
    for n in sorted(set(BOUNDARY[:16] + list(range(0, exhaustive_upto)))):
        for d in DEADLINES:
            ops.append(f"ck {tok(rng, n)} {d}")
    for _ in range(300 if ctx.tier == "quick" else 5000):
        ops.append(f"ck {tok(rng, rng.choice([0, 1, 3, 6, 7, 8, 9, 20]))} {rng.choice([rng.randrange(-2**63, 2**63), rng.randrange(-300, 300), rng.randrange(2**40, 2**42)])}")
    # DecodeKey on arbitrary (also corrupt / truncated) encodings
    for b in range(256):
        ops.append(f"dk {b:02x}")
    for _ in range(400 if ctx.tier == "quick" else 6000):
        n = rng.randrange(0, 14)
        bs = bytes(rng.choice([rng.randrange(256), 0x80 | rng.randrange(128), 0xff]) for _ in range(n))
        ops.append("dk " + (bs.hex() or "-"))
    return ops


def gen_values(ctx, lengths):
    rng = ctx.rng
    ops = []
    for n in lengths:
        t = tok(rng, n)
        ops.append(f"ev str {t}")
        ops.append(f"ev list {t}")
        ops.append(f"ev list {tok(rng, n)} - {tok(rng, max(n - 1, 0))} {tok(rng, n + 1)}")
        ops.append(f"ev set {t}")
        ops.append(f"ev set {tok(rng, n)} {tok(rng, n + 1)} -")
        ops.append(f"ev hash {t} {tok(rng, 3)}")
        ops.append(f"ev hash {tok(rng, 2)} {t}")
        ops.append(f"ev hash {tok(rng, n)} {tok(rng, n)} - - {tok(rng,1)} -")
        ops.append(f"ev zset {t} {fbits(rng.choice(FLOATS))}")
    # empty collections, special floats, duplicates, score ties, updates
    ops += ["ev list", "ev set", "ev hash", "ev zset", "ev str -"]
    for f in FLOATS:
        ops.append(f"ev zset 61 {fbits(f)} - {fbits(-f)} 6162 {fbits(f)}")
    for _ in range(200 if ctx.tier == "quick" else 3000):
        typ = rng.choice(["list", "set", "hash", "zset"])
        k = rng.randrange(0, 12)
        uni = [tok(rng, rng.choice([0, 1, 1, 2, 5, 63, 64, 65, 200])) for _ in range(5)]
        if typ in ("list", "set"):
            ops.append(f"ev {typ} " + " ".join(rng.choice(uni) for _ in range(k)))
        elif typ == "hash":
            ops.append("ev hash " + " ".join(f"{rng.choice(uni)} {tok(rng, rng.choice([0, 1, 4, 64, 130]))}" for _ in range(k)))
        else:
            ops.append("ev zset " + " ".join(f"{rng.choice(uni)} {fbits(rng.choice(FLOATS + [float(rng.randrange(-5, 5))]))}" for _ in range(k)))
    # big collections
    for typ in ("list", "set"):
        ops.append(f"ev {typ} " + " ".join(tok(rng, rng.randrange(0, 9)) for _ in range(3000)))
    ops.append("ev hash " + " ".join(f"{i:06x} {tok(rng, rng.randrange(0, 5))}" for i in range(3000)))
    ops.append("ev zset " + " ".join(f"{rng.randrange(1000):04x} {fbits(float(rng.randrange(-50, 50)))}" for i in range(2500)))
    return ops


def run(ctx, proofs_ok):
    h = vlib.build_harness(ctx)
    if ctx.tier == "quick":
        key_ops = gen_keys(ctx, 12)
        lengths = BOUNDARY
    else:
        key_ops = gen_keys(ctx, 70)
        lengths = list(range(0, 16501))
    vlib.correspond_stateless(ctx, h, vlib.corpus_ops("C14"), "corpus", "corpus: witnesses of repaired defects and past failures")
    vlib.correspond_stateless(ctx, h, key_ops, "keys", "key codec: names x deadlines, DecodeKey on arbitrary bytes")
    ctx.log("keys done")
    val_ops = gen_values(ctx, lengths)
    # chunk so that a crash of the harness loses little
    for i in range(0, len(val_ops), 20000):
        vlib.correspond_stateless(ctx, h, val_ops[i:i + 20000], f"values{i//20000}", "value codecs: 5 types, lengths around every prefix boundary, aliasing probe")
    ctx.cov["exhaustive"] = False
    ctx.cov["lengths_covered"] = f"{lengths[0]}..{lengths[-1]} ({len(lengths)} lengths)"
