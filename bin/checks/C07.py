"""C07 — multi-key commands are atomic: moves conserve elements, stores see one snapshot.

Proof: Props/C07.lean (strict two-phase locking: nothing validated is released before the commit, all
keys of a command are held together at its lock point, the conflict order of transactions follows the
order of their commits). Tie: protocol trace of every run accepted by the model. Search: observers that
look at both keys of SMOVE / RENAME / RPOPLPUSH / MSET / DEL with one atomic multi-key read, and
*STORE commands whose operands are being changed together."""
from checks import conc


def run(ctx, proofs_ok):
    q = ctx.tier == "quick"
    plan = []
    for widen in ((0, 25) if q else (0, 10, 30, 60)):
        r = 10 if q else 80
        for sc in ("smove", "rename", "rotate", "self-move", "store-snapshot", "zstore-snapshot", "mset-mget"):
            plan.append((sc, r if widen < 50 else max(5, r // 4), widen))
    conc.run_scenarios(ctx, plan, "observers of multi-key commands", txprog=True, prog_replay=False)
