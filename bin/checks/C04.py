"""C04 — sorted sets stay ordered; rank, range and score agree (correspondence part)."""
import bisect
import itertools
import vlib
from checks import apicheck, floattab
from gen_api import fbits, hx


def small_sequences(depth):
    """every sequence of `depth` ZADD/ZREM/ZINCRBY steps over 3 members x 3 scores, each followed by
    the full battery of ordered queries (VerifCheck of the real skiplist runs inside every dump)"""
    members = ["61", "62", "-"]
    scores = [fbits(1), fbits(2), fbits(-0.0)]
    steps = [f"ZAdd K {m} {s}" for m in members for s in scores] + [f"ZRem K {m}" for m in members] + [f"ZIncrBy K 61 {fbits(1)}"]
    ops = ["open a mem"]
    for n, seq in enumerate(itertools.product(steps, repeat=depth)):
        key = ("q%d" % n).encode().hex()
        for st in seq:
            ops.append("api " + st.replace("K", key))
        ops += [f"api ZRangeWithScores {key} 1 100", f"api ZCard {key}", f"api ZRank {key} 61", f"api ZRevRank {key} 62",
                f"api ZScore {key} -", f"api ZRangeByScoreWithScores {key} {fbits(0)} {fbits(2)} 0 -1 1",
                f"api ZCount {key} {fbits(1)} {fbits(2)} 2"]
    ops.append("dump")
    return ops


def windows():
    ops = ["open a mem"]
    for n in range(0, 5):
        key = ("w%d" % n).encode().hex()
        for i in range(n):
            ops.append(f"api ZAdd {key} {'%02x' % (0x61 + i)} {fbits(i // 2)}")
        for a in range(-(n + 2), n + 3):
            for b in range(-(n + 2), n + 3):
                ops += [f"api ZRange {key} {a} {b}", f"api ZRevRange {key} {a} {b}"]
        for a in range(-1, n + 1):
            for b in range(-1, n + 1):
                for mode in range(4):
                    ops += [f"api ZRangeByScore {key} {fbits(a)} {fbits(b)} 0 -1 {mode}", f"api ZCount {key} {fbits(a)} {fbits(b)} {mode}",
                            f"api ZRevRangeByScore {key} {fbits(a)} {fbits(b)} 1 2 {mode}"]
    i = 0
    for n in range(1, 5):
        for a in range(-(n + 1), n + 2):
            for b in range(-(n + 1), n + 2):
                i += 1
                key = ("r%d" % i).encode().hex()
                for j in range(n):
                    ops.append(f"api ZAdd {key} {'%02x' % (0x61 + j)} {fbits(j)}")
                ops += [f"api ZRemRangeByRank {key} {a} {b}", f"api ZRangeWithScores {key} 1 100", f"api Exists {key}"]
    ops.append("dump")
    return ops


def big(rng):
    """hundreds of members so that several skiplist levels are in play; rank queries + structure check"""
    ops = ["open a mem"]
    ms = list(range(400))
    rng.shuffle(ms)
    for m in ms:
        ops.append(f"api ZAdd 6269 {('m%03d' % m).encode().hex()} {fbits(rng.randrange(0, 40))}")
    for m in rng.sample(ms, 60):
        ops.append(f"api ZRank 6269 {('m%03d' % m).encode().hex()}")
        ops.append(f"api ZRevRank 6269 {('m%03d' % m).encode().hex()}")
    for m in rng.sample(ms, 150):
        ops.append(rng.choice([f"api ZRem 6269 {('m%03d' % m).encode().hex()}", f"api ZAdd 6269 {('m%03d' % m).encode().hex()} {fbits(rng.randrange(0, 40))}",
                               f"api ZIncrBy 6269 {('m%03d' % m).encode().hex()} {fbits(rng.randrange(-5, 5))}"]))
    ops += ["api ZRemRangeByRank 6269 10 60", f"api ZRemRangeByScore 6269 {fbits(5)} {fbits(9)} 1", "api ZCard 6269", "api ZRangeWithScores 6269 1 1000", "dump"]
    for m in rng.sample(ms, 40):
        ops.append(f"api ZRank 6269 {('m%03d' % m).encode().hex()}")
    return ops


def bounds_table():
    """every by-score command x inclusive / exclusive marks on either bound x bounds that sit exactly on
    members' scores (and between them), with LIMIT and WITHSCORES variants, over the network protocol"""
    from gen_api import hx
    c = lambda *a: "resp c1 " + " ".join(hx(x) for x in a)
    ops = ["open a mem", "conn c1"]
    fill = c("ZADD", "bz", "1", "a", "2", "b", "3", "c", "4", "d", "4", "e", "-1", "n")
    ops.append(fill)
    for lo in ("1", "2", "1.5", "-inf", "-1"):
        for hi in ("3", "4", "3.5", "+inf", "1"):
            for el in ("", "("):
                for eh in ("", "("):
                    L, H = el + lo, eh + hi
                    ops += [c("ZRANGEBYSCORE", "bz", L, H), c("ZREVRANGEBYSCORE", "bz", H, L), c("ZCOUNT", "bz", L, H),
                            c("ZRANGE", "bz", L, H, "BYSCORE"), c("ZRANGE", "bz", H, L, "BYSCORE", "REV"),
                            c("ZRANGEBYSCORE", "bz", L, H, "LIMIT", "1", "2"), c("ZREVRANGEBYSCORE", "bz", H, L, "WITHSCORES", "LIMIT", "1", "2"),
                            c("ZRANGE", "bz", H, L, "BYSCORE", "REV", "LIMIT", "0", "1", "WITHSCORES"),
                            c("ZREMRANGEBYSCORE", "bz", L, H), c("ZRANGE", "bz", "1", "100", "WITHSCORES"), c("DEL", "bz"), fill]
    ops.append("dump")
    return ops

# ---- the pointer skiplist on its own (ds/zset/skiplist.go through the VerifSL hook) ----
NINF, PINF = float("-inf"), float("inf")
SL_SCORES = [NINF, -2.5, -1.0, -0.0, 0.0, 1.0, 1.0, 2.0, 2.0, 3.0, 1e300, PINF]
SL_SORTED = [NINF, -2.5, -1.0, 0.0, 1.0, 2.0, 3.0, 1e300, PINF]


def skiplist_stream(rng, n_ops, max_members):
    """Op lines (`sl ...`, see the protocol of the skiplist tie) for one bare skiplist. A Python-side
    copy of the list (sorted (score, member) pairs) only steers the generation: preconditions of
    insert (member absent) hold, removals mostly hit, ranks and ranges are near the ends."""
    pool = [b"m%03d" % i for i in range(max_members * 2)] + [b"", b"a", b"aa", b"ab", b"aaa", b"b", b"m", b"m0"]
    cur = []            # sorted [(score, member)]
    where = {}          # member -> score as inserted (sign of zero kept)
    ops = ["sl new"]

    def sc():
        return rng.choice(SL_SCORES)

    def line(*toks):
        ops.append("sl " + " ".join(str(t) for t in toks))

    def absent():
        for _ in range(8):
            m = rng.choice(pool)
            if m not in where:
                return m
        for m in pool:
            if m not in where:
                return m
        return None

    def present():
        return rng.choice(cur)[1]

    def other_score(s):
        for _ in range(8):
            t = sc()
            if t != s:
                return t
        return 7.25

    def drop(lo, hi):            # cur[lo:hi]
        for _, m in cur[lo:hi]:
            del where[m]
        del cur[lo:hi]

    def do_insert():
        m = absent()
        if m is None:
            return do_remove()
        s = sc()
        where[m] = s
        bisect.insort(cur, (s, m))
        line("insert", hx(m), fbits(s))

    def do_remove():
        if cur and rng.random() < 0.85:
            m = present()
            s = where[m]
            if s == 0 and rng.random() < 0.3:
                s = -s                       # the other zero: equal in Go, the removal succeeds
            i = bisect.bisect_left(cur, (s, m))
            drop(i, i + 1)
        elif cur and rng.random() < 0.5:
            m = present()
            s = other_score(where[m])
        else:
            m = absent() or b"zz"
            s = sc()
        line("remove", hx(m), fbits(s))

    def do_getrank():
        r = rng.random()
        if cur and r < 0.5:
            m = present()
            s = where[m]
        elif cur and r < 0.75:
            m = present()
            s = other_score(where[m])
        else:
            m = absent() or b"zz"
            s = sc()
        line("getRank", hx(m), fbits(s))

    def do_getbyrank():
        n = len(cur)
        r = rng.choice([0, 1, n, n + 1, rng.randint(-1, n + 2), rng.randint(-1, n + 2)])
        line("getByRank", r)

    def bounds():
        r = rng.random()
        if r < 0.45:
            a = b = rng.choice(SL_SORTED)
        elif r < 0.75:
            i = rng.randrange(len(SL_SORTED) - 1)
            a, b = SL_SORTED[i], SL_SORTED[i + 1]
        elif r < 0.80:
            a, b = NINF, PINF
        else:
            a, b = sc(), sc()                # includes min > max
        if a == 0 and rng.random() < 0.5:
            a = -0.0
        if b == 0 and rng.random() < 0.5:
            b = -0.0
        return a, b

    def do_range_query(name):
        a, b = (sc(), sc()) if rng.random() < 0.5 else bounds()
        line(name, fbits(a), fbits(b))

    def sim_remove_range(a, b, limit, mode):
        i = 0
        while i < len(cur) and (cur[i][0] <= a if mode & 1 else cur[i][0] < a):
            i += 1
        j = i
        while j < len(cur) and (cur[j][0] < b if mode & 2 else cur[j][0] <= b):
            j += 1
            if limit > 0 and j - i == limit:
                break
        drop(i, j)

    def do_remove_range(a=None, b=None, limit=None, mode=None):
        if a is None:
            a, b = bounds()
        if limit is None:
            limit = rng.choice([0, 0, 0, 1, 2, 5, -1])
        if mode is None:
            mode = rng.choice([0, 0, 0, 1, 2, 3])
        sim_remove_range(a, b, limit, mode)
        line("removeRange", fbits(a), fbits(b), limit, mode)

    def do_remove_rank(start=None, stop=None):
        n = len(cur)
        if start is None:
            k = rng.choice([1, 1, 2, 3])
            start, stop = rng.choice([
                (1, k), (n - k + 1, n), (0, 2), (rng.randint(1, n + 1), rng.randint(-1, n)),
                (n + 1, n + 3), (n, n + 5), (-3, 1), (rng.randint(1, max(1, n)),) * 2,
            ])
            if start == stop and rng.random() < 0.5:
                stop = start + k - 1
        lo = max(start, 1)
        if stop >= lo:
            drop(lo - 1, stop)
        line("removeRangeByRank", start, stop)

    def burst():
        # empty the list from both ends, then look at the empty list
        for _ in range(12):
            if not cur:
                break
            n = len(cur)
            k = n // 4 + 1
            r = rng.randrange(4)
            if r == 0:
                do_remove_rank(1, k)
            elif r == 1:
                do_remove_rank(n - k + 1, n)
            elif r == 2:
                do_remove_range(NINF, cur[min(k, n - 1)][0], 0, rng.randrange(4))
            else:
                do_remove_range(cur[max(0, n - 1 - k)][0], PINF, 0, rng.randrange(4))
        if cur:
            if rng.random() < 0.5:
                do_remove_range(NINF, PINF, 0, 0)
            else:
                do_remove_rank(rng.choice([0, 1]), len(cur) + rng.randrange(3))
        for f in rng.sample([do_getrank, do_getbyrank, do_remove, lambda: do_range_query("getFirstInRange"),
                             lambda: do_range_query("getLastInRange"), lambda: do_range_query("hasInRange"),
                             do_remove_range, do_remove_rank], 4):
            f()
        line("dump")

    growing = True
    target = max_members
    next_burst = rng.randint(250, 350) + 3 * max_members      # latest; pulled in once the list has grown
    while len(ops) < n_ops:
        if len(ops) >= next_burst:
            burst()
            growing = True
            next_burst = len(ops) + rng.randint(250, 350) + 3 * max_members
            continue
        n = len(cur)
        if growing and n >= max_members * 9 // 10:
            growing = False
            next_burst = min(next_burst, len(ops) + rng.randint(250, 350))      # churn, then empty it
        if not growing and rng.random() < 0.01:
            target = rng.randint(max(1, max_members // 3), max_members)
        if n >= max_members:
            w_ins = 0
        elif growing:
            w_ins = 120
        elif n >= target:
            w_ins = 10
        else:
            w_ins = 40
        narrow = growing or n < max_members // 2
        acts = [(w_ins, do_insert), (36 if n >= max_members else 18, do_remove), (8, do_getrank), (5, do_getbyrank),
                (2, lambda: do_range_query("hasInRange")), (4, lambda: do_range_query("getFirstInRange")),
                (4, lambda: do_range_query("getLastInRange")),
                (4, (lambda: do_remove_range(limit=rng.choice([1, 1, 2, 5]))) if narrow and rng.random() < 0.7 else do_remove_range),
                (4, do_remove_rank), (1, lambda: line("dump"))]
        x = rng.random() * sum(w for w, _ in acts)
        for w, f in acts:
            x -= w
            if x < 0:
                f()
                break
    return ops[:n_ops]


def skiplist_corners(rng):
    """arguments outside what SortedSet passes: NaN bounds / NaN scores in queries and removals, rank 0 and beyond, wrong
    scores in getRank, limits; on small lists of random heights (the witnesses of FINDINGS.md F-A1..F-A3 are among them)"""
    nan, pinf, ninf = "7ff8000000000000", fbits(float("inf")), fbits(float("-inf"))
    pool = [fbits(x) for x in (-1, -0.0, 0.0, 1, 1, 2, 5)] + [pinf, ninf]
    ops = []
    for rnd in range(12):
        ops.append("sl new")
        ms = [hx(b"m"), hx(b"x"), hx(b""), hx(b"a"), hx(b"ab")][:rng.randrange(1, 6)]
        for m in ms:
            ops.append(f"sl insert {m} {rng.choice(pool)}")
        for a in pool[:4] + [nan, pinf, ninf]:
            for b in (nan, fbits(1), pinf):
                ops += [f"sl hasInRange {a} {b}", f"sl getFirstInRange {a} {b}", f"sl getLastInRange {a} {b}", f"sl getLastInRange {b} {a}"]
        for m in ms + [hx(b"zz")]:
            for sc in (fbits(5), fbits(-1), nan, fbits(1)):
                ops.append(f"sl getRank {m} {sc}")
        for r in range(-1, len(ms) + 3):
            ops.append(f"sl getByRank {r}")
        ops += [f"sl removeRange {nan} {fbits(1)} 0 {rnd % 4}", f"sl removeRange {fbits(0)} {nan} 1 {rnd % 4}", f"sl remove {ms[0]} {nan}",
                f"sl removeRangeByRank 0 0", f"sl removeRangeByRank -5 1", f"sl removeRange {ninf} {nan} -3 0", "sl dump"]
    return ops

SLZ_QUERIES = True      # the ordered queries (ZRange, ZCount, ZRangeByScore ...) of the slz ops: same condition
SLZ_ENABLED = True      # the model side of the slz ops (Driver) must exist before these streams run


def skiplist_zset_stream(rng, n_ops, max_members):
    """Op lines (`slz ...`) for one real SortedSet driven through its exported methods; its skiplist
    is dumped after every mutating call. A Python-side copy only steers the generation."""
    pool = [b"m%03d" % i for i in range(max_members * 2)] + [b"", b"a", b"aa", b"ab", b"aaa", b"b", b"m", b"m0"]
    cur = []            # sorted [(score, member)]
    where = {}          # member -> score
    ops = ["slz new"]

    def sc():
        return rng.choice(SL_SCORES)

    def line(*toks):
        ops.append("slz " + " ".join(str(t) for t in toks))

    def absent():
        for _ in range(8):
            m = rng.choice(pool)
            if m not in where:
                return m
        for m in pool:
            if m not in where:
                return m
        return None

    def present():
        return rng.choice(cur)[1]

    def drop(lo, hi):
        for _, m in cur[lo:hi]:
            del where[m]
        del cur[lo:hi]

    def forget(m):
        if m in where:
            i = bisect.bisect_left(cur, (where[m], m))
            drop(i, i + 1)

    def do_zadd(existing):
        if existing and cur:
            m = present()
            old = where[m]
            r = rng.random()
            if r < 0.15:
                s = old                                  # same score: nothing changes
            elif r < 0.30 and old == 0:
                s = -old                                 # the other zero: equal, nothing changes
            else:
                s = sc()                                 # remove + insert
            if s != old:
                forget(m)
                where[m] = s
                bisect.insort(cur, (s, m))
        else:
            m = absent()
            if m is None:
                return do_zrem()
            s = sc()
            where[m] = s
            bisect.insort(cur, (s, m))
        line("ZAdd", hx(m), fbits(s))

    def do_zrem():
        ms = []
        for _ in range(rng.choice([1, 1, 2, 3])):
            if cur and rng.random() < 0.75:
                ms.append(present())
            else:
                ms.append(absent() or b"zz")
        if len(ms) > 1 and rng.random() < 0.15:
            ms[-1] = ms[0]                               # the same member twice
        for m in ms:
            forget(m)
        line("ZRem", *[hx(m) for m in ms])

    def do_zrank():
        m = present() if cur and rng.random() < 0.7 else (absent() or b"zz")
        line("ZRank", hx(m))

    def span(a, b, mode):
        i = 0
        while i < len(cur) and (cur[i][0] <= a if mode & 1 else cur[i][0] < a):
            i += 1
        j = i
        while j < len(cur) and (cur[j][0] < b if mode & 2 else cur[j][0] <= b):
            j += 1
        return i, j

    def score_bounds():
        r = rng.random()
        if r < 0.45:
            a = b = rng.choice(SL_SORTED)
        elif r < 0.75:
            i = rng.randrange(len(SL_SORTED) - 1)
            a, b = SL_SORTED[i], SL_SORTED[i + 1]
        elif r < 0.80:
            a, b = NINF, PINF
        else:
            a, b = sc(), sc()
        if a == 0 and rng.random() < 0.5:
            a = -0.0
        if b == 0 and rng.random() < 0.5:
            b = -0.0
        return a, b, rng.choice([0, 0, 0, 1, 2, 3])

    def do_byscore(small):
        a, b, mode = score_bounds()
        if small:
            # while the set grows: of a few candidates the one that removes least (but something, if possible)
            cands = [(a, b, mode)] + [score_bounds() for _ in range(5)]
            def cost(c):
                i, j = span(*c)
                return (j - i == 0, j - i)
            a, b, mode = min(cands, key=cost)
        i, j = span(a, b, mode)
        drop(i, j)
        line("ZRemRangeByScore", fbits(a), fbits(b), mode)

    def do_byrank():
        n = len(cur)
        k = rng.choice([1, 2, 3])
        start, stop = rng.choice([
            (0, k - 1), (-k, -1), (0, 1), (-2, -1), (1, 3), (rng.randint(0, n), rng.randint(-1, n)),
            (n, n + 2), (n - 1, n + 5), (-n - 3, 0), (2, 1), (-1, -2), (rng.randint(0, max(0, n - 1)),) * 2,
        ])
        a, b = start, stop
        if a < 0:
            a = max(0, n + a)
        if b < 0:
            b = n + b
        if b >= n:
            b = n - 1
        if not (a > b or a >= n):
            drop(a, b + 1)
        line("ZRemRangeByRank", start, stop)

    def do_query():
        n = len(cur)
        r = rng.random()
        if r < 0.40:
            # rank windows around both ends; in this code base ranks are 1-based with 0 an alias of 1,
            # and some windows panic (known finding A-41): the model follows that
            k = rng.choice([1, 2, 3])
            start, stop = rng.choice([
                (0, -1), (0, k), (1, k), (0, 0), (1, 1), (n - k, n), (n, n), (n, n + 3), (n + 1, n + 2), (n + 2, n + 5),
                (-k, -1), (-1, -1), (-n, -1), (-n - 2, -1), (-3, 2), (2, 1), (3, -5), (0, -n - 1), (k, -k),
                (rng.randint(-2, n + 2), rng.randint(-n - 2, n + 2)), (rng.randint(0, n + 1), rng.randint(-1, n + 1)),
            ])
            line(rng.choice(["ZRange", "ZRevRange"]), start, stop)
        elif r < 0.60:
            a, b, mode = score_bounds() if rng.random() < 0.6 else (sc(), sc(), rng.randrange(4))
            line("ZCount", fbits(a), fbits(b), rng.randrange(4) if rng.random() < 0.5 else mode)
        else:
            a, b, mode = score_bounds() if rng.random() < 0.6 else (sc(), sc(), rng.randrange(4))
            if rng.random() < 0.5:
                mode = rng.randrange(4)
            line(rng.choice(["ZRangeByScore", "ZRevRangeByScore"]), fbits(a), fbits(b),
                 rng.choice([0, 0, 0, 1, 2, 5]), rng.choice([-1, -1, 0, 1, 2, 10]), mode)

    growing = True
    target = max_members
    while len(ops) < n_ops:
        if SLZ_QUERIES and rng.random() < 0.20:
            do_query()
            continue
        n = len(cur)
        if growing and n >= max_members * 9 // 10:
            growing = False
        if not growing and rng.random() < 0.01:
            target = rng.randint(0, max_members)
        if not growing and n < max_members // 4 and rng.random() < 0.02:
            growing = True                               # whole score classes go at once: regrow from time to time
        room = n < max_members
        # share of ZAdd on new members: high while growing, low above the drifting target
        p_new = 0.0 if not room else (0.9 if growing else (0.5 if n < target else 0.15))
        x = rng.random() * 100
        if growing and room and x >= 55 and rng.random() < 0.45:
            x = 0                                        # growing: more ZAdd than in the steady mix
        if x < 55:
            do_zadd(existing=rng.random() >= p_new)
        elif x < 70:
            do_zrem()
        elif x < 80:
            do_zrank()
        elif x < 88:
            do_byscore(small=growing and rng.random() < 0.85)
        elif x < 96:
            do_byrank()
        else:
            line("dump")
    return ops[:n_ops]


def run(ctx, proofs_ok):
    quick = ctx.tier == "quick"
    apicheck.run_streams(ctx, [
        {"label": "random sorted-set command streams (embedded API, memory backend)", "fams": ["zset", "zset", "zset", "key"],
         "n": (1500, 5000), "count": (4, 40)},
        {"label": "sorted-set streams with eviction passes, expiry and reopen (memory backend, deterministic clock)",
         "fams": ["zset", "zset", "key", "exp"], "n": (1200, 4000), "count": (2, 12), "ft": True,
         "events": {"gc": 0.08, "flush": 0.03, "reopen": 0.02, "sleep": 0.03}},
        {"label": "sorted-set streams on Pebble with eviction and reopen", "fams": ["zset", "zset", "key"],
         "n": (600, 3000), "count": (1, 6), "backend": "pebble", "events": {"gc": 0.08, "flush": 0.03, "reopen": 0.02}},
    ], extra=[("exhaustive short operation sequences over 3 members x 3 scores (incl. -0)", small_sequences(2 if quick else 3), False),
              ("exhaustive rank / score windows on sets of 0..4 members", windows(), False),
              ("400-member set: several skiplist levels, rank queries, range removals", big(ctx.rng), False)])
    if ctx.violations:
        return
    # score text: strconv.ParseFloat / FormatFloat('f',-1,64) against the model's decimal float text
    floattab.run(ctx, vlib.build_harness(ctx), vlib)
    if ctx.violations:
        return
    # the command layer (argument text, option words, replies) of the same families over the network protocol
    h = vlib.build_harness(ctx)
    # the pointer skiplist on its own against Model/Skiplist: the structure itself, not only the answers
    sizes = [200, 60, 12, 200] if quick else [200, 60, 12, 200, 30, 5, 400, 100, 12, 60, 200, 2]
    for i, mm in enumerate(sizes):
        ops = skiplist_stream(ctx.rng, 900 if quick else 4000, mm)
        if vlib.correspond_stream(ctx, h, ops, f"skiplist-{i}", "pointer skiplist: whole-structure comparison after every operation (levels, spans, backward, tail) against Model/Skiplist"):
            break
    if ctx.violations:
        return
    vlib.correspond_stream(ctx, h, skiplist_corners(ctx.rng), "skiplist-corners", "pointer skiplist outside the sorted set's preconditions: NaN bounds and scores, rank 0, wrong scores, limits (witnesses of the work-package findings F-A1..F-A3)")
    if ctx.violations:
        return
    if SLZ_ENABLED:
        sizes = [150, 20] if quick else [150, 20, 400, 5, 60, 150]
        for i, mm in enumerate(sizes):
            ops = skiplist_zset_stream(ctx.rng, 900 if quick else 4000, mm)
            if vlib.correspond_stream(ctx, h, ops, f"skiplist-zset-{i}", "pointer skiplist under the real SortedSet methods (ZAdd/ZRem/ZRemRangeBy…): whole-structure comparison against the pointer-level sorted-set model"):
                break
        if ctx.violations:
            return
    vlib.correspond_stream(ctx, h, bounds_table(), "bounds", "every by-score command x inclusive / exclusive marks on either bound x bounds exactly on members' scores (network protocol)")
    if ctx.violations:
        return
    apicheck.run_resp_streams(ctx, [
        {"label": "sorted-set commands over the network protocol (handlers: bounds with exclusive marks, LIMIT, option combinations) against the model", "fams": ['zs', 'zs', 'zs', 'keyspace'], "n": (2500, 8000), "count": (2, 16), "conns": 1},
        {"label": "GEO commands mixed with sorted-set commands on the same keys (GEOADD = ZADD of the geohash score: ZSCORE / ZRANGE / ZRANK on geo keys, GEOPOS / GEOHASH / GEODIST / GEORADIUS on sorted sets with arbitrary scores) against the model", "fams": ['geo', 'geo', 'zs', 'keyspace'], "n": (2500, 8000), "count": (1, 8), "conns": 1},
    ])
    # a second oracle that owes nothing to the model: the documented Redis semantics (bin/refredis.py)
    from checks import refcheck
    refcheck.run(ctx, "zzk", "sorted sets against the reference implementation of the documented semantics")
