"""C04 — sorted sets stay ordered; rank, range and score agree (correspondence part)."""
import itertools
import vlib
from checks import apicheck
from gen_api import fbits


def small_sequences(depth):
    """every sequence of `depth` ZADD/ZREM/ZINCRBY steps over 3 members x 3 scores, each followed by
    the full battery of ordered queries (VerifCheck of the real skiplist runs inside every dump)"""
    members = ["61", "62", "-"]
    scores = [fbits(1), fbits(2), fbits(-0.0)]
    steps = [f"ZAdd K {m} {s}" for m in members for s in scores] + [f"ZRem K {m}" for m in members] + [f"ZIncrBy K 61 {fbits(1)}"]
    ops = ["open a mem"]
    for n, seq in enumerate(itertools.product(steps, repeat=depth)):
        key = ("q%d" % n).encode().hex()
        for st in seq:
            ops.append("api " + st.replace("K", key))
        ops += [f"api ZRangeWithScores {key} 1 100", f"api ZCard {key}", f"api ZRank {key} 61", f"api ZRevRank {key} 62",
                f"api ZScore {key} -", f"api ZRangeByScoreWithScores {key} {fbits(0)} {fbits(2)} 0 -1 1",
                f"api ZCount {key} {fbits(1)} {fbits(2)} 2"]
    ops.append("dump")
    return ops


def windows():
    ops = ["open a mem"]
    for n in range(0, 5):
        key = ("w%d" % n).encode().hex()
        for i in range(n):
            ops.append(f"api ZAdd {key} {'%02x' % (0x61 + i)} {fbits(i // 2)}")
        for a in range(-(n + 2), n + 3):
            for b in range(-(n + 2), n + 3):
                ops += [f"api ZRange {key} {a} {b}", f"api ZRevRange {key} {a} {b}"]
        for a in range(-1, n + 1):
            for b in range(-1, n + 1):
                for mode in range(4):
                    ops += [f"api ZRangeByScore {key} {fbits(a)} {fbits(b)} 0 -1 {mode}", f"api ZCount {key} {fbits(a)} {fbits(b)} {mode}",
                            f"api ZRevRangeByScore {key} {fbits(a)} {fbits(b)} 1 2 {mode}"]
    i = 0
    for n in range(1, 5):
        for a in range(-(n + 1), n + 2):
            for b in range(-(n + 1), n + 2):
                i += 1
                key = ("r%d" % i).encode().hex()
                for j in range(n):
                    ops.append(f"api ZAdd {key} {'%02x' % (0x61 + j)} {fbits(j)}")
                ops += [f"api ZRemRangeByRank {key} {a} {b}", f"api ZRangeWithScores {key} 1 100", f"api Exists {key}"]
    ops.append("dump")
    return ops


def big(rng):
    """hundreds of members so that several skiplist levels are in play; rank queries + structure check"""
    ops = ["open a mem"]
    ms = list(range(400))
    rng.shuffle(ms)
    for m in ms:
        ops.append(f"api ZAdd 6269 {('m%03d' % m).encode().hex()} {fbits(rng.randrange(0, 40))}")
    for m in rng.sample(ms, 60):
        ops.append(f"api ZRank 6269 {('m%03d' % m).encode().hex()}")
        ops.append(f"api ZRevRank 6269 {('m%03d' % m).encode().hex()}")
    for m in rng.sample(ms, 150):
        ops.append(rng.choice([f"api ZRem 6269 {('m%03d' % m).encode().hex()}", f"api ZAdd 6269 {('m%03d' % m).encode().hex()} {fbits(rng.randrange(0, 40))}",
                               f"api ZIncrBy 6269 {('m%03d' % m).encode().hex()} {fbits(rng.randrange(-5, 5))}"]))
    ops += ["api ZRemRangeByRank 6269 10 60", f"api ZRemRangeByScore 6269 {fbits(5)} {fbits(9)} 1", "api ZCard 6269", "api ZRangeWithScores 6269 1 1000", "dump"]
    for m in rng.sample(ms, 40):
        ops.append(f"api ZRank 6269 {('m%03d' % m).encode().hex()}")
    return ops


def bounds_table():
    """every by-score command x inclusive / exclusive marks on either bound x bounds that sit exactly on
    members' scores (and between them), with LIMIT and WITHSCORES variants, over the network protocol"""
    from gen_api import hx
    c = lambda *a: "resp c1 " + " ".join(hx(x) for x in a)
    ops = ["open a mem", "conn c1"]
    fill = c("ZADD", "bz", "1", "a", "2", "b", "3", "c", "4", "d", "4", "e", "-1", "n")
    ops.append(fill)
    for lo in ("1", "2", "1.5", "-inf", "-1"):
        for hi in ("3", "4", "3.5", "+inf", "1"):
            for el in ("", "("):
                for eh in ("", "("):
                    L, H = el + lo, eh + hi
                    ops += [c("ZRANGEBYSCORE", "bz", L, H), c("ZREVRANGEBYSCORE", "bz", H, L), c("ZCOUNT", "bz", L, H),
                            c("ZRANGE", "bz", L, H, "BYSCORE"), c("ZRANGE", "bz", H, L, "BYSCORE", "REV"),
                            c("ZRANGEBYSCORE", "bz", L, H, "LIMIT", "1", "2"), c("ZREVRANGEBYSCORE", "bz", H, L, "WITHSCORES", "LIMIT", "1", "2"),
                            c("ZRANGE", "bz", H, L, "BYSCORE", "REV", "LIMIT", "0", "1", "WITHSCORES"),
                            c("ZREMRANGEBYSCORE", "bz", L, H), c("ZRANGE", "bz", "1", "100", "WITHSCORES"), c("DEL", "bz"), fill]
    ops.append("dump")
    return ops


def run(ctx, proofs_ok):
    quick = ctx.tier == "quick"
    apicheck.run_streams(ctx, [
        {"label": "random sorted-set command streams (embedded API, memory backend)", "fams": ["zset", "zset", "zset", "key"],
         "n": (1500, 5000), "count": (4, 40)},
        {"label": "sorted-set streams with eviction passes, expiry and reopen (memory backend, deterministic clock)",
         "fams": ["zset", "zset", "key", "exp"], "n": (1200, 4000), "count": (2, 12), "ft": True,
         "events": {"gc": 0.08, "flush": 0.03, "reopen": 0.02, "sleep": 0.03}},
        {"label": "sorted-set streams on Pebble with eviction and reopen", "fams": ["zset", "zset", "key"],
         "n": (600, 3000), "count": (1, 6), "backend": "pebble", "events": {"gc": 0.08, "flush": 0.03, "reopen": 0.02}},
    ], extra=[("exhaustive short operation sequences over 3 members x 3 scores (incl. -0)", small_sequences(2 if quick else 3), False),
              ("exhaustive rank / score windows on sets of 0..4 members", windows(), False),
              ("400-member set: several skiplist levels, rank queries, range removals", big(ctx.rng), False)])
    if ctx.violations:
        return
    # the command layer (argument text, option words, replies) of the same families over the network protocol
    vlib.correspond_stream(ctx, vlib.build_harness(ctx), bounds_table(), "bounds", "every by-score command x inclusive / exclusive marks on either bound x bounds exactly on members' scores (network protocol)")
    if ctx.violations:
        return
    apicheck.run_resp_streams(ctx, [
        {"label": "sorted-set commands over the network protocol (handlers: bounds with exclusive marks, LIMIT, option combinations) against the model", "fams": ['zs', 'zs', 'zs', 'keyspace'], "n": (2500, 8000), "count": (2, 16), "conns": 1},
        {"label": "GEO commands mixed with sorted-set commands on the same keys (GEOADD = ZADD of the geohash score: ZSCORE / ZRANGE / ZRANK on geo keys, GEOPOS / GEOHASH / GEODIST / GEORADIUS on sorted sets with arbitrary scores) against the model", "fams": ['geo', 'geo', 'zs', 'keyspace'], "n": (2500, 8000), "count": (1, 8), "conns": 1},
    ])
