"""C19 — a full SCAN/SSCAN/HSCAN/ZSCAN iteration returns every element and terminates.

`scanall` follows the returned cursor from 0 until 0 comes back (harness: real server over RESP;
driver: the model's handlers). Besides model ≈ implementation, the implementation's own result is
checked directly: the union of the batches must equal the collection's content (KEYS / SMEMBERS /
HKEYS / ZRANGE) filtered by the pattern, and the number of calls must be bounded by size/COUNT + 2."""
import fnmatch, math
import vlib
from checks import apicheck
from gen_api import hx, fbits


def build(sizes, counts, patterns):
    c = lambda *a: "resp c1 " + " ".join(hx(x) if isinstance(x, (bytes, str)) else x for x in a)
    ops = ["open a mem", "conn c1"]
    expect = []       # (index of scanall line, kind, names, pattern, count)
    for n in sizes:
        names = [("m%04d" % i if i % 3 else "x%04d" % i).encode() for i in range(n)]
        for kind, key in (("SSCAN", b"set%d" % n), ("HSCAN", b"hash%d" % n), ("ZSCAN", b"zset%d" % n)):
            for i in range(0, n, 200):
                chunk = names[i:i + 200]
                if kind == "SSCAN":
                    ops.append(c("SADD", key, *chunk))
                elif kind == "HSCAN":
                    ops.append(c("HSET", key, *[x for m in chunk for x in (m, b"v")]))
                else:
                    ops.append(c("ZADD", key, *[x for j, m in enumerate(chunk) for x in (str((i + j) % 7).encode(), m)]))
            for cnt in counts:
                for pat in patterns:
                    line = ["scanall", "c1", hx(kind), hx(key), "CUR"]
                    if pat is not None:
                        line += [hx("MATCH"), hx(pat)]
                    if cnt is not None:
                        line += [hx("COUNT"), hx(str(cnt))]
                    expect.append((len(ops), kind, names, pat, cnt, n))
                    ops.append(" ".join(line))
        # keyspace SCAN over n string keys (fresh instance part: flush first)
    for n in sizes:
        ops.append(c("FLUSHDB"))
        names = [("k%04d" % i if i % 3 else "y%04d" % i).encode() for i in range(n)]
        for i in range(0, n, 100):
            ops.append(c("MSET", *[x for m in names[i:i + 100] for x in (m, b"v")]))
        if n:
            ops.append(c("RPUSH", b"zzlist", b"a"))
        for cnt in counts:
            for pat in patterns:
                for typ in (None, b"string", b"list"):
                    line = ["scanall", "c1", hx("SCAN"), "CUR"]
                    if pat is not None:
                        line += [hx("MATCH"), hx(pat)]
                    if cnt is not None:
                        line += [hx("COUNT"), hx(str(cnt))]
                    if typ is not None:
                        line += [hx("TYPE"), hx(typ)]
                    allnames = names + ([b"zzlist"] if n else [])
                    want = [m for m in allnames if typ is None or (typ == b"list") == (m == b"zzlist")]
                    expect.append((len(ops), "SCAN", want, pat, cnt, len(allnames)))
                    ops.append(" ".join(line))
    return ops, expect


def direct(ctx, ops, g, expect):
    checked = 0
    for (i, kind, names, pat, cnt, n) in expect:
        if i >= len(g):
            break
        out = g[i]
        want = sorted(m for m in names if pat is None or fnmatch.fnmatchcase(m.decode(), pat))
        fields = dict(f.split("=", 1) for f in out.split() if "=" in f)
        checked += 1
        eff = 10 if cnt is None else cnt
        bound = (n // max(eff, 1)) + 2 if eff > 0 else n + 2
        problem = None
        if "!" in out or "calls" not in fields:
            problem = "iteration failed: " + out[:100]
        elif fields.get("last") != "0":
            problem = "iteration did not terminate with cursor 0"
        elif int(fields["calls"]) > bound:
            problem = f"{fields['calls']} calls for {n} elements with COUNT {eff} (bound {bound})"
        else:
            mult = 2 if kind in ("HSCAN", "ZSCAN") else 1
            if int(fields["n"]) != mult * len(want):
                problem = f"returned {fields['n']} items, expected {mult * len(want)} (every matching element exactly once)"
            elif not fields["elems"].startswith("#") and kind in ("SSCAN", "SCAN"):
                got = sorted(bytes.fromhex(x) for x in fields["elems"].split(",") if x and x != "-")
                if got != want:
                    problem = "returned element set differs from the collection's content"
        if problem:
            vlib.record_violation(ctx, "scan-incomplete", {"ops": [o for o in ops[:i] if o.startswith(("open", "conn"))] + ["# (setup omitted)", ops[i]], "impl": [out], "model": [],
                                                           "problem": problem, "explain": "a full cursor iteration on the implementation did not return exactly the collection's matching elements within the call bound"})
            return
    ctx.cov["full_iterations_checked_on_impl"] = checked


def between_passes():
    """keys that pass their deadline BETWEEN two eviction passes: every scan form (plain, TYPE-filtered, every COUNT) must
    already leave them out - and list them again once they have been re-created - whatever the last pass saw"""
    from gen_api import NOW0, hx
    ops = ["open a mem"]
    now = NOW0
    for rnd in range(3):
        for i in range(6):
            k = hx(b"dying%d" % i)
            ops += [f"api Set {k} 76 0" if i % 2 == 0 else f"api SAdd {k} 61", f"api ExpireAt {k} {now + 400 + i}"]
        ops += [f"api Set {hx(b'stay')} 76 0", f"api SAdd {hx(b'stays')} 61", "gc"]
        scans = [f"api Scan 0 2a {cnt} {typ}" for cnt in (10, 1, 3, 100) for typ in (0, 1, 3)] + ["api Keys 2a", "api Exists " + " ".join(hx(b"dying%d" % i) for i in range(6))]
        ops += scans + ["sleep 399"] + scans + ["sleep 3"] + scans + ["sleep 1000"] + scans + ["gc"] + scans
        now += 1402
    ops.append("dump")
    return ops


def run(ctx, proofs_ok):
    quick = ctx.tier == "quick"
    sizes = [0, 1, 2, 9, 10, 11, 100] + ([] if quick else [3000])
    counts = [None, 1, 3, 10, 11, 100, 5000] if not quick else [None, 1, 3, 10, 100]
    # patterns without * or ? too: an exact name, character classes (a literal-looking pattern is still a pattern)
    patterns = [None, "*", "m*", "x*9", "nomatch*", "m000[12]", "[mk]0001", "m0001", "?000[1-4]"]
    ops, expect = build(sizes, counts, patterns)
    apicheck.run_resp_streams(ctx, [
        {"label": "keyspace / hash / set / sorted-set commands incl. the scan commands with random cursors", "fams": ["keyspace", "zs", "sets", "hashes", "strings"],
         "n": (2500, 8000), "count": (2, 20), "conns": 1},
    ], extra=[("full cursor iterations: sizes x COUNT x MATCH x TYPE for SCAN, SSCAN, HSCAN, ZSCAN", ops)])
    try:
        g = open(f"{ctx.work}/ex-full.g").read().split("\n")
        direct(ctx, ops, g, expect)
    except FileNotFoundError:
        pass
    if ctx.violations:
        return
    # hot / cold / reopened: API level streams with eviction and reopen over TYPE-filtered scans
    apicheck.run_streams(ctx, [
        {"label": "SCAN (TYPE-filtered) / HScan / SScan / ZScan through the API with eviction passes and reopen (memory, deterministic clock)",
         "fams": ["key", "key", "hash", "set", "zset", "str", "exp"], "n": (2000, 6000), "count": (2, 12), "ft": True,
         "events": {"gc": 0.1, "reopen": 0.03, "sleep": 0.03}},
        {"label": "the same on Pebble", "fams": ["key", "key", "hash", "set", "zset", "str"], "n": (800, 3000), "count": (1, 6), "backend": "pebble",
         "events": {"gc": 0.1, "reopen": 0.03}},
    ], extra=[("keys whose deadline passes between two eviction passes, seen by every scan form (deterministic clock)", between_passes(), True)])


_run_sequential = run


def run(ctx, proofs_ok):
    _run_sequential(ctx, proofs_ok)
    if ctx.violations:
        return
    # iterations while other clients keep using the very keys being scanned (and eviction runs)
    from checks import conc
    q = ctx.tier == "quick"
    conc.run_scenarios(ctx, [("scan-concurrent", 400 if q else 4000, w) for w in ((0, 25) if q else (0, 10, 30, 60))],
                       "full SCAN / SSCAN iterations while other clients read and write the scanned keys", prog_replay=False)
