"""The float text table: strconv.FormatFloat(x,'f',-1,64) / strconv.ParseFloat against Model/FloatDec.lean.

`fmtfloat <bits>`: text of the double and the parse of that text; `parsefloat <hex text>`: value and its text, or E.
Every random choice comes from the rng handed in."""
import struct


def bits(x):
    return struct.unpack(">Q", struct.pack(">d", x))[0]


def hx(s):
    return (s.encode() if isinstance(s, str) else s).hex() or "-"


FIXED_TEXT = [
    "0", "-0", "+0", "0.0", "-0.0", ".0", "0.", ".", "", "+", "-", "e5", "1e", "1e+", "1e-", "+.e1", ".e1", "1.e1", "1.2.3", "1..2",
    "0.1", "1e-3", "3.0e3", "-.5", "+.5", "5.", "-5.", "1e400", "-1e400", "1e-400", "-1e-400", "0.1e1", "1E5", "1e+5", "1e05", "1e005",
    "00012", "000.5", "0.000", "0e0", "0e99999999999", "1e99999999999", "1e-99999999999", "0.0000001e10000", "1e10000", "1e9999", "1e-9999",
    "1e309", "1e308", "1.7976931348623157e308", "1.7976931348623158e308", "1.7976931348623159e308", "17976931348623158e292",
    "179769313486231580793728971405303415079934132710037826936173778980444968292764750946649017977587207096330286416692887910946555547851940402630657488671505820681908902000708383676273854845817711531764475730270069855571366959622842914819860834936475292719074168444365510704342711559699508093042880177904174497791.9999999999999999999999999999999999999999999999999999999999999999999999",
    "179769313486231580793728971405303415079934132710037826936173778980444968292764750946649017977587207096330286416692887910946555547851940402630657488671505820681908902000708383676273854845817711531764475730270069855571366959622842914819860834936475292719074168444365510704342711559699508093042880177904174497792",
    "4.9e-324", "5e-324", "2.4703282292062327e-324", "2.4703282292062328e-324", "2.4703282292062327208051355972538847e-324", "2.4703282292062327208051355972539e-324",
    "2.2250738585072014e-308", "2.2250738585072011e-308", "2.225073858507201e-308", "2.2250738585072012e-308", "2.2250738585072009e-308",
    "9007199254740992", "9007199254740993", "9007199254740994", "9007199254740995", "9007199254740993.0", "9007199254740993.00000000000000000000000001", "9007199254740992.9999999",
    "9007199254740993e0", "900719925474099.3e1", "0.30000000000000004", "0.1e-0", "123456789012345678", "1234567890123456789", "12345678901234567890", "123456789012345678901234567890",
    "1e22", "1e23", "8.41e21", "1.00000000000000011102230246251565404236316680908203125", "1.00000000000000011102230246251565404236316680908203124", "1.00000000000000011102230246251565404236316680908203126",
    "1.00000000000000033306690738754696212708950042724609375", "inf", "+inf", "-inf", "Inf", "INF", "infinity", "-Infinity", "+INFINITY", "infinit", "infinityx", "in", "i", "nan", "NaN", "NAN", "+nan", "-nan", "nanx", "n", "na",
    "1_000", "1_0.5", "1e1_0", "_1", "1_", "1__0", "1_.5", "1._5", "1.5_", "1_e5", "1e_5", "1e5_", "+_1", "0_1", "0_x1", "1e+_5", "1_2_3.4_5e6_7", "-1_0",
    "0x", "0X", "0x1", "0x1p3", "0X.8p1", "0x_1p0", "-0x1p-2", "0b1", "0o7", "1x", "1 ", " 1", "1e5 ", "1,5", "1e5.5", "--1", "+-1", "1-", "1e--5", "١", "1\x00", "12abc", "1d5", "1f", "0e", ".5e", "5.e-", "3.14e+0002",
    "1" + "0" * 400, "0." + "0" * 400 + "1", "1" * 800, "1" * 801, "0" * 900 + "1", "1" + "0" * 900, "0." + "9" * 799, "0." + "9" * 800, "1" * 300 + "e-300",
]


def boundary_doubles():
    out = [0, 1 << 63, 1, 2, 3, (1 << 52) - 1, 1 << 52, (1 << 52) + 1, 0x7FEFFFFFFFFFFFFF, 0x7FEFFFFFFFFFFFFE, 0x7FF0000000000000, 0xFFF0000000000000,
           0x7FF8000000000001, 0xFFF8000000000000, 0x7FF0000000000001, 0x000FFFFFFFFFFFFF, 0x0010000000000000, 0x0010000000000001, 0x8000000000000001, 0xFFEFFFFFFFFFFFFF]
    for e in range(1, 2047, 1):                       # every binade: the power of two and its neighbours
        b = e << 52
        out += [b, b - 1, b + 1]
    for p in range(-330, 310):                        # powers of ten (as Python rounds them: correctly) and neighbours
        try:
            b = bits(float(f"1e{p}"))
        except OverflowError:
            continue
        out += [b, b + 1, max(b - 1, 0)]
    for k in range(0, 54):                            # integers around 2^k, 2^53
        for d in (-1, 0, 1):
            out.append(bits(float((1 << k) + d)))
    for s in ("0.1", "0.2", "0.3", "0.30000000000000004", "1.5", "2.5", "1e21", "1e20", "123456.789", "5e-324", "1e-7", "0.000001", "9007199254740993", "1e23", "8.41e21", "2.2250738585072014e-308"):
        out.append(bits(float(s)))
    return out


def table(rng, n_random, n_text):
    ops = []
    seen = set()
    for b in boundary_doubles():
        b &= (1 << 64) - 1
        if b not in seen:
            seen.add(b)
            ops.append("fmtfloat %016x" % b)
    for _ in range(n_random):
        r = rng.random()
        if r < 0.55:
            b = rng.getrandbits(64)                                           # any bit pattern
        elif r < 0.7:
            b = (rng.randrange(0, 2) << 63) | rng.getrandbits(52)            # subnormals
        elif r < 0.85:
            b = bits(float(rng.randrange(-10**rng.randrange(1, 18), 10**rng.randrange(1, 18))) / 10 ** rng.randrange(0, 12))   # short decimals
        else:
            b = bits(rng.uniform(-1, 1) * 10 ** rng.randrange(-20, 25))
        ops.append("fmtfloat %016x" % b)
    for t in FIXED_TEXT:
        ops.append("parsefloat " + hx(t))
    for _ in range(n_text):
        ops.append("parsefloat " + hx(random_text(rng)))
    return ops


def random_text(rng):
    r = rng.random()
    if r < 0.3:
        # well-formed decimal: digits, optional point, optional exponent
        nd = rng.choice([1, 2, 3, 8, 15, 16, 17, 18, 19, 20, 21, 25, 40])
        ds = "".join(rng.choice("0123456789") for _ in range(nd))
        if rng.random() < 0.6:
            p = rng.randrange(0, nd + 1)
            ds = ds[:p] + "." + ds[p:]
        if rng.random() < 0.5:
            ds += rng.choice("eE") + rng.choice(["", "+", "-"]) + str(rng.choice([0, 1, 2, 5, 10, 22, 23, 100, 290, 300, 308, 309, 310, 323, 324, 325, 340, 400, 5000]))
        return rng.choice(["", "", "-", "+"]) + ds
    if r < 0.5:
        # exactly halfway (or one digit off) between two adjacent doubles: exact decimal expansion of (2m+1) * 2^(e-1)
        m = rng.getrandbits(52) | (1 << 52)
        e = rng.randrange(-1074, 200)
        num = 2 * m + 1
        if e - 1 >= 0:
            s = str(num << (e - 1))
        else:
            k = -(e - 1)
            v = num * 5 ** k                      # value = v / 10^k
            s = str(v).rjust(k + 1, "0")
            s = s[:-k] + "." + s[-k:]
        if len(s) > 790:
            return "1e-320"
        t = rng.random()
        if t < 0.4:
            return s
        if t < 0.7:
            return s + rng.choice(["0", "1", "0000000000001"])     # just above
        # just below: decrement the last digit (never 0: the expansion ends in 5 or is an odd integer)
        return s[:-1] + chr(ord(s[-1]) - 1) + rng.choice(["", "9", "9999999999"])
    if r < 0.7:
        # near the shortest text of a random double, perturbed in the last digit
        x = struct.unpack(">d", struct.pack(">Q", rng.getrandbits(64) & ~(0x7FF << 52) | (rng.randrange(1, 2046) << 52)))[0]
        s = repr(x)
        return s if rng.random() < 0.5 else s.replace("e", rng.choice(["e", "E", "e+", "e0"]), 1)
    if r < 0.85:
        # byte soup from the float alphabet
        return "".join(rng.choice("0123456789.eE+-_xXpinfaINFAN ") for _ in range(rng.randrange(0, 9)))
    # mutations of fixed texts
    s = rng.choice(FIXED_TEXT)
    if s and rng.random() < 0.7:
        i = rng.randrange(len(s))
        s = s[:i] + rng.choice(["", "_", ".", "e", "0", "5", "-", "+", "x"]) + s[i + rng.randrange(0, 2):]
    return s


def run(ctx, harness, vlib):
    """every line is an independent case; lines the model declares outside (hex floats, more than 800 significant
    digits) are counted, not compared"""
    quick = ctx.tier == "quick"
    label = ("float text table: FormatFloat('f',-1) of bit patterns (every binade +-1 ulp, powers of ten, subnormals, random) and "
             "ParseFloat of decimal text (syntax, halfway cases, range) against the model")
    ops = table(ctx.rng, 14000 if quick else 150000, 5000 if quick else 60000)
    bad = outside = 0
    for i in range(0, len(ops), 50000):
        chunk = ops[i:i + 50000]
        g, m = vlib.run_pair(ctx, chunk, harness, f"floattext{i // 50000}")
        ctx.cov["evaluations"] += len(chunk)
        for j, op in enumerate(chunk):
            a = g[j] if j < len(g) else "<missing>"
            b = m[j] if j < len(m) else "<missing>"
            if b == "OUTSIDE":
                outside += 1
            elif a != b:
                bad += 1
                if bad <= 5:
                    vlib.record_violation(ctx, "correspondence", {"ops": [op], "impl": [a], "model": [b], "stream": label,
                                                                  "explain": "strconv (ParseFloat / FormatFloat) and the model's decimal float text disagree on this input"})
            else:
                ctx.nontrivial.add(("floattext", op.split()[0], a[:1] if a == "E" else "ok"))
        if len(ctx.cov["samples"]) < 6 and chunk:
            k = ctx.rng.randrange(len(chunk))
            ctx.cov["samples"].append({"op": chunk[k][:300], "impl": (g[k] if k < len(g) else "")[:300], "model": (m[k] if k < len(m) else "")[:300]})
    ctx.cov["streams"][label] = len(ops)
    ctx.cov["float_text_outside_model"] = outside
    return bad
