"""Table-driven API-level correspondence checks (C01-C04, C10-C12, C19)."""
import os, shutil
import vlib, gen_api


def run_streams(ctx, streams, extra=None):
    """streams: list of dicts {label, fams, n:(quick,thorough), count:(quick,thorough), events, backend, ft}"""
    quick = ctx.tier == "quick"
    h = vlib.build_harness(ctx)
    need_ft = any(s.get("ft") for s in streams) or any(f.get("witness", {}).get("faketime") for f in vlib.load_findings(ctx.pid))
    hft = vlib.build_harness(ctx, faketime=True) if need_ft else None
    # 1. corpus (witnesses of repaired defects, minimised past failures)
    for suffix, harness in (("ops", h), ("ft.ops", hft)):
        ops = vlib.corpus_ops(ctx.pid, suffix)
        if ops and harness:
            # corpus files hold several sequences separated by lines "---"
            seqs, cur = [], []
            for l in ops:
                if l == "---":
                    seqs.append(cur); cur = []
                else:
                    cur.append(l)
            if cur:
                seqs.append(cur)
            for i, seq in enumerate(seqs):
                vlib.correspond_stream(ctx, harness, seq, f"corpus{suffix[0]}{i}", "corpus: witnesses of repaired defects and past failures", shrink=False)
    # 2. known findings
    vlib.replay_known_findings(ctx, h, hft)
    # 3. exhaustive / hand-built streams
    for label, ops, ft in (extra or []):
        vlib.correspond_stream(ctx, hft if ft else h, ops, "ex-" + label.split()[0], label)
    # 4. random streams
    for si, st in enumerate(streams):
        n = st["n"][0 if quick else 1]
        count = st["count"][0 if quick else 1]
        for i in range(count):
            pdir = f"{ctx.work}/pebble-{si}-{i}"
            shutil.rmtree(pdir, ignore_errors=True)
            open_line = f"open a pebble {pdir}" if st.get("backend") == "pebble" else "open a mem"
            ops = gen_api.stream(ctx.rng, st["fams"], n, events=st.get("events"), open_line=open_line,
                                 realtime=not st.get("ft"), dump_every=st.get("dump_every", 25))
            bad = vlib.correspond_stream(ctx, hft if st.get("ft") else h, ops, f"s{si}-{i}", st["label"])
            shutil.rmtree(pdir, ignore_errors=True)
            if bad:
                return


def run_resp_streams(ctx, streams, extra=None, corpus=True):
    """RESP-level streams over loopback TCP. streams: list of dicts
       {label, fams, n:(quick,thorough), count:(quick,thorough), conns, events}"""
    import gen_resp, gen_resp_lhs, gen_resp_zs, gen_resp_geo
    quick = ctx.tier == "quick"
    h = vlib.build_harness(ctx)
    families = dict(gen_resp_lhs.FAMILIES)
    families.update(gen_resp_zs.FAMILIES)
    families.update(gen_resp_geo.FAMILIES)
    if corpus:
        ops = vlib.corpus_ops(ctx.pid, "resp.ops")
        seqs, cur = [], []
        for l in ops:
            if l == "---":
                seqs.append(cur); cur = []
            else:
                cur.append(l)
        if cur:
            seqs.append(cur)
        for i, seq in enumerate(seqs):
            vlib.correspond_stream(ctx, h, seq, f"corpusr{i}", "corpus: witnesses of repaired defects and past failures", shrink=False)
    vlib.replay_known_findings(ctx, h, None)
    for label, ops in (extra or []):
        vlib.correspond_stream(ctx, h, ops, "ex-" + label.split()[0], label)
        if ctx.violations:
            return
    for si, st in enumerate(streams):
        n = st["n"][0 if quick else 1]
        count = st["count"][0 if quick else 1]
        conns = tuple(f"c{i+1}" for i in range(st.get("conns", 1)))
        for i in range(count):
            ops = gen_resp.stream(ctx.rng, st["fams"], n, conns=conns, events=st.get("events"), realtime=True, extra_families=families)
            if vlib.correspond_stream(ctx, h, ops, f"r{si}-{i}", st["label"]):
                return
