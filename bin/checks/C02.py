"""C02 — lists behave as exact sequences (correspondence part)."""
import vlib, gen_api


def exhaustive_ranges(maxlen=5):
    """every (start, stop) around every small length, for each range-taking command"""
    ops = ["open a mem"]
    for n in range(0, maxlen + 1):
        key = ("l%d" % n).encode().hex()
        if n:
            ops.append(f"api RPush {key} " + " ".join("%02x" % (0x61 + i) for i in range(n)))
        for a in range(-(n + 2), n + 3):
            for b in range(-(n + 2), n + 3):
                ops.append(f"api LRange {key} {a} {b}")
            ops.append(f"api LIndex {key} {a}")
    # LTRIM / LSET / LREM mutate: fresh key per case
    i = 0
    for n in range(1, maxlen):
        for a in range(-(n + 1), n + 2):
            for b in range(-(n + 1), n + 2):
                i += 1
                key = ("m%d" % i).encode().hex()
                ops.append(f"api RPush {key} " + " ".join("%02x" % (0x61 + j) for j in range(n)))
                ops.append(f"api LTrim {key} {a} {b}")
                ops.append(f"api LRange {key} 0 -1")
                ops.append(f"api LLen {key}")
                ops.append(f"api Exists {key}")
            key = ("n%d" % i).encode().hex()
            ops.append(f"api RPush {key} " + " ".join("%02x" % (0x61 + j % 2) for j in range(n)))
            ops.append(f"api LSet {key} {a} 7a")
            ops.append(f"api LRem {key} 61 {a}")
            ops.append(f"api LRange {key} 0 -1")
            ops.append(f"api LLen {key}")
    ops.append("dump")
    return ops


def run(ctx, proofs_ok):
    h = vlib.build_harness(ctx)
    quick = ctx.tier == "quick"
    vlib.correspond_stream(ctx, h, exhaustive_ranges(4 if quick else 6), "ranges", "exhaustive index pairs on lists of length 0..n")
    for i in range(4 if quick else 40):
        ops = gen_api.stream(ctx.rng, ["list", "list", "list", "list", "key"], 1500 if quick else 5000)
        if vlib.correspond_stream(ctx, h, ops, f"rand{i}", "random list command streams (embedded API, memory backend)"):
            break
