"""C02 — lists behave as exact sequences (correspondence part)."""
from checks import apicheck
import vlib


def exhaustive_ranges(maxlen):
    """every (start, stop) around every small length, for each range-taking command"""
    ops = ["open a mem"]
    for n in range(0, maxlen + 1):
        key = ("l%d" % n).encode().hex()
        if n:
            ops.append(f"api RPush {key} " + " ".join("%02x" % (0x61 + i) for i in range(n)))
        for a in range(-(n + 2), n + 3):
            for b in range(-(n + 2), n + 3):
                ops.append(f"api LRange {key} {a} {b}")
            ops.append(f"api LIndex {key} {a}")
    i = 0
    for n in range(1, maxlen):
        for a in range(-(n + 1), n + 2):
            for b in range(-(n + 1), n + 2):
                i += 1
                key = ("m%d" % i).encode().hex()
                ops.append(f"api RPush {key} " + " ".join("%02x" % (0x61 + j) for j in range(n)))
                ops.append(f"api LTrim {key} {a} {b}")
                ops.append(f"api LRange {key} 0 -1")
                ops.append(f"api LLen {key}")
                ops.append(f"api Exists {key}")
            key = ("n%d" % i).encode().hex()
            ops.append(f"api RPush {key} " + " ".join("%02x" % (0x61 + j % 2) for j in range(n)))
            ops.append(f"api LSet {key} {a} 7a")
            ops.append(f"api LRem {key} 61 {a}")
            ops.append(f"api LRange {key} 0 -1")
            ops.append(f"api LLen {key}")
    ops.append("dump")
    return ops


# ---------------------------------------------------------------------------------------------------
# the pointer structure itself (work package B): a bare list.LinkedList driven through every method,
# against Model/LinkedList.lean (heap of nodes, head / tail / prev / next / length); after every
# operation the reply and the whole structure (length field, forward walk, backward walk, head.prev /
# tail.next) are compared verbatim.

I64MAX = 2 ** 63 - 1
I64MIN = -2 ** 63


def _varint(n):
    u = (n << 1) ^ (n >> 63)
    out = []
    while u >= 0x80:
        out.append((u & 0x7f) | 0x80)
        u >>= 7
    out.append(u)
    return bytes(out)


def _shadow_rem(xs, count, v):
    if count == 0 or count == I64MIN:
        return [x for x in xs if x != v]
    if count > 0:
        out, k = [], 0
        for x in xs:
            if x == v and k < count:
                k += 1
            else:
                out.append(x)
        return out
    return _shadow_rem(xs[::-1], -count, v)[::-1]


def linked_list_stream(rng, n, maxlen=40):
    """random method sequence on one bare list; a shadow sequence only steers the generator (sizes,
    pivots that exist, indexes around the ends) — it is never compared with anything"""
    vals = ["61", "62", "63", "-", "6161", "00"]
    ops = ["ll new"]
    xs = []

    def val():
        return rng.choice(vals[:3]) if rng.random() < 0.7 else rng.choice(vals)

    def idx():
        ln = len(xs)
        r = rng.random()
        if r < 0.75:
            return rng.randint(-ln - 2, ln + 2)
        if r < 0.9:
            return rng.choice([0, -1, 1, ln, -ln, ln - 1, -ln - 1, ln + 1])
        return rng.choice([I64MAX, I64MIN, I64MIN + 1, I64MAX - 1, 2 ** 31, -2 ** 31, 2 ** 32, -2 ** 32 - 1])

    def count():
        ln = len(xs)
        r = rng.random()
        if r < 0.5:
            return rng.choice([0, 1, -1, 2, -2, 3, -3])
        if r < 0.8:
            return rng.choice([ln, -ln, ln + 1, -ln - 1, ln - 1, 1 - ln])
        return rng.choice([I64MAX, I64MIN, I64MIN + 1, I64MAX - 1])

    def norm(i, clamp0=False):
        if i < 0:
            i += len(xs)
            if clamp0 and i < 0:
                i = 0
        return i

    while len(ops) < n:
        ln = len(xs)
        r = rng.random()
        if ln > maxlen:
            r = 0.30 + 0.2 * rng.random()          # shrink: pops, trims, removals
        if r < 0.10 or (ln < 3 and r < 0.45):
            k = rng.choice([1, 1, 2, 3, 5]) if rng.random() < 0.9 else rng.randint(6, 12)
            d = [val() for _ in range(k)]
            if rng.random() < 0.03:
                d = []
            if rng.random() < 0.5:
                ops.append("ll LPush " + " ".join(d)); xs = d[::-1] + xs
            else:
                ops.append("ll RPush " + " ".join(d)); xs = xs + d
            ops[-1] = ops[-1].rstrip()
        elif r < 0.18:
            c = count() if rng.random() < 0.5 else rng.choice([1, 1, 2])
            k = max(0, min(c, ln))
            if rng.random() < 0.5:
                ops.append(f"ll LPop {c}"); xs = xs[k:]
            else:
                ops.append(f"ll RPop {c}"); xs = xs[:ln - k]
        elif r < 0.30:
            ops.append(f"ll LRange {idx()} {idx()}")
        elif r < 0.38:
            a, b = idx(), idx()
            if ln > maxlen // 2 or rng.random() < 0.5:
                pass
            else:                                  # keep most of a short list: wide windows
                a, b = rng.choice([0, 1, -ln, -ln - 1, I64MIN]), rng.choice([-1, -2, ln, ln - 2, I64MAX])
            ops.append(f"ll LTrim {a} {b}")
            s, e = norm(a), norm(b)
            xs = [x for i, x in enumerate(xs) if not (i < s or i > e)]
        elif r < 0.50:
            c, v = count(), val()
            ops.append(f"ll LRem {c} {v}"); xs = _shadow_rem(xs, c, v)
        elif r < 0.62:
            i = idx()
            ops.append(f"ll LIndex {i}")
        elif r < 0.72:
            i, v = idx(), val()
            ops.append(f"ll LSet {i} {v}")
            j = norm(i)
            if 0 <= j < ln:
                xs[j] = v
        elif r < 0.90:
            p, d, before = val(), val(), rng.random() < 0.5
            ops.append(f"ll LInsert {p} {d} {1 if before else 0}")
            if p in xs:
                j = xs.index(p)
                xs.insert(j if before else j + 1, d)
        elif r < 0.93:
            ops.append("ll LLen")
        elif r < 0.96:
            ops.append("ll Size")
        elif r < 0.98:
            ops.append("ll GetValue")
        else:
            # SetValue appends what a well-formed payload holds; a lone continuation byte ends the loop (n == 0)
            d = [val() for _ in range(rng.randint(0, 3))]
            payload = b"".join(_varint(len(bytes.fromhex(x) if x != "-" else b"")) + (bytes.fromhex(x) if x != "-" else b"") for x in d)
            if rng.random() < 0.3:
                payload += b"\x80"
            ops.append("ll SetValue " + (payload.hex() or "-")); xs = xs + d
    return ops


def linked_list_edges():
    """every index from -len-2 to len+2 and the counts 0, ±1, ±len, int64 extremes on lists of 0..4 nodes with duplicates"""
    ops = []
    for n in range(0, 5):
        build = ["ll new"] + ([("ll RPush " + " ".join("%02x" % (0x61 + j % 2) for j in range(n)))] if n else [])
        ext = [I64MAX, I64MIN, I64MIN + 1]
        rng_i = list(range(-n - 2, n + 3)) + ext
        ops += build
        for a in rng_i:
            ops.append(f"ll LIndex {a}")
            for b in rng_i:
                ops.append(f"ll LRange {a} {b}")
        for a in rng_i:
            ops += build + [f"ll LSet {a} 7a"]
            for v in ("61", "62", "7a"):
                ops += build + [f"ll LRem {a} {v}"]
            ops += build + [f"ll LPop {a}"] + build + [f"ll RPop {a}"]
            for b in rng_i:
                ops += build + [f"ll LTrim {a} {b}", "ll LPush 70", "ll RPush 71", "ll RPop 1", "ll LPop 1"]
        for p in ("61", "62", "7a"):
            for before in (0, 1):
                ops += build + [f"ll LInsert {p} 78 {before}", "ll LRem -1 78"]
    return ops


def run(ctx, proofs_ok):
    quick = ctx.tier == "quick"
    # the pointer structure of ds/list against Model/LinkedList.lean (whole structure after every operation)
    h = vlib.build_harness(ctx)
    vlib.correspond_stream(ctx, h, linked_list_edges(), "ll-edges",
                           "bare linked list: every index -len-2..len+2, counts 0, +-1, +-len, int64 extremes on lists of 0..4 nodes (pointer structure compared after every operation)")
    for i in range(8 if quick else 40):
        if ctx.violations:
            return
        vlib.correspond_stream(ctx, h, linked_list_stream(ctx.rng, 2500 if quick else 8000), f"ll-{i}",
                               "bare linked list: random method sequences, lists of 0..40 nodes with duplicates (pointer structure compared after every operation)")
    if ctx.violations:
        return
    apicheck.run_streams(ctx, [
        {"label": "random list command streams (embedded API, memory backend)", "fams": ["list", "list", "list", "list", "key"],
         "n": (1500, 5000), "count": (4, 40)},
        {"label": "list streams with eviction passes and reopen (memory backend, deterministic clock)", "fams": ["list", "list", "list", "key", "exp"],
         "n": (1200, 4000), "count": (2, 12), "ft": True, "events": {"gc": 0.08, "flush": 0.03, "reopen": 0.02, "sleep": 0.03}},
        {"label": "list streams on Pebble with eviction and reopen", "fams": ["list", "list", "list", "key"],
         "n": (600, 3000), "count": (1, 6), "backend": "pebble", "events": {"gc": 0.08, "flush": 0.03, "reopen": 0.02}},
    ], extra=[("exhaustive index pairs on lists of length 0..n", exhaustive_ranges(4 if quick else 6), False)])
    if ctx.violations:
        return
    # the command layer (argument text, option words, replies) of the same families over the network protocol
    apicheck.run_resp_streams(ctx, [
        {"label": "list commands over the network protocol (handlers: option words in any case, counts, indexes, wrong arity) against the model", "fams": ['lists', 'lists', 'lists', 'keyspace'], "n": (2500, 8000), "count": (2, 16), "conns": 1},
    ])
    # a second oracle that owes nothing to the model: the documented Redis semantics (bin/refredis.py)
    from checks import refcheck
    refcheck.run(ctx, "llk", "lists against the reference implementation of the documented semantics")
