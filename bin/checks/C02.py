"""C02 — lists behave as exact sequences (correspondence part)."""
from checks import apicheck
import vlib


def exhaustive_ranges(maxlen):
    """every (start, stop) around every small length, for each range-taking command"""
    ops = ["open a mem"]
    for n in range(0, maxlen + 1):
        key = ("l%d" % n).encode().hex()
        if n:
            ops.append(f"api RPush {key} " + " ".join("%02x" % (0x61 + i) for i in range(n)))
        for a in range(-(n + 2), n + 3):
            for b in range(-(n + 2), n + 3):
                ops.append(f"api LRange {key} {a} {b}")
            ops.append(f"api LIndex {key} {a}")
    i = 0
    for n in range(1, maxlen):
        for a in range(-(n + 1), n + 2):
            for b in range(-(n + 1), n + 2):
                i += 1
                key = ("m%d" % i).encode().hex()
                ops.append(f"api RPush {key} " + " ".join("%02x" % (0x61 + j) for j in range(n)))
                ops.append(f"api LTrim {key} {a} {b}")
                ops.append(f"api LRange {key} 0 -1")
                ops.append(f"api LLen {key}")
                ops.append(f"api Exists {key}")
            key = ("n%d" % i).encode().hex()
            ops.append(f"api RPush {key} " + " ".join("%02x" % (0x61 + j % 2) for j in range(n)))
            ops.append(f"api LSet {key} {a} 7a")
            ops.append(f"api LRem {key} 61 {a}")
            ops.append(f"api LRange {key} 0 -1")
            ops.append(f"api LLen {key}")
    ops.append("dump")
    return ops


def run(ctx, proofs_ok):
    quick = ctx.tier == "quick"
    apicheck.run_streams(ctx, [
        {"label": "random list command streams (embedded API, memory backend)", "fams": ["list", "list", "list", "list", "key"],
         "n": (1500, 5000), "count": (4, 40)},
        {"label": "list streams with eviction passes and reopen (memory backend, deterministic clock)", "fams": ["list", "list", "list", "key", "exp"],
         "n": (1200, 4000), "count": (2, 12), "ft": True, "events": {"gc": 0.08, "flush": 0.03, "reopen": 0.02, "sleep": 0.03}},
        {"label": "list streams on Pebble with eviction and reopen", "fams": ["list", "list", "list", "key"],
         "n": (600, 3000), "count": (1, 6), "backend": "pebble", "events": {"gc": 0.08, "flush": 0.03, "reopen": 0.02}},
    ], extra=[("exhaustive index pairs on lists of length 0..n", exhaustive_ranges(4 if quick else 6), False)])
    if ctx.violations:
        return
    # the command layer (argument text, option words, replies) of the same families over the network protocol
    apicheck.run_resp_streams(ctx, [
        {"label": "list commands over the network protocol (handlers: option words in any case, counts, indexes, wrong arity) against the model", "fams": ['lists', 'lists', 'lists', 'keyspace'], "n": (2500, 8000), "count": (2, 16), "conns": 1},
    ])
