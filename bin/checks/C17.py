"""C17 — no client input can crash, hang or starve the server or disturb other clients.

Proof: Props/C17.lean (the reader model returns ok or an error for every byte stream under every
fragmentation - its panic branch is unreachable -, consumes input, rejects impossible bulk sizes before
reading them; every command of the full dispatch table with any arguments is answered by exactly
one reply and a panicking handler changes nothing; connections do not influence each other's
parsing). Tie: reader model against the real reader on hostile byte streams under chosen
fragmentations (`frag` lines). Search: the `hostile` scenario on a live server with an 8 GiB address
space limit - after every attack (malformed / truncated frames, impossible sizes, inline garbage,
every command name x arities 0..6 x edge operands, random mutations of all of these) another
connection must still get prompt, correct answers; a dead server process is a violation."""
import vlib
from checks import conc, C15


def run(ctx, proofs_ok):
    q = ctx.tier == "quick"
    rng = ctx.rng
    h = vlib.build_harness(ctx)
    ops = []
    heads = [b"*-1\r\n", b"*0\r\n", b"*1\r\n$-1\r\n", b"*1\r\n$-9223372036854775808\r\n", b"*1\r\n$536870912\r\n", b"*1\r\n$536870913\r\n", b"*2147483648\r\n",
             b"*9223372036854775807\r\n$1\r\na\r\n", b"*1\r\n$99999999999999999999\r\n", b"*99999999999999999999\r\n", b"*1\r\n$ 3\r\nabc\r\n", b"*+1\r\n$+1\r\na\r\n",
             b"\r", b"\n", b"\r\r\n", b" ", b"'", b"\"", b"\\", b"' \r\n", b"\" \"\r\n", b"a\\ b\r\n", b"'a\\' b\r\n", b"\x00", b"* \r\n", b"$3\r\nabc\r\n", b"+OK\r\n",
             # inline (non-RESP) command lines with quotes: empty quoted arguments first / in the middle / last
             b'RPUSH k first "" tail\r\n', b'"" a\r\n', b"'' a\r\n", b'SET k ""\r\n', b"SET k ''\r\n", b'""\r\n', b"''\r\n", b'ECHO "a" "" \'\'\r\n',
             b'"\\\\"\r\n', b'a ""\r\n', b'a "" \r\n', b'"" ""\r\n', b'x "\\"" y\r\n', b"x '\\'' y\r\n", b'"a""b"\r\n', b'"\r\n', b'""', b'" "\r\n']
    for hd in heads:
        for tail in (b"", b"*1\r\n$4\r\nPING\r\n", b"PING\r\n"):
            s = hd + tail
            ops.append(C15.frag_line([s]))
            ops.append(C15.frag_line([s[i:i + 1] for i in range(len(s))]))
    for _ in range(800 if q else 20000):
        s = C15.malformed(rng)
        if rng.random() < 0.5:
            s = rng.choice(heads) + s
        ops.append(C15.frag_line(C15.cuts(s, [rng.randrange(1, max(2, len(s))) for _ in range(rng.randrange(0, 4))])))
    for i in range(0, len(ops), 10000):
        vlib.correspond_stateless(ctx, h, ops[i:i + 10000], f"hostile{i//10000}", "reader model vs real reader: impossible sizes, truncated frames, inline garbage, noise")
    if ctx.violations:
        return
    conc.run_scenarios(ctx, [("hostile", 2 if q else 12, 0)], "hostile clients against a live server with a canary connection", mem_limit=True, prog_replay=False)
