"""Every writing method of the embedded API applied once to keys that have just been reloaded from
storage (clean: stored, not modified; cold: value not in memory) - each on keys of its own - followed by
Close + Open. What the writer changed must be what the reopened instance has (C11), also when an eviction
pass runs in between (C12). Two-key commands get a clean source AND a clean destination."""
from gen_api import fbits

ONE = fbits(1.0)
TWO = fbits(2.0)
FAR = 4102444800000

# (method + args) with K = the writer's own key, S = a second key of the same type, N = a missing key
WRITERS = {
    "str": ["Set K 6e6577 0", "Set K 6e6577 1", "SetNX N 6e6577 0", "SetXX K 6e6577 0", "GetSet K 6e6577", "Append K 7a", "Incr K", "Decr K", "IncrBy K 5", "DecrBy K 5",
            f"IncrByFloat K {TWO}", "SetRange K 1 7a7a", "SetBit K 9 1", "SetEX K 6e6577 1000000", "SetPX K 6e6577 1000000000", "MSet K 6e6577 S 6e32",
            "Del K", "Unlink K", "Rename K N", "Rename K S", "RenameNX K N", f"ExpireAt K {FAR}", "Expire K 1000000", "ExpirePX K 1000000000", "Persist K"],
    "list": ["RPush K 6e", "LPush K 6e 6f", "RPushX K 6e", "LPushX K 6e", "LPop K 1", "RPop K 1", "LPop K 100", "LSet K 0 6e", "LTrim K 0 0", "LRem K 61 0",
             "LInsert K 61 6e 1", "RPopLPush K S", "RPopLPush K N", "LPopRPush K S", "RPopLPush K K", "Del K", "Rename K S", f"ExpireAt K {FAR}", "Persist K"],
    "hash": ["HSet K 6e 76", "HSet K 66 6e6577", "HSetNX K 6e 76", "HMSet K [ 6e 76 6f 77 ]", "HDel K 66", "HDel K 66 67", "HIncrBy K 6e 5", f"HIncrByFloat K 6e {TWO}", "HClear K",
             "Del K", "Rename K N", f"ExpireAt K {FAR}", "Persist K"],
    "set": ["SAdd K 6e", "SRem K 61", "SRem K 61 62", "SPop K 1", "SPop K 100", "SMove K S 61", "SMove K N 61", "SMove K S 62", "SMove K K 61", "SInterStore K K S", "SUnionStore K K S",
            "SDiffStore K K S", "SUnionStore N K S", "SDiffStore S K S", "Del K", "Rename K S", f"ExpireAt K {FAR}", "Persist K"],
    "zset": [f"ZAdd K 6e {TWO}", f"ZAdd K 61 {TWO}", f"ZAddNX K 6e {TWO}", f"ZAddXX K 61 {TWO}", f"ZAddGT K 61 {TWO}", f"ZAddLT K 62 {ONE}", f"ZIncrBy K 61 {ONE}", "ZRem K 61", "ZRem K 61 62",
             "ZRemRangeByRank K 1 1", f"ZRemRangeByScore K {ONE} {ONE} 0", "ZClear K", "Del K", "Rename K N", f"ExpireAt K {FAR}", "Persist K"],
}
SETUP = {
    "str": lambda k: [f"api Set {k} 3130 0"],
    "list": lambda k: [f"api RPush {k} 61 62 63"],
    "hash": lambda k: [f"api HSet {k} 66 3130", f"api HSet {k} 67 78"],
    "set": lambda k: [f"api SAdd {k} 61 62 63"],
    "zset": lambda k: [f"api ZAdd {k} 61 {ONE}", f"api ZAdd {k} 62 {TWO}"],
}
# the second key holds other elements than the first (a move / store into it must be visible)
SETUP2 = {
    "str": lambda k: [f"api Set {k} 3230 0"],
    "list": lambda k: [f"api RPush {k} 78 79"],
    "hash": lambda k: [f"api HSet {k} 78 79"],
    "set": lambda k: [f"api SAdd {k} 62 78 79"],
    "zset": lambda k: [f"api ZAdd {k} 78 {ONE}"],
}
PREFIX = {"str": "73", "list": "6c", "hash": "68", "set": "74", "zset": "7a"}


RELATIVE = ("SetEX", "SetPX", "Expire", "ExpirePX")     # deadline = the instant of the command + a duration


def table(open_line, evict_between=False, with_deadline=False, relative=False):
    """relative: include the commands whose deadline depends on the instant of the command - only on the
    deterministic clock (on the wall clock the harness's and the implementation's clock reads can fall
    into different milliseconds)"""
    ops = [open_line]
    body = []
    for typ, ws in WRITERS.items():
        for i, w in enumerate(ws):
            if w.split()[0] in RELATIVE and not relative:
                continue
            K, S, N = (f"{PREFIX[typ]}{i:02x}{suffix}" for suffix in ("4b", "53", "4e"))
            ops += SETUP[typ](K) + SETUP2[typ](S)
            if with_deadline:
                ops += [f"api ExpireAt {K} {FAR + 1000}", f"api ExpireAt {S} {FAR + 2000}"]
            body.append("api " + " ".join({"K": K, "S": S, "N": N}.get(t, t) for t in w.split()))
    ops += ["ldump", "close", "reopen", "ldump"]          # everything is clean and cold now
    for j, b in enumerate(body):
        ops.append(b)
        if evict_between and j % 7 == 3:
            ops.append("gc")
    ops += ["gc"] if evict_between else []
    ops += ["ldump", "close", "reopen", "ldump", "gc", "ldump", "close", "reopen", "ldump", "dump"]
    return ops
