"""C09 — WATCH is sound optimistic locking (correspondence part)."""
from checks import apicheck
from gen_api import hx, fbits

WRITERS = [
    ("SET", "K", "v"), ("SET", "K", "v", "NX"), ("SET", "K", "v", "XX"), ("SETNX", "K", "v"), ("GETSET", "K", "v"), ("APPEND", "K", "x"),
    ("INCR", "K"), ("DECR", "K"), ("INCRBY", "K", "5"), ("DECRBY", "K", "5"), ("INCRBYFLOAT", "K", "2"), ("SETRANGE", "K", "1", "z"), ("SETBIT", "K", "3", "1"),
    ("MSET", "K", "v", "other", "w"), ("DEL", "K"), ("UNLINK", "K"), ("DEL", "other", "K"), ("EXPIREAT", "K", "4102444801"), ("EXPIRE", "K", "0"), ("EXPIREAT", "K", "4102444800"),
    ("PERSIST", "K"), ("RENAME", "K", "dst"), ("RENAME", "src", "K"), ("RENAMENX", "K", "dst"), ("RENAMENX", "src", "K"), ("FLUSHDB",), ("FLUSHALL",),
    ("LPUSH", "K", "a"), ("RPUSH", "K", "a"), ("LPOP", "K"), ("RPOP", "K"), ("LPUSHX", "K", "a"), ("LSET", "K", "0", "q"), ("LTRIM", "K", "0", "0"), ("LREM", "K", "0", "a"),
    ("LINSERT", "K", "BEFORE", "a", "n"), ("RPOPLPUSH", "K", "dst"), ("RPOPLPUSH", "src", "K"), ("LPOPRPUSH", "K", "dst"),
    ("HSET", "K", "f", "v"), ("HSETNX", "K", "f", "v"), ("HMSET", "K", "f", "v"), ("HDEL", "K", "f"), ("HINCRBY", "K", "f", "1"), ("HCLEAR", "K"),
    ("SADD", "K", "m"), ("SREM", "K", "m"), ("SPOP", "K"), ("SMOVE", "K", "dst", "m"), ("SMOVE", "src", "K", "m"), ("SINTERSTORE", "K", "src"), ("SUNIONSTORE", "K", "src"),
    ("SDIFFSTORE", "K", "src"), ("ZADD", "K", "1", "m"), ("ZADD", "K", "XX", "5", "m"), ("ZINCRBY", "K", "1", "m"), ("ZREM", "K", "m"), ("ZREMRANGEBYRANK", "K", "0", "0"),
    ("ZREMRANGEBYSCORE", "K", "0", "9"), ("ZUNIONSTORE", "K", "1", "src"), ("ZINTERSTORE", "K", "1", "src"), ("ZCLEAR", "K"),
    # writes that remove the key by leaving nothing: a *STORE whose result is empty deletes its destination; the last
    # elements popped / trimmed / removed unlink the key
    ("SINTERSTORE", "K", "nokey"), ("SUNIONSTORE", "K", "nokey"), ("SDIFFSTORE", "K", "nokey"), ("SDIFFSTORE", "K", "nokey", "K"),
    ("ZUNIONSTORE", "K", "1", "nokey"), ("ZINTERSTORE", "K", "1", "nokey"), ("ZUNIONSTORE", "K", "2", "nokey", "nokey2"), ("ZINTERSTORE", "K", "2", "K", "nokey"),
    ("LPOP", "K", "5"), ("RPOP", "K", "5"), ("LTRIM", "K", "5", "9"), ("LREM", "K", "0", "b"), ("SPOP", "K", "9"), ("SREM", "K", "m", "n"),
    ("ZREM", "K", "m", "n"), ("ZREMRANGEBYRANK", "K", "0", "-1"), ("ZREMRANGEBYSCORE", "K", "-inf", "+inf"), ("HDEL", "K", "f", "g"),
]
NONWRITERS = [("GET", "K"), ("EXISTS", "K"), ("TYPE", "K"), ("TTL", "K"), ("STRLEN", "K"), ("LRANGE", "K", "0", "-1"), ("HGETALL", "K"), ("SMEMBERS", "K"),
              ("ZCARD", "K"), ("SET", "unrelated", "v"), ("DEL", "unrelated"), ("KEYS", "*"), ("SCAN", "0")]
TYPES = {"none": [], "str": [("SET", "K", "10")], "list": [("RPUSH", "K", "a", "b")], "hash": [("HSET", "K", "f", "1")],
         "set": [("SADD", "K", "m", "n")], "zset": [("ZADD", "K", "1", "m", "2", "n")]}


CASES = []      # (index of the first dump, watched key, command text, issuer)


def direct_oracle(ctx, ops, g):
    """On the implementation alone: if the command in the window changed the watched key's record
    (its dump entry differs) the EXEC must reply null and the marker must not exist; if nothing in the
    keyspace changed at all, the EXEC must run."""
    import re, vlib
    checked = aborted = 0
    for (i, K, text, who) in CASES:
        if i + 5 >= len(g):
            break
        before, after, exec_reply, marker = g[i], g[i + 2], g[i + 5], g[i + 6]
        if before.startswith("#") or after.startswith("#"):
            continue            # digest only: cannot compare entries
        kh = K.encode().hex()
        ent = lambda d: [e for e in d.split(" ")[1:] if e.startswith(kh + "@")]
        changed = ent(before) != ent(after)
        checked += 1
        if changed:
            aborted += 1
            if exec_reply != "$N" or marker != ":0":
                vlib.record_violation(ctx, "watch-unsound", {"ops": ops[:i + 7], "impl": g[:i + 7], "model": [], "watched": K, "command": text, "issuer": who,
                                                              "explain": "the watched key's record changed between WATCH and EXEC but the EXEC ran (reply / marker in the last lines)"})
                return
        elif before == after and exec_reply == "$N" and any(text.split()[0] == nw[0] and ("unrelated" in text) == ("unrelated" in nw) for nw in NONWRITERS):
            # (only commands that do not write the watched key at all must never abort: a write that happens
            #  to store the same value, or a flush, may)
            vlib.record_violation(ctx, "watch-spurious-abort", {"ops": ops[:i + 7], "impl": g[:i + 7], "model": [], "watched": K, "command": text,
                                                                 "explain": "nothing in the keyspace changed between WATCH and EXEC but the EXEC was aborted"})
            return
    ctx.cov["watch_windows_checked_on_impl"] = checked
    ctx.cov["watch_windows_with_a_changed_key"] = aborted


def window():
    """for every writing command W and every prior type of the watched key: WATCH K; (other client) W;
    MULTI; SET marker; EXEC — and the same with non-writers; plus W issued by the watcher itself"""
    c = lambda conn, args: f"resp {conn} " + " ".join(hx(x) for x in args)
    ops = ["open a mem", "conn c1", "conn c2", "conn c3"]
    i = 0
    for who in ("c2", "c1"):
        for typ, setup in TYPES.items():
            for w in WRITERS + NONWRITERS:
                i += 1
                K = f"w{i}"
                sub = lambda args: tuple(K if a == "K" else (f"src{i}" if a == "src" else (f"dst{i}" if a == "dst" else a)) for a in args)
                for st in setup:
                    ops.append(c("c2", sub(st)))
                if any(a == "src" for a in w):
                    ops.append(c("c2", sub(TYPES["list"][0] if w[0] in ("RPOPLPUSH",) else (("SADD", "src", "m") if w[0].startswith("S") else (("ZADD", "src", "1", "m") if w[0].startswith("Z") else ("SET", "src", "1"))))))
                ops.append(c("c1", ("WATCH", K)))
                ops.append("dump")
                ops.append(c(who, sub(w)))
                ops.append("dump")
                ops += [c("c1", ("MULTI",)), c("c1", ("SET", f"marker{i}", "done")), c("c1", ("EXEC",)), c("c1", ("EXISTS", f"marker{i}"))]
                CASES.append((len(ops) - 7, K, " ".join(sub(w)), who))
                ops.append(c("c2", ("FLUSHDB",)))        # keep the keyspace (and the dumps) small
    # watches end: a write after EXEC / DISCARD / UNWATCH must not influence the next transaction
    for ender in (("EXEC",), ("DISCARD",), ("UNWATCH",)):
        i += 1
        K = f"e{i}"
        ops += [c("c1", ("WATCH", K)), c("c1", ("MULTI",)) if ender[0] != "UNWATCH" else c("c1", ("PING",)), c("c1", ender), c("c2", ("SET", K, "changed")),
                c("c1", ("MULTI",)), c("c1", ("SET", f"m{i}", "1")), c("c1", ("EXEC",)), c("c1", ("EXISTS", f"m{i}"))]
    # several connections watch one key; one of them ends its watch (EXEC / DISCARD / UNWATCH, having
    # watched first or last); a later write must still abort every remaining watcher, and only those
    for ender in (("EXEC",), ("DISCARD",), ("UNWATCH",)):
        for order in (("c1", "c3"), ("c3", "c1")):
            i += 1
            K = f"m{i}"
            ops += [c("c2", ("SET", K, "0"))]
            ops += [c(conn, ("WATCH", K)) for conn in order]
            # c3 ends its watch without any write in between
            ops += [c("c3", ("MULTI",)) if ender[0] != "UNWATCH" else c("c3", ("PING",)), c("c3", ender)]
            ops += [c("c2", ("SET", K, "99"))]
            ops += [c("c1", ("MULTI",)), c("c1", ("SET", K, "11")), c("c1", ("EXEC",)), c("c1", ("GET", K))]
            # and the connection that left is not aborted by that write
            ops += [c("c3", ("MULTI",)), c("c3", ("SET", K, "33")), c("c3", ("EXEC",)), c("c3", ("GET", K))]
    # a second WATCH (of the same key, of the same key among others, of other keys) between the change
    # and the EXEC must not forget the change; watching twice without a change must not invent one
    for j, rewatch in enumerate((("K",), ("K", "other"), ("other", "K"), ("other",), ("K", "K"))):
        for changed in (True, False):
            i += 1
            K = f"r{i}"
            keys = tuple(K if a == "K" else f"o{i}" for a in rewatch)
            ops += [c("c2", ("SET", K, "0")), c("c1", ("WATCH", K))]
            if changed:
                ops.append(c("c2", ("SET", K, "99")))
            ops += [c("c1", ("WATCH",) + keys), c("c1", ("MULTI",)), c("c1", ("SET", K, "11")), c("c1", ("EXEC",)), c("c1", ("GET", K))]
            # the same with the change being the key's removal - by DEL, by a flush (which touches the whole watch
            # registry), by expiry at once - before the second WATCH
            if changed:
                for how in (("DEL", "K"), ("FLUSHALL",), ("FLUSHDB",), ("EXPIRE", "K", "0"), ("RENAME", "K", "elsewhere")):
                    i += 1
                    K = f"r{i}"
                    keys = tuple(K if a == "K" else f"o{i}" for a in rewatch)
                    ops += [c("c2", ("SET", K, "0")), c("c1", ("WATCH", K)), c("c2", tuple(K if a == "K" else a for a in how)),
                            c("c1", ("WATCH",) + keys), c("c1", ("MULTI",)), c("c1", ("SET", K, "11")), c("c1", ("EXEC",)), c("c1", ("GET", K))]
    ops.append("dump")
    return ops


def run(ctx, proofs_ok):
    CASES.clear()
    wops = window()
    apicheck.run_resp_streams(ctx, [
        {"label": "WATCH/MULTI/EXEC with an interfering connection over all families", "fams": ["strings", "keyspace", "lists", "hashes", "sets", "zs", "geo", "tx", "tx", "tx"],
         "n": (2500, 8000), "count": (3, 30), "conns": 2},
    ], extra=[("every writing command x every prior type inside the WATCH..EXEC window (issued by another client and by the watcher), non-writers, watch endings", wops)])
    try:
        g = open(f"{ctx.work}/ex-every.g").read().split("\n")
        direct_oracle(ctx, wops, g)
    except FileNotFoundError:
        pass
    if ctx.violations:
        return
    # GEOADD has no model of its replies; its effect on watchers is checked on the implementation alone:
    # the watched key's record changes in the window => EXEC replies null
    import vlib
    c = lambda conn, *a: f"resp {conn} " + " ".join(hx(x) for x in a)
    geo, cases = ["open a mem", "conn c1", "conn c2"], []
    for i, (setup, w) in enumerate([((), ("GEOADD", "K", "13.361389", "38.115556", "Palermo")), ((("GEOADD", "K", "1", "1", "m"),), ("GEOADD", "K", "2", "2", "m")),
                                    ((("ZADD", "K", "1", "m"),), ("GEOADD", "K", "15.087269", "37.502669", "Catania")), ((("GEOADD", "K", "1", "1", "m"),), ("GEOADD", "K", "3", "3", "n", "4", "4", "o"))]):
        K = f"gw{i}"
        sub = lambda args: tuple(K if a == "K" else a for a in args)
        geo += [c("c2", *sub(st)) for st in setup] + [c("c1", "WATCH", K), "dump", c("c2", *sub(w)), "dump", c("c1", "MULTI"), c("c1", "SET", f"gm{i}", "1"), c("c1", "EXEC"), c("c1", "EXISTS", f"gm{i}")]
        cases.append((len(geo) - 7, K, " ".join(sub(w))))
    # ... and, since the GEO commands have a model (Model/Handler4.lean), the same windows against the model: GEOADD's
    # reply, the watch flag it sets, EXEC's null
    hg = vlib.build_harness(ctx)
    if vlib.correspond_stream(ctx, hg, geo, "geowatch", "GEOADD inside a WATCH .. EXEC window of another connection (reply, watch signal, EXEC's null) against the model"):
        return
    g, _ = vlib.run_pair(ctx, geo, hg, "geo")
    ctx.cov["evaluations"] += len(geo)
    for (i, K, text) in cases:
        if i + 6 < len(g):
            kh = K.encode().hex()
            ent = lambda d: [e for e in d.split(" ")[1:] if e.startswith(kh + "@")]
            if ent(g[i]) != ent(g[i + 2]) and (g[i + 5] != "$N" or g[i + 6] != ":0"):
                vlib.record_violation(ctx, "watch-unsound", {"ops": geo[:i + 7], "impl": g[:i + 7], "model": [], "watched": K, "command": text,
                                                              "explain": "the watched key's record was changed by GEOADD between WATCH and EXEC but the EXEC ran"})
                return
            ctx.cov["geo_watch_windows_checked_on_impl"] = ctx.cov.get("geo_watch_windows_checked_on_impl", 0) + 1
    # real concurrency: the optimistic WATCH / GET / MULTI / SET / EXEC loop never loses an update
    from checks import conc
    q = ctx.tier == "quick"
    conc.run_scenarios(ctx, [("tcp-watch-incr", 10 if q else 100, w) for w in ((0, 25) if q else (0, 10, 30, 60))],
                       "optimistic increment loop on 5 connections")
    if ctx.violations:
        return
    # the watch check is atomic with the queued bodies also against blocking pops (gate protocol, `gev` lines)
    conc.run_scenarios(ctx, [("tcp-watch-bpop", 4 if q else 40, 0), ("tcp-exec-bpop", 6 if q else 60, 0)],
                       "WATCH / EXEC against blocking pops of other connections")
